/-
  C20 — codec results do not depend on concurrency or call history.

  What is proved (model: `Model/Cache.lean`; the per-message codec is `Model/Plan.lean`):

    1  `cache_transparent`     every interleaving of any number of goroutines that run `encodeFuncFor` /
                               `decodeFuncFor` (Load · Build with nested calls · Store) on any types, from a
                               cold or a warm cache: every plan anybody obtains for `ty` is `build ty`, the
                               cache only ever holds pairs `(ty, build ty)`; results are those of a
                               sequential run / a fresh process. ASSUMES: `sync.Map` Load/Store atomic; the plan
                               builder is a function of the type and its sub-plans (`Builder.combine`).
    2  `encoder_reuse`         an `Encoder` is modelled with the state Go keeps between calls: version cell, output
                               buffer WITH its spare capacity and the stale bytes of earlier messages, identity of
                               the backing array, and for XML the `xml.Encoder` (element stack, indentation flags,
                               unflushed output). `Clear` is what the code does (cell := nil, `buf[:0]` / `Reset`,
                               a new `xml.Encoder`), NOT "become fresh". Proved: after any history — typed
                               messages, direct writer calls, calls that panicked at any point inside any number
                               of open structures — and a `Clear`, every continuation is OBSERVED (return /
                               panic of each call, content of each `Bytes()`) exactly as on a new encoder, on the
                               binary, XML, JSON and text writers, for every token rendering (`Render`).
                               The proof is an invariant: `Eqv` (same cell, visible bytes, xml.Encoder state;
                               capacity / stale bytes / array identity ignored) is preserved by every writer call
                               (`eqv_indistinguishable`) and `Clear` reaches `Eqv fresh` from any state
                               (`clear_from_any_state`). An operation that looked at the spare capacity would break
                               it (`reading_spare_capacity_is_history_dependent`).
       `binary_writer_appends_enc`   the binary writer (placeholder length patched after the children) appends
                               exactly `Wire.enc` of the items, whatever the backing array holds.
       `bytes_stable_until_clear`, `bytes_alias_overwritten`   `Bytes()` returns the internal array (documented):
                               the slice keeps its content until the next `Clear`; after `Clear` + encode it shows
                               the NEW message. Callers must copy or consume it before (assumption of C20).
       `version_leaks_without_clear`   the honest companion: WITHOUT `Clear` the cell left by one message gates
                               the fields of a following header-less value (documented contract of `Clear`).
       `full_message_ignores_cell`     …but a Request/ResponseMessage sets the cell from its own header before
                               anything reads it: whole messages are immune even without `Clear`.
       `old_xml_clear_after_abort`, `old_xml_reuse_full_false`   the defect this property found (fixed in /repo
                               55f108f), on an explicit model of the old `xmlWriter.Clear`.
    3  `fresh_encoder_is_marshal`   `Bytes(new encoder; encode m)` = `MarshalTTLV(m)`.
    4  `nested_shares_cell`    within one message every nested field loop sees the header's version
                               (= C05.message_gated_by_header_version), and `Clear` empties the cell.

  NOT proved here: data-race freedom. The Go memory model is not modelled; the atomicity of `sync.Map.Load` /
  `Store` is an assumption of the step relation (DESIGN §7). That part of C20 is reduced to structural facts
  checked on the Go sources plus race-detector runs by the `cache` engine (go/cmd/harness/cache.go).
  Token texts (`Render`), `encoding/xml`'s printer as transcribed in `XmlEnc`, `bytes.Buffer` and `append` as
  transcribed in `GoBuf` are modelling assumptions, tied to the code by the `enc.hist` correspondence lines
  (byte-exact on all four writers, including the output of calls that panicked).
-/
import KmipModel.Lemmas.CacheLemmas
import KmipModel.Lemmas.CacheReuseLemmas
import KmipModel.Lemmas.CacheCellLemmas
import KmipModel.Gen.Schema
namespace Kmip.C20
open Kmip Kmip.Cache

/-! ## 1 — the plan cache is transparent under every interleaving -/

/-- 1a. **Every schedule** (a list of thread ids of any length; ids out of range stutter), any number of
    goroutines, each with any list of requests, starting from a cold process:
    * the cache only holds genuine plans;
    * what goroutine `t` has obtained so far is `(ty, build ty)` for the first `n` of its requests, in order;
    * once it has finished, it has obtained `(ty, build ty)` for all of them —
    i.e. exactly what a fresh process running the requests one after the other obtains. -/
theorem cache_transparent {P : Type} (B : Builder P) (build : TypeId → P) (hb : IsBuild B build)
    (reqs : List (List TypeId)) (sched : List Nat) :
    (∀ x ∈ (run B (init reqs) sched).cache, x.2 = build x.1) ∧
    (∀ (t : Nat) (th : Thread P), (run B (init reqs) sched).threads[t]? = some th →
      ∃ r, reqs[t]? = some r ∧
        th.results = (r.take th.results.length).map (fun ty => (ty, build ty)) ∧
        (th.done = true → th.results = r.map fun ty => (ty, build ty))) := by
  rw [init_eq_start]
  exact transparent_from hb [] (fun _ h => nomatch h) reqs sched

/-- 1b. The same from a **warm** cache left by any earlier history (any cache holding genuine plans — by 1a
    and 1c that is every cache the process can ever have): first-use order does not matter. -/
theorem cache_transparent_warm {P : Type} (B : Builder P) (build : TypeId → P) (hb : IsBuild B build)
    (c : List (TypeId × P)) (hc : ∀ x ∈ c, x.2 = build x.1) (reqs : List (List TypeId))
    (sched : List Nat) :
    (∀ x ∈ (run B (start c reqs) sched).cache, x.2 = build x.1) ∧
    (∀ (t : Nat) (th : Thread P), (run B (start c reqs) sched).threads[t]? = some th →
      ∃ r, reqs[t]? = some r ∧
        th.results = (r.take th.results.length).map (fun ty => (ty, build ty)) ∧
        (th.done = true → th.results = r.map fun ty => (ty, build ty))) :=
  transparent_from hb c hc reqs sched

/-- 1c. The inductive invariant itself: preserved by every step of every goroutine (so it holds along every
    schedule). It covers the plans held in local variables and in half-built closures too. -/
theorem cache_invariant {P : Type} (B : Builder P) (build : TypeId → P) (hb : IsBuild B build)
    (s : State P) (h : Inv B build s) (sched : List Nat) : Inv B build (run B s sched) :=
  run_inv hb sched h

/-- 1d. Two processes that serve the same requests under two different schedules (e.g. one of them purely
    sequential) and both finish hand every goroutine the same results. -/
theorem schedule_irrelevant {P : Type} (B : Builder P) (build : TypeId → P) (hb : IsBuild B build)
    (reqs : List (List TypeId)) (s1 s2 : List Nat) (t : Nat) (th1 th2 : Thread P)
    (h1 : (run B (init reqs) s1).threads[t]? = some th1) (d1 : th1.done = true)
    (h2 : (run B (init reqs) s2).threads[t]? = some th2) (d2 : th2.done = true) :
    th1.results = th2.results := by
  obtain ⟨r1, e1, _, f1⟩ := (cache_transparent B build hb reqs s1).2 t th1 h1
  obtain ⟨r2, e2, _, f2⟩ := (cache_transparent B build hb reqs s2).2 t th2 h2
  rw [e1] at e2; cases e2
  rw [f1 d1, f2 d2]

/-- the number of goroutines never changes and their requests are served in order. -/
theorem requests_in_order {P : Type} (B : Builder P) (reqs : List (List TypeId)) (sched : List Nat) :
    (run B (init reqs) sched).threads.map Thread.trace = reqs := by
  rw [init_eq_start, run_traces, start_traces]

/-! ### non-vacuity: a builder with nested dependencies, and contended schedules -/

/-- type `n+1` is built from the plan of type `n` (a pointer to, a slice of, a struct holding …). -/
def chainB : Builder Nat where
  deps ty := match ty with | 0 => [] | n + 1 => [n]
  combine ty subs := ty + 2 * subs.sum

def chainBuild : Nat → Nat
  | 0 => 0
  | n + 1 => (n + 1) + 2 * (chainBuild n + 0)

theorem chain_isBuild : IsBuild chainB chainBuild := by
  intro ty
  cases ty <;> simp [chainB, chainBuild]

/-- two goroutines ask for type 2 at the same time from a cold cache; the schedule makes BOTH miss on 2, on 1
    and on 0, both build all three plans and both store them (six Stores in all): -/
def contended : List Nat :=
  [0, 1, 0, 1,  0, 1, 0, 1,  0, 1, 0, 1,  0, 1, 0, 1,  0, 1, 0, 1,  0, 1, 0, 1,  0, 1, 0, 1,  0, 1, 0, 1,
   0, 1, 0, 1,  0, 1, 0, 1]

example : (run chainB (init [[2, 1], [2]]) contended).done = true := by decide
example : (run chainB (init [[2, 1], [2]]) contended).cache.length = 6 := by decide
example : (run chainB (init [[2, 1], [2]]) contended).threads.map (·.results)
    = [[(2, chainBuild 2), (1, chainBuild 1)], [(2, chainBuild 2)]] := by decide
/-- a sequential schedule (thread 0 completely, then thread 1, which only hits): 3 Stores, same results. -/
example : (run chainB (init [[2, 1], [2]]) (List.replicate 20 0 ++ List.replicate 5 1)).done = true ∧
    (run chainB (init [[2, 1], [2]]) (List.replicate 20 0 ++ List.replicate 5 1)).cache.length = 3 ∧
    (run chainB (init [[2, 1], [2]]) (List.replicate 20 0 ++ List.replicate 5 1)).threads.map (·.results)
      = [[(2, chainBuild 2), (1, chainBuild 1)], [(2, chainBuild 2)]] := by decide
/-- the invariant is not trivially true: a cache holding a foreign plan violates it, and a goroutine that
    hits it obtains that plan. -/
example : ((run chainB (start [(2, 77)] [[2]]) [0, 0]).threads.map (·.results)) = [[(2, 77)]] := by decide

/-- The real types: the dependency graph read off the regenerated schema (`schemaBuilder`) is well founded —
    the plan computed with depth bound 64 is a fixed point on every type id of the schema — so `build` exists
    for it (this is also why `encodeFuncFor` terminates: it would recurse forever on a cyclic type). -/
def genBuild : TypeId → List Nat := buildFuel (schemaBuilder Gen.schema) [] 64

def genBound : Nat := 2 * (max Gen.schema.structs.length Gen.schema.dyns.length)

theorem gen_build_fixpoint_in_range :
    (List.range genBound).all (fun ty =>
      genBuild ty == (schemaBuilder Gen.schema).combine ty (((schemaBuilder Gen.schema).deps ty).map genBuild))
      = true := by decide +kernel

theorem gen_isBuild : IsBuild (schemaBuilder Gen.schema) genBuild := by
  intro ty
  by_cases h : ty < genBound
  · have := List.all_eq_true.1 gen_build_fixpoint_in_range ty (List.mem_range.2 h)
    exact eq_of_beq this
  · -- outside the schema there is nothing to depend on
    have hd : (schemaBuilder Gen.schema).deps ty = [] := by
      have hb : genBound ≤ ty := Nat.le_of_not_lt h
      unfold genBound at hb
      simp only [schemaBuilder]
      split
      · have : Gen.schema.dyns.length ≤ ty / 2 := by omega
        unfold Schema.dyn
        rw [getD_default_of_le _ _ _ this]; rfl
      · have : Gen.schema.structs.length ≤ ty / 2 := by omega
        unfold Schema.structDef
        rw [getD_default_of_le _ _ _ this]; rfl
    show buildFuel (schemaBuilder Gen.schema) [] 64 ty = _
    rw [buildFuel, hd]; simp only [List.map_nil]

/-- 1e. `cache_transparent` for the library's own types: every interleaving of goroutines encoding any of the
    schema's types from a cold process obtains the genuine plans. -/
theorem gen_cache_transparent (reqs : List (List TypeId)) (sched : List Nat) :
    (∀ x ∈ (run (schemaBuilder Gen.schema) (init reqs) sched).cache, x.2 = genBuild x.1) ∧
    (∀ (t : Nat) (th : Thread (List Nat)),
      (run (schemaBuilder Gen.schema) (init reqs) sched).threads[t]? = some th →
      ∃ r, reqs[t]? = some r ∧
        th.results = (r.take th.results.length).map (fun ty => (ty, genBuild ty)) ∧
        (th.done = true → th.results = r.map fun ty => (ty, genBuild ty))) :=
  cache_transparent _ _ gen_isBuild reqs sched

/-- two goroutines encode their first RequestMessage (dyn 0 ↦ type id 0) and ResponseMessage (type id 2)
    simultaneously from a cold process; both build the nested header / ProtocolVersion / … plans. -/
example : (run (schemaBuilder Gen.schema) (init [[0, 2], [2, 0]]) (roundRobin 2 200)).done = true ∧
    (run (schemaBuilder Gen.schema) (init [[0, 2], [2, 0]]) (roundRobin 2 200)).threads.map (·.results)
      = [[(0, genBuild 0), (2, genBuild 2)], [(2, genBuild 2), (0, genBuild 0)]] ∧
    4 < (genBuild 0).length := by decide +kernel

/-! ## 2 — a reused encoder -/

/-- 2a. **`Clear` from ANY state** — any cell, any buffer content, capacity and stale bytes, any element stack /
    pending output / flags of the `xml.Encoder` (e.g. what a call that panicked inside three open structures
    left) — returns normally and leads to a state `Eqv` to the new encoder's. Not by definition: `clearOp` keeps
    the backing array (`buf[:0]`), so the two states DIFFER (`cleared_is_not_fresh`). -/
theorem clear_from_any_state (st : Encoder) : Eqv (clearOp st).1 (fresh st.be) ∧ (clearOp st).2 = true :=
  clearOp_eqv_fresh st

/-- 2b. **What `Eqv` ignores is unobservable**: two states with the same back end, cell, visible bytes and
    xml.Encoder state — whatever their capacities, stale bytes and backing arrays — yield the same observations
    (normal return or panic of every call, content of every `Bytes()`) under every history, and stay `Eqv`.
    This is the invariant: every writer call of every back end preserves it (`wCall_eqv`; for the binary writer
    it needs that the length patch of `Struct` always lands inside the slice, `wCall_framesOk`). -/
theorem eqv_indistinguishable (R : Render) (S : Schema) (ops : List Op) (s1 s2 : Encoder) (h : Eqv s1 s2) :
    (runOps R S s1 ops).2 = (runOps R S s2 ops).2 ∧ Eqv (runOps R S s1 ops).1 (runOps R S s2 ops).1 :=
  ⟨(runOps_eqv R S ops h).2, (runOps_eqv R S ops h).1⟩

/-- 2c. **History independence**: from any state `st0`, after ANY history `h` (typed messages of any version,
    direct writer calls, calls aborted by a panic anywhere — `Op.raw cs true`, `Junk` — `Bytes`, earlier
    `Clear`s) and a `Clear`, every continuation `ops` is observed exactly as on a NEW encoder of that back end
    (binary, XML, JSON or text), and ends in an equivalent state. For every rendering `R` of the tokens. -/
theorem encoder_reuse (R : Render) (S : Schema) (st0 : Encoder) (h ops : List Op) :
    (runOps R S st0 (h ++ .clear :: ops)).2 =
        (runOps R S st0 h).2 ++ ⟨true, none⟩ :: (runOps R S (fresh st0.be) ops).2 ∧
    Eqv (runOps R S st0 (h ++ .clear :: ops)).1 (runOps R S (fresh st0.be) ops).1 :=
  history_independent R S st0 h ops

/-- 2d. the full statement, from a new encoder of every back end. -/
theorem C20_reuse_full (R : Render) (S : Schema) (be : Backend) (h ops : List Op) :
    (runOps R S (fresh be) (h ++ .clear :: ops)).2 =
      (runOps R S (fresh be) h).2 ++ ⟨true, none⟩ :: (runOps R S (fresh be) ops).2 :=
  (encoder_reuse R S (fresh be) h ops).1

/-- 2e. The binary writer in ANY state (any stale content under the slice being extended): a typed encode that
    the codec completes returns normally and appends exactly `encList items` — the bytes `Wire.enc` specifies,
    with every structure's placeholder patched to the length of its children. -/
theorem binary_writer_appends_enc (R : Render) (S : Schema) (st : Encoder) (m : Msg) (j : Junk)
    (items : List Item) (c1 : Option Ver) (hbe : st.be = .ttlv)
    (he : encodeFrom S m st.cell = .ok (items, c1)) :
    (encodeOp R S st m j).2 = true ∧ (encodeOp R S st m j).1.buf.vis = st.buf.vis ++ encList items ∧
      (encodeOp R S st m j).1.cell = c1 :=
  encodeOp_ttlv_ok R S st m j items c1 hbe he

/-- 2f. In particular the bytes: `…; Clear; encode m; Bytes()` returns `MarshalTTLV(m)` after every history. -/
theorem encoder_reuse_bytes (R : Render) (S : Schema) (h : List Op) (m : Msg) (j : Junk)
    (bs : Bytes) (hm : marshal S m.d m.tag m.v = .ok bs) :
    (runOps R S (fresh .ttlv) (h ++ [.clear, .encode m j, .bytes])).2 =
      (runOps R S (fresh .ttlv) h).2 ++ [⟨true, none⟩, ⟨true, none⟩, ⟨true, some bs⟩] := by
  rw [C20_reuse_full R S .ttlv h [.encode m j, .bytes], fresh_encode_bytes R S m j bs hm]

/-! ### non-vacuity: concrete writers, stale memory, aborted calls -/

/-- a rendering for the examples (one-letter tokens; the tag's low byte stands for the name). -/
def demoR : Render where
  xmlStart t := [60, t.toUInt8, 62]                 -- <t>
  xmlEnd t := [60, 47, t.toUInt8, 62]               -- </t>
  xmlLeaf it := [60, it.tag.toUInt8, 32, it.ty.toUInt8, 62]
  xmlLeafEnd it := [60, 47, it.tag.toUInt8, 62]
  jsonHead t ty := [123, t.toUInt8, ty.toUInt8, 58]
  jsonVal it := [it.ty.toUInt8]
  textHead t ty := [t.toUInt8, ty.toUInt8, 58]
  textVal it := [it.ty.toUInt8]

/-- a two-field struct `{0x540001 int32, 0x540002 interval}`; a negative interval makes the writer panic
    ("interval cannot be negative") after the structure has been opened and the first field written. -/
def tinySchema : Schema where
  structs := [{ fields := [{ tag := 0x540001, kind := .i32 }, { tag := 0x540002, kind := .interval }],
                defTag := 0x540000 }]
  dyns := [{ defTag := 0x540000, kind := .struct 0 }]
  ops := []
  objects := []
  attrs := []
  unknownPayloadDyn := 0
  valueDyn := 0

def badMsg : Msg := { d := 0, tag := 0, v := .struct [.int 1, .int (-1)] }
def goodMsg : Msg := { d := 0, tag := 0, v := .struct [.int 1, .int 1] }

/-- what the aborted call did before it panicked: `Struct(0x540000)` opened, `Integer(0x540001, 1)` written. -/
def abortJunk : Junk := { calls := [.open 0x540000, .leaf (.int 0x540001 1)] }

/-- the history: a long message, then an encode that panics inside the structure, recovered by the caller;
    also a direct use of the writer API that panics two structures deep. -/
def abortedHistory : List Op :=
  [.encode goodMsg {}, .bytes, .encode badMsg abortJunk,
   .raw [.open 0x540010, .open 0x540011, .leaf (.bool 0x540012 true)] true]

/-- the encoder after that history and a `Clear` is NOT the new encoder: its array still holds the old bytes… -/
theorem cleared_is_not_fresh :
    (runOps demoR tinySchema (fresh .ttlv) (abortedHistory ++ [.clear])).1 ≠ fresh .ttlv ∧
    (runOps demoR tinySchema (fresh .ttlv) (abortedHistory ++ [.clear])).1.buf.vis = [] ∧
    ((runOps demoR tinySchema (fresh .ttlv) (abortedHistory ++ [.clear])).1.buf.stale.take 8
      = [0x54, 0, 0, 1, 0, 0, 0, 0x20]) := by
  refine ⟨?_, ?_, ?_⟩
  · intro h
    have := congrArg (fun s => s.buf.stale.length) h
    revert this; decide +kernel
  · decide +kernel
  · decide +kernel

/-- …and yet 2c: the aborted calls fail, `Clear` and the next calls succeed and produce the bytes of a new
    encoder, on each of the four writers (here checked by evaluation; 2c is the general statement). -/
example : ∀ be ∈ [Backend.ttlv, .xml, .json, .text],
    (runOps demoR tinySchema (fresh be) (abortedHistory ++ [.clear, .encode goodMsg {}, .bytes])).2
      = [⟨true, none⟩, (runOps demoR tinySchema (fresh be) [.encode goodMsg {}, .bytes]).2.getD 1 default,
         ⟨false, none⟩, ⟨false, none⟩, ⟨true, none⟩]
        ++ (runOps demoR tinySchema (fresh be) [.encode goodMsg {}, .bytes]).2 := by decide +kernel

/-- the hypotheses of 2e / 2f are satisfiable on a NON-fresh encoder: in the cleared state above (stale bytes under
    the slice) the codec completes `goodMsg`, and `marshal` succeeds on it. -/
example : (match encodeFrom tinySchema goodMsg
      (runOps demoR tinySchema (fresh .ttlv) (abortedHistory ++ [.clear])).1.cell with
    | .ok _ => true | _ => false) = true ∧
    (match marshal tinySchema goodMsg.d goodMsg.tag goodMsg.v with | .ok _ => true | _ => false) = true := by
  decide +kernel

/-- the XML writer after the two aborted calls: three elements open, output pending in the `xml.Encoder`. -/
example : (runOps demoR tinySchema (fresh .xml) abortedHistory).1.xml.tags = [0x540011, 0x540010, 0x540000] ∧
    (runOps demoR tinySchema (fresh .xml) abortedHistory).1.xml.depth = 3 ∧
    (runOps demoR tinySchema (fresh .xml) (abortedHistory ++ [.clear])).1.xml = {} := by decide +kernel

/-- the text writer separates top-level items by a newline IFF the buffer is not empty: without `Clear` the second
    message starts with `\n`, after `Clear` it does not. -/
example : ((runOps demoR tinySchema (fresh .text) [.raw [.leaf (.int 1 1)] false, .raw [.leaf (.int 2 2)] false, .bytes]).2.getD 2 default).out
      = some [1, 2, 58, 2, 10, 2, 2, 58, 2] ∧
    ((runOps demoR tinySchema (fresh .text) [.raw [.leaf (.int 1 1)] false, .clear, .raw [.leaf (.int 2 2)] false, .bytes]).2.getD 3 default).out
      = some [2, 2, 58, 2] := by decide +kernel

/-- `buf = buf[:len+n]`: extending the slice over the spare capacity instead of appending (the "zero padding is
    already there" shortcut of seeded mutant C20-3). -/
def extendOver (b : GoBuf) (n : Nat) : GoBuf :=
  { b with vis := b.vis ++ b.stale.take n, stale := b.stale.drop n }

/-- 2g. **The invariant has teeth**: an operation that reads the spare capacity is NOT a congruence for `Eqv` —
    on a cleared encoder it exposes bytes of the previous message where a new encoder has zeroes. A writer using
    it would falsify 2b/2c; the model can express (and the engine observes, `enc.hist`) exactly this difference. -/
def usedEnc : Encoder :=
  (runOps demoR tinySchema (fresh .ttlv) [.encode goodMsg {}, .clear, .raw [.leaf (.int 1 1)] false]).1
def newEnc : Encoder := (runOps demoR tinySchema (fresh .ttlv) [.raw [.leaf (.int 1 1)] false]).1

theorem reading_spare_capacity_is_history_dependent :
    Eqv usedEnc newEnc ∧ (extendOver usedEnc.buf 4).vis ≠ (extendOver newEnc.buf 4).vis := by
  decide +kernel

/-! ### `Bytes()` aliases the internal array -/

/-- 2h. **A slice obtained from `Bytes()` (binary encoder) keeps its content until `Clear` is called**: for every
    state, every continuation without `Clear` — whatever is encoded, however the buffer grows, including aborted
    calls — reading the slice afterwards gives the bytes it had. -/
theorem bytes_stable_until_clear (R : Render) (S : Schema) (st : Encoder) (hbe : st.be = .ttlv) (ops : List Op)
    (hnc : ∀ op ∈ ops, op.isClear = false) :
    (bytesOp st).view.read (runOps R S (bytesOp st) ops).1.buf = (bytesOp st).buf.vis :=
  (runOps_stable R S (bytesOp st).view ops (bytesOp st) (by rw [bytesOp_be]; exact hbe) hnc
    (stable_view _)).read

def afterFirst : Encoder :=
  (runOps demoR tinySchema (fresh .ttlv) [.raw [.leaf (.int 0x540001 1)] false, .bytes]).1
def afterSecond : Encoder :=
  (runOps demoR tinySchema afterFirst [.clear, .raw [.leaf (.int 0x540001 2)] false]).1

/-- 2h on concrete runs: the slice survives appends in place, an aborted call, and the move to a larger array. -/
example : afterFirst.view.read
      (runOps demoR tinySchema afterFirst [.raw [.leaf (.int 0x540001 2)] false, .encode badMsg abortJunk,
        .raw [.leaf (.bytes 0x540002 (List.replicate 100 7))] false, .bytes]).1.buf = enc (.int 0x540001 1) ∧
    (runOps demoR tinySchema afterFirst [.raw [.leaf (.bytes 0x540002 (List.replicate 100 7))] false]).1.buf.gen
      ≠ afterFirst.buf.gen := by decide +kernel

/-- 2i. …and NOT longer (the Go doc: "Bytes returns the internal byte array", "Clear clears the internal buffer
    without deallocating it"): the slice returned for message 1, read after `Clear; encode message 2`, shows the
    bytes of message 2. This is documented behaviour of the API, not a defect, but it is an ASSUMPTION of C20 that
    callers copy or consume the result before the next `Clear` (the library's own `Marshal*` never reuse). -/
theorem bytes_alias_overwritten :
    afterFirst.view.snap = enc (.int 0x540001 1) ∧
    afterFirst.view.read afterSecond.buf = enc (.int 0x540001 2) ∧
    afterFirst.view.read afterSecond.buf ≠ afterFirst.view.snap := by
  decide +kernel

/-! ### what /repo 55f108f repaired: the OLD `xmlWriter.Clear` -/

/-- 2j. **The old XML writer violated the full statement** (`oldXmlClearOp`: `Clear` began with
    `panicOnErr(w.Close())`): after an aborted call `Clear` itself panicked (`xml.Encoder.Close`: "unclosed
    tag") and left the encoder closed, so the next `encode` panicked ("use of closed Encoder") where a new
    encoder succeeds; only a second `Clear` repaired it. Found by the `cache` engine on the real code as
    `cache:reuse-after-panic:xml`; fixed by dropping the `Close`. -/
theorem old_xml_clear_after_abort :
    ((runOpsOldXml demoR tinySchema (fresh .xml) ([.encode badMsg abortJunk, .clear, .encode goodMsg {}])).2.map (·.ok))
      = [false, false, false] ∧
    (runOpsOldXml demoR tinySchema (fresh .xml) [.encode badMsg abortJunk, .clear, .encode goodMsg {}]).1.xml.closed = true ∧
    ((runOpsOldXml demoR tinySchema (fresh .xml) [.encode goodMsg {}]).2.map (·.ok)) = [true] ∧
    ((runOpsOldXml demoR tinySchema (fresh .xml) [.encode badMsg abortJunk, .clear, .clear, .encode goodMsg {}]).2.map (·.ok))
      = [false, false, true, true] := by
  decide +kernel

/-- 2j'. hence the full statement was FALSE of the old XML writer. -/
theorem old_xml_reuse_full_false :
    ¬ (∀ (R : Render) (S : Schema) (h ops : List Op),
        (runOpsOldXml R S (fresh .xml) (h ++ .clear :: ops)).2 =
          (runOpsOldXml R S (fresh .xml) h).2 ++ ⟨true, none⟩ :: (runOpsOldXml R S (fresh .xml) ops).2) := by
  intro h
  have := h demoR tinySchema [.encode badMsg abortJunk] [.encode goodMsg {}]
  revert this
  decide +kernel

/-- 2k. after every `Clear` the version cell is empty (`enc.extension.version = nil`). -/
theorem clear_resets_cell (st : Encoder) : (clearOp st).1.cell = none := (clear_from_any_state st).1.2.1

/-! ### the negative companion: without `Clear` the version leaks -/

/-- a header-like struct (dyn 0: `{ProtocolVersion set-version}`) and a header-less payload
    (dyn 1: `{0x540001 int32; 0x540002 int32, since 1.4}`). -/
def leakSchema : Schema where
  structs := [
    { fields := [{ tag := 0x420069, kind := .struct 2, setVersion := true }], defTag := 0x420077 },
    { fields := [{ tag := 0x540001, kind := .i32 },
                 { tag := 0x540002, kind := .i32, vrange := some { start := some (1, 4), stop := none } }],
      defTag := 0x540000 },
    { fields := [{ tag := 0x42006A, kind := .i32 }, { tag := 0x42006B, kind := .i32 }], defTag := 0x420069 }]
  dyns := [{ defTag := 0x420077, kind := .struct 0 }, { defTag := 0x540000, kind := .struct 1 }]
  ops := []
  objects := []
  attrs := []
  unknownPayloadDyn := 0
  valueDyn := 0

def header10 : Msg := { d := 0, tag := 0, v := .struct [.struct [.int 1, .int 0]] }
def payload : Msg := { d := 1, tag := 0, v := .struct [.int 7, .int 8] }

/-- bytes appended by a call (for comparing outputs without comparing buffers). -/
def outBytes (r : Res EncSt) : Option Bytes :=
  match r with
  | .ok (its, _) => some (encList its)
  | _ => none

/-- 2l. **WITHOUT `Clear`** the version cell of the previous message leaks: after a 1.0 header the cell is
    `some (1,0)`, and a following payload (no set-version field of its own) is encoded WITHOUT its 1.4 field,
    while a new — or a cleared — encoder writes it. This is what `Clear` is documented to prevent ("making the
    encoder reusable for encoding another value"): the contract, not a defect. -/
theorem version_leaks_without_clear :
    (runOps demoR leakSchema (fresh .ttlv) [.encode header10 {}]).1.cell = some (1, 0) ∧
    outBytes (encodeFrom leakSchema payload (some (1, 0))) ≠ outBytes (encodeFrom leakSchema payload none) ∧
    (runOps demoR leakSchema (fresh .ttlv) [.encode header10 {}, .encode payload {}, .bytes]).2 ≠
      (runOps demoR leakSchema (fresh .ttlv) [.encode header10 {}, .clear, .encode payload {}, .bytes]).2.eraseIdx 1 ∧
    (runOps demoR leakSchema (fresh .ttlv) [.encode header10 {}, .clear]).1.cell = none := by
  decide +kernel

/-- …seen on the item tags: the gated field 0x540002 is dropped under the leaked cell. -/
example : (match encodeFrom leakSchema payload (some (1, 0)) with
    | .ok ([.struct _ cs], _) => cs.map Item.tag | _ => []) = [0x540001] := by decide +kernel
example : (match encodeFrom leakSchema payload none with
    | .ok ([.struct _ cs], _) => cs.map Item.tag | _ => []) = [0x540001, 0x540002] := by decide +kernel

/-- 2g. A value that starts with its own header is immune even without `Clear`: a Request/ResponseMessage
    (`*T` or `T`, header first, ProtocolVersion first in the header, reflective codecs — decidable
    `messageKind`) yields the same items from EVERY incoming cell. -/
theorem message_ignores_cell (S : Schema) (m : Msg) (h : messageKind S (S.dyn m.d).kind = true)
    (c1 c2 : Option Ver) : items (encodeFrom S m c1) = items (encodeFrom S m c2) :=
  encodeFrom_message S m h c1 c2

theorem gen_request_is_message : messageKind Gen.schema (Gen.schema.dyn Gen.requestMessageDyn).kind = true := by
  decide +kernel
theorem gen_response_is_message : messageKind Gen.schema (Gen.schema.dyn Gen.responseMessageDyn).kind = true := by
  decide +kernel

/-- 2h. for the library's messages: whatever message (of whatever version) the encoder processed before, with
    or without `Clear`, a RequestMessage / ResponseMessage is encoded as by a new encoder. -/
theorem full_message_ignores_cell (tag : Nat) (v : Val) (d : Nat)
    (hd : d = Gen.requestMessageDyn ∨ d = Gen.responseMessageDyn) (cell : Option Ver) :
    items (encodeFrom Gen.schema ⟨d, tag, v⟩ cell) = items (encodeFrom Gen.schema ⟨d, tag, v⟩ none) := by
  rcases hd with rfl | rfl
  · exact message_ignores_cell _ _ gen_request_is_message _ _
  · exact message_ignores_cell _ _ gen_response_is_message _ _

/-! ## 3 — `Marshal*` start from nothing

(`UnmarshalTTLV` / `MarshalTTLV` construct a new Decoder / Encoder on every call — `newDecoder` / `newEncoder`:
`new(extension)`. In the model `unmarshal` / `marshal` are pure functions started from the cell `none`; that a
Lean function does not depend on earlier calls is true by construction and is NOT evidence about the code: the
Go fact is checked by the engine (scan fact `extension-not-allocated-per-instance`, fresh-child references,
oracle `marshal-result-aliased`). What is worth a theorem is the link between the reusable encoder and
`marshal`.) -/

/-- 3a. `MarshalTTLV(m)` is the typed encoding from the EMPTY cell followed by the binary rendering. -/
theorem marshal_fresh (S : Schema) (d tag : Nat) (v : Val) :
    marshal S d tag v =
      (match encodeFrom S ⟨d, tag, v⟩ none with
       | .ok (items, _) => .ok (encList items)
       | .err e => .err e
       | .panic msg => .panic msg) :=
  marshal_eq_encodeFrom S d tag v

/-- 3b. and that is what a new encoder object yields: `new; encode m; Bytes()` returns `MarshalTTLV(m)` — through
    the writer-level model (appends, placeholder, patch), not by definition. -/
theorem fresh_encoder_is_marshal (R : Render) (S : Schema) (m : Msg) (j : Junk) (bs : Bytes)
    (h : marshal S m.d m.tag m.v = .ok bs) :
    (runOps R S (fresh .ttlv) [.encode m j, .bytes]).2 = [⟨true, none⟩, ⟨true, some bs⟩] :=
  fresh_encode_bytes R S m j bs h

/-! ## 4 — the cell is shared inside a message, and only there -/

/-- 4. Encoding the fields `[header (pv :: …), batch items]` of a Request/ResponseMessage from ANY incoming
    cell (whatever an earlier message left): the header sets the cell to its own ProtocolVersion, the batch
    items — and by `C05.version_cell_stable` every field loop nested anywhere below them, all of which share
    the `*extension` through `Encoder.Struct` — are encoded under exactly that cell and hand it back; and after
    the `Clear` that follows, the next message starts from `none`.
    (First part = `C05.message_gated_by_header_version`, `Lemmas/PlanLemmas.message_encode_cell`.) -/
theorem nested_shares_cell (S : Schema) (N : Nat)
    (hH : S.noNestedSetVersion N = true) (hM : S.messageShape N = true)
    (d : StructDef) (hd : d ∈ S.structs)
    (htag : d.defTag = T.requestMessage ∨ d.defTag = T.responseMessage)
    (fuel : Nat) (pv : Val) (hs : List Val) (bv : Val) (cell : Option Ver) (items : List Item)
    (cell' : Option Ver) (hv : Val.dynsOkL (S.svFreeDyn N) [.struct (pv :: hs), bv] = true)
    (h : encFields S (fuel + 2) d.fields [.struct (pv :: hs), bv] cell = .ok (items, cell')) :
    (∃ fh fb hitems b, d.fields = [fh, fb] ∧
      encK S (fuel + 1) fh.kind fh.tag (.struct (pv :: hs)) cell
        = .ok ([.struct fh.tag hitems], some pv.asVer) ∧
      encFields S (fuel + 1) [fb] [bv] (some pv.asVer) = .ok (b, some pv.asVer) ∧
      items = .struct fh.tag hitems :: b ∧ cell' = some pv.asVer) ∧
    (∀ (st : Encoder), (clearOp st).1.cell = none) :=
  ⟨message_encode_cell S N hH hM _ (S.svFreeDyn_sound N) d hd htag fuel pv hs bv cell items cell' hv h,
   clear_resets_cell⟩

/-- the side conditions of 4 hold of the regenerated schema (same facts as C05 3e). -/
theorem gen_no_nested_set_version : Gen.schema.noNestedSetVersion 128 = true := by decide +kernel
theorem gen_message_shape : Gen.schema.messageShape 128 = true := by decide +kernel

end Kmip.C20
