/-
  C01 — the fuel of the typed decoder always suffices: `Val.depth` of a well-formed value is bounded by
  24 units per unit of ENCODER fuel plus the length of the encoding (the generic `ttlv.Value` /
  `ttlv.Struct` parts cost no encoder fuel but one byte at least per unit of depth).
-/
import KmipModel.Lemmas.PlanRoundtrip17
namespace Kmip

theorem encList_append : (a b : List Item) → encList (a ++ b) = encList a ++ encList b
  | [], b => by simp [encList]
  | x :: a, b => by simp only [List.cons_append, encList, encList_append a b, List.append_assoc]

theorem encList_length_append (a b : List Item) :
    (encList (a ++ b)).length = (encList a).length + (encList b).length := by
  rw [encList_append, List.length_append]

theorem encList_struct_length (tag : Nat) (inner : List Item) :
    (encList [Item.struct tag inner]).length = 8 + (encList inner).length := by
  simp only [encList, enc, List.append_nil, List.length_append, hdr_length]

theorem zero_depth {k : Kind} {v : Val} (h : isZeroOfKind k v = true) : v.depth ≤ 4 := by
  cases v with
  | int x => simp [Val.depth]
  | bool b => simp [Val.depth]
  | text s => simp [Val.depth]
  | bytes b => simp [Val.depth]
  | big x => simp [Val.depth]
  | struct fs => cases k <;> simp [isZeroOfKind] at h
  | ptr o =>
    cases o with
    | none => simp [Val.depth]
    | some x => cases k <;> simp [isZeroOfKind] at h
  | list xs =>
    cases xs with
    | nil => simp [Val.depth, Val.depthList]
    | cons x xs => cases k <;> simp [isZeroOfKind] at h
  | iface o =>
    cases o with
    | none => simp [Val.depth]
    | some x => cases k <;> simp [isZeroOfKind] at h
  | any o =>
    cases o with
    | none => simp [Val.depth]
    | some x => cases k <;> simp [isZeroOfKind] at h
  | anyStruct its =>
    cases its with
    | nil => simp [Val.depth, Item.sizeList]
    | cons x xs => cases k <;> simp [isZeroOfKind] at h

theorem nilRest_depth : (n : Nat) → (ks : List Kind) → (xs : List Val) → nilRest n ks xs = true →
    1 ≤ n ∧ Val.depthList xs ≤ n + 1
  | 0, ks, xs, h => by simp [nilRest] at h
  | n + 1, [], [], _ => ⟨by omega, by simp [Val.depthList]⟩
  | n + 1, [], x :: xs, h => by simp [nilRest] at h
  | n + 1, k :: ks, [], h => by cases k <;> simp [nilRest] at h
  | n + 1, k :: ks, x :: xs, h => by
    cases k <;> try (simp [nilRest] at h; done)
    cases x <;> try (simp [nilRest] at h; done)
    rename_i k' o
    cases o with
    | some y => simp [nilRest] at h
    | none =>
      simp only [nilRest] at h
      obtain ⟨h1, h2⟩ := nilRest_depth n ks xs h
      refine ⟨by omega, ?_⟩
      simp only [Val.depthList, Val.depth]
      omega

def DK (S : Schema) (n : Nat) : Prop :=
  ∀ k tag v ver v' w items w2, normK S n k tag v ver = some (v', w) → encK S n k tag v ver = .ok (items, w2) →
    v.depth ≤ 24 * n + (encList items).length
def DSlice (S : Schema) (n : Nat) : Prop :=
  ∀ k tag xs ver xs' w items w2, normSlice S n k tag xs ver = some (xs', w) →
    encSlice S n k tag xs ver = .ok (items, w2) → Val.depthList xs ≤ 24 * n + (encList items).length
def DFields (S : Schema) (n : Nat) : Prop :=
  ∀ fs vs ver vs' w items w2, normFields S n fs vs ver = some (vs', w) →
    encFields S n fs vs ver = .ok (items, w2) → Val.depthList vs ≤ 24 * n + (encList items).length
def DCustom (S : Schema) (n : Nat) : Prop :=
  ∀ code tag v ver v' w items w2, normCustom S n code tag v ver = some (v', w) →
    encCustom S n code tag v ver = .ok (items, w2) → v.depth ≤ 24 * n + (encList items).length
def DSame (S : Schema) (n : Nat) : Prop :=
  ∀ ks tag xs ver xs' w items w2, normSameTag S n ks tag xs ver = some (xs', w) →
    encSameTag S n ks tag xs ver = .ok (items, w2) → Val.depthList xs ≤ 24 * n + (encList items).length

/-- the encoder's result (items and cell) is the one the normalisation predicts. -/
theorem pk_enc_cell {S : Schema} {n : Nat} (hK : PK S n) {k : Kind} {tag : Nat} {v : Val} {ver : Option Ver}
    {v' : Val} {w : Option Ver} {items : List Item} {w2 : Option Ver}
    (hn : normK S n k tag v ver = some (v', w)) (he : encK S n k tag v ver = .ok (items, w2)) : w2 = w := by
  obtain ⟨items0, he0, _⟩ := hK k tag v ver v' w hn
  rw [he0] at he
  simp only [Res.ok.injEq, Prod.mk.injEq] at he
  exact he.2.symm

theorem dk_succ (S : Schema) (n : Nat) (hK : DK S n) (hSl : DSlice S n) (hF : DFields S n)
    (hC : DCustom S n) : DK S (n + 1) := by
  intro k tag v ver v' w items w2 h he
  by_cases hs : k.scalar = true
  · have hd : v.depth = 2 := by
      cases k <;> simp only [Kind.scalar] at hs <;> try contradiction
      all_goals (cases v <;> simp only [normK] at h <;> try contradiction)
      all_goals simp [Val.depth]
    omega
  · cases k <;> simp only [Kind.scalar, not_true_eq_false] at hs
    case any =>
      rw [normK_any] at h
      split at h
      · rename_i it
        obtain ⟨ht, _⟩ := ite_some_eq h
        rw [encK_any] at he
        simp only [Res.ok.injEq, Prod.mk.injEq] at he
        obtain ⟨rfl, -⟩ := he
        subst ht
        rw [Item.withTag_self]
        have := size_le_length_aux it
        simp only [Val.depth, encList, List.append_nil]
        omega
      · contradiction
    case anyStruct =>
      rw [normK_anyStruct] at h
      split at h
      · rename_i its
        rw [encK_anyStruct] at he
        simp only [Res.ok.injEq, Prod.mk.injEq] at he
        obtain ⟨rfl, -⟩ := he
        have := sizeList_le_length_aux its
        rw [encList_struct_length]
        simp only [Val.depth]
        omega
      · contradiction
    case ptr k' =>
      rw [normK_ptr] at h
      split at h
      · simp only [Val.depth]; omega
      · rename_i x
        obtain ⟨_, h⟩ := ite_eq_some h
        rw [encK_ptr_some] at he
        cases hx : normK S n k' tag x ver with
        | none => simp only [hx] at h; contradiction
        | some p =>
          obtain ⟨x', w1⟩ := p
          have := hK _ _ _ _ _ _ _ _ hx he
          simp only [Val.depth]
          omega
      · contradiction
    case slice k' =>
      rw [normK_slice] at h
      split at h
      · rename_i xs
        obtain ⟨_, h⟩ := ite_eq_some h
        rw [encK_slice] at he
        cases hx : normSlice S n k' tag xs ver with
        | none => simp only [hx] at h; contradiction
        | some p =>
          obtain ⟨xs', w1⟩ := p
          have := hSl _ _ _ _ _ _ _ _ hx he
          simp only [Val.depth]
          omega
      · contradiction
    case iface =>
      rw [normK_iface] at h
      split at h
      · simp only [Val.depth]; omega
      · rename_i d x
        obtain ⟨_, h⟩ := ite_eq_some h
        rw [encK_iface_some] at he
        cases hx : normK S n (S.dyn d).kind tag x ver with
        | none => simp only [hx] at h; contradiction
        | some p =>
          obtain ⟨x', w1⟩ := p
          have := hK _ _ _ _ _ _ _ _ hx he
          simp only [Val.depth]
          omega
      · contradiction
    case struct id =>
      rw [normK_struct] at h
      split at h
      · rename_i fs
        rw [encK_struct] at he
        by_cases hec : (S.structDef id).encCustom = true
        · simp only [hec, if_true] at h he
          have := hC _ _ _ _ _ _ _ _ h he
          omega
        · simp only [hec, Bool.false_eq_true, if_false] at h he
          cases hx : normFields S n (S.structDef id).fields fs ver with
          | none => simp only [hx] at h; contradiction
          | some p =>
            obtain ⟨fs', w1⟩ := p
            obtain ⟨inner, hei, rfl⟩ := Res.bind_struct_inv he
            have := hF _ _ _ _ _ _ _ hx hei
            rw [encList_struct_length]
            simp only [Val.depth]
            omega
      · contradiction
    all_goals (rw [normK.eq_def] at h; simp at h)

theorem dslice_succ (S : Schema) (n : Nat) (hP : PK S n) (hK : DK S n) (hSl : DSlice S n) :
    DSlice S (n + 1) := by
  intro k tag xs ver xs' w items w2 h he
  cases xs with
  | nil => simp only [Val.depthList]; omega
  | cons x xs =>
    rw [normSlice_cons] at h
    rw [encSlice_cons] at he
    cases hx : normK S n k tag x ver with
    | none => simp only [hx] at h; contradiction
    | some p =>
    obtain ⟨x', u1⟩ := p
    simp only [hx] at h
    cases ha : encK S n k tag x ver with
    | ok q =>
      obtain ⟨a, w1⟩ := q
      simp only [ha, Res.ok_bind] at he
      have hw := pk_enc_cell hP hx ha
      subst hw
      cases hxs : normSlice S n k tag xs w1 with
      | none => simp only [hxs] at h; contradiction
      | some q =>
      obtain ⟨xs1, u2⟩ := q
      cases hb : encSlice S n k tag xs w1 with
      | ok q =>
        obtain ⟨b, w3⟩ := q
        simp only [hb, Res.ok_bind, Res.pure_eq, Res.ok.injEq, Prod.mk.injEq] at he
        obtain ⟨rfl, -⟩ := he
        have h1 := hK _ _ _ _ _ _ _ _ hx ha
        have h2 := hSl _ _ _ _ _ _ _ _ hxs hb
        rw [encList_length_append]
        simp only [Val.depthList]
        omega
      | err e => simp only [hb, Res.err_bind] at he; contradiction
      | panic m => simp only [hb, Res.panic_bind] at he; contradiction
    | err e => simp only [ha, Res.err_bind] at he; contradiction
    | panic m => simp only [ha, Res.panic_bind] at he; contradiction

theorem dfields_succ (S : Schema) (n : Nat) (hP : PK S n) (hK : DK S n) (hF : DFields S n) :
    DFields S (n + 1) := by
  intro fs vs ver vs' w items w2 h he
  cases fs with
  | nil =>
    cases vs with
    | nil => simp only [Val.depthList]; omega
    | cons v vs => rw [normFields_nil_cons] at h; contradiction
  | cons f fs =>
    cases vs with
    | nil => rw [normFields_cons_nil] at h; contradiction
    | cons v vs =>
      rw [normFields_cons] at h
      rw [encFields_cons] at he
      by_cases hs : f.skip v (f.ver1 v ver) = true
      · simp only [hs, if_true, Res.ok_bind] at h he
        obtain ⟨hz, h⟩ := ite_eq_some h
        cases hr : normFields S n fs vs (f.ver1 v ver) with
        | none => simp only [hr] at h; contradiction
        | some p =>
          obtain ⟨vs1, w1⟩ := p
          cases hb : encFields S n fs vs (f.ver1 v ver) with
          | ok q =>
            obtain ⟨b, w3⟩ := q
            simp only [hb, Res.ok_bind, Res.pure_eq, Res.ok.injEq, Prod.mk.injEq, List.nil_append] at he
            obtain ⟨rfl, -⟩ := he
            have h1 := zero_depth hz
            have h2 := hF _ _ _ _ _ _ _ hr hb
            simp only [Val.depthList]
            omega
          | err e => simp only [hb, Res.err_bind] at he; contradiction
          | panic m => simp only [hb, Res.panic_bind] at he; contradiction
      · have hs' : f.skip v (f.ver1 v ver) = false := by simpa using hs
        simp only [hs', Bool.false_eq_true, if_false] at h he
        cases hx : normK S n f.kind (f.etag S v) v (f.ver1 v ver) with
        | none => simp only [hx] at h; contradiction
        | some p =>
        obtain ⟨v', u1⟩ := p
        simp only [hx] at h
        cases ha : encK S n f.kind (f.etag S v) v (f.ver1 v ver) with
        | ok q =>
          obtain ⟨a, w1⟩ := q
          simp only [ha, Res.ok_bind] at he
          have hw := pk_enc_cell hP hx ha
          subst hw
          cases hr : normFields S n fs vs w1 with
          | none => simp only [hr] at h; contradiction
          | some q =>
          obtain ⟨vs1, u2⟩ := q
          cases hb : encFields S n fs vs w1 with
          | ok q =>
            obtain ⟨b, w3⟩ := q
            simp only [hb, Res.ok_bind, Res.pure_eq, Res.ok.injEq, Prod.mk.injEq] at he
            obtain ⟨rfl, -⟩ := he
            have h1 := hK _ _ _ _ _ _ _ _ hx ha
            have h2 := hF _ _ _ _ _ _ _ hr hb
            rw [encList_length_append]
            simp only [Val.depthList]
            omega
          | err e => simp only [hb, Res.err_bind] at he; contradiction
          | panic m => simp only [hb, Res.panic_bind] at he; contradiction
        | err e => simp only [ha, Res.err_bind] at he; contradiction
        | panic m => simp only [ha, Res.panic_bind] at he; contradiction

theorem dsame_succ (S : Schema) (n : Nat) (hK : DK S n) (hSm : DSame S n) : DSame S (n + 1) := by
  intro ks tag xs ver xs' w items w2 h he
  cases ks with
  | nil => rw [normSameTag_nil] at h; contradiction
  | cons k ks =>
  cases xs with
  | nil => rw [normSameTag_cons_nil] at h; contradiction
  | cons x xs =>
  rw [normSameTag_cons] at h
  rw [encSameTag_cons] at he
  split at h
  · rename_i k0
    split at h
    · -- nil member
      cases hr : normSameTag S n ks tag xs ver with
      | none => simp only [hr] at h; contradiction
      | some p =>
        obtain ⟨xs1, w1⟩ := p
        obtain ⟨n', rfl⟩ := normSameTag_succ_of_some hr
        rw [encK_ptr_none] at he
        simp only [Res.ok_bind] at he
        cases hb : encSameTag S (n' + 1) ks tag xs ver with
        | ok q =>
          obtain ⟨b, w3⟩ := q
          simp only [hb, Res.ok_bind, Res.pure_eq, Res.ok.injEq, Prod.mk.injEq, List.nil_append] at he
          obtain ⟨rfl, -⟩ := he
          have h2 := hSm _ _ _ _ _ _ _ _ hr hb
          simp only [Val.depthList, Val.depth]
          omega
        | err e => simp only [hb, Res.err_bind] at he; contradiction
        | panic m => simp only [hb, Res.panic_bind] at he; contradiction
    · rename_i y
      obtain ⟨hnil, h⟩ := ite_eq_some h
      cases hx : normK S n (.ptr k0) tag (.ptr (some y)) ver with
      | none => simp only [hx] at h; contradiction
      | some p =>
        obtain ⟨x', u1⟩ := p
        cases ha : encK S n (.ptr k0) tag (.ptr (some y)) ver with
        | ok q =>
          obtain ⟨a, w1⟩ := q
          obtain ⟨_, henil⟩ := nilRest_spec S tag n ks xs hnil
          obtain ⟨hn1, hdx⟩ := nilRest_depth n ks xs hnil
          simp only [ha, Res.ok_bind, henil, Res.pure_eq, Res.ok.injEq, Prod.mk.injEq, List.append_nil] at he
          obtain ⟨rfl, -⟩ := he
          have h1 := hK _ _ _ _ _ _ _ _ hx ha
          simp only [Val.depthList]
          omega
        | err e => simp only [ha, Res.err_bind] at he; contradiction
        | panic m => simp only [ha, Res.panic_bind] at he; contradiction
    · contradiction
  · contradiction


theorem Res.bind2_inv {x : Res EncSt} {f : EncSt → Res EncSt} {r : EncSt} (h : (x >>= f) = .ok r) :
    ∃ a, x = .ok a ∧ f a = .ok r := by
  cases x with
  | ok a => exact ⟨a, rfl, h⟩
  | err e => simp only [Res.err_bind] at h; contradiction
  | panic m => simp only [Res.panic_bind] at h; contradiction

theorem dcustom_succ (S : Schema) (n : Nat) (hP : PK S n) (hK : DK S n) (hSm : DSame S n) :
    DCustom S (n + 1) := by
  intro code tag v ver v' w items w2 h he
  by_cases c1 : code = Cust.requestBatchItem
  · subst c1
    rw [normCustom_request] at h
    rw [encCustom_request] at he
    split at h
    · rename_i op bid d x me
      obtain ⟨_, h⟩ := ite_eq_some h
      simp only [Val.field, List.getD_cons_succ, List.getD_cons_zero] at he
      cases hpl : normK S n .iface T.requestPayload (.iface (some (d, x))) ver with
      | none => simp only [hpl] at h; contradiction
      | some p =>
      obtain ⟨pl', u1⟩ := p
      simp only [hpl] at h
      obtain ⟨⟨plI, w1⟩, hple, he⟩ := Res.bind2_inv he
      have hw := pk_enc_cell hP hpl hple
      subst hw
      cases hme : normK S n (.ptr (.struct (msgExtId S))) T.messageExtension me w1 with
      | none => simp only [hme] at h; contradiction
      | some q =>
      obtain ⟨me', u2⟩ := q
      obtain ⟨⟨meI, w3⟩, hmee, he⟩ := Res.bind2_inv he
      simp only [Res.pure_eq, Res.ok.injEq, Prod.mk.injEq] at he
      obtain ⟨rfl, -⟩ := he
      have h1 := hK _ _ _ _ _ _ _ _ hpl hple
      have h2 := hK _ _ _ _ _ _ _ _ hme hmee
      rw [encList_struct_length, encList_length_append, encList_length_append]
      simp only [Val.depth, Val.depthList] at h1 ⊢
      omega
    · contradiction
  by_cases c2 : code = Cust.responseBatchItem
  · subst c2
    rw [normCustom_response'] at h
    rw [encCustom_response] at he
    split at h
    · rename_i op bid st rs msg acv pl me
      obtain ⟨_, h⟩ := ite_eq_some h
      simp only [Val.field, List.getD_cons_succ, List.getD_cons_zero] at he
      cases hpl : normK S n .iface T.responsePayload pl ver with
      | none => simp only [hpl] at h; contradiction
      | some p =>
      obtain ⟨pl', u1⟩ := p
      simp only [hpl] at h
      obtain ⟨⟨plI, w1⟩, hple, he⟩ := Res.bind2_inv he
      have hw := pk_enc_cell hP hpl hple
      subst hw
      cases hme : normK S n (.ptr (.struct (msgExtId S))) T.messageExtension me w1 with
      | none => simp only [hme] at h; contradiction
      | some q =>
      obtain ⟨me', u2⟩ := q
      obtain ⟨⟨meI, w3⟩, hmee, he⟩ := Res.bind2_inv he
      simp only [Res.pure_eq, Res.ok.injEq, Prod.mk.injEq] at he
      obtain ⟨rfl, -⟩ := he
      have h1 := hK _ _ _ _ _ _ _ _ hpl hple
      have h2 := hK _ _ _ _ _ _ _ _ hme hmee
      rw [encList_struct_length, encList_length_append, encList_length_append]
      simp only [Val.depth, Val.depthList] at ⊢
      omega
    · contradiction
  by_cases c5 : code = Cust.unknownPayload
  · subst c5
    rw [normCustom_unknown] at h
    rw [encCustom_unknown] at he
    split at h
    · rename_i its
      simp only [Val.field, List.getD_cons_zero, Res.ok.injEq, Prod.mk.injEq] at he
      obtain ⟨rfl, -⟩ := he
      have := sizeList_le_length_aux its
      rw [encList_struct_length]
      simp only [Val.depth, Val.depthList]
      omega
    · contradiction
  by_cases cu : isUnionCode code
  · rw [normCustom_union S n code tag cu] at h
    rw [encCustom_union S n code tag cu] at he
    split at h
    · rename_i fs
      simp only at he
      cases hx : normSameTag S n (customFieldKinds S code) tag fs ver with
      | none => simp only [hx] at h; contradiction
      | some p =>
        obtain ⟨fs', w1⟩ := p
        have := hSm _ _ _ _ _ _ _ _ hx he
        simp only [Val.depth]
        omega
    · contradiction
  · exfalso
    rw [normCustom.eq_def] at h
    simp only [isUnionCode] at cu
    simp only [c1, c2, c5, cu, if_false] at h
    contradiction

theorem dall (S : Schema) (hU : S.unambiguous = true) (n : Nat) :
    DK S n ∧ DSlice S n ∧ DFields S n ∧ DCustom S n ∧ DSame S n := by
  induction n with
  | zero =>
    refine ⟨?_, ?_, ?_, ?_, ?_⟩
    · intro k tag v ver v' w items w2 h; rw [normK_zero] at h; contradiction
    · intro k tag xs ver xs' w items w2 h; rw [normSlice_zero] at h; contradiction
    · intro fs vs ver vs' w items w2 h; rw [normFields_zero] at h; contradiction
    · intro code tag v ver v' w items w2 h; rw [normCustom_zero] at h; contradiction
    · intro ks tag xs ver xs' w items w2 h; rw [normSameTag_zero] at h; contradiction
  | succ n ih =>
    obtain ⟨hK, hSl, hF, hC, hSm⟩ := ih
    have hP := (pall S hU n).k
    exact ⟨dk_succ S n hK hSl hF hC, dslice_succ S n hP hK hSl, dfields_succ S n hP hK hF,
      dcustom_succ S n hP hK hSm, dsame_succ S n hK hSm⟩

/-- the decoder's fuel covers every well-formed value: no hypothesis on fuel is needed. -/
theorem depth_bound (S : Schema) (hU : S.unambiguous = true) (d tag : Nat) (v v' : Val) (w : Option Ver)
    (items : List Item) (w2 : Option Ver) (hwf : normTop S d tag v = some (v', w))
    (he : encK S marshalFuel (S.dyn d).kind (topTag S d tag) v none = .ok (items, w2)) :
    v.depth ≤ decFuel (encList items).length := by
  unfold normTop at hwf
  obtain ⟨_, hn⟩ := ite_eq_some hwf
  have := (dall S hU marshalFuel).1 _ _ _ _ _ _ _ _ hn he
  have hm : marshalFuel = 100000 := rfl
  unfold decFuel
  omega


/-- a well-formed value has a dynamic type of the schema. -/
theorem normTop_dyn_lt {S : Schema} {d tag : Nat} {v : Val} {r : Val × Option Ver}
    (h : normTop S d tag v = some r) : d < S.dyns.length := by
  unfold normTop at h
  obtain ⟨hc, _⟩ := ite_eq_some h
  simp only [Bool.and_eq_true] at hc
  apply Decidable.byContradiction
  intro hn
  have hk : (S.dyn d).kind = .unsupported := by
    unfold Schema.dyn
    rw [List.getD_eq_getElem?_getD, List.getElem?_eq_none (by omega)]
    rfl
  rw [hk] at hc
  simp [dynValOk, Kind.definite, Kind.scalar] at hc

end Kmip
