package main

// Further parts of the `key` engine (C14):
//   - objects a caller builds by hand and registers with Register().Object: representations that no typed builder
//     produces but the accessors accept (compressed EC points, Opaque secret data) must come back equal too;
//   - what is NOT a key of the property: key types the builders do not support (ed25519, a curve outside the four)
//     must be refused with an error; an rsa.PrivateKey with fewer than two primes (rejected by Validate) is only
//     observed (the outcome is counted, see `fewprimes.*` in the distribution).

import (
	"crypto/ecdsa"
	"crypto/ed25519"
	"crypto/elliptic"
	"crypto/rsa"
	"crypto/x509"
	"fmt"
	"math/big"

	kmip "github.com/ovh/kmip-go"
	"github.com/ovh/kmip-go/kmipclient"
)

// keyCustomItems: hand-built objects, with the key they stand for.
func keyCustomItems(env *keyEnv) []keyRetainItem {
	type W = kmipclient.ExecRegisterWantType
	type X = kmipclient.ExecRegister
	var out []keyRetainItem
	for _, s := range env.ecs {
		s := s
		if len(s.label) < 5 || s.label[len(s.label)-5:] != "-rand" && s.label[len(s.label)-4:] != "-x00" && s.label[len(s.label)-4:] != "-y00" {
			continue
		}
		q := elliptic.MarshalCompressed(s.curve, s.key.X, s.key.Y)
		for _, f := range []kmip.KeyFormatType{kmip.KeyFormatTypeTransparentECDSAPublicKey, kmip.KeyFormatTypeTransparentECPublicKey} {
			f := f
			name := fmt.Sprintf("Object:compressed-point-f%d", uint32(f))
			out = append(out, keyRetainItem{keyBuilder{name, "ecpub", func(w W) X {
				mat := kmip.KeyMaterial{}
				if f == kmip.KeyFormatTypeTransparentECPublicKey {
					mat.TransparentECPublicKey = &kmip.TransparentECPublicKey{RecommendedCurve: kmip.RecommendedCurve(s.code), QString: append([]byte{}, q...)}
				} else {
					mat.TransparentECDSAPublicKey = &kmip.TransparentECDSAPublicKey{RecommendedCurve: kmip.RecommendedCurve(s.code), QString: append([]byte{}, q...)}
				}
				return w.Object(&kmip.PublicKey{KeyBlock: kmip.KeyBlock{
					KeyFormatType:          f,
					KeyCompressionType:     kmip.KeyCompressionTypeECPublicKeyTypeX9_62CompressedPrime,
					CryptographicAlgorithm: kmip.CryptographicAlgorithmECDSA,
					CryptographicLength:    int32(s.curve.Params().BitSize),
					KeyValue:               &kmip.KeyValue{Plain: &kmip.PlainKeyValue{KeyMaterial: mat}},
				}})
			}}, 0, &keyRtOrig{label: s.label, ec: s.key, ecCode: s.code}})
		}
	}
	for _, s := range env.byteS {
		s := s
		if s.label != "aes256" && s.label != "lead00" && s.label != "empty" && s.label != "long257" {
			continue
		}
		out = append(out, keyRetainItem{keyBuilder{"Object:opaque-secret", "secret", func(w W) X {
			v := append([]byte{}, s.b...)
			return w.Object(&kmip.SecretData{SecretDataType: kmip.SecretDataTypeSeed, KeyBlock: kmip.KeyBlock{
				KeyFormatType: kmip.KeyFormatTypeOpaque,
				KeyValue:      &kmip.KeyValue{Plain: &kmip.PlainKeyValue{KeyMaterial: kmip.KeyMaterial{Bytes: &v}}},
			}})
		}}, 0, &keyRtOrig{label: "b-" + s.label, bytes: s.b}})
	}
	return out
}

// keyRunCustomPart: the hand-built objects through the codec path in each encoding and over the wire.  The
// transparent EC representation of format 21 exists from 1.3 on.
func keyRunCustomPart(env *keyEnv) {
	for _, it := range keyCustomItems(env) {
		for _, ver := range keyVersions {
			for _, enc := range keyEncs {
				keyRtCase(env, "codec", enc, ver, it.b, it.kf, it.orig)
			}
			keyRtCase(env, "wire", keyEncs[0], ver, it.b, it.kf, it.orig)
		}
	}
}

// keyRunBeyond14Part: the version test of the transparent EC representation is `>= 1.3`, and the library also
// defines 2.0 and 2.1: the typed EC builders in the transparent format (and the default one) at those versions.
func keyRunBeyond14Part(env *keyEnv) {
	for _, s := range env.ecs {
		if len(s.label) < 5 || s.label[len(s.label)-5:] != "-rand" {
			continue
		}
		orig := &keyRtOrig{label: s.label, ec: s.key, ecCode: s.code}
		bs := keyECBuilders(s.key)
		for _, name := range []string{"EcdsaPrivateKey", "EcdsaPublicKey"} {
			b := keyBuilderNamed(bs, name)
			for _, ver := range []kmip.ProtocolVersion{kmip.V2_0, kmip.V2_1} {
				for _, kf := range []uint8{0, 1} {
					// codec path only: the library's server answers "Unsupported protocol version" to 2.x
					for _, enc := range keyEncs {
						keyRtCase(env, "codec", enc, ver, b, kf, orig)
					}
				}
			}
		}
	}
}

// keyRunOutsidePart: inputs that are not keys of the property.
func keyRunOutsidePart(env *keyEnv) {
	ctx := env.ctx
	type W = kmipclient.ExecRegisterWantType
	type X = kmipclient.ExecRegister
	cl := env.client(kmip.V1_4)
	if cl == nil {
		return
	}
	try := func(label string, kf uint8, build func(w W) X) string {
		line := fmt.Sprintf("#key.outside %s %d", label, kf)
		ctx.current = line
		type built struct{ err error }
		bl, p := guard("builder", func() built {
			_, err := build(cl.Register().WithKeyFormat(kmipclient.KeyFormat(kf))).Build()
			return built{err}
		})
		out := "ok"
		switch {
		case p != "":
			out = "panic"
		case bl.err != nil:
			out = "err"
		}
		ctx.Add(line, out, true, "C14")
		return out
	}
	// (a) key types the builders do not support: an error, never a panic
	r := ctx.R.Fork()
	ed := ed25519.NewKeyFromSeed(r.Bytes(ed25519.SeedSize))
	edPkcs8, _ := x509.MarshalPKCS8PrivateKey(ed)
	edPkix, _ := x509.MarshalPKIXPublicKey(ed.Public())
	// the parameters of P-256 as a generic curve: not one of the four curve VALUES curveToKMIP knows
	generic := elliptic.P256().Params()
	gk := &ecdsa.PrivateKey{PublicKey: ecdsa.PublicKey{Curve: generic}, D: big.NewInt(12345)}
	//nolint:staticcheck
	gk.X, gk.Y = generic.ScalarBaseMult(gk.D.Bytes())
	unsupported := []struct {
		label string
		build func(w W) X
	}{
		{"ed25519:PrivateKey", func(w W) X { return w.PrivateKey(ed, keyUsage) }},
		{"ed25519:PublicKey", func(w W) X { return w.PublicKey(ed.Public(), keyUsage) }},
		{"ed25519:Pkcs8PrivateKey", func(w W) X { return w.Pkcs8PrivateKey(edPkcs8, keyUsage) }},
		{"ed25519:X509PublicKey", func(w W) X { return w.X509PublicKey(edPkix, keyUsage) }},
		{"ed25519:PemKey", func(w W) X { return w.PemKey(keyPemBlock("PRIVATE KEY", edPkcs8), keyUsage) }},
		{"ed25519:PemPublicKey", func(w W) X { return w.PemPublicKey(keyPemBlock("PRIVATE KEY", edPkcs8), keyUsage) }},
		{"ed25519:PemPublicKey:pub", func(w W) X { return w.PemPublicKey(keyPemBlock("PUBLIC KEY", edPkix), keyUsage) }},
		{"generic-curve:EcdsaPrivateKey", func(w W) X { return w.EcdsaPrivateKey(gk, keyUsage) }},
		{"generic-curve:EcdsaPublicKey", func(w W) X { return w.EcdsaPublicKey(&gk.PublicKey, keyUsage) }},
		{"garbage:Pkcs1PrivateKey", func(w W) X { return w.Pkcs1PrivateKey([]byte{0x30, 0x03, 0x02, 0x01, 0x00}, keyUsage) }},
		{"garbage:Sec1PrivateKey", func(w W) X { return w.Sec1PrivateKey([]byte{0x30, 0x00}, keyUsage) }},
		{"garbage:PemKey", func(w W) X { return w.PemKey([]byte("not a PEM block"), keyUsage) }},
		{"garbage:PemKey:type", func(w W) X { return w.PemKey(keyPemBlock("CERTIFICATE", []byte{1, 2, 3}), keyUsage) }},
	}
	for _, u := range unsupported {
		for _, kf := range []uint8{0, 1, 4} {
			out := try(u.label, kf, u.build)
			ctx.Res.Count("outside.unsupported." + out)
			if out == "panic" {
				keyViolate(ctx, "register-total", "key:outside:"+u.label+":panic",
					fmt.Sprintf("the builder panicked on an input it does not support (%s, format mask %d) instead of returning an error", u.label, kf), ctx.current)
			}
		}
	}
	// (b) an rsa.PrivateKey with fewer than two primes: rejected by (*rsa.PrivateKey).Validate, hence not a key of
	// the property; x509.MarshalPKCS1PrivateKey has no error result and indexes Primes[1].  Observed only.
	if env.shapeRSA != nil {
		for np := 0; np < 2; np++ {
			k := &rsa.PrivateKey{PublicKey: rsa.PublicKey{N: new(big.Int).Set(env.shapeRSA.N), E: env.shapeRSA.E}, D: new(big.Int).Set(env.shapeRSA.D)}
			for i := 0; i < np; i++ {
				k.Primes = append(k.Primes, new(big.Int).Set(env.shapeRSA.Primes[i]))
			}
			for _, kf := range []uint8{0, 8, 4, 1} {
				out := try(fmt.Sprintf("rsa-%dprimes:RsaPrivateKey", np), kf, func(w W) X { return w.RsaPrivateKey(k, keyUsage) })
				ctx.Res.Count(fmt.Sprintf("fewprimes.kf%d.%s", kf, out))
			}
		}
	}
}
