/-
  Lemmas about the client's interpretation of responses (`Model/ClientResp.lean`).
-/
import KmipModel.Model.ClientResp
namespace Kmip.Resp

/-! ### `EnumStr` is injective on tables without repeated names -/

/-- two values never share a name. -/
def NameInj (tbl : List (Nat × Nat)) : Prop :=
  ∀ v w n, tbl.lookup v = some n → tbl.lookup w = some n → v = w

theorem mem_of_lookup {tbl : List (Nat × Nat)} {v n : Nat} (h : tbl.lookup v = some n) : (v, n) ∈ tbl := by
  induction tbl with
  | nil => simp [List.lookup] at h
  | cons e es ih =>
    obtain ⟨a, b⟩ := e
    by_cases hva : v = a
    · subst hva
      simp [List.lookup] at h
      subst h
      exact List.mem_cons_self ..
    · have : (v == a) = false := by simp [hva]
      simp only [List.lookup, this] at h
      exact List.mem_cons_of_mem _ (ih h)

theorem eq_of_mem_nodup_snd : ∀ (tbl : List (Nat × Nat)), (tbl.map Prod.snd).Nodup →
    ∀ v w n, (v, n) ∈ tbl → (w, n) ∈ tbl → v = w
  | [], _, _, _, _, h, _ => by simp at h
  | (a, b) :: es, hnd, v, w, n, hv, hw => by
    simp only [List.map_cons, List.nodup_cons] at hnd
    rcases List.mem_cons.1 hv with hv | hv
    · rcases List.mem_cons.1 hw with hw | hw
      · rw [Prod.mk.injEq] at hv hw; exact hv.1.trans hw.1.symm
      · rw [Prod.mk.injEq] at hv
        have : n ∈ es.map Prod.snd := List.mem_map.2 ⟨(w, n), hw, rfl⟩
        rw [hv.2] at this
        exact absurd this hnd.1
    · rcases List.mem_cons.1 hw with hw | hw
      · rw [Prod.mk.injEq] at hw
        have : n ∈ es.map Prod.snd := List.mem_map.2 ⟨(v, n), hv, rfl⟩
        rw [hw.2] at this
        exact absurd this hnd.1
      · exact eq_of_mem_nodup_snd es hnd.2 v w n hv hw

theorem nameInj_of_nodup (tbl : List (Nat × Nat)) (h : (tbl.map Prod.snd).Nodup) : NameInj tbl :=
  fun v w n hv hw => eq_of_mem_nodup_snd tbl h v w n (mem_of_lookup hv) (mem_of_lookup hw)

theorem enumStr_inj {tbl : List (Nat × Nat)} (h : NameInj tbl) {v w : Nat}
    (he : enumStr tbl v = enumStr tbl w) : v = w := by
  unfold enumStr at he
  cases hv : tbl.lookup v with
  | none =>
    cases hw : tbl.lookup w with
    | none => rw [hv, hw] at he; simpa using he
    | some m => rw [hv, hw] at he; simp at he
  | some n =>
    cases hw : tbl.lookup w with
    | none => rw [hv, hw] at he; simp at he
    | some m =>
      rw [hv, hw] at he
      simp only [EStr.name.injEq] at he
      subst he
      exact h v w n hv hw

theorem statusNames_inj : NameInj statusNames := nameInj_of_nodup _ (by decide +kernel)
theorem reasonNames_inj : NameInj reasonNames := nameInj_of_nodup _ (by decide +kernel)
theorem operationNames_inj : NameInj operationNames := nameInj_of_nodup _ (by decide +kernel)
theorem liveStatus_inj : NameInj stdTables.status := nameInj_of_nodup _ (by decide +kernel)
theorem liveReasons_inj : NameInj stdTables.reasons := nameInj_of_nodup _ (by decide +kernel)
theorem liveOps_inj : NameInj stdTables.ops := nameInj_of_nodup _ (by decide +kernel)

/-! ### `ResponseBatchItem.Err` -/

theorem Item.err_eq_none (t : Tables) (bi : Item) : bi.err t = none ↔ bi.status = statusSuccess := by
  unfold Item.err
  by_cases h : bi.status = statusSuccess <;> simp [h]

theorem Item.err_of_failed (t : Tables) (bi : Item) (h : bi.status ≠ statusSuccess) :
    bi.err t = some (.item (enumStr t.ops bi.op) (enumStr t.status bi.status) (enumStr t.reasons bi.reason) bi.msg) := by
  simp [Item.err, h]

/-! ### `BatchOpt` -/

/-- what `BatchOpt` demands of the item answering the operation `o`: not a success, or a payload of `o`. -/
def ItemOk (bi : Item) (o : Nat) : Prop :=
  bi.status ≠ statusSuccess ∨ ∃ p, bi.payload = some p ∧ p.operation = o

/-- … of the items against the requested operations, position by position (same length included). -/
def Conforms : List Item → List Nat → Prop
  | [], [] => True
  | bi :: rest, o :: ops => ItemOk bi o ∧ Conforms rest ops
  | [], _ :: _ => False
  | _ :: _, [] => False

theorem conforms_cons (bi : Item) (rest : List Item) (o : Nat) (ops : List Nat) :
    Conforms (bi :: rest) (o :: ops) ↔ (ItemOk bi o ∧ Conforms rest ops) := Iff.rfl

theorem Conforms.length_eq : ∀ {items : List Item} {ops : List Nat}, Conforms items ops → items.length = ops.length
  | [], [], _ => rfl
  | [], _ :: _, h => by cases h
  | _ :: _, [], h => by cases h
  | _ :: rest, _ :: ops, h => by
    simp only [List.length_cons]
    rw [Conforms.length_eq h.2]

/-- the successful payloads answer the requested operations, position by position. -/
def PayloadsOf : List (Option Payload) → List Nat → Prop
  | [], [] => True
  | q :: qs, o :: ops => (∃ p, q = some p ∧ p.operation = o) ∧ PayloadsOf qs ops
  | [], _ :: _ => False
  | _ :: _, [] => False

/-- `payloads[i]` never goes out of range once the counts were compared. -/
theorem checkItems_ne_none (t : Tables) : ∀ (items : List Item) (ops : List Nat) (i : Nat),
    items.length ≤ ops.length → checkItems t i ops items ≠ none
  | [], _, _, _ => by simp [checkItems]
  | bi :: rest, ops, i, hl => by
    have hl' : rest.length ≤ ops.tail.length := by
      simp only [List.length_cons, List.length_tail] at hl ⊢; omega
    have ih := checkItems_ne_none t rest ops.tail (i + 1) hl'
    unfold checkItems
    by_cases hs : bi.status ≠ statusSuccess
    · rw [if_pos hs]
      cases h : checkItems t (i + 1) ops.tail rest with
      | none => exact absurd h ih
      | some r => simp
    · rw [if_neg hs]
      cases hp : bi.payload with
      | none =>
        simp only
        cases h : checkItems t (i + 1) ops.tail rest with
        | none => exact absurd h ih
        | some r => simp
      | some p =>
        cases ops with
        | nil => simp at hl
        | cons o ops' =>
          simp only [List.tail_cons] at ih
          simp only
          cases h : checkItems t (i + 1) ops' rest with
          | none => exact absurd h ih
          | some r =>
            simp only
            by_cases hop : p.operation ≠ o
            · rw [if_pos hop]; simp
            · rw [if_neg hop]; simp

/-- the violation flag is clear exactly when the items conform. -/
theorem checkItems_flag (t : Tables) : ∀ (items : List Item) (ops : List Nat) (i : Nat) (r : List ItemErr × Bool),
    items.length = ops.length → checkItems t i ops items = some r → (r.2 = false ↔ Conforms items ops)
  | [], ops, _, r, hl, h => by
    cases ops with
    | nil =>
      simp [checkItems] at h
      subst h
      simp [Conforms]
    | cons o ops' => simp at hl
  | bi :: rest, ops, i, r, hl, h => by
    cases ops with
    | nil => simp at hl
    | cons o ops' =>
      have hl' : rest.length = ops'.length := by simpa using hl
      rw [conforms_cons]
      unfold checkItems at h
      simp only [List.tail_cons] at h
      by_cases hs : bi.status ≠ statusSuccess
      · rw [if_pos hs] at h
        cases hr : checkItems t (i + 1) ops' rest with
        | none => rw [hr] at h; cases h
        | some r' =>
          rw [hr] at h
          simp only [Option.some.injEq] at h
          subst h
          have ih := checkItems_flag t rest ops' (i + 1) r' hl' hr
          simp only
          rw [ih]
          exact ⟨fun hc => ⟨.inl hs, hc⟩, fun hc => hc.2⟩
      · rw [if_neg hs] at h
        have hst : bi.status = statusSuccess := by simpa using hs
        cases hp : bi.payload with
        | none =>
          rw [hp] at h
          simp only at h
          cases hr : checkItems t (i + 1) ops' rest with
          | none => rw [hr] at h; cases h
          | some r' =>
            rw [hr] at h
            simp only [Option.some.injEq] at h
            subst h
            simp only [Bool.true_eq_false, false_iff]
            intro ⟨hok, _⟩
            rcases hok with hok | ⟨p, hp', _⟩
            · exact hok hst
            · rw [hp] at hp'; cases hp'
        | some p =>
          rw [hp] at h
          simp only at h
          cases hr : checkItems t (i + 1) ops' rest with
          | none => rw [hr] at h; cases h
          | some r' =>
            rw [hr] at h
            simp only at h
            have ih := checkItems_flag t rest ops' (i + 1) r' hl' hr
            by_cases hop : p.operation ≠ o
            · rw [if_pos hop] at h
              simp only [Option.some.injEq] at h
              subst h
              simp only [Bool.true_eq_false, false_iff]
              intro ⟨hok, _⟩
              rcases hok with hok | ⟨q, hq, hqo⟩
              · exact hok hst
              · rw [hp] at hq; cases hq; exact hop hqo
            · rw [if_neg hop] at h
              simp only [Option.some.injEq] at h
              subst h
              rw [ih]
              have hop' : p.operation = o := by simpa using hop
              exact ⟨fun hc => ⟨.inr ⟨p, hp, hop'⟩, hc⟩, fun hc => hc.2⟩

/-- every failed item has its `Err()` among the collected lines (also when the response is refused). -/
theorem checkItems_reports (t : Tables) : ∀ (items : List Item) (ops : List Nat) (i : Nat) (r : List ItemErr × Bool),
    checkItems t i ops items = some r → ∀ bi, bi ∈ items → bi.status ≠ statusSuccess →
      ItemErr.item (enumStr t.ops bi.op) (enumStr t.status bi.status) (enumStr t.reasons bi.reason) bi.msg ∈ r.1
  | [], _, _, _, _, bi, hbi, _ => by simp at hbi
  | b :: rest, ops, i, r, h, bi, hbi, hs => by
    unfold checkItems at h
    have tailcase : ∀ (ops' : List Nat) (r' : List ItemErr × Bool), checkItems t (i + 1) ops' rest = some r' →
        bi ∈ rest → ItemErr.item (enumStr t.ops bi.op) (enumStr t.status bi.status) (enumStr t.reasons bi.reason) bi.msg ∈ r'.1 :=
      fun ops' r' hr hm => checkItems_reports t rest ops' (i + 1) r' hr bi hm hs
    by_cases hb : b.status ≠ statusSuccess
    · rw [if_pos hb] at h
      cases hr : checkItems t (i + 1) ops.tail rest with
      | none => rw [hr] at h; cases h
      | some r' =>
        rw [hr] at h
        simp only [Option.some.injEq] at h
        subst h
        rcases List.mem_cons.1 hbi with rfl | hm
        · exact List.mem_cons_self ..
        · exact List.mem_cons_of_mem _ (tailcase _ _ hr hm)
    · rw [if_neg hb] at h
      have hm : bi ∈ rest := by
        rcases List.mem_cons.1 hbi with rfl | hm
        · exact absurd hs hb
        · exact hm
      cases hp : b.payload with
      | none =>
        rw [hp] at h
        simp only at h
        cases hr : checkItems t (i + 1) ops.tail rest with
        | none => rw [hr] at h; cases h
        | some r' =>
          rw [hr] at h
          simp only [Option.some.injEq] at h
          subst h
          exact List.mem_cons_of_mem _ (tailcase _ _ hr hm)
      | some p =>
        rw [hp] at h
        simp only at h
        cases ops with
        | nil => simp at h
        | cons o ops' =>
          simp only at h
          cases hr : checkItems t (i + 1) ops' rest with
          | none => rw [hr] at h; cases h
          | some r' =>
            rw [hr] at h
            simp only at h
            by_cases hop : p.operation ≠ o
            · rw [if_pos hop] at h
              simp only [Option.some.injEq] at h
              subst h
              exact List.mem_cons_of_mem _ (tailcase _ _ hr hm)
            · rw [if_neg hop] at h
              simp only [Option.some.injEq] at h
              subst h
              exact tailcase _ _ hr hm

theorem batchOpt_msg (t : Tables) (reqOps : List Nat) (h : Int) (items : List Item) :
    batchOpt t reqOps (.msg h items) =
      if h ≠ (items.length : Int) ∨ items.length ≠ reqOps.length then .err .countMismatch
      else
        match checkItems t 0 reqOps items with
        | none => .panic
        | some r => if r.2 then .err (.joined r.1) else .ok items := rfl

theorem batchOpt_err (t : Tables) (reqOps : List Nat) (h : Int) (items : List Item)
    (hc : h ≠ (items.length : Int) ∨ items.length ≠ reqOps.length) :
    batchOpt t reqOps (.msg h items) = .err .countMismatch := by
  rw [batchOpt_msg, if_pos hc]

theorem batchOpt_ne_panic (t : Tables) (reqOps : List Nat) (rt : RoundTrip) : batchOpt t reqOps rt ≠ .panic := by
  cases rt with
  | fail => simp [batchOpt]
  | msg h items =>
    rw [batchOpt_msg]
    by_cases hc : h ≠ (items.length : Int) ∨ items.length ≠ reqOps.length
    · rw [if_pos hc]; simp
    · rw [if_neg hc]
      have hl : items.length ≤ reqOps.length := by omega
      cases hr : checkItems t 0 reqOps items with
      | none => exact absurd hr (checkItems_ne_none t items reqOps 0 hl)
      | some r => simp only; split <;> simp

/-- `BatchOpt` hands the items to the caller exactly when the counts agree and every successful item
    carries a payload of the operation requested at its position. -/
theorem batchOpt_ok_iff (t : Tables) (reqOps : List Nat) (rt : RoundTrip) (items : List Item) :
    batchOpt t reqOps rt = .ok items ↔ (rt = .msg (items.length : Int) items ∧ Conforms items reqOps) := by
  cases rt with
  | fail =>
    simp only [batchOpt]
    constructor
    · intro h; cases h
    · intro ⟨h, _⟩; cases h
  | msg h its =>
    rw [batchOpt_msg]
    by_cases hc : h ≠ (its.length : Int) ∨ its.length ≠ reqOps.length
    · rw [if_pos hc]
      constructor
      · intro h'; cases h'
      · intro ⟨h1, h2⟩
        simp only [RoundTrip.msg.injEq] at h1
        obtain ⟨h1a, h1b⟩ := h1
        subst h1b
        have := h2.length_eq
        omega
    · rw [if_neg hc]
      have hl : its.length = reqOps.length := by omega
      cases hr : checkItems t 0 reqOps its with
      | none => exact absurd hr (checkItems_ne_none t its reqOps 0 (by omega))
      | some r =>
        simp only
        have hflag := checkItems_flag t its reqOps 0 r hl hr
        by_cases hv : r.2 = true
        · rw [if_pos hv]
          constructor
          · intro h'; cases h'
          · intro ⟨h1, h2⟩
            simp only [RoundTrip.msg.injEq] at h1
            rw [← h1.2] at h2
            have := hflag.2 h2
            rw [hv] at this
            cases this
        · rw [if_neg hv]
          have hv' : r.2 = false := by simpa using hv
          constructor
          · intro h'
            simp only [Res.ok.injEq] at h'
            subst h'
            refine ⟨?_, hflag.1 hv'⟩
            have : h = (its.length : Int) := by omega
            rw [this]
          · intro ⟨h1, _⟩
            simp only [RoundTrip.msg.injEq] at h1
            rw [h1.2]

/-- a refused response: the joined error still lists the `Err()` of every failed item. -/
theorem batchOpt_joined (t : Tables) (reqOps : List Nat) (rt : RoundTrip) (es : List ItemErr)
    (h : batchOpt t reqOps rt = .err (.joined es)) :
    ∃ hc items, rt = .msg hc items ∧ items.length = reqOps.length ∧ ¬ Conforms items reqOps ∧
      ∀ bi, bi ∈ items → bi.status ≠ statusSuccess →
        ItemErr.item (enumStr t.ops bi.op) (enumStr t.status bi.status) (enumStr t.reasons bi.reason) bi.msg ∈ es := by
  cases rt with
  | fail => simp [batchOpt] at h
  | msg hc its =>
    rw [batchOpt_msg] at h
    by_cases hcnt : hc ≠ (its.length : Int) ∨ its.length ≠ reqOps.length
    · rw [if_pos hcnt] at h; cases h
    · rw [if_neg hcnt] at h
      have hl : its.length = reqOps.length := by omega
      cases hr : checkItems t 0 reqOps its with
      | none => exact absurd hr (checkItems_ne_none t its reqOps 0 (by omega))
      | some r =>
        rw [hr] at h
        simp only at h
        by_cases hv : r.2 = true
        · rw [if_pos hv] at h
          simp only [Res.err.injEq, Err.joined.injEq] at h
          subst h
          refine ⟨hc, its, rfl, hl, ?_, checkItems_reports t its reqOps 0 r hr⟩
          intro hconf
          have := (checkItems_flag t its reqOps 0 r hl hr).2 hconf
          rw [hv] at this
          cases this
        · rw [if_neg hv] at h; cases h

/-- counts right but some successful item lacks the requested operation's payload: refused. -/
theorem batchOpt_refuses (t : Tables) (reqOps : List Nat) (items : List Item)
    (hl : items.length = reqOps.length) (hn : ¬ Conforms items reqOps) :
    ∃ es, batchOpt t reqOps (.msg (items.length : Int) items) = .err (.joined es) := by
  rw [batchOpt_msg]
  have hc : ¬ ((items.length : Int) ≠ (items.length : Int) ∨ items.length ≠ reqOps.length) := by omega
  rw [if_neg hc]
  cases hr : checkItems t 0 reqOps items with
  | none => exact absurd hr (checkItems_ne_none t items reqOps 0 (by omega))
  | some r =>
    simp only
    have hflag := checkItems_flag t items reqOps 0 r hl hr
    have hv : r.2 = true := by
      cases hb : r.2 with
      | true => rfl
      | false => exact absurd (hflag.1 hb) hn
    rw [if_pos hv]
    exact ⟨r.1, rfl⟩

/-! ### `Request` -/

theorem requestItem_ok_iff (t : Tables) (reqOp : Nat) (bi : Item) (p : Payload) :
    requestItem t reqOp bi = .ok p ↔ (bi.status = statusSuccess ∧ bi.payload = some p ∧ p.operation = reqOp) := by
  unfold requestItem
  cases he : bi.err t with
  | some e =>
    simp only
    constructor
    · intro h; cases h
    · intro ⟨hs, _⟩
      rw [(Item.err_eq_none t bi).2 hs] at he
      cases he
  | none =>
    have hst := (Item.err_eq_none t bi).1 he
    simp only
    cases hp : bi.payload with
    | none => simp
    | some q =>
      simp only
      by_cases hop : q.operation ≠ reqOp
      · rw [if_pos hop]
        constructor
        · intro h; cases h
        · intro ⟨_, h2, h3⟩
          simp only [Option.some.injEq] at h2
          subst h2
          exact absurd h3 hop
      · rw [if_neg hop]
        have hop' : q.operation = reqOp := by simpa using hop
        constructor
        · intro h
          simp only [Res.ok.injEq] at h
          subst h
          exact ⟨hst, rfl, hop'⟩
        · intro ⟨_, h2, _⟩
          simp only [Option.some.injEq] at h2
          rw [h2]

theorem conforms_singleton (items : List Item) (o : Nat) (h : Conforms items [o]) :
    ∃ bi, items = [bi] ∧ ItemOk bi o := by
  match items, h with
  | [bi], h => exact ⟨bi, rfl, h.1⟩
  | _ :: _ :: _, h => exact absurd h.2 (by simp [Conforms])

theorem request_counts (t : Tables) (reqOp : Nat) (h : Int) (items : List Item)
    (hc : h ≠ 1 ∨ items.length ≠ 1) : request t reqOp (.msg h items) = .err .countMismatch := by
  have : h ≠ (items.length : Int) ∨ items.length ≠ [reqOp].length := by
    simp only [List.length_cons, List.length_nil]; omega
  simp [request, batchOpt_err t [reqOp] h items this]

theorem request_ne_panic (t : Tables) (reqOp : Nat) (rt : RoundTrip) : request t reqOp rt ≠ .panic := by
  unfold request
  cases h : batchOpt t [reqOp] rt with
  | panic => exact absurd h (batchOpt_ne_panic t [reqOp] rt)
  | err e => simp
  | ok items =>
    obtain ⟨_, hconf⟩ := (batchOpt_ok_iff t [reqOp] rt items).1 h
    obtain ⟨bi, rfl, _⟩ := conforms_singleton items reqOp hconf
    simp only
    intro hp
    unfold requestItem at hp
    split at hp
    · cases hp
    · split at hp
      · cases hp
      · split at hp <;> cases hp

/-- `Request` succeeds exactly on a one-item response (header count 1) whose item is a success and
    carries a payload of the requested operation; it then returns that payload. -/
theorem request_ok_iff (t : Tables) (reqOp : Nat) (rt : RoundTrip) (p : Payload) :
    request t reqOp rt = .ok p ↔
      ∃ bi, rt = .msg 1 [bi] ∧ bi.status = statusSuccess ∧ bi.payload = some p ∧ p.operation = reqOp := by
  unfold request
  constructor
  · intro h
    cases hb : batchOpt t [reqOp] rt with
    | panic => rw [hb] at h; cases h
    | err e => rw [hb] at h; cases h
    | ok items =>
      rw [hb] at h
      obtain ⟨hrt, hconf⟩ := (batchOpt_ok_iff t [reqOp] rt items).1 hb
      obtain ⟨bi, rfl, _⟩ := conforms_singleton items reqOp hconf
      simp only at h
      exact ⟨bi, by simpa using hrt, (requestItem_ok_iff t reqOp bi p).1 h⟩
  · intro ⟨bi, hrt, hs, hp, hop⟩
    have hb : batchOpt t [reqOp] rt = .ok [bi] :=
      (batchOpt_ok_iff t [reqOp] rt [bi]).2 ⟨by simpa using hrt, ⟨.inr ⟨p, hp, hop⟩, trivial⟩⟩
    rw [hb]
    simp only
    exact (requestItem_ok_iff t reqOp bi p).2 ⟨hs, hp, hop⟩

/-- a failed (pending, undone, unknown status …) item is returned as the item's error. -/
theorem request_failed (t : Tables) (reqOp : Nat) (bi : Item) (h : bi.status ≠ statusSuccess) :
    request t reqOp (.msg 1 [bi]) =
      .err (.item (enumStr t.ops bi.op) (enumStr t.status bi.status) (enumStr t.reasons bi.reason) bi.msg) := by
  have hb : batchOpt t [reqOp] (.msg 1 [bi]) = .ok [bi] :=
    (batchOpt_ok_iff t [reqOp] _ [bi]).2 ⟨rfl, ⟨.inl h, trivial⟩⟩
  simp [request, hb, requestItem, Item.err_of_failed t bi h]

/-- a success item without payload: refused by `BatchOpt`. -/
theorem request_missing (t : Tables) (reqOp : Nat) (bi : Item) (h : bi.status = statusSuccess)
    (hp : bi.payload = none) : request t reqOp (.msg 1 [bi]) = .err (.joined [.missingAt 0]) := by
  simp [request, batchOpt, checkItems, h, hp]

/-- a success item carrying the payload of another operation: refused by `BatchOpt`. -/
theorem request_foreign (t : Tables) (reqOp : Nat) (bi : Item) (p : Payload) (h : bi.status = statusSuccess)
    (hp : bi.payload = some p) (hop : p.operation ≠ reqOp) :
    request t reqOp (.msg 1 [bi]) =
      .err (.joined [.wrongOperationAt (enumStr t.ops p.operation) (enumStr t.ops reqOp) 0]) := by
  simp [request, batchOpt, checkItems, h, hp, hop]

/-! ### `ExecContext` -/

theorem exec_ne_panic (t : Tables) (reqOp : Nat) (b : Bool) (rt : RoundTrip) : exec t reqOp b rt ≠ .panic := by
  unfold exec
  cases b with
  | false => simp
  | true =>
    simp only [Bool.not_true, Bool.false_eq_true, if_false]
    have := request_ne_panic t reqOp rt
    cases h : request t reqOp rt with
    | ok p => simp only; split <;> simp
    | err e => simp
    | panic => exact absurd h this

theorem exec_ok_iff (t : Tables) (reqOp : Nat) (b : Bool) (rt : RoundTrip) (p : Payload) :
    exec t reqOp b rt = .ok p ↔
      (b = true ∧ p = .resp reqOp ∧
        ∃ bi, rt = .msg 1 [bi] ∧ bi.status = statusSuccess ∧ bi.payload = some (.resp reqOp)) := by
  unfold exec
  cases b with
  | false => simp
  | true =>
    simp only [Bool.not_true, Bool.false_eq_true, if_false, true_and]
    cases h : request t reqOp rt with
    | ok q =>
      simp only
      have hq := (request_ok_iff t reqOp rt q).1 h
      by_cases hqr : q = .resp reqOp
      · rw [if_pos hqr]
        subst hqr
        constructor
        · intro h'
          cases h'
          obtain ⟨bi, h1, h2, h3, _⟩ := hq
          exact ⟨rfl, bi, h1, h2, h3⟩
        · intro ⟨h', _⟩; rw [h']
      · rw [if_neg hqr]
        constructor
        · intro h'; cases h'
        · intro ⟨h', bi, h1, h2, h3⟩
          exfalso
          have : request t reqOp rt = .ok (.resp reqOp) :=
            (request_ok_iff t reqOp rt _).2 ⟨bi, h1, h2, h3, rfl⟩
          rw [h] at this
          cases this
          exact hqr rfl
    | err e =>
      simp only
      constructor
      · intro h'; cases h'
      · intro ⟨_, bi, h1, h2, h3⟩
        have : request t reqOp rt = .ok (.resp reqOp) :=
          (request_ok_iff t reqOp rt _).2 ⟨bi, h1, h2, h3, rfl⟩
        rw [h] at this
        cases this
    | panic => exact absurd h (request_ne_panic t reqOp rt)

/-- whatever `Request` refuses, `ExecContext` refuses with the same error. -/
theorem exec_err_of_request (t : Tables) (reqOp : Nat) (rt : RoundTrip) (e : Err)
    (h : request t reqOp rt = .err e) : exec t reqOp true rt = .err e := by
  simp [exec, h]

/-! ### `Unwrap` -/

theorem unwrap_fst (t : Tables) (items : List Item) : (unwrap t items).1 = items.map (·.payload) := by
  induction items with
  | nil => rfl
  | cons bi rest ih => simp [unwrap, ih]

theorem unwrap_snd (t : Tables) (items : List Item) : (unwrap t items).2 = items.filterMap (·.err t) := by
  induction items with
  | nil => rfl
  | cons bi rest ih =>
    simp only [unwrap, List.filterMap_cons, ih]
    cases bi.err t <;> rfl

theorem unwrap_no_error_iff (t : Tables) (items : List Item) :
    (unwrap t items).2 = [] ↔ ∀ bi, bi ∈ items → bi.status = statusSuccess := by
  rw [unwrap_snd]
  induction items with
  | nil => simp
  | cons bi rest ih =>
    simp only [List.filterMap_cons, List.mem_cons]
    cases he : bi.err t with
    | none =>
      simp only
      rw [ih]
      have := (Item.err_eq_none t bi).1 he
      constructor
      · intro h b hb
        rcases hb with rfl | hb
        · exact this
        · exact h b hb
      · intro h b hb; exact h b (.inr hb)
    | some e =>
      simp only
      constructor
      · intro h; cases h
      · intro h
        have := (Item.err_eq_none t bi).2 (h bi (.inl rfl))
        rw [he] at this
        cases this

theorem batchUnwrap_ne_panic (t : Tables) (reqOps : List Nat) (rt : RoundTrip) :
    batchUnwrap t reqOps rt ≠ .panic := by
  unfold batchUnwrap
  have := batchOpt_ne_panic t reqOps rt
  cases h : batchOpt t reqOps rt with
  | ok items => simp
  | err e => simp
  | panic => exact absurd h this

theorem batchUnwrap_ok_iff (t : Tables) (reqOps : List Nat) (rt : RoundTrip)
    (r : List (Option Payload) × List Err) :
    batchUnwrap t reqOps rt = .ok r ↔
      ∃ items, rt = .msg (items.length : Int) items ∧ Conforms items reqOps ∧ r = unwrap t items := by
  unfold batchUnwrap
  cases h : batchOpt t reqOps rt with
  | ok items =>
    have hi := (batchOpt_ok_iff _ _ _ _).1 h
    simp only [Res.ok.injEq]
    constructor
    · intro h'; exact ⟨items, hi.1, hi.2, h'.symm⟩
    · intro ⟨its, h1, _, h3⟩
      rw [hi.1] at h1
      simp only [RoundTrip.msg.injEq] at h1
      rw [h3, h1.2]
  | err e =>
    simp only
    constructor
    · intro h'; cases h'
    · intro ⟨its, h1, h2, _⟩
      have := (batchOpt_ok_iff t reqOps rt its).2 ⟨h1, h2⟩
      rw [h] at this
      cases this
  | panic => exact absurd h (batchOpt_ne_panic _ _ _)

theorem respKind_operation (reg : List Nat) (o : Nat) : (respKind reg o).operation = o := by
  unfold respKind
  split <;> rfl

/-- conforming, all successful, wire-shaped items carry exactly the registered response types of the
    requested operations. -/
theorem conforms_payloads (reg : List Nat) : ∀ (items : List Item) (ops : List Nat), Conforms items ops →
    (∀ bi, bi ∈ items → bi.status = statusSuccess) →
    (∀ bi, bi ∈ items → ∀ p, bi.payload = some p → bi.op ≠ 0 ∧ p = respKind reg bi.op) →
    items.map (·.payload) = ops.map (fun o => some (respKind reg o))
  | [], [], _, _, _ => rfl
  | [], _ :: _, h, _, _ => by cases h
  | _ :: _, [], h, _, _ => by cases h
  | bi :: rest, o :: ops, h, hs, hw => by
    rw [conforms_cons] at h
    have ih := conforms_payloads reg rest ops h.2 (fun b hb => hs b (List.mem_cons_of_mem _ hb))
      (fun b hb => hw b (List.mem_cons_of_mem _ hb))
    simp only [List.map_cons, ih, List.cons.injEq, and_true]
    rcases h.1 with hf | ⟨p, hp, hop⟩
    · exact absurd (hs bi (List.mem_cons_self ..)) hf
    · have hk := (hw bi (List.mem_cons_self ..) p hp).2
      rw [hp, hk]
      rw [hk, respKind_operation] at hop
      rw [hop]

/-- … and, without any assumption on the shape, payloads of the requested operations. -/
theorem conforms_operations : ∀ (items : List Item) (ops : List Nat), Conforms items ops →
    (∀ bi, bi ∈ items → bi.status = statusSuccess) → PayloadsOf (items.map (·.payload)) ops
  | [], [], _, _ => trivial
  | [], _ :: _, h, _ => by cases h
  | _ :: _, [], h, _ => by cases h
  | bi :: rest, o :: ops, h, hs => by
    rw [conforms_cons] at h
    have ih := conforms_operations rest ops h.2 (fun b hb => hs b (List.mem_cons_of_mem _ hb))
    refine ⟨?_, ih⟩
    rcases h.1 with hf | ⟨p, hp, hop⟩
    · exact absurd (hs bi (List.mem_cons_self ..)) hf
    · exact ⟨p, hp, hop⟩

/-! ### the code before 3ff9e72 (kept to document what that fix repaired) -/

/-- OLD `BatchOpt`: only the counts were compared. -/
def batchOptOld (nreq : Nat) : RoundTrip → Res (List Item)
  | .fail => .err .transport
  | .msg h items =>
    if h ≠ (items.length : Int) ∨ items.length ≠ nreq then .err .countMismatch
    else .ok items

/-- OLD `Batch(...)` + `Unwrap()`. -/
def batchUnwrapOld (t : Tables) (reqOps : List Nat) (rt : RoundTrip) : Res (List (Option Payload) × List Err) :=
  match batchOptOld reqOps.length rt with
  | .ok items => .ok (unwrap t items)
  | .err e => .err e
  | .panic => .panic

end Kmip.Resp
