package main

// Abstract shapes of decoded key objects for the accessor-totality part of the `key` engine: a Go mirror
// of the Lean `GetResp` / `Obj` / `KeyBlockV`, convertible to the real library objects and back, and
// printed in the token syntax of the `key.access` protocol line.

import (
	"fmt"
	"math/big"
	"strconv"
	"strings"

	kmip "github.com/ovh/kmip-go"
)

type keyShRsaPriv struct {
	n                      *big.Int
	d, e, p, q, dp, dq, qi *big.Int // nil = absent
}
type keyShRsaPub struct{ n, e *big.Int }
type keyShEcPriv struct {
	curve uint32
	d     *big.Int
}
type keyShEcPub struct {
	curve uint32
	q     []byte
}

type keyShMaterial struct {
	bytes, sym *[]byte
	rsaPriv    *keyShRsaPriv
	rsaPub     *keyShRsaPub
	ecdsaPriv  *keyShEcPriv
	ecdsaPub   *keyShEcPub
	ecPriv     *keyShEcPriv
	ecPub      *keyShEcPub
}

type keyShKeyBlock struct {
	format, comp uint32
	hasKV        bool
	wrapped      bool
	plain        *keyShMaterial
	attrs        int
}

// object kinds: nil op te ce sd sk pu pr sp pg
type keyShObj struct {
	kind string
	ty   uint32 // secret data type / certificate type
	cert []byte
	kb   keyShKeyBlock
}

func keyBigTok(v *big.Int) string {
	if v == nil {
		return "_"
	}
	return v.String()
}

func (o *keyShObj) render(kb *keyBlobs) string {
	switch o.kind {
	case "nil", "op", "te":
		return o.kind
	case "ce":
		return fmt.Sprintf("ce:%d:%s", o.ty, kb.kind(o.cert))
	}
	head := o.kind
	if o.kind == "sd" {
		head = fmt.Sprintf("sd:%d", o.ty)
	}
	k := &o.kb
	var kv string
	switch {
	case !k.hasKV:
		kv = "n"
	case k.plain == nil && !k.wrapped:
		kv = "-"
	case k.plain == nil:
		kv = "w"
	default:
		m := k.plain
		pre := "p:"
		if k.wrapped {
			pre = "wp:"
		}
		bt := func(b *[]byte) string {
			if b == nil {
				return "_"
			}
			return kb.kind(*b)
		}
		rp, ru, dp, du, ep, eu := "_", "_", "_", "_", "_", "_"
		if t := m.rsaPriv; t != nil {
			rp = strings.Join([]string{t.n.String(), keyBigTok(t.d), keyBigTok(t.e), keyBigTok(t.p), keyBigTok(t.q), keyBigTok(t.dp), keyBigTok(t.dq), keyBigTok(t.qi)}, ",")
		}
		if t := m.rsaPub; t != nil {
			ru = t.n.String() + "," + t.e.String()
		}
		ecp := func(t *keyShEcPriv) string {
			if t == nil {
				return "_"
			}
			return fmt.Sprintf("%d,%s", t.curve, t.d.String())
		}
		ecu := func(t *keyShEcPub) string {
			if t == nil {
				return "_"
			}
			return fmt.Sprintf("%d,%s", t.curve, kb.kind(t.q))
		}
		dp, du, ep, eu = ecp(m.ecdsaPriv), ecu(m.ecdsaPub), ecp(m.ecPriv), ecu(m.ecPub)
		kv = fmt.Sprintf("%s%d %s %s %s %s %s %s %s %s", pre, k.attrs, bt(m.bytes), bt(m.sym), rp, ru, dp, du, ep, eu)
	}
	return fmt.Sprintf("%s %d %d %s", head, k.format, k.comp, kv)
}

func keySampleAttrs(n int) []kmip.Attribute {
	var out []kmip.Attribute
	for i := 0; i < n; i++ {
		if i%2 == 0 {
			out = append(out, kmip.Attribute{AttributeName: kmip.AttributeNameCryptographicAlgorithm, AttributeValue: kmip.CryptographicAlgorithmAES})
		} else {
			out = append(out, kmip.Attribute{AttributeName: kmip.AttributeNameCryptographicLength, AttributeValue: int32(128)})
		}
	}
	return out
}

func keyCpBig(v *big.Int) *big.Int {
	if v == nil {
		return nil
	}
	return new(big.Int).Set(v)
}

func (k *keyShKeyBlock) toGo() kmip.KeyBlock {
	out := kmip.KeyBlock{KeyFormatType: kmip.KeyFormatType(k.format), KeyCompressionType: kmip.KeyCompressionType(k.comp)}
	if !k.hasKV {
		return out
	}
	out.KeyValue = &kmip.KeyValue{}
	if k.wrapped {
		w := []byte{1, 2, 3}
		out.KeyValue.Wrapped = &w
	}
	if k.plain != nil {
		m := k.plain
		pl := &kmip.PlainKeyValue{Attribute: keySampleAttrs(k.attrs)}
		cpb := func(b *[]byte) *[]byte {
			if b == nil {
				return nil
			}
			c := append([]byte{}, (*b)...)
			return &c
		}
		pl.KeyMaterial.Bytes = cpb(m.bytes)
		if m.sym != nil {
			pl.KeyMaterial.TransparentSymmetricKey = &kmip.TransparentSymmetricKey{Key: append([]byte{}, (*m.sym)...)}
		}
		if t := m.rsaPriv; t != nil {
			pl.KeyMaterial.TransparentRSAPrivateKey = &kmip.TransparentRSAPrivateKey{Modulus: *keyCpBig(t.n), PrivateExponent: keyCpBig(t.d), PublicExponent: keyCpBig(t.e),
				P: keyCpBig(t.p), Q: keyCpBig(t.q), PrimeExponentP: keyCpBig(t.dp), PrimeExponentQ: keyCpBig(t.dq), CRTCoefficient: keyCpBig(t.qi)}
		}
		if t := m.rsaPub; t != nil {
			pl.KeyMaterial.TransparentRSAPublicKey = &kmip.TransparentRSAPublicKey{Modulus: *keyCpBig(t.n), PublicExponent: *keyCpBig(t.e)}
		}
		if t := m.ecdsaPriv; t != nil {
			//nolint:staticcheck
			pl.KeyMaterial.TransparentECDSAPrivateKey = &kmip.TransparentECDSAPrivateKey{RecommendedCurve: kmip.RecommendedCurve(t.curve), D: *keyCpBig(t.d)}
		}
		if t := m.ecdsaPub; t != nil {
			//nolint:staticcheck
			pl.KeyMaterial.TransparentECDSAPublicKey = &kmip.TransparentECDSAPublicKey{RecommendedCurve: kmip.RecommendedCurve(t.curve), QString: append([]byte{}, t.q...)}
		}
		if t := m.ecPriv; t != nil {
			pl.KeyMaterial.TransparentECPrivateKey = &kmip.TransparentECPrivateKey{RecommendedCurve: kmip.RecommendedCurve(t.curve), D: *keyCpBig(t.d)}
		}
		if t := m.ecPub; t != nil {
			pl.KeyMaterial.TransparentECPublicKey = &kmip.TransparentECPublicKey{RecommendedCurve: kmip.RecommendedCurve(t.curve), QString: append([]byte{}, t.q...)}
		}
		out.KeyValue.Plain = pl
	}
	return out
}

// toGo builds the library object (nil interface for kind "nil").
func (o *keyShObj) toGo() kmip.Object {
	switch o.kind {
	case "nil":
		return nil
	case "op":
		return &kmip.OpaqueObject{OpaqueDataType: 1, OpaqueDataValue: []byte{1}}
	case "te":
		//nolint:staticcheck
		return &kmip.Template{Attribute: keySampleAttrs(1)}
	case "ce":
		return &kmip.Certificate{CertificateType: kmip.CertificateType(o.ty), CertificateValue: append([]byte{}, o.cert...)}
	case "sd":
		return &kmip.SecretData{SecretDataType: kmip.SecretDataType(o.ty), KeyBlock: o.kb.toGo()}
	case "sk":
		return &kmip.SymmetricKey{KeyBlock: o.kb.toGo()}
	case "pu":
		return &kmip.PublicKey{KeyBlock: o.kb.toGo()}
	case "pr":
		return &kmip.PrivateKey{KeyBlock: o.kb.toGo()}
	case "sp":
		return &kmip.SplitKey{SplitKeyParts: 2, KeyPartIdentifier: 1, SplitKeyThreshold: 2, SplitKeyMethod: 1, KeyBlock: o.kb.toGo()}
	case "pg":
		return &kmip.PGPKey{PGPKeyVersion: 4, KeyBlock: o.kb.toGo()}
	}
	return nil
}

func keyBlockFromGo(g *kmip.KeyBlock) keyShKeyBlock {
	k := keyShKeyBlock{format: uint32(g.KeyFormatType), comp: uint32(g.KeyCompressionType)}
	if g.KeyValue == nil {
		return k
	}
	k.hasKV = true
	k.wrapped = g.KeyValue.Wrapped != nil
	if pl := g.KeyValue.Plain; pl != nil {
		m := &keyShMaterial{}
		k.attrs = len(pl.Attribute)
		km := &pl.KeyMaterial
		if km.Bytes != nil {
			b := append([]byte{}, (*km.Bytes)...)
			m.bytes = &b
		}
		if t := km.TransparentSymmetricKey; t != nil {
			b := append([]byte{}, t.Key...)
			m.sym = &b
		}
		if t := km.TransparentRSAPrivateKey; t != nil {
			m.rsaPriv = &keyShRsaPriv{n: keyCpBig(&t.Modulus), d: keyCpBig(t.PrivateExponent), e: keyCpBig(t.PublicExponent), p: keyCpBig(t.P), q: keyCpBig(t.Q),
				dp: keyCpBig(t.PrimeExponentP), dq: keyCpBig(t.PrimeExponentQ), qi: keyCpBig(t.CRTCoefficient)}
		}
		if t := km.TransparentRSAPublicKey; t != nil {
			m.rsaPub = &keyShRsaPub{n: keyCpBig(&t.Modulus), e: keyCpBig(&t.PublicExponent)}
		}
		if t := km.TransparentECDSAPrivateKey; t != nil {
			m.ecdsaPriv = &keyShEcPriv{curve: uint32(t.RecommendedCurve), d: keyCpBig(&t.D)}
		}
		if t := km.TransparentECDSAPublicKey; t != nil {
			m.ecdsaPub = &keyShEcPub{curve: uint32(t.RecommendedCurve), q: append([]byte{}, t.QString...)}
		}
		if t := km.TransparentECPrivateKey; t != nil {
			m.ecPriv = &keyShEcPriv{curve: uint32(t.RecommendedCurve), d: keyCpBig(&t.D)}
		}
		if t := km.TransparentECPublicKey; t != nil {
			m.ecPub = &keyShEcPub{curve: uint32(t.RecommendedCurve), q: append([]byte{}, t.QString...)}
		}
		k.plain = m
	}
	return k
}

// keyObjFromGo abstracts a library object (as decoded) back to a shape.
func keyObjFromGo(g kmip.Object) *keyShObj {
	switch v := g.(type) {
	case nil:
		return &keyShObj{kind: "nil"}
	case *kmip.OpaqueObject:
		return &keyShObj{kind: "op"}
	//nolint:staticcheck
	case *kmip.Template:
		return &keyShObj{kind: "te"}
	case *kmip.Certificate:
		return &keyShObj{kind: "ce", ty: uint32(v.CertificateType), cert: append([]byte{}, v.CertificateValue...)}
	case *kmip.SecretData:
		return &keyShObj{kind: "sd", ty: uint32(v.SecretDataType), kb: keyBlockFromGo(&v.KeyBlock)}
	case *kmip.SymmetricKey:
		return &keyShObj{kind: "sk", kb: keyBlockFromGo(&v.KeyBlock)}
	case *kmip.PublicKey:
		return &keyShObj{kind: "pu", kb: keyBlockFromGo(&v.KeyBlock)}
	case *kmip.PrivateKey:
		return &keyShObj{kind: "pr", kb: keyBlockFromGo(&v.KeyBlock)}
	case *kmip.SplitKey:
		return &keyShObj{kind: "sp", kb: keyBlockFromGo(&v.KeyBlock)}
	case *kmip.PGPKey:
		return &keyShObj{kind: "pg", kb: keyBlockFromGo(&v.KeyBlock)}
	}
	return nil
}

func (o *keyShObj) naturalType() uint32 {
	switch o.kind {
	case "ce":
		return 1
	case "sk":
		return 2
	case "pu":
		return 3
	case "pr":
		return 4
	case "sp":
		return 5
	case "te":
		return 6
	case "sd":
		return 7
	case "op":
		return 8
	case "pg":
		return 9
	}
	return 0
}

// ---- parsing (replay) ----

func (kb *keyBlobs) parseKind(s string) ([]byte, error) {
	if b, ok := kb.byName[s]; ok {
		return b, nil
	}
	if strings.HasPrefix(s, "x") {
		if s == "x" {
			return []byte{}, nil
		}
		return hexDecodeString(s[1:])
	}
	return nil, fmt.Errorf("unknown bytes kind %q", s)
}

func keyParseBigTok(s string) (*big.Int, error) {
	if s == "_" {
		return nil, nil
	}
	v, ok := new(big.Int).SetString(s, 10)
	if !ok {
		return nil, fmt.Errorf("bad integer %q", s)
	}
	return v, nil
}

func keyParseShObj(kb *keyBlobs, toks []string) (*keyShObj, error) {
	if len(toks) == 0 {
		return nil, fmt.Errorf("empty object")
	}
	switch {
	case toks[0] == "nil" || toks[0] == "op" || toks[0] == "te":
		return &keyShObj{kind: toks[0]}, nil
	case strings.HasPrefix(toks[0], "ce:"):
		p := strings.Split(toks[0], ":")
		if len(p) != 3 {
			return nil, fmt.Errorf("bad certificate token")
		}
		ty, err := strconv.ParseUint(p[1], 10, 32)
		if err != nil {
			return nil, err
		}
		b, err := kb.parseKind(p[2])
		if err != nil {
			return nil, err
		}
		return &keyShObj{kind: "ce", ty: uint32(ty), cert: b}, nil
	}
	o := &keyShObj{kind: toks[0]}
	if strings.HasPrefix(toks[0], "sd:") {
		ty, err := strconv.ParseUint(toks[0][3:], 10, 32)
		if err != nil {
			return nil, err
		}
		o.kind, o.ty = "sd", uint32(ty)
	}
	if len(toks) < 4 {
		return nil, fmt.Errorf("short key block")
	}
	f, err := strconv.ParseUint(toks[1], 10, 32)
	if err != nil {
		return nil, err
	}
	c, err := strconv.ParseUint(toks[2], 10, 32)
	if err != nil {
		return nil, err
	}
	o.kb.format, o.kb.comp = uint32(f), uint32(c)
	kv := toks[3]
	switch {
	case kv == "n":
		return o, nil
	case kv == "-":
		o.kb.hasKV = true
		return o, nil
	case kv == "w":
		o.kb.hasKV, o.kb.wrapped = true, true
		return o, nil
	}
	o.kb.hasKV = true
	rest := ""
	switch {
	case strings.HasPrefix(kv, "wp:"):
		o.kb.wrapped, rest = true, kv[3:]
	case strings.HasPrefix(kv, "p:"):
		rest = kv[2:]
	default:
		return nil, fmt.Errorf("bad key value token %q", kv)
	}
	if o.kb.attrs, err = strconv.Atoi(rest); err != nil {
		return nil, err
	}
	s := toks[4:]
	if len(s) != 8 {
		return nil, fmt.Errorf("want 8 material slots, got %d", len(s))
	}
	m := &keyShMaterial{}
	optBytes := func(t string) (*[]byte, error) {
		if t == "_" {
			return nil, nil
		}
		b, err := kb.parseKind(t)
		return &b, err
	}
	if m.bytes, err = optBytes(s[0]); err != nil {
		return nil, err
	}
	if m.sym, err = optBytes(s[1]); err != nil {
		return nil, err
	}
	if s[2] != "_" {
		p := strings.Split(s[2], ",")
		if len(p) != 8 {
			return nil, fmt.Errorf("bad rsa private slot")
		}
		var v [8]*big.Int
		for i := range p {
			if v[i], err = keyParseBigTok(p[i]); err != nil {
				return nil, err
			}
		}
		if v[0] == nil {
			return nil, fmt.Errorf("modulus is mandatory")
		}
		m.rsaPriv = &keyShRsaPriv{n: v[0], d: v[1], e: v[2], p: v[3], q: v[4], dp: v[5], dq: v[6], qi: v[7]}
	}
	if s[3] != "_" {
		p := strings.Split(s[3], ",")
		if len(p) != 2 {
			return nil, fmt.Errorf("bad rsa public slot")
		}
		n, err1 := keyParseBigTok(p[0])
		e, err2 := keyParseBigTok(p[1])
		if err1 != nil || err2 != nil || n == nil || e == nil {
			return nil, fmt.Errorf("bad rsa public slot")
		}
		m.rsaPub = &keyShRsaPub{n: n, e: e}
	}
	ecp := func(t string) (*keyShEcPriv, error) {
		if t == "_" {
			return nil, nil
		}
		p := strings.Split(t, ",")
		if len(p) != 2 {
			return nil, fmt.Errorf("bad ec private slot")
		}
		c, err := strconv.ParseUint(p[0], 10, 32)
		if err != nil {
			return nil, err
		}
		d, err := keyParseBigTok(p[1])
		if err != nil || d == nil {
			return nil, fmt.Errorf("bad ec scalar")
		}
		return &keyShEcPriv{curve: uint32(c), d: d}, nil
	}
	ecu := func(t string) (*keyShEcPub, error) {
		if t == "_" {
			return nil, nil
		}
		p := strings.Split(t, ",")
		if len(p) != 2 {
			return nil, fmt.Errorf("bad ec public slot")
		}
		c, err := strconv.ParseUint(p[0], 10, 32)
		if err != nil {
			return nil, err
		}
		q, err := kb.parseKind(p[1])
		if err != nil {
			return nil, err
		}
		return &keyShEcPub{curve: uint32(c), q: q}, nil
	}
	if m.ecdsaPriv, err = ecp(s[4]); err != nil {
		return nil, err
	}
	if m.ecdsaPub, err = ecu(s[5]); err != nil {
		return nil, err
	}
	if m.ecPriv, err = ecp(s[6]); err != nil {
		return nil, err
	}
	if m.ecPub, err = ecu(s[7]); err != nil {
		return nil, err
	}
	o.kb.plain = m
	return o, nil
}
