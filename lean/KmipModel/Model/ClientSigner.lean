/-
  The composite client helper `Client.Signer` / `cryptoSigner.Sign` — model of
    kmipclient/sign_verify.go  `Signer`, `verifySignerKeyAttributes`, `cryptoSigner.Sign`
  (the only place of kmipclient/*.go outside client.go where the CONTENT of response payloads is
  interpreted: two GetAttributes exchanges, one Get exchange, later one Sign exchange per signature).

  Each exchange goes through `Executor.ExecContext` (`Kmip.Resp.exec`), so the server is data: a SCRIPT, the
  list of answers it gives to the successive requests (an exhausted script = the connection is dead). An
  answer is the abstract round trip of `Model/ClientResp.lean` plus the content of the payload that the helper
  looks at (only consulted when `exec` accepted the response):

    GetAttributes  the attribute list; per attribute the name class and the value — `none` = a value whose
                   Go type is not the one belonging to the name (cannot come from the wire:
                   `Attribute.TagDecodeTTLV` types the value from the name; reachable with a response
                   fabricated by a client middleware)
    Get            the result of `GetResponsePayload.PublicKey()` (payloads/get.go, objects.go: C14's area):
                   an error, or a Go public key of some kind
    Sign           the length of `SignatureData`

  Go panics are explicit `.panic` results: the four unchecked `attr.AttributeValue.(T)` assertions and the
  unchecked `c.publicKey.(*ecdsa.PublicKey)` of `Sign`. `Variant` says which of them the code checks
  (`currentCode` is the tree under verification).
-/
import KmipModel.Model.ClientResp
namespace Kmip.Signer
open Kmip.Resp

def opGetAttributes : Nat := 0xB
def opGet : Nat := 0xA
def opSign : Nat := 0x21

def otPublicKey : Nat := 3
def otPrivateKey : Nat := 4
def algRSA : Nat := 4
def algECDSA : Nat := 6
def algEC : Nat := 0x1A
def linkPublicKey : Nat := 0x102
def linkPrivateKey : Nat := 0x103
def maskSign : Nat := 1
def maskVerify : Nat := 2

/-- one `kmip.Attribute` of a GetAttributes response, as far as `verifySignerKeyAttributes` looks at it.
    The value is `none` when its Go type is not the type belonging to the attribute name. -/
inductive Attr where
  | objectType (v : Option Nat)
  | alg (v : Option Nat)
  | link (v : Option (Nat × Bool))     -- link type, "LinkedObjectIdentifier is not empty"
  | mask (v : Option Nat)
  | other                              -- any other attribute name: ignored
  deriving DecidableEq, Repr, Inhabited

/-- what `GetResponsePayload.PublicKey()` returned. -/
inductive PubKey where
  | rsa
  | ecdsa (coordBytes : Nat)           -- `(curve.Params().BitSize+7)/8`
  | other                              -- ed25519.PublicKey, *ecdh.PublicKey, …
  deriving DecidableEq, Repr, Inhabited

/-- one answer of the server. -/
structure Answer where
  rt : RoundTrip
  attrs : List Attr := []
  key : Option PubKey := none          -- `none`: `PublicKey()` returned an error
  sigLen : Nat := 0
  deriving Repr, Inhabited

/-- which assertions the code checks. -/
structure Variant where
  checkedAttrs : Bool                  -- `v, ok := attr.AttributeValue.(T); if !ok { return error }`
  checkedKey : Bool                    -- key kind compared with the algorithm (in `Signer` and in `Sign`)
  deriving DecidableEq, Repr, Inhabited

def unchecked : Variant := { checkedAttrs := false, checkedKey := false }
def checked : Variant := { checkedAttrs := true, checkedKey := true }

/-- the code of the tree under verification (kmipclient/sign_verify.go with the repair /tmp/fix-C12-1.diff:
    checked attribute assertions, key kind compared with the announced algorithm). -/
def currentCode : Variant := checked

/-- errors of the helper: the error of an exchange (wrapped with `%w`, so that it still carries the failed
    item), or one raised by the helper itself (unexpected object type, unsupported algorithm, missing link,
    usage mask, invalid key material, unsupported hash, …). -/
inductive SErr where
  | exec (e : Err)
  | helper
  deriving DecidableEq, Repr, Inhabited

inductive SRes (α : Type) where
  | ok (a : α)
  | err (e : SErr)
  | panic
  deriving DecidableEq, Repr, Inhabited

def SRes.bind {α β : Type} (r : SRes α) (f : α → SRes β) : SRes β :=
  match r with
  | .ok a => f a
  | .err e => .err e
  | .panic => .panic

/-- the next answer of the script; an exhausted script answers nothing (transport failure). -/
def nextAnswer : List Answer → Answer × List Answer
  | [] => ({ rt := .fail }, [])
  | a :: rest => (a, rest)

/-- a typed value missing: the unchecked assertion panics, the checked one is an error. -/
def badValue {α : Type} (v : Variant) : SRes α := if v.checkedAttrs then .err .helper else .panic

/-- state of the attribute loop: `c.alg` (0 = not yet known) and `linkedKeyId ≠ ""`. -/
structure LoopSt where
  alg : Nat
  linked : Bool
  deriving DecidableEq, Repr, Inhabited

/-- the `for _, attr := range resp.Attribute` loop of `verifySignerKeyAttributes`. -/
def attrLoop (v : Variant) (expOT expMask : Nat) : List Attr → LoopSt → SRes LoopSt
  | [], st => .ok st
  | .objectType none :: _, _ => badValue v
  | .objectType (some ot) :: rest, st =>
    if ot ≠ expOT then .err .helper else attrLoop v expOT expMask rest st
  | .alg none :: _, _ => badValue v
  | .alg (some a) :: rest, st =>
    if a ≠ algRSA ∧ a ≠ algEC ∧ a ≠ algECDSA then .err .helper
    else if st.alg = 0 then attrLoop v expOT expMask rest { st with alg := a }
    else if a ≠ st.alg then .err .helper
    else attrLoop v expOT expMask rest st
  | .link none :: _, _ => badValue v
  | .link (some (lt, hasId)) :: rest, st =>
    if (lt = linkPublicKey ∧ expOT = otPrivateKey) ∨ (lt = linkPrivateKey ∧ expOT = otPublicKey) then
      attrLoop v expOT expMask rest { st with linked := hasId }
    else attrLoop v expOT expMask rest st
  | .mask none :: _, _ => badValue v
  | .mask (some m) :: rest, st =>
    if m &&& expMask = 0 then .err .helper else attrLoop v expOT expMask rest st
  | .other :: rest, st => attrLoop v expOT expMask rest st

/-- `verifySignerKeyAttributes`: one GetAttributes exchange, then the loop. Returns `c.alg`, whether a linked
    key id was found, and the rest of the script. -/
def verifyKey (v : Variant) (t : Tables) (expOT expMask alg : Nat) (script : List Answer) :
    SRes (LoopSt × List Answer) :=
  let (a, rest) := nextAnswer script
  match exec t opGetAttributes true a.rt with
  | .panic => .panic
  | .err e => .err (.exec e)
  | .ok _ =>
    (attrLoop v expOT expMask a.attrs { alg := alg, linked := false }).bind fun st => .ok (st, rest)

/-- the `cryptoSigner` returned by `Signer`. -/
structure SignerVal where
  alg : Nat
  key : PubKey
  deriving DecidableEq, Repr, Inhabited

/-- the key kind the algorithm of the attributes calls for (checked variant only). -/
def keyMatches (alg : Nat) : PubKey → Bool
  | .rsa => alg = algRSA ∨ alg = 0
  | .ecdsa _ => alg = algEC ∨ alg = algECDSA ∨ alg = 0
  | .other => alg = 0

/-- `Client.Signer(ctx, privateKeyId, publicKeyId)`; `priv` / `pub` say which of the two ids is non-empty. -/
def signer (v : Variant) (t : Tables) (priv pub : Bool) (script : List Answer) :
    SRes (SignerVal × List Answer) :=
  if !priv && !pub then .err .helper
  else
    -- the private key, when given
    (if priv then
       (verifyKey v t otPrivateKey maskSign 0 script).bind fun (st, rest) =>
         .ok ((if pub then true else st.linked), st.alg, rest)
     else .ok (pub, 0, script)).bind fun (pubKnown, alg, rest) =>
    if !pubKnown then .err .helper                       -- "link to public key is missing"
    else
      (verifyKey v t otPublicKey maskVerify alg rest).bind fun (st, rest) =>
      -- the private key found through the public key's link
      (if priv then .ok (st.alg, rest)
       else if !st.linked then .err .helper              -- "link to private key is missing"
       else (verifyKey v t otPrivateKey maskSign st.alg rest).bind fun (st', rest') => .ok (st'.alg, rest')).bind
        fun (alg, rest) =>
      let (a, rest) := nextAnswer rest
      match exec t opGet true a.rt with
      | .panic => .panic
      | .err e => .err (.exec e)
      | .ok _ =>
        match a.key with
        | none => .err .helper                           -- "invalid public key material"
        | some k =>
          if v.checkedKey && !keyMatches alg k then .err .helper
          else .ok ({ alg := alg, key := k }, rest)

/-- the caller's `crypto.SignerOpts`. -/
inductive SignOpts where
  | nil
  | hash (supported : Bool)                              -- a crypto.Hash: SHA-256/384/512 or another one
  | pss (hashSupported : Bool) (saltOk : Bool)           -- *rsa.PSSOptions; salt length ≥ -1
  deriving DecidableEq, Repr, Inhabited

/-- the checks `Sign` performs before sending anything. -/
def signPre (alg : Nat) : SignOpts → Bool
  | .nil => false
  | .hash ok => ok
  | .pss hok sok => hok && alg = algRSA && sok

/-- `cryptoSigner.Sign`: `ok true` = the raw `r ‖ s` signature was converted to ASN.1 DER. -/
def sign (v : Variant) (t : Tables) (s : SignerVal) (o : SignOpts) (script : List Answer) : SRes Bool :=
  if !signPre s.alg o then .err .helper
  else
    let (a, _) := nextAnswer script
    match exec t opSign true a.rt with
    | .panic => .panic
    | .err e => .err (.exec e)
    | .ok _ =>
      if s.alg = algEC ∨ s.alg = algECDSA then
        match s.key with
        | .ecdsa n => .ok (a.sigLen = 2 * n)
        | _ => if v.checkedKey then .err .helper else .panic    -- `c.publicKey.(*ecdsa.PublicKey)`
      else .ok false

/-- `Signer` followed, when it succeeds, by one `Sign`. -/
inductive Outcome where
  | signerErr (e : SErr)
  | signerPanic
  | signErr (e : SErr)
  | signPanic
  | signed (converted : Bool)
  deriving DecidableEq, Repr, Inhabited

def signerThenSign (v : Variant) (t : Tables) (priv pub : Bool) (o : SignOpts) (script : List Answer) : Outcome :=
  match signer v t priv pub script with
  | .err e => .signerErr e
  | .panic => .signerPanic
  | .ok (s, rest) =>
    match sign v t s o rest with
    | .err e => .signErr e
    | .panic => .signPanic
    | .ok c => .signed c

end Kmip.Signer
