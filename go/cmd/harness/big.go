package main

import (
	"bytes"
	"encoding/hex"
	"fmt"
	"math/big"
	"strings"

	"github.com/ovh/kmip-go/ttlv"

	"verifharness/internal/report"
	"verifharness/internal/tree"
)

func init() {
	register(&Engine{
		Name: "big",
		Rule: "big integers: every magnitude 2^(8k)±{0,1,2} and 2^(8k-1)±{0,1,2} for k up to the tier bound, both signs, plus seeded random magnitudes up to 4096/65536 bits; byte strings of every length 1..40 with leading 0x00/0x7F/0x80/0xFF (incl. over-long sign extensions); padForLen on 0..4096; distinct = distinct line; all non-trivial except value 0",
		Run:  runBig,
	})
}

func bigEncCase(ctx *Ctx, v *big.Int) {
	line := "big.enc " + v.String()
	ctx.current = line
	type out struct {
		b      []byte
		padVal byte
		padLen int
	}
	r, p := guard("bigIntToBytes", func() out {
		b, pv, pl := ttlv.VerifBigIntToBytes(new(big.Int).Set(v), 8)
		return out{b, pv, pl}
	})
	var impl string
	if p != "" {
		impl = "panic " + panicKey(p)
		ctx.Res.Violate(report.Violation{Property: "C03", Oracle: "encoder-total", Key: "big:" + impl, Detail: p, Line: line})
	} else {
		full := append(bytes.Repeat([]byte{r.padVal}, r.padLen), r.b...)
		impl = "ok " + hexUp(full)
		// oracle, from the property text: a positive multiple of 8 bytes whose two's complement value (computed
		// here from the bytes, independently) is v. Minimality is NOT required by the property nor by KMIP 1.4
		// §9.1.1.4; a longer sign extension is only counted.
		val := new(big.Int).SetBytes(full)
		if len(full) > 0 && full[0]&0x80 != 0 {
			val.Sub(val, new(big.Int).Lsh(big.NewInt(1), uint(8*len(full))))
		}
		if len(full) == 0 || len(full)%8 != 0 || val.Cmp(v) != 0 {
			ctx.Res.Violate(report.Violation{Property: "C03", Oracle: "twos-complement", Key: "big:encoding-differs", Detail: fmt.Sprintf("bigIntToBytes(%s) = %s: %d bytes, two's complement value %s", v, hexUp(full), len(full), val), Line: line})
		} else if want := (&tree.Item{Kind: tree.KBig, Tag: 1, Big: v}).Encode()[8:]; !bytes.Equal(want, full) {
			ctx.Res.Count("big.enc.not-minimal")
		}
	}
	ctx.Add(line, impl, v.Sign() != 0, "C01,C03,C14")
}

func bigDecCase(ctx *Ctx, b []byte) {
	line := "big.dec " + hexUp(b)
	ctx.current = line
	if len(b) == 0 {
		// the callers reject the empty value before bytesToBigInt; covered by the wire/xml/json engines
		return
	}
	in := append([]byte{}, b...)
	r, p := guard("bytesToBigInt", func() *big.Int { return ttlv.VerifBytesToBigInt(in) })
	var impl string
	if p != "" {
		impl = "panic " + panicKey(p)
		ctx.Res.Violate(report.Violation{Property: "C02", Oracle: "no-panic", Key: "big:" + impl, Detail: p, Line: line})
	} else {
		impl = "ok " + r.String()
		want := new(big.Int).SetBytes(b)
		if b[0]&0x80 != 0 {
			want.Sub(want, new(big.Int).Lsh(big.NewInt(1), uint(8*len(b))))
		}
		if want.Cmp(r) != 0 {
			ctx.Res.Violate(report.Violation{Property: "C03", Oracle: "twos-complement", Key: "big:decoding-differs", Detail: fmt.Sprintf("bytesToBigInt(%s) = %s, two's complement value is %s", hexUp(b), r, want), Line: line})
		}
		if !bytes.Equal(in, b) {
			ctx.Res.Violate(report.Violation{Property: "C02", Oracle: "input-unmodified", Key: "big:input-modified", Detail: "bytesToBigInt modified its argument", Line: line})
		}
	}
	// C18: whatever byte string is accepted as a big integer (over-long sign extension, any length, any lead
	// byte) re-encodes to the minimal 8-aligned form, which decodes to the same number and re-encodes identically
	if p == "" && r != nil {
		type enc struct {
			b      []byte
			padVal byte
			padLen int
		}
		full := func(v *big.Int) ([]byte, string) {
			e, p := guard("bigIntToBytes", func() enc {
				b, pv, pl := ttlv.VerifBigIntToBytes(new(big.Int).Set(v), 8)
				return enc{b, pv, pl}
			})
			return append(bytes.Repeat([]byte{e.padVal}, e.padLen), e.b...), p
		}
		e1, p1 := full(r)
		switch {
		case p1 != "":
			ctx.Res.Violate(report.Violation{Property: "C18", Oracle: "reencode-total", Key: "big:accepted-but-unencodable", Detail: "an accepted big integer cannot be re-encoded: " + p1, Line: line})
		case len(e1) == 0 || len(e1)%8 != 0 || len(e1) > (len(b)+7)/8*8:
			ctx.Res.Violate(report.Violation{Property: "C18", Oracle: "fixed-point", Key: "big:reencoding-not-canonical", Detail: fmt.Sprintf("re-encoding %s of %s is empty, not 8-aligned or longer than the padded input", hexUp(e1), hexUp(b)), Line: line})
		default:
			r2, p2 := guard("bytesToBigInt", func() *big.Int { return ttlv.VerifBytesToBigInt(append([]byte{}, e1...)) })
			if p2 != "" || r2 == nil || r2.Cmp(r) != 0 {
				ctx.Res.Violate(report.Violation{Property: "C18", Oracle: "redecode", Key: "big:reencoded-differs", Detail: fmt.Sprintf("%s re-encodes to %s which decodes to %v %s", hexUp(b), hexUp(e1), r2, p2), Line: line})
			} else if e2, p3 := full(r2); p3 != "" || !bytes.Equal(e1, e2) {
				ctx.Res.Violate(report.Violation{Property: "C18", Oracle: "fixed-point", Key: "big:second-reencode-differs", Detail: fmt.Sprintf("second re-encoding %s differs from the first %s", hexUp(e2), hexUp(e1)), Line: line})
			}
			if !bytes.Equal(e1, b) {
				ctx.Res.Count("big.dec.noncanonical-accepted")
			}
		}
	}
	ctx.Add(line, impl, true, "C01,C02,C03,C14,C18")
}

func runBig(ctx *Ctx) {
	if len(ctx.Replay) > 0 {
		for _, l := range ctx.Replay {
			cmd, arg, _ := strings.Cut(l, " ")
			switch cmd {
			case "big.enc":
				if v, ok := new(big.Int).SetString(arg, 10); ok {
					bigEncCase(ctx, v)
				}
			case "big.dec":
				if b, err := hex.DecodeString(arg); err == nil {
					bigDecCase(ctx, b)
				}
			}
		}
		return
	}
	r := ctx.R
	maxK := ctx.N(40, 520)
	for k := 0; k <= maxK; k++ {
		for _, e := range []int{8 * k, 8*k - 1, 8*k + 1} {
			if e < 0 {
				continue
			}
			base := new(big.Int).Lsh(big.NewInt(1), uint(e))
			for d := -2; d <= 2; d++ {
				v := new(big.Int).Add(base, big.NewInt(int64(d)))
				bigEncCase(ctx, v)
				bigEncCase(ctx, new(big.Int).Neg(v))
			}
		}
	}
	bigEncCase(ctx, big.NewInt(0))
	n := ctx.N(2000, 100000)
	bits := ctx.N(4096, 65536)
	for i := 0; i < n; i++ {
		mb := 256
		if i%20 == 0 {
			mb = bits
		}
		bigEncCase(ctx, tree.GenBig(r, mb))
	}
	for l := 1; l <= 40; l++ {
		for _, lead := range []byte{0x00, 0x01, 0x7F, 0x80, 0x81, 0xFF} {
			for rep := 0; rep < 3; rep++ {
				b := r.Bytes(l)
				b[0] = lead
				if rep == 1 && l > 1 { // long sign extension
					for i := 0; i < l-1; i++ {
						b[i] = lead
					}
				}
				if rep == 2 { // all zero tail (carry propagation across the whole string)
					for i := 1; i < l; i++ {
						b[i] = 0
					}
				}
				bigDecCase(ctx, b)
			}
		}
	}
	for i := 0; i < ctx.N(1000, 50000); i++ {
		bigDecCase(ctx, r.Bytes(1+r.Intn(64)))
	}
	for l := 0; l <= ctx.N(512, 4096); l++ {
		line := fmt.Sprintf("pad %d", l)
		ctx.Add(line, fmt.Sprintf("ok %d", ttlv.VerifPadForLen(l, 8)), l > 0, "C01,C03,C07")
	}
}
