package main

import (
	"bytes"
	"encoding/hex"
	"encoding/json"
	"encoding/xml"
	"fmt"
	"io"
	"strconv"
	"strings"
	"time"
	"unicode/utf8"

	"verifharness/internal/rng"
	"verifharness/internal/schema"
)

// Element-level (XML) and member-level (JSON) mutation of real documents for the `fix` engine.
// Both document trees keep the ORDER of attributes / members (so that it can be permuted and members
// duplicated) and are walked in parallel with the item tree of the same value's binary encoding, which
// supplies the numeric tag / enumeration value / two's-complement bytes behind a name for the alternative
// lexical forms.

// ---------------------------------------------------------------------------------------------------------
// XML

type xel struct {
	name  string
	attrs [][2]string
	kids  []*xel
	bin   *mnode // the item of the binary encoding this element corresponds to (nil when unknown)
}

func parseXels(b []byte) ([]*xel, error) {
	d := xml.NewDecoder(bytes.NewReader(b))
	var stack, roots []*xel
	for {
		tok, err := d.Token()
		if err == io.EOF {
			break
		}
		if err != nil {
			return nil, err
		}
		switch t := tok.(type) {
		case xml.StartElement:
			n := &xel{name: t.Name.Local}
			for _, a := range t.Attr {
				n.attrs = append(n.attrs, [2]string{a.Name.Local, a.Value})
			}
			if len(stack) == 0 {
				roots = append(roots, n)
			} else {
				p := stack[len(stack)-1]
				p.kids = append(p.kids, n)
			}
			stack = append(stack, n)
		case xml.EndElement:
			if len(stack) == 0 {
				return nil, fmt.Errorf("unbalanced")
			}
			stack = stack[:len(stack)-1]
		}
	}
	if len(stack) != 0 {
		return nil, fmt.Errorf("unclosed")
	}
	return roots, nil
}

func (x *xel) write(sb *strings.Builder) {
	sb.WriteString("<" + x.name)
	for _, a := range x.attrs {
		sb.WriteString(" " + a[0] + `="`)
		_ = xml.EscapeText(sb, []byte(a[1]))
		sb.WriteString(`"`)
	}
	if len(x.kids) == 0 {
		sb.WriteString("/>")
		return
	}
	sb.WriteString(">")
	for _, c := range x.kids {
		c.write(sb)
	}
	sb.WriteString("</" + x.name + ">")
}

func (x *xel) String() string {
	var sb strings.Builder
	x.write(&sb)
	return sb.String()
}

func (x *xel) clone() *xel {
	c := &xel{name: x.name, attrs: append([][2]string(nil), x.attrs...), bin: x.bin}
	for _, k := range x.kids {
		c.kids = append(c.kids, k.clone())
	}
	return c
}

func (x *xel) attr(k string) (string, bool) {
	for _, a := range x.attrs {
		if a[0] == k {
			return a[1], true
		}
	}
	return "", false
}

func (x *xel) setAttr(k, v string) {
	for i, a := range x.attrs {
		if a[0] == k {
			x.attrs[i][1] = v
			return
		}
	}
	x.attrs = append(x.attrs, [2]string{k, v})
}

func (x *xel) isStruct() bool { _, ok := x.attr("type"); return !ok || x.typ() == "Structure" }
func (x *xel) typ() string    { t, _ := x.attr("type"); return t }

// bindX ties the element tree to the binary item tree when both have the same shape.
func bindX(x *xel, m *mnode) bool {
	if m == nil || (m.typ == 1) != x.isStruct() || len(x.kids) != len(m.kids) {
		return false
	}
	x.bin = m
	for i := range x.kids {
		if !bindX(x.kids[i], m.kids[i]) {
			return false
		}
	}
	return true
}

type xloc struct {
	x     *xel
	depth int
}

func (x *xel) walk(depth int, f func(*xel, int)) {
	f(x, depth)
	for _, k := range x.kids {
		k.walk(depth+1, f)
	}
}

func unknownX(r *rng.R, sibling *xel, depth int) *xel {
	tag := fmt.Sprintf("0x54%04X", 1+r.Intn(0xFFFE))
	mk := func(ty, val string) *xel {
		return &xel{name: "TTLV", attrs: [][2]string{{"tag", tag}, {"type", ty}, {"value", val}}}
	}
	switch r.Intn(10) {
	case 0:
		return mk("Integer", strconv.Itoa(r.Intn(1000)-500))
	case 1:
		return mk("LongInteger", "0x00000000FFFFFFFF")
	case 2:
		return mk("BigInteger", "00FF")
	case 3:
		return mk("Enumeration", "0x00000002")
	case 4:
		return mk("Boolean", "true")
	case 5:
		return mk("TextString", rng.Pick(r, []string{"", "x", "unknown <&>", "é€"}))
	case 6:
		return mk("ByteString", "00ff")
	case 7:
		return mk("DateTime", "2001-02-03T04:05:06+07:00")
	case 8:
		// an element the registry has no name for: its tag reads 0
		return &xel{name: "NoSuchElement", attrs: [][2]string{{"type", "Integer"}, {"value", "1"}}}
	default:
		n := &xel{name: "TTLV", attrs: [][2]string{{"tag", tag}}}
		if r.Bool() {
			n.attrs = append(n.attrs, [2]string{"type", "Structure"})
		}
		if depth < 3 && r.Bool() {
			n.kids = append(n.kids, unknownX(r, nil, depth+1))
		}
		if sibling != nil && r.Bool() {
			n.kids = append(n.kids, sibling.clone())
		}
		if len(n.kids) == 0 {
			n.kids = append(n.kids, mk("Integer", "1"))
		}
		return n
	}
}

func zeroX(x *xel) {
	if x.isStruct() {
		x.kids = nil
		return
	}
	z := map[string]string{"Integer": "0", "LongInteger": "0", "BigInteger": "00", "Enumeration": "0", "Boolean": "false",
		"TextString": "", "ByteString": "", "DateTime": "1970-01-01T00:00:00Z", "Interval": "0"}
	if v, ok := z[x.typ()]; ok {
		x.setAttr("value", v)
	}
}

var zoneForms = []*time.Location{time.FixedZone("", 5*3600+1800), time.FixedZone("", -8*3600), time.FixedZone("", 14*3600), time.FixedZone("", -12*3600)}

// altDate: the same instant (to the second) written another way.
func altDate(r *rng.R, val string) (string, bool) {
	t, err := time.Parse(time.RFC3339, val)
	if err != nil {
		return "", false
	}
	switch r.Intn(3) {
	case 0:
		return t.In(rng.Pick(r, zoneForms)).Format(time.RFC3339), true
	case 1:
		return t.UTC().Format("2006-01-02T15:04:05") + "+00:00", true
	default:
		// a fraction of a second: accepted by the parser, not expressible by any writer
		return t.UTC().Format("2006-01-02T15:04:05") + rng.Pick(r, []string{".000", ".5", ".999999999"}) + "Z", true
	}
}

// dateEdges: instants at the edges of what RFC 3339 can express, written with and without zone offsets
// (the library's writers only ever emit the process zone: these are forms no encoder of the library emits).
var dateEdges = []string{
	"9999-12-31T23:59:59Z", "9999-12-31T23:59:59-00:01", "9999-12-31T23:30:00-01:00", "9999-12-31T12:00:00-12:00", "9999-12-31T23:59:59+14:00",
	"9999-12-31T09:59:59Z", "9999-12-31T23:59:59.999999999Z", "9999-12-31T10:00:00Z", "9999-12-31T11:59:59Z",
	"0000-01-01T00:00:00Z", "0000-01-01T00:30:00+01:00", "0000-01-01T00:00:00+00:01", "0000-12-31T23:59:59Z", "0000-01-01T13:59:59Z", "0000-01-01T14:00:00Z",
	"0001-01-01T00:00:00Z", "0001-01-01T00:00:00+00:01", "0001-01-01T00:00:00-12:00", "0001-01-01T11:59:59Z", "0001-01-01T12:00:00Z",
	"1969-12-31T23:59:59.5Z", "1970-01-01T00:00:00.999999999-00:00", "1970-01-01T00:00:00+23:59", "2038-01-19T03:14:08Z",
}

// jsonDateEdges: the hexadecimal-epoch form of the JSON reader.
var jsonDateEdges = []string{"0x0000003AFFF4417F", "0x0000003AFFF44180", "0x0000003AFFF37CBF", "0x0000003AFFF398DF", "0x0", "0x00000000FFFFFFFF", "0x7FFFFFFFFFFFFFFF", "0xFFFFFFFFFFFFFFFF", "0x3afff4417f"}

// xmlStrings: special text an XML document can carry.
func xmlStrings() []string {
	var out []string
	for _, s := range fixStrings() {
		ok := utf8.ValidString(s)
		for _, r := range s {
			if !xmlCharOK(r) {
				ok = false
			}
		}
		if ok {
			out = append(out, s)
		}
	}
	return out
}

// jsonStrings: special text a JSON document can carry (valid UTF-8; control characters are escaped).
func jsonStrings() []string {
	var out []string
	for _, s := range fixStrings() {
		if utf8.ValidString(s) {
			out = append(out, s)
		}
	}
	return out
}

func altBool(r *rng.R, val string) (string, bool) {
	switch val {
	case "true":
		return rng.Pick(r, []string{"TRUE", "True", "T", "t", "1"}), true
	case "false":
		return rng.Pick(r, []string{"FALSE", "False", "F", "f", "0"}), true
	}
	return "", false
}

// altBigHex: other hexadecimal spellings of the same two's-complement number.
func altBigHex(r *rng.R, hx string) (string, bool) {
	b, err := hex.DecodeString(hx)
	if err != nil || len(b) == 0 {
		return "", false
	}
	sign := byte(0)
	if b[0]&0x80 != 0 {
		sign = 0xFF
	}
	switch r.Intn(4) {
	case 0:
		return strings.ToLower(hx), true
	case 1:
		return strings.ToUpper(hex.EncodeToString(append(bytes.Repeat([]byte{sign}, 1+r.Intn(17)), b...))), true
	case 2:
		for len(b) > 1 && b[0] == sign && (b[1]&0x80 != 0) == (sign == 0xFF) {
			b = b[1:]
		}
		return strings.ToUpper(hex.EncodeToString(b)), true
	default:
		// padded to a multiple of 8 bytes, as in the binary encoding
		for len(b)%8 != 0 {
			b = append([]byte{sign}, b...)
		}
		return hex.EncodeToString(b), true
	}
}

func permuteParts(r *rng.R, parts []string) []string {
	p := append([]string(nil), parts...)
	for i := len(p) - 1; i > 0; i-- {
		j := r.Intn(i + 1)
		p[i], p[j] = p[j], p[i]
	}
	if len(p) > 0 && r.Bool() {
		p = append(p, p[r.Intn(len(p))]) // a flag named twice
	}
	return p
}

func binU32(m *mnode) (uint32, bool) {
	if m == nil || len(m.val) != 4 {
		return 0, false
	}
	return uint32(m.val[0])<<24 | uint32(m.val[1])<<16 | uint32(m.val[2])<<8 | uint32(m.val[3]), true
}

// lexX: one alternative lexical form of a leaf element; false when none applies.
func lexX(r *rng.R, x *xel) bool {
	val, ok := x.attr("value")
	if !ok {
		return false
	}
	switch x.typ() {
	case "Integer":
		if n, err := strconv.ParseInt(val, 10, 32); err == nil {
			x.setAttr("value", fmt.Sprintf("0x%08X", uint32(int32(n))))
			return true
		}
		// mask names
		if u, ok := binU32(x.bin); ok && r.Chance(1, 3) {
			x.setAttr("value", rng.Pick(r, []string{fmt.Sprintf("0x%08X", u), strconv.Itoa(int(int32(u)))}))
			return true
		}
		parts := strings.Fields(val)
		if len(parts) == 0 {
			return false
		}
		if u, ok := binU32(x.bin); ok && r.Chance(1, 3) {
			// one flag spelled as a number among the names
			for bit := uint(0); bit < 32; bit++ {
				if u&(1<<bit) != 0 {
					parts = append(parts, fmt.Sprintf("0x%08X", uint32(1)<<bit))
					break
				}
			}
		}
		x.setAttr("value", strings.Join(permuteParts(r, parts), rng.Pick(r, []string{" ", "  ", "\t", " \n "})))
		return true
	case "LongInteger":
		if n, err := strconv.ParseInt(val, 10, 64); err == nil {
			x.setAttr("value", fmt.Sprintf("0x%016X", uint64(n)))
			return true
		}
	case "BigInteger":
		if alt, ok := altBigHex(r, val); ok {
			x.setAttr("value", alt)
			return true
		}
	case "Enumeration":
		if u, ok := binU32(x.bin); ok {
			x.setAttr("value", rng.Pick(r, []string{strconv.FormatUint(uint64(u), 10), fmt.Sprintf("0x%08X", u), fmt.Sprintf("0x%x", u)}))
			return true
		}
	case "Boolean":
		if alt, ok := altBool(r, val); ok {
			x.setAttr("value", alt)
			return true
		}
	case "ByteString":
		if val != strings.ToLower(val) {
			x.setAttr("value", strings.ToLower(val))
			return true
		}
	case "DateTime":
		if alt, ok := altDate(r, val); ok {
			x.setAttr("value", alt)
			return true
		}
	case "Interval":
		if n, err := strconv.ParseUint(val, 10, 32); err == nil {
			x.setAttr("value", fmt.Sprintf("0x%X", n))
			return true
		}
	}
	return false
}

// altX gives a leaf element another value of its type.
func altX(r *rng.R, x *xel) bool {
	val, ok := x.attr("value")
	if !ok {
		return false
	}
	switch x.typ() {
	case "Integer", "Interval", "LongInteger":
		nv := strconv.Itoa(1 + r.Intn(9))
		if nv == val {
			nv = "10"
		}
		x.setAttr("value", nv)
	case "Enumeration":
		nv := uint32(1 + r.Intn(9))
		if u, ok := binU32(x.bin); ok && u == nv {
			nv = nv%9 + 1
		}
		x.setAttr("value", strconv.Itoa(int(nv)))
	case "BigInteger":
		x.setAttr("value", fmt.Sprintf("%02X%02X", r.Intn(128), r.Intn(256)))
	case "Boolean":
		if val == "true" {
			x.setAttr("value", "false")
		} else {
			x.setAttr("value", "true")
		}
	case "TextString":
		x.setAttr("value", "other-"+val)
	case "ByteString":
		x.setAttr("value", "A5"+val)
	case "DateTime":
		x.setAttr("value", "2001-02-03T04:05:06Z")
	default:
		return false
	}
	return true
}

// attrX: the same element written with another attribute layout.
func attrX(r *rng.R, x *xel) bool {
	switch r.Intn(4) {
	case 0:
		if len(x.attrs) < 2 {
			return false
		}
		x.attrs[0], x.attrs[len(x.attrs)-1] = x.attrs[len(x.attrs)-1], x.attrs[0]
		return true
	case 1:
		x.attrs = append([][2]string{{"comment", "not a KMIP attribute"}}, x.attrs...)
		return true
	case 2:
		if x.bin == nil || x.name == "TTLV" {
			return false
		}
		x.name = "TTLV"
		x.attrs = append([][2]string{{"tag", fmt.Sprintf(rng.Pick(r, []string{"0x%06X", "0x%06x"}), x.bin.tag)}}, x.attrs...)
		return true
	default:
		if !x.isStruct() {
			return false
		}
		if _, has := x.attr("type"); has {
			return false
		}
		x.attrs = append(x.attrs, [2]string{"type", "Structure"})
		return true
	}
}

func mutateX(r *rng.R, root *xel, class string) int {
	var sts, leaves []xloc
	root.walk(0, func(x *xel, d int) {
		if x.isStruct() {
			sts = append(sts, xloc{x, d})
		} else {
			leaves = append(leaves, xloc{x, d})
		}
	})
	pick := func(minKids int) (xloc, bool) {
		var c []xloc
		for _, s := range sts {
			if len(s.x.kids) >= minKids {
				c = append(c, s)
			}
		}
		if len(c) == 0 {
			return xloc{}, false
		}
		s := rng.Pick(r, c)
		if r.Bool() {
			for k := 0; k < 3; k++ {
				if o := rng.Pick(r, c); o.depth > s.depth {
					s = o
				}
			}
		}
		return s, true
	}
	insert := func(n *xel, i int, x *xel) {
		n.kids = append(n.kids, nil)
		copy(n.kids[i+1:], n.kids[i:])
		n.kids[i] = x
	}
	switch class {
	case "swap":
		s, ok := pick(2)
		if !ok {
			return -1
		}
		i := r.Intn(len(s.x.kids) - 1)
		s.x.kids[i], s.x.kids[i+1] = s.x.kids[i+1], s.x.kids[i]
		return s.depth
	case "move":
		s, ok := pick(3)
		if !ok {
			return -1
		}
		i := r.Intn(len(s.x.kids))
		x := s.x.kids[i]
		s.x.kids = append(s.x.kids[:i:i], s.x.kids[i+1:]...)
		j := len(s.x.kids)
		if r.Bool() {
			j = r.Intn(len(s.x.kids) + 1)
		}
		insert(s.x, j, x)
		return s.depth
	case "dup":
		s, ok := pick(1)
		if !ok {
			return -1
		}
		i := r.Intn(len(s.x.kids))
		c := s.x.kids[i].clone()
		if r.Chance(1, 3) {
			var lv []*xel
			c.walk(0, func(x *xel, _ int) {
				if !x.isStruct() {
					lv = append(lv, x)
				}
			})
			if len(lv) > 0 {
				lexX(r, rng.Pick(r, lv))
			}
		}
		insert(s.x, rng.Pick(r, []int{i, i + 1, len(s.x.kids)}), c)
		return s.depth
	case "unk-front", "unk-mid", "unk-end":
		min := 0
		if class == "unk-mid" {
			min = 2
		}
		s, ok := pick(min)
		if !ok {
			return -1
		}
		var sib *xel
		if len(s.x.kids) > 0 {
			sib = rng.Pick(r, s.x.kids)
		}
		u := unknownX(r, sib, 0)
		switch class {
		case "unk-front":
			insert(s.x, 0, u)
		case "unk-mid":
			insert(s.x, 1+r.Intn(len(s.x.kids)-1), u)
		default:
			insert(s.x, len(s.x.kids), u)
		}
		return s.depth
	case "dup-alt":
		s, ok := pick(1)
		if !ok {
			return -1
		}
		i := r.Intn(len(s.x.kids))
		c := s.x.kids[i].clone()
		var lv []*xel
		c.walk(0, func(x *xel, _ int) {
			if !x.isStruct() {
				lv = append(lv, x)
			}
		})
		if len(lv) == 0 || !altX(r, rng.Pick(r, lv)) {
			return -1
		}
		switch r.Intn(5) {
		case 0:
			insert(s.x, i, c)
		case 1:
			insert(s.x, len(s.x.kids), c) // after everything decoded in the light of the original
		default:
			insert(s.x, i+1, c)
		}
		return s.depth
	case "text", "date-edge":
		want, vals := "TextString", xmlStrings()
		if class == "date-edge" {
			want, vals = "DateTime", dateEdges
		}
		var c []xloc
		for _, l := range leaves {
			if l.x.typ() == want {
				c = append(c, l)
			}
		}
		if len(c) == 0 {
			return -1
		}
		l := rng.Pick(r, c)
		l.x.setAttr("value", rng.Pick(r, vals))
		return l.depth
	case "del":
		s, ok := pick(1)
		if !ok {
			return -1
		}
		i := r.Intn(len(s.x.kids))
		s.x.kids = append(s.x.kids[:i:i], s.x.kids[i+1:]...)
		return s.depth
	case "zero":
		all := append(append([]xloc(nil), leaves...), sts[1:]...)
		if len(all) == 0 {
			return -1
		}
		l := rng.Pick(r, all)
		zeroX(l.x)
		return l.depth
	case "lex":
		for try := 0; try < 8 && len(leaves) > 0; try++ {
			l := rng.Pick(r, leaves)
			if lexX(r, l.x) {
				return l.depth
			}
		}
		return -1
	case "lex-big", "lex-date", "lex-mask":
		want := map[string]string{"lex-big": "BigInteger", "lex-date": "DateTime", "lex-mask": "Integer"}[class]
		var c []xloc
		for _, l := range leaves {
			if l.x.typ() != want {
				continue
			}
			if class == "lex-mask" {
				v, _ := l.x.attr("value")
				if _, err := strconv.ParseInt(v, 10, 32); err == nil || v == "" {
					continue
				}
			}
			c = append(c, l)
		}
		if len(c) == 0 {
			return -1
		}
		l := rng.Pick(r, c)
		if !lexX(r, l.x) {
			return -1
		}
		return l.depth
	case "attr":
		all := append(append([]xloc(nil), leaves...), sts...)
		for try := 0; try < 8; try++ {
			l := rng.Pick(r, all)
			if attrX(r, l.x) {
				return l.depth
			}
		}
		return -1
	case "ver-down", "ver-up":
		for _, l := range leaves {
			if l.x.name != "ProtocolVersionMinor" {
				continue
			}
			v, _ := l.x.attr("value")
			cur, err := strconv.Atoi(v)
			if err != nil {
				return -1
			}
			if class == "ver-down" {
				if cur <= 0 {
					return -1
				}
				l.x.setAttr("value", strconv.Itoa(r.Intn(cur)))
			} else {
				l.x.setAttr("value", strconv.Itoa(cur+1+r.Intn(3)))
			}
			return l.depth
		}
		return -1
	}
	return -1
}

// nestClasses: what nestX / nestJ apply INSIDE the child structure (see nestM in fix.go).
var nestClasses = []string{"unk-end", "unk-front", "dup", "dup-alt", "zero", "del", "swap"}

// nestPlace: child i of n >= 2 siblings gets a new place: the front (twice as likely), the end, swapped with a
// neighbour, before everything that preceded it, or a copy of it put in front.
func nestPlace[T any](r *rng.R, kids []T, i int, clone func(T) T) []T {
	n := len(kids)
	out := append([]T(nil), kids...)
	mode := r.Intn(6)
	if mode <= 1 && i == 0 {
		mode = 2 // already in front
	}
	if mode == 2 && i == n-1 {
		mode = 0
	}
	switch mode {
	case 0, 1: // to the front
		x := out[i]
		copy(out[1:i+1], out[:i])
		out[0] = x
	case 2: // to the end
		x := out[i]
		copy(out[i:], out[i+1:])
		out[n-1] = x
	case 3: // swapped with a neighbour
		if i > 0 {
			out[i-1], out[i] = out[i], out[i-1]
		} else {
			out[0], out[1] = out[1], out[0]
		}
	case 4: // what precedes goes after
		if i > 0 {
			out = append(append(append([]T{}, kids[i]), kids[:i]...), kids[i+1:]...)
		} else {
			x := out[0]
			copy(out, out[1:])
			out[n-1] = x
		}
	default: // a copy in front
		out = append([]T{clone(kids[i])}, out...)
	}
	return out
}

func nestX(r *rng.R, root *xel) int {
	type site struct {
		s     *xel
		i     int
		depth int
	}
	var c []site
	root.walk(0, func(x *xel, d int) {
		if !x.isStruct() || len(x.kids) < 2 {
			return
		}
		for i, k := range x.kids {
			if k.isStruct() && len(k.kids) > 0 {
				c = append(c, site{x, i, d})
			}
		}
	})
	if len(c) == 0 {
		return -1
	}
	st := rng.Pick(r, c)
	ok := false
	for try := 0; try < 6 && !ok; try++ {
		ok = mutateX(r, st.s.kids[st.i], rng.Pick(r, nestClasses)) >= 0
	}
	if !ok {
		return -1
	}
	st.s.kids = nestPlace(r, st.s.kids, st.i, func(x *xel) *xel { return x.clone() })
	return st.depth
}

func nestJ(r *rng.R, root *jn) int {
	type site struct {
		a     *jn
		i     int
		depth int
	}
	var c []site
	root.walkItems(0, func(n *jn, d int) {
		its := n.items()
		if its == nil || len(its.arr) < 2 {
			return
		}
		for i, k := range its.arr {
			if ki := k.items(); ki != nil && len(ki.arr) > 0 {
				c = append(c, site{its, i, d})
			}
		}
	})
	if len(c) == 0 {
		return -1
	}
	st := rng.Pick(r, c)
	ok := false
	for try := 0; try < 6 && !ok; try++ {
		ok = mutateJ(r, st.a.arr[st.i], rng.Pick(r, nestClasses)) >= 0
	}
	if !ok {
		return -1
	}
	st.a.arr = nestPlace(r, st.a.arr, st.i, func(n *jn) *jn { return n.clone() })
	return st.depth
}

var fixXMLClasses = []string{"swap", "move", "dup", "dup-alt", "text", "date-edge", "unk-front", "unk-mid", "unk-end", "del", "zero", "lex", "lex-big", "lex-date", "lex-mask", "attr", "ver-down", "ver-up"}

func fixXMLMutants(ctx *Ctx, s *schema.Schema, tg planTarget, r *rng.R, doc []byte, per int) {
	els, err := parseXels(doc)
	if err != nil || len(els) != 1 {
		ctx.Res.Count("fix.seed-unparsable.xml") // C04's business
		return
	}
	root := els[0]
	// the binary encoding of the same value, for numeric tags and values
	if v, _ := fixDec(fixCodecs[1], tg, doc); v != nil {
		if bin, p := fixEnc(fixCodecs[0], tg.tag, v); p == "" {
			if m, err := parseM(bin); err == nil {
				if !bindX(root, m) {
					root.walk(0, func(x *xel, _ int) { x.bin = nil })
					ctx.Res.Count("fix.xml.unbound")
				}
			}
		}
	}
	for _, class := range fixXMLClasses {
		for k := 0; k < per; k++ {
			m := root.clone()
			d := mutateX(r, m, class)
			if d < 0 {
				break
			}
			fixCase(ctx, s, tg, 1, class, d, []byte(m.String()))
			if class == "lex-date" || class == "date-edge" {
				// the same document read by a process whose zone is not UTC
				fixCase(ctx, s, tg, 1, class+rng.Pick(r, []string{"@+14", "@-12", "@+0530"}), d, []byte(m.String()))
			}
		}
	}
	for k := 0; k < per; k++ {
		m := root.clone()
		applied := 0
		for i, n := 0, 2+r.Intn(2); i < n; i++ {
			if mutateX(r, m, rng.Pick(r, fixXMLClasses)) >= 0 {
				applied++
			}
		}
		if applied >= 2 {
			fixCase(ctx, s, tg, 1, "combo", -1, []byte(m.String()))
		}
	}
	for k := 0; k < 2*per; k++ {
		m := root.clone()
		if d := nestX(r, m); d >= 0 {
			fixCase(ctx, s, tg, 1, "nest", d, []byte(m.String()))
		}
	}
}

// ---------------------------------------------------------------------------------------------------------
// JSON

type jn struct {
	k   byte // 'o' object, 'a' array, 's' string, 'n' number, 't' true, 'f' false, 'z' null
	mem []jmem
	arr []*jn
	s   string // string value or number literal
	bin *mnode
}

type jmem struct {
	key string
	val *jn
}

func parseJ(b []byte) (*jn, error) {
	d := json.NewDecoder(bytes.NewReader(b))
	d.UseNumber()
	n, err := parseJ1(d)
	if err != nil {
		return nil, err
	}
	if _, err := d.Token(); err != io.EOF {
		return nil, fmt.Errorf("trailing data")
	}
	return n, nil
}

func parseJ1(d *json.Decoder) (*jn, error) {
	tok, err := d.Token()
	if err != nil {
		return nil, err
	}
	switch t := tok.(type) {
	case json.Delim:
		switch t {
		case '{':
			n := &jn{k: 'o'}
			for d.More() {
				kt, err := d.Token()
				if err != nil {
					return nil, err
				}
				key, _ := kt.(string)
				v, err := parseJ1(d)
				if err != nil {
					return nil, err
				}
				n.mem = append(n.mem, jmem{key, v})
			}
			_, err := d.Token()
			return n, err
		case '[':
			n := &jn{k: 'a'}
			for d.More() {
				v, err := parseJ1(d)
				if err != nil {
					return nil, err
				}
				n.arr = append(n.arr, v)
			}
			_, err := d.Token()
			return n, err
		}
		return nil, fmt.Errorf("unexpected delimiter")
	case string:
		return &jn{k: 's', s: t}, nil
	case json.Number:
		return &jn{k: 'n', s: string(t)}, nil
	case bool:
		if t {
			return &jn{k: 't'}, nil
		}
		return &jn{k: 'f'}, nil
	case nil:
		return &jn{k: 'z'}, nil
	}
	return nil, fmt.Errorf("unexpected token")
}

func jstr(s string) string {
	var buf bytes.Buffer
	e := json.NewEncoder(&buf)
	e.SetEscapeHTML(false)
	_ = e.Encode(s)
	return strings.TrimSuffix(buf.String(), "\n")
}

func (n *jn) write(sb *strings.Builder) {
	switch n.k {
	case 'o':
		sb.WriteString("{")
		for i, m := range n.mem {
			if i > 0 {
				sb.WriteString(", ")
			}
			sb.WriteString(jstr(m.key) + ": ")
			m.val.write(sb)
		}
		sb.WriteString("}")
	case 'a':
		sb.WriteString("[")
		for i, c := range n.arr {
			if i > 0 {
				sb.WriteString(", ")
			}
			c.write(sb)
		}
		sb.WriteString("]")
	case 's':
		sb.WriteString(jstr(n.s))
	case 'n':
		sb.WriteString(n.s)
	case 't':
		sb.WriteString("true")
	case 'f':
		sb.WriteString("false")
	default:
		sb.WriteString("null")
	}
}

func (n *jn) String() string {
	var sb strings.Builder
	n.write(&sb)
	return sb.String()
}

func (n *jn) clone() *jn {
	c := &jn{k: n.k, s: n.s, bin: n.bin}
	for _, m := range n.mem {
		c.mem = append(c.mem, jmem{m.key, m.val.clone()})
	}
	for _, a := range n.arr {
		c.arr = append(c.arr, a.clone())
	}
	return c
}

func (n *jn) get(key string) *jn {
	var r *jn
	for _, m := range n.mem {
		if m.key == key {
			r = m.val // the last one wins, as in encoding/json
		}
	}
	return r
}

func (n *jn) set(key string, v *jn) {
	for i := len(n.mem) - 1; i >= 0; i-- {
		if n.mem[i].key == key {
			n.mem[i].val = v
			return
		}
	}
	n.mem = append(n.mem, jmem{key, v})
}

func (n *jn) typ() string {
	if t := n.get("type"); t != nil && t.k == 's' {
		return t.s
	}
	return ""
}

// items of a structure object: the elements of its "value" array
func (n *jn) items() *jn {
	if n.k != 'o' {
		return nil
	}
	if t := n.typ(); t != "" && t != "Structure" {
		return nil
	}
	if v := n.get("value"); v != nil && v.k == 'a' {
		return v
	}
	return nil
}

func bindJ(n *jn, m *mnode) bool {
	if n.k != 'o' || m == nil {
		return false
	}
	its := n.items()
	if (its != nil) != (m.typ == 1) {
		return false
	}
	n.bin = m
	if its == nil {
		return true
	}
	if len(its.arr) != len(m.kids) {
		return false
	}
	for i := range its.arr {
		if !bindJ(its.arr[i], m.kids[i]) {
			return false
		}
	}
	return true
}

type jloc struct {
	n     *jn
	depth int
}

func (n *jn) walkItems(depth int, f func(*jn, int)) {
	f(n, depth)
	if its := n.items(); its != nil {
		for _, c := range its.arr {
			c.walkItems(depth+1, f)
		}
	}
}

func jobj(kv ...any) *jn {
	n := &jn{k: 'o'}
	for i := 0; i+1 < len(kv); i += 2 {
		n.mem = append(n.mem, jmem{kv[i].(string), kv[i+1].(*jn)})
	}
	return n
}
func jS(s string) *jn { return &jn{k: 's', s: s} }
func jN(s string) *jn { return &jn{k: 'n', s: s} }

func unknownJ(r *rng.R, sibling *jn, depth int) *jn {
	tag := jS(fmt.Sprintf("0x54%04X", 1+r.Intn(0xFFFE)))
	switch r.Intn(11) {
	case 0:
		return jobj("tag", tag, "type", jS("Integer"), "value", jN(strconv.Itoa(r.Intn(1000)-500)))
	case 1:
		return jobj("tag", tag, "type", jS("LongInteger"), "value", jS("0x00000000FFFFFFFF"))
	case 2:
		return jobj("tag", tag, "type", jS("BigInteger"), "value", jS("0x00FF"))
	case 3:
		return jobj("tag", tag, "type", jS("Enumeration"), "value", jS("0x00000002"))
	case 4:
		return jobj("tag", tag, "type", jS("Boolean"), "value", &jn{k: 't'})
	case 5:
		return jobj("tag", tag, "type", jS("TextString"), "value", jS(rng.Pick(r, []string{"", "x", "unknown <&>", "é€"})))
	case 6:
		return jobj("tag", tag, "type", jS("ByteString"), "value", jS("00ff"))
	case 7:
		return jobj("tag", tag, "type", jS("DateTime"), "value", jS("2001-02-03T04:05:06+07:00"))
	case 8:
		return jobj("tag", jS("NoSuchElement"), "type", jS("Integer"), "value", jN("1"))
	case 9:
		// not even an item
		return rng.Pick(r, []*jn{{k: 'z'}, jN("1"), jS("x"), {k: 'a'}, {k: 'o'}})
	default:
		arr := &jn{k: 'a'}
		if depth < 3 && r.Bool() {
			arr.arr = append(arr.arr, unknownJ(r, nil, depth+1))
		}
		if sibling != nil && r.Bool() {
			arr.arr = append(arr.arr, sibling.clone())
		}
		n := jobj("tag", tag, "value", arr)
		if r.Bool() {
			n = jobj("tag", tag, "type", jS("Structure"), "value", arr)
		}
		return n
	}
}

func zeroJ(n *jn) {
	if its := n.items(); its != nil {
		its.arr = nil
		return
	}
	switch n.typ() {
	case "Integer", "LongInteger", "BigInteger", "Interval":
		n.set("value", jN("0"))
	case "Enumeration":
		n.set("value", jN("0"))
	case "Boolean":
		n.set("value", &jn{k: 'f'})
	case "TextString", "ByteString":
		n.set("value", jS(""))
	case "DateTime":
		n.set("value", jS("1970-01-01T00:00:00Z"))
	}
}

func lexJ(r *rng.R, n *jn) bool {
	v := n.get("value")
	if v == nil {
		return false
	}
	switch n.typ() {
	case "Integer":
		if v.k == 'n' {
			i, err := strconv.ParseInt(v.s, 10, 32)
			if err != nil {
				return false
			}
			if i >= 0 && r.Bool() {
				n.set("value", jS(fmt.Sprintf("0x%08X", i)))
			} else {
				n.set("value", jS(v.s))
			}
			return true
		}
		if v.k == 's' {
			if u, ok := binU32(n.bin); ok && r.Chance(1, 3) {
				n.set("value", rng.Pick(r, []*jn{jN(strconv.Itoa(int(int32(u)))), jS(fmt.Sprintf("0x%08X", u))}))
				return true
			}
			var parts []string
			for _, p := range strings.Split(v.s, "|") {
				if strings.TrimSpace(p) != "" {
					parts = append(parts, strings.TrimSpace(p))
				}
			}
			if len(parts) == 0 {
				return false
			}
			if u, ok := binU32(n.bin); ok && r.Chance(1, 3) {
				for bit := uint(0); bit < 32; bit++ {
					if u&(1<<bit) != 0 {
						parts = append(parts, fmt.Sprintf("0x%08X", uint32(1)<<bit))
						break
					}
				}
			}
			n.set("value", jS(strings.Join(permuteParts(r, parts), rng.Pick(r, []string{"|", " | ", "||", "| "}))))
			return true
		}
	case "LongInteger":
		if v.k == 'n' {
			i, err := strconv.ParseInt(v.s, 10, 64)
			if err != nil {
				return false
			}
			n.set("value", jS(rng.Pick(r, []string{fmt.Sprintf("0x%016X", uint64(i)), v.s})))
			return true
		}
		if v.k == 's' && strings.HasPrefix(v.s, "0x") {
			n.set("value", jS("0x"+strings.ToLower(v.s[2:])))
			return true
		}
	case "BigInteger":
		if v.k == 'n' {
			if n.bin != nil && len(n.bin.val) > 0 {
				alt, _ := altBigHex(r, strings.ToUpper(hex.EncodeToString(n.bin.val)))
				n.set("value", jS("0x"+alt))
				return true
			}
			return false
		}
		if v.k == 's' && strings.HasPrefix(v.s, "0x") {
			if alt, ok := altBigHex(r, v.s[2:]); ok {
				n.set("value", jS("0x"+alt))
				return true
			}
		}
	case "Enumeration":
		if u, ok := binU32(n.bin); ok {
			n.set("value", rng.Pick(r, []*jn{jN(strconv.FormatUint(uint64(u), 10)), jS(fmt.Sprintf("0x%08X", u)), jS(strconv.FormatUint(uint64(u), 10)), jS(fmt.Sprintf("0x%x", u))}))
			return true
		}
	case "Boolean":
		switch v.k {
		case 't':
			n.set("value", jS(rng.Pick(r, []string{"1", "0x1", "0x0000000000000001", "7", "-1"})))
			return true
		case 'f':
			n.set("value", jS(rng.Pick(r, []string{"0", "0x0", "0x0000000000000000"})))
			return true
		}
	case "ByteString":
		if v.k == 's' && v.s != strings.ToLower(v.s) {
			n.set("value", jS(strings.ToLower(v.s)))
			return true
		}
	case "DateTime":
		if v.k == 's' {
			if t, err := time.Parse(time.RFC3339, v.s); err == nil && t.Unix() >= 0 && r.Chance(1, 3) {
				n.set("value", jS(fmt.Sprintf("0x%016X", t.Unix())))
				return true
			}
			if alt, ok := altDate(r, v.s); ok {
				n.set("value", jS(alt))
				return true
			}
		}
	case "Interval":
		if v.k == 'n' {
			if u, err := strconv.ParseUint(v.s, 10, 32); err == nil {
				n.set("value", jS(rng.Pick(r, []string{v.s, fmt.Sprintf("0x%08X", u)})))
				return true
			}
		}
	}
	return false
}

// altJ gives a leaf item another value of its type.
func altJ(r *rng.R, n *jn) bool {
	v := n.get("value")
	if v == nil {
		return false
	}
	switch n.typ() {
	case "Integer", "Interval", "LongInteger", "BigInteger":
		nv := strconv.Itoa(1 + r.Intn(9))
		if v.k == 'n' && nv == v.s {
			nv = "10"
		}
		n.set("value", jN(nv))
	case "Enumeration":
		nv := uint32(1 + r.Intn(9))
		if u, ok := binU32(n.bin); ok && u == nv {
			nv = nv%9 + 1
		}
		n.set("value", jN(strconv.Itoa(int(nv))))
	case "Boolean":
		if v.k == 't' {
			n.set("value", &jn{k: 'f'})
		} else {
			n.set("value", &jn{k: 't'})
		}
	case "TextString":
		n.set("value", jS("other-"+v.s))
	case "ByteString":
		n.set("value", jS("A5"+v.s))
	case "DateTime":
		n.set("value", jS("2001-02-03T04:05:06Z"))
	default:
		return false
	}
	return true
}

// membJ: the same item with another member layout.
func membJ(r *rng.R, n *jn) bool {
	if n.k != 'o' || len(n.mem) == 0 {
		return false
	}
	switch r.Intn(5) {
	case 0: // member order
		for i := len(n.mem) - 1; i > 0; i-- {
			j := r.Intn(i + 1)
			n.mem[i], n.mem[j] = n.mem[j], n.mem[i]
		}
		return true
	case 1: // a member the format does not define
		n.mem = append([]jmem{{"comment", jS("not a KMIP member")}}, n.mem...)
		return true
	case 2: // a member given twice: encoding/json keeps the last
		i := r.Intn(len(n.mem))
		junk := rng.Pick(r, []*jn{jS("Junk"), jN("99"), {k: 'z'}, {k: 'a'}})
		n.mem = append([]jmem{{n.mem[i].key, junk}}, n.mem...)
		return true
	case 3: // tag written as a number
		t := n.get("tag")
		if n.bin == nil || t == nil || strings.HasPrefix(t.s, "0x") {
			return false
		}
		n.set("tag", jS(fmt.Sprintf(rng.Pick(r, []string{"0x%06X", "0x%06x"}), n.bin.tag)))
		return true
	default: // explicit type on a structure
		if n.items() == nil || n.get("type") != nil {
			return false
		}
		n.mem = append(n.mem, jmem{"type", jS("Structure")})
		return true
	}
}

func mutateJ(r *rng.R, root *jn, class string) int {
	var sts, leaves []jloc
	root.walkItems(0, func(n *jn, d int) {
		if n.items() != nil {
			sts = append(sts, jloc{n, d})
		} else if n.k == 'o' {
			leaves = append(leaves, jloc{n, d})
		}
	})
	pick := func(minKids int) (jloc, *jn, bool) {
		var c []jloc
		for _, s := range sts {
			if len(s.n.items().arr) >= minKids {
				c = append(c, s)
			}
		}
		if len(c) == 0 {
			return jloc{}, nil, false
		}
		s := rng.Pick(r, c)
		if r.Bool() {
			for k := 0; k < 3; k++ {
				if o := rng.Pick(r, c); o.depth > s.depth {
					s = o
				}
			}
		}
		return s, s.n.items(), true
	}
	insert := func(a *jn, i int, x *jn) {
		a.arr = append(a.arr, nil)
		copy(a.arr[i+1:], a.arr[i:])
		a.arr[i] = x
	}
	switch class {
	case "swap":
		s, a, ok := pick(2)
		if !ok {
			return -1
		}
		i := r.Intn(len(a.arr) - 1)
		a.arr[i], a.arr[i+1] = a.arr[i+1], a.arr[i]
		return s.depth
	case "move":
		s, a, ok := pick(3)
		if !ok {
			return -1
		}
		i := r.Intn(len(a.arr))
		x := a.arr[i]
		a.arr = append(a.arr[:i:i], a.arr[i+1:]...)
		j := len(a.arr)
		if r.Bool() {
			j = r.Intn(len(a.arr) + 1)
		}
		insert(a, j, x)
		return s.depth
	case "dup":
		s, a, ok := pick(1)
		if !ok {
			return -1
		}
		i := r.Intn(len(a.arr))
		c := a.arr[i].clone()
		if r.Chance(1, 3) {
			var lv []*jn
			c.walkItems(0, func(n *jn, _ int) {
				if n.k == 'o' && n.items() == nil {
					lv = append(lv, n)
				}
			})
			if len(lv) > 0 {
				lexJ(r, rng.Pick(r, lv))
			}
		}
		insert(a, rng.Pick(r, []int{i, i + 1, len(a.arr)}), c)
		return s.depth
	case "unk-front", "unk-mid", "unk-end":
		min := 0
		if class == "unk-mid" {
			min = 2
		}
		s, a, ok := pick(min)
		if !ok {
			return -1
		}
		var sib *jn
		if len(a.arr) > 0 {
			sib = rng.Pick(r, a.arr)
		}
		u := unknownJ(r, sib, 0)
		switch class {
		case "unk-front":
			insert(a, 0, u)
		case "unk-mid":
			insert(a, 1+r.Intn(len(a.arr)-1), u)
		default:
			insert(a, len(a.arr), u)
		}
		return s.depth
	case "dup-alt":
		s, a, ok := pick(1)
		if !ok {
			return -1
		}
		i := r.Intn(len(a.arr))
		c := a.arr[i].clone()
		var lv []*jn
		c.walkItems(0, func(n *jn, _ int) {
			if n.k == 'o' && n.items() == nil {
				lv = append(lv, n)
			}
		})
		if len(lv) == 0 || !altJ(r, rng.Pick(r, lv)) {
			return -1
		}
		switch r.Intn(5) {
		case 0:
			insert(a, i, c)
		case 1:
			insert(a, len(a.arr), c) // after everything decoded in the light of the original
		default:
			insert(a, i+1, c)
		}
		return s.depth
	case "text", "date-edge":
		want, vals := "TextString", jsonStrings()
		if class == "date-edge" {
			want, vals = "DateTime", append(append([]string(nil), dateEdges...), jsonDateEdges...)
		}
		var c []jloc
		for _, l := range leaves {
			if l.n.typ() == want {
				c = append(c, l)
			}
		}
		if len(c) == 0 {
			return -1
		}
		l := rng.Pick(r, c)
		l.n.set("value", jS(rng.Pick(r, vals)))
		return l.depth
	case "del":
		s, a, ok := pick(1)
		if !ok {
			return -1
		}
		i := r.Intn(len(a.arr))
		a.arr = append(a.arr[:i:i], a.arr[i+1:]...)
		return s.depth
	case "zero":
		all := append([]jloc(nil), leaves...)
		if len(sts) > 1 {
			all = append(all, sts[1:]...)
		}
		if len(all) == 0 {
			return -1
		}
		l := rng.Pick(r, all)
		zeroJ(l.n)
		return l.depth
	case "lex":
		for try := 0; try < 8 && len(leaves) > 0; try++ {
			l := rng.Pick(r, leaves)
			if lexJ(r, l.n) {
				return l.depth
			}
		}
		return -1
	case "lex-big", "lex-date", "lex-mask":
		want := map[string]string{"lex-big": "BigInteger", "lex-date": "DateTime", "lex-mask": "Integer"}[class]
		var c []jloc
		for _, l := range leaves {
			if l.n.typ() != want {
				continue
			}
			if v := l.n.get("value"); class == "lex-mask" && (v == nil || v.k != 's' || v.s == "") {
				continue
			}
			c = append(c, l)
		}
		if len(c) == 0 {
			return -1
		}
		l := rng.Pick(r, c)
		if !lexJ(r, l.n) {
			return -1
		}
		return l.depth
	case "memb":
		all := append(append([]jloc(nil), leaves...), sts...)
		for try := 0; try < 8; try++ {
			l := rng.Pick(r, all)
			if membJ(r, l.n) {
				return l.depth
			}
		}
		return -1
	case "ver-down", "ver-up":
		for _, l := range leaves {
			if t := l.n.get("tag"); t == nil || t.s != "ProtocolVersionMinor" {
				continue
			}
			v := l.n.get("value")
			if v == nil || v.k != 'n' {
				return -1
			}
			cur, err := strconv.Atoi(v.s)
			if err != nil {
				return -1
			}
			if class == "ver-down" {
				if cur <= 0 {
					return -1
				}
				l.n.set("value", jN(strconv.Itoa(r.Intn(cur))))
			} else {
				l.n.set("value", jN(strconv.Itoa(cur+1+r.Intn(3))))
			}
			return l.depth
		}
		return -1
	}
	return -1
}

var fixJSONClasses = []string{"swap", "move", "dup", "dup-alt", "text", "date-edge", "unk-front", "unk-mid", "unk-end", "del", "zero", "lex", "lex-big", "lex-date", "lex-mask", "memb", "ver-down", "ver-up"}

func fixJSONMutants(ctx *Ctx, s *schema.Schema, tg planTarget, r *rng.R, doc []byte, per int) {
	root, err := parseJ(doc)
	if err != nil {
		ctx.Res.Count("fix.seed-unparsable.json") // C04's business
		return
	}
	if v, _ := fixDec(fixCodecs[2], tg, doc); v != nil {
		if bin, p := fixEnc(fixCodecs[0], tg.tag, v); p == "" {
			if m, err := parseM(bin); err == nil {
				if !bindJ(root, m) {
					root.walkItems(0, func(n *jn, _ int) { n.bin = nil })
					ctx.Res.Count("fix.json.unbound")
				}
			}
		}
	}
	for _, class := range fixJSONClasses {
		for k := 0; k < per; k++ {
			m := root.clone()
			d := mutateJ(r, m, class)
			if d < 0 {
				break
			}
			fixCase(ctx, s, tg, 2, class, d, []byte(m.String()))
			if class == "lex-date" || class == "date-edge" {
				fixCase(ctx, s, tg, 2, class+rng.Pick(r, []string{"@+14", "@-12", "@+0530"}), d, []byte(m.String()))
			}
		}
	}
	for k := 0; k < per; k++ {
		m := root.clone()
		applied := 0
		for i, n := 0, 2+r.Intn(2); i < n; i++ {
			if mutateJ(r, m, rng.Pick(r, fixJSONClasses)) >= 0 {
				applied++
			}
		}
		if applied >= 2 {
			fixCase(ctx, s, tg, 2, "combo", -1, []byte(m.String()))
		}
	}
	for k := 0; k < 2*per; k++ {
		m := root.clone()
		if d := nestJ(r, m); d >= 0 {
			fixCase(ctx, s, tg, 2, "nest", d, []byte(m.String()))
		}
	}
}
