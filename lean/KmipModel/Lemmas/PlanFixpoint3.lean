/-
  C18 (typed layer) — stage 2: the field loop of reflectively decoded structs (the three wrappers and
  the shared version cell), the struct clause of `decK`, and `decDyn`.
-/
import KmipModel.Lemmas.PlanFixpointQuiet
import KmipModel.Lemmas.PlanFixpoint2
namespace Kmip

/-! ## Zero values -/

/-- kinds on which `omitempty` / version gating occur (`fieldOK` + `fieldFixOK`). -/
def Kind.zeroExact (k : Kind) : Bool := k.zeroFaithful && k != .i64

theorem zeroOf_zeroExact (S : Schema) (m : Nat) {k : Kind} (hk : k.zeroExact = true) :
    isZeroOfKind k (zeroOf S (m + 1) k) = true ∧ (zeroOf S (m + 1) k).isZero = true := by
  cases k <;> simp_all [Kind.zeroExact, Kind.zeroFaithful, zeroOf, isZeroOfKind, Val.isZero, Kind.intLike]

theorem decList_nil_inv {S : Schema} {fd : Nat} {k : Kind} {tag : Nat} {c c' : Cur} {ver ver' : Option Ver}
    (h : decList S fd k tag c ver = .ok ([], c', ver')) : ver' = ver := by
  cases fd with
  | zero => rw [decList] at h; cases h
  | succ fd =>
    rw [decList] at h
    split at h
    · simp only [Res.ok.injEq, Prod.mk.injEq] at h; exact h.2.2.symm
    · obtain ⟨⟨x, c1, ver1⟩, _, h2⟩ := Res.bind_eq_ok h
      obtain ⟨⟨xs, c2, ver2⟩, _, h4⟩ := Res.bind_eq_ok h2
      simp only [Res.pure_eq, Res.ok.injEq, Prod.mk.injEq] at h4
      exact absurd h4.1 (by simp)

/-- a decoded value that `IsZero` reports as zero IS the zero value of its kind, and decoding it did
    not touch the version cell. -/
theorem dec_zero (S : Schema) (fd : Nat) (k : Kind) (hz : k.zeroExact = true) (hs : k.shapeOK = true)
    (hn : k.noNarrow = true) (tag : Nat) (c : Cur) (ver : Option Ver) (v : Val) (c' : Cur)
    (ver' : Option Ver) (h : decK S fd k tag c ver = .ok (v, c', ver')) (hv : v.isZero = true) :
    isZeroOfKind k v = true ∧ ver' = ver := by
  by_cases hsc : k.scalar = true
  · obtain ⟨rfl, hnorm⟩ := dec_scalar S fd k hsc hn tag c ver v c' ver' h
    refine ⟨?_, rfl⟩
    have h1 := hnorm 0 none
    cases k <;> simp only [Kind.scalar] at hsc <;> try contradiction
    all_goals (cases v <;> simp only [normK] at h1 <;> try contradiction)
    all_goals simp_all [Kind.zeroExact, Kind.zeroFaithful, isZeroOfKind, Val.isZero, Kind.intLike]
  · cases fd with
    | zero => rw [decK_zero] at h; contradiction
    | succ fd =>
      cases k <;> simp only [Kind.scalar, not_true_eq_false] at hsc <;>
        simp only [Kind.zeroExact, Kind.zeroFaithful, Bool.and_eq_true, Bool.false_and] at hz <;>
        try contradiction
      case ptr k' =>
        simp only [decK] at h
        split at h
        · simp only [Res.ok.injEq, Prod.mk.injEq] at h
          obtain ⟨rfl, rfl, rfl⟩ := h
          exact ⟨rfl, rfl⟩
        · obtain ⟨⟨x, c1, ver1⟩, _, h2⟩ := Res.bind_eq_ok h
          simp only [Res.pure_eq, Res.ok.injEq, Prod.mk.injEq] at h2
          obtain ⟨rfl, _, _⟩ := h2
          simp [Val.isZero] at hv
      case slice k' =>
        simp only [decK] at h
        obtain ⟨⟨xs, c1, ver1⟩, h1, h2⟩ := Res.bind_eq_ok h
        simp only [Res.pure_eq, Res.ok.injEq, Prod.mk.injEq] at h2
        obtain ⟨rfl, rfl, rfl⟩ := h2
        cases xs with
        | nil => exact ⟨rfl, decList_nil_inv h1⟩
        | cons x xs => simp [Val.isZero] at hv
      case any =>
        simp only [decK] at h
        obtain ⟨⟨it, c1⟩, _, h2⟩ := Res.bind_eq_ok h
        simp only [Res.pure_eq, Res.ok.injEq, Prod.mk.injEq] at h2
        obtain ⟨rfl, _, _⟩ := h2
        simp [Val.isZero] at hv
      case anyStruct =>
        simp only [decK] at h
        obtain ⟨⟨its, c1⟩, _, h2⟩ := Res.bind_eq_ok h
        simp only [Res.pure_eq, Res.ok.injEq, Prod.mk.injEq] at h2
        obtain ⟨rfl, rfl, rfl⟩ := h2
        cases its with
        | nil => exact ⟨rfl, rfl⟩
        | cons x xs => simp [Val.isZero] at hv

/-! ## Plain structures (ProtocolVersion) -/

theorem plain_fields (S : Schema) : (fs : List Field) → plainFields fs = true →
    (∀ f ∈ fs, f.kind.noNarrow = true) → (fd : Nat) → (c : Cur) → (ver : Option Ver) → (vs : List Val) →
    (c' : Cur) → (ver' : Option Ver) → decFields S fd fs c ver = .ok (vs, c', ver') →
    ver' = ver ∧ ∀ n, Val.edepthList vs ≤ n → ∀ w0, ∃ items,
      normFields S n fs vs w0 = some (vs, w0) ∧ encFields S n fs vs w0 = .ok (items, w0)
  | fs, _, _, 0, c, ver, vs, c', ver', h => by rw [decFields_zero] at h; contradiction
  | [], _, _, fd + 1, c, ver, vs, c', ver', h => by
    rw [decFields_nil] at h
    simp only [Res.ok.injEq, Prod.mk.injEq] at h
    obtain ⟨rfl, rfl, rfl⟩ := h
    refine ⟨rfl, fun n hn w0 => ?_⟩
    obtain ⟨m, rfl⟩ : ∃ m, n = m + 1 := ⟨n - 1, by have := Val.edepthList_pos []; omega⟩
    exact ⟨[], normFields_nil .., encFields_nil ..⟩
  | f :: fs, hp, hnn, fd + 1, c, ver, vs, c', ver', h => by
    simp only [plainFields, List.all_cons, Bool.and_eq_true, Bool.not_eq_true',
      Option.isNone_iff_eq_none] at hp
    obtain ⟨⟨⟨⟨⟨hsc, hom⟩, hsv⟩, hvr⟩, hdt⟩, hrest⟩ := hp
    rw [decFields_cons] at h
    have hds : f.dskip c ver = false := by simp [Field.dskip, hvr, hom]
    simp only [hdt, hds, Bool.false_eq_true, if_false, hsv] at h
    obtain ⟨⟨v, c1, ver1⟩, h1, h2⟩ := Res.bind_eq_ok h
    obtain ⟨⟨vs1, c2, ver2⟩, h3, h4⟩ := Res.bind_eq_ok h2
    simp only [Res.pure_eq, Res.ok.injEq, Prod.mk.injEq] at h4
    obtain ⟨rfl, rfl, rfl⟩ := h4
    have hfn := hnn f (List.mem_cons_self ..)
    obtain ⟨rfl, -⟩ := dec_scalar S fd f.kind hsc hfn f.tag c ver v c1 ver1 h1
    obtain ⟨rfl, hind⟩ := plain_fields S fs (by simpa [plainFields] using hrest)
      (fun g hg => hnn g (List.mem_cons_of_mem _ hg)) fd c1 ver1 vs1 c2 ver2 h3
    refine ⟨rfl, fun n hn w0 => ?_⟩
    obtain ⟨m, rfl⟩ : ∃ m, n = m + 1 := ⟨n - 1, by have := Val.edepthList_pos (v :: vs1); omega⟩
    rw [Val.edepthList] at hn
    obtain ⟨_, it, _, _, _, hnw, hew⟩ :=
      fk_scalar S fd f.kind hsc hfn f.tag c ver2 v c1 ver2 h1 m (by omega)
    obtain ⟨b, hb1, hb2⟩ := hind m (by omega) w0
    have hv1 : f.ver1 v w0 = w0 := by simp [Field.ver1, hsv]
    have hsk : f.skip v w0 = false := by simp [Field.skip, hvr, hom]
    have het : f.etag S v = f.tag := by simp [Field.etag, hdt]
    refine ⟨[it] ++ b, ?_, ?_⟩
    · rw [normFields_cons]
      simp only [hv1, hsk, het, Bool.false_eq_true, if_false, hnw w0, hb1]
    · rw [encFields_cons]
      simp only [hv1, hsk, het, Bool.false_eq_true, if_false, hew w0, Res.ok_bind, hb2, Res.pure_eq]

/-- a `set-version` field: the decoded ProtocolVersion is conforming under any cell, and neither codec
    touches the cell. -/
theorem plain_kind (S : Schema) (N : Nat) (hX : FixOK S N) (fd : Nat) (k : Kind) (hk : S.plainKind k = true)
    (tag : Nat) (c : Cur) (ver : Option Ver) (v : Val) (c' : Cur) (ver' : Option Ver)
    (h : decK S fd k tag c ver = .ok (v, c', ver')) :
    ver' = ver ∧ ∀ n, v.edepth ≤ n → ∀ w0, ∃ items,
      normK S n k tag v w0 = some (v, w0) ∧ encK S n k tag v w0 = .ok (items, w0) := by
  obtain ⟨id, rfl, hec, hdc, hpf⟩ := plainKind_struct hk
  cases fd with
  | zero => rw [decK_zero] at h; contradiction
  | succ fd =>
    rw [decK_struct] at h
    simp only [hdc, Bool.false_eq_true, if_false] at h
    cases fd with
    | zero => rw [decStruct_zero] at h; contradiction
    | succ fd =>
      rw [decStruct_succ] at h
      obtain ⟨it, _, h⟩ := Res.bind_eq_ok h
      obtain ⟨inner, _, h⟩ := Res.bind_eq_ok h
      obtain ⟨⟨vs, c1, ver1⟩, h3, h⟩ := Res.bind_eq_ok h
      obtain ⟨c2, _, h⟩ := Res.bind_eq_ok h
      simp only [Res.pure_eq, Res.ok.injEq, Prod.mk.injEq] at h
      obtain ⟨rfl, rfl, rfl⟩ := h
      obtain ⟨rfl, hind⟩ := plain_fields S _ hpf (fun f hf => hX.noNarrow id hf) fd inner ver vs c1 ver1 h3
      refine ⟨rfl, fun n hn w0 => ?_⟩
      obtain ⟨m, rfl⟩ : ∃ m, n = m + 1 := ⟨n - 1, by have := Val.edepth_pos (.struct vs); omega⟩
      rw [Val.edepth] at hn
      obtain ⟨b, hb1, hb2⟩ := hind m (by omega) w0
      refine ⟨[.struct tag b], ?_, ?_⟩
      · rw [normK_struct]
        simp only [hec, hdc, Bool.false_eq_true, if_false, hb1, Bool.not_false, Bool.true_or, if_true]
      · rw [encK_struct]
        simp only [hec, Bool.false_eq_true, if_false, hb2, Res.ok_bind, Res.pure_eq]

/-! ## The field loop -/

theorem fieldOK_parts {S : Schema} {f : Field} (h : S.fieldOK f = true) :
    f.dynTag = false ∧ S.decodable f.kind = true ∧ f.kind.shapeOK = true
      ∧ ((f.omitempty = true ∨ f.vrange.isSome = true) → f.kind.zeroFaithful = true)
      ∧ (f.setVersion = true → f.omitempty = false ∧ f.vrange = none ∧ S.plainKind f.kind = true) := by
  simp only [Schema.fieldOK, Bool.and_eq_true, Bool.or_eq_true, Bool.not_eq_true', decide_eq_true_eq,
    Option.isNone_iff_eq_none, Bool.or_eq_false_iff] at h
  obtain ⟨⟨⟨⟨⟨hdt, _⟩, hdec⟩, hsh⟩, hz⟩, hsv⟩ := h
  refine ⟨hdt, hdec, hsh, ?_, ?_⟩
  · intro hc
    rcases hz with hz | hz
    · rcases hc with hc | hc
      · rw [hz.1] at hc; contradiction
      · rw [hz.2] at hc; contradiction
    · exact hz
  · intro hs
    rcases hsv with hsv | hsv
    · rw [hs] at hsv; contradiction
    · exact ⟨hsv.1.1, hsv.1.2, hsv.2⟩

theorem fieldFixOK_parts {S : Schema} {N : Nat} {f : Field} (h : S.fieldFixOK N f = true) :
    f.kind.noNarrow = true ∧ ((f.omitempty = true ∨ f.vrange.isSome = true) → f.kind ≠ .i64)
      ∧ (f.vrange.isSome = true → DqK S f.kind) ∧ S.kindTagOK f.kind f.tag = true := by
  simp only [Schema.fieldFixOK, Bool.and_eq_true, Bool.or_eq_true, Bool.not_eq_true', bne_iff_ne, ne_eq,
    Option.isNone_iff_eq_none, Bool.or_eq_false_iff] at h
  obtain ⟨⟨⟨h1, h2⟩, h3⟩, h4⟩ := h
  refine ⟨h1, ?_, ?_, h4⟩
  · intro hc
    rcases h2 with h2 | h2
    · rcases hc with hc | hc
      · rw [h2.1] at hc; contradiction
      · rw [h2.2] at hc; contradiction
    · exact h2
  · intro hc
    rcases h3 with h3 | h3
    · rw [h3] at hc; contradiction
    · exact ⟨N, h3⟩

theorem Field.skip_eq (f : Field) (x : Val) (ver : Option Ver) :
    f.skip x ver = (f.skip (.bool true) ver || (f.omitempty && x.isZero)) := by
  unfold Field.skip; simp [Val.isZero]

theorem Field.gate_isSome (f : Field) (ver : Option Ver) (h : f.skip (.bool true) ver = true) :
    f.vrange.isSome = true := by
  unfold Field.skip at h
  cases hr : f.vrange <;> simp_all [Val.isZero]

theorem ffields_zero (S : Schema) (N : Nat) : FFields S N 0 := by
  intro fs c ver vs c' ver' _ h
  rw [decFields_zero] at h; contradiction

theorem ffields_succ (S : Schema) (N : Nat) (hX : FixOK S N) (fd : Nat) (hK : FK S fd)
    (hQ : DecQuiet S fd) (hF : FFields S N fd) : FFields S N (fd + 1) := by
  intro fs c ver vs c' ver' hok h hfd hg n hn
  cases fs with
  | nil =>
    rw [decFields_nil] at h
    simp only [Res.ok.injEq, Prod.mk.injEq] at h
    obtain ⟨rfl, rfl, rfl⟩ := h
    obtain ⟨m, rfl⟩ : ∃ m, n = m + 1 := ⟨n - 1, by have := Val.edepthList_pos []; omega⟩
    exact ⟨[], [], [], normFields_nil .., encFields_nil .., encFields_nil ..⟩
  | cons f fs =>
    obtain ⟨hfo, hfx⟩ := hok f (List.mem_cons_self ..)
    have hrest : ∀ g ∈ fs, S.fieldOK g = true ∧ S.fieldFixOK N g = true :=
      fun g hg => hok g (List.mem_cons_of_mem _ hg)
    obtain ⟨hdt, hdec, hsh, hzf, hsvp⟩ := fieldOK_parts hfo
    obtain ⟨hnn, hni, hq, htg⟩ := fieldFixOK_parts hfx
    have het : ∀ x, f.etag S x = f.tag := fun x => by simp [Field.etag, hdt]
    rw [decFields_cons] at h
    simp only [hdt, Bool.false_eq_true, if_false] at h
    obtain ⟨⟨v, c1, ver1⟩, h1, h2⟩ := Res.bind_eq_ok h
    obtain ⟨⟨vs1, c2, ver2⟩, h3, h4⟩ := Res.bind_eq_ok h2
    simp only [Res.pure_eq, Res.ok.injEq, Prod.mk.injEq] at h4
    obtain ⟨rfl, rfl, rfl⟩ := h4
    obtain ⟨m, rfl⟩ : ∃ m, n = m + 1 := ⟨n - 1, by have := Val.edepthList_pos (v :: vs1); omega⟩
    rw [Val.edepthList] at hn hfd
    have hvm : v.edepth ≤ m := by omega
    have hvsm : Val.edepthList vs1 ≤ m := by omega
    simp only [List.map_cons, goodL, Bool.and_eq_true] at hg
    -- the rest of the field list was decoded with fuel `fd`, so `fd ≠ 0`
    obtain ⟨fd', rfl⟩ : ∃ fd', fd = fd' + 1 := by
      cases fd with
      | zero => rw [decFields_zero] at h3; contradiction
      | succ fd' => exact ⟨fd', rfl⟩
    by_cases hds : f.dskip c ver = true
    · -- the decoder left the field at its zero value
      simp only [hds, if_true, Res.ok.injEq, Prod.mk.injEq] at h1
      obtain ⟨rfl, rfl, rfl⟩ := h1
      have hcond : f.omitempty = true ∨ f.vrange.isSome = true := by
        unfold Field.dskip at hds
        cases hr : f.vrange with
        | none => simp only [hr, Bool.false_or, Bool.and_eq_true] at hds; exact Or.inl hds.1
        | some r => exact Or.inr rfl
      have hsv : f.setVersion = false := by
        cases hs : f.setVersion with
        | false => rfl
        | true =>
          obtain ⟨ho, hv, _⟩ := hsvp hs
          rcases hcond with hc | hc
          · rw [ho] at hc; contradiction
          · rw [hv] at hc; contradiction
      have hze : f.kind.zeroExact = true := by
        simp only [Kind.zeroExact, Bool.and_eq_true, bne_iff_ne, ne_eq]
        exact ⟨hzf hcond, hni hcond⟩
      obtain ⟨hz1, hz2⟩ := zeroOf_zeroExact S fd' hze
      simp only [hsv, Bool.false_eq_true, if_false] at h3
      obtain ⟨ws, ws', b, hb1, hb2, hb3⟩ := hF fs c ver vs1 c2 ver2 hrest h3 (by omega) hg.2 m hvsm
      have hv1 : f.ver1 (zeroOf S (fd' + 1) f.kind) ver = ver := by simp [Field.ver1, hsv]
      have hsk : f.skip (zeroOf S (fd' + 1) f.kind) ver = true := by
        unfold Field.dskip at hds
        unfold Field.skip
        cases hr : f.vrange with
        | none =>
          simp only [hr, Bool.false_or, Bool.and_eq_true] at hds ⊢
          exact ⟨hds.1, hz2⟩
        | some r =>
          simp only [hr, Bool.or_eq_true, Bool.and_eq_true] at hds ⊢
          rcases hds with hds | hds
          · exact Or.inl hds.1
          · exact Or.inr ⟨hds.1, hz2⟩
      refine ⟨zeroOf S (fd' + 1) f.kind :: ws, zeroOf S (fd' + 1) f.kind :: ws', [] ++ b, ?_, ?_, ?_⟩
      · rw [normFields_cons]; simp only [hv1, hsk, if_true, hz1, hb1]
      · rw [encFields_cons]; simp only [hv1, hsk, if_true, Res.ok_bind, hb2, Res.pure_eq]
      · rw [encFields_cons]; simp only [hv1, hsk, if_true, Res.ok_bind, hb3, Res.pure_eq]
    · -- the field was decoded
      have hds' : f.dskip c ver = false := by simpa using hds
      simp only [hds', Bool.false_eq_true, if_false] at h1
      by_cases hsv : f.setVersion = true
      · -- set-version: a plain structure, never skipped; the cell becomes its value on both sides
        obtain ⟨ho, hvr, hpl⟩ := hsvp hsv
        simp only [hsv, if_true] at h3
        obtain ⟨rfl, hpk⟩ := plain_kind S N hX _ f.kind hpl f.tag c ver v c1 ver1 h1
        obtain ⟨a, ha1, ha2⟩ := hpk m hvm (some v.asVer)
        obtain ⟨ws, ws', b, hb1, hb2, hb3⟩ := hF fs c1 _ vs1 c2 ver2 hrest h3 (by omega) hg.2 m hvsm
        have hv1 : f.ver1 v ver1 = some v.asVer := by simp [Field.ver1, hsv]
        have hsk : f.skip v (some v.asVer) = false := by simp [Field.skip, hvr, ho]
        refine ⟨v :: ws, v :: ws', a ++ b, ?_, ?_, ?_⟩
        · rw [normFields_cons]
          simp only [hv1, hsk, het, Bool.false_eq_true, if_false, ha1, hb1]
        · rw [encFields_cons]
          simp only [hv1, hsk, het, Bool.false_eq_true, if_false, ha2, Res.ok_bind, hb2, Res.pure_eq]
        · rw [encFields_cons]
          simp only [hv1, hsk, het, Bool.false_eq_true, if_false, ha2, Res.ok_bind, hb3, Res.pure_eq]
      · have hsv' : f.setVersion = false := by simpa using hsv
        simp only [hsv', Bool.false_eq_true, if_false] at h3
        have hv1 : ∀ x, f.ver1 x ver = ver := fun x => by simp [Field.ver1, hsv']
        by_cases hgate : f.skip (.bool true) ver = true
        · -- present on the wire but outside the version in force: decoded, then gated away by the
          -- encoder; the twin holds the zero value; a quiet kind leaves the cell alone
          have hvs : f.vrange.isSome = true := f.gate_isSome ver hgate
          have hze : f.kind.zeroExact = true := by
            simp only [Kind.zeroExact, Bool.and_eq_true, bne_iff_ne, ne_eq]
            exact ⟨hzf (Or.inr hvs), hni (Or.inr hvs)⟩
          have hcell : ver1 = ver := hQ.decK f.kind f.tag c ver v c1 ver1 (hq hvs) h1
          subst hcell
          obtain ⟨hz1, _⟩ := zeroOf_zeroExact S 0 hze
          obtain ⟨ws, ws', b, hb1, hb2, hb3⟩ := hF fs c1 ver1 vs1 c2 ver2 hrest h3 (by omega) hg.2 m hvsm
          have hsk : ∀ x, f.skip x ver1 = true := fun x => by
            rw [Field.skip_eq, hgate]; rfl
          refine ⟨zeroOf S 1 f.kind :: ws, zeroOf S 1 f.kind :: ws', [] ++ b, ?_, ?_, ?_⟩
          · rw [normFields_cons]; simp only [hv1, hsk, if_true, hz1, hb1]
          · rw [encFields_cons]; simp only [hv1, hsk, if_true, Res.ok_bind, hb2, Res.pure_eq]
          · rw [encFields_cons]; simp only [hv1, hsk, if_true, Res.ok_bind, hb3, Res.pure_eq]
        · have hgate' : f.skip (.bool true) ver = false := by simpa using hgate
          by_cases hemp : (f.omitempty && v.isZero) = true
          · -- decoded to the zero value of an `omitempty` field: the encoder drops it
            simp only [Bool.and_eq_true] at hemp
            have hze : f.kind.zeroExact = true := by
              simp only [Kind.zeroExact, Bool.and_eq_true, bne_iff_ne, ne_eq]
              exact ⟨hzf (Or.inl hemp.1), hni (Or.inl hemp.1)⟩
            obtain ⟨hz1, hcell⟩ := dec_zero S _ f.kind hze hsh hnn f.tag c ver v c1 ver1 h1 hemp.2
            subst hcell
            obtain ⟨ws, ws', b, hb1, hb2, hb3⟩ := hF fs c1 ver1 vs1 c2 ver2 hrest h3 (by omega) hg.2 m hvsm
            have hsk : f.skip v ver1 = true := by
              rw [Field.skip_eq, hgate', hemp.1, hemp.2]; rfl
            refine ⟨v :: ws, v :: ws', [] ++ b, ?_, ?_, ?_⟩
            · rw [normFields_cons]; simp only [hv1, hsk, if_true, hz1, hb1]
            · rw [encFields_cons]; simp only [hv1, hsk, if_true, Res.ok_bind, hb2, Res.pure_eq]
            · rw [encFields_cons]; simp only [hv1, hsk, if_true, Res.ok_bind, hb3, Res.pure_eq]
          · -- the ordinary case: the field is emitted
            have hemp' : (f.omitempty && v.isZero) = false := by simpa using hemp
            obtain ⟨w, w', a, ha1, ha2, ha3, hrel⟩ :=
              hK f.kind f.tag c ver v c1 ver1 hdec hsh hnn htg h1 (by omega) hg.1 m hvm
            obtain ⟨ws, ws', b, hb1, hb2, hb3⟩ := hF fs c1 ver1 vs1 c2 ver2 hrest h3 (by omega) hg.2 m hvsm
            have hskv : f.skip v ver = false := by
              rw [Field.skip_eq, hgate', hemp']; rfl
            have hskw : f.skip w ver = false := by
              rw [Field.skip_eq, hgate']
              simp only [Bool.false_or, Bool.and_eq_false_iff] at hemp' ⊢
              rcases hemp' with h0 | h0
              · exact Or.inl h0
              · cases ho : f.omitempty with
                | false => exact Or.inl rfl
                | true => exact Or.inr (by rw [hrel.zero (hzf (Or.inl ho))]; exact h0)
            refine ⟨w :: ws, w' :: ws', a ++ b, ?_, ?_, ?_⟩
            · rw [normFields_cons]
              simp only [hv1, hskw, het, Bool.false_eq_true, if_false, ha1, hb1]
            · rw [encFields_cons]
              simp only [hv1, hskv, het, Bool.false_eq_true, if_false, ha2, Res.ok_bind, hb2, Res.pure_eq]
            · rw [encFields_cons]
              simp only [hv1, hskw, het, Bool.false_eq_true, if_false, ha3, Res.ok_bind, hb3, Res.pure_eq]

end Kmip
