#!/usr/bin/env python3
"""Regenerates MANIFEST.json from bin/props.py (claimed checks) + the list of all properties."""
import json, os, sys
VERIF = os.path.dirname(os.path.dirname(os.path.abspath(__file__)))
sys.path.insert(0, os.path.join(VERIF, "bin"))
from props import PROPS, NOT_CLAIMED, HOOK_COMMITS

all_ids = [json.loads(l)["id"] for l in open(os.path.join(VERIF, "properties.jsonl"))]
checks = []
for pid in all_ids:
    if pid not in PROPS:
        continue
    c = PROPS[pid]
    checks.append({
        "property_id": pid,
        "quick_cmd": f"python3 bin/check.py {pid} quick",
        "thorough_cmd": f"python3 bin/check.py {pid} thorough",
        "evidence_file": f"/verif/evidence/{pid}.json",
        "replay_cmd_template": f"python3 bin/check.py {pid} --replay {{path}}",
        "engine": "+".join(["lean4"] + c["engines"]),
        "level_claimed": {"category": c["level"], "text": c["level_text"], "design_ref": c.get("design_ref", "DESIGN.md §8 " + pid)},
        "level_note": c["level_note"],
        "technique": c["technique"],
    })
man = {
    "version": 1,
    "setup_cmd": "sh bin/setup.sh",
    "hooks": {
        "guard": "verif",
        "enable": "go build -tags verif (the harness module go/ replaces github.com/ovh/kmip-go by /repo and is always built with -tags verif)",
        "baseline_off_cmd": "cd /repo && go test -mod=mod -json -vet=off -count=1 -timeout 25m ./...",
        "source_commits": HOOK_COMMITS,
        "add_only": True,
    },
    "engines": [
        {"name": "lean4", "path": "lean/", "serves_properties": [c["property_id"] for c in checks],
         "kind_free_text": "Lean 4 model + property theorems (lake build, Audit.lean axiom audit, leanchecker in thorough tier)"},
        {"name": "harness", "path": "go/cmd/harness", "serves_properties": [c["property_id"] for c in checks],
         "kind_free_text": "Go differential correspondence (real code in-process vs compiled Lean model over a line protocol) + impl-side oracles used for witness search"},
        {"name": "extract", "path": "go/cmd/extract", "serves_properties": [c["property_id"] for c in checks],
         "kind_free_text": "regenerates lean/KmipModel/Gen/*.lean (registries, dispatch tables, wire schema) from /repo on every run"},
    ],
    "checks": checks,
    "not_applicable": [{"property_id": p, "reason": NOT_CLAIMED.get(p, "check not built yet; not claimed in this commit")} for p in all_ids if p not in PROPS],
    "notes": "Technique family: machine-checked proof in Lean 4 over an executable model tied to /repo by regeneration and differential correspondence. See DESIGN.md.",
}
json.dump(man, open(os.path.join(VERIF, "MANIFEST.json"), "w"), indent=1)
print("MANIFEST.json:", len(checks), "checks,", len(man["not_applicable"]), "not claimed")
