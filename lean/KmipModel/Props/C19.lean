/-
  C19 — middleware chains run in order and are re-entrant.

  `runImpl` follows the Go code (`nextFrom(i)` of kmipclient/client.go, `nextFrom` / `biNextFrom` of
  kmipserver/router.go); `runSpec` is plain nested composition `stage₀ (stage₁ (… core))` in which
  every call of a continuation runs the whole remainder of the chain once with the message and
  context it is given. They agree for ALL chains (any length), all stage programs, all scripted
  handlers — for the client chain, the server message chain and the server batch-item chain, which
  are three instances (`Kind`) of one generic definition. Corollaries: the trace is well nested in
  registration order, each stage receives exactly what its predecessor passed and gets back exactly
  what its successor returned, the innermost continuation acts on the message it is GIVEN (on the
  server: the handler that runs is the one registered for the operation of the substituted item,
  and the response echoes that operation), and the handler runs Π kᵢ times under stages calling
  `next` kᵢ times.
  The pre-fix code (`runOld`: one cursor shared by all invocations of the continuation; the server
  message chain forwarding the original request) is refuted by concrete 2-stage chains.

  Registration (section 5): every call of `Use` / `BatchItemUse` / `WithMiddlewares` appends, so the
  chain is the concatenation of the argument lists in call order.
  Several items (section 6): the batch loop enters the item chain once per item; every item gets one
  complete well-nested execution of the WHOLE item chain, whatever the stages did on earlier items.
  Both server chains (section 7): the innermost continuation of the message chain is the item chain.
  The header the handler's context reports (section 8): `HdrMode.core` (batch context made by the core
  handler — the code at /repo HEAD since 4b5c841, `runImpl_is_core`) reports the header of the message
  that is executed (`header_follows_message`, `header_go`); `HdrMode.entry` — the code before that
  commit — reports the header of the ORIGINAL request (`header_entry_stale`: this was finding
  `mw:srvmsg:handler-header-not-of-message-executed`, repaired; the engine probes the mode of the real
  code on every run and reports the finding again if it regresses).
  Concurrency (section 9): the chain code is run under INTERFERENCE — a memory cell outside the call
  (`St.cur`) that other goroutines overwrite arbitrarily after every event: result and trace are
  those of the undisturbed run (`concurrent_run_independent`), because the index of `nextFrom(i)`
  is a parameter of the closure; a chain keeping its cursor in such a cell is disturbed
  (`shared_cursor_disturbed`). That the real chain code touches no other shared mutable state is
  checked on the real code by the concurrent phase of engine `mw`.
-/
import KmipModel.Lemmas.MiddlewareLemmas
namespace Kmip.C19
open Kmip Kmip.Mw

/-! ### 1. the code is nested composition -/

/-- 1a. `nextFrom(i)` is the nested composition of the stages from index `i` on — for every chain,
    every index, and ANY innermost continuation (not only scripted ones). -/
theorem nextFrom_is_composition (chain : List Stage) (core : Next) (i : Nat) :
    nextFrom chain core i = specNext core (chain.drop i) :=
  nextFrom_eq_specNext chain core i

/-- 1b. THE PROPERTY: the implemented chain equals the specification, result and trace. -/
theorem runImpl_eq_runSpec (k : Kind) (chain : List Stage) (core : Core) (m0 : Msg) (c0 : Nat) :
    runImpl k chain core m0 c0 = runSpec k chain core m0 c0 := by
  unfold runImpl runSpec
  rw [nextFrom_eq_specNext, List.drop_zero]

/-- 1c. the three instances. -/
theorem client_chain (chain : List Stage) (core : Core) (m0 : Msg) (c0 : Nat) :
    runImpl .client chain core m0 c0 = runSpec .client chain core m0 c0 :=
  runImpl_eq_runSpec _ _ _ _ _

theorem server_message_chain (chain : List Stage) (core : Core) (m0 : Msg) (c0 : Nat) :
    runImpl .srvmsg chain core m0 c0 = runSpec .srvmsg chain core m0 c0 :=
  runImpl_eq_runSpec _ _ _ _ _

theorem server_item_chain (chain : List Stage) (core : Core) (m0 : Msg) (c0 : Nat) :
    runImpl .srvitem chain core m0 c0 = runSpec .srvitem chain core m0 c0 :=
  runImpl_eq_runSpec _ _ _ _ _

/-! ### 2. order, substitution, re-entrancy: the trace is well nested -/

/-- 2a. The trace of a run is ONE well-nested execution of the stages in registration order
    (`WN`, see the model): stage `i+1` is entered only between a `call` and the matching `back` of
    stage `i`, with exactly the message and context stage `i` passed; each such call contains exactly
    one complete execution of all later stages and of the innermost continuation; `back` reports
    exactly what that execution returned; the innermost continuation behaves as `CoreSem` on the
    message it is given; the entry point returns `finish` of what the first stage returned. -/
theorem trace_wellNested (k : Kind) (chain : List Stage) (core : Core) (m0 : Msg) (c0 : Nat) :
    ∃ r, WN (CoreSem k) (chain.map Stage.id) m0 c0 r (runImpl k chain core m0 c0).2 ∧
      (runImpl k chain core m0 c0).1 = finish k m0.op r := by
  rw [runImpl_eq_runSpec]
  obtain ⟨tr, htr, hwn⟩ := specNext_NextWN k core (hdrOf k m0) chain m0 c0 St.init
  refine ⟨_, ?_, rfl⟩
  have : (runSpec k chain core m0 c0).2 = tr := by
    simpa [St.init, runSpec, mkRun] using htr
  rw [this]
  exact hwn

/-- 2b. reading `WN`: a well-nested trace of a non-empty chain starts with the first stage
    receiving the initial message / context and ends with that stage returning the result. -/
theorem WN_first_last {cs : Msg → Nat → R → List Event → Prop} {id : Nat} {rest : List Nat}
    {m : Msg} {c : Nat} {r : R} {tr : List Event} (h : WN cs (id :: rest) m c r tr) :
    tr.head? = some (.enter id m c) ∧ tr.getLast? = some (.exit id r) := by
  cases h with
  | stage _ _ _ _ _ parts hp =>
    exact ⟨rfl, List.getLast?_concat ..⟩

/-- 2c. reading `WN` + `CoreSem`: with no stage left, the trace is what ONE invocation of the
    innermost continuation with the message / context passed looks like: if the operation of THAT
    message is routed, exactly one handler invocation, by the handler registered for that operation,
    on exactly that message and context, the result echoing that operation; otherwise no handler
    invocation and "operation not supported". -/
theorem WN_core {k : Kind} {m : Msg} {c : Nat} {r : R} {tr : List Event}
    (h : WN (CoreSem k) [] m c r tr) :
    (routed k m.op = true ∧
      ∃ n hh o, tr = [.core n (handlerOf k m.op) m c hh o] ∧ r = coreResult k o m.op) ∨
    (routed k m.op = false ∧ tr = [] ∧ r = notRouted k m.op) := by
  cases h with
  | core _ _ _ _ hc => exact hc

/-- 2d. reading `WN`: every call of `next` by the first stage is followed by a complete well-nested
    execution of the rest, which received what was passed and whose result is what came back. -/
theorem WN_calls {cs : Msg → Nat → R → List Event → Prop} {id : Nat} {rest : List Nat}
    {m : Msg} {c : Nat} {r : R} {tr : List Event} (h : WN cs (id :: rest) m c r tr) :
    ∃ parts : List (Msg × Nat × R × List Event),
      tr = .enter id m c :: segsOf id parts ++ [.exit id r] ∧
      ∀ p ∈ parts, WN cs rest p.1 p.2.1 p.2.2.1 p.2.2.2 := by
  cases h with
  | stage _ _ _ _ _ parts hp => exact ⟨parts, rfl, hp⟩

/-- 2e. substitution along a pipeline (every stage derives a message — token AND operation — and a
    context from those it received and calls `next` once): stage `i` receives the transformations of
    stages `0..i-1` applied in registration order to the initial message / context; the innermost
    continuation is invoked once with all of them applied, and the handler that runs is the one of
    the operation passed by the LAST stage (none if that operation is not routed). -/
theorem pipeline_substitution (k : Kind) (ps : List (Nat × Tr × Nat × Tr)) (core : Core)
    (m0 : Msg) (c0 : Nat) :
    enters (runImpl k (ps.map pipeStage) core m0 c0).2 = pipeEnters ps m0 c0 ∧
    coreInputs (runImpl k (ps.map pipeStage) core m0 c0).2 = pipeCore k (pipeOut ps m0 c0) := by
  rw [runImpl_eq_runSpec]
  have := specNext_pipe k core (hdrOf k m0) ps m0 c0 St.init
  simpa [runSpec, mkRun, St.init, enters, coreInputs] using this

/-- non-vacuity: three stages tagging the message with 1, 2, 3; the second rewrites operation 1
    (handler 1) into operation 2 and replaces the context: they receive 7@1, 71@1, 712@2 and HANDLER 2
    receives 7123@2 — not handler 1, not 7321, not 7. -/
example :
    enters (runSpec .srvitem
      ([(1, .tag 1, 1, .tag 1), (2, .tag 2, 2, .const 40), (3, .tag 3, 2, .tag 3)].map pipeStage)
      ⟨[], .ok 5, []⟩ ⟨7, 1⟩ 9).2 = [(1, ⟨7, 1⟩, 9), (2, ⟨71, 1⟩, 91), (3, ⟨712, 2⟩, 40)] ∧
    coreInputs (runSpec .srvitem
      ([(1, .tag 1, 1, .tag 1), (2, .tag 2, 2, .const 40), (3, .tag 3, 2, .tag 3)].map pipeStage)
      ⟨[], .ok 5, []⟩ ⟨7, 1⟩ 9).2 = [(2, ⟨7123, 2⟩, 403)] := by decide

/-- 2f. the item chain acts on the SUBSTITUTED item: a stage rewriting an item of an operation
    WITHOUT handler (3) into a routed one (2) gets handler 2 run and a successful item echoing
    operation 2; rewriting a routed operation into an unrouted one gets no handler run and a failed
    item ("operation not supported") echoing the new operation. -/
example :
    runSpec .srvitem [⟨1, [.setOp 2, .call]⟩] ⟨[], .ok 5, []⟩ ⟨7, 3⟩ 9
      = (⟨some ⟨5, 2⟩, none⟩,
         [.enter 1 ⟨7, 3⟩ 9, .call 1 ⟨7, 2⟩ 9, .core 0 2 ⟨7, 2⟩ 9 7 (.ok 5),
          .back 1 ⟨some ⟨5, 2⟩, none⟩, .exit 1 ⟨some ⟨5, 2⟩, none⟩]) ∧
    runSpec .srvitem [⟨1, [.setOp 3, .call]⟩] ⟨[], .ok 5, []⟩ ⟨7, 1⟩ 9
      = (⟨some ⟨failBase + libErr, 3⟩, none⟩,
         [.enter 1 ⟨7, 1⟩ 9, .call 1 ⟨7, 3⟩ 9,
          .back 1 ⟨some ⟨0, 3⟩, some libErr⟩, .exit 1 ⟨some ⟨0, 3⟩, some libErr⟩]) := by decide

/-! ### 3. call counts -/

/-- 3a. Under stages that call `next` exactly `kᵢ` times unconditionally (straight-line programs
    that keep the operation: `kᵢ = 0` is a short-circuit, `kᵢ ≥ 2` a repetition) and a request whose
    operation has a handler, the handler runs `Π kᵢ` times. -/
theorem core_runs_product (k : Kind) (chain : List Stage) (core : Core) (m0 : Msg) (c0 : Nat)
    (hs : ∀ st ∈ chain, st.Straight) (hr : routed k m0.op = true) :
    coreEvents (runImpl k chain core m0 c0).2 = prodL (chain.map Stage.mult) := by
  rw [runImpl_eq_runSpec]
  have := (specNext_NextCount k core (hdrOf k m0) m0.op hr chain hs m0 c0 St.init rfl).2
  simpa [runSpec, mkRun, St.init, coreEvents] using this

/-- 3b. … and every stage `j` is entered `Π_{i<j} kᵢ` times: apply 3a to the prefix — the trace of a
    chain restricted to the first `j` stages; stated here through the general composition law: the
    chain `pre ++ post` is the chain `pre` whose innermost continuation is the chain `post`. -/
theorem chain_append (pre post : List Stage) (core : Next) :
    nextFrom (pre ++ post) core 0 = specNext (nextFrom post core 0) pre := by
  rw [nextFrom_eq_specNext, nextFrom_eq_specNext, List.drop_zero, List.drop_zero]
  induction pre with
  | nil => rfl
  | cons st pre ih => simp only [List.cons_append, specNext, ih]

/-- non-vacuity of 3a: call×2, (tag; call×3), pass-through, then a stage calling twice and returning
    a fixed response: 2·3·1·2 = 12 handler runs. -/
example :
    coreEvents (runImpl .client
      [⟨1, [.call, .call]⟩, ⟨2, [.setMsg (.tag 2), .call, .call, .call]⟩, ⟨3, [.call]⟩,
       ⟨4, [.call, .setCtx (.tag 4), .call, .ret (.fixed ⟨some ⟨7, 1⟩, none⟩), .call]⟩]
      ⟨[.err 1], .ok 5, []⟩ ⟨1, 1⟩ 1).2 = 12 := by
  rw [core_runs_product _ _ _ _ _ (by decide) (by decide)]
  decide

/-- a short-circuiting stage anywhere in the chain: the handler never runs. -/
example :
    coreEvents (runImpl .srvitem
      [⟨1, [.call, .call]⟩, ⟨2, [.ret (.fixed ⟨none, some 5⟩)]⟩, ⟨3, [.call]⟩]
      ⟨[], .ok 5, []⟩ ⟨1, 2⟩ 1).2 = 0 := by
  rw [core_runs_product _ _ _ _ _ (by decide) (by decide)]
  decide

/-! ### 4. what the fixes c5825cf / ec9e0d5 repaired -/

/-- the pre-fix chain with a stage calling `next` twice followed by a pass-through stage: the second
    call skips the pass-through stage (client chain; cursor shared by all invocations of `next`). -/
example :
    runOld .client [⟨1, [.call, .call]⟩, ⟨2, [.call]⟩] ⟨[], .ok 5, []⟩ ⟨1, 1⟩ 1
      ≠ runSpec .client [⟨1, [.call, .call]⟩, ⟨2, [.call]⟩] ⟨[], .ok 5, []⟩ ⟨1, 1⟩ 1 := by decide

/-- … what the old code did on it: stage 2 entered once instead of twice. -/
example :
    (enters (runOld .client [⟨1, [.call, .call]⟩, ⟨2, [.call]⟩] ⟨[], .ok 5, []⟩ ⟨1, 1⟩ 1).2).length = 2 ∧
    (enters (runSpec .client [⟨1, [.call, .call]⟩, ⟨2, [.call]⟩] ⟨[], .ok 5, []⟩ ⟨1, 1⟩ 1).2).length = 3 := by
  decide

/-- same defect in the server batch-item chain, with the documented retry pattern (call again while
    the result is a failure): the retried call bypasses the inner stage. -/
example :
    runOld .srvitem [⟨1, [.call, .callIfFail]⟩, ⟨2, [.setMsg (.tag 2), .call]⟩]
        ⟨[.err 1], .ok 5, []⟩ ⟨1, 1⟩ 1
      ≠ runSpec .srvitem [⟨1, [.call, .callIfFail]⟩, ⟨2, [.setMsg (.tag 2), .call]⟩]
          ⟨[.err 1], .ok 5, []⟩ ⟨1, 1⟩ 1 := by decide

/-- same defect in the server message chain. -/
example :
    runOld .srvmsg [⟨1, [.call, .call]⟩, ⟨2, [.call]⟩] ⟨[], .ok 5, []⟩ ⟨1, 1⟩ 1
      ≠ runSpec .srvmsg [⟨1, [.call, .call]⟩, ⟨2, [.call]⟩] ⟨[], .ok 5, []⟩ ⟨1, 1⟩ 1 := by decide

/-- the second defect of the server message chain — the ORIGINAL request was forwarded instead of the
    one given to `next` — shows with stages that each call `next` exactly once: the message
    replaced by stage 1 reaches neither stage 2 nor the handler. -/
example :
    coreInputs (runOld .srvmsg [pipeStage (1, .tag 1, 1, .tag 1), pipeStage (2, .tag 2, 1, .tag 2)]
      ⟨[], .ok 5, []⟩ ⟨7, 1⟩ 9).2 = [(1, ⟨7, 1⟩, 912)] ∧
    coreInputs (runSpec .srvmsg [pipeStage (1, .tag 1, 1, .tag 1), pipeStage (2, .tag 2, 1, .tag 2)]
      ⟨[], .ok 5, []⟩ ⟨7, 1⟩ 9).2 = [(1, ⟨712, 1⟩, 912)] := by decide

/-- the current code on the first witness: it is the specification (by 1b), here evaluated. -/
example :
    (enters (runImpl .client [⟨1, [.call, .call]⟩, ⟨2, [.call]⟩] ⟨[], .ok 5, []⟩ ⟨1, 1⟩ 1).2).length = 3 := by
  rw [runImpl_eq_runSpec]
  decide

/-! ### 5. registration order -/

/-- 5a. `exec.Use(a…); exec.Use(b…); …` (likewise `BatchItemUse`, and several `WithMiddlewares`
    options): the chain is the concatenation of the argument lists in call order. -/
theorem registration_is_concatenation (calls : List (List Stage)) :
    registered calls = calls.flatten := registered_eq_flatten calls

/-- 5b. … hence the stages run in registration order: the trace is one well-nested execution of
    first the stages of the first call in argument order, then those of the second call, … -/
theorem registration_order (k : Kind) (calls : List (List Stage)) (core : Core) (m0 : Msg)
    (c0 : Nat) :
    ∃ r, WN (CoreSem k) (calls.flatten.map Stage.id) m0 c0 r
        (runImpl k (registered calls) core m0 c0).2 ∧
      (runImpl k (registered calls) core m0 c0).1 = finish k m0.op r := by
  rw [registered_eq_flatten]
  exact trace_wellNested k _ core m0 c0

example : registered [[⟨1, [.call]⟩, ⟨2, [.call]⟩], [], [⟨3, [.call]⟩]]
    = [⟨1, [.call]⟩, ⟨2, [.call]⟩, ⟨3, [.call]⟩] := by decide

/-! ### 6. several items -/

/-- 6a. A batch of ANY number of items through the item chain: the trace is the concatenation, in
    item order, of one complete well-nested execution of the WHOLE chain per item — each receiving
    its own item and the context of the batch — and response item `j` is the finished result of
    execution `j`. In particular what the stages did on earlier items (retries, short-circuits,
    substituted items) has no effect on how far later items travel. -/
theorem items_each_full_chain (chain : List Stage) (core : Core) (h0 c0 : Nat) (items : List Msg) :
    ItemsWN (chain.map Stage.id) c0 items (runBatchItems chain core h0 c0 items).1
      (runBatchItems chain core h0 c0 items).2 := by
  obtain ⟨tr, htr, hw⟩ := runItems_ItemsWN chain core h0 c0 items St.init
  simp only [runBatchItems]
  rw [htr]
  simpa [St.init] using hw

/-- 6b. reading `ItemsWN`: as many response items as request items. -/
theorem ItemsWN_length {ids : List Nat} {c : Nat} {items : List Msg} {rs : List R}
    {tr : List Event} (h : ItemsWN ids c items rs tr) : rs.length = items.length := by
  induction h with
  | nil => rfl
  | cons _ _ _ _ _ _ _ _ ih => simp [ih]

/-- 6c. the batch loop is the specification (per item plain nested composition). -/
theorem items_impl_eq_spec (chain : List Stage) (core : Core) (h0 c0 : Nat) (items : List Msg) :
    runBatchItems chain core h0 c0 items = specBatchItems chain core h0 c0 items := by
  simp only [runBatchItems, specBatchItems, runItems_eq_specItems]

/-- non-vacuity: three items through [retry-while-failed; tag]: the handler fails once (on item 0,
    which is retried), items 1 and 2 still traverse BOTH stages. -/
example :
    (runBatchItems [⟨1, [.call, .callIfFail]⟩, ⟨2, [.setMsg (.tag 2), .call]⟩] ⟨[.err 1], .ok 5, []⟩
      0 9 [⟨1, 1⟩, ⟨2, 2⟩, ⟨3, 1⟩]).1
      = [⟨some ⟨5, 1⟩, none⟩, ⟨some ⟨5, 2⟩, none⟩, ⟨some ⟨5, 1⟩, none⟩] ∧
    enters (runBatchItems [⟨1, [.call, .callIfFail]⟩, ⟨2, [.setMsg (.tag 2), .call]⟩]
      ⟨[.err 1], .ok 5, []⟩ 0 9 [⟨1, 1⟩, ⟨2, 2⟩, ⟨3, 1⟩]).2
      = [(1, ⟨1, 1⟩, 9), (2, ⟨1, 1⟩, 9), (2, ⟨1, 1⟩, 9), (1, ⟨2, 2⟩, 9), (2, ⟨2, 2⟩, 9),
         (1, ⟨3, 1⟩, 9), (2, ⟨3, 1⟩, 9)] := by
  rw [items_impl_eq_spec]
  decide

/-! ### 7. both server chains -/

/-- 7a. message chain and item chain installed together: the code is the nested composition of the
    message stages around (the nested composition of the item stages around `executeItem`). -/
theorem both_chains (hm : HdrMode) (mchain ichain : List Stage) (core : Core) (m0 : Msg) (c0 : Nat) :
    runBoth hm mchain ichain core m0 c0 = runBothSpec hm mchain ichain core m0 c0 := by
  unfold runBoth runBothSpec
  rw [nextFrom_eq_specNext, List.drop_zero]
  congr 2
  funext m c s
  simp only [bothCore]
  rw [nextFrom_eq_specNext, List.drop_zero]

/-- 7b. the trace is one well-nested execution of the message stages in registration order whose
    innermost continuation is, for every invocation, one complete well-nested execution of the item
    stages in registration order on the message it was given (`BothSem`). A message stage that
    calls `next` twice therefore causes two complete traversals of the item chain. -/
theorem both_wellNested (hm : HdrMode) (mchain ichain : List Stage) (core : Core) (m0 : Msg)
    (c0 : Nat) :
    ∃ r, WN (BothSem (ichain.map Stage.id)) (mchain.map Stage.id) m0 c0 r
        (runBoth hm mchain ichain core m0 c0).2 ∧
      (runBoth hm mchain ichain core m0 c0).1 = finish .srvmsg m0.op r := by
  unfold runBoth
  rw [nextFrom_eq_specNext, List.drop_zero]
  obtain ⟨tr, htr, hwn⟩ :=
    specNext_both_NextWN ichain core (hdrFn hm .srvmsg m0) mchain m0 c0 St.init
  refine ⟨_, ?_, rfl⟩
  have : (mkRun .srvmsg m0.op
      (specNext (bothCore ichain core (hdrFn hm .srvmsg m0)) mchain m0 c0 St.init)).2 = tr := by
    simpa [St.init, mkRun] using htr
  rw [this]
  exact hwn

/-- non-vacuity: message stage 1 calls twice, item stage 101 tags: the item chain is traversed
    twice, the handler runs twice. -/
example :
    enters (runBoth .entry [⟨1, [.call, .call]⟩] [⟨101, [.setMsg (.tag 7), .call]⟩]
      ⟨[], .ok 5, []⟩ ⟨3, 1⟩ 9).2 = [(1, ⟨3, 1⟩, 9), (101, ⟨3, 1⟩, 9), (101, ⟨3, 1⟩, 9)] ∧
    coreInputs (runBoth .entry [⟨1, [.call, .call]⟩] [⟨101, [.setMsg (.tag 7), .call]⟩]
      ⟨[], .ok 5, []⟩ ⟨3, 1⟩ 9).2 = [(1, ⟨37, 1⟩, 9), (1, ⟨37, 1⟩, 9)] := by
  rw [both_chains]
  decide

/-! ### 8. the request header the handler's context reports -/

/-- `runImpl` is `runImplH` with the header mode of the code at /repo HEAD. -/
theorem runImpl_is_core (k : Kind) (chain : List Stage) (core : Core) (m0 : Msg) (c0 : Nat) :
    runImpl k chain core m0 c0 = runImplH .core k chain core m0 c0 := rfl

theorem runImplH_eq_runSpecH (hm : HdrMode) (k : Kind) (chain : List Stage) (core : Core) (m0 : Msg)
    (c0 : Nat) : runImplH hm k chain core m0 c0 = runSpecH hm k chain core m0 c0 := by
  unfold runImplH runSpecH
  rw [nextFrom_eq_specNext, List.drop_zero]

/-- 8a. the header mode has no influence on anything but the `h` field of handler events on the
    server message chain: client and item chains are the same function in both modes. -/
theorem header_mode_irrelevant (hm : HdrMode) (k : Kind) (hk : k ≠ .srvmsg) (chain : List Stage)
    (core : Core) (m0 : Msg) (c0 : Nat) :
    runImplH hm k chain core m0 c0 = runImpl k chain core m0 c0 := by
  cases k <;> cases hm <;> first | rfl | exact absurd rfl hk

/-- 8b. THE CLAUSE "each receiving the context and message passed on by its predecessor … with the
    core handler innermost", for the header: with the batch context made by the core handler
    (`HdrMode.core`), every handler invocation on the server message chain — any chain, any stage
    programs — is told the header OF THE MESSAGE IT EXECUTES. -/
def C19_header_full (hm : HdrMode) : Prop :=
  ∀ (chain : List Stage) (core : Core) (m0 : Msg) (c0 : Nat),
    (runImplH hm .srvmsg chain core m0 c0).2.all Event.hdrOk = true

theorem header_follows_message : C19_header_full .core := by
  intro chain core m0 c0
  unfold runImplH
  rw [nextFrom_eq_specNext, List.drop_zero]
  obtain ⟨tr, htr, ha⟩ := specNext_NextHdr .srvmsg core chain m0 c0 St.init
  have : (mkRun .srvmsg m0.op
      (specNext (coreRun .srvmsg core (hdrFn .core .srvmsg m0)) chain m0 c0 St.init)).2 = tr := by
    simpa [St.init, mkRun, hdrFn] using htr
  rw [this]
  exact ha

/-- 8b'. … in particular THE CODE OF TODAY (`runImpl`): every handler invocation on the server
    message chain is told the header of the message it executes. -/
theorem header_go (chain : List Stage) (core : Core) (m0 : Msg) (c0 : Nat) :
    (runImpl .srvmsg chain core m0 c0).2.all Event.hdrOk = true := by
  rw [runImpl_is_core]
  exact header_follows_message chain core m0 c0

/-- 8c. the code before 4b5c841 (batch context made by `HandleRequest` only) did NOT have it: a stage
    that passes on another message (`mt1.c`) got the handler run on message 71 while its context
    reported header 7 — was confirmed on the real code (finding
    `mw:srvmsg:handler-header-not-of-message-executed`, repaired by that commit). -/
theorem header_entry_stale : ¬ C19_header_full .entry := by
  intro h
  have := h [⟨1, [.setMsg (.tag 1), .call]⟩] ⟨[], .ok 5, []⟩ ⟨7, 1⟩ 9
  rw [runImplH_eq_runSpecH] at this
  revert this
  decide

example :
    (runImplH .entry .srvmsg [⟨1, [.setMsg (.tag 1), .call]⟩] ⟨[], .ok 5, []⟩ ⟨7, 1⟩ 9).2
      = [.enter 1 ⟨7, 1⟩ 9, .call 1 ⟨71, 1⟩ 9, .core 0 1 ⟨71, 1⟩ 9 7 (.ok 5),
         .back 1 ⟨some ⟨5, 1⟩, none⟩, .exit 1 ⟨some ⟨5, 1⟩, none⟩] ∧
    (runImplH .core .srvmsg [⟨1, [.setMsg (.tag 1), .call]⟩] ⟨[], .ok 5, []⟩ ⟨7, 1⟩ 9).2
      = [.enter 1 ⟨7, 1⟩ 9, .call 1 ⟨71, 1⟩ 9, .core 0 1 ⟨71, 1⟩ 9 71 (.ok 5),
         .back 1 ⟨some ⟨5, 1⟩, none⟩, .exit 1 ⟨some ⟨5, 1⟩, none⟩] := by
  rw [runImplH_eq_runSpecH, runImplH_eq_runSpecH]
  decide

/-! ### 9. concurrent requests sharing the chain -/

/-- 9a. RE-ENTRANCY UNDER CONCURRENCY. Run the chain code with a memory cell outside the call that
    other goroutines (running the same chain, or anything else) overwrite with arbitrary values after
    EVERY event of this run (`env`): result and trace are exactly those of the undisturbed run — for
    every chain, every stage program, every handler script, all three kinds. The chain code has no
    shared mutable state to be disturbed through: the position in the chain is the parameter `i` of
    `nextFrom(i)`, not a cell. -/
theorem concurrent_run_independent (env : Nat → Nat) (k : Kind) (chain : List Stage) (core : Core)
    (m0 : Msg) (c0 : Nat) :
    runImplP env k chain core m0 c0 = runImpl k chain core m0 c0 := by
  have hsim := nextFromP_sim env chain (coreRunP_sim env k core (hdrOf k m0)) _ 0 rfl m0 c0
    { trace := [], calls := 0, cur := env 0 } St.init ⟨rfl, rfl⟩
  obtain ⟨h1, h2, _⟩ := hsim
  simp only [runImplP, runImpl, mkRun]
  rw [h1, h2]

/-- 9b. … whereas a chain that keeps its cursor in such a cell (the pre-fix cursor moved into the
    `Client` / `BatchExecutor` struct) is disturbed: when other goroutines keep resetting the cell to 0
    (they start their own requests), stage 1 is entered again and again and stage 2 is never reached;
    when another goroutine has advanced it past the end after this run's first event, stage 2 is
    skipped. -/
theorem shared_cursor_disturbed :
    enters (runSharedCursorP (fun _ => 0) .client [⟨1, [.call]⟩, ⟨2, [.call]⟩]
      ⟨[], .ok 5, []⟩ ⟨1, 1⟩ 1).2 = [(1, ⟨1, 1⟩, 1), (1, ⟨1, 1⟩, 1), (1, ⟨1, 1⟩, 1)] ∧
    enters (runSharedCursorP (fun n => if n < 2 then 0 else 5) .client [⟨1, [.call]⟩, ⟨2, [.call]⟩]
      ⟨[], .ok 5, []⟩ ⟨1, 1⟩ 1).2 = [(1, ⟨1, 1⟩, 1)] ∧
    enters (runImpl .client [⟨1, [.call]⟩, ⟨2, [.call]⟩] ⟨[], .ok 5, []⟩ ⟨1, 1⟩ 1).2
      = [(1, ⟨1, 1⟩, 1), (2, ⟨1, 1⟩, 1)] := by
  rw [runImpl_eq_runSpec]
  decide

end Kmip.C19
