// Package report holds the result structure every engine writes for bin/check.py.
package report

import (
	"encoding/json"
	"os"
	"sort"
	"time"
)

type Disagreement struct {
	Engine string `json:"engine"`
	Line   string `json:"line"`
	Impl   string `json:"impl"`
	Model  string `json:"model"`
	Props  string `json:"props"`
}

// Violation is a failure of a property observed on the real code by an impl-side oracle.
type Violation struct {
	Property string `json:"property"`
	Engine   string `json:"engine"`
	Oracle   string `json:"oracle"`
	Key      string `json:"key"` // canonical identification (matched against known_findings.jsonl)
	Detail   string `json:"detail"`
	Line     string `json:"line"` // replayable protocol line / input
}

type Result struct {
	Engine        string         `json:"engine"`
	Tier          string         `json:"tier"`
	Seed          int64          `json:"seed"`
	Cases         int            `json:"cases"`
	Distinct      int            `json:"distinct_nontrivial"`
	Rule          string         `json:"rule"`
	Exhaustive    bool           `json:"exhaustive"`
	Distribution  map[string]int `json:"distribution"`
	Samples       []string       `json:"samples"`
	Disagreements []Disagreement `json:"disagreements"`
	Violations    []Violation    `json:"violations"`
	HarnessErrors []string       `json:"harness_errors"`
	WallS         float64        `json:"wall_s"`

	start    time.Time
	distinct map[string]struct{}
	perKey   map[string]int
}

func New(engine, tier string, seed int64) *Result {
	return &Result{Engine: engine, Tier: tier, Seed: seed, Distribution: map[string]int{},
		start: time.Now(), distinct: map[string]struct{}{}, perKey: map[string]int{}}
}

func (r *Result) Count(key string) { r.Distribution[key]++ }

// Case registers one evaluated case; nontrivial cases are de-duplicated by their line.
func (r *Result) Case(line string, nontrivial bool) {
	r.Cases++
	if nontrivial {
		r.distinct[line] = struct{}{}
	}
	if len(r.Samples) < 6 && (r.Cases%97 == 1) {
		s := line
		if len(s) > 400 {
			s = s[:400] + "…"
		}
		r.Samples = append(r.Samples, s)
	}
}

func (r *Result) Disagree(line, impl, model, props string) {
	if len(r.Disagreements) < 200 {
		r.Disagreements = append(r.Disagreements, Disagreement{r.Engine, line, impl, model, props})
	}
	r.Count("DISAGREE")
}

func (r *Result) Violate(v Violation) {
	v.Engine = r.Engine
	// keep at most 5 examples per key so that a frequent key cannot hide another one
	r.perKey[v.Property+"|"+v.Key]++
	if r.perKey[v.Property+"|"+v.Key] <= 5 && len(r.Violations) < 400 {
		r.Violations = append(r.Violations, v)
	}
	r.Count("VIOLATION:" + v.Property + ":" + v.Oracle)
}

func (r *Result) Fail(msg string) { r.HarnessErrors = append(r.HarnessErrors, msg) }

func (r *Result) Write(path string) error {
	r.Distinct = len(r.distinct)
	r.WallS = time.Since(r.start).Seconds()
	sort.Strings(r.Samples)
	if r.Samples == nil {
		r.Samples = []string{} // a replay may leave an engine without cases; bin/check.py slices this field
	}
	if r.Disagreements == nil {
		r.Disagreements = []Disagreement{}
	}
	if r.Violations == nil {
		r.Violations = []Violation{}
	}
	if r.HarnessErrors == nil {
		r.HarnessErrors = []string{}
	}
	b, err := json.MarshalIndent(r, "", " ")
	if err != nil {
		return err
	}
	return os.WriteFile(path, b, 0o644)
}
