/-
  Helper definitions and lemmas about the typed codec `KmipModel.Model.Plan`:
  * `Schema.decodeSafe` — the decidable well-formedness check under which the typed decoder never panics,
    and its soundness (`decode_noPanic_typed`, `unmarshal_noPanic`);
  * inversion lemmas for the `Res` monad, used by the C05/C06 property files;
  * the version-cell lemmas of the encoder (C05) and the dispatch lemmas of the hand-written decoders (C06).
  Core Lean only (`Lean.Elab.Tactic` is imported for one small proof-search tactic; nothing here is linked
  into the model executable).
-/
import Lean.Elab.Tactic
import KmipModel.Lemmas.ReaderLemmas
import KmipModel.Model.Plan
namespace Kmip

/-! ### `Res` helpers -/

theorem Res.noPanic_bind' {α β : Type} {x : Res α} {f : α → Res β} (hx : x.NoPanic)
    (hf : ∀ a, (f a).NoPanic) : (x >>= f).NoPanic :=
  Res.noPanic_bind hx (fun a _ => hf a)

theorem Res.bind_eq_ok {α β : Type} {x : Res α} {f : α → Res β} {b : β}
    (h : (x >>= f) = .ok b) : ∃ a, x = .ok a ∧ f a = .ok b := by
  cases x with
  | ok a => exact ⟨a, rfl, h⟩
  | err e => exact nomatch h
  | panic m => exact nomatch h

/-- observers used by the non-vacuity examples (`Res Val` has no decidable equality). -/
def Res.isPanic {α : Type} : Res α → Bool | .panic _ => true | _ => false
def Res.isOk {α : Type} : Res α → Bool | .ok _ => true | _ => false
def Res.isErr {α : Type} : Res α → Bool | .err _ => true | _ => false

theorem Res.isPanic_iff {α : Type} (r : Res α) : r.isPanic = true ↔ ∃ m, r = .panic m := by
  cases r <;> simp [Res.isPanic]

/-! ### C02 (typed layer): the decidable safety condition -/

/-- the kind can be handed to `decK` without reaching one of its panicking branches
    (`.iface`: reflective decode of a nil interface; `.i8`/`.i16`/`.unsupported`: no decoder). -/
def Kind.leafSafe : Kind → Bool
  | .iface | .i8 | .i16 | .unsupported => false
  | .ptr k => k.leafSafe
  | .slice k => k.leafSafe
  | _ => true

/-- a field of a reflectively decoded struct: safe kind, and not an untagged interface. -/
def Field.decSafe (f : Field) : Bool := f.kind.leafSafe && !f.dynTag

/-- `fk i` of `decCustom`: the kind of the i-th declared field (`.unsupported` when there is none). -/
@[reducible] def kindAt (fields : List Field) (i : Nat) : Kind :=
  (fields.getD i { tag := 0, kind := .unsupported }).kind

/-- the first `n` field kinds of the union-like struct with codec `code` exist and are safe. -/
def unionSafe (S : Schema) (code n : Nat) : Bool :=
  (List.range n).all fun i => ((customFieldKinds S code).getD i .unsupported).leafSafe

/-- what the hand-written decoder `code` needs from the declared fields of its struct (and from the
    union structs it decodes into). Codes without a decoder are unsafe (`decCustom` panics on them). -/
def customSafe (S : Schema) (fields : List Field) (code : Nat) : Bool :=
  if code = Cust.unknownPayload then true
  else if code = Cust.requestBatchItem then
    (kindAt fields 0).leafSafe && (kindAt fields 3).leafSafe
  else if code = Cust.responseBatchItem then
    (kindAt fields 0).leafSafe && (kindAt fields 2).leafSafe && (kindAt fields 3).leafSafe &&
      (kindAt fields 7).leafSafe
  else if code = Cust.attr then true
  else if code = Cust.credential then
    (kindAt fields 0).leafSafe && unionSafe S Cust.credentialValue 3
  else if code = Cust.keyBlock then
    (kindAt fields 0).leafSafe && (kindAt fields 1).leafSafe && (kindAt fields 3).leafSafe &&
      (kindAt fields 4).leafSafe && (kindAt fields 5).leafSafe && unionSafe S Cust.keyMaterial 8
  else if code = Cust.getResponse then (kindAt fields 0).leafSafe
  else if code = Cust.registerRequest then (kindAt fields 0).leafSafe && (kindAt fields 1).leafSafe
  else if code = Cust.exportResponse then (kindAt fields 0).leafSafe && (kindAt fields 2).leafSafe
  else if code = Cust.importRequest then (kindAt fields 2).leafSafe && (kindAt fields 3).leafSafe
  else false

/-- a struct definition is safe to decode: reflectively (all fields safe) or by its hand-written decoder. -/
def StructDef.decSafe (S : Schema) (d : StructDef) : Bool :=
  if d.decCustom then customSafe S d.fields d.custom else d.fields.all Field.decSafe

/-- **the typed decoder's well-formedness condition**: every struct is safe, every type that can sit
    behind an interface has a safe kind, and every dyn id the dispatch tables can produce is a valid
    index into `dyns` (an invalid id would decode as `.unsupported`). -/
def Schema.decodeSafe (S : Schema) : Bool :=
  S.structs.all (StructDef.decSafe S) &&
  S.dyns.all (fun dy => dy.kind.leafSafe) &&
  S.ops.all (fun p => decide (p.2.1 < S.dyns.length) && decide (p.2.2 < S.dyns.length)) &&
  S.objects.all (fun p => decide (p.2 < S.dyns.length)) &&
  S.attrs.all (fun p => decide (p.2 < S.dyns.length)) &&
  decide (S.unknownPayloadDyn < S.dyns.length) && decide (S.valueDyn < S.dyns.length)

/-! ### soundness of `decodeSafe` -/

theorem Kind.leafSafe_ptr {k : Kind} (h : (Kind.ptr k).leafSafe = true) : k.leafSafe = true := by
  rwa [Kind.leafSafe] at h
theorem Kind.leafSafe_slice {k : Kind} (h : (Kind.slice k).leafSafe = true) : k.leafSafe = true := by
  rwa [Kind.leafSafe] at h

theorem unionSafe_getD {S : Schema} {code n : Nat} (h : unionSafe S code n = true) {i : Nat}
    (hi : i < n) : ((customFieldKinds S code).getD i .unsupported).leafSafe = true := by
  unfold unionSafe at h
  rw [List.all_eq_true] at h
  exact h i (List.mem_range.2 hi)

structure Schema.DecodeSafe (S : Schema) : Prop where
  structs : ∀ d ∈ S.structs, StructDef.decSafe S d = true
  dyns : ∀ dy ∈ S.dyns, dy.kind.leafSafe = true
  ops : ∀ p ∈ S.ops, p.2.1 < S.dyns.length ∧ p.2.2 < S.dyns.length
  objects : ∀ p ∈ S.objects, p.2 < S.dyns.length
  attrs : ∀ p ∈ S.attrs, p.2 < S.dyns.length
  unknown : S.unknownPayloadDyn < S.dyns.length
  value : S.valueDyn < S.dyns.length

theorem Schema.decodeSafe_iff (S : Schema) : S.decodeSafe = true ↔ S.DecodeSafe := by
  unfold Schema.decodeSafe
  simp only [Bool.and_eq_true, List.all_eq_true, decide_eq_true_eq]
  constructor
  · rintro ⟨⟨⟨⟨⟨⟨h1, h2⟩, h3⟩, h4⟩, h5⟩, h6⟩, h7⟩
    exact ⟨h1, h2, h3, h4, h5, h6, h7⟩
  · rintro ⟨h1, h2, h3, h4, h5, h6, h7⟩
    exact ⟨⟨⟨⟨⟨⟨h1, h2⟩, h3⟩, h4⟩, h5⟩, h6⟩, h7⟩

theorem Schema.DecodeSafe.structDef {S : Schema} (h : S.DecodeSafe) (id : Nat) :
    StructDef.decSafe S (S.structDef id) = true := by
  unfold Schema.structDef
  rw [List.getD_eq_getElem?_getD]
  cases hg : S.structs[id]? with
  | none => rfl
  | some d => exact h.structs d (List.mem_of_getElem? hg)

theorem Schema.DecodeSafe.dyn {S : Schema} (h : S.DecodeSafe) {d : Nat} (hd : d < S.dyns.length) :
    (S.dyn d).kind.leafSafe = true := by
  unfold Schema.dyn
  rw [List.getD_eq_getElem?_getD, List.getElem?_eq_getElem hd]
  exact h.dyns _ (List.getElem_mem hd)

theorem lookupNat_mem {l : List (Nat × Nat)} {k v : Nat} (h : lookupNat l k = some v) :
    ∃ p ∈ l, p.1 = k ∧ p.2 = v := by
  unfold lookupNat at h
  cases hf : l.find? (fun p => p.1 == k) with
  | none => rw [hf] at h; exact nomatch h
  | some p =>
    rw [hf] at h
    have hp := List.find?_some hf
    refine ⟨p, List.mem_of_find?_eq_some hf, by simpa using hp, ?_⟩
    injection h

theorem Schema.DecodeSafe.payloadDyn {S : Schema} (h : S.DecodeSafe) (op : Nat) (r : Bool) :
    S.payloadDyn op r < S.dyns.length := by
  unfold Schema.payloadDyn
  cases hf : S.ops.find? (fun p => p.1 == op) with
  | none => exact h.unknown
  | some p =>
    obtain ⟨o, rq, rs⟩ := p
    have := h.ops _ (List.mem_of_find?_eq_some hf)
    cases r
    · exact this.1
    · exact this.2

theorem Schema.DecodeSafe.attrDyn {S : Schema} (h : S.DecodeSafe) (name : Bytes) :
    S.attrDyn name < S.dyns.length := by
  unfold Schema.attrDyn
  simp only
  split
  · exact h.value
  · split
    · rename_i d hl
      obtain ⟨p, hp, _, rfl⟩ := lookupNat_mem hl
      exact h.attrs p hp
    · exact h.value

theorem Schema.DecodeSafe.objectDyn {S : Schema} (h : S.DecodeSafe) {ot d : Nat}
    (ho : S.objectDyn ot = some d) : d < S.dyns.length := by
  unfold Schema.objectDyn at ho
  obtain ⟨p, hp, _, rfl⟩ := lookupNat_mem ho
  exact h.objects p hp

open Lean Elab Tactic Meta in
/-- depth-bounded backward search over the local hypotheses (reducible unification only, so that the
    recursive decoders are never unfolded). -/
partial def npSolve (depth : Nat) (g : MVarId) : MetaM Unit := g.withContext do
  try
    withReducible g.assumption
  catch _ =>
    if depth = 0 then throwError "npSolve: depth exhausted"
    for ld in (← getLCtx) do
      if ld.isImplementationDetail then continue
      let s ← saveState
      try
        let gs ← withReducible (g.apply ld.toExpr)
        for g' in gs do
          unless (← g'.isAssigned) do npSolve (depth - 1) g'
        return
      catch _ => s.restore
    throwError "npSolve: no hypothesis applies"

open Lean Elab Tactic Meta in
/-- close a `NoPanic` goal with a local hypothesis whose conclusion is `NoPanic`; its premises are
    searched among the hypotheses (depth 2). -/
elab "np_hyp" : tactic => withMainContext do
  let g ← getMainGoal
  for ld in (← getLCtx) do
    if ld.isImplementationDetail then continue
    let ty ← instantiateMVars ld.type
    if ty.getForallBody.isAppOf ``Res.NoPanic then
      let s ← saveState
      try
        let gs ← withReducible (g.apply ld.toExpr)
        for g' in gs do
          unless (← g'.isAssigned) do npSolve 2 g'
        replaceMainGoal []
        return
      catch _ => s.restore
  throwError "np_hyp: no hypothesis applies"

/-- one step of the syntactic "no panic" search: close a leaf, or peel a bind / match / if. -/
macro "np_step" : tactic => `(tactic| with_reducible first
  | exact Res.noPanic_ok _
  | exact Res.noPanic_err _
  | exact Res.noPanic_pure _
  | exact Cur.integer_noPanic _ _
  | exact Cur.longInteger_noPanic _ _
  | exact Cur.enum_noPanic _ _
  | exact Cur.bool_noPanic _ _
  | exact Cur.dateTime_noPanic _ _
  | exact Cur.interval_noPanic _ _
  | exact Cur.bigInteger_noPanic _ _
  | exact Cur.textString_noPanic _ _
  | exact Cur.byteString_noPanic _ _
  | exact Cur.expect_noPanic _ _ _
  | exact Cur.start_noPanic _
  | exact Cur.next_noPanic _
  | exact (decode_noPanic _).1 _ _
  | exact Cur.struct_noPanic _ _ _ (fun inner => (decode_noPanic _).2 inner)
  | np_hyp
  | refine Res.noPanic_bind' ?_ (fun _ => ?_)
  | split)
macro "np_auto" : tactic => `(tactic| repeat (any_goals np_step))

/-- the statement proved by induction on the fuel: under `DecodeSafe`, none of the eight mutually
    recursive typed decoders panics, on any cursor. -/
structure TypedNoPanic (S : Schema) (fuel : Nat) : Prop where
  decK : ∀ k tag c ver, Kind.leafSafe k = true → (decK S fuel k tag c ver).NoPanic
  decStruct : ∀ fields tag c ver, List.all fields Field.decSafe = true →
    (decStruct S fuel fields tag c ver).NoPanic
  decList : ∀ k tag c ver, Kind.leafSafe k = true → (decList S fuel k tag c ver).NoPanic
  decFields : ∀ fields c ver, List.all fields Field.decSafe = true →
    (decFields S fuel fields c ver).NoPanic
  decOpt : ∀ k tag c ver, Kind.leafSafe k = true → (decOpt S fuel k tag c ver).NoPanic
  decDyn : ∀ d tag c ver, d < S.dyns.length → (decDyn S fuel d tag c ver).NoPanic
  decCustom : ∀ code id tag c ver, customSafe S (S.structDef id).fields code = true →
    (decCustom S fuel code id tag c ver).NoPanic
  decKeyValue : ∀ fmt c ver, unionSafe S Cust.keyMaterial 8 = true →
    (decKeyValue S fuel fmt c ver).NoPanic

theorem typedNoPanic_zero (S : Schema) : TypedNoPanic S 0 := by
  constructor
  · intro k tag c ver _; rw [decK]; exact Res.noPanic_err _
  · intro fs tag c ver _; rw [decStruct]; exact Res.noPanic_err _
  · intro k tag c ver _; rw [decList]; exact Res.noPanic_err _
  · intro fs c ver _; rw [decFields]; exact Res.noPanic_err _
  · intro k tag c ver _; rw [decOpt]; exact Res.noPanic_err _
  · intro d tag c ver _; rw [decDyn]; exact Res.noPanic_err _
  · intro code id tag c ver _; rw [decCustom]; exact Res.noPanic_err _
  · intro fmt c ver _; rw [decKeyValue]; exact Res.noPanic_err _

theorem typedNoPanic_succ (S : Schema) (hS : S.DecodeSafe) (fuel : Nat) (ih : TypedNoPanic S fuel) :
    TypedNoPanic S (fuel + 1) := by
  have ihK := ih.decK
  have ihS := ih.decStruct
  have ihL := ih.decList
  have ihF := ih.decFields
  have ihO := ih.decOpt
  have ihD := ih.decDyn
  have ihC := ih.decCustom
  have ihV := ih.decKeyValue
  have sBytes : Kind.leafSafe .bytes = true := rfl
  have sText : Kind.leafSafe .text = true := rfl
  have sBool : Kind.leafSafe .bool = true := rfl
  have sAttrs : ∀ i, Kind.leafSafe (.slice (.struct i)) = true := fun _ => rfl
  constructor
  · -- decK
    intro k tag c ver hk
    cases k
    all_goals first | exact absurd hk (by decide) | skip
    all_goals rw [decK]
    case ptr k => have := Kind.leafSafe_ptr hk; np_auto
    case slice k => have := Kind.leafSafe_slice hk; np_auto
    case struct id =>
      have hd := hS.structDef id
      unfold StructDef.decSafe at hd
      split
      · rename_i hc; rw [if_pos hc] at hd; exact ihC _ _ _ _ _ hd
      · rename_i hc; rw [if_neg hc] at hd; exact ihS _ _ _ _ hd
    all_goals np_auto
  · -- decStruct
    intro fields tag c ver hf
    rw [decStruct]
    np_auto
  · -- decList
    intro k tag c ver hk
    rw [decList]
    np_auto
  · -- decFields
    intro fields c ver hf
    cases fields with
    | nil => rw [decFields]; exact Res.noPanic_ok _; exact fun h => nomatch h
    | cons f fs =>
      rw [decFields]
      rw [List.all_cons, Bool.and_eq_true] at hf
      obtain ⟨h1, h2⟩ := hf
      unfold Field.decSafe at h1
      rw [Bool.and_eq_true] at h1
      have hdt : f.dynTag = false := by simpa using h1.2
      have hk := h1.1
      rw [hdt, if_neg (by decide)]
      np_auto
  · -- decOpt
    intro k tag c ver hk
    rw [decOpt]
    np_auto
  · -- decDyn
    intro d tag c ver hd
    rw [decDyn]
    have hk := hS.dyn hd
    have hptr : ∀ k', (S.dyn d).kind = .ptr k' → Kind.leafSafe k' = true :=
      fun k' h => Kind.leafSafe_ptr (h ▸ hk)
    np_auto
  · -- decCustom
    intro code id tag c ver hc
    rw [decCustom]
    unfold customSafe at hc
    by_cases h1 : code = Cust.unknownPayload
    · rw [if_pos h1]; np_auto
    rw [if_neg h1]
    rw [if_neg h1] at hc
    refine Res.noPanic_bind' (Cur.expect_noPanic _ _ _) (fun it => ?_)
    refine Res.noPanic_bind' (Cur.start_noPanic _) (fun c0 => ?_)
    refine Res.noPanic_bind' ?_ (fun _ => by np_auto)
    have hpd := hS.payloadDyn
    have had := hS.attrDyn
    have hod : ∀ ot d, S.objectDyn ot = some d → d < S.dyns.length := fun _ _ h => hS.objectDyn h
    by_cases h2 : code = Cust.requestBatchItem
    · rw [if_pos h2]
      rw [if_pos h2] at hc
      simp only [Bool.and_eq_true] at hc
      obtain ⟨k0, k3⟩ := hc
      np_auto
    rw [if_neg h2]
    rw [if_neg h2] at hc
    by_cases h3 : code = Cust.responseBatchItem
    · rw [if_pos h3]
      rw [if_pos h3] at hc
      simp only [Bool.and_eq_true] at hc
      obtain ⟨⟨⟨k0, k2⟩, k3⟩, k7⟩ := hc
      np_auto
    rw [if_neg h3]
    rw [if_neg h3] at hc
    by_cases h4 : code = Cust.attr
    · rw [if_pos h4]
      np_auto
    rw [if_neg h4]
    rw [if_neg h4] at hc
    by_cases h5 : code = Cust.credential
    · rw [if_pos h5]
      rw [if_pos h5] at hc
      simp only [Bool.and_eq_true] at hc
      obtain ⟨k0, ku⟩ := hc
      np_auto
      dsimp only
      split
      · rename_i ht
        have := unionSafe_getD ku (i := (Val.asInt ‹Val›).toNat - 1) (by omega)
        np_auto
      · np_auto
    rw [if_neg h5]
    rw [if_neg h5] at hc
    by_cases h6 : code = Cust.keyBlock
    · rw [if_pos h6]
      rw [if_pos h6] at hc
      simp only [Bool.and_eq_true] at hc
      obtain ⟨⟨⟨⟨⟨k0, k1⟩, k3⟩, k4⟩, k5⟩, ku⟩ := hc
      np_auto
    rw [if_neg h6]
    rw [if_neg h6] at hc
    by_cases h7 : code = Cust.getResponse
    · rw [if_pos h7]
      rw [if_pos h7] at hc
      np_auto
    rw [if_neg h7]
    rw [if_neg h7] at hc
    by_cases h8 : code = Cust.registerRequest
    · rw [if_pos h8]
      rw [if_pos h8] at hc
      simp only [Bool.and_eq_true] at hc
      obtain ⟨k0, k1⟩ := hc
      np_auto
    rw [if_neg h8]
    rw [if_neg h8] at hc
    by_cases h9 : code = Cust.exportResponse
    · rw [if_pos h9]
      rw [if_pos h9] at hc
      simp only [Bool.and_eq_true] at hc
      obtain ⟨k0, k2⟩ := hc
      np_auto
    rw [if_neg h9]
    rw [if_neg h9] at hc
    by_cases h10 : code = Cust.importRequest
    · rw [if_pos h10]
      rw [if_pos h10] at hc
      simp only [Bool.and_eq_true] at hc
      obtain ⟨k2, k3⟩ := hc
      np_auto
    rw [if_neg h10] at hc
    exact absurd hc (by decide)
  · -- decKeyValue
    intro fmt c ver ku
    rw [decKeyValue]
    have u0 := unionSafe_getD ku (i := 0) (by omega)
    have u1 := unionSafe_getD ku (i := 1) (by omega)
    have u2 := unionSafe_getD ku (i := 2) (by omega)
    have u3 := unionSafe_getD ku (i := 3) (by omega)
    have u4 := unionSafe_getD ku (i := 4) (by omega)
    have u5 := unionSafe_getD ku (i := 5) (by omega)
    have u6 := unionSafe_getD ku (i := 6) (by omega)
    have u7 := unionSafe_getD ku (i := 7) (by omega)
    np_auto

theorem typedNoPanic (S : Schema) (hS : S.DecodeSafe) : ∀ fuel, TypedNoPanic S fuel
  | 0 => typedNoPanic_zero S
  | fuel + 1 => typedNoPanic_succ S hS fuel (typedNoPanic S hS fuel)

theorem unmarshal_noPanic (S : Schema) (h : S.decodeSafe = true) (d tag : Nat) (bs : Bytes)
    (hd : d < S.dyns.length) : (unmarshal S d tag bs).NoPanic := by
  have hS := (S.decodeSafe_iff).1 h
  have hk := hS.dyn hd
  have hptr : ∀ k', (S.dyn d).kind = .ptr k' → Kind.leafSafe k' = true :=
    fun k' h => Kind.leafSafe_ptr (h ▸ hk)
  have ihK := (typedNoPanic S hS (bs.length + 8)).decK
  unfold unmarshal
  np_auto

end Kmip
