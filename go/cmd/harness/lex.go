package main

// Engine `lex` (properties C04, C18, C02): the lexical / element layer of the XML and JSON back ends
// (ttlv/encoding_xml.go, ttlv/encoding_json.go) compared with the Lean model `Model/Lex.lean` over PARSED
// documents, plus the impl-side oracles of C04 / C18 / C02 on generic and annotated TTLV trees.
//
//	lex.xmlw  <fmt> <xitem>          → ok <xelem>
//	lex.jsonw <fmt> <xitem>          → ok <jval>
//	lex.xmlr  <hints> <prs> <xelem>  → ok <item> | err | panic …
//	lex.jsonr <hints> <prs> <jval>   → ok <item> | err | panic …
//	#lex.xmlr-raw <hints> <hexdoc>   impl-only: documents the independent parser does not accept as one document
//	#lex.jsonr-raw <hints> <hexdoc>
//	#lex.xmlr-nonascii-space / #lex.jsonr-nonascii-space <hints> <hexdoc>   impl-only: mask texts with non-ASCII
//	                                 Unicode white space (outside the registry model); all impl-side oracles run
//
// The writers are tied to the model THROUGH the independent parsers (encoding/xml token walk, encoding/json
// token walk with UseNumber): the impl answer of a writer line is the neutral rendering of the parsed output.

import (
	"bytes"
	"encoding/json"
	"encoding/xml"
	"fmt"
	"io"
	"math"
	"math/big"
	"regexp"
	"sort"
	"strconv"
	"strings"
	"time"
	"unicode"
	"unicode/utf8"

	kmip "github.com/ovh/kmip-go"
	"github.com/ovh/kmip-go/ttlv"

	"verifharness/internal/report"
	"verifharness/internal/rng"
	"verifharness/internal/tree"
)

func init() {
	register(&Engine{
		Name: "lex",
		Rule: "generic TTLV trees from the seeded structure-aware generator (wide, deep, big integers up to 4096 bits; XML-/JSON-representable text, dates in years 1..9999), a share of them decorated with enumeration / bit-mask nodes written through Encoder.Enum(enumtag,…) / Encoder.Bitmask(masktag,…) with registered and unregistered tags and values, plus a hand-written boundary list for every scalar kind: written by the real XML and JSON writers, parsed by encoding/xml / encoding/json token walks into a neutral element tree (writer lines); reader lines = those documents (with the typed caller's hints and with the generic decoder), a hand-enumerated list of alternative lexical forms of every type and of malformed element structures (duplicate / missing attributes and members, tag forms, unread structure children at several depths), lexical mutations of the library's documents, and (lex_forms.go) for every number-carrying scalar kind at boundary and random values the SAME value respelled by the harness's own formatter in every alternative legal lexical form (leading zeros, explicit sign, white space, 0x forms of any digit case and width, JSON numbers with fraction / exponent, decimal in JSON strings, hexBinary case, big-integer padding, date zone forms, tag spellings), alone and between siblings, with the oracle lexical-form: byte-identical binary TTLV or rejection (rejection a violation too for the forms of the xsd lexical space), never another value; documents the independent parser rejects are impl-only (no-panic oracle); (lex_reuse.go) a few hundred XML / JSON documents written through ONE Encoder used again - after Clear, several in a row, after a recovered encoding panic at structure depth 0..4 followed by Clear - judged by well-formedness, equality with the fresh encoder's document and binary identity after decoding (impl-only lines #lex.reuse). distinct = distinct protocol line; nontrivial = tree with >1 node, an annotated node or a boundary value; every reader document",
		Run:  lexRun,
	})
}

// ---- annotated trees ------------------------------------------------------------------------------------

// lexItem mirrors tree.Item with the annotations of the <xitem> syntax: an Integer written through
// Encoder.Bitmask(ann, tag, v) (mask), an Enumeration written through Encoder.Enum(ann, tag, v).
type lexItem struct {
	kind     tree.Kind
	tag      int
	mask     bool
	ann      int
	children []*lexItem
	i        int64
	big      *big.Int
	b        bool
	data     []byte
	tm       *time.Time // the decoder's own value of a date (nil: time.Unix(i, 0))
}

func (x *lexItem) render() string {
	var sb strings.Builder
	x.renderTo(&sb)
	return sb.String()
}

func (x *lexItem) renderTo(sb *strings.Builder) {
	switch {
	case x.kind == tree.KStruct:
		fmt.Fprintf(sb, "(S %d", x.tag)
		for _, c := range x.children {
			sb.WriteByte(' ')
			c.renderTo(sb)
		}
		sb.WriteByte(')')
	case x.kind == tree.KInt && x.mask:
		fmt.Fprintf(sb, "(M %d %d %d)", x.tag, x.ann, x.i)
	case x.kind == tree.KEnum:
		fmt.Fprintf(sb, "(E %d %d %d)", x.tag, x.ann, x.i)
	case x.kind == tree.KBig:
		fmt.Fprintf(sb, "(B %d %s)", x.tag, x.big.String())
	case x.kind == tree.KBool:
		v := 0
		if x.b {
			v = 1
		}
		fmt.Fprintf(sb, "(O %d %d)", x.tag, v)
	case x.kind == tree.KText:
		fmt.Fprintf(sb, "(T %d %s)", x.tag, hexUp(x.data))
	case x.kind == tree.KBytes:
		fmt.Fprintf(sb, "(Y %d %s)", x.tag, hexUp(x.data))
	default:
		letter := map[tree.Kind]string{tree.KInt: "I", tree.KLong: "L", tree.KDate: "D", tree.KInterval: "V"}[x.kind]
		fmt.Fprintf(sb, "(%s %d %d)", letter, x.tag, x.i)
	}
}

func lexTokens(s string) []string {
	s = strings.ReplaceAll(s, "(", " ( ")
	s = strings.ReplaceAll(s, ")", " ) ")
	return strings.Fields(s)
}

func lexUnhex(s string) (string, error) {
	if s == "-" {
		return "", nil
	}
	b, err := hexDecodeString(s)
	return string(b), err
}

func lexParseItem(s string) (*lexItem, error) {
	x, rest, err := lexParseItemToks(lexTokens(s))
	if err != nil {
		return nil, err
	}
	if len(rest) != 0 {
		return nil, fmt.Errorf("trailing tokens")
	}
	return x, nil
}

func lexParseItemToks(t []string) (*lexItem, []string, error) {
	if len(t) < 4 || t[0] != "(" {
		return nil, nil, fmt.Errorf("syntax")
	}
	k := t[1]
	tag, err := strconv.Atoi(t[2])
	if err != nil {
		return nil, nil, err
	}
	x := &lexItem{tag: tag}
	t = t[3:]
	if k == "S" {
		x.kind = tree.KStruct
		for len(t) > 0 && t[0] != ")" {
			var c *lexItem
			if c, t, err = lexParseItemToks(t); err != nil {
				return nil, nil, err
			}
			x.children = append(x.children, c)
		}
		if len(t) == 0 {
			return nil, nil, fmt.Errorf("unclosed")
		}
		return x, t[1:], nil
	}
	if k == "M" || k == "E" {
		if len(t) < 3 || t[2] != ")" {
			return nil, nil, fmt.Errorf("syntax")
		}
		if x.ann, err = strconv.Atoi(t[0]); err != nil {
			return nil, nil, err
		}
		if x.i, err = strconv.ParseInt(t[1], 10, 64); err != nil {
			return nil, nil, err
		}
		x.kind, x.mask = tree.KEnum, false
		if k == "M" {
			x.kind, x.mask = tree.KInt, true
		}
		return x, t[3:], nil
	}
	if len(t) < 2 || t[1] != ")" {
		return nil, nil, fmt.Errorf("syntax")
	}
	v := t[0]
	switch k {
	case "I", "L", "D", "V":
		x.kind = map[string]tree.Kind{"I": tree.KInt, "L": tree.KLong, "D": tree.KDate, "V": tree.KInterval}[k]
		x.i, err = strconv.ParseInt(v, 10, 64)
	case "B":
		x.kind = tree.KBig
		var ok bool
		if x.big, ok = new(big.Int).SetString(v, 10); !ok {
			err = fmt.Errorf("bigint")
		}
	case "O":
		x.kind, x.b = tree.KBool, v == "1"
	case "T", "Y":
		x.kind = tree.KText
		if k == "Y" {
			x.kind = tree.KBytes
		}
		var s string
		s, err = lexUnhex(v)
		x.data = []byte(s)
	default:
		err = fmt.Errorf("kind %q", k)
	}
	return x, t[2:], err
}

// erase forgets the annotations.
func (x *lexItem) erase() *tree.Item {
	it := &tree.Item{Kind: x.kind, Tag: x.tag, Int: x.i, Big: x.big, Bool: x.b, Data: x.data}
	for _, c := range x.children {
		it.Children = append(it.Children, c.erase())
	}
	return it
}

func lexItemOf(it *tree.Item) *lexItem {
	x := &lexItem{kind: it.Kind, tag: it.Tag, i: it.Int, big: it.Big, b: it.Bool, data: it.Data}
	for _, c := range it.Children {
		x.children = append(x.children, lexItemOf(c))
	}
	return x
}

func (x *lexItem) size() int {
	n := 1
	for _, c := range x.children {
		n += c.size()
	}
	return n
}

func (x *lexItem) walk(f func(*lexItem)) {
	f(x)
	for _, c := range x.children {
		c.walk(f)
	}
}

// annotated: some node is written through Bitmask or through Enum with an explicit enumeration tag.
func (x *lexItem) annotated() bool {
	res := false
	x.walk(func(n *lexItem) {
		if n.mask || (n.kind == tree.KEnum && n.ann != 0) {
			res = true
		}
	})
	return res
}

// ---- hints -----------------------------------------------------------------------------------------------

// lexHints: what the caller of the reader knows. Tag-keyed entries hold wherever an element is asked for under
// that tag; path-keyed entries ("@" = the root, "@0.2" = third child of the first child) hold at that position
// and are looked up first. A typed decoder picks the enumeration / mask type from the Go field it fills, which
// for AttributeValue depends on the attribute NAME and not on the tag: only positions can say that.
type lexHints struct {
	enum  map[int]int
	mask  map[int]int
	penum map[string]int
	pmask map[string]int
}

func lexNewHints() lexHints {
	return lexHints{map[int]int{}, map[int]int{}, map[string]int{}, map[string]int{}}
}

func (h lexHints) empty() bool {
	return len(h.enum) == 0 && len(h.mask) == 0 && len(h.penum) == 0 && len(h.pmask) == 0
}

func (h lexHints) maskAt(path string, tag int) (int, bool) {
	if m, ok := h.pmask[path]; ok {
		return m, true
	}
	m, ok := h.mask[tag]
	return m, ok
}

func (h lexHints) enumAt(path string, tag int) int {
	if e, ok := h.penum[path]; ok {
		return e
	}
	return h.enum[tag]
}

func lexChildPath(path string, i int) string {
	if path == "@" {
		return "@" + strconv.Itoa(i)
	}
	return path + "." + strconv.Itoa(i)
}

func (h lexHints) String() string {
	if h.empty() {
		return "-"
	}
	var tags []int
	seen := map[int]bool{}
	for t := range h.enum {
		if !seen[t] {
			seen[t] = true
			tags = append(tags, t)
		}
	}
	for t := range h.mask {
		if !seen[t] {
			seen[t] = true
			tags = append(tags, t)
		}
	}
	sort.Ints(tags)
	var parts []string
	for _, t := range tags {
		if e, ok := h.enum[t]; ok {
			parts = append(parts, fmt.Sprintf("%d:E%d", t, e))
		}
		if m, ok := h.mask[t]; ok {
			parts = append(parts, fmt.Sprintf("%d:M%d", t, m))
		}
	}
	var paths []string
	seenP := map[string]bool{}
	for q := range h.penum {
		if !seenP[q] {
			seenP[q] = true
			paths = append(paths, q)
		}
	}
	for q := range h.pmask {
		if !seenP[q] {
			seenP[q] = true
			paths = append(paths, q)
		}
	}
	sort.Strings(paths)
	for _, q := range paths {
		if e, ok := h.penum[q]; ok {
			parts = append(parts, fmt.Sprintf("%s:E%d", q, e))
		}
		if m, ok := h.pmask[q]; ok {
			parts = append(parts, fmt.Sprintf("%s:M%d", q, m))
		}
	}
	return strings.Join(parts, ",")
}

func lexParseHints(s string) (lexHints, error) {
	h := lexNewHints()
	if s == "-" {
		return h, nil
	}
	for _, p := range strings.Split(s, ",") {
		t, v, ok := strings.Cut(p, ":")
		if !ok || len(v) < 2 {
			return h, fmt.Errorf("hint %q", p)
		}
		n, err2 := strconv.Atoi(v[1:])
		if err2 != nil || (v[0] != 'E' && v[0] != 'M') {
			return h, fmt.Errorf("hint %q", p)
		}
		if strings.HasPrefix(t, "@") {
			for _, ix := range strings.Split(t[1:], ".") {
				if _, err := strconv.ParseUint(ix, 10, 31); err != nil && t != "@" {
					return h, fmt.Errorf("hint %q", p)
				}
			}
			m := h.penum
			if v[0] == 'M' {
				m = h.pmask
			}
			if _, dup := m[t]; !dup {
				m[t] = n
			}
			continue
		}
		tag, err1 := strconv.Atoi(t)
		if err1 != nil {
			return h, fmt.Errorf("hint %q", p)
		}
		m := h.enum
		if v[0] == 'M' {
			m = h.mask
		}
		if _, dup := m[tag]; !dup {
			m[tag] = n
		}
	}
	return h, nil
}

// lexPosHintsOf: the hints of a reader that is told, position by position, what the writer was told
// (Lean: XItem.hints). Every annotated tree has them.
func lexPosHintsOf(x *lexItem) lexHints {
	h := lexNewHints()
	var walk func(n *lexItem, path string)
	walk = func(n *lexItem, path string) {
		switch {
		case n.kind == tree.KEnum && n.ann != 0:
			h.penum[path] = n.ann
		case n.kind == tree.KInt && n.mask:
			h.pmask[path] = n.ann
		}
		for i, c := range n.children {
			walk(c, lexChildPath(path, i))
		}
	}
	walk(x, "@")
	return h
}

// lexHintsOf: what a typed caller reading this tree back passes; consistent = the annotations are a function
// of (tag, type), i.e. expressible as hints.
func lexHintsOf(x *lexItem) (lexHints, bool) {
	h := lexNewHints()
	ok := true
	seenE := map[int]int{}
	seenI := map[int][2]int{}
	x.walk(func(n *lexItem) {
		switch n.kind {
		case tree.KEnum:
			if p, s := seenE[n.tag]; s && p != n.ann {
				ok = false
			}
			seenE[n.tag] = n.ann
			if n.ann != 0 {
				h.enum[n.tag] = n.ann
			}
		case tree.KInt:
			cur := [2]int{0, 0}
			if n.mask {
				cur = [2]int{1, n.ann}
				h.mask[n.tag] = n.ann
			}
			if p, s := seenI[n.tag]; s && p != cur {
				ok = false
			}
			seenI[n.tag] = cur
		}
	})
	return h, ok
}

// lexNormalizeAnn makes the annotations a function of (tag, type): the first annotation seen for a tag wins.
func lexNormalizeAnn(x *lexItem) {
	en, mk := map[int]int{}, map[int]int{}
	x.walk(func(n *lexItem) {
		if n.kind == tree.KEnum && n.ann != 0 {
			if _, ok := en[n.tag]; !ok {
				en[n.tag] = n.ann
			}
		}
		if n.kind == tree.KInt && n.mask {
			if _, ok := mk[n.tag]; !ok {
				mk[n.tag] = n.ann
			}
		}
	})
	x.walk(func(n *lexItem) {
		if n.kind == tree.KEnum {
			n.ann = en[n.tag]
		}
		if n.kind == tree.KInt {
			n.ann, n.mask = 0, false
			if a, ok := mk[n.tag]; ok {
				n.ann, n.mask = a, true
			}
		}
	})
}

// ---- driving the real writers / readers through the public Encoder / Decoder methods ----------------------

type lexEnc struct{ x *lexItem }

func (e lexEnc) EncodeTTLV(enc *ttlv.Encoder) { lexEncodeX(enc, e.x) }

// lexWriterModified: set when a writer changed the (copy of the) value it was handed: the message is the caller's, an
// encoding that alters it makes every later encoding of the same message carry other information.
var lexWriterModified string

func lexEncodeX(e *ttlv.Encoder, x *lexItem) {
	switch x.kind {
	case tree.KStruct:
		e.Struct(x.tag, func(e *ttlv.Encoder) {
			for _, c := range x.children {
				lexEncodeX(e, c)
			}
		})
	case tree.KInt:
		if x.mask {
			e.Bitmask(x.ann, x.tag, int32(x.i))
		} else {
			e.Integer(x.tag, int32(x.i))
		}
	case tree.KLong:
		e.LongInteger(x.tag, x.i)
	case tree.KBig:
		v := new(big.Int).Set(x.big)
		e.BigInteger(x.tag, v)
		if v.Cmp(x.big) != 0 {
			lexWriterModified = fmt.Sprintf("the big integer %s handed to the writer is %s afterwards", x.big.String(), v.String())
		}
	case tree.KEnum:
		e.Enum(x.ann, x.tag, uint32(x.i))
	case tree.KBool:
		e.Bool(x.tag, x.b)
	case tree.KText:
		e.TextString(x.tag, string(x.data))
	case tree.KBytes:
		v := append([]byte{}, x.data...)
		e.ByteString(x.tag, v)
		if !bytes.Equal(v, x.data) {
			lexWriterModified = "the byte string handed to the writer is modified by it"
		}
	case tree.KDate:
		if x.tm != nil {
			e.DateTime(x.tag, *x.tm)
		} else {
			e.DateTime(x.tag, time.Unix(x.i, 0))
		}
	case tree.KInterval:
		e.Interval(x.tag, time.Duration(x.i)*time.Second)
	default:
		panic(fmt.Sprintf("harness: kind %d", x.kind))
	}
}

// lexDec mirrors Value.TagDecodeTTLV / Struct.TagDecodeTTLV, except that per hints it calls
// d.Enum(enumtag, tag) and d.Bitmask(masktag, tag).
type lexDec struct {
	h   lexHints
	out *lexItem
}

func (d *lexDec) DecodeTTLV(dec *ttlv.Decoder) error {
	out, err := lexDecodeX(dec, dec.Tag(), d.h, "@")
	if err == nil {
		d.out = out
	}
	return err
}

func lexDecodeX(d *ttlv.Decoder, tag int, h lexHints, path string) (*lexItem, error) {
	x := &lexItem{tag: tag}
	var err error
	ty := d.Type()
	switch ty {
	case ttlv.TypeInteger:
		x.kind = tree.KInt
		var v int32
		if m, ok := h.maskAt(path, tag); ok {
			x.mask, x.ann = true, m
			v, err = d.Bitmask(m, tag)
		} else {
			v, err = d.Integer(tag)
		}
		x.i = int64(v)
	case ttlv.TypeLongInteger:
		x.kind = tree.KLong
		x.i, err = d.LongInteger(tag)
	case ttlv.TypeBigInteger:
		x.kind = tree.KBig
		x.big, err = d.BigInteger(tag)
		if err == nil && x.big == nil {
			err = fmt.Errorf("harness: nil big.Int")
		}
	case ttlv.TypeBoolean:
		x.kind = tree.KBool
		x.b, err = d.Bool(tag)
	case ttlv.TypeByteString:
		x.kind = tree.KBytes
		x.data, err = d.ByteString(tag)
	case ttlv.TypeDateTime:
		x.kind = tree.KDate
		var t time.Time
		t, err = d.DateTime(tag)
		x.tm, x.i = &t, t.Unix()
	case ttlv.TypeEnumeration:
		x.kind = tree.KEnum
		x.ann = h.enumAt(path, tag)
		var v uint32
		v, err = d.Enum(x.ann, tag)
		x.i = int64(v)
	case ttlv.TypeInterval:
		x.kind = tree.KInterval
		var dur time.Duration
		dur, err = d.Interval(tag)
		if err == nil && dur%time.Second != 0 {
			err = fmt.Errorf("harness: sub-second interval")
		}
		x.i = int64(dur / time.Second)
	case ttlv.TypeTextString:
		x.kind = tree.KText
		var s string
		s, err = d.TextString(tag)
		x.data = []byte(s)
	case ttlv.TypeStructure:
		x.kind = tree.KStruct
		err = d.Struct(tag, func(d *ttlv.Decoder) error {
			for d.Tag() != 0 {
				c, err := lexDecodeX(d, d.Tag(), h, lexChildPath(path, len(x.children)))
				if err != nil {
					return err
				}
				x.children = append(x.children, c)
			}
			return nil
		})
	default:
		return nil, fmt.Errorf("Unsupported TTLV type %s", ty.String())
	}
	if err != nil {
		return nil, err
	}
	return x, nil
}

type lexCodec struct {
	name       string
	marshal    func(any) []byte
	unmarshal  func([]byte, any) error
	wellFormed func([]byte) bool
}

var lexXML = &lexCodec{"xml", ttlv.MarshalXML, ttlv.UnmarshalXML, func(b []byte) bool { return xmlWellFormed(b) == nil }}
var lexJSON = &lexCodec{"json", ttlv.MarshalJSON, ttlv.UnmarshalJSON, func(b []byte) bool { return json.Valid(b) }}

type lexDecoded struct {
	it  *tree.Item // nil unless accepted
	val any        // what the encoders are given to re-encode the decoded value
	ans string     // ok … / err / panic …
	err error
}

var lexFailCount = 0

func lexFail(ctx *Ctx, msg string) {
	lexFailCount++
	if lexFailCount <= 20 {
		if len(msg) > 600 {
			msg = msg[:600] + "…"
		}
		ctx.Res.Fail("lex: " + msg)
	}
}

// lexDecode decodes doc with the real library: through the hinted Decodable, and (hints `-`) also through
// the library's own ttlv.Value, which must agree.
func lexDecode(ctx *Ctx, c *lexCodec, doc []byte, h lexHints, line string) lexDecoded {
	in := append([]byte{}, doc...)
	type out struct {
		x   *lexItem
		err error
	}
	r, p := guard("Unmarshal", func() out {
		d := &lexDec{h: h}
		err := c.unmarshal(in, d)
		return out{d.out, err}
	})
	var res lexDecoded
	switch {
	case p != "":
		res.ans = "panic " + panicKey(p)
	case r.err != nil:
		res.ans, res.err = "err", r.err
		if strings.Contains(r.err.Error(), "harness:") {
			lexFail(ctx, "decoded value not representable: "+r.err.Error()+" at "+line)
		}
	case r.x == nil:
		res.ans = "err"
		lexFail(ctx, "decoder returned neither value nor error at "+line)
	default:
		res.it = r.x.erase()
		res.val = lexEnc{r.x}
		res.ans = "ok " + res.it.Render()
	}
	if !bytes.Equal(in, doc) {
		ctx.Res.Violate(report.Violation{Property: "C02", Oracle: "input-unmodified", Key: c.name + ":input-modified", Detail: "decoder modified its input", Line: line})
	}
	if h.empty() {
		type gout struct {
			v   ttlv.Value
			it  *tree.Item
			err error
		}
		g, gp := guard("Unmarshal", func() gout {
			var v ttlv.Value
			if err := c.unmarshal(in, &v); err != nil {
				return gout{err: err}
			}
			it, err := fromValue(v)
			if err != nil {
				err = fmt.Errorf("harness: %w", err)
			}
			return gout{v, it, err}
		})
		gans := "err"
		switch {
		case gp != "":
			gans = "panic " + panicKey(gp)
		case g.err == nil:
			gans = "ok " + g.it.Render()
		}
		if gans != res.ans {
			lexFail(ctx, "ttlv.Value and the harness Decodable disagree: "+gans+" vs "+res.ans+" at "+line)
		}
		if gp == "" && g.err == nil {
			res.val = g.v
		}
	}
	return res
}

func lexTagsInRange(it *tree.Item) bool {
	if it.Tag < 1 || it.Tag > 0xFFFFFF {
		return false
	}
	for _, c := range it.Children {
		if !lexTagsInRange(c) {
			return false
		}
	}
	return true
}

// ---- independent parsers: neutral element trees --------------------------------------------------------

type lexElem struct {
	name     string
	attrs    [][2]string
	children []*lexElem
}

// lexParseXMLDoc walks the encoding/xml token stream of a document already known to be well-formed.
func lexParseXMLDoc(doc []byte) (*lexElem, error) {
	d := xml.NewDecoder(bytes.NewReader(doc))
	d.Strict = true
	var root *lexElem
	var stack []*lexElem
	for {
		tok, err := d.Token()
		if err == io.EOF {
			break
		}
		if err != nil {
			return nil, err
		}
		switch t := tok.(type) {
		case xml.StartElement:
			e := &lexElem{name: t.Name.Local}
			for _, a := range t.Attr {
				e.attrs = append(e.attrs, [2]string{a.Name.Local, a.Value})
			}
			if len(stack) == 0 {
				if root != nil {
					return nil, fmt.Errorf("several roots")
				}
				root = e
			} else {
				p := stack[len(stack)-1]
				p.children = append(p.children, e)
			}
			stack = append(stack, e)
		case xml.EndElement:
			if len(stack) == 0 {
				return nil, fmt.Errorf("unbalanced")
			}
			stack = stack[:len(stack)-1]
		}
	}
	if root == nil || len(stack) != 0 {
		return nil, fmt.Errorf("no single root")
	}
	return root, nil
}

func (e *lexElem) renderTo(sb *strings.Builder) {
	sb.WriteString("(e ")
	sb.WriteString(hexUp([]byte(e.name)))
	for _, a := range e.attrs {
		sb.WriteByte(' ')
		sb.WriteString(hexUp([]byte(a[0])))
		sb.WriteByte('=')
		sb.WriteString(hexUp([]byte(a[1])))
	}
	for _, c := range e.children {
		sb.WriteByte(' ')
		c.renderTo(sb)
	}
	sb.WriteByte(')')
}

func (e *lexElem) render() string {
	var sb strings.Builder
	e.renderTo(&sb)
	return sb.String()
}

func (e *lexElem) attr(k string) (string, bool) {
	for _, a := range e.attrs {
		if a[0] == k {
			return a[1], true
		}
	}
	return "", false
}

func (e *lexElem) strings(f func(string)) {
	for _, a := range e.attrs {
		f(a[1])
	}
	for _, c := range e.children {
		c.strings(f)
	}
}

func lexParseElemToks(t []string) (*lexElem, []string, error) {
	if len(t) < 4 || t[0] != "(" || t[1] != "e" {
		return nil, nil, fmt.Errorf("syntax")
	}
	name, err := lexUnhex(t[2])
	if err != nil {
		return nil, nil, err
	}
	e := &lexElem{name: name}
	t = t[3:]
	for len(t) > 0 && t[0] != "(" && t[0] != ")" {
		k, v, ok := strings.Cut(t[0], "=")
		if !ok {
			return nil, nil, fmt.Errorf("attribute %q", t[0])
		}
		ks, err1 := lexUnhex(k)
		vs, err2 := lexUnhex(v)
		if err1 != nil || err2 != nil {
			return nil, nil, fmt.Errorf("attribute %q", t[0])
		}
		e.attrs = append(e.attrs, [2]string{ks, vs})
		t = t[1:]
	}
	for len(t) > 0 && t[0] == "(" {
		var c *lexElem
		if c, t, err = lexParseElemToks(t); err != nil {
			return nil, nil, err
		}
		e.children = append(e.children, c)
	}
	if len(t) == 0 || t[0] != ")" {
		return nil, nil, fmt.Errorf("unclosed")
	}
	return e, t[1:], nil
}

// serialize writes a real document for a neutral element tree (replay).
func (e *lexElem) serialize(b *bytes.Buffer) {
	b.WriteString("<" + e.name)
	for _, a := range e.attrs {
		b.WriteString(" " + a[0] + `="`)
		_ = xml.EscapeText(b, []byte(a[1]))
		b.WriteString(`"`)
	}
	if len(e.children) == 0 {
		b.WriteString("/>")
		return
	}
	b.WriteString(">")
	for _, c := range e.children {
		c.serialize(b)
	}
	b.WriteString("</" + e.name + ">")
}

// lexJVal: a JSON value as a token walk with UseNumber reports it; objects keep every member in document order.
type lexJVal struct {
	kind byte // o a s n r T F N
	keys []string
	vals []*lexJVal
	s    string // string value / integer literal
}

var lexIntLit = regexp.MustCompile(`^-?(0|[1-9][0-9]*)$`)

func lexParseJSONDoc(doc []byte) (*lexJVal, error) {
	d := json.NewDecoder(bytes.NewReader(doc))
	d.UseNumber()
	v, err := lexReadJVal(d)
	if err != nil {
		return nil, err
	}
	if _, err := d.Token(); err != io.EOF {
		return nil, fmt.Errorf("more than one value")
	}
	return v, nil
}

func lexReadJVal(d *json.Decoder) (*lexJVal, error) {
	tok, err := d.Token()
	if err != nil {
		return nil, err
	}
	switch t := tok.(type) {
	case json.Delim:
		switch t {
		case '{':
			o := &lexJVal{kind: 'o'}
			for d.More() {
				kt, err := d.Token()
				if err != nil {
					return nil, err
				}
				k, ok := kt.(string)
				if !ok {
					return nil, fmt.Errorf("key")
				}
				v, err := lexReadJVal(d)
				if err != nil {
					return nil, err
				}
				o.keys = append(o.keys, k)
				o.vals = append(o.vals, v)
			}
			_, err := d.Token()
			return o, err
		case '[':
			a := &lexJVal{kind: 'a'}
			for d.More() {
				v, err := lexReadJVal(d)
				if err != nil {
					return nil, err
				}
				a.vals = append(a.vals, v)
			}
			_, err := d.Token()
			return a, err
		}
		return nil, fmt.Errorf("delimiter")
	case string:
		return &lexJVal{kind: 's', s: t}, nil
	case json.Number:
		if lexIntLit.MatchString(string(t)) {
			s := string(t)
			if s == "-0" {
				s = "0"
			}
			return &lexJVal{kind: 'n', s: s}, nil
		}
		return &lexJVal{kind: 'r'}, nil
	case bool:
		if t {
			return &lexJVal{kind: 'T'}, nil
		}
		return &lexJVal{kind: 'F'}, nil
	case nil:
		return &lexJVal{kind: 'N'}, nil
	}
	return nil, fmt.Errorf("token %T", tok)
}

func (j *lexJVal) renderTo(sb *strings.Builder) {
	switch j.kind {
	case 'o':
		sb.WriteString("(o")
		for i, k := range j.keys {
			sb.WriteByte(' ')
			sb.WriteString(hexUp([]byte(k)))
			sb.WriteByte(' ')
			j.vals[i].renderTo(sb)
		}
		sb.WriteByte(')')
	case 'a':
		sb.WriteString("(a")
		for _, v := range j.vals {
			sb.WriteByte(' ')
			v.renderTo(sb)
		}
		sb.WriteByte(')')
	case 's':
		sb.WriteString("s" + hexUp([]byte(j.s)))
	case 'n':
		sb.WriteString("n" + j.s)
	default:
		sb.WriteByte(j.kind)
	}
}

func (j *lexJVal) render() string {
	var sb strings.Builder
	j.renderTo(&sb)
	return sb.String()
}

func (j *lexJVal) strings(f func(string)) {
	if j.kind == 's' {
		f(j.s)
	}
	for _, v := range j.vals {
		v.strings(f)
	}
}

func lexParseJValToks(t []string) (*lexJVal, []string, error) {
	if len(t) == 0 {
		return nil, nil, fmt.Errorf("empty")
	}
	if t[0] == "(" {
		if len(t) < 3 {
			return nil, nil, fmt.Errorf("syntax")
		}
		j := &lexJVal{kind: t[1][0]}
		if t[1] != "o" && t[1] != "a" {
			return nil, nil, fmt.Errorf("syntax")
		}
		t = t[2:]
		for len(t) > 0 && t[0] != ")" {
			if j.kind == 'o' {
				k, err := lexUnhex(t[0])
				if err != nil {
					return nil, nil, err
				}
				j.keys = append(j.keys, k)
				t = t[1:]
			}
			v, rest, err := lexParseJValToks(t)
			if err != nil {
				return nil, nil, err
			}
			j.vals = append(j.vals, v)
			t = rest
		}
		if len(t) == 0 {
			return nil, nil, fmt.Errorf("unclosed")
		}
		return j, t[1:], nil
	}
	tok := t[0]
	switch {
	case tok == "T" || tok == "F" || tok == "N" || tok == "r":
		return &lexJVal{kind: tok[0]}, t[1:], nil
	case strings.HasPrefix(tok, "s"):
		s, err := lexUnhex(tok[1:])
		return &lexJVal{kind: 's', s: s}, t[1:], err
	case strings.HasPrefix(tok, "n") && lexIntLit.MatchString(tok[1:]):
		return &lexJVal{kind: 'n', s: tok[1:]}, t[1:], nil
	}
	return nil, nil, fmt.Errorf("token %q", tok)
}

func (j *lexJVal) serialize(b *bytes.Buffer) {
	switch j.kind {
	case 'o':
		b.WriteByte('{')
		for i, k := range j.keys {
			if i > 0 {
				b.WriteByte(',')
			}
			b.WriteString(jsonString(k))
			b.WriteByte(':')
			j.vals[i].serialize(b)
		}
		b.WriteByte('}')
	case 'a':
		b.WriteByte('[')
		for i, v := range j.vals {
			if i > 0 {
				b.WriteByte(',')
			}
			v.serialize(b)
		}
		b.WriteByte(']')
	case 's':
		b.WriteString(jsonString(j.s))
	case 'n':
		b.WriteString(j.s)
	case 'r':
		b.WriteString("1.5")
	case 'T':
		b.WriteString("true")
	case 'F':
		b.WriteString("false")
	default:
		b.WriteString("null")
	}
}

// ---- the RFC 3339 side tables (trusted standard-library parameter of the model) ---------------------------

// lexFmtTable: for every date node, what time.Unix(secs,0).UTC().Format(time.RFC3339) gives (the model's writer
// formats in UTC; the engine pins time.Local = UTC for the correspondence lines, the zone oracle below runs the
// real code under other zones).
func lexFmtTable(x *lexItem) string {
	var parts []string
	seen := map[int64]bool{}
	x.walk(func(n *lexItem) {
		if n.kind == tree.KDate && !seen[n.i] {
			seen[n.i] = true
			parts = append(parts, fmt.Sprintf("%d=%s", n.i, hexUp([]byte(time.Unix(n.i, 0).UTC().Format(time.RFC3339)))))
		}
	})
	if len(parts) == 0 {
		return "-"
	}
	return strings.Join(parts, ",")
}

// lexPrsTable: for every string of the document that time.Parse(time.RFC3339, ·) accepts, its Unix seconds.
func lexPrsTable(each func(func(string))) string {
	var parts []string
	seen := map[string]bool{}
	each(func(s string) {
		if seen[s] {
			return
		}
		seen[s] = true
		if t, err := time.Parse(time.RFC3339, s); err == nil {
			parts = append(parts, fmt.Sprintf("%s=%d", hexUp([]byte(s)), t.Unix()))
		}
	})
	if len(parts) == 0 {
		return "-"
	}
	return strings.Join(parts, ",")
}

// ---- environment -------------------------------------------------------------------------------------------

type lexEnv struct {
	tagByName map[string]int
	enumTags  []int
	enumVals  map[int][]uint32
	enumNames map[int][]string
	maskTags  []int
	maskNames map[int][]string
	seen      map[string]bool
}

func lexNewEnv() *lexEnv {
	e := &lexEnv{tagByName: map[string]int{}, enumVals: map[int][]uint32{}, enumNames: map[int][]string{}, maskNames: map[int][]string{}, seen: map[string]bool{}}
	dump := ttlv.VerifDumpRegistry()
	for _, t := range dump.TagsByName {
		e.tagByName[t.Name] = int(t.Value)
	}
	for _, en := range dump.Enums {
		if len(en.ByValue) == 0 {
			continue
		}
		e.enumTags = append(e.enumTags, en.Tag)
		for _, v := range en.ByValue {
			e.enumVals[en.Tag] = append(e.enumVals[en.Tag], uint32(v.Value))
			e.enumNames[en.Tag] = append(e.enumNames[en.Tag], v.Name)
		}
	}
	for _, m := range dump.Bitmasks {
		e.maskTags = append(e.maskTags, m.Tag)
		e.maskNames[m.Tag] = m.Names
	}
	return e
}

func (e *lexEnv) violate(ctx *Ctx, prop, oracle, key, detail, line string) {
	if len(detail) > 900 {
		detail = detail[:900] + "…"
	}
	ctx.Res.Violate(report.Violation{Property: prop, Oracle: oracle, Key: key, Detail: detail, Line: line})
}

// ---- writer side -------------------------------------------------------------------------------------------

// writerCase: the real writer on x, its output judged and parsed by the independent parser = impl answer.
// inScope = the tree satisfies the hypotheses of C04 (representable text, dates in years 1..9999, tags in range).
func (e *lexEnv) writerCase(ctx *Ctx, c *lexCodec, x *lexItem, origin string, boundary, inScope bool) []byte {
	line := "lex." + c.name + "w " + lexFmtTable(x) + " " + x.render()
	if e.seen[line] {
		return nil
	}
	e.seen[line] = true
	ctx.current = line
	nontrivial := x.size() > 1 || x.annotated() || boundary
	lexWriterModified = ""
	doc, p := guard("Marshal", func() []byte { return append([]byte{}, c.marshal(lexEnc{x})...) })
	if lexWriterModified != "" {
		e.violate(ctx, "C04", "message-unmodified", c.name+":writer-modifies-message", lexWriterModified, line)
	}
	if p != "" {
		e.violate(ctx, "C04", "encoder-total", c.name+":encoder-panic:"+panicKey(p), "encoder panicked: "+p, line)
		ctx.Add(line, "panic "+panicKey(p), nontrivial, "C04")
		ctx.Res.Count("w." + c.name + "." + origin + ".panic")
		return nil
	}
	if !x.annotated() {
		// the library's own traversal (ttlv.Value) must give the same document
		gen, gp := guard("Marshal", func() []byte { return c.marshal(toValue(x.erase())) })
		if gp != "" || !bytes.Equal(gen, doc) {
			lexFail(ctx, "ttlv.Value and the harness Encodable write different documents at "+line)
		}
	}
	impl := "not-well-formed"
	if !c.wellFormed(doc) {
		e.violate(ctx, "C04", "well-formed", c.name+":not-well-formed", "independent parser rejects the document "+shortKey(doc), line)
	} else if c == lexXML {
		el, err := lexParseXMLDoc(doc)
		if err != nil {
			lexFail(ctx, "independent XML parse: "+err.Error()+" at "+line)
		} else {
			impl = "ok " + el.render()
		}
	} else {
		jv, err := lexParseJSONDoc(doc)
		if err != nil {
			lexFail(ctx, "independent JSON parse: "+err.Error()+" at "+line)
		} else {
			impl = "ok " + jv.render()
		}
	}
	ctx.Add(line, impl, nontrivial, "C04")
	ctx.Res.Count("w." + c.name + "." + origin)
	if x.annotated() {
		ctx.Res.Count("w." + c.name + ".annotated")
	}
	if !inScope {
		ctx.Res.Count("w." + c.name + ".no-readback")
		return doc
	}
	h, consistent := lexHintsOf(x)
	if !consistent {
		// annotations that differ between elements of one tag (the AttributeValue situation): only a reader told
		// position by position can read the tree back
		h = lexPosHintsOf(x)
		ctx.Res.Count("w." + c.name + ".readback-positional")
	}
	// C04: the library reads its own document back to a message with the same binary TTLV
	d := lexDecode(ctx, c, doc, h, line)
	switch {
	case strings.HasPrefix(d.ans, "panic"):
		e.violate(ctx, "C04", "binary-identity", c.name+":decode-panic:"+strings.TrimPrefix(d.ans, "panic "), "decoding the library's own document panicked: "+shortKey(doc), line)
	case d.it == nil:
		e.violate(ctx, "C04", "binary-identity", c.name+":decode-error:"+errClass(d.err), "the library cannot decode its own document: "+d.err.Error()+" doc="+shortKey(doc), line)
	default:
		want := x.erase().Encode()
		b0, p0 := guard("MarshalTTLV", func() []byte { return ttlv.MarshalTTLV(lexEnc{x}) })
		b1, p1 := guard("MarshalTTLV", func() []byte { return ttlv.MarshalTTLV(d.val) })
		if p0 != "" || p1 != "" || !bytes.Equal(b0, b1) || !bytes.Equal(d.it.Encode(), want) {
			e.violate(ctx, "C04", "binary-identity", c.name+":binary-differs", "decoded "+d.it.Render()+" from "+shortKey(doc), line)
		}
		doc2, p2 := guard("Marshal", func() []byte { return c.marshal(d.val) })
		if p2 != "" || !bytes.Equal(doc, doc2) {
			e.violate(ctx, "C18", "fixed-point", c.name+":reencode-differs", "re-encoding the decoded document differs from the first encoding "+p2, line)
		}
	}
	return doc
}

// ---- reader side -------------------------------------------------------------------------------------------

func (e *lexEnv) elemTag(el *lexElem) int {
	raw := el.name
	if raw == "TTLV" {
		raw, _ = el.attr("tag")
	}
	if raw == "" {
		return 0
	}
	if strings.HasPrefix(raw, "0x") {
		// a KMIP tag is a non-zero 3-byte number; any other text carries no tag (0)
		v, err := strconv.ParseUint(raw[2:], 16, 24)
		if err != nil {
			return 0
		}
		return int(v)
	}
	return e.tagByName[raw]
}

// nesting: every decoded structure's children come from DIRECT child elements of its element, in order.
func (e *lexEnv) nesting(it *tree.Item, el *lexElem) string {
	if it.Tag != e.elemTag(el) {
		return fmt.Sprintf("item with tag 0x%06X decoded at the position of element <%s>", it.Tag, el.name)
	}
	if it.Kind != tree.KStruct {
		return ""
	}
	if len(it.Children) > len(el.children) {
		return fmt.Sprintf("structure 0x%06X has %d decoded children but its element <%s> has %d child elements", it.Tag, len(it.Children), el.name, len(el.children))
	}
	for i, c := range it.Children {
		if m := e.nesting(c, el.children[i]); m != "" {
			return m
		}
	}
	return ""
}

// readerCase decodes one document with the real library (hints h) and applies the oracles.
func (e *lexEnv) readerCase(ctx *Ctx, c *lexCodec, doc []byte, h lexHints, origin string) {
	hs := h.String()
	key := c.name + "|" + hs + "|" + string(doc)
	if e.seen[key] {
		return
	}
	e.seen[key] = true
	if !c.wellFormed(doc) {
		line := "#lex." + c.name + "r-raw " + hs + " " + hexUp(doc)
		ctx.current = line
		d := lexDecode(ctx, c, doc, h, line)
		outcome := strings.SplitN(d.ans, " ", 2)[0]
		if outcome == "panic" {
			e.violate(ctx, "C02", "no-panic", c.name+":decode-panic:"+strings.TrimPrefix(d.ans, "panic "), "decoder panicked on "+shortKey(doc), line)
		}
		ctx.Add(line, outcome, true, "C02")
		ctx.Res.Count("r." + c.name + "." + origin + ".raw." + outcome)
		return
	}
	var line string
	var root *lexElem
	var each func(func(string))
	if c == lexXML {
		el, err := lexParseXMLDoc(doc)
		if err != nil {
			lexFail(ctx, "independent XML parse: "+err.Error()+" on "+shortKey(doc))
			return
		}
		root, each = el, el.strings
		line = "lex.xmlr " + hs + " " + lexPrsTable(el.strings) + " " + el.render()
	} else {
		jv, err := lexParseJSONDoc(doc)
		if err != nil {
			lexFail(ctx, "independent JSON parse: "+err.Error()+" on "+shortKey(doc))
			return
		}
		each = jv.strings
		line = "lex.jsonr " + hs + " " + lexPrsTable(jv.strings) + " " + jv.render()
	}
	if len(h.mask) > 0 {
		// The registry model's mask text functions are exact on ASCII input only (Model/Registry.lean): Go's
		// strings.Fields / strings.TrimSpace also split and trim at the non-ASCII white space of unicode.IsSpace.
		// Such documents are outside the modelled domain: impl-only, the oracles below still run.
		outside := false
		each(func(s string) {
			for _, r := range s {
				if r >= 0x80 && unicode.IsSpace(r) {
					outside = true
				}
			}
		})
		if outside {
			line = "#lex." + c.name + "r-nonascii-space " + hs + " " + hexUp(doc)
			ctx.Res.Count("outside-model.unicode-space")
		}
	}
	ctx.current = line
	d := lexDecode(ctx, c, doc, h, line)
	outcome := strings.SplitN(d.ans, " ", 2)[0]
	// C04 speaks of the library's own documents and of conformant documents produced elsewhere (own, hand-written
	// forms); what the readers make of MUTATED documents is C02 business, and C18 business only when accepted
	// (a rejected document is not C18-relevant: a stricter reader leaves every fixed point alone)
	props := "C02"
	if outcome == "ok" && origin == "mutated" {
		props = "C02,C18"
	}
	if outcome == "ok" && origin != "mutated" {
		props = "C04,C18,C02"
	}
	ctx.Add(line, d.ans, true, props)
	ctx.Res.Count("r." + c.name + "." + origin + "." + outcome)
	if outcome == "panic" {
		e.violate(ctx, "C02", "no-panic", c.name+":decode-panic:"+strings.TrimPrefix(d.ans, "panic "), "decoder panicked on "+shortKey(doc), line)
		return
	}
	if d.it == nil {
		return
	}
	show := " doc=" + shortKey(doc)
	// C02: deterministic
	if again := lexDecode(ctx, c, doc, h, line); again.ans != d.ans {
		e.violate(ctx, "C02", "deterministic", c.name+":second-decode-differs", "decoding the same document again gives "+again.ans+show, line)
	}
	pre := c.name + ":"
	if !lexTagsInRange(d.it) {
		pre = c.name + ":tag-out-of-range:"
		ctx.Res.Count("r." + c.name + ".accepted-tag-out-of-range")
	}
	// C18: accepted ⇒ re-encode, decode again, second re-encoding identical
	doc1, p := guard("Marshal", func() []byte { return append([]byte{}, c.marshal(d.val)...) })
	if p != "" {
		e.violate(ctx, "C18", "reencode-total", pre+"accepted-but-unencodable:"+panicKey(p), "an accepted input cannot be re-encoded: "+p+show, line)
	} else {
		if !c.wellFormed(doc1) {
			e.violate(ctx, "C04", "well-formed", pre+"not-well-formed", "independent parser rejects the re-encoding "+shortKey(doc1)+" of"+show, line)
		}
		d2 := lexDecode(ctx, c, doc1, h, line)
		if d2.it == nil {
			e.violate(ctx, "C18", "redecode", pre+"reencoded-not-accepted", fmt.Sprintf("re-encoding %s of an accepted input is rejected: %v %s;%s", shortKey(doc1), d2.err, d2.ans, show), line)
		} else {
			doc2, p2 := guard("Marshal", func() []byte { return c.marshal(d2.val) })
			if p2 != "" || !bytes.Equal(doc1, doc2) {
				e.violate(ctx, "C18", "fixed-point", pre+"second-reencode-differs", "second re-encoding "+shortKey(doc2)+" differs from the first "+shortKey(doc1)+";"+show, line)
			}
		}
	}
	// C18 through binary
	b1, pb := guard("MarshalTTLV", func() []byte { return ttlv.MarshalTTLV(d.val) })
	ckey := c.name + "->ttlv:"
	if pre != c.name+":" {
		ckey = c.name + ":tag-out-of-range->ttlv"
	}
	if pb != "" {
		k := ckey
		if strings.HasSuffix(k, ":") {
			k += "unencodable:" + panicKey(pb)
		}
		e.violate(ctx, "C18", "cross-encoding", k, "accepted "+c.name+" input cannot be encoded in binary: "+pb+show, line)
	} else {
		bans, bit := decodeGeneric(b1)
		if bit == nil || !tree.Equal(bit, d.it) {
			k := ckey
			if strings.HasSuffix(k, ":") {
				if bit == nil {
					k += "not-accepted"
				} else {
					k += "differs"
				}
			}
			e.violate(ctx, "C18", "cross-encoding", k, "binary re-encoding "+shortKey([]byte(hexUp(b1)))+" of "+d.it.Render()+" decodes to "+bans+";"+show, line)
		}
	}
	// C04: nesting
	if root != nil {
		if m := e.nesting(d.it, root); m != "" {
			e.violate(ctx, "C04", "nesting", "xml:children-reparented", m+": decoded "+d.it.Render()+";"+show, line)
		}
		// C02: structure extents, judged by the independent token walk — a decoded structure has exactly the child
		// elements of its own element, none lost to the level above and none taken from it (hostile_extent.go)
		if m := extentChildren(e, d.it, root); m != "" {
			e.violate(ctx, "C02", "structure-extent", "xml:structure-children-mismatch", m+": decoded "+shortKey([]byte(d.it.Render()))+";"+show, line)
		}
	}
}

// ---- generators: annotated nodes, decoration, boundary trees ----------------------------------------------

const (
	lexTagCryptoAlg  = 0x420028
	lexTagUsageMask  = 0x42002C
	lexTagStorage    = 0x42008E
	lexTagAttrValue  = 0x42000B
	lexTagBatchCount = 0x42000D
)

func (e *lexEnv) genEnum(r *rng.R) *lexItem {
	pref := []int{lexTagCryptoAlg, kmip.TagObjectType, kmip.TagOperation, kmip.TagResultStatus, kmip.TagState}
	var et int
	switch r.Intn(6) {
	case 0:
		et = rng.Pick(r, e.enumTags)
	case 1:
		et = rng.Pick(r, []int{kmip.TagAttribute, 0x540007, kmip.TagDerivationMethod}) // no enumeration table
	default:
		et = rng.Pick(r, pref)
	}
	x := &lexItem{kind: tree.KEnum}
	switch r.Intn(4) {
	case 0:
		x.tag, x.ann = et, 0
	case 1:
		x.tag, x.ann = et, et
	default:
		x.tag, x.ann = rng.Pick(r, []int{lexTagAttrValue, 0x540002, lexTagBatchCount, lexTagCryptoAlg, kmip.TagState}), et
	}
	vals := e.enumVals[et]
	switch r.Intn(7) {
	case 0:
		x.i = int64(rng.Pick(r, []uint32{0, 0x80000000, 0xFFFFFFFF, 0x7FFFFFFF}))
	case 1:
		x.i = int64(uint32(r.U64()))
	case 2:
		if len(vals) > 0 {
			x.i = int64(vals[len(vals)-1]) + 1
		}
	default:
		if len(vals) > 0 {
			x.i = int64(rng.Pick(r, vals))
		} else {
			x.i = int64(r.Intn(10))
		}
	}
	return x
}

func (e *lexEnv) genMask(r *rng.R) *lexItem {
	var mt int
	switch r.Intn(5) {
	case 0:
		mt = rng.Pick(r, []int{lexTagAttrValue, 0x540003, kmip.TagAttribute}) // no mask table
	case 1:
		mt = lexTagStorage
	default:
		mt = lexTagUsageMask
	}
	x := &lexItem{kind: tree.KInt, mask: true}
	switch r.Intn(4) {
	case 0:
		x.tag, x.ann = mt, 0
	case 1:
		x.tag, x.ann = mt, mt
	default:
		x.tag, x.ann = rng.Pick(r, []int{lexTagAttrValue, 0x540004, lexTagBatchCount, lexTagUsageMask}), mt
	}
	n := len(e.maskNames[mt])
	var v uint32
	switch r.Intn(8) {
	case 0:
		v = 0
	case 1:
		v = 1 << uint(r.Intn(32))
	case 2:
		if n > 0 && n < 32 {
			v = 1<<uint(n) - 1 // all named bits
		} else {
			v = 0xFFFFFFFF
		}
	case 3:
		v = rng.Pick(r, []uint32{0x80000000, 0xFFFFFFFF, 0x7FFFFFFF, 0x80000001, 0x00100000, 0x000FFFFF, 0x001FFFFF})
	case 4:
		v = uint32(r.U64()) // named and unnamed bits mixed
	default:
		if n > 0 && n < 32 {
			v = uint32(r.U64()) & (1<<uint(n) - 1)
		} else {
			v = uint32(r.U64()) & 0xFF
		}
	}
	x.i = int64(int32(v))
	return x
}

func (e *lexEnv) genAnn(r *rng.R) *lexItem {
	if r.Bool() {
		return e.genEnum(r)
	}
	return e.genMask(r)
}

// decorate inserts annotated nodes into structures and annotates existing enumeration / integer nodes.
func (e *lexEnv) decorate(r *rng.R, x *lexItem) {
	x.walk(func(n *lexItem) {
		switch n.kind {
		case tree.KStruct:
			if r.Chance(1, 2) {
				for k := 1 + r.Intn(2); k > 0; k-- {
					pos := r.Intn(len(n.children) + 1)
					c := e.genAnn(r)
					n.children = append(n.children[:pos], append([]*lexItem{c}, n.children[pos:]...)...)
				}
			}
		case tree.KEnum:
			if n.ann == 0 && r.Chance(1, 4) {
				n.ann = rng.Pick(r, []int{lexTagCryptoAlg, kmip.TagObjectType, n.tag, 0x540007})
				if vals := e.enumVals[n.ann]; len(vals) > 0 && r.Bool() {
					n.i = int64(rng.Pick(r, vals))
				}
			}
		case tree.KInt:
			if !n.mask && r.Chance(1, 6) {
				n.mask, n.ann = true, rng.Pick(r, []int{lexTagUsageMask, lexTagStorage, 0, 0x540003})
			}
		}
	})
}

type lexTree struct {
	x        *lexItem
	xmlOK    bool // text representable in XML
	inScope  bool // hypotheses of C04 hold
	boundary bool
}

func lexPow2(n uint, d int64) *big.Int {
	return new(big.Int).Add(new(big.Int).Lsh(big.NewInt(1), n), big.NewInt(d))
}

// boundaryTrees: every scalar kind at its boundaries, under named and unnamed tags, alone and in a structure.
func (e *lexEnv) boundaryTrees() []lexTree {
	var items []lexTree
	k := 0
	tagFor := func() int {
		k++
		return []int{lexTagBatchCount, 0x540001, 0x420094, 0x000001, 0xFFFFFF}[k%5]
	}
	add := func(x *lexItem, xmlOK, inScope bool) {
		items = append(items, lexTree{x, xmlOK, inScope, true})
	}
	for _, v := range []int64{0, 1, -1, 127, 128, -128, -129, 255, 256, 65535, 65536, math.MaxInt32, math.MinInt32, math.MaxInt32 - 1, math.MinInt32 + 1} {
		add(&lexItem{kind: tree.KInt, tag: tagFor(), i: v}, true, true)
	}
	p52 := int64(1) << 52
	for _, v := range []int64{0, 1, -1, 255, 256, math.MaxInt32, math.MaxInt32 + 1, math.MinInt32, math.MinInt32 - 1, 1 << 32, p52, -p52, p52 - 1, p52 + 1, -p52 + 1, -p52 - 1, 1 << 53, 1<<53 + 1, -(1 << 53), math.MaxInt64, math.MinInt64, math.MaxInt64 - 1, math.MinInt64 + 1, 253402300799} {
		add(&lexItem{kind: tree.KLong, tag: tagFor(), i: v}, true, true)
	}
	bigs := []*big.Int{}
	for _, v := range []int64{0, 1, -1, 127, 128, -127, -128, -129, 255, 256, -255, -256, -257, 32767, 32768, -32768, -32769, p52 - 1, p52, p52 + 1, -p52 + 1, -p52, -p52 - 1, math.MaxInt64, math.MinInt64} {
		bigs = append(bigs, big.NewInt(v))
	}
	for _, n := range []uint{55, 56, 63, 64, 71, 72, 127, 128, 4095, 4096} {
		for _, d := range []int64{-1, 0, 1} {
			bigs = append(bigs, lexPow2(n, d), new(big.Int).Neg(lexPow2(n, d)))
		}
	}
	for _, v := range bigs {
		add(&lexItem{kind: tree.KBig, tag: tagFor(), big: v}, true, true)
	}
	for _, v := range []int64{0, 1, 59, 60, 1 << 31, 1<<31 - 1, 1<<32 - 1, 1<<32 - 2} {
		add(&lexItem{kind: tree.KInterval, tag: tagFor(), i: v}, true, true)
	}
	for _, v := range []int64{0, 1, 2, 0x7FFFFFFF, 0x80000000, 0xFFFFFFFF} {
		add(&lexItem{kind: tree.KEnum, tag: tagFor(), i: v}, true, true)
	}
	// enumerations and masks: registered / unregistered tags and values, tag == enumtag, tag != enumtag, enumtag 0 / -1
	for _, et := range []int{lexTagCryptoAlg, kmip.TagObjectType, kmip.TagOperation, kmip.TagResultStatus, kmip.TagState, kmip.TagDerivationMethod, 0x540007} {
		vals := []int64{0, 0x80000000, 0xFFFFFFFF}
		if rv := e.enumVals[et]; len(rv) > 0 {
			vals = append(vals, int64(rv[0]), int64(rv[len(rv)-1]), int64(rv[len(rv)-1])+1, int64(rv[len(rv)/2]))
		}
		for _, v := range vals {
			add(&lexItem{kind: tree.KEnum, tag: et, ann: 0, i: v}, true, true)
			add(&lexItem{kind: tree.KEnum, tag: et, ann: et, i: v}, true, true)
			add(&lexItem{kind: tree.KEnum, tag: et, ann: -1, i: v}, true, true)
			add(&lexItem{kind: tree.KEnum, tag: lexTagAttrValue, ann: et, i: v}, true, true)
			add(&lexItem{kind: tree.KEnum, tag: 0x540002, ann: et, i: v}, true, true)
			add(&lexItem{kind: tree.KEnum, tag: kmip.TagState, ann: et, i: v}, true, true)
		}
	}
	for _, mt := range []int{lexTagUsageMask, lexTagStorage, lexTagAttrValue, 0x540003} {
		n := len(e.maskNames[mt])
		vals := []uint32{0, 1, 2, 3, 5, 0x80000000, 0xFFFFFFFF, 0x7FFFFFFF, 0x80000001, 0x00080000, 0x00100000, 0x00180001}
		if n > 0 && n < 32 {
			vals = append(vals, 1<<uint(n)-1, 1<<uint(n), 1<<uint(n-1), 1<<uint(n)|1)
		}
		for _, v := range vals {
			sv := int64(int32(v))
			add(&lexItem{kind: tree.KInt, mask: true, tag: mt, ann: 0, i: sv}, true, true)
			add(&lexItem{kind: tree.KInt, mask: true, tag: mt, ann: mt, i: sv}, true, true)
			add(&lexItem{kind: tree.KInt, mask: true, tag: mt, ann: -1, i: sv}, true, true)
			add(&lexItem{kind: tree.KInt, mask: true, tag: lexTagAttrValue, ann: mt, i: sv}, true, true)
			add(&lexItem{kind: tree.KInt, mask: true, tag: 0x540004, ann: mt, i: sv}, true, true)
		}
	}
	add(&lexItem{kind: tree.KBool, tag: tagFor(), b: true}, true, true)
	add(&lexItem{kind: tree.KBool, tag: tagFor(), b: false}, true, true)
	for _, v := range []int64{-62135596800, -62135596799, -1, 0, 1, 951782400, 1709251199, 4102444800, 253402300798, 253402300799} {
		add(&lexItem{kind: tree.KDate, tag: tagFor(), i: v}, true, true)
	}
	for _, v := range []int64{-62135596801, 253402300800, -62167219200, math.MaxInt32 * 1000000} { // outside years 1..9999: correspondence only
		add(&lexItem{kind: tree.KDate, tag: tagFor(), i: v}, true, false)
	}
	for _, n := range []int{0, 1, 7, 8, 9, 16, 255, 256, 1000} {
		b := make([]byte, n)
		for i := range b {
			b[i] = byte(i*37 + n)
		}
		add(&lexItem{kind: tree.KBytes, tag: tagFor(), data: b}, true, true)
	}
	add(&lexItem{kind: tree.KBytes, tag: tagFor(), data: []byte{0xAB, 0xCD, 0xEF, 0x00, 0xFF}}, true, true)
	for _, s := range []string{"", "a", "<", ">", "&", `"`, "'", `<>&"'`, "&amp;", "&#65;", "]]>", "<!--x-->", "é", "ß€漢😀", " ", " lead", "trail ", "a  b", "tab\there", "line\nfeed", "cr\rlf\r\n", `back\slash`, `A`, "/", strings.Repeat("x", 300), strings.Repeat("é<", 100), "�", "  ", "0x10", "true", "null"} {
		add(&lexItem{kind: tree.KText, tag: tagFor(), data: []byte(s)}, true, true)
	}
	for _, s := range []string{"\x00", "\x01\x02\x1f", "\x7f", "a\x00b", "\x08\x0c\x0b", "\ufffe\uffff"} { // JSON-representable only
		add(&lexItem{kind: tree.KText, tag: tagFor(), data: []byte(s)}, false, true)
	}
	// every rune of the alphabets alone and between letters (a fast path that copies "harmless" strings is wrong for
	// exactly one of them)
	for _, c := range lexRunesXML {
		add(&lexItem{kind: tree.KText, tag: tagFor(), data: []byte(string(c))}, true, true)
		add(&lexItem{kind: tree.KText, tag: tagFor(), data: []byte("a" + string(c) + "b")}, true, true)
	}
	for _, c := range lexRunesJSONOnly {
		add(&lexItem{kind: tree.KText, tag: tagFor(), data: []byte(string(c))}, false, true)
		add(&lexItem{kind: tree.KText, tag: tagFor(), data: []byte("a" + string(c) + "b")}, false, true)
	}
	// tags: unnamed, named, the edges of 24 bits; outside 1..2^24-1 (correspondence only)
	for _, t := range []int{1, 0x420000, 0x420001, 0x420078, 0x42FFFF, 0x540000, 0x54FFFF, 0xFFFFFE, 0xFFFFFF, 0x0000FF} {
		add(&lexItem{kind: tree.KInt, tag: t, i: 7}, true, true)
		add(&lexItem{kind: tree.KStruct, tag: t}, true, true)
	}
	for _, t := range []int{0, -1, 0x1000000, 0x7FFFFFFF, -0x420078, math.MinInt32, 1 << 40} {
		add(&lexItem{kind: tree.KInt, tag: t, i: 7}, true, false)
		add(&lexItem{kind: tree.KStruct, tag: t, children: []*lexItem{{kind: tree.KBool, tag: t, b: true}}}, true, false)
	}
	// structures
	add(&lexItem{kind: tree.KStruct, tag: 0x420078}, true, true)
	add(&lexItem{kind: tree.KStruct, tag: 0x540001, children: []*lexItem{{kind: tree.KStruct, tag: 0x540002, children: []*lexItem{{kind: tree.KStruct, tag: 0x420077}}}}}, true, true)
	// every in-scope XML-representable boundary scalar in one structure, and in chunks of eight
	var all, chunk []*lexItem
	out := append([]lexTree{}, items...)
	for _, it := range items {
		if !it.xmlOK || !it.inScope || it.x.kind == tree.KStruct {
			continue
		}
		all = append(all, it.x)
		chunk = append(chunk, it.x)
		if len(chunk) == 8 {
			s := &lexItem{kind: tree.KStruct, tag: 0x420078, children: chunk}
			out = append(out, lexTree{s, true, true, true})
			chunk = nil
		}
	}
	out = append(out, lexTree{&lexItem{kind: tree.KStruct, tag: 0x420078, children: all}, true, true, true})
	return out
}

// ---- hand-enumerated alternative lexical forms (reader side) ----------------------------------------------

type lexDoc struct {
	c   *lexCodec
	doc string
	h   lexHints
}

var lexTypeNames = []string{"Structure", "Integer", "LongInteger", "BigInteger", "Enumeration", "Boolean", "TextString", "ByteString", "DateTime", "Interval"}

var lexIntTexts = []string{
	"0", "1", "-1", "5", "+5", "-0", "+0", " 5", "5 ", "", "1_0", "0x10", "0X10", "0x1_0", "0xFFFFFFFF", "0x1FFFFFFFF", "0x100000000",
	"0x7FFFFFFF", "0x80000000", "0x00000000FFFFFFFF", "2147483647", "2147483648", "-2147483648", "-2147483649", "4294967295",
	"4294967296", "0x", "0x-1", "0x+1", "0x 1", "00012", "-00012", "1e3", "1.5", "0xabc", "0xABCDEF", "0xg", "9223372036854775807",
	"9223372036854775808", "-9223372036854775808", "-9223372036854775809", "0xFFFFFFFFFFFFFFFF", "0x8000000000000000",
	"0x7FFFFFFFFFFFFFFF", "0x10000000000000000", "0x0000000000000001", "0x00000000000000001", "0x1", "18446744073709551615",
	"18446744073709551616", "٣", "１", "0b1", "0o7", "Sign", "AES", "true", "0x0", "0x00", "00", "FF",
}

var lexJSONRaw = []string{
	"0", "1", "-1", "-0", "5", "2147483647", "2147483648", "-2147483648", "-2147483649", "4294967295", "4294967296", "4503599627370495",
	"4503599627370496", "-4503599627370496", "9007199254740993", "9223372036854775807", "9223372036854775808", "-9223372036854775808",
	"-9223372036854775809", "18446744073709551616", "1.5", "1e3", "1E3", "1.0", "0.0", "-0.0", "1e-3", "0e0",
	"123456789012345678901234567890", "null", "true", "false", "[]", "{}", "[1]", `{"value":1}`,
}

var lexDateTexts = []string{
	"2024-01-01T00:00:00Z", "2024-01-01T00:00:00+02:00", "2024-01-01T00:00:00-07:00", "2024-01-01T00:00:00.5Z",
	"2024-01-01T00:00:00.123456789-07:00", "2024-01-01T00:00:00,5Z", "2024-01-01t00:00:00z", "2024-01-01 00:00:00Z",
	"0000-01-01T00:00:00Z", "0000-01-01T00:00:00+01:00", "0000-01-01T00:00:00-01:00", "0000-12-31T23:59:59Z", "0001-01-01T00:00:00Z", "0001-01-01T00:00:00+01:00", "9999-12-31T23:59:59Z", "9999-12-31T23:59:59-01:00",
	"9999-12-31T23:59:59.999999999Z", "10000-01-01T00:00:00Z", "-001-01-01T00:00:00Z", "2024-02-29T12:00:00Z", "2023-02-29T12:00:00Z",
	"2024-02-30T00:00:00Z", "2024-01-01T24:00:00Z", "2016-12-31T23:59:60Z", "", "2024-01-01", "2024-01-01T00:00:00", "2024-01-01T00:00:00+0200",
	"2024-01-01T00:00:00Z ", " 2024-01-01T00:00:00Z", "+2024-01-01T00:00:00Z", "2024-1-1T00:00:00Z", "2024-01-01T0:00:00Z",
	"2024-01-01T00:00:00+24:00", "2024-01-01T00:00:00+23:59", "2024-01-01T00:00:00-00:00", "1970-01-01T00:00:00Z", "1969-12-31T23:59:59Z",
	"Mon, 02 Jan 2006 15:04:05 MST", "1700000000",
}

func (e *lexEnv) handDocs() []lexDoc {
	var docs []lexDoc
	none := lexNewHints()
	addX := func(doc string, h lexHints) { docs = append(docs, lexDoc{lexXML, doc, h}) }
	addJ := func(doc string, h lexHints) { docs = append(docs, lexDoc{lexJSON, doc, h}) }
	hE := func(tag, et int) lexHints { h := lexNewHints(); h.enum[tag] = et; return h }
	hM := func(tag, mt int) lexHints { h := lexNewHints(); h.mask[tag] = mt; return h }
	xmlEl := func(tag, typ string, val *string) string {
		var sb strings.Builder
		if strings.HasPrefix(tag, "0x") {
			sb.WriteString(`<TTLV tag="` + tag + `"`)
		} else {
			sb.WriteString("<" + tag)
		}
		if typ != "" {
			sb.WriteString(` type="` + typ + `"`)
		}
		if val != nil {
			sb.WriteString(` value="` + xmlAttrEscape(*val) + `"`)
		}
		sb.WriteString("/>")
		return sb.String()
	}
	jsonEl := func(tag, typ, raw string) string {
		s := `{"tag":` + jsonString(tag)
		if typ != "" {
			s += `,"type":` + jsonString(typ)
		}
		return s + `,"value":` + raw + `}`
	}
	// both codecs: a scalar alone, and as the middle child of a structure
	scalar := func(tag, typ, val string, h lexHints) {
		el := xmlEl(tag, typ, &val)
		addX(el, h)
		addX(`<RequestMessage><BatchCount type="Integer" value="1"/>`+el+`<BatchCount type="Integer" value="2"/></RequestMessage>`, h)
		js := jsonEl(tag, typ, jsonString(val))
		addJ(js, h)
		addJ(`{"tag":"RequestMessage","value":[{"tag":"BatchCount","type":"Integer","value":1},`+js+`,{"tag":"BatchCount","type":"Integer","value":2}]}`, h)
	}
	jraw := func(tag, typ, raw string, h lexHints) {
		js := jsonEl(tag, typ, raw)
		addJ(js, h)
		addJ(`{"tag":"RequestMessage","value":[`+js+`,{"tag":"BatchCount","type":"Integer","value":2}]}`, h)
	}
	long := strings.Repeat("0123456789ABCDEF", 40)
	bools := []string{"1", "t", "T", "TRUE", "true", "True", "0", "f", "F", "FALSE", "false", "False", "yes", "no", "tRUE", " true", "true ", "0x1", "0x0", "0x", "2", "-1", "on"}
	bytesT := []string{"00", "AB", "ab", "aB", "ABC", "0", "GG", " 00", "00 ", "00 11", long, strings.ToLower(long), "0001020304050607", "000102030405060708"}
	bigT := []string{"00", "FF", "0080", "FF7F", "7F", "80", "0000000000000000", "FFFFFFFFFFFFFFFF", "ffff", "0", "-1", "00000000000000000000000000000001",
		strings.Repeat("FF", 17), "8000000000000000", "0100", "00FFFFFFFFFFFFFFFF", "FF0000000000000000", "7FFFFFFFFFFFFFFF", "0010000000000000", "000FFFFFFFFFFFFF", long, "F" + long}
	for i, typ := range lexTypeNames[1:] {
		vals := append([]string{}, lexIntTexts...)
		switch typ {
		case "Boolean":
			vals = append(vals, bools...)
		case "ByteString", "TextString":
			vals = append(vals, bytesT...)
			vals = append(vals, "<&>\"'", "é漢😀")
		case "BigInteger":
			vals = append(vals, bigT...)
			for _, b := range bigT {
				vals = append(vals, "0x"+b)
			}
			vals = append(vals, "0X00", "0xABC")
		case "DateTime":
			vals = append(vals, lexDateTexts...)
			lim := uint64(math.MaxInt64) - 62135596800 + 1 // time.Unix overflows its internal seconds from here on
			for _, v := range []uint64{0, 1, 0x3AFFF4417F, 0x3AFFF44180, math.MaxInt64, 1 << 63, math.MaxUint64, lim, lim - 1, lim + 1, lim + 86400*366, math.MaxInt64 - 1, 1 << 62, 1 << 40} {
				vals = append(vals, fmt.Sprintf("0x%X", v), fmt.Sprintf("0x%016x", v))
			}
			vals = append(vals, "0X0", "0x00000000000000000")
		case "Enumeration":
			vals = append(vals, "Foo", "aes", "Aes", "3", "0x00000003", "0x3", "0X3", "Success", "Active")
			vals = append(vals, e.enumNames[lexTagCryptoAlg][0], e.enumNames[lexTagCryptoAlg][len(e.enumNames[lexTagCryptoAlg])-1], strings.ToLower(e.enumNames[lexTagCryptoAlg][1]))
		}
		for k, v := range vals {
			tag := "BatchCount"
			if (k+i)%3 == 0 {
				tag = "0x540001"
			}
			if typ == "Enumeration" {
				tag = []string{"CryptographicAlgorithm", "AttributeValue", "0x540001"}[k%3]
				scalar("CryptographicAlgorithm", typ, v, none)
				scalar("AttributeValue", typ, v, hE(lexTagAttrValue, lexTagCryptoAlg))
				scalar("State", typ, v, hE(kmip.TagState, lexTagCryptoAlg))
				scalar("0x540001", typ, v, hE(0x540001, kmip.TagResultStatus))
				scalar("CryptographicAlgorithm", typ, v, hE(lexTagCryptoAlg, -1))
			}
			scalar(tag, typ, v, none)
		}
		for _, raw := range lexJSONRaw {
			jraw("BatchCount", typ, raw, none)
			if typ == "Enumeration" {
				jraw("AttributeValue", typ, raw, hE(lexTagAttrValue, lexTagCryptoAlg))
			}
			if typ == "Integer" {
				jraw("CryptographicUsageMask", typ, raw, hM(lexTagUsageMask, 0))
			}
		}
	}
	// masks: names / hex / decimal mixed, separators, unknown names
	maskX := []string{"Sign", "Sign Verify", "Sign  Verify", " Sign", "Sign ", "Sign\tVerify", "Sign\nVerify", "Sign|Verify", "Sign | Verify", "0x00000001", "0x1 Verify", "1 2", "Sign 2", "3",
		"-1", "Foo", "sign", "0x80000000", "0xFFFFFFFF", "0x100000000", "2147483648", "2147483647", "-2147483648", "-2147483649", "", " ", "  ", "Sign Sign", "OnLineStorage", "ArchivalStorage OnLineStorage",
		"0X1", "0x", "Sign Foo", "Foo Sign", "TranslateUnwrap", "0x00080000", "0x00100000", "TranslateUnwrap 0x00100000 0x80000000", "1048576", "Sign,Verify", "Sign\u00a0Verify", "Sign\u0085Verify", "Sign\u2003Verify", "Sign\u3000Verify", "\u00a0Sign", "Sign\u200bVerify", "Sign\u2028Verify", "+1", "0x-1", "Sign 0x", "4294967295"}
	maskJ := []string{"Sign|Verify", "Sign | Verify", "|Sign", "Sign|", "Sign||Verify", "|", " | ", "||", "Sign Verify", "0x00000001|Verify", "1|2", "Sign|2", " Sign |\tVerify\n", "Sign|Foo", "0x80000000|Sign", "Sign|0x100000000", "-1|Sign", "Sign| |Verify", "Sign|\u00a0Verify", "\u3000Sign\u0085|Verify", "Sign|\u00a0", "Sign\u00a0|\u2003|Verify", "Sign|\u200bVerify"}
	type mh struct {
		tag string
		h   lexHints
	}
	for _, m := range []mh{
		{"CryptographicUsageMask", hM(lexTagUsageMask, 0)}, {"CryptographicUsageMask", hM(lexTagUsageMask, lexTagUsageMask)}, {"CryptographicUsageMask", none},
		{"AttributeValue", hM(lexTagAttrValue, lexTagUsageMask)}, {"StorageStatusMask", hM(lexTagStorage, 0)}, {"0x540004", hM(0x540004, lexTagStorage)},
		{"BatchCount", hM(lexTagBatchCount, 0)}, {"CryptographicUsageMask", hM(lexTagUsageMask, -5)}, {"CryptographicUsageMask", hM(lexTagUsageMask, lexTagStorage)},
	} {
		for _, v := range append(append([]string{}, maskX...), maskJ...) {
			scalar(m.tag, "Integer", v, m.h)
		}
		for _, raw := range []string{"0", "3", "-1", "2147483647", "2147483648", "-2147483648", "-2147483649", "1.5", "1e3", "null", "true", "[]"} {
			jraw(m.tag, "Integer", raw, m.h)
		}
	}
	// text as another producer may escape it: JSON \u escapes incl. surrogate pairs (valid, unpaired, reversed), the
	// short escapes, escaped line separators; XML character references and attribute-value normalisation
	for _, raw := range []string{`"\u0041"`, `"\ud83d\ude00"`, `"\uD83D\uDE00"`, `"\ud800"`, `"\udc00\ud800"`, `"\ud83dx"`, `"x\ude00"`, `"\u2028\u2029"`, `"\u0000"`, `"\u001f\u007f\u0080\u0085"`, `"\/"`,
		`"\b\f\n\r\t"`, `"\"\\"`, `"\ufffe\uffff\ufffd"`, `"\\u0041"`, `"\u00e9\u00E9é"`, `"\ud7ff\ue000"`, `"\udbff\udfff"`} {
		jraw("0x540001", "TextString", raw, none)
		jraw("UniqueIdentifier", "TextString", raw, none)
	}
	jraw("CryptographicAlgorithm", "Enumeration", `"\u0041ES"`, none)
	jraw("CryptographicUsageMask", "Integer", `"Sign\u007cVerify"`, hM(lexTagUsageMask, 0))
	jraw("0x540001", "ByteString", `"\u0041B"`, none)
	for _, v := range []string{`&#x1F600;`, `&#128512;`, `&#xD;&#xA;&#x9;`, "a\nb\tc\r\nd", `&#x7F;&#x85;&#x2028;&#xFFFD;`, `&lt;&gt;&amp;&quot;&apos;`, `&#x41;ES`, `&#65;&#x42;`, `&#xD7FF;&#xE000;&#x10FFFF;`, `&amp;amp;`, `&#38;lt;`} {
		addX(`<TTLV tag="0x540001" type="TextString" value="`+v+`"/>`, none)
		addX(`<RequestMessage><UniqueIdentifier type="TextString" value="`+v+`"/><BatchCount type="Integer" value="2"/></RequestMessage>`, none)
	}
	addX(`<CryptographicAlgorithm type="Enumeration" value="&#x41;ES"/>`, none)
	addX(`<TTLV tag="0x540001" type="ByteString" value="&#x41;B"/>`, none)
	// ---- element structure: XML -------------------------------------------------------------------------
	iv := `type="Integer" value="1"`
	for _, d := range []string{
		`<Foo ` + iv + `/>`, `<Foo/>`, `<Foo><BatchCount ` + iv + `/></Foo>`, `<TTLV ` + iv + `/>`, `<TTLV/>`, `<TTLV tag="" ` + iv + `/>`,
		`<TTLV tag="BatchCount" ` + iv + `/>`, `<TTLV tag="Foo" ` + iv + `/>`, `<TTLV tag="TTLV" ` + iv + `/>`, `<TTLV tag="0x42000D" ` + iv + `/>`, `<TTLV tag="0x42000d" ` + iv + `/>`,
		`<TTLV tag="0x540001" ` + iv + `/>`, `<TTLV tag="0x-1" ` + iv + `/>`, `<TTLV tag="0x7FFFFFFF" ` + iv + `/>`, `<TTLV tag="0x1000000" ` + iv + `/>`, `<TTLV tag="0x80000000" ` + iv + `/>`,
		`<TTLV tag="0x" ` + iv + `/>`, `<TTLV tag="0xabcdef" ` + iv + `/>`, `<TTLV tag="0X42000D" ` + iv + `/>`, `<TTLV tag="4325389" ` + iv + `/>`, `<TTLV tag="0x42000D " ` + iv + `/>`,
		`<TTLV tag=" 0x42000D" ` + iv + `/>`, `<TTLV tag="0x0" ` + iv + `/>`, `<TTLV tag="0x000000" ` + iv + `/>`, `<TTLV tag="0x+1" ` + iv + `/>`, `<TTLV tag="0x-80000000" ` + iv + `/>`,
		`<TTLV tag="0x-80000001" ` + iv + `/>`, `<TTLV tag="0xFFFFFFFFFFFFFFFF" ` + iv + `/>`, `<TTLV tag="0x00000000042000D" ` + iv + `/>`, `<TTLV tag="0x4_2" ` + iv + `/>`, `<TTLV tag="0x1" ` + iv + `/>`,
		`<TTLV tag="0xFFFFFF" ` + iv + `/>`, `<TTLV ` + iv + ` tag="0x42000D"/>`, `<TTLV tag="0x42000D" tag="0x42000F" ` + iv + `/>`, `<TTLV tag="Foo" tag="0x42000F" ` + iv + `/>`,
		`<BatchCount tag="0x42000F" ` + iv + `/>`, `<batchcount ` + iv + `/>`, `<BATCHCOUNT ` + iv + `/>`, `<ttlv tag="0x42000D" ` + iv + `/>`,
		// type / value attributes
		`<BatchCount value="1"/>`, `<BatchCount type="Integer"/>`, `<BatchCount/>`, `<BatchCount type="Integer" type="TextString" value="1"/>`, `<BatchCount type="TextString" type="Integer" value="1"/>`,
		`<BatchCount type="Integer" value="1" value="2"/>`, `<BatchCount type="Integer" value="x" value="2"/>`, `<BatchCount value="1" type="Integer"/>`, `<BatchCount type="integer" value="1"/>`,
		`<BatchCount type="INTEGER" value="1"/>`, `<BatchCount type="" value="1"/>`, `<BatchCount type=" Integer" value="1"/>`, `<BatchCount type="Foo" value="1"/>`, `<BatchCount type="Int" value="1"/>`,
		`<BatchCount type="Unknown(FF)" value="1"/>`, `<BatchCount type="2" value="1"/>`, `<BatchCount type="0x02" value="1"/>`, `<BatchCount type="Long Integer" value="1"/>`, `<BatchCount type="Date-Time" value="1"/>`,
		`<BatchCount TYPE="Integer" VALUE="1"/>`, `<BatchCount Type="Integer" Value="1"/>`, `<BatchCount x:type="Integer" x:value="1"/>`, `<x:BatchCount type="Integer" value="1"/>`,
		`<BatchCount xmlns="urn:x" type="Integer" value="1"/>`, `<BatchCount type='Integer' value='1'/>`, `<BatchCount type="Integer" value="&#49;"/>`, `<BatchCount type="Integer" value="1" extra="y"/>`,
		`<?xml version="1.0" encoding="UTF-8"?><BatchCount type="Integer" value="1"/>`, `<!-- c --><BatchCount type="Integer" value="1"/><!-- d -->`, "\n  <BatchCount type=\"Integer\" value=\"1\"/>\n",
		`<BatchCount type="Integer" value="1"></BatchCount>`, `<BatchCount type="Integer" value="1">text</BatchCount>`, `<BatchCount type="Integer" value="1"><![CDATA[x]]></BatchCount>`,
		// explicit structure type, types on elements with children, scalars with children, structures with value
		`<RequestMessage type="Structure"/>`, `<RequestMessage type="Structure"></RequestMessage>`, `<RequestMessage type="Structure"><BatchCount ` + iv + `/></RequestMessage>`,
		`<RequestMessage type="Structure" value="1"><BatchCount ` + iv + `/></RequestMessage>`, `<RequestMessage value="1"/>`, `<RequestMessage value="1"><BatchCount ` + iv + `/></RequestMessage>`,
		`<RequestMessage type="Integer" value="1"><BatchCount ` + iv + `/></RequestMessage>`, `<RequestMessage type="Integer"><BatchCount ` + iv + `/></RequestMessage>`,
		`<RequestMessage type="TextString" value="a"><BatchCount ` + iv + `/><Foo><Bar/></Foo></RequestMessage>`, `<RequestMessage type="Foo"><BatchCount ` + iv + `/></RequestMessage>`,
		`<RequestMessage><BatchCount ` + iv + `><Foo/><BatchItem><BatchCount type="Integer" value="9"/></BatchItem></BatchCount><BatchCount type="Integer" value="2"/></RequestMessage>`,
		`<RequestMessage><BatchCount type="Structure" value="1"/><BatchCount type="Integer" value="2"/></RequestMessage>`,
		`<RequestMessage><BatchCount type="Foo" value="1"/><BatchCount type="Integer" value="2"/></RequestMessage>`,
		`<RequestMessage><BatchCount type="Integer" value="x"/><BatchCount type="Integer" value="2"/></RequestMessage>`,
		`<RequestMessage>text<BatchCount ` + iv + `/>more<!-- c --><BatchCount type="Integer" value="2"/><?pi x?></RequestMessage>`,
		`<RequestMessage><RequestMessage><RequestMessage><RequestMessage/></RequestMessage></RequestMessage></RequestMessage>`,
		`<RequestMessage><TTLV tag="0x540001"><TTLV tag="0x540002" ` + iv + `/></TTLV><TTLV tag="BatchCount" ` + iv + `/></RequestMessage>`,
		`<RequestMessage><TTLV tag="0x-1" ` + iv + `/><TTLV tag="0x7FFFFFFF" ` + iv + `/><TTLV tag="0x1000000" ` + iv + `/></RequestMessage>`,
		`<RequestMessage><TTLV tag="0x0" ` + iv + `/><BatchCount ` + iv + `/></RequestMessage>`,
		`<TTLV tag="0x-1"><TTLV tag="0x-2" type="Boolean" value="true"/></TTLV>`,
		`<Foo><BatchCount ` + iv + `/><BatchCount type="Integer" value="2"/></Foo>`,
	} {
		addX(d, none)
	}
	// extra / unknown children before, between and after known ones; unread STRUCTURE children at several depths
	a := `<BatchCount type="Integer" value="1"/>`
	b := `<MaximumResponseSize type="Integer" value="2"/>`
	unread := []string{
		`<Foo/>`, `<Foo></Foo>`, `<Foo><Bar/></Foo>`, `<Foo><X type="Integer" value="1"/></Foo>`, `<Foo><Bar><X type="Integer" value="1"/></Bar></Foo>`,
		`<Foo type="Integer" value="1"/>`, `<Foo type="Integer" value="1"><Bar/></Foo>`, `<Foo type="Structure"><X type="Integer" value="1"/></Foo>`, `<TTLV><X type="Integer" value="1"/></TTLV>`,
		`<Foo value="3"/>`, `<Foo type="Bar"/>`, `<Foo><BatchCount type="Integer" value="7"/></Foo>`, `<Foo><Bar/><Baz/></Foo>`, `<Foo><Bar><Baz/></Bar></Foo>`,
		`<TTLV tag="0x0"><BatchCount type="Integer" value="7"/></TTLV>`, `<Foo/><Foo/>`, `<Foo/><Bar><X type="Integer" value="1"/></Bar>`,
	}
	wrappers := []string{"RequestHeader", "BatchItem", "RequestPayload", "TemplateAttribute", "Attribute"}
	siblings := []string{`<MaximumItems type="Integer" value="3"/>`, `<IterationCount type="Integer" value="4"/>`, `<UniqueIdentifier type="TextString" value="id"/>`, `<BatchCount type="Integer" value="5"/>`, `<RequestPayload/>`}
	for _, u := range unread {
		for _, inner := range []string{u, u + a, a + u, a + u + b, u + a + b, a + b + u} {
			for depth := 0; depth <= 3; depth++ {
				d := inner
				for k := 0; k < depth; k++ {
					d = "<" + wrappers[k] + ">" + d + "</" + wrappers[k] + ">" + siblings[k]
				}
				addX("<RequestMessage>"+d+"</RequestMessage>", none)
				if depth == 2 {
					// siblings BEFORE the wrapper as well
					addX("<RequestMessage>"+a+"<RequestHeader>"+inner+"</RequestHeader>"+b+"<BatchItem>"+a+"</BatchItem></RequestMessage>", none)
				}
			}
		}
	}
	// ---- element structure: JSON ------------------------------------------------------------------------
	ji := `"type":"Integer","value":1`
	jc := `{"tag":"BatchCount","type":"Integer","value":1}`
	jd := `{"tag":"MaximumResponseSize","type":"Integer","value":2}`
	for _, d := range []string{
		`{"tag":"RequestMessage","value":[]}`, `{"tag":"RequestMessage","type":"Structure","value":[]}`, `{"tag":"RequestMessage","type":"","value":[]}`, `{"tag":"RequestMessage","type":5,"value":[]}`,
		`{"tag":"RequestMessage","type":null,"value":[]}`, `{"tag":"RequestMessage","type":"structure","value":[]}`, `{"tag":"RequestMessage","type":"Foo","value":[]}`, `{"tag":"RequestMessage","type":["Integer"],"value":[]}`,
		`{"tag":"RequestMessage"}`, `{"tag":"RequestMessage","value":null}`, `{"tag":"RequestMessage","value":1}`, `{"tag":"RequestMessage","value":"x"}`, `{"tag":"RequestMessage","value":{}}`, `{"tag":"RequestMessage","value":true}`,
		`{"tag":"RequestMessage","value":` + jc + `}`, `{"tag":"RequestMessage","value":[1]}`, `{"tag":"RequestMessage","value":[null]}`, `{"tag":"RequestMessage","value":["a"]}`, `{"tag":"RequestMessage","value":[[]]}`,
		`{"tag":"RequestMessage","value":[{}]}`, `{"tag":"RequestMessage","value":[[` + jc + `]]}`, `{"tag":"RequestMessage","value":[` + jc + `,null,` + jd + `]}`, `{"tag":"RequestMessage","value":[` + jc + `,1,` + jd + `]}`,
		`{"tag":"RequestMessage","value":[{"tag":"Foo",` + ji + `},` + jc + `]}`, `{"tag":"RequestMessage","value":[` + jc + `,{"tag":"Foo",` + ji + `},` + jd + `]}`, `{"tag":"RequestMessage","value":[` + jc + `,` + jd + `,{"tag":"Foo","value":[` + jc + `]}]}`,
		`{"tag":"RequestMessage","value":[{"tag":"Foo","value":[` + jc + `]},` + jd + `]}`, `{"tag":"RequestMessage","value":[{"tag":"RequestHeader","value":[{"tag":"Foo","value":[` + jc + `]},` + jd + `]},` + jc + `]}`,
		`{"tag":"RequestMessage","value":[{"tag":"RequestHeader","value":[{"tag":"BatchItem","value":[{"value":[]},` + jc + `]},` + jd + `]},` + jc + `]}`,
		`{"tag":"RequestMessage","value":[{"tag":"RequestHeader","type":"Integer","value":[` + jc + `]},` + jd + `]}`, `{"tag":"RequestMessage","type":"Integer","value":[` + jc + `]}`,
		`{"tag":"RequestMessage","value":[{"tag":"0x-1",` + ji + `},{"tag":"0x7FFFFFFF",` + ji + `},{"tag":"0x1000000",` + ji + `}]}`, `{"tag":"RequestMessage","value":[{"tag":"0x0",` + ji + `},` + jc + `]}`,
		`{"tag":"RequestMessage","value":[` + jc + `],"value":[` + jd + `]}`, `{"tag":"RequestMessage","value":[` + jc + `],"value":1}`, `{"tag":"RequestMessage","value":1,"value":[` + jc + `]}`,
		// duplicated / missing / reordered members
		`{"tag":"BatchCount","tag":"BatchItem",` + ji + `}`, `{"tag":"Foo","tag":"BatchCount",` + ji + `}`, `{"tag":"BatchCount","tag":5,` + ji + `}`, `{"tag":"BatchCount","type":"TextString","type":"Integer","value":1}`,
		`{"tag":"BatchCount","type":"Integer","type":"TextString","value":1}`, `{"tag":"BatchCount","type":"Integer","type":null,"value":1}`, `{"tag":"BatchCount","type":"Integer","value":"x","value":1}`,
		`{"tag":"BatchCount","type":"Integer","value":1,"value":"x"}`, `{"tag":"BatchCount","type":"Integer","value":1,"value":null}`, `{"value":1,"type":"Integer","tag":"BatchCount"}`,
		`{"tag":"BatchCount","type":"Integer","value":1,"extra":[1,2,{"a":null}]}`, `{"TAG":"BatchCount","type":"Integer","value":1}`, `{"tag":"BatchCount","Type":"Integer","value":1}`, `{"tag":"BatchCount","type":"Integer","Value":1}`,
		`{"tag":"BatchCount","type":"Integer"}`, `{"tag":"BatchCount","value":1}`, `{"type":"Integer","value":1}`, `{"value":[]}`, `{"value":[` + jc + `]}`, `{}`, `[]`, `null`, `1`, `"x"`, `true`, `[` + jc + `]`, `[[]]`, ` {"tag":"BatchCount",` + ji + `} `,
		`{"":"BatchCount","tag":"BatchCount",` + ji + `}`, `{"tag":"BatchCount","type":"integer","value":1}`, `{"tag":"BatchCount","type":"INTEGER","value":1}`, `{"tag":"BatchCount","type":" Integer","value":1}`,
		`{"tag":"BatchCount","type":"Unknown(FF)","value":1}`, `{"tag":"BatchCount","type":"0x02","value":1}`, `{"tag":"BatchCount","type":2,"value":1}`, `{"tag":"BatchCount","type":"Integer","value":1}`,
		`{"tag":"BatchCount",` + ji + `}`,
	} {
		addJ(d, none)
	}
	for _, t := range []string{"", "Foo", "TTLV", "BatchCount", "batchcount", "BatchCount ", "0x42000D", "0x42000d", "0x540001", "0x-1", "0x7FFFFFFF", "0x1000000", "0x80000000", "0x", "0xabcdef", "0X42000D", "4325389",
		"0x42000D ", " 0x42000D", "0x0", "0x000000", "0x+1", "0x-80000000", "0x-80000001", "0xFFFFFFFFFFFFFFFF", "0x00000000042000D", "0x4_2", "0x1", "0xFFFFFF", "0x-420078"} {
		addJ(`{"tag":`+jsonString(t)+`,`+ji+`}`, none)
		addJ(`{"tag":`+jsonString(t)+`,"value":[`+jc+`]}`, none)
		addJ(`{"tag":"RequestMessage","value":[`+jc+`,{"tag":`+jsonString(t)+`,`+ji+`},`+jd+`]}`, none)
		addX(`<RequestMessage>`+a+`<TTLV tag="`+xmlAttrEscape(t)+`" `+iv+`/>`+b+`</RequestMessage>`, none)
		addX(`<TTLV tag="`+xmlAttrEscape(t)+`">`+a+`</TTLV>`, none)
	}
	for _, raw := range []string{`5`, `null`, `true`, `["BatchCount"]`, `{"a":1}`, `4325389`} {
		addJ(`{"tag":`+raw+`,`+ji+`}`, none)
	}
	// documents the independent parser rejects (impl-only, no-panic oracle)
	for _, d := range []string{``, `<`, `<a`, `<a>`, `</a>`, `<a/><b/>`, `<BatchCount type="Integer" value="1"/><BatchCount type="Integer" value="2"/>`, `<BatchCount type="Integer" value="1"/>x<`,
		`<RequestMessage><BatchCount type="Integer" value="1"/>`, `<RequestMessage><Foo></RequestMessage>`, `<BatchCount type=Integer value=1/>`, `<BatchCount type="Integer" value="&bogus;"/>`, "<BatchCount type=\"Integer\" value=\"\xff\"/>", `text`} {
		addX(d, none)
	}
	for _, d := range []string{``, `{`, `[`, `{"tag":`, `1 2`, jc + jc, jc + ` x`, `{"tag":"BatchCount","type":"Integer","value":01}`, `{"tag":"BatchCount","type":"Integer","value":+1}`, `{"tag":"BatchCount","type":"Integer","value":0x1}`,
		`{"tag":"BatchCount","type":"Integer","value":1,}`, `{'tag':'BatchCount'}`, `{"tag":"BatchCount","type":"Integer","value":NaN}`, `nul`, "{\"tag\":\"BatchCount\",\"type\":\"TextString\",\"value\":\"\xff\"}"} {
		addJ(d, none)
	}
	return docs
}

// ---- text: the whole alphabet, long strings ------------------------------------------------------------------------

// lexRunesXML: runes every XML 1.0 document can carry (Char production), chosen at the boundaries of the UTF-8 length
// classes (1/2/3/4 bytes), of the classes the escapers of encoding/xml and encoding/json treat specially (markup,
// quotes, backslash, DEL, C1 controls incl. NEL U+0085, the JavaScript line separators U+2028/U+2029, BOM, the
// replacement character itself) and of the planes.
var lexRunesXML = []rune{0x09, 0x0A, 0x0D, 0x20, '!', '"', '&', '\'', '<', '>', '\\', '/', 0x7E, 0x7F, 0x80, 0x85, 0x9F, 0xA0, 0xFF, 0x100, 0x7FF, 0x800,
	0x2027, 0x2028, 0x2029, 0x202A, 0xD7FF, 0xE000, 0xFEFF, 0xFFFC, 0xFFFD, 0x10000, 0x1F600, 0xFFFFF, 0x100000, 0x10FFFF, 'é', 'ß', '€', '漢'}

// lexRunesJSONOnly: valid Unicode scalar values JSON can carry but XML 1.0 cannot: every C0 control but tab / LF / CR,
// and the two non-characters of the BMP.
var lexRunesJSONOnly = func() []rune {
	var rs []rune
	for c := rune(0); c < 0x20; c++ {
		if c != 0x09 && c != 0x0A && c != 0x0D {
			rs = append(rs, c)
		}
	}
	return append(rs, 0xFFFE, 0xFFFF)
}()

// lexGenText: n runes; mode 1 = JSON-representable, 2 = XML-representable.
func lexGenText(r *rng.R, mode, n int) []byte {
	rs := make([]rune, 0, n)
	for len(rs) < n {
		switch r.Intn(6) {
		case 0, 1:
			if mode == 1 && r.Bool() {
				rs = append(rs, rng.Pick(r, lexRunesJSONOnly))
			} else {
				rs = append(rs, rng.Pick(r, lexRunesXML))
			}
		case 2: // any scalar value of a random UTF-8 length class
			var c rune
			switch r.Intn(4) {
			case 0:
				c = rune(0x20 + r.Intn(0x60))
			case 1:
				c = rune(0x80 + r.Intn(0x780))
			case 2:
				c = rune(0x800 + r.Intn(0xF800))
			default:
				c = rune(0x10000 + r.Intn(0x100000))
			}
			if (c >= 0xD800 && c <= 0xDFFF) || (mode == 2 && (c == 0xFFFE || c == 0xFFFF)) {
				c = 0xE000
			}
			rs = append(rs, c)
		default:
			rs = append(rs, rune('a'+r.Intn(26)))
		}
	}
	return []byte(string(rs))
}

// lexLongTexts: lengths around the sizes at which buffers are grown, chunked or aliased (the JSON writer builds a
// bytes.Buffer over the SPARE capacity of its output buffer: whether the string fits it matters), with the characters
// that need escaping at the end, at the start, and multi-byte runes straddling every boundary.
func lexLongTexts(thor bool) []string {
	var out []string
	sizes := []int{63, 64, 65, 511, 512, 513, 4095, 4096, 4097, 65535, 65536, 65537, 70001}
	if thor {
		sizes = append(sizes, 131071, 131072, 262145, 1<<20+3)
	}
	for _, n := range sizes {
		out = append(out, strings.Repeat("a", n))
		out = append(out, strings.Repeat("a", n-1)+"\"")
		out = append(out, "<"+strings.Repeat("b", n-2)+"&")
		if n <= 70001 {
			out = append(out, strings.Repeat("é", n/2)+strings.Repeat("x", n%2)) // 2-byte runes, n bytes
			out = append(out, "x"+strings.Repeat("漢", n/3))                      // 3-byte runes misaligned by one
			out = append(out, strings.Repeat("😀\\", n/5))
		}
	}
	return out
}

// lexLongBinary: byte strings and big integers of the sizes real messages carry (certificates, wrapped keys, RSA moduli
// of 8192 bits and more) and beyond, around the sizes at which a writer that encodes by chunks / through a scratch buffer
// changes its path: the shared generators stop at 1000 bytes and 4096 bits.
func lexLongBinary(thor bool) []*lexItem {
	var out []*lexItem
	sizes := []int{1023, 1024, 1025, 2047, 2048, 2049, 4095, 4096, 4097, 8191, 8192, 8193, 12000, 16383, 16384, 16385, 32767, 32768, 32769, 65535, 65536, 65537, 70001}
	if thor {
		sizes = append(sizes, 131071, 131072, 131073, 262145, 1<<20+3)
	}
	for k, n := range sizes {
		b := make([]byte, n)
		for i := range b {
			b[i] = byte(i*131 + i>>8 + n)
		}
		out = append(out, &lexItem{kind: tree.KBytes, tag: []int{0x420043, 0x540001}[k%2], data: b})
		if (n > 4097 && n != 8193 && !thor) || n > 16385 {
			continue // the model's big-integer arithmetic is quadratic: 64 KiB numbers take seconds per line
		}
		// a big integer of n bytes: positive with the top bit of the first byte clear / set (sign byte needed), negative
		for j, first := range []byte{0x7F, 0x80, 0x01} {
			mag := append([]byte{first}, b[1:]...)
			v := new(big.Int).SetBytes(mag)
			if j == 2 {
				v.Neg(v)
			}
			out = append(out, &lexItem{kind: tree.KBig, tag: []int{0x420078, 0x540002}[k%2], big: v})
		}
	}
	return out
}

// ---- time zones: the property quantifies over messages, not over machines whose zone is UTC ---------------------

type lexZone struct {
	tok string // replayable: fixed:<offset seconds> | name:<IANA name>
	loc *time.Location
}

func lexZoneOf(tok string) *time.Location {
	kind, arg, _ := strings.Cut(tok, ":")
	switch kind {
	case "fixed":
		if off, err := strconv.Atoi(arg); err == nil {
			return time.FixedZone(arg, off)
		}
	case "name":
		if loc, err := time.LoadLocation(arg); err == nil {
			return loc
		}
	}
	return nil
}

// lexZones: UTC, the extreme offsets, half-hour offsets, offsets with seconds (local mean time: what every IANA zone
// has before its standard time), and real zones when the machine has a zone database.
func lexZones(ctx *Ctx) []lexZone {
	var zs []lexZone
	for _, off := range []int{0, 3600, -3600, 14 * 3600, -12 * 3600, 5*3600 + 1800, 9 * 3600, -8 * 3600, 9*3600 + 18*60 + 59, -(7*3600 + 52*60 + 58), 9*60 + 21} {
		tok := "fixed:" + strconv.Itoa(off)
		zs = append(zs, lexZone{tok, lexZoneOf(tok)})
	}
	for _, n := range []string{"Asia/Tokyo", "America/Los_Angeles", "Europe/Paris", "Pacific/Kiritimati", "Asia/Kolkata"} {
		tok := "name:" + n
		if loc := lexZoneOf(tok); loc != nil {
			zs = append(zs, lexZone{tok, loc})
			ctx.Res.Count("zone.named")
		} else {
			ctx.Res.Count("zone.named-unavailable")
		}
	}
	return zs
}

// zoneCase: C04 on a tree with dates, for a machine whose zone is z (local = true: time.Local is z while the real code
// runs, as for a value that arrives in binary TTLV, which the binary reader returns in time.Local; local = false: the
// caller hands the encoder time.Time values located in z, time.Local stays UTC). Impl-only line, replayable.
func (e *lexEnv) zoneCase(ctx *Ctx, c *lexCodec, z lexZone, local bool, x *lexItem) {
	mode := "local"
	if !local {
		mode = "in"
	}
	line := "#lex.zone " + c.name + " " + mode + " " + z.tok + " " + x.render()
	if e.seen[line] {
		return
	}
	e.seen[line] = true
	ctx.current = line
	saved := time.Local
	defer func() { time.Local = saved }()
	if local {
		time.Local = z.loc
	}
	want := x.erase().Encode()
	key := c.name + ":zone:"
	var val any
	if local {
		// through the library's binary reader
		v, p := guard("UnmarshalTTLV", func() *ttlv.Value {
			var v ttlv.Value
			if err := ttlv.UnmarshalTTLV(append([]byte{}, want...), &v); err != nil {
				return nil
			}
			return &v
		})
		if p != "" || v == nil {
			lexFail(ctx, "zone: the binary reader rejects the harness encoding at "+line)
			return
		}
		val = *v
	} else {
		y := lexItemOf(x.erase())
		y.walk(func(n *lexItem) {
			if n.kind == tree.KDate {
				t := time.Unix(n.i, 0).In(z.loc)
				n.tm = &t
			}
		})
		val = lexEnc{y}
	}
	outcome := "ok"
	doc, p := guard("Marshal", func() []byte { return append([]byte{}, c.marshal(val)...) })
	switch {
	case p != "":
		outcome = "panic"
		e.violate(ctx, "C04", "zone", key+"encoder-panic", "encoder panicked under zone "+z.tok+": "+p, line)
	case !c.wellFormed(doc):
		outcome = "not-well-formed"
		e.violate(ctx, "C04", "zone", key+"not-well-formed", "independent parser rejects the document written under zone "+z.tok+": "+shortKey(doc), line)
	default:
		type out struct {
			b   []byte
			err error
		}
		r, p := guard("Unmarshal", func() out {
			var back ttlv.Value
			if err := c.unmarshal(append([]byte{}, doc...), &back); err != nil {
				return out{nil, err}
			}
			return out{ttlv.MarshalTTLV(back), nil}
		})
		switch {
		case p != "":
			outcome = "panic"
			e.violate(ctx, "C04", "zone", key+"decode-panic", "decoding the library's own document panicked under zone "+z.tok+": "+p, line)
		case r.err != nil:
			outcome = "err"
			e.violate(ctx, "C04", "zone", key+"decode-error", "with the time zone "+z.tok+" the library cannot decode its own document "+shortKey(doc)+": "+r.err.Error(), line)
		case !bytes.Equal(r.b, want):
			outcome = "differs"
			got := "?"
			if it, err := tree.Decode(r.b); err == nil {
				got = it.Render()
			}
			e.violate(ctx, "C04", "zone", key+"binary-differs", "with the time zone "+z.tok+" the document "+shortKey(doc)+" decodes to another message: "+firstDiff(x.erase().Render(), got), line)
		}
	}
	ctx.Add(line, outcome, true, "")
	ctx.Res.Count("zone." + c.name + "." + mode + "." + outcome)
}

var lexZoneSecs = []int64{-62135596800, -62135596799, -62135596800 + 43200, -62135596800 + 50400, -62135596800 + 86399, -5364662400, -3000000000, -2208988800, -2000000000,
	-1, 0, 1, 951782400, 1700000000, 4102444800, 253402300799 - 366*86400, 253402300799 - 86400, 253402300799 - 50400, 253402300799 - 43200 - 1, 253402300799 - 43200, 253402300799 - 3600, 253402300799 - 3599, 253402300799 - 1, 253402300799}

func (e *lexEnv) zoneRun(ctx *Ctx) {
	r := ctx.R
	secs := append([]int64{}, lexZoneSecs...)
	for k := ctx.N(16, 400); k > 0; k-- {
		secs = append(secs, -62135596800+int64(r.U64()%315537897600))
	}
	zs := lexZones(ctx)
	for i, s := range secs {
		var x *lexItem
		if i%2 == 0 {
			x = &lexItem{kind: tree.KDate, tag: 0x420008 + i%3*0x120000, i: s}
		} else {
			x = &lexItem{kind: tree.KStruct, tag: 0x420078, children: []*lexItem{{kind: tree.KText, tag: 0x420094, data: []byte("t")}, {kind: tree.KDate, tag: 0x420092, i: s}, {kind: tree.KLong, tag: 0x540002, i: s}}}
		}
		for _, z := range zs {
			for _, c := range []*lexCodec{lexXML, lexJSON} {
				e.zoneCase(ctx, c, z, true, x)
				e.zoneCase(ctx, c, z, false, x)
			}
		}
	}
}

// ---- engine -------------------------------------------------------------------------------------------------

func (e *lexEnv) replay(ctx *Ctx) {
	for _, l := range ctx.Replay {
		f := strings.SplitN(l, " ", 4)
		switch f[0] {
		case "lex.xmlw", "lex.jsonw":
			if len(f) < 3 {
				continue
			}
			x, err := lexParseItem(strings.Join(f[2:], " "))
			if err != nil {
				lexFail(ctx, "replay: "+err.Error()+" in "+l)
				continue
			}
			c := lexXML
			if f[0] == "lex.jsonw" {
				c = lexJSON
			}
			inScope := lexInScope(x)
			if doc := e.writerCase(ctx, c, x, "replay", true, inScope); doc != nil {
				h, ok := lexHintsOf(x)
				if !ok {
					h = lexPosHintsOf(x)
				}
				e.readerCase(ctx, c, doc, h, "replay")
			}
		case "lex.xmlr", "lex.jsonr":
			if len(f) != 4 {
				continue
			}
			h, err := lexParseHints(f[1])
			if err != nil {
				lexFail(ctx, "replay: "+err.Error()+" in "+l)
				continue
			}
			var buf bytes.Buffer
			if f[0] == "lex.xmlr" {
				el, rest, err := lexParseElemToks(lexTokens(f[3]))
				if err != nil || len(rest) != 0 {
					lexFail(ctx, "replay: bad element tree in "+l)
					continue
				}
				el.serialize(&buf)
				e.readerCase(ctx, lexXML, buf.Bytes(), h, "replay")
			} else {
				jv, rest, err := lexParseJValToks(lexTokens(f[3]))
				if err != nil || len(rest) != 0 {
					lexFail(ctx, "replay: bad JSON value in "+l)
					continue
				}
				jv.serialize(&buf)
				e.readerCase(ctx, lexJSON, buf.Bytes(), h, "replay")
			}
		case "lex.scope":
			if x, err := lexParseItem(strings.TrimPrefix(l, "lex.scope ")); err == nil {
				e.scopeCase(ctx, x, lexInScope(x))
			}
		case "#lex.zone":
			g := strings.SplitN(l, " ", 5)
			if len(g) != 5 {
				continue
			}
			x, err := lexParseItem(g[4])
			loc := lexZoneOf(g[3])
			if err != nil || loc == nil {
				lexFail(ctx, "replay: bad zone line (or zone database unavailable) "+l)
				continue
			}
			c := lexXML
			if g[1] == "json" {
				c = lexJSON
			}
			e.zoneCase(ctx, c, lexZone{g[3], loc}, g[2] == "local", x)
		case "#lex.form":
			e.formReplay(ctx, l)
		case "#lex.reuse":
			e.reuseReplay(ctx, l)
		case "#lex.xmlr-raw", "#lex.jsonr-raw", "#lex.xmlr-nonascii-space", "#lex.jsonr-nonascii-space":
			if len(f) < 3 {
				continue
			}
			h, err := lexParseHints(f[1])
			doc, err2 := lexUnhex(f[2])
			if err != nil || err2 != nil {
				lexFail(ctx, "replay: bad raw line "+l)
				continue
			}
			c := lexXML
			if strings.HasPrefix(f[0], "#lex.jsonr") {
				c = lexJSON
			}
			e.readerCase(ctx, c, []byte(doc), h, "replay")
		}
	}
}

// lexInScope: the hypotheses of C04 on a tree as the harness computes them (tags of 1..2^24-1, dates in years 1..9999;
// the value ranges hold by construction of lexItem values).
func lexInScope(x *lexItem) bool {
	ok := lexTagsInRange(x.erase())
	x.walk(func(n *lexItem) {
		switch n.kind {
		case tree.KDate:
			if n.i < -62135596800 || n.i > 253402300799 {
				ok = false
			}
		case tree.KInt:
			if n.i < math.MinInt32 || n.i > math.MaxInt32 {
				ok = false
			}
		case tree.KEnum, tree.KInterval:
			if n.i < 0 || n.i > math.MaxUint32 {
				ok = false
			}
		}
	})
	return ok
}

// scopeCase ties what the engine treats as "in the scope of C04" (trees it demands a round trip of) to the domain of
// the Lean theorems xml_roundtrip_any / json_roundtrip_any (Lex.inScope): the two must agree on every tree.
func (e *lexEnv) scopeCase(ctx *Ctx, x *lexItem, inScope bool) {
	line := "lex.scope " + x.render()
	if e.seen[line] {
		return
	}
	e.seen[line] = true
	ctx.current = line
	if inScope != lexInScope(x) {
		lexFail(ctx, fmt.Sprintf("the generator's in-scope flag (%v) is not what the tree says at %s", inScope, line))
	}
	ans := "ok 0"
	if inScope {
		ans = "ok 1"
		ctx.Res.Count("scope.in-theorem-domain")
	} else {
		ctx.Res.Count("scope.outside-theorem-domain")
	}
	ctx.Add(line, ans, false, "C04")
}

// oneTree: writer lines for both encodings, then the documents as reader input (typed hints and generic),
// then (mutate) their lexical mutations.
func (e *lexEnv) oneTree(ctx *Ctx, t lexTree, origin string, mutate bool) {
	r := ctx.R
	codecs := []*lexCodec{lexJSON}
	if t.xmlOK {
		codecs = []*lexCodec{lexXML, lexJSON}
	}
	h, consistent := lexHintsOf(t.x)
	ph := lexPosHintsOf(t.x)
	if !consistent {
		h = ph
	}
	e.scopeCase(ctx, t.x, t.inScope)
	for _, c := range codecs {
		doc := e.writerCase(ctx, c, t.x, origin, t.boundary, t.inScope)
		if doc == nil {
			continue
		}
		e.readerCase(ctx, c, doc, h, "own")
		if !h.empty() {
			e.readerCase(ctx, c, doc, lexNewHints(), "own-generic")
			if consistent {
				e.readerCase(ctx, c, doc, ph, "own-positional")
			}
		}
		if !mutate {
			continue
		}
		mh := h
		if r.Chance(1, 4) {
			mh = lexNewHints()
		}
		var muts [][]byte
		if c == lexXML {
			muts = mutateXML(r, doc)
		} else {
			muts = mutateJSON(r, doc)
		}
		for _, m := range muts {
			e.readerCase(ctx, c, m, mh, "mutated")
		}
	}
}

func lexRun(ctx *Ctx) {
	// the correspondence lines assume what the model assumes: dates are formatted in UTC. Pinned here, not inherited
	// from the machine; zoneRun exercises the real code under other zones.
	savedLocal := time.Local
	time.Local = time.UTC
	defer func() { time.Local = savedLocal }()
	e := lexNewEnv()
	if len(e.enumNames[lexTagCryptoAlg]) < 2 || len(e.maskNames[lexTagUsageMask]) == 0 {
		ctx.Res.Fail("lex: the registry lacks CryptographicAlgorithm / CryptographicUsageMask")
		return
	}
	for _, n := range []string{"RequestMessage", "RequestHeader", "BatchItem", "RequestPayload", "TemplateAttribute", "Attribute", "BatchCount", "MaximumResponseSize", "MaximumItems", "IterationCount", "UniqueIdentifier", "AttributeValue", "State", "CryptographicAlgorithm", "CryptographicUsageMask", "StorageStatusMask"} {
		if e.tagByName[n] == 0 {
			// the hand-written documents spell this name: without it they still are valid test inputs (an unknown element
			// name), they only test something else; the floors on the accepted hand documents tell when too many are lost
			ctx.Res.Count("hand.tag-name-not-registered:" + n)
		}
	}
	if len(ctx.Replay) > 0 {
		e.replay(ctx)
		return
	}
	r := ctx.R
	// (0) dates under the time zones a machine may have
	e.zoneRun(ctx)
	// (1) boundary values of every scalar kind
	for _, t := range e.boundaryTrees() {
		e.oneTree(ctx, t, "boundary", false)
	}
	// (1b) long text strings, alone and after output of various sizes
	for i, txt := range lexLongTexts(ctx.Thor) {
		e.oneTree(ctx, lexTree{&lexItem{kind: tree.KText, tag: 0x420094, data: []byte(txt)}, true, true, true}, "long", false)
		pre := make([]byte, []int{0, 1, 100, 449, 3000, 5000}[i%6])
		half := len(txt) / 2
		for half > 0 && !utf8.RuneStart(txt[half]) {
			half--
		}
		e.oneTree(ctx, lexTree{&lexItem{kind: tree.KStruct, tag: 0x420078, children: []*lexItem{
			{kind: tree.KBytes, tag: 0x540001, data: pre},
			{kind: tree.KText, tag: 0x420094, data: []byte(txt)},
			{kind: tree.KText, tag: 0x540002, data: []byte("tail<\"")},
			{kind: tree.KText, tag: 0x540003, data: []byte(txt[:half])},
		}}, true, true, true}, "long", false)
	}
	// (1c) long byte strings and big integers, alone and after other output
	for i, x := range lexLongBinary(ctx.Thor) {
		e.oneTree(ctx, lexTree{x, true, true, true}, "longbin", false)
		if i%3 == 0 {
			e.oneTree(ctx, lexTree{&lexItem{kind: tree.KStruct, tag: 0x420078, children: []*lexItem{
				{kind: tree.KText, tag: 0x420094, data: bytes.Repeat([]byte("p"), []int{0, 1, 100, 449, 3000, 5000}[i%6])},
				x,
				{kind: tree.KBytes, tag: 0x540003, data: []byte{0xAB, 0xCD}},
			}}, true, true, true}, "longbin", false)
		}
	}
	// (2) hand-enumerated alternative lexical forms and element structures
	for _, d := range e.handDocs() {
		e.readerCase(ctx, d.c, []byte(d.doc), d.h, "hand")
	}
	// (2b) alternative but legal lexical forms of numbers, as another producer may write them (lex_forms.go)
	e.formRun(ctx)
	// (3) generated trees
	n := ctx.N(600, 12000)
	for i := 0; i < n; i++ {
		mode := 2
		if i%4 == 3 {
			mode = 1 // control characters: JSON only
		}
		var opts tree.GenOpts
		switch {
		case i%25 == 24:
			opts = tree.GenOpts{MaxDepth: 10, MaxChildren: 3, MaxData: 200, MaxBigBits: 4096, TextMode: mode}
		case i%5 == 4:
			opts = tree.GenOpts{MaxDepth: 2, MaxChildren: 14, MaxData: 24, MaxBigBits: 130, TextMode: mode}
		default:
			opts = tree.GenOpts{MaxDepth: 4, MaxChildren: 5, MaxData: 40, MaxBigBits: 200, TextMode: mode}
		}
		x := lexItemOf(tree.Gen(r, opts, 0))
		// text over the whole alphabet (the shared generator knows a dozen runes and 16 of them at most)
		x.walk(func(n *lexItem) {
			if n.kind == tree.KText && r.Bool() {
				k := r.Intn(24)
				if r.Chance(1, 40) {
					k = 200 + r.Intn(3000)
				}
				n.data = lexGenText(r, mode, k)
				ctx.Res.Count("text.wide-alphabet")
			}
		})
		origin := "gen"
		switch i % 3 {
		case 1:
			e.decorate(r, x)
			lexNormalizeAnn(x)
			origin = "gen-annotated"
		case 2:
			if i%6 == 2 {
				e.decorate(r, x) // annotations that differ between nodes of one tag (AttributeValue): read back with positional hints
				origin = "gen-annotated-free"
			} else if i%12 == 5 {
				x = e.genAnn(r) // an annotated node at top level
				origin = "gen-annotated-top"
			}
		}
		e.oneTree(ctx, lexTree{x, mode == 2, true, false}, origin, i%2 == 0)
	}
	// (4) documents written through a reused encoder: after Clear, after a recovered failure (lex_reuse.go); last, so that
	// the random stream of the classes above is what it was
	e.reuseRun(ctx)
	if lexFailCount > 20 {
		ctx.Res.Fail(fmt.Sprintf("lex: %d harness errors in total", lexFailCount))
	}
	// floors: the classes of input this engine exists for were all exercised
	for k, min := range map[string]int{"w.xml.long": 20, "w.json.long": 20, "w.xml.longbin": 60, "w.json.longbin": 60, "text.wide-alphabet": 50, "w.xml.readback-positional": 20, "w.json.readback-positional": 20,
		"form.xml.must.ok": 1000, "form.xml.may.ok": 2000, "form.json.may.ok": 3000, "form.xml.may.rejected": 500, "form.json.may.rejected": 500, "zone.xml.local.ok": 50, "zone.json.in.ok": 50, "r.xml.own-positional.ok": 50, "r.json.own-positional.ok": 50, "r.xml.hand.ok": 1000, "r.json.hand.ok": 1000,
		"reuse.xml.judged-after-failure": 100, "reuse.json.judged-after-failure": 100, "reuse.xml.judged-after-clear": 50, "reuse.json.judged-after-clear": 50} {
		if ctx.Res.Distribution[k] < min {
			ctx.Res.Fail(fmt.Sprintf("lex: only %d cases of class %s (floor %d)", ctx.Res.Distribution[k], k, min))
		}
	}
}
