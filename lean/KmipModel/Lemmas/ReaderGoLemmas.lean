/-
  Lemmas tying the slice-level reader (`Model/ReaderGo.lean`: explicit Go slices, every index / slice
  expression may panic, `int` has a width) to the abstract reader (`Model/Reader.lean`: `rawParse` + cursor):

  * fuel: `rawParse` / `decodeValue` / `decodeFields` / `unmarshalValue` give the same answer for every
    sufficient fuel and never answer with the fuel-exhaustion error `.other` — for EVERY input;
  * refinement: when `int` does not wrap (`GoCfg.Ok`), every method of the slice-level reader on a
    validated reader returns — without panic — exactly what the abstract method returns, the nested reader
    of `Struct` has `cap = len` = the declared length, and `G.unmarshalValue = unmarshalValue`;
  * `int` of 32 bits: the reader as it is panics (witness), the `wide` variant does not.
  Core Lean only.
-/
import KmipModel.Lemmas.ReaderLemmas
import KmipModel.Model.ReaderGo
namespace Kmip

/-! ### 0. arithmetic of Go ints -/

theorem wrapInt_id (w : Nat) (n : Int) (h1 : -((2 ^ (w - 1) : Nat) : Int) ≤ n)
    (h2 : n < ((2 ^ (w - 1) : Nat) : Int)) (hw : 1 ≤ w) : wrapInt w n = n := by
  obtain ⟨k, rfl⟩ : ∃ k, w = k + 1 := ⟨w - 1, by omega⟩
  unfold wrapInt
  have e : ((2 ^ (k + 1) : Nat) : Int) = 2 * ((2 ^ k : Nat) : Int) := by
    rw [Nat.pow_succ]; push_cast; omega
  simp only [Nat.add_sub_cancel] at h1 h2 ⊢
  rw [e, Int.emod_eq_of_lt (by omega) (by omega)]
  omega

theorem goPad8_nat (u : Nat) : goPad8 (u : Int) = ((padForLen u 8 : Nat) : Int) := by
  unfold goPad8 padForLen
  have e1 : Int.tmod (u : Int) 8 = ((u % 8 : Nat) : Int) := by
    have := Int.ofNat_tmod u 8
    simpa using this.symm
  have h : (8 : Int) - ((u % 8 : Nat) : Int) = ((8 - u % 8 : Nat) : Int) := by omega
  have e2 : Int.tmod ((8 - u % 8 : Nat) : Int) 8 = (((8 - u % 8) % 8 : Nat) : Int) := by
    have := Int.ofNat_tmod (8 - u % 8) 8
    simpa using this.symm
  rw [e1, h, e2]

theorem paddedLen_div (u : Nat) : (u + 7) / 8 * 8 = paddedLen u := by
  unfold paddedLen padForLen; omega

theorem paddedLen_le (u : Nat) : paddedLen u ≤ u + 7 := by
  unfold paddedLen padForLen; omega

/-- "no `int` computation of the reader wraps" for a buffer of `m` visible bytes: with the library's
    `validate` every value below `2^33` must be representable (the check itself computes with the unchecked
    32-bit length field); with the `wide` variant only values up to the buffer length. -/
def GoCfg.Ok (cfg : GoCfg) (m : Nat) : Prop :=
  if cfg.wide then ∀ n : Nat, n ≤ m → wrapInt cfg.intBits n = n
  else ∀ n : Nat, n < 2 ^ 33 → wrapInt cfg.intBits n = n

theorem GoCfg.Ok.mono {cfg : GoCfg} {m m' : Nat} (h : cfg.Ok m) (hm : m' ≤ m) : cfg.Ok m' := by
  unfold GoCfg.Ok at h ⊢
  split
  · rename_i hw; rw [if_pos hw] at h; exact fun n hn => h n (by omega)
  · rename_i hw; rw [if_neg hw] at h; exact h

theorem GoCfg.Ok.wrap {cfg : GoCfg} {m : Nat} (h : cfg.Ok m) (n : Nat) (h1 : n ≤ m) (h2 : n < 2 ^ 33) :
    wrapInt cfg.intBits (n : Int) = n := by
  unfold GoCfg.Ok at h
  split at h
  · exact h n h1
  · exact h n h2

theorem GoCfg.Ok.wrap33 {cfg : GoCfg} {m : Nat} (h : cfg.Ok m) (hw : cfg.wide = false) (n : Nat)
    (h2 : n < 2 ^ 33) : wrapInt cfg.intBits (n : Int) = n := by
  unfold GoCfg.Ok at h
  rw [hw] at h
  exact h n h2

/-- `int` of at least 34 bits: the reader as it is, buffers of any length. -/
theorem GoCfg.ok_of_bits (cfg : GoCfg) (hw : cfg.wide = false) (hb : 34 ≤ cfg.intBits) (m : Nat) :
    cfg.Ok m := by
  unfold GoCfg.Ok
  rw [hw]
  intro n hn
  have hp : 2 ^ 33 ≤ 2 ^ (cfg.intBits - 1) := Nat.pow_le_pow_right (by decide) (by omega)
  apply wrapInt_id _ _ _ _ (by omega)
  · have : (0 : Int) ≤ ((2 ^ (cfg.intBits - 1) : Nat) : Int) := Int.natCast_nonneg _
    omega
  · exact Int.ofNat_lt.2 (by omega)

/-- the `wide` variant: any `int` width in which the buffer length itself is representable. -/
theorem GoCfg.ok_wide (cfg : GoCfg) (hw : cfg.wide = true) (hb : 1 ≤ cfg.intBits) (m : Nat)
    (hm : m < 2 ^ (cfg.intBits - 1)) : cfg.Ok m := by
  unfold GoCfg.Ok
  rw [hw]
  intro n hn
  apply wrapInt_id _ _ _ _ hb
  · have : (0 : Int) ≤ ((2 ^ (cfg.intBits - 1) : Nat) : Int) := Int.natCast_nonneg _
    omega
  · exact Int.ofNat_lt.2 (by omega)

/-! ### 1. Go slices -/

theorem GoSlice.slice_within (s : GoSlice) (lo hi : Nat) (h1 : lo ≤ hi) (h2 : hi ≤ s.vis.length) :
    s.slice (lo : Int) (hi : Int)
      = .ok { vis := (s.vis.drop lo).take (hi - lo), rest := s.vis.drop hi ++ s.rest } := by
  unfold GoSlice.slice GoSlice.cap GoSlice.all
  rw [if_pos ⟨Int.natCast_nonneg _, Int.ofNat_le.2 h1, Int.ofNat_le.2 (by omega)⟩]
  simp only [Int.toNat_natCast]
  rw [List.drop_append_of_le_length (by omega), List.drop_append_of_le_length h2,
    List.take_append_of_le_length (by rw [List.length_drop]; omega)]

theorem GoSlice.sliceFrom_within (s : GoSlice) (lo : Nat) (h : lo ≤ s.vis.length) :
    s.sliceFrom (lo : Int) = .ok { vis := s.vis.drop lo, rest := s.rest } := by
  unfold GoSlice.sliceFrom GoSlice.len
  rw [GoSlice.slice_within s lo s.vis.length h (Nat.le_refl _)]
  rw [List.take_of_length_le (by rw [List.length_drop]; omega), List.drop_length]
  rfl

/-- `v[:len(v):len(v)]`: the same bytes, capacity clipped to the length. -/
theorem GoSlice.slice3_clip (v : GoSlice) :
    v.slice3 0 (v.len : Int) (v.len : Int) = .ok { vis := v.vis, rest := [] } := by
  unfold GoSlice.slice3 GoSlice.cap GoSlice.len GoSlice.all
  rw [if_pos ⟨Int.le_refl _, Int.natCast_nonneg _, Int.le_refl _, Int.ofNat_le.2 (by omega)⟩]
  simp

/-! ### 2. the head of a buffer, `rawParse` one step at a time, fuel -/

/-- the length field of the first header. -/
def hdrLen (bs : Bytes) : Nat := beVal ((bs.drop 4).take 4)

/-- what `validate` says about the first item of `bs` (`none`: fine, or nothing there). -/
def headErr (bs : Bytes) : Option Err :=
  if bs.isEmpty then none
  else if bs.length < 8 then some .shortHeader
  else if bs.length - 8 < paddedLen (hdrLen bs) then some .shortValue
  else if (bs.getD 3 0).toNat > 10 ∨ (bs.getD 3 0).toNat = 0 then some .badType
  else none

def headItem (bs : Bytes) : RawItem :=
  { tag := beVal (bs.take 3), ty := (bs.getD 3 0).toNat, val := (bs.drop 8).take (hdrLen bs) }

def afterHead (bs : Bytes) : Bytes := bs.drop (8 + paddedLen (hdrLen bs))

theorem rawParse_step (fuel : Nat) (bs : Bytes) :
    rawParse (fuel + 1) bs =
      match headErr bs with
      | some e => ([], some e)
      | none => if bs.isEmpty then ([], none)
                else (headItem bs :: (rawParse fuel (afterHead bs)).1, (rawParse fuel (afterHead bs)).2) := by
  rw [rawParse_succ]
  unfold headErr headItem afterHead hdrLen
  split
  · rfl
  · split
    · rfl
    · split
      · rfl
      · split <;> rfl

theorem headErr_nil : headErr [] = none := rfl

theorem headErr_some_ne_nil {bs : Bytes} {e : Err} (h : headErr bs = some e) : bs ≠ [] := by
  intro hb; subst hb; simp [headErr] at h

/-- a validated, non-empty head: the header is complete, the padded value fits, the type is one of the ten. -/
theorem headErr_none {bs : Bytes} (h : headErr bs = none) (hne : bs ≠ []) :
    8 ≤ bs.length ∧ paddedLen (hdrLen bs) ≤ bs.length - 8 ∧
      1 ≤ (bs.getD 3 0).toNat ∧ (bs.getD 3 0).toNat ≤ 10 := by
  unfold headErr at h
  have h0 : bs.isEmpty = false := by cases bs <;> simp_all
  rw [h0] at h
  simp only [Bool.false_eq_true, if_false] at h
  split at h
  · cases h
  · split at h
    · cases h
    · split at h
      · cases h
      · omega

theorem afterHead_length_lt {bs : Bytes} (hne : bs ≠ []) : (afterHead bs).length < bs.length := by
  unfold afterHead
  rw [List.length_drop]
  have : 0 < bs.length := List.length_pos_iff.2 hne
  omega

theorem rawParse_fuel_aux : ∀ (fuel : Nat) (bs : Bytes) (fuel' : Nat), bs.length ≤ fuel → bs.length ≤ fuel' →
    rawParse fuel bs = rawParse fuel' bs := by
  intro fuel
  induction fuel with
  | zero =>
    intro bs fuel' h _
    have : bs = [] := List.eq_nil_of_length_eq_zero (by omega)
    subst this
    rw [rawParse_nil, rawParse_nil]
  | succ fuel ih =>
    intro bs fuel' h h'
    by_cases hne : bs = []
    · subst hne; rw [rawParse_nil, rawParse_nil]
    · have hl := afterHead_length_lt hne
      obtain ⟨f', rfl⟩ : ∃ f', fuel' = f' + 1 := ⟨fuel' - 1, by
        have : 0 < bs.length := List.length_pos_iff.2 hne
        omega⟩
      rw [rawParse_step, rawParse_step, ih (afterHead bs) f' (by omega) (by omega)]

/-- FUEL 1. `rawParse` gives the same answer for every fuel of at least the input length. -/
theorem rawParse_fuel (fuel : Nat) (bs : Bytes) (h : bs.length ≤ fuel) :
    rawParse fuel bs = rawParse bs.length bs :=
  rawParse_fuel_aux fuel bs bs.length h (Nat.le_refl _)

/-- FUEL 2. with such fuel the fuel-exhaustion answer (`some .other`) is never given. -/
theorem rawParse_not_fuel : ∀ (fuel : Nat) (bs : Bytes), bs.length ≤ fuel →
    (rawParse fuel bs).2 ≠ some .other := by
  intro fuel
  induction fuel with
  | zero =>
    intro bs h
    have : bs = [] := List.eq_nil_of_length_eq_zero (by omega)
    subst this
    simp [rawParse]
  | succ fuel ih =>
    intro bs h
    rw [rawParse_step]
    by_cases hne : bs = []
    · subst hne; simp [headErr]
    · have hl := afterHead_length_lt hne
      cases he : headErr bs with
      | some e =>
        simp only
        unfold headErr at he
        intro hc
        injection hc with hc
        subst hc
        split at he
        · cases he
        · split at he
          · cases he
          · split at he
            · cases he
            · split at he <;> cases he
      | none =>
        simp only
        split
        · simp
        · exact ih (afterHead bs) (by omega)

/-! ### 3. the abstract cursor over a buffer -/

/-- the cursor `newTTLVReader` / `Next` leave on a buffer whose head is fine. -/
def Cur.ofBytes (bs : Bytes) : Cur :=
  { items := (rawParse bs.length bs).1, tail := (rawParse bs.length bs).2 }

theorem Cur.ofBytes_nil : Cur.ofBytes [] = { items := [], tail := none } := rfl

theorem Cur.ofBytes_err {bs : Bytes} {e : Err} (h : headErr bs = some e) :
    Cur.ofBytes bs = { items := [], tail := some e } := by
  have hne := headErr_some_ne_nil h
  obtain ⟨n, hn⟩ : ∃ n, bs.length = n + 1 := ⟨bs.length - 1, by
    have : 0 < bs.length := List.length_pos_iff.2 hne
    omega⟩
  unfold Cur.ofBytes
  rw [hn, rawParse_step, h]

theorem Cur.ofBytes_cons {bs : Bytes} (h : headErr bs = none) (hne : bs ≠ []) :
    Cur.ofBytes bs = { items := headItem bs :: (Cur.ofBytes (afterHead bs)).items,
                       tail := (Cur.ofBytes (afterHead bs)).tail } := by
  have hl := afterHead_length_lt hne
  obtain ⟨n, hn⟩ : ∃ n, bs.length = n + 1 := ⟨bs.length - 1, by omega⟩
  have h0 : bs.isEmpty = false := by cases bs <;> simp_all
  unfold Cur.ofBytes
  rw [hn, rawParse_step, h, rawParse_fuel n (afterHead bs) (by omega)]
  simp only [h0, Bool.false_eq_true, if_false]

theorem Cur.start_eq (bs : Bytes) :
    Cur.start bs = match headErr bs with
      | some e => .err e
      | none => .ok (Cur.ofBytes bs) := by
  cases he : headErr bs with
  | some e =>
    have := Cur.ofBytes_err he
    unfold Cur.ofBytes at this
    unfold Cur.start
    injection this with h1 h2
    simp only
    rw [show rawParse bs.length bs = ((rawParse bs.length bs).1, (rawParse bs.length bs).2) from rfl, h1, h2]
  | none =>
    simp only
    by_cases hne : bs = []
    · subst hne; rfl
    · have := Cur.ofBytes_cons he hne
      unfold Cur.ofBytes at this ⊢
      unfold Cur.start
      injection this with h1 h2
      rw [show rawParse bs.length bs = ((rawParse bs.length bs).1, (rawParse bs.length bs).2) from rfl, h1]

theorem Cur.next_ofBytes {bs : Bytes} (h : headErr bs = none) (hne : bs ≠ []) :
    Cur.next (Cur.ofBytes bs) = match headErr (afterHead bs) with
      | some e => .err e
      | none => .ok (Cur.ofBytes (afterHead bs)) := by
  rw [Cur.ofBytes_cons h hne]
  unfold Cur.next
  simp only
  cases he : headErr (afterHead bs) with
  | some e => rw [Cur.ofBytes_err he]
  | none =>
    simp only
    by_cases hn : afterHead bs = []
    · rw [hn]; rfl
    · rw [Cur.ofBytes_cons he hn]

theorem Cur.tag_ofBytes {bs : Bytes} (h : headErr bs = none) (hne : bs ≠ []) :
    (Cur.ofBytes bs).tag = (headItem bs).tag := by
  rw [Cur.ofBytes_cons h hne]; rfl

theorem Cur.ty_ofBytes {bs : Bytes} (h : headErr bs = none) (hne : bs ≠ []) :
    (Cur.ofBytes bs).ty = (headItem bs).ty := by
  rw [Cur.ofBytes_cons h hne]; rfl

theorem Cur.expect_ofBytes {bs : Bytes} (h : headErr bs = none) (hne : bs ≠ []) (ty tag : Nat) :
    (Cur.ofBytes bs).expect ty tag =
      if (headItem bs).tag ≠ tag then .err .tagMismatch
      else if (headItem bs).ty ≠ ty then .err .typeMismatch
      else .ok (headItem bs) := by
  rw [Cur.ofBytes_cons h hne]; rfl

/-! ### 3b. fuel of the generic decoder -/

theorem Res.bind_ok_inv {α β : Type} {x : Res α} {f : α → Res β} {b : β} (h : (x >>= f) = .ok b) :
    ∃ a, x = .ok a ∧ f a = .ok b := by
  cases x with
  | ok a => exact ⟨a, rfl, h⟩
  | err e => cases h
  | panic m => cases h

theorem Cur.next_items {c c' : Cur} (h : c.next = .ok c') : c'.items = c.items.tail ∧ c'.tail = c.tail := by
  unfold Cur.next at h
  split at h
  · rename_i h0; injection h with h; subst h; rw [h0]; exact ⟨rfl, rfl⟩
  · rename_i it rest h0
    split at h
    · cases h
    · injection h with h; subst h; rw [h0]; exact ⟨rfl, rfl⟩

theorem Cur.tail_next {α : Type} {c : Cur} {v x : α} {c' : Cur}
    (h : (do let c1 ← c.next; pure (v, c1) : Res (α × Cur)) = .ok (x, c')) :
    c'.items = c.items.tail ∧ c'.tail = c.tail := by
  obtain ⟨c1, hn, h⟩ := Res.bind_ok_inv h
  simp only [Res.pure_eq, Res.ok.injEq, Prod.mk.injEq] at h
  obtain ⟨_, rfl⟩ := h
  exact Cur.next_items hn

theorem Cur.fixed_items {α : Type} {c c' : Cur} {ty tag w : Nat} {conv : Bytes → Res α} {v : α}
    (h : c.fixed ty tag w conv = .ok (v, c')) : c'.items = c.items.tail ∧ c'.tail = c.tail := by
  unfold Cur.fixed at h
  obtain ⟨it, _, h⟩ := Res.bind_ok_inv h
  split at h
  · cases h
  · obtain ⟨v', _, h⟩ := Res.bind_ok_inv h
    exact Cur.tail_next h

theorem Cur.bigInteger_items {c c' : Cur} {tag : Nat} {v : Int}
    (h : c.bigInteger tag = .ok (v, c')) : c'.items = c.items.tail ∧ c'.tail = c.tail := by
  unfold Cur.bigInteger at h
  obtain ⟨it, _, h⟩ := Res.bind_ok_inv h
  split at h
  · cases h
  · obtain ⟨v', _, h⟩ := Res.bind_ok_inv h
    exact Cur.tail_next h

theorem Cur.textString_items {c c' : Cur} {tag : Nat} {v : Bytes}
    (h : c.textString tag = .ok (v, c')) : c'.items = c.items.tail ∧ c'.tail = c.tail := by
  unfold Cur.textString at h
  obtain ⟨it, _, h⟩ := Res.bind_ok_inv h
  exact Cur.tail_next h

theorem Cur.byteString_items {c c' : Cur} {tag : Nat} {v : Bytes}
    (h : c.byteString tag = .ok (v, c')) : c'.items = c.items.tail ∧ c'.tail = c.tail := by
  unfold Cur.byteString at h
  obtain ⟨it, _, h⟩ := Res.bind_ok_inv h
  exact Cur.tail_next h

theorem Cur.struct_items {α : Type} {c c' : Cur} {tag : Nat} {f : Cur → Res α} {v : α}
    (h : c.struct tag f = .ok (v, c')) : c'.items = c.items.tail ∧ c'.tail = c.tail := by
  unfold Cur.struct at h
  obtain ⟨it, _, h⟩ := Res.bind_ok_inv h
  obtain ⟨inner, _, h⟩ := Res.bind_ok_inv h
  obtain ⟨a, _, h⟩ := Res.bind_ok_inv h
  exact Cur.tail_next h

theorem Res.map_ok_inv {α β : Type} {x : Res (α × Cur)} {k : α → β} {y : β} {c' : Cur}
    (h : (do let p ← x; pure (k p.fst, p.snd) : Res (β × Cur)) = .ok (y, c')) :
    ∃ v, x = .ok (v, c') := by
  obtain ⟨⟨v, c1⟩, hx, h⟩ := Res.bind_ok_inv h
  simp only [Res.pure_eq, Res.ok.injEq, Prod.mk.injEq] at h
  obtain ⟨_, rfl⟩ := h
  exact ⟨v, hx⟩

/-- a successful `Value.TagDecodeTTLV` consumes exactly the current item. -/
theorem decodeValue_items {fuel : Nat} {c c' : Cur} {tag : Nat} {x : Item}
    (h : decodeValue fuel c tag = .ok (x, c')) : c'.items = c.items.tail ∧ c'.tail = c.tail := by
  cases fuel with
  | zero => rw [decodeValue] at h; cases h
  | succ fuel =>
    rw [decodeValue] at h
    split at h
    · obtain ⟨v, hv⟩ := Res.map_ok_inv h; exact Cur.fixed_items hv
    · obtain ⟨v, hv⟩ := Res.map_ok_inv h; exact Cur.fixed_items hv
    · obtain ⟨v, hv⟩ := Res.map_ok_inv h; exact Cur.bigInteger_items hv
    · obtain ⟨v, hv⟩ := Res.map_ok_inv h; exact Cur.fixed_items hv
    · obtain ⟨v, hv⟩ := Res.map_ok_inv h; exact Cur.byteString_items hv
    · obtain ⟨v, hv⟩ := Res.map_ok_inv h; exact Cur.fixed_items hv
    · obtain ⟨v, hv⟩ := Res.map_ok_inv h; exact Cur.fixed_items hv
    · obtain ⟨v, hv⟩ := Res.map_ok_inv h; exact Cur.fixed_items hv
    · obtain ⟨v, hv⟩ := Res.map_ok_inv h; exact Cur.textString_items hv
    · obtain ⟨v, hv⟩ := Res.map_ok_inv h; exact Cur.struct_items hv
    · cases h

/-- number of value bytes of the current item (0 at end of data). -/
def Cur.headLen (c : Cur) : Nat := match c.items with | [] => 0 | it :: _ => it.val.length
/-- header + value bytes of all remaining items. -/
def Cur.bytes (c : Cur) : Nat := (c.items.map fun it => 8 + it.val.length).sum

theorem Cur.bytes_start {v : Bytes} {inner : Cur} (h : Cur.start v = .ok inner) : inner.bytes ≤ v.length := by
  unfold Cur.start at h
  have hx := rawParse_extent_aux v.length v
  have e : inner.items = (rawParse v.length v).1 := by
    rw [show rawParse v.length v = ((rawParse v.length v).1, (rawParse v.length v).2) from rfl] at h
    simp only at h
    split at h
    · cases h
    · injection h with h; subst h; rfl
  unfold Cur.bytes
  rw [e]
  have : ∀ l : List RawItem, (l.map fun it => 8 + it.val.length).sum
      ≤ (l.map fun it => 8 + paddedLen it.val.length).sum := by
    intro l
    induction l with
    | nil => simp
    | cons a l ih => have := le_paddedLen a.val.length; simp only [List.map_cons, List.sum_cons]; omega
  have := this (rawParse v.length v).1
  omega

theorem Cur.struct_congr {α : Type} (c : Cur) (tag : Nat) (f g : Cur → Res α)
    (h : ∀ inner : Cur, inner.bytes ≤ c.headLen → f inner = g inner) : c.struct tag f = c.struct tag g := by
  unfold Cur.struct
  cases he : c.expect 1 tag with
  | err e => rfl
  | panic m => rfl
  | ok it =>
    simp only [Res.ok_bind]
    cases hs : Cur.start it.val with
    | err e => rfl
    | panic m => rfl
    | ok inner =>
      simp only [Res.ok_bind]
      have hb := Cur.bytes_start hs
      have hit : c.headLen = it.val.length := by
        unfold Cur.expect at he
        unfold Cur.headLen
        split at he
        · cases he
        · rename_i it' rest h0
          rw [h0]
          split at he
          · cases he
          · split at he
            · cases he
            · injection he with he; subst he; rfl
      rw [h inner (by omega)]

/-- FUEL 3. the generic decoder gives the same answer for every sufficient fuel: the fuel parameter of the
    model (which only exists to make the definition structurally recursive) never decides the answer. -/
theorem decode_fuel_aux (f1 : Nat) :
    (∀ (c : Cur) (tag f2 : Nat), c.headLen + 2 ≤ f1 → c.headLen + 2 ≤ f2 →
      decodeValue f1 c tag = decodeValue f2 c tag) ∧
    (∀ (c : Cur) (f2 : Nat), c.bytes + 1 ≤ f1 → c.bytes + 1 ≤ f2 →
      decodeFields f1 c = decodeFields f2 c) := by
  induction f1 with
  | zero =>
    exact ⟨fun c tag f2 h _ => absurd h (by omega), fun c f2 h _ => absurd h (by omega)⟩
  | succ f1 ih =>
    constructor
    · intro c tag f2 h1 h2
      obtain ⟨f2, rfl⟩ : ∃ k, f2 = k + 1 := ⟨f2 - 1, by omega⟩
      rw [decodeValue, decodeValue]
      split <;> try rfl
      rw [Cur.struct_congr c tag (fun inner => decodeFields f1 inner) (fun inner => decodeFields f2 inner)
        (fun inner hb => ih.2 inner f2 (by omega) (by omega))]
    · intro c f2 h1 h2
      obtain ⟨f2, rfl⟩ : ∃ k, f2 = k + 1 := ⟨f2 - 1, by omega⟩
      rw [decodeFields, decodeFields]
      split
      · rfl
      · rename_i htag
        have hcons : ∃ it rest, c.items = it :: rest := by
          cases hc : c.items with
          | nil => exact absurd (by unfold Cur.tag; rw [hc]) htag
          | cons it rest => exact ⟨it, rest, rfl⟩
        obtain ⟨it, rest, hc⟩ := hcons
        have hb : c.bytes = 8 + it.val.length + (rest.map fun it => 8 + it.val.length).sum := by
          unfold Cur.bytes; rw [hc]; simp only [List.map_cons, List.sum_cons]
        have hh : c.headLen = it.val.length := by unfold Cur.headLen; rw [hc]
        rw [ih.1 c c.tag f2 (by omega) (by omega)]
        cases hd : decodeValue f2 c c.tag with
        | err e => rfl
        | panic m => rfl
        | ok p =>
          obtain ⟨x, c'⟩ := p
          simp only [Res.ok_bind]
          have hi := (decodeValue_items hd).1
          rw [hc] at hi
          have hb' : c'.bytes = (rest.map fun it => 8 + it.val.length).sum := by
            unfold Cur.bytes; rw [hi]; rfl
          rw [ih.2 c' f2 (by omega) (by omega)]

theorem decodeValue_fuel (c : Cur) (tag f1 f2 : Nat) (h1 : c.headLen + 2 ≤ f1) (h2 : c.headLen + 2 ≤ f2) :
    decodeValue f1 c tag = decodeValue f2 c tag := (decode_fuel_aux f1).1 c tag f2 h1 h2

theorem decodeFields_fuel (c : Cur) (f1 f2 : Nat) (h1 : c.bytes + 1 ≤ f1) (h2 : c.bytes + 1 ≤ f2) :
    decodeFields f1 c = decodeFields f2 c := (decode_fuel_aux f1).2 c f2 h1 h2

theorem Cur.headLen_start {bs : Bytes} {c : Cur} (h : Cur.start bs = .ok c) : c.headLen + 8 ≤ bs.length ∨ c.items = [] := by
  have hb := Cur.bytes_start h
  unfold Cur.bytes at hb
  unfold Cur.headLen
  cases hc : c.items with
  | nil => exact Or.inr rfl
  | cons it rest =>
    left
    rw [hc] at hb
    simp only [List.map_cons, List.sum_cons] at hb
    simp only
    omega

/-- FUEL 4. `unmarshalValue` (fuel `bs.length + 2`) is the decoder with ANY larger fuel. -/
theorem unmarshalValue_fuel (bs : Bytes) (fuel : Nat) (h : bs.length + 2 ≤ fuel) :
    unmarshalValue bs = (do let c ← Cur.start bs; let (it, _) ← decodeValue fuel c c.tag; pure it) := by
  unfold unmarshalValue
  cases hs : Cur.start bs with
  | err e => rfl
  | panic m => rfl
  | ok c =>
    simp only [Res.ok_bind]
    have hl : c.headLen + 2 ≤ bs.length + 2 := by
      rcases Cur.headLen_start hs with h1 | h1
      · omega
      · unfold Cur.headLen; rw [h1]; simp only; omega
    rw [decodeValue_fuel c c.tag (bs.length + 2) fuel hl (by omega)]

/-- the answer is not the fuel-exhaustion error (`Err.other` has no other use in `Model/Reader.lean`). -/
def Res.NotFuel {α : Type} (r : Res α) : Prop := r ≠ .err .other

theorem Res.notFuel_ok {α : Type} (a : α) : (Res.ok a).NotFuel := fun h => nomatch h
theorem Res.notFuel_panic {α : Type} (m : String) : (Res.panic m : Res α).NotFuel := fun h => nomatch h
theorem Res.notFuel_err {α : Type} (e : Err) (h : e ≠ .other) : (Res.err e : Res α).NotFuel :=
  fun hc => h (by injection hc)

theorem Res.notFuel_bind {α β : Type} {x : Res α} {f : α → Res β} (hx : x.NotFuel)
    (hf : ∀ a, x = .ok a → (f a).NotFuel) : (x >>= f).NotFuel := by
  cases x with
  | ok a => exact hf a rfl
  | err e => intro h; exact hx (by injection h with h; rw [h])
  | panic m => exact Res.notFuel_panic m

theorem Cur.expect_notFuel (c : Cur) (ty tag : Nat) : (c.expect ty tag).NotFuel := by
  unfold Cur.expect
  split
  · exact Res.notFuel_err _ (by decide)
  · split
    · exact Res.notFuel_err _ (by decide)
    · split
      · exact Res.notFuel_err _ (by decide)
      · exact Res.notFuel_ok _

theorem Cur.next_notFuel (c : Cur) (ht : c.tail ≠ some .other) : c.next.NotFuel := by
  unfold Cur.next
  split
  · exact Res.notFuel_ok _
  · split
    · rename_i e h
      exact Res.notFuel_err _ (fun he => ht (by rw [e, he]))
    · exact Res.notFuel_ok _

theorem Cur.start_notFuel (bs : Bytes) : (Cur.start bs).NotFuel := by
  have h := rawParse_not_fuel bs.length bs (Nat.le_refl _)
  unfold Cur.start
  rw [show rawParse bs.length bs = ((rawParse bs.length bs).1, (rawParse bs.length bs).2) from rfl]
  simp only
  split
  · rename_i e _ h2
    exact Res.notFuel_err _ (fun he => h (by rw [h2, he]))
  · exact Res.notFuel_ok _

theorem Cur.start_tail {bs : Bytes} {c : Cur} (h : Cur.start bs = .ok c) : c.tail ≠ some .other := by
  have hn := rawParse_not_fuel bs.length bs (Nat.le_refl _)
  unfold Cur.start at h
  rw [show rawParse bs.length bs = ((rawParse bs.length bs).1, (rawParse bs.length bs).2) from rfl] at h
  simp only at h
  split at h
  · cases h
  · injection h with h; subst h; exact hn

theorem Cur.tail_next_notFuel {α : Type} (c : Cur) (ht : c.tail ≠ some .other) (v : α) :
    (do let c1 ← c.next; pure (v, c1) : Res (α × Cur)).NotFuel :=
  Res.notFuel_bind (Cur.next_notFuel c ht) (fun _ _ => Res.notFuel_ok _)

theorem Cur.fixed_notFuel {α : Type} (c : Cur) (ht : c.tail ≠ some .other) (ty tag w : Nat)
    (conv : Bytes → Res α) (hc : ∀ v, (conv v).NotFuel) : (c.fixed ty tag w conv).NotFuel := by
  unfold Cur.fixed
  refine Res.notFuel_bind (Cur.expect_notFuel _ _ _) (fun it _ => ?_)
  split
  · exact Res.notFuel_err _ (by decide)
  · exact Res.notFuel_bind (hc _) (fun v _ => Cur.tail_next_notFuel c ht v)

theorem goU32_notFuel (v : Bytes) : (goU32 v).NotFuel := by
  unfold goU32; split
  · exact Res.notFuel_panic _
  · exact Res.notFuel_ok _
theorem goU64_notFuel (v : Bytes) : (goU64 v).NotFuel := by
  unfold goU64; split
  · exact Res.notFuel_panic _
  · exact Res.notFuel_ok _
theorem goIndex_notFuel (v : Bytes) (i : Nat) : (goIndex v i).NotFuel := by
  unfold goIndex; split
  · exact Res.notFuel_ok _
  · exact Res.notFuel_panic _
theorem goBytesToBigInt_notFuel (v : Bytes) : (goBytesToBigInt v).NotFuel := by
  unfold goBytesToBigInt; split
  · exact Res.notFuel_panic _
  · exact Res.notFuel_ok _

theorem Res.notFuel_map {α β : Type} {x : Res (α × Cur)} (k : α → β) (hx : x.NotFuel) :
    (do let p ← x; pure (k p.fst, p.snd) : Res (β × Cur)).NotFuel :=
  Res.notFuel_bind hx (fun _ _ => Res.notFuel_ok _)

theorem Cur.struct_notFuel {α : Type} (c : Cur) (ht : c.tail ≠ some .other) (tag : Nat) (f : Cur → Res α)
    (hf : ∀ inner : Cur, inner.tail ≠ some .other → inner.bytes ≤ c.headLen → (f inner).NotFuel) :
    (c.struct tag f).NotFuel := by
  unfold Cur.struct
  cases he : c.expect 1 tag with
  | err e =>
    have := Cur.expect_notFuel c 1 tag
    rw [he] at this
    exact fun h => this (by simpa using h)
  | panic m => exact Res.notFuel_panic m
  | ok it =>
    simp only [Res.ok_bind]
    have hit : c.headLen = it.val.length := by
      unfold Cur.expect at he
      unfold Cur.headLen
      split at he
      · cases he
      · rename_i it' rest h0
        rw [h0]
        split at he
        · cases he
        · split at he
          · cases he
          · injection he with he; subst he; rfl
    refine Res.notFuel_bind (Cur.start_notFuel _) (fun inner hs => ?_)
    refine Res.notFuel_bind (hf inner (Cur.start_tail hs) (by have := Cur.bytes_start hs; omega)) (fun a _ => ?_)
    exact Cur.tail_next_notFuel c ht a

/-- FUEL 5. with sufficient fuel the generic decoder never answers with the fuel-exhaustion error: every
    recursion of the model ends because the input ends, not because the fuel does. -/
theorem decode_notFuel_aux (f : Nat) :
    (∀ (c : Cur) (tag : Nat), c.tail ≠ some .other → c.headLen + 2 ≤ f → (decodeValue f c tag).NotFuel) ∧
    (∀ c : Cur, c.tail ≠ some .other → c.bytes + 1 ≤ f → (decodeFields f c).NotFuel) := by
  induction f with
  | zero => exact ⟨fun c tag _ h => absurd h (by omega), fun c _ h => absurd h (by omega)⟩
  | succ f ih =>
    constructor
    · intro c tag ht h
      rw [decodeValue]
      split
      · exact Res.notFuel_map _ (Cur.fixed_notFuel c ht _ _ _ _ (fun v =>
          Res.notFuel_bind (goU32_notFuel v) (fun _ _ => Res.notFuel_ok _)))
      · exact Res.notFuel_map _ (Cur.fixed_notFuel c ht _ _ _ _ (fun v =>
          Res.notFuel_bind (goU64_notFuel v) (fun _ _ => Res.notFuel_ok _)))
      · refine Res.notFuel_map _ ?_
        unfold Cur.bigInteger
        refine Res.notFuel_bind (Cur.expect_notFuel _ _ _) (fun it _ => ?_)
        split
        · exact Res.notFuel_err _ (by decide)
        · exact Res.notFuel_bind (goBytesToBigInt_notFuel _) (fun v _ => Cur.tail_next_notFuel c ht v)
      · exact Res.notFuel_map _ (Cur.fixed_notFuel c ht _ _ _ _ (fun v =>
          Res.notFuel_bind (goIndex_notFuel v 7) (fun _ _ => Res.notFuel_ok _)))
      · refine Res.notFuel_map _ ?_
        unfold Cur.byteString
        exact Res.notFuel_bind (Cur.expect_notFuel _ _ _) (fun it _ => Cur.tail_next_notFuel c ht _)
      · exact Res.notFuel_map _ (Cur.fixed_notFuel c ht _ _ _ _ (fun v =>
          Res.notFuel_bind (goU64_notFuel v) (fun _ _ => Res.notFuel_ok _)))
      · exact Res.notFuel_map _ (Cur.fixed_notFuel c ht _ _ _ _ goU32_notFuel)
      · exact Res.notFuel_map _ (Cur.fixed_notFuel c ht _ _ _ _ goU32_notFuel)
      · refine Res.notFuel_map _ ?_
        unfold Cur.textString
        exact Res.notFuel_bind (Cur.expect_notFuel _ _ _) (fun it _ => Cur.tail_next_notFuel c ht _)
      · exact Res.notFuel_map _ (Cur.struct_notFuel c ht tag _ (fun inner hti hb => ih.2 inner hti (by omega)))
      · exact Res.notFuel_err _ (by decide)
    · intro c ht h
      rw [decodeFields]
      split
      · exact Res.notFuel_ok _
      · rename_i htag
        have hcons : ∃ it rest, c.items = it :: rest := by
          cases hc : c.items with
          | nil => exact absurd (by unfold Cur.tag; rw [hc]) htag
          | cons it rest => exact ⟨it, rest, rfl⟩
        obtain ⟨it, rest, hc⟩ := hcons
        have hb : c.bytes = 8 + it.val.length + (rest.map fun it => 8 + it.val.length).sum := by
          unfold Cur.bytes; rw [hc]; simp only [List.map_cons, List.sum_cons]
        have hh : c.headLen = it.val.length := by unfold Cur.headLen; rw [hc]
        refine Res.notFuel_bind (ih.1 c c.tag ht (by omega)) (fun p hp => ?_)
        obtain ⟨x, c'⟩ := p
        have hi := decodeValue_items hp
        have hb' : c'.bytes = (rest.map fun it => 8 + it.val.length).sum := by
          unfold Cur.bytes; rw [hi.1, hc]; rfl
        exact Res.notFuel_bind (ih.2 c' (by rw [hi.2]; exact ht) (by omega)) (fun _ _ => Res.notFuel_ok _)

/-- FUEL 6. `UnmarshalTTLV(bs, &ttlv.Value{})` in the model never runs out of fuel — for every byte string. -/
theorem unmarshalValue_notFuel (bs : Bytes) : (unmarshalValue bs).NotFuel := by
  unfold unmarshalValue
  refine Res.notFuel_bind (Cur.start_notFuel bs) (fun c hs => ?_)
  have hl : c.headLen + 2 ≤ bs.length + 2 := by
    rcases Cur.headLen_start hs with h1 | h1
    · omega
    · unfold Cur.headLen; rw [h1]; simp only; omega
  exact Res.notFuel_bind ((decode_notFuel_aux _).1 c c.tag (Cur.start_tail hs) hl) (fun _ _ => Res.notFuel_ok _)

/-! ### 4. the slice-level methods on a buffer with a complete header -/

theorem exists_cons8 : (bs : Bytes) → 8 ≤ bs.length →
    ∃ a0 a1 a2 a3 a4 a5 a6 a7 tl, bs = a0 :: a1 :: a2 :: a3 :: a4 :: a5 :: a6 :: a7 :: tl
  | a0 :: a1 :: a2 :: a3 :: a4 :: a5 :: a6 :: a7 :: tl, _ => ⟨a0, a1, a2, a3, a4, a5, a6, a7, tl, rfl⟩
  | [], h | [_], h | [_, _], h | [_, _, _], h | [_, _, _, _], h | [_, _, _, _, _], h
  | [_, _, _, _, _, _], h | [_, _, _, _, _, _, _], h => by simp at h

theorem hdrLen_lt (bs : Bytes) : hdrLen bs < 2 ^ 32 := by
  unfold hdrLen
  have h := beVal_lt ((bs.drop 4).take 4)
  have hl : ((bs.drop 4).take 4).length ≤ 4 := by rw [List.length_take]; omega
  have : 256 ^ ((bs.drop 4).take 4).length ≤ 256 ^ 4 := Nat.pow_le_pow_right (by decide) hl
  have e : (256 : Nat) ^ 4 = 2 ^ 32 := by decide
  omega

theorem G.tag_valid (b : GoSlice) (h8 : 8 ≤ b.vis.length) : G.tag b = .ok (headItem b.vis).tag := by
  obtain ⟨vis, r⟩ := b
  obtain ⟨a0, a1, a2, a3, a4, a5, a6, a7, tl, rfl⟩ := exists_cons8 vis h8
  rfl

theorem G.type_valid (b : GoSlice) (h8 : 8 ≤ b.vis.length) : G.type b = .ok (headItem b.vis).ty := by
  obtain ⟨vis, r⟩ := b
  obtain ⟨a0, a1, a2, a3, a4, a5, a6, a7, tl, rfl⟩ := exists_cons8 vis h8
  rfl

theorem G.lenField_valid (b : GoSlice) (h8 : 8 ≤ b.vis.length) : G.lenField b = .ok (hdrLen b.vis) := by
  unfold G.lenField
  rw [show ((4 : Int) = ((4 : Nat) : Int)) from rfl, show ((8 : Int) = ((8 : Nat) : Int)) from rfl,
    GoSlice.slice_within b 4 8 (by decide) h8]
  obtain ⟨vis, r⟩ := b
  obtain ⟨a0, a1, a2, a3, a4, a5, a6, a7, tl, rfl⟩ := exists_cons8 vis h8
  rfl

theorem G.len_pos_eq (cfg : GoCfg) (b : GoSlice) (h8 : 8 ≤ b.vis.length) :
    G.len cfg b = .ok (wrapInt cfg.intBits (hdrLen b.vis)) := by
  unfold G.len
  rw [if_neg (by unfold GoSlice.len; omega), G.lenField_valid b h8]
  rfl

theorem G.paddedLen_pos_eq (cfg : GoCfg) (b : GoSlice) (h8 : 8 ≤ b.vis.length) :
    G.paddedLen cfg b = .ok (wrapInt cfg.intBits
      (wrapInt cfg.intBits (hdrLen b.vis) + goPad8 (wrapInt cfg.intBits (hdrLen b.vis)))) := by
  unfold G.paddedLen
  rw [G.len_pos_eq cfg b h8]
  rfl

/-- when the relevant values are representable, `paddedLen()` is the padded length field. -/
theorem G.paddedLen_nowrap (cfg : GoCfg) (b : GoSlice) (h8 : 8 ≤ b.vis.length)
    (hw : ∀ n : Nat, n ≤ Kmip.paddedLen (hdrLen b.vis) → wrapInt cfg.intBits n = n) :
    G.paddedLen cfg b = .ok ((Kmip.paddedLen (hdrLen b.vis) : Nat) : Int) := by
  rw [G.paddedLen_pos_eq cfg b h8, hw _ (le_paddedLen _), goPad8_nat]
  have : ((hdrLen b.vis : Nat) : Int) + ((padForLen (hdrLen b.vis) 8 : Nat) : Int)
      = ((Kmip.paddedLen (hdrLen b.vis) : Nat) : Int) := by unfold Kmip.paddedLen; omega
  rw [this, hw _ (Nat.le_refl _)]

theorem paddedLen_hdr_lt (bs : Bytes) : paddedLen (hdrLen bs) + 8 < 2 ^ 33 := by
  have := hdrLen_lt bs
  have := paddedLen_le (hdrLen bs)
  have e : (2 : Nat) ^ 33 = 2 * 2 ^ 32 := by decide
  omega

theorem G.validate_tail (b : GoSlice) (h8 : 8 ≤ b.vis.length) (c : Prop) [Decidable c] :
    (if decide c = true then (Res.err .shortValue : Res Unit) else do
        let ty ← G.type b
        if ty > 10 ∨ ty = 0 then .err .badType else .ok ())
      = match (if c then some Err.shortValue
               else if (b.vis.getD 3 0).toNat > 10 ∨ (b.vis.getD 3 0).toNat = 0 then some .badType
               else none) with
        | none => .ok ()
        | some e => .err e := by
  by_cases hs : c
  · simp only [hs, decide_true, if_true]
  · simp only [hs, decide_false, Bool.false_eq_true, if_false]
    rw [G.type_valid b h8]
    simp only [Res.ok_bind]
    have : (headItem b.vis).ty = (b.vis.getD 3 0).toNat := rfl
    rw [this]
    split <;> rfl

/-- `validate()` of the slice-level reader = the head check of the abstract parser (no panic). -/
theorem G.validate_eq (cfg : GoCfg) (b : GoSlice) (hok : cfg.Ok b.vis.length) :
    G.validate cfg b = match headErr b.vis with
      | none => .ok ()
      | some e => .err e := by
  unfold G.validate headErr
  by_cases h0 : b.vis = []
  · simp [GoSlice.len, h0]
  · have hpos : 0 < b.vis.length := List.length_pos_iff.2 h0
    have hE : b.vis.isEmpty = false := by cases hb : b.vis <;> simp_all
    rw [if_neg (by unfold GoSlice.len; omega), hE]
    simp only [Bool.false_eq_true, if_false]
    by_cases h8 : b.vis.length < 8
    · rw [if_pos (by unfold GoSlice.len; exact h8), if_pos h8]
    · rw [if_neg (by unfold GoSlice.len; exact h8), if_neg h8]
      have h8' : 8 ≤ b.vis.length := by omega
      rw [show ((8 : Int) = ((8 : Nat) : Int)) from rfl, GoSlice.sliceFrom_within b 8 h8']
      simp only [Res.ok_bind]
      cases hw : cfg.wide
      · have h33 := fun n h => GoCfg.Ok.wrap33 hok hw n h
        have hpl := paddedLen_hdr_lt b.vis
        rw [if_neg (by simp), G.paddedLen_nowrap cfg b h8' (fun n hn => h33 n (by omega))]
        simp only [Res.ok_bind, Res.pure_eq, GoSlice.len, List.length_drop, Int.ofNat_lt]
        exact G.validate_tail b h8' _
      · rw [if_pos rfl, G.lenField_valid b h8']
        simp only [Res.ok_bind, Res.pure_eq, GoSlice.len, List.length_drop, paddedLen_div]
        exact G.validate_tail b h8' _

/-! ### 5. a validated reader: every method, without panic, equals the abstract one -/

/-- the state `newTTLVReader` / `Next` leave behind when they return no error. -/
structure G.Valid (cfg : GoCfg) (b : GoSlice) : Prop where
  head : headErr b.vis = none
  ok : cfg.Ok b.vis.length

/-- same outcome (value / error class / panic) of a slice-level and an abstract computation. -/
def SimV {α : Type} : Res α → Res α → Prop
  | .ok x, .ok y => x = y
  | .err e, .err e' => e = e'
  | .panic _, .panic _ => True
  | _, _ => False

/-- same outcome, and the readers left behind correspond (and the slice-level one is validated). -/
def G.Sim {α : Type} (cfg : GoCfg) : Res (α × GoSlice) → Res (α × Cur) → Prop
  | .ok (x, b'), .ok (y, c') => x = y ∧ G.Valid cfg b' ∧ c' = Cur.ofBytes b'.vis
  | .err e, .err e' => e = e'
  | .panic _, .panic _ => True
  | _, _ => False

theorem SimV.noPanic {α : Type} {g a : Res α} (h : SimV g a) (ha : a.NoPanic) : g.NoPanic := by
  intro m hg
  subst hg
  cases a with
  | ok _ => exact h
  | err _ => exact h
  | panic m' => exact ha m' rfl

theorem SimV.eq {α : Type} {g a : Res α} (h : SimV g a) (ha : a.NoPanic) : g = a := by
  cases g <;> cases a <;> simp only [SimV] at h
  · rw [h]
  · rw [h]
  · rename_i m'; exact absurd rfl (ha m')

theorem G.Sim.noPanic {α : Type} {cfg : GoCfg} {g : Res (α × GoSlice)} {a : Res (α × Cur)}
    (h : G.Sim cfg g a) (ha : a.NoPanic) : g.NoPanic := by
  intro m hg
  subst hg
  cases a with
  | ok p => exact h
  | err _ => exact h
  | panic m' => exact ha m' rfl

section valid
variable {cfg : GoCfg} {b : GoSlice}

theorem G.Valid.bounds (hv : G.Valid cfg b) (hne : b.vis ≠ []) :
    8 ≤ b.vis.length ∧ Kmip.paddedLen (hdrLen b.vis) ≤ b.vis.length - 8 ∧ hdrLen b.vis ≤ Kmip.paddedLen (hdrLen b.vis) :=
  ⟨(headErr_none hv.head hne).1, (headErr_none hv.head hne).2.1, le_paddedLen _⟩

theorem G.Valid.wrap (hv : G.Valid cfg b) (hne : b.vis ≠ []) (n : Nat)
    (hn : n ≤ 8 + Kmip.paddedLen (hdrLen b.vis)) : wrapInt cfg.intBits (n : Int) = n := by
  obtain ⟨h8, hp, _⟩ := hv.bounds hne
  have := paddedLen_hdr_lt b.vis
  exact hv.ok.wrap n (by omega) (by omega)

theorem G.len_valid (hv : G.Valid cfg b) (hne : b.vis ≠ []) :
    G.len cfg b = .ok ((hdrLen b.vis : Nat) : Int) := by
  obtain ⟨h8, hp, hl⟩ := hv.bounds hne
  rw [G.len_pos_eq cfg b h8, hv.wrap hne _ (by omega)]

theorem G.paddedLen_valid (hv : G.Valid cfg b) (hne : b.vis ≠ []) :
    G.paddedLen cfg b = .ok ((Kmip.paddedLen (hdrLen b.vis) : Nat) : Int) :=
  G.paddedLen_nowrap cfg b (hv.bounds hne).1 (fun n hn => hv.wrap hne n (by omega))

theorem headItem_val_length (hv : G.Valid cfg b) (hne : b.vis ≠ []) :
    (headItem b.vis).val.length = hdrLen b.vis := by
  obtain ⟨h8, hp, hl⟩ := hv.bounds hne
  unfold headItem
  simp only [List.length_take, List.length_drop]
  omega

/-- `value()` = the abstract item's value; what follows it in the buffer is within capacity (hence
    reachable by a re-slice — which is why `Struct` clips). -/
theorem G.value_valid (hv : G.Valid cfg b) (hne : b.vis ≠ []) :
    G.value cfg b = .ok { vis := (headItem b.vis).val, rest := b.vis.drop (8 + hdrLen b.vis) ++ b.rest } := by
  obtain ⟨h8, hp, hl⟩ := hv.bounds hne
  unfold G.value
  rw [if_neg (by unfold GoSlice.len; omega), G.len_valid hv hne]
  simp only [Res.ok_bind]
  have e : (8 : Int) + ((hdrLen b.vis : Nat) : Int) = ((8 + hdrLen b.vis : Nat) : Int) := by push_cast; rfl
  rw [e, hv.wrap hne _ (by omega), show ((8 : Int) = ((8 : Nat) : Int)) from rfl,
    GoSlice.slice_within b 8 (8 + hdrLen b.vis) (by omega) (by omega)]
  simp only [Nat.add_sub_cancel_left]
  rfl

theorem afterHead_length_le (bs : Bytes) : (afterHead bs).length ≤ bs.length := by
  unfold afterHead; rw [List.length_drop]; omega

/-- `Next()` = drop the item, run the head check on what follows. -/
theorem G.next_valid (hv : G.Valid cfg b) (hne : b.vis ≠ []) :
    G.next cfg b = match headErr (afterHead b.vis) with
      | none => .ok { vis := afterHead b.vis, rest := b.rest }
      | some e => .err e := by
  obtain ⟨h8, hp, hl⟩ := hv.bounds hne
  unfold G.next
  rw [G.paddedLen_valid hv hne]
  simp only [Res.ok_bind]
  have e : (8 : Int) + ((Kmip.paddedLen (hdrLen b.vis) : Nat) : Int)
      = ((8 + Kmip.paddedLen (hdrLen b.vis) : Nat) : Int) := by push_cast; rfl
  rw [e, hv.wrap hne _ (Nat.le_refl _), GoSlice.sliceFrom_within b _ (by omega)]
  simp only [Res.ok_bind]
  rw [G.validate_eq cfg _ (hv.ok.mono (afterHead_length_le b.vis))]
  unfold afterHead
  cases headErr (b.vis.drop (8 + Kmip.paddedLen (hdrLen b.vis))) <;> rfl

theorem G.next_valid_valid (hv : G.Valid cfg b) (hne : b.vis ≠ []) {b' : GoSlice}
    (h : G.next cfg b = .ok b') : G.Valid cfg b' ∧ b'.vis = afterHead b.vis ∧ b'.rest = b.rest := by
  rw [G.next_valid hv hne] at h
  cases he : headErr (afterHead b.vis) with
  | some e => rw [he] at h; cases h
  | none =>
    rw [he] at h
    injection h with h
    subst h
    exact ⟨⟨he, hv.ok.mono (afterHead_length_le b.vis)⟩, rfl, rfl⟩

theorem G.assertType_valid (hv : G.Valid cfg b) (hne : b.vis ≠ []) (ty tag : Nat) :
    G.assertType b ty tag =
      if (headItem b.vis).tag ≠ tag then .err .tagMismatch
      else if (headItem b.vis).ty ≠ ty then .err .typeMismatch
      else .ok () := by
  obtain ⟨h8, _, _⟩ := hv.bounds hne
  unfold G.assertType
  rw [if_neg (by unfold GoSlice.len; omega), G.tag_valid b h8, G.type_valid b h8]
  simp only [Res.ok_bind]

theorem G.assertLen_valid (hv : G.Valid cfg b) (hne : b.vis ≠ []) (n : Nat) :
    G.assertLen cfg b n = if (headItem b.vis).val.length ≠ n then .err .badLength else .ok () := by
  unfold G.assertLen
  rw [G.len_valid hv hne, headItem_val_length hv hne]
  simp only [Res.ok_bind, ne_eq, Int.natCast_inj]

theorem G.assertType_nil (hb : b.vis = []) (ty tag : Nat) : G.assertType b ty tag = .err .eof := by
  unfold G.assertType GoSlice.len; rw [hb]; rfl

/-- the tail shared by all getters: `Next()` against `Cur.next`. -/
theorem G.next_sim {α : Type} (hv : G.Valid cfg b) (hne : b.vis ≠ []) (x : α) :
    G.Sim cfg (do let b' ← G.next cfg b; pure (x, b')) (do let c' ← (Cur.ofBytes b.vis).next; pure (x, c')) := by
  rw [G.next_valid hv hne, Cur.next_ofBytes hv.head hne]
  cases he : headErr (afterHead b.vis) with
  | some e => exact rfl
  | none => exact ⟨rfl, ⟨he, hv.ok.mono (afterHead_length_le b.vis)⟩, rfl⟩

theorem G.fixed_sim {α : Type} (hv : G.Valid cfg b) (ty tag width : Nat) (conv : Bytes → Res α) :
    G.Sim cfg (G.fixed cfg b ty tag width conv) ((Cur.ofBytes b.vis).fixed ty tag width conv) := by
  unfold G.fixed Cur.fixed
  by_cases hne : b.vis = []
  · rw [G.assertType_nil hne, hne]; exact rfl
  · rw [G.assertType_valid hv hne, Cur.expect_ofBytes hv.head hne]
    by_cases h1 : (headItem b.vis).tag ≠ tag
    · rw [if_pos h1, if_pos h1]; exact rfl
    · rw [if_neg h1, if_neg h1]
      by_cases h2 : (headItem b.vis).ty ≠ ty
      · rw [if_pos h2, if_pos h2]; exact rfl
      · rw [if_neg h2, if_neg h2]
        simp only [Res.ok_bind]
        rw [G.assertLen_valid hv hne]
        by_cases h3 : (headItem b.vis).val.length ≠ width
        · rw [if_pos h3, if_pos h3]; exact rfl
        · rw [if_neg h3, if_neg h3, G.value_valid hv hne]
          simp only [Res.ok_bind]
          cases conv (headItem b.vis).val with
          | ok x => simp only [Res.ok_bind]; exact G.next_sim hv hne x
          | err e => exact rfl
          | panic m => exact trivial

theorem G.integer_sim (hv : G.Valid cfg b) (tag : Nat) :
    G.Sim cfg (G.integer cfg b tag) ((Cur.ofBytes b.vis).integer tag) := G.fixed_sim hv _ _ _ _
theorem G.longInteger_sim (hv : G.Valid cfg b) (tag : Nat) :
    G.Sim cfg (G.longInteger cfg b tag) ((Cur.ofBytes b.vis).longInteger tag) := G.fixed_sim hv _ _ _ _
theorem G.enum_sim (hv : G.Valid cfg b) (tag : Nat) :
    G.Sim cfg (G.enum cfg b tag) ((Cur.ofBytes b.vis).enum tag) := G.fixed_sim hv _ _ _ _
theorem G.bool_sim (hv : G.Valid cfg b) (tag : Nat) :
    G.Sim cfg (G.bool cfg b tag) ((Cur.ofBytes b.vis).bool tag) := G.fixed_sim hv _ _ _ _
theorem G.dateTime_sim (hv : G.Valid cfg b) (tag : Nat) :
    G.Sim cfg (G.dateTime cfg b tag) ((Cur.ofBytes b.vis).dateTime tag) := G.fixed_sim hv _ _ _ _
theorem G.interval_sim (hv : G.Valid cfg b) (tag : Nat) :
    G.Sim cfg (G.interval cfg b tag) ((Cur.ofBytes b.vis).interval tag) := G.fixed_sim hv _ _ _ _

theorem G.bigInteger_sim (hv : G.Valid cfg b) (tag : Nat) :
    G.Sim cfg (G.bigInteger cfg b tag) ((Cur.ofBytes b.vis).bigInteger tag) := by
  unfold G.bigInteger Cur.bigInteger
  by_cases hne : b.vis = []
  · rw [G.assertType_nil hne, hne]; exact rfl
  · rw [G.assertType_valid hv hne, Cur.expect_ofBytes hv.head hne]
    by_cases h1 : (headItem b.vis).tag ≠ tag
    · rw [if_pos h1, if_pos h1]; exact rfl
    · rw [if_neg h1, if_neg h1]
      by_cases h2 : (headItem b.vis).ty ≠ 4
      · rw [if_pos h2, if_pos h2]; exact rfl
      · rw [if_neg h2, if_neg h2]
        simp only [Res.ok_bind]
        rw [G.value_valid hv hne]
        simp only [Res.ok_bind]
        by_cases h3 : (headItem b.vis).val.isEmpty
        · rw [if_pos h3, if_pos h3]; exact rfl
        · rw [if_neg h3, if_neg h3]
          cases goBytesToBigInt (headItem b.vis).val with
          | ok x => simp only [Res.ok_bind]; exact G.next_sim hv hne x
          | err e => exact rfl
          | panic m => exact trivial

theorem G.string_sim (hv : G.Valid cfg b) (ty tag : Nat) :
    G.Sim cfg (do G.assertType b ty tag; let v ← G.value cfg b; let b' ← G.next cfg b; pure (v.vis, b'))
      (do let it ← (Cur.ofBytes b.vis).expect ty tag; let c' ← (Cur.ofBytes b.vis).next; pure (it.val, c')) := by
  by_cases hne : b.vis = []
  · rw [G.assertType_nil hne, hne]; exact rfl
  · rw [G.assertType_valid hv hne, Cur.expect_ofBytes hv.head hne]
    by_cases h1 : (headItem b.vis).tag ≠ tag
    · rw [if_pos h1, if_pos h1]; exact rfl
    · rw [if_neg h1, if_neg h1]
      by_cases h2 : (headItem b.vis).ty ≠ ty
      · rw [if_pos h2, if_pos h2]; exact rfl
      · rw [if_neg h2, if_neg h2]
        simp only [Res.ok_bind]
        rw [G.value_valid hv hne]
        simp only [Res.ok_bind]
        exact G.next_sim hv hne _

theorem G.textString_sim (hv : G.Valid cfg b) (tag : Nat) :
    G.Sim cfg (G.textString cfg b tag) ((Cur.ofBytes b.vis).textString tag) := G.string_sim hv 7 tag
theorem G.byteString_sim (hv : G.Valid cfg b) (tag : Nat) :
    G.Sim cfg (G.byteString cfg b tag) ((Cur.ofBytes b.vis).byteString tag) := G.string_sim hv 8 tag

/-- `Struct(tag, f)`: the callback runs on a validated reader over exactly the declared value, whose
    CAPACITY ends with it (`rest = []`): nothing outside the declared extent is reachable from it, not even
    by re-slicing. Under that guarantee the slice-level and the abstract `Struct` agree. -/
theorem G.struct_sim {α : Type} (hv : G.Valid cfg b) (tag : Nat) (f : GoSlice → Res α) (f' : Cur → Res α)
    (hf : ∀ inner : GoSlice, G.Valid cfg inner → inner.rest = [] →
      inner.vis.length ≤ b.vis.length - 8 → SimV (f inner) (f' (Cur.ofBytes inner.vis))) :
    G.Sim cfg (G.struct cfg b tag f) ((Cur.ofBytes b.vis).struct tag f') := by
  unfold G.struct Cur.struct
  by_cases hne : b.vis = []
  · rw [G.assertType_nil hne, hne]; exact rfl
  · rw [G.assertType_valid hv hne, Cur.expect_ofBytes hv.head hne]
    by_cases h1 : (headItem b.vis).tag ≠ tag
    · rw [if_pos h1, if_pos h1]; exact rfl
    · rw [if_neg h1, if_neg h1]
      by_cases h2 : (headItem b.vis).ty ≠ 1
      · rw [if_pos h2, if_pos h2]; exact rfl
      · rw [if_neg h2, if_neg h2]
        simp only [Res.ok_bind]
        rw [G.value_valid hv hne]
        simp only [Res.ok_bind]
        rw [GoSlice.slice3_clip]
        simp only [Res.ok_bind]
        obtain ⟨h8, hp, hl⟩ := hv.bounds hne
        have hlen : (headItem b.vis).val.length ≤ b.vis.length - 8 := by
          rw [headItem_val_length hv hne]; omega
        have hok' : cfg.Ok (headItem b.vis).val.length := hv.ok.mono (by omega)
        unfold G.newReader
        rw [G.validate_eq cfg _ hok', Cur.start_eq]
        cases he : headErr (headItem b.vis).val with
        | some e => exact rfl
        | none =>
          simp only [Res.ok_bind, Res.pure_eq]
          have := hf { vis := (headItem b.vis).val, rest := [] } ⟨he, hok'⟩ rfl hlen
          revert this
          cases f { vis := (headItem b.vis).val, rest := [] } <;>
            cases f' (Cur.ofBytes (headItem b.vis).val) <;> intro h <;> simp only [SimV] at h
          · subst h; simp only [Res.ok_bind]; exact G.next_sim hv hne _
          · subst h; exact rfl
          · exact trivial

end valid

/-- `Struct(tag, f)` hands `f` a reader whose capacity equals its length, always (valid buffer or not):
    running `f` only on such readers changes nothing. -/
theorem G.struct_inner_clipped {α : Type} (cfg : GoCfg) (b : GoSlice) (tag : Nat) (f : GoSlice → Res α) :
    G.struct cfg b tag f
      = G.struct cfg b tag (fun inner => if inner.rest = [] then f inner else .panic "capacity not clipped") := by
  unfold G.struct
  cases G.assertType b 1 tag with
  | err e => rfl
  | panic m => rfl
  | ok u =>
    simp only [Res.ok_bind]
    cases G.value cfg b with
    | err e => rfl
    | panic m => rfl
    | ok v =>
      simp only [Res.ok_bind]
      rw [GoSlice.slice3_clip]
      simp only [Res.ok_bind]
      unfold G.newReader
      cases G.validate cfg { vis := v.vis, rest := [] } with
      | err e => rfl
      | panic m => rfl
      | ok u' => simp only [Res.ok_bind, Res.pure_eq, if_true]

/-! ### 6. the generic decoder over the slice-level reader -/

theorem G.Sim.map {α β : Type} {cfg : GoCfg} {g : Res (α × GoSlice)} {a : Res (α × Cur)} (k : α → β)
    (h : G.Sim cfg g a) :
    G.Sim cfg (do let x ← g; pure (k x.fst, x.snd)) (do let x ← a; pure (k x.fst, x.snd)) := by
  cases g with
  | ok p =>
    cases a with
    | ok q => obtain ⟨x, b'⟩ := p; obtain ⟨y, c'⟩ := q; obtain ⟨h1, h2, h3⟩ := h; subst h1; exact ⟨rfl, h2, h3⟩
    | err _ => exact h.elim
    | panic _ => exact h.elim
  | err e =>
    cases a with
    | ok q => exact h.elim
    | err _ => exact h
    | panic _ => exact h.elim
  | panic m =>
    cases a with
    | ok q => exact h.elim
    | err _ => exact h.elim
    | panic _ => exact trivial

theorem G.type_of_valid {cfg : GoCfg} {b : GoSlice} (hv : G.Valid cfg b) :
    G.type b = .ok (Cur.ofBytes b.vis).ty := by
  by_cases hne : b.vis = []
  · unfold G.type GoSlice.len; rw [hne]; rfl
  · rw [G.type_valid b (hv.bounds hne).1, Cur.ty_ofBytes hv.head hne]

theorem G.tag_of_valid {cfg : GoCfg} {b : GoSlice} (hv : G.Valid cfg b) :
    G.tag b = .ok (Cur.ofBytes b.vis).tag := by
  by_cases hne : b.vis = []
  · unfold G.tag GoSlice.len; rw [hne]; rfl
  · rw [G.tag_valid b (hv.bounds hne).1, Cur.tag_ofBytes hv.head hne]

theorem G.decode_sim (cfg : GoCfg) (fuel : Nat) :
    (∀ (b : GoSlice) (tag : Nat), G.Valid cfg b →
      G.Sim cfg (G.decodeValue cfg fuel b tag) (Kmip.decodeValue fuel (Cur.ofBytes b.vis) tag)) ∧
    (∀ b : GoSlice, G.Valid cfg b →
      SimV (G.decodeFields cfg fuel b) (Kmip.decodeFields fuel (Cur.ofBytes b.vis))) := by
  induction fuel with
  | zero =>
    constructor
    · intro b tag _; rw [G.decodeValue, Kmip.decodeValue]; exact rfl
    · intro b _; rw [G.decodeFields, Kmip.decodeFields]; exact rfl
  | succ fuel ih =>
    constructor
    · intro b tag hv
      rw [G.decodeValue, Kmip.decodeValue, G.type_of_valid hv]
      simp only [Res.ok_bind]
      generalize (Cur.ofBytes b.vis).ty = t
      split
      · exact G.Sim.map _ (G.integer_sim hv tag)
      · exact G.Sim.map _ (G.longInteger_sim hv tag)
      · exact G.Sim.map _ (G.bigInteger_sim hv tag)
      · exact G.Sim.map _ (G.bool_sim hv tag)
      · exact G.Sim.map _ (G.byteString_sim hv tag)
      · exact G.Sim.map _ (G.dateTime_sim hv tag)
      · exact G.Sim.map _ (G.enum_sim hv tag)
      · exact G.Sim.map _ (G.interval_sim hv tag)
      · exact G.Sim.map _ (G.textString_sim hv tag)
      · exact G.Sim.map _ (G.struct_sim hv tag _ _ (fun inner hvi _ _ => ih.2 inner hvi))
      · split <;> first | exact rfl | (exfalso; simp_all)
    · intro b hv
      rw [G.decodeFields, Kmip.decodeFields, G.tag_of_valid hv]
      simp only [Res.ok_bind]
      split
      · exact rfl
      · have h1 := ih.1 b (Cur.ofBytes b.vis).tag hv
        revert h1
        cases G.decodeValue cfg fuel b (Cur.ofBytes b.vis).tag <;>
          cases Kmip.decodeValue fuel (Cur.ofBytes b.vis) (Cur.ofBytes b.vis).tag <;>
          intro h1 <;> simp only [G.Sim] at h1
        · rename_i p q
          obtain ⟨x, b'⟩ := p
          obtain ⟨y, c'⟩ := q
          obtain ⟨e1, hv', e3⟩ := h1
          subst e1 e3
          simp only [Res.ok_bind]
          have h2 := ih.2 b' hv'
          revert h2
          cases G.decodeFields cfg fuel b' <;> cases Kmip.decodeFields fuel (Cur.ofBytes b'.vis) <;>
            intro h2 <;> simp only [SimV] at h2
          · subst h2; exact rfl
          · subst h2; exact rfl
          · exact trivial
        · subst h1; exact rfl
        · exact trivial

/-- REFINEMENT. `UnmarshalTTLV(data, &ttlv.Value{})` over the slice-level reader has the outcome of the
    abstract decoder on `data[0:len]`, whatever lies between `len(data)` and `cap(data)`. -/
theorem G.unmarshalValue_sim (cfg : GoCfg) (data : GoSlice) (hok : cfg.Ok data.vis.length) :
    SimV (G.unmarshalValue cfg data) (Kmip.unmarshalValue data.vis) := by
  unfold G.unmarshalValue Kmip.unmarshalValue G.newReader
  rw [G.validate_eq cfg data hok, Cur.start_eq]
  cases he : headErr data.vis with
  | some e => exact rfl
  | none =>
    have hv : G.Valid cfg data := ⟨he, hok⟩
    simp only [Res.ok_bind, Res.pure_eq]
    rw [G.tag_of_valid hv]
    simp only [Res.ok_bind]
    have h1 := (G.decode_sim cfg (data.vis.length + 2)).1 data (Cur.ofBytes data.vis).tag hv
    unfold GoSlice.len
    revert h1
    cases G.decodeValue cfg (data.vis.length + 2) data (Cur.ofBytes data.vis).tag <;>
      cases Kmip.decodeValue (data.vis.length + 2) (Cur.ofBytes data.vis) (Cur.ofBytes data.vis).tag <;>
      intro h1 <;> simp only [G.Sim] at h1
    · rename_i p q
      obtain ⟨x, b'⟩ := p
      obtain ⟨y, c'⟩ := q
      exact h1.1
    · subst h1; exact rfl
    · exact trivial

end Kmip
