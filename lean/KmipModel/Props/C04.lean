/-
  C04 — XML and JSON encodings are interchangeable with binary TTLV.

  What is proved here is the library's own LEXICAL and ELEMENT layer over parsed documents
  (`Model/Lex.lean`): for EVERY generic TTLV tree of the representable domain — any depth, any width,
  every value of every scalar type — the XML element tree / JSON value the writers produce is decoded
  by the readers to that very tree, hence to a tree whose binary TTLV encoding is byte-identical.

  Parameters, never axioms:
    * `T : Tables` with `T.WF` — the registries satisfy the C17 conditions (tag / enumeration tables
      are bijections with clean names, mask tables well-formed); `genTables_wf` discharges them for the
      registry regenerated from the Go tree, through the C17 theorems;
    * `R : Rfc3339` with `R.Lawful` — `time.Parse(RFC3339, time.Format(RFC3339, s)) = s` for whole
      seconds whose year IN THE LOCATION THE WRITER FORMATS IN is within 0..9999 (`R.inYears`, the test
      the readers apply), and the years 1..9999 of the property pass that test (trusted standard
      library); `toyR_lawful` shows the hypothesis is satisfiable.  It is true of Go for the UTC location
      only: `zone_east_not_lawful` / `zone_east_date_lost` and `zone_lmt_not_lawful` show what goes wrong
      for a writer that formats in a zone east of Greenwich or in a zone whose offset has seconds — which
      is what /repo's writers DID when `time.Local` was such a zone, until /repo 678b3ea (they now call
      `date.UTC().Format`, so the hypothesis concerns UTC whatever `time.Local` is; finding
      `xml:zone:decode-error`, fixed; a revert is caught on the real code by the `zone` oracle of the lex
      engine);
    * `H : Hints` — what the caller of the reader tells it about enumerations and masks, POSITION BY
      POSITION (a function of the path of child indices and of the tag); the generic decoder
      `ttlv.Value` is `noHints`, a caller that looks at the tag only is `Hints.ofTag f`.  `xml_roundtrip`
      asks that the annotations of the tree are the hints (`Representable`); `xml_roundtrip_any` removes
      the condition: EVERY in-scope annotated tree (`InScope`: KMIP tags, Go value ranges, dates in
      years 1..9999 — nothing about annotations) is read back by the reader that is told, at each
      position, what the writer was told there (`t.hints`).  This includes messages whose
      `AttributeValue` elements carry different enumeration / mask types (`sampleMixed`), which no
      tag-keyed hint can describe (`sampleMixed_no_tag_hints`).  That the TYPED decoder makes at each
      position the choice the typed encoder made is the typed layer, checked on the real code.
  Trusted and outside the model: the tokenisers and escapers of encoding/xml and encoding/json (a text
  string is its byte sequence; which byte sequences survive escaping + tokenising is their business),
  and RFC 3339 itself.  The typed traversal (which Go field receives which element) is the plan layer
  of C01 and is tied to the real code by the `text` / `vectors` / `plan` engines.
-/
import KmipModel.Lemmas.LexLemmas
import KmipModel.Props.C03
import KmipModel.Props.C17
namespace Kmip.C04
open Kmip Kmip.Reg Kmip.Lex

/-! ## 0. the parameters are satisfiable -/

/-- the registry regenerated from the current Go tree. -/
def genTables : Tables :=
  { tagNames := Gen.tagNames, tagByName := Gen.tagByName, enums := Gen.enums, masks := Gen.masks }

/-- … satisfies the hypotheses of every theorem below (by the C17 theorems). -/
theorem genTables_wf : genTables.WF :=
  { newTags := rfl, tags := C17.tags_bijective, tagsClean := C17.tags_clean, enums := C17.enums_bijective,
    masks := C17.masks_ok }

/-- a toy date syntax (`T` followed by the decimal seconds) satisfying `Rfc3339.Lawful`: the hypothesis
    is not contradictory. -/
def toyR : Rfc3339 :=
  { format := fun s => 84 :: itoa s
    parse := fun t => match t with
      | 84 :: r => parseInt 10 64 r
      | _ => none
    inYears := fun v => decide (minEpoch0 ≤ v) && decide (v ≤ maxEpoch) }

theorem toyR_lawful : toyR.Lawful where
  roundtrip s h := by
    have h' : -62167219200 ≤ s ∧ s ≤ 253402300799 := by
      have h2 : (decide (minEpoch0 ≤ s) && decide (s ≤ maxEpoch)) = true := h
      rw [Bool.and_eq_true] at h2
      exact ⟨of_decide_eq_true h2.1, of_decide_eq_true h2.2⟩
    exact parseInt_itoa (bits := 64) (by simp; omega) (by simp; omega)
  no0x s _ rest e := by simp [toyR] at e
  years s h1 h2 := by
    unfold minEpoch at h1
    have : -62167219200 ≤ s := by omega
    simp [toyR, minEpoch0, this, h2]

/-! ## 1. numerals (`strconv`, `encoding/hex` as the library uses them) -/

/-- `ParseInt(Itoa(v), 10, bits) = v` on the whole signed range. -/
theorem parseInt_itoa {bits : Nat} {v : Int} (hlo : -((2 ^ (bits - 1) : Nat) : Int) ≤ v)
    (hhi : v < ((2 ^ (bits - 1) : Nat) : Int)) : parseInt 10 bits (itoa v) = some v :=
  Lex.parseInt_itoa hlo hhi

/-- `ParseUint(FormatUint(n), 10, bits) = n` on the whole unsigned range. -/
theorem parseUint_utoa {bits n : Nat} (h : n < 2 ^ bits) : parseUint 10 bits (utoa n) = some n :=
  Lex.parseUint_utoa h

/-- utils.go `parseInt` / `parseUint` never take a decimal numeral for a `0x` form. -/
theorem goParseInt_itoa {bits : Nat} {v : Int} (hlo : -((2 ^ (bits - 1) : Nat) : Int) ≤ v)
    (hhi : v < ((2 ^ (bits - 1) : Nat) : Int)) : goParseInt bits (itoa v) = some v :=
  Lex.goParseInt_itoa hlo hhi

theorem goParseUint_utoa {bits n : Nat} (h : n < 2 ^ bits) : goParseUint bits (utoa n) = some n :=
  Lex.goParseUint_utoa h

/-- `hex.DecodeString(strings.ToUpper(hex.EncodeToString(bs))) = bs`, and for the lower-case form. -/
theorem hex_roundtrip (bs : Bytes) : hexDec (hexUp bs) = some bs ∧ hexDec (hexLo bs) = some bs :=
  ⟨hexDec_hexUp bs, hexDec_hexLo bs⟩

/-- `ParseUint(Sprintf("%016x", u), 16, 64) = u` for every 64-bit pattern. -/
theorem parseUint_hex16 {u : Nat} (hu : u < 2 ^ 64) : parseUint 16 64 (hexFixedLo 16 u) = some u :=
  parseUint_hex16Lo hu

theorem parseBool_formatBool (b : Bool) : parseBool (formatBool b) = some b :=
  Lex.parseBool_formatBool b

/-! ## 2. every scalar kind, over its WHOLE value range: XML -/

/-- Integer: every int32. -/
theorem xml_integer (v : Int) (h1 : -2147483648 ≤ v) (h2 : v ≤ 2147483647) : xInteger (itoa v) = .ok v :=
  xInteger_itoa (int32Ok_iff.mpr ⟨h1, h2⟩)

/-- LongInteger: every int64. -/
theorem xml_long (v : Int) (h1 : -9223372036854775808 ≤ v) (h2 : v ≤ 9223372036854775807) :
    xLong (itoa v) = .ok v :=
  xLong_itoa (int64Ok_iff.mpr ⟨h1, h2⟩)

/-- BigInteger: every integer (minimal two's complement, padding 1, upper-case hex). -/
theorem xml_big (v : Int) : bigOfHex (hexUp (bigBytes v 1)) = .ok v := bigOfHex_xml v

/-- Enumeration: every uint32 of every enumeration tag of the generated registry, named or not. -/
theorem xml_enum (g : Int) (v : Nat) (hv : v < 2 ^ 32) :
    xEnum (enumByN genTables g) (enumToText (enumByV genTables g) v) = .ok v :=
  xEnum_text (genTables_wf.enum g).1 (genTables_wf.enum g).2 hv

/-- … and for ANY tables satisfying the C17 conditions. -/
theorem xml_enum_any {byValue byName : Table} (hb : bijective byValue byName = true)
    (hc : cleanNames byValue = true) {v : Nat} (hv : v < 2 ^ 32) :
    xEnum byName (enumToText byValue v) = .ok v :=
  xEnum_text hb hc hv

/-- bit masks: every int32 (all 2^32 patterns, bit 31 included) of every mask tag. -/
theorem xml_mask (g : Int) (v : Int) (h1 : -2147483648 ≤ v) (h2 : v ≤ 2147483647) :
    xMask (maskByN genTables g) (maskToText (maskNs genTables g) [32] (unsignedOfInt 32 v)) = .ok v :=
  xMask_text (genTables_wf.mask g) (int32Ok_iff.mpr ⟨h1, h2⟩)

theorem xml_bool (b : Bool) : xBool (formatBool b) = .ok b := xBool_format b

/-- ByteString: every byte list. -/
theorem xml_bytes (s : Bytes) : xBytes (hexUp s) = .ok s := xBytes_hex s

/-- TextString — DEFINITIONAL at this layer: in the model a text string IS its byte sequence, the value
    attribute carries it unchanged; escaping / unescaping over the format's alphabet is `encoding/xml`'s
    and is checked on the real code only (lex / text engines, whole alphabet and long strings). -/
theorem xml_text (s : Bytes) : xText (strOfBytes s) = .ok s := xText_str s

/-- DateTime: every second of years 1..9999, under the RFC 3339 hypothesis. -/
theorem xml_date {R : Rfc3339} (hR : R.Lawful) (s : Int) (h1 : minEpoch ≤ s) (h2 : s ≤ maxEpoch) :
    xDate R (R.format s) = .ok s := xDate_format hR (hR.years s h1 h2)

/-- … more generally every instant that passes the readers' year test (local years 0..9999). -/
theorem xml_date_inYears {R : Rfc3339} (hR : R.Lawful) (s : Int) (h : R.inYears s = true) :
    xDate R (R.format s) = .ok s := xDate_format hR h

/-- Interval: every uint32. -/
theorem xml_interval (n : Nat) (h : n < 2 ^ 32) : xInterval (utoa n) = .ok n := xInterval_utoa h

/-! ## 3. every scalar kind, over its WHOLE value range: JSON -/

theorem json_integer (v : Int) (h1 : -2147483648 ≤ v) (h2 : v ≤ 2147483647) :
    jInteger (some (.num v true)) = .ok v :=
  jInteger_num (int32Ok_iff.mpr ⟨h1, h2⟩)

/-- LongInteger: every int64 — a number strictly inside ±2^52, the `0x%016x` string from ±2^52 on,
    the extremes included. -/
theorem json_long (T : Tables) (R : Rfc3339) (t v : Int) (h1 : -9223372036854775808 ≤ v)
    (h2 : v ≤ 9223372036854775807) : jLong (some (jsonValue T R (.long t v))) = .ok v :=
  jLong_value (int64Ok_iff.mpr ⟨h1, h2⟩)

/-- BigInteger: every integer — a number strictly inside ±2^52, else `0x` + 8-byte padded two's
    complement. -/
theorem json_big (T : Tables) (R : Rfc3339) (t v : Int) : jBig (some (jsonValue T R (.big t v))) = .ok v :=
  jBig_value

theorem json_enum (g : Int) (v : Nat) (hv : v < 2 ^ 32) :
    jEnum (enumByN genTables g) (some (.str (enumToText (enumByV genTables g) v))) = .ok v :=
  jEnum_text (genTables_wf.enum g).1 (genTables_wf.enum g).2 hv

/-- bit masks: every int32; zero is the empty string. -/
theorem json_mask (g : Int) (v : Int) (h1 : -2147483648 ≤ v) (h2 : v ≤ 2147483647) :
    jMask (maskByN genTables g) (some (.str (maskToText (maskNs genTables g) [124] (unsignedOfInt 32 v)))) =
      .ok v :=
  jMask_text (genTables_wf.mask g) (int32Ok_iff.mpr ⟨h1, h2⟩)

theorem json_mask_zero (g : Int) : maskToText (maskNs genTables g) [124] (unsignedOfInt 32 0) = [] := rfl

theorem json_bool (b : Bool) : jBool (some (.bool b)) = .ok b := rfl
theorem json_bytes (s : Bytes) : jBytes (some (.str (hexUp s))) = .ok s := jBytes_hex s
/-- definitional, as `xml_text`: the JSON string escaper / tokeniser is outside the model. -/
theorem json_text (s : Bytes) : jText (some (.str (strOfBytes s))) = .ok s := jText_str s

theorem json_date {R : Rfc3339} (hR : R.Lawful) (s : Int) (h1 : minEpoch ≤ s) (h2 : s ≤ maxEpoch) :
    jDate R (some (.str (R.format s))) = .ok s := jDate_format hR (hR.years s h1 h2)

theorem json_interval (n : Nat) (h : n < 2 ^ 32) : jInterval (some (.num (n : Int) true)) = .ok n :=
  jInterval_num h

/-- the three encodings of one big integer — binary value bytes, XML text, JSON value — all decode to
    it. -/
theorem big_three_encodings (T : Tables) (R : Rfc3339) (t v : Int) :
    bytesToBigInt (encodeBig v) = v ∧ bigOfHex (hexUp (bigBytes v 1)) = .ok v ∧
      jBig (some (jsonValue T R (.big t v))) = .ok v :=
  ⟨C03.bytesToBigInt_encodeBig v, bigOfHex_xml v, jBig_value⟩

/-! ## 4. the JSON number / string switch -/

/-- the writer emits a JSON number for a LongInteger iff `|v| < 2^52` … -/
theorem json_number_threshold (T : Tables) (R : Rfc3339) (t v : Int) :
    (∃ n il, jsonValue T R (.long t v) = .num n il) ↔ (-(2 : Int) ^ 52 < v ∧ v < (2 : Int) ^ 52) := by
  have e : (2 : Int) ^ 52 = maxJsonInt := by decide
  rw [e]
  constructor
  · rintro ⟨n, il, h⟩
    by_cases hth : v ≥ maxJsonInt ∨ v ≤ -maxJsonInt
    · rw [jsonValue_long_hex hth] at h; cases h
    · omega
  · intro h
    exact ⟨v, true, jsonValue_long_num h⟩

/-- … likewise for a BigInteger … -/
theorem json_number_threshold_big (T : Tables) (R : Rfc3339) (t v : Int) :
    (∃ n il, jsonValue T R (.big t v) = .num n il) ↔ (-(2 : Int) ^ 52 < v ∧ v < (2 : Int) ^ 52) := by
  have e : (2 : Int) ^ 52 = maxJsonInt := by decide
  rw [e]
  constructor
  · rintro ⟨n, il, h⟩
    by_cases hth : v ≥ maxJsonInt ∨ v ≤ -maxJsonInt
    · simp [jsonValue, hth] at h
    · omega
  · intro h
    have : ¬ (v ≥ maxJsonInt ∨ v ≤ -maxJsonInt) := by omega
    exact ⟨v, true, by simp [jsonValue, this]⟩

/-- … so EVERY number the JSON writer emits, for any representable scalar, is an integer literal of
    magnitude below 2^53: exactly representable as an IEEE 754 double. -/
theorem json_numbers_exact (T : Tables) (R : Rfc3339) (H : Hints) (x : XItem)
    (hx : x.representable R H = true) (n : Int) (il : Bool) (h : jsonValue T R x = .num n il) :
    il = true ∧ -(2 : Int) ^ 53 < n ∧ n < (2 : Int) ^ 53 := by
  have e : (2 : Int) ^ 53 = 9007199254740992 := by decide
  rw [e]
  cases x with
  | struct t cs => simp [jsonValue] at h
  | int t v =>
    simp only [XItem.representable, XItem.representableG, Bool.and_eq_true] at hx
    have ⟨h1, h2⟩ := int32Ok_iff.mp hx.1.2
    simp only [jsonValue, JVal.num.injEq] at h
    obtain ⟨rfl, rfl⟩ := h
    exact ⟨rfl, by omega, by omega⟩
  | mask t m v => simp [jsonValue] at h
  | long t v =>
    by_cases hth : v ≥ maxJsonInt ∨ v ≤ -maxJsonInt
    · rw [jsonValue_long_hex hth] at h; cases h
    · rw [jsonValue_long_num (by omega)] at h
      simp only [JVal.num.injEq] at h
      obtain ⟨rfl, rfl⟩ := h
      unfold maxJsonInt at hth
      exact ⟨rfl, by omega, by omega⟩
  | big t v =>
    by_cases hth : v ≥ maxJsonInt ∨ v ≤ -maxJsonInt
    · simp [jsonValue, hth] at h
    · simp only [jsonValue, hth, if_false, JVal.num.injEq] at h
      obtain ⟨rfl, rfl⟩ := h
      unfold maxJsonInt at hth
      exact ⟨rfl, by omega, by omega⟩
  | enum t e v => simp [jsonValue] at h
  | bool t b => simp [jsonValue] at h
  | text t s => simp [jsonValue] at h
  | bytes t s => simp [jsonValue] at h
  | date t v => simp [jsonValue] at h
  | interval t v =>
    simp only [XItem.representable, XItem.representableG, Bool.and_eq_true, decide_eq_true_eq] at hx
    simp only [jsonValue, JVal.num.injEq] at h
    obtain ⟨rfl, rfl⟩ := h
    exact ⟨rfl, by omega, by omega⟩

/-! ## 5. every tree -/

/-- XML: for every tree of the representable domain (any depth, any width) the reader decodes what the
    writer wrote to the very same tree, annotations included. -/
theorem xml_roundtrip {T : Tables} (hT : T.WF) {R : Rfc3339} (hR : R.Lawful) {H : Hints} (t : XItem)
    (h : t.Representable R H) : xmlRead T R H (xmlWrite T R t) = .ok t :=
  xmlRead_write hT hR t h

/-- JSON: likewise. -/
theorem json_roundtrip {T : Tables} (hT : T.WF) {R : Rfc3339} (hR : R.Lawful) {H : Hints} (t : XItem)
    (h : t.Representable R H) : jsonRead T R H (jsonWrite T R t) = .ok t :=
  jsonRead_write hT hR t h

/-- XML carries the same information as the tree the binary encoder sees … -/
theorem xml_equiv {T : Tables} (hT : T.WF) {R : Rfc3339} (hR : R.Lawful) {H : Hints} (t : XItem)
    (h : t.Representable R H) : XItem.erase <$> xmlRead T R H (xmlWrite T R t) = .ok t.erase := by
  rw [xml_roundtrip hT hR t h]; rfl

/-- … so the binary TTLV encoding of the decoded message is byte-identical to the original's. -/
theorem xml_binary_identical {T : Tables} (hT : T.WF) {R : Rfc3339} (hR : R.Lawful) {H : Hints} (t : XItem)
    (h : t.Representable R H) :
    (fun t' => enc t'.erase) <$> xmlRead T R H (xmlWrite T R t) = .ok (enc t.erase) := by
  rw [xml_roundtrip hT hR t h]; rfl

theorem json_equiv {T : Tables} (hT : T.WF) {R : Rfc3339} (hR : R.Lawful) {H : Hints} (t : XItem)
    (h : t.Representable R H) : XItem.erase <$> jsonRead T R H (jsonWrite T R t) = .ok t.erase := by
  rw [json_roundtrip hT hR t h]; rfl

theorem json_binary_identical {T : Tables} (hT : T.WF) {R : Rfc3339} (hR : R.Lawful) {H : Hints}
    (t : XItem) (h : t.Representable R H) :
    (fun t' => enc t'.erase) <$> jsonRead T R H (jsonWrite T R t) = .ok (enc t.erase) := by
  rw [json_roundtrip hT hR t h]; rfl

/-- the three encodings carry exactly the same information: XML and JSON of one tree decode to trees
    with one and the same binary encoding, the original's. -/
theorem three_encodings_agree {T : Tables} (hT : T.WF) {R : Rfc3339} (hR : R.Lawful) {H : Hints}
    (t : XItem) (h : t.Representable R H) :
    ∃ tx tj, xmlRead T R H (xmlWrite T R t) = .ok tx ∧ jsonRead T R H (jsonWrite T R t) = .ok tj ∧
      enc tx.erase = enc t.erase ∧ enc tj.erase = enc t.erase :=
  ⟨t, t, xml_roundtrip hT hR t h, json_roundtrip hT hR t h, rfl, rfl⟩

/-- instantiated: the generated registry, the generic decoder `ttlv.Value`. -/
theorem xml_generic_value {R : Rfc3339} (hR : R.Lawful) (t : XItem) (h : t.Representable R noHints) :
    xmlRead genTables R noHints (xmlWrite genTables R t) = .ok t :=
  xml_roundtrip genTables_wf hR t h

theorem json_generic_value {R : Rfc3339} (hR : R.Lawful) (t : XItem) (h : t.Representable R noHints) :
    jsonRead genTables R noHints (jsonWrite genTables R t) = .ok t :=
  json_roundtrip genTables_wf hR t h

/-- the round trip holds whatever FOLLOWS the element in the token stream and for any sufficient fuel
    (what the typed decoders of the plan layer rely on). -/
theorem xml_roundtrip_in_context {T : Tables} (hT : T.WF) {R : Rfc3339} (hR : R.Lawful) {H : Hints}
    (t : XItem) (h : t.Representable R H) (fuel : Nat) (hf : t.size ≤ fuel) (rest : List Tok) :
    xDecodeValue T R H fuel (after ((xmlWrite T R t).toks ++ rest)) t.tag = .ok (t, after rest) :=
  xDecodeValue_write hT hR t H false fuel rest hf h

theorem json_roundtrip_in_context {T : Tables} (hT : T.WF) {R : Rfc3339} (hR : R.Lawful) {H : Hints}
    (t : XItem) (h : t.Representable R H) (fuel : Nat) (hf : t.size ≤ fuel) (more : List JVal) :
    jDecodeValue T R H fuel ⟨jsonWrite T R t :: more⟩ t.tag = .ok (t, ⟨more⟩) :=
  jDecodeValue_write hT hR t H false fuel more hf h

/-! ### every annotated tree — no condition tying the annotations to the reader -/

/-- `Lex.inScope` (Model/Lex.lean, so that the driver can evaluate it on the harness's inputs: line
    `lex.scope`): KMIP tags, Go value ranges, dates in years 1..9999 — no condition on annotations. -/
def InScope (t : XItem) : Prop := inScope t = true

mutual
  theorem inScope_values : ∀ t : XItem, inScope t = true → t.valuesOk = true
    | .struct t cs, h => by
      simp only [inScope, Bool.and_eq_true] at h
      simp only [XItem.valuesOk]; exact inScopeList_values cs h.2
    | .int .., h | .mask .., h | .long .., h | .enum .., h | .interval .., h => by
      simp only [inScope, Bool.and_eq_true] at h
      simp only [XItem.valuesOk]; exact h.2
    | .big .., _ | .bool .., _ | .text .., _ | .bytes .., _ | .date .., _ => by simp [XItem.valuesOk]
  theorem inScopeList_values : ∀ cs : List XItem, inScopeList cs = true → XItem.valuesOkList cs = true
    | [], _ => rfl
    | c :: cs, h => by
      simp only [inScopeList, Bool.and_eq_true] at h
      simp only [XItem.valuesOkList, Bool.and_eq_true]
      exact ⟨inScope_values c h.1, inScopeList_values cs h.2⟩
end

mutual
  theorem inScope_domain {R : Rfc3339} (hR : R.Lawful) : ∀ t : XItem, inScope t = true →
      t.inDomainG false R = true
    | .struct t cs, h => by
      simp only [inScope, Bool.and_eq_true] at h
      simp only [XItem.inDomainG, Bool.and_eq_true, rootTagOk, Bool.false_eq_true, if_false]
      exact ⟨h.1, inScopeList_domain hR cs h.2⟩
    | .int .., h | .mask .., h | .long .., h | .enum .., h | .interval .., h => by
      simp only [inScope, Bool.and_eq_true] at h
      simp only [XItem.inDomainG, XItem.tag, rootTagOk, Bool.false_eq_true, if_false]; exact h.1
    | .big .., h | .bool .., h | .text .., h | .bytes .., h => by
      simp only [inScope] at h
      simp only [XItem.inDomainG, XItem.tag, rootTagOk, Bool.false_eq_true, if_false]; exact h
    | .date t v, h => by
      simp only [inScope, Bool.and_eq_true, decide_eq_true_eq] at h
      simp only [XItem.inDomainG, Bool.and_eq_true, rootTagOk, Bool.false_eq_true, if_false]
      exact ⟨h.1.1, hR.years v h.1.2 h.2⟩
  theorem inScopeList_domain {R : Rfc3339} (hR : R.Lawful) : ∀ cs : List XItem, inScopeList cs = true →
      XItem.inDomainList R cs = true
    | [], _ => rfl
    | c :: cs, h => by
      simp only [inScopeList, Bool.and_eq_true] at h
      simp only [XItem.inDomainList, Bool.and_eq_true]
      exact ⟨inScope_domain hR c h.1, inScopeList_domain hR cs h.2⟩
end

/-- an in-scope tree is representable for the reader told, position by position, what the writer was told. -/
theorem inScope_representable {R : Rfc3339} (hR : R.Lawful) (t : XItem) (h : InScope t) :
    t.Representable R t.hints :=
  rep_hints R false t (inScope_values t h) (inScope_domain hR t h)

/-- XML, EVERY in-scope annotated tree: whatever enumeration / mask type each node is written with — two
    `AttributeValue`s of different types included — the reader that makes at each position the choice the
    writer made there decodes the writer's document to the very same tree. -/
theorem xml_roundtrip_any {T : Tables} (hT : T.WF) {R : Rfc3339} (hR : R.Lawful) (t : XItem) (h : InScope t) :
    xmlRead T R t.hints (xmlWrite T R t) = .ok t :=
  xmlRead_write hT hR t (inScope_representable hR t h)

/-- JSON: likewise. -/
theorem json_roundtrip_any {T : Tables} (hT : T.WF) {R : Rfc3339} (hR : R.Lawful) (t : XItem) (h : InScope t) :
    jsonRead T R t.hints (jsonWrite T R t) = .ok t :=
  jsonRead_write hT hR t (inScope_representable hR t h)

/-- … hence the three encodings of every in-scope annotated tree carry the same information. -/
theorem three_encodings_agree_any {T : Tables} (hT : T.WF) {R : Rfc3339} (hR : R.Lawful) (t : XItem)
    (h : InScope t) :
    (fun t' => enc t'.erase) <$> xmlRead T R t.hints (xmlWrite T R t) = .ok (enc t.erase) ∧
    (fun t' => enc t'.erase) <$> jsonRead T R t.hints (jsonWrite T R t) = .ok (enc t.erase) := by
  rw [xml_roundtrip_any hT hR t h, json_roundtrip_any hT hR t h]; exact ⟨rfl, rfl⟩

/-- the hint condition of `xml_roundtrip` adds nothing to `InScope` but the agreement of annotations and
    hints: a tree representable for some hints has in-range values. -/
theorem representable_values {R : Rfc3339} {H : Hints} (t : XItem) (h : t.Representable R H) :
    t.valuesOk = true := by
  have hn : t.normal H = true := by
    have key : ∀ (t : XItem) (H : Hints) (top : Bool), t.representableG top R H = true → t.normal H = true := by
      intro t
      induction t using XItem.rec (motive_2 := fun cs => ∀ Hs : Nat → Hints,
          XItem.representableList R Hs cs = true → XItem.normalList Hs cs = true) with
      | struct t cs ih =>
        intro H top h; simp only [XItem.representableG, Bool.and_eq_true] at h
        simp only [XItem.normal]; exact ih _ h.2
      | int t v => intro H top h; simp only [XItem.representableG, Bool.and_eq_true] at h; simp [XItem.normal, h.1.2, h.2]
      | mask t m v => intro H top h; simp only [XItem.representableG, Bool.and_eq_true] at h; simp [XItem.normal, h.1.2, h.2]
      | long t v => intro H top h; simp only [XItem.representableG, Bool.and_eq_true] at h; simp [XItem.normal, h.2]
      | big => intro H top _; simp [XItem.normal]
      | enum t e v => intro H top h; simp only [XItem.representableG, Bool.and_eq_true] at h; simp [XItem.normal, h.1.2, h.2]
      | bool => intro H top _; simp [XItem.normal]
      | text => intro H top _; simp [XItem.normal]
      | bytes => intro H top _; simp [XItem.normal]
      | date => intro H top _; simp [XItem.normal]
      | interval t v => intro H top h; simp only [XItem.representableG, Bool.and_eq_true] at h; simp [XItem.normal, h.2]
      | nil => rfl
      | cons c cs ih1 ih2 =>
        rename_i Hs h
        simp only [XItem.representableList, Bool.and_eq_true] at h
        simp only [XItem.normalList, Bool.and_eq_true]
        exact ⟨ih1 _ _ h.1, ih2 _ h.2⟩
    exact key t H false h
  exact valuesOk_of_normal t H hn

/-! ## 6. non-vacuity -/

/-- observer for `decide`: the decoded tree has this binary encoding. -/
def binIs (r : Res XItem) (bs : Bytes) : Bool :=
  match r with
  | .ok t => enc t.erase == bs
  | _ => false

def isErr (r : Res XItem) : Bool :=
  match r with
  | .err _ => true
  | _ => false

/-- a message-shaped tree: named and unnamed tags, nesting, every scalar kind, both sides of ±2^52, a
    negative big integer, a registered and an unregistered enumeration value. -/
def sample : XItem :=
  .struct 0x420078 [
    .struct 0x420077 [.int 0x42000D 3, .int 0x540001 (-2147483648)],
    .long 0x540002 4503599627370496, .long 0x540003 (-4503599627370495),
    .big 0x540004 (-129), .big 0x540005 18446744073709551616,
    .enum 0x420028 0 3, .enum 0x420028 0 0x80000001,
    .bool 0x540006 true, .text 0x540007 [60, 195, 169, 62], .bytes 0x540008 [0, 255],
    .date 0x540009 253402300799, .interval 0x54000A 4294967295, .struct 0x54000B []]

/-- a typed caller's view: the usage mask and an enumeration carried under another tag. -/
def sampleHints : Hints := Hints.ofTag fun t =>
  if t = 0x42002C then { mask := some 0 } else if t = 0x42000B then { enumTag := 0x420028 } else {}

def sampleTyped : XItem :=
  .struct 0x420008 [.mask 0x42002C 0 (-2147483644), .enum 0x42000B 0x420028 3]

example : sample.Representable toyR noHints := by unfold XItem.Representable; decide +kernel
example : sampleTyped.Representable toyR sampleHints := by unfold XItem.Representable; decide +kernel

example : binIs (xmlRead genTables toyR noHints (xmlWrite genTables toyR sample)) (enc sample.erase) = true := by
  decide +kernel
example : binIs (jsonRead genTables toyR noHints (jsonWrite genTables toyR sample)) (enc sample.erase) = true := by
  decide +kernel
example : binIs (xmlRead genTables toyR sampleHints (xmlWrite genTables toyR sampleTyped))
    (enc sampleTyped.erase) = true := by decide +kernel
example : binIs (jsonRead genTables toyR sampleHints (jsonWrite genTables toyR sampleTyped))
    (enc sampleTyped.erase) = true := by decide +kernel

/-- the shape of every Create / Register / Locate request with two typed attributes: a template whose
    `AttributeValue` (0x42000B) elements carry a Cryptographic Algorithm (enumeration 0x420028), a
    Cryptographic Usage Mask (mask 0x42002C), an Object Type (enumeration 0x420057) and a plain Integer —
    ONE tag, four ways of writing it. -/
def sampleMixed : XItem :=
  .struct 0x420091 [
    .struct 0x420008 [.text 0x42000A [65], .enum 0x42000B 0x420028 3],
    .struct 0x420008 [.text 0x42000A [66], .mask 0x42000B 0x42002C 12],
    .struct 0x420008 [.text 0x42000A [67], .enum 0x42000B 0x420057 2],
    .struct 0x420008 [.text 0x42000A [68], .int 0x42000B 128]]

example : InScope sampleMixed := by unfold InScope; decide +kernel

/-- no hint that looks at the tag only describes it: the old, tag-keyed `Representable` held of this
    message for NO reader, so `xml_roundtrip` said nothing about it … -/
theorem sampleMixed_no_tag_hints (R : Rfc3339) (f : Int → Hint) :
    ¬ sampleMixed.Representable R (Hints.ofTag f) := by
  intro h
  simp only [XItem.Representable, XItem.representable, sampleMixed, XItem.representableG,
    XItem.representableList, Bool.and_eq_true, decide_eq_true_eq, Hints.ofTag, Hints.child, hintsTail] at h
  have h2 : (f 4325387).mask = some 4325420 := of_decide_eq_true h.2.2.1.2.2.1.2
  have h4 : (f 4325387).mask = none := of_decide_eq_true h.2.2.2.2.1.2.2.1.2
  rw [h2] at h4
  cases h4

/-- … while `xml_roundtrip_any` / `json_roundtrip_any` cover it (here also by evaluation). -/
example : binIs (xmlRead genTables toyR sampleMixed.hints (xmlWrite genTables toyR sampleMixed))
    (enc sampleMixed.erase) = true := by decide +kernel
example : binIs (jsonRead genTables toyR sampleMixed.hints (jsonWrite genTables toyR sampleMixed))
    (enc sampleMixed.erase) = true := by decide +kernel

/-- the generic decoder cannot read a mask text (it is not told the element is a mask): the hint
    condition of `Representable` is necessary. -/
example : isErr (xmlRead genTables toyR noHints (xmlWrite genTables toyR sampleTyped)) = true := by
  decide +kernel

/-- alternative lexical forms on input: hexadecimal Integer, decimal Enumeration, `T` Boolean, lower-case
    hexadecimal ByteString, `TTLV tag=` for a named tag — all decode to the canonical tree. -/
example : binIs (xmlRead genTables toyR noHints
    (.mk sTTLV [(sTag, [48, 120, 52, 50, 48, 48, 55, 56])] [     -- TTLV tag="0x420078"
      .mk [79, 112, 101, 114, 97, 116, 105, 111, 110] [(sType, typeName 2), (sValue, [48, 120, 70, 70, 70, 70, 70, 70, 70, 70])] [],
      .mk sTTLV [(sTag, [48, 120, 52, 50, 48, 48, 50, 56]), (sType, typeName 5), (sValue, [51])] [],
      .mk sTTLV [(sTag, [48, 120, 53, 52, 48, 48, 48, 54]), (sType, typeName 6), (sValue, [84])] [],
      .mk sTTLV [(sTag, [48, 120, 53, 52, 48, 48, 48, 56]), (sType, typeName 8), (sValue, [48, 48, 102, 102])] []]))
    (enc (Item.struct 0x420078 [.int 0x42005C (-1), .enum 0x420028 3, .bool 0x540006 true,
      .bytes 0x540008 [0, 255]])) = true := by decide +kernel

/-! ## 7. alternative lexical forms on input normalise (this part also serves C18)

The readers accept more than the writers produce (hexadecimal integers, decimal enumerations,
`strconv.ParseBool` forms, lower-case hexadecimal, numbers or strings in JSON, masks with mixed names /
numbers / repeated separators, `TTLV tag=` for named tags, RFC 3339 with zone offsets, `0x` epochs,
duplicated attributes and members, unread children, …).  Whatever they accept, the tree they return
lies in the domain of the round-trip theorems (`xml_read_representable`): every value in the range of its
Go type, every annotation the reader's own hint, every tag a 24-bit KMIP tag — 0 only at the root, for a
top-level element without a usable tag —, every date within what `Format` can express.  Hence
re-encoding ANY accepted document is a fixed point: the writer's document is read back as the very same
tree, so a second hop changes nothing (`xml_fixpoint_full`, `json_fixpoint_full`), and the tree can be
carried over to the other text encoding (`xml_to_json`, `json_to_xml`).

This holds of the readers since /repo a1c0e70 (tag text `0x…` = non-zero 24-bit `ParseUint`) and df9dac3
(the year test on the parsed instant; since 678b3ea it is made after `.UTC()`, the location the writers format in).  The OLD readers — `oldTags := true`, resp. an `Rfc3339` whose `inYears`
accepts everything — violate it: `old_tag_fixpoint_false`, `old_date_fixpoint_false`. -/

theorem gen_tag_vals : (Gen.tagByName.all fun p => decide (p.2 < 16777216)) = true := by decide +kernel
theorem gen_enum_vals :
    (Gen.enums.all fun e => e.2.2.all fun p => decide (p.2 < 4294967296)) = true := by decide +kernel
theorem gen_mask_vals :
    (Gen.masks.all fun m => m.2.2.all fun p => decide (p.2 < 4294967296)) = true := by decide +kernel

theorem genTables_bounded : genTables.Bounded where
  newTags := rfl
  tagVals p hp := by
    have := List.all_eq_true.mp gen_tag_vals p hp
    simpa using this
  enumVals e he p hp := by
    have := List.all_eq_true.mp (List.all_eq_true.mp gen_enum_vals e he) p hp
    simpa using this
  maskVals m hm p hp := by
    have := List.all_eq_true.mp (List.all_eq_true.mp gen_mask_vals m hm) p hp
    simpa using this

/-- what the XML reader returns lies in the (root) representable domain, whatever the document. -/
theorem xml_read_representable {T : Tables} (hB : T.Bounded) {R : Rfc3339} {H : Hints} (e : XElem)
    (t : XItem) (h : xmlRead T R H e = .ok t) : t.Representable0 R H :=
  xmlReadToks_rep hB h

theorem json_read_representable {T : Tables} (hB : T.Bounded) {R : Rfc3339} (hR : R.Lawful) {H : Hints}
    (j : JVal) (t : XItem) (h : jsonRead T R H j = .ok t) : t.Representable0 R H :=
  jsonRead_rep hB hR h

/-- the round trips hold on the root domain too (root tag 0 is written `tag="0x000000"`, which reads 0). -/
theorem xml_roundtrip0 {T : Tables} (hT : T.WF) {R : Rfc3339} (hR : R.Lawful) {H : Hints} (t : XItem)
    (h : t.Representable0 R H) : xmlRead T R H (xmlWrite T R t) = .ok t :=
  xmlRead_write hT hR t h

theorem json_roundtrip0 {T : Tables} (hT : T.WF) {R : Rfc3339} (hR : R.Lawful) {H : Hints} (t : XItem)
    (h : t.Representable0 R H) : jsonRead T R H (jsonWrite T R t) = .ok t :=
  jsonRead_write hT hR t h

/-- C18 for the XML back end, IN FULL: re-encoding ANY accepted document is a fixed point — the decoded
    tree is read back from its own re-encoding, so the second re-encoding is the first. -/
theorem xml_fixpoint_full {T : Tables} (hT : T.WF) (hB : T.Bounded) {R : Rfc3339} (hR : R.Lawful) {H : Hints}
    (e : XElem) (t : XItem) (h : xmlRead T R H e = .ok t) : xmlRead T R H (xmlWrite T R t) = .ok t :=
  xml_roundtrip0 hT hR t (xml_read_representable hB e t h)

/-- C18 for the JSON back end, in full. -/
theorem json_fixpoint_full {T : Tables} (hT : T.WF) (hB : T.Bounded) {R : Rfc3339} (hR : R.Lawful)
    {H : Hints} (j : JVal) (t : XItem) (h : jsonRead T R H j = .ok t) :
    jsonRead T R H (jsonWrite T R t) = .ok t :=
  json_roundtrip0 hT hR t (json_read_representable hB hR j t h)

/-- cross-encoding: what one text reader accepted is read back identically from the OTHER text
    encoding (and has one binary encoding, `enc t.erase`). -/
theorem xml_to_json {T : Tables} (hT : T.WF) (hB : T.Bounded) {R : Rfc3339} (hR : R.Lawful) {H : Hints}
    (e : XElem) (t : XItem) (h : xmlRead T R H e = .ok t) : jsonRead T R H (jsonWrite T R t) = .ok t :=
  json_roundtrip0 hT hR t (xml_read_representable hB e t h)

theorem json_to_xml {T : Tables} (hT : T.WF) (hB : T.Bounded) {R : Rfc3339} (hR : R.Lawful) {H : Hints}
    (j : JVal) (t : XItem) (h : jsonRead T R H j = .ok t) : xmlRead T R H (xmlWrite T R t) = .ok t :=
  xml_roundtrip0 hT hR t (json_read_representable hB hR j t h)

/-- instantiated: generated registry, generic decoder. -/
theorem xml_fixpoint_generic {R : Rfc3339} (hR : R.Lawful) (e : XElem) (t : XItem)
    (h : xmlRead genTables R noHints e = .ok t) :
    xmlRead genTables R noHints (xmlWrite genTables R t) = .ok t :=
  xml_fixpoint_full genTables_wf genTables_bounded hR e t h

theorem json_fixpoint_generic {R : Rfc3339} (hR : R.Lawful) (j : JVal) (t : XItem)
    (h : jsonRead genTables R noHints j = .ok t) :
    jsonRead genTables R noHints (jsonWrite genTables R t) = .ok t :=
  json_fixpoint_full genTables_wf genTables_bounded hR j t h

/-! ### the old readers, and non-vacuity -/

/-- observable of a tree with decidable equality: the token stream of its XML encoding. -/
def obs (T : Tables) (R : Rfc3339) (t : XItem) : List Tok := (xmlWrite T R t).toks

/-- "re-encoding the accepted document `e` is stable under a second hop" (true when `e` is rejected). -/
def stableXml (T : Tables) (R : Rfc3339) (e : XElem) : Bool :=
  match xmlRead T R noHints e with
  | .ok t =>
    match xmlRead T R noHints (xmlWrite T R t) with
    | .ok t' => obs T R t' == obs T R t
    | _ => false
  | _ => true

def stableJson (T : Tables) (R : Rfc3339) (j : JVal) : Bool :=
  match jsonRead T R noHints j with
  | .ok t =>
    match jsonRead T R noHints (jsonWrite T R t) with
    | .ok t' => obs T R t' == obs T R t
    | _ => false
  | _ => true

/-- every document is stable for the current readers … -/
theorem stableXml_current {R : Rfc3339} (hR : R.Lawful) (e : XElem) : stableXml genTables R e = true := by
  unfold stableXml
  cases h : xmlRead genTables R noHints e with
  | ok t => simp only; rw [xml_fixpoint_generic hR e t h]; simp
  | err _ => rfl
  | panic _ => rfl

theorem stableJson_current {R : Rfc3339} (hR : R.Lawful) (j : JVal) : stableJson genTables R j = true := by
  unfold stableJson
  cases h : jsonRead genTables R noHints j with
  | ok t => simp only; rw [json_fixpoint_generic hR j t h]; simp
  | err _ => rfl
  | panic _ => rfl

/-- the readers before /repo a1c0e70. -/
def oldTagTables : Tables := { genTables with oldTags := true }

/-- `<TTLV tag="0x-1" type="Integer" value="1"/>` -/
def negTagXml : XElem :=
  .mk sTTLV [(sTag, [48, 120, 45, 49]), (sType, typeName 2), (sValue, [49])] []

/-- `{"tag": "0x-1", "type": "Integer", "value": 1}` -/
def negTagJson : JVal :=
  .obj [(sTag, .str [48, 120, 45, 49]), (sType, .str (typeName 2)), (sValue, .num 1 true)]

/-- … but not for the OLD tag parser: `0x-1` was accepted as tag −1, re-encoded as
    `0xFFFFFFFFFFFFFFFF`, read back as tag 0; the current readers reject the element's tag (it reads 0). -/
theorem old_tag_fixpoint_false :
    stableXml oldTagTables toyR negTagXml = false ∧ stableJson oldTagTables toyR negTagJson = false := by
  decide +kernel

/-- an RFC 3339 stand-in with ONE zone-offset text: `9999-12-31T23:59:59-01:00` parses to an instant of
    year 10000, which `Format` writes as `10000-01-01T00:59:59Z`, which `Parse` rejects. -/
def zoneText : Str := [57, 57, 57, 57, 45, 49, 50, 45, 51, 49, 84, 50, 51, 58, 53, 57, 58, 53, 57, 45, 48, 49, 58, 48, 48]
def zoneR (test : Bool) : Rfc3339 :=
  { format := fun s => if s = 253402304399 then
        [49, 48, 48, 48, 48, 45, 48, 49, 45, 48, 49, 84, 48, 48, 58, 53, 57, 58, 53, 57, 90] else toyR.format s
    parse := fun t => if t = zoneText then some 253402304399 else toyR.parse t
    inYears := fun v => if test then toyR.inYears v else true }

/-- `<TTLV tag="0x540001" type="DateTime" value="9999-12-31T23:59:59-01:00"/>` -/
def zoneDateXml : XElem :=
  .mk sTTLV [(sTag, [48, 120, 53, 52, 48, 48, 48, 49]), (sType, typeName 9), (sValue, zoneText)] []

/-- the OLD readers (no year test, before /repo df9dac3) accepted the zone-offset date and could not read
    their own re-encoding of it; the current readers reject it at once. -/
theorem old_date_fixpoint_false :
    stableXml genTables (zoneR false) zoneDateXml = false ∧
      isErr (xmlRead genTables (zoneR true) noHints zoneDateXml) = true := by
  decide +kernel

/-- non-vacuity: a document in alternative forms is accepted and (by evaluation, too) stable; an
    unknown top-level element name is accepted with tag 0 and stable. -/
def altXml : XElem :=
  .mk sTTLV [(sTag, [48, 120, 52, 50, 48, 48, 55, 56])] [
    .mk [79, 112, 101, 114, 97, 116, 105, 111, 110] [(sType, typeName 2), (sValue, [48, 120, 70, 70, 70, 70, 70, 70, 70, 70])] [],
    .mk sTTLV [(sTag, [48, 120, 52, 50, 48, 48, 50, 56]), (sType, typeName 5), (sValue, [51])] []]

def fooXml : XElem := .mk [70, 111, 111] [(sType, typeName 2), (sValue, [49])] []

def isOk (r : Res XItem) : Bool :=
  match r with
  | .ok _ => true
  | _ => false

example : isOk (xmlRead genTables toyR noHints altXml) = true ∧ stableXml genTables toyR altXml = true ∧
    isOk (xmlRead genTables toyR noHints fooXml) = true ∧ stableXml genTables toyR fooXml = true ∧
    isOk (xmlRead genTables toyR noHints negTagXml) = true ∧ stableXml genTables toyR negTagXml = true := by
  decide +kernel

/-! ### the RFC 3339 hypothesis and the writer's time zone (finding `xml:zone:decode-error`, fixed in /repo 678b3ea)

`Rfc3339.Lawful` is a statement about the pair (`Format` in the location the writer formats in, `Parse`).
Go's `time` satisfies it for UTC, and /repo's writers format in UTC since 678b3ea.  BEFORE that commit they
formatted in the location of the value, which for a value decoded from binary TTLV is `time.Local`; two
stand-ins show what that did on a machine whose zone is not UTC — both effects were observed on the real code
by the lex engine's `zone` oracle, which keeps watching for a revert:
  * east of Greenwich the last hours of year 9999 are local year 10000: a five-digit year, which `Parse`
    rejects — the library cannot read its own document (`zone_east_date_lost`);
  * a zone whose offset has seconds (every zone before standard time: Tokyo +09:18:59 until 1887, Paris
    +00:09:21 until 1911, Los Angeles −07:52:58 until 1883): the RFC 3339 offset has minutes only, the
    text denotes ANOTHER instant — the document decodes, to a different date (`zone_lmt_value_changed`). -/

/-- `10000-01-01T00:59:59+01:00` -/
def zoneEastText : Str :=
  [49, 48, 48, 48, 48, 45, 48, 49, 45, 48, 49, 84, 48, 48, 58, 53, 57, 58, 53, 57, 43, 48, 49, 58, 48, 48]

/-- a writer one hour east of UTC, on the last second of year 9999. -/
def zoneEastR : Rfc3339 :=
  { format := fun s => if s = maxEpoch then zoneEastText else toyR.format s
    parse := toyR.parse
    inYears := toyR.inYears }

theorem zone_east_not_lawful : ¬ zoneEastR.Lawful := by
  intro h
  have h1 := h.roundtrip maxEpoch (by decide)
  revert h1
  decide

/-- the date is in the scope of C04 (year 9999), the document is written, and the reader rejects it. -/
theorem zone_east_date_lost :
    inScope (.date 0x420008 maxEpoch) = true ∧
      isErr (xmlRead genTables zoneEastR noHints (xmlWrite genTables zoneEastR (.date 0x420008 maxEpoch))) = true ∧
      isErr (jsonRead genTables zoneEastR noHints (jsonWrite genTables zoneEastR (.date 0x420008 maxEpoch))) = true := by
  decide +kernel

/-- a writer in a zone whose offset is `hh:mm:59`: the offset is written `hh:mm`, so the text denotes the
    instant 59 seconds later. -/
def zoneLmtR : Rfc3339 :=
  { format := fun s => toyR.format (s + 59)
    parse := toyR.parse
    inYears := toyR.inYears }

theorem zone_lmt_not_lawful : ¬ zoneLmtR.Lawful := by
  intro h
  have h1 := h.roundtrip 0 (by decide)
  revert h1
  decide

/-- the document is accepted — and carries another date: the binary encodings differ. -/
theorem zone_lmt_value_changed :
    inScope (.date 0x420008 0) = true ∧
      binIs (xmlRead genTables zoneLmtR noHints (xmlWrite genTables zoneLmtR (.date 0x420008 0)))
        (enc (Item.date 0x420008 59)) = true ∧
      binIs (jsonRead genTables zoneLmtR noHints (jsonWrite genTables zoneLmtR (.date 0x420008 0)))
        (enc (Item.date 0x420008 59)) = true ∧
      (enc (Item.date 0x420008 59) == enc (Item.date 0x420008 0)) = false := by
  decide +kernel

end Kmip.C04
