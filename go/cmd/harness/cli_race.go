package main

// Race pass of the `lts.cli` engine: the scenarios in which Close(), a reconnecting call and the connection's
// goroutines overlap are run once more in a copy of the harness built with the race detector (the copy the
// `cache` engine of C20 builds and caches: cacheRaceBinary). A report whose two accesses are both inside the
// library (github.com/ovh/kmip-go/...) is a data race of the library: the repairs of the Close/reconnect
// interplay (9ada762, 9b690e3) argue with the ORDER of the accesses to Client.closed and Client.conn, which holds
// only if those accesses are synchronised.

import (
	"bufio"
	"context"
	"encoding/json"
	"os"
	"os/exec"
	"regexp"
	"sort"
	"strings"
	"sync"
	"time"

	"verifharness/internal/report"
)

var lcRaceFrameRe = regexp.MustCompile(`(?m)^  (\S+)\(\)\s*$`)

// lcRaceReports returns, for every race report in stderr, the first library frame of each of its two stacks
// (sorted, joined) — or nothing if one of the two accesses is not made by library code.
func lcRaceReports(stderr string) []string {
	var out []string
	for _, block := range strings.Split(stderr, "==================") {
		if !strings.Contains(block, "WARNING: DATA RACE") {
			continue
		}
		// the stacks of the two accesses come first; "Goroutine N (running) created at:" sections follow
		if i := strings.Index(block, "\nGoroutine "); i >= 0 {
			block = block[:i]
		}
		parts := regexp.MustCompile(`(?m)^(?:Previous )?(?:[Rr]ead|[Ww]rite|atomic read|atomic write) at .*$`).Split(block, -1)
		if len(parts) < 3 {
			continue
		}
		var tops []string
		for _, st := range parts[1:3] {
			top := ""
			for _, m := range lcRaceFrameRe.FindAllStringSubmatch(st, -1) {
				f := m[1]
				if strings.HasPrefix(f, "runtime.") || strings.HasPrefix(f, "sync.") || strings.HasPrefix(f, "sync/atomic.") || strings.HasPrefix(f, "internal/") {
					continue
				}
				top = f
				break
			}
			tops = append(tops, top)
		}
		lib := strings.TrimSuffix(lcClientPkg, "kmipclient") // github.com/ovh/kmip-go/
		if strings.HasPrefix(tops[0], lib) && strings.HasPrefix(tops[1], lib) {
			sort.Strings(tops)
			out = append(out, strings.Join(tops, " / "))
		}
	}
	return out
}

// lcRunRaceChild runs one scenario in the race-enabled harness; returns its result (nil if none) and its stderr.
func lcRunRaceChild(bin, spec string) (*lcResult, string) {
	cctx, cancel := context.WithTimeout(context.Background(), 4*lcCallLimit+30*time.Second)
	defer cancel()
	cmd := exec.CommandContext(cctx, bin)
	cmd.Env = append(append(os.Environ(), lcChildEnv+"=1", "GORACE=halt_on_error=0 exitcode=0"), lcChildExtraEnv...)
	cmd.Stdin = strings.NewReader(spec + "\n")
	var stderr strings.Builder
	cmd.Stderr = &stderr
	stdout, err := cmd.StdoutPipe()
	if err != nil || cmd.Start() != nil {
		return nil, "cannot start the race-enabled harness"
	}
	var res *lcResult
	sc := bufio.NewScanner(stdout)
	sc.Buffer(make([]byte, 1<<16), 1<<24)
	for sc.Scan() {
		if l := sc.Text(); strings.HasPrefix(l, "@@RESULT ") {
			r := &lcResult{}
			if json.Unmarshal([]byte(strings.TrimPrefix(l, "@@RESULT ")), r) == nil {
				res = r
			}
		}
	}
	_ = cmd.Wait()
	return res, stderr.String()
}

func lcRaceSpecs(dry lcDry) []string {
	var out []string
	add := func(s *lcSpec) { out = append(out, s.String()) }
	r0, w0 := dry.r0, dry.w0
	// Close() concurrent with a pending call at every yield point (the call reconnects, or not)
	for _, pt := range []string{"loaded", "afterSend", "beforeRx"} {
		add(&lcSpec{fam: "cls", n: 1, pt: pt, srv: "-", next: "-"})
	}
	add(&lcSpec{fam: "cls", n: 1, pt: "beforeErr", srv: "-", next: "-", faults: []*lcFault{{dir: 'w', conn: 0, k: w0, kind: "closed"}}})
	add(&lcSpec{fam: "cls", n: 1, pt: "afterCancel", srv: "-", next: "-", faults: []*lcFault{{dir: 'r', conn: 0, k: r0 - 1, kind: "eof", timing: "data"}}})
	add(&lcSpec{fam: "cls", n: 1, pt: "beforeReconnect", srv: "-", next: "-", faults: []*lcFault{{dir: 'r', conn: 0, k: r0 - 1, kind: "eof", timing: "data"}}})
	add(&lcSpec{fam: "cls", n: 1, pt: "beforeReconnect", srv: "-", next: "-", faults: []*lcFault{{dir: 'w', conn: 0, k: w0, kind: "closed"}}})
	// Close() while the faulted call is pending
	for _, f := range []*lcFault{
		{dir: 'r', conn: 0, k: r0 - 1, kind: "eof", timing: "data"},
		{dir: 'r', conn: 0, k: r0, kind: "partial", timing: "data"},
		{dir: 'w', conn: 0, k: w0, kind: "hclosed"},
		{dir: 'w', conn: 0, k: w0, kind: "car"},
	} {
		add(&lcSpec{fam: "flt", pt: "-", srv: "-", faults: []*lcFault{f}, next: "cclose"})
		add(&lcSpec{fam: "flt", pt: "-", srv: "-", faults: []*lcFault{f}, next: "conc"})
	}
	// abandoned calls with concurrent callers, the retry budget, the write-error window
	for _, pt := range []string{"loaded", "afterSend", "beforeRx", "inWrite", "queued"} {
		add(&lcSpec{fam: "c10", n: 3, pt: pt, srv: "early", next: "-"})
	}
	add(&lcSpec{fam: "rty", n: 5, pt: "-", srv: "eof", next: "-"})
	add(&lcSpec{fam: "win", n: 4, pt: "-", srv: "-", next: "-", faults: []*lcFault{{dir: 'w', conn: 0, k: w0, kind: "hreset"}}})
	return out
}

// lcRacePass runs the race scenarios (or the replayed ones); the returned function reports (call it from the
// engine's goroutine).
func lcRacePass(specs []string) (apply func(ctx *Ctx)) {
	if len(specs) == 0 {
		return func(*Ctx) {}
	}
	bin, note, fail := cacheRaceBinary()
	if bin == "" {
		// no C toolchain, or switched off: the pass is skipped, visibly
		return func(ctx *Ctx) {
			ctx.Res.Count("lts.cli.race: skipped (" + note + strings.TrimSpace(" "+fail) + ")")
		}
	}
	type out struct {
		res    *lcResult
		stderr string
	}
	outs := make([]out, len(specs))
	sem := make(chan struct{}, 4)
	var wg sync.WaitGroup
	for i, sp := range specs {
		wg.Add(1)
		sem <- struct{}{}
		go func() {
			defer wg.Done()
			defer func() { <-sem }()
			r, se := lcRunRaceChild(bin, sp)
			outs[i] = out{r, se}
		}()
	}
	wg.Wait()
	return func(ctx *Ctx) {
		ctx.Res.Count("lts.cli.race: " + note)
		for i, o := range outs {
			line := "# lts.cli.race " + specs[i]
			races := lcRaceReports(o.stderr)
			if o.res == nil && len(races) == 0 {
				ctx.Res.Count("lts.cli.race: scenario without result")
				continue
			}
			seen := map[string]bool{}
			for _, r := range races {
				if seen[r] {
					continue
				}
				seen[r] = true
				detail := o.stderr
				if j := strings.Index(detail, "WARNING: DATA RACE"); j >= 0 {
					detail = detail[j:]
				}
				if len(detail) > 1800 {
					detail = detail[:1800]
				}
				ctx.Res.Violate(report.Violation{Property: "C11", Oracle: "race-detector", Key: "lts.cli:data-race " + r,
					Detail: "the race detector reports unsynchronised accesses inside the library: " + detail, Line: line})
			}
			if len(races) == 0 {
				ctx.Res.Count("lts.cli.race: clean scenario")
			}
			ctx.Add(line, "ok", len(races) > 0, "C11")
		}
	}
}
