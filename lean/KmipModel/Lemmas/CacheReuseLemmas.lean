/-
  Lemmas for C20 (b): the reusable encoder of `Model/Cache.lean`.

    1. buffer primitives: what `append` / `truncate` / `patch` do to the visible part;
    2. `Eqv` (same back end, cell, visible buffer, xml.Encoder state) is preserved by every writer call, every
       operation and every history, and equivalent states yield the same observations — i.e. no operation reads
       the capacity, the stale content or the identity of the backing array;
    3. `Clear` leads to a state equivalent to the new encoder's, from ANY state;
    4. the binary writer: a completed item appends exactly `enc item` (placeholder patched to the right length);
    5. slices returned by `Bytes()` keep their content until the next `Clear`.
-/
import KmipModel.Model.Cache
namespace Kmip.Cache
open Kmip

/-! ## 1 — buffer primitives -/

namespace GoBuf

@[simp] theorem append_vis (b : GoBuf) (xs : Bytes) : (b.append xs).vis = b.vis ++ xs := by
  unfold append; split <;> rfl

@[simp] theorem truncate_vis (b : GoBuf) (n : Nat) : (b.truncate n).vis = b.vis.take n := rfl

@[simp] theorem reset_vis (b : GoBuf) : b.reset.vis = [] := by simp [reset]

/-- a patch that lies inside the slice rewrites those bytes and nothing else; in particular it does not look at
    the spare capacity. -/
theorem patch_vis_within (b : GoBuf) (off : Nat) (xs : Bytes) (h : off + xs.length ≤ b.vis.length) :
    (b.patch off xs).vis = b.vis.take off ++ xs ++ b.vis.drop (off + xs.length) := by
  have hcap : off + xs.length ≤ b.cap := by unfold cap; omega
  unfold patch
  rw [if_pos hcap]
  simp only [mem]
  have h1 : off ≤ b.vis.length := by omega
  rw [List.take_append_of_le_length h1, List.drop_append_of_le_length h]
  have hl : (List.take off b.vis ++ xs ++ List.drop (off + xs.length) b.vis).length = b.vis.length := by
    simp only [List.length_append, List.length_take, List.length_drop]; omega
  rw [← List.append_assoc, List.take_append_of_le_length (by omega), List.take_of_length_le (by omega)]

theorem patch_vis_length (b : GoBuf) (off : Nat) (xs : Bytes) : (b.patch off xs).vis.length = b.vis.length := by
  unfold patch
  split
  · simp only [List.length_take, mem, List.length_append, List.length_drop]
    rename_i h; unfold cap at h; omega
  · rfl

end GoBuf


/-! ## 2 — `Eqv` is a congruence for everything a caller can do -/

theorem Eqv.rfl' (s : Encoder) : Eqv s s := ⟨rfl, rfl, rfl, fun _ => rfl⟩

theorem Eqv.symm {s1 s2 : Encoder} (h : Eqv s1 s2) : Eqv s2 s1 :=
  ⟨h.1.symm, h.2.1.symm, h.2.2.1.symm, fun hx => (h.2.2.2 (h.1 ▸ hx)).symm⟩

theorem Eqv.trans {s1 s2 s3 : Encoder} (h : Eqv s1 s2) (g : Eqv s2 s3) : Eqv s1 s3 :=
  ⟨h.1.trans g.1, h.2.1.trans g.2.1, h.2.2.1.trans g.2.2.1,
   fun hx => (h.2.2.2 hx).trans (g.2.2.2 (h.1 ▸ hx))⟩

/-- the frames of the binary writer point at placeholders that lie inside the slice. -/
def FramesOk (st : Encoder) (fs : List SFrame) : Prop :=
  st.be = .ttlv → ∀ fr ∈ fs, fr.off + 4 ≤ st.buf.vis.length

theorem be32_length (n : Nat) : (be32 n).length = 4 := rfl

theorem flushXml_eqv {s1 s2 : Encoder} (h : Eqv s1 s2) (hx : s1.be = .xml) : Eqv (flushXml s1) (flushXml s2) := by
  obtain ⟨h1, h2, h3, h4⟩ := h
  have := h4 hx
  refine ⟨h1, h2, ?_, fun _ => ?_⟩
  · simp [flushXml, h3, this]
  · simp [flushXml, this]

theorem wLeaf_eqv (R : Render) {s1 s2 : Encoder} (d : Nat) (it : Item) (h : Eqv s1 s2) :
    Eqv (wLeaf R s1 d it).1 (wLeaf R s2 d it).1 ∧ (wLeaf R s1 d it).2 = (wLeaf R s2 d it).2 := by
  obtain ⟨h1, h2, h3, h4⟩ := h
  obtain ⟨be1, c1, b1, x1⟩ := s1
  obtain ⟨be2, c2, b2, x2⟩ := s2
  simp only at h1 h2 h3 h4
  subst h1 h2
  cases be1 with
  | ttlv => exact ⟨⟨rfl, rfl, by simp [wLeaf, h3], fun hx => nomatch hx⟩, rfl⟩
  | json => exact ⟨⟨rfl, rfl, by simp [wLeaf, h3], fun hx => nomatch hx⟩, rfl⟩
  | text => exact ⟨⟨rfl, rfl, by simp [wLeaf, textStart, h3], fun hx => nomatch hx⟩, rfl⟩
  | xml =>
    have hx := h4 rfl
    subst hx
    simp only [wLeaf]
    split
    · exact ⟨⟨rfl, rfl, h3, fun _ => rfl⟩, rfl⟩
    · simp only [flushXml, GoBuf.append_vis, h3]
      split
      · exact ⟨⟨rfl, rfl, by simp [h3], fun _ => rfl⟩, rfl⟩
      · exact ⟨⟨rfl, rfl, by simp [h3], fun _ => rfl⟩, rfl⟩

theorem wOpen_eqv (R : Render) {s1 s2 : Encoder} (d tag : Nat) (h : Eqv s1 s2) :
    Eqv (wOpen R s1 d tag).1 (wOpen R s2 d tag).1 ∧ (wOpen R s1 d tag).2 = (wOpen R s2 d tag).2 := by
  obtain ⟨h1, h2, h3, h4⟩ := h
  obtain ⟨be1, c1, b1, x1⟩ := s1
  obtain ⟨be2, c2, b2, x2⟩ := s2
  simp only at h1 h2 h3 h4
  subst h1 h2
  cases be1 with
  | ttlv => exact ⟨⟨rfl, rfl, by simp [wOpen, h3], fun hx => nomatch hx⟩, by simp [wOpen, h3]⟩
  | json => exact ⟨⟨rfl, rfl, by simp [wOpen, h3], fun hx => nomatch hx⟩, by simp [wOpen, h3]⟩
  | text => exact ⟨⟨rfl, rfl, by simp [wOpen, textStart, h3], fun hx => nomatch hx⟩, by simp [wOpen, textStart, h3]⟩
  | xml =>
    have hx := h4 rfl
    subst hx
    exact ⟨⟨rfl, rfl, h3, fun _ => rfl⟩, rfl⟩

theorem wClose_eqv (R : Render) {s1 s2 : Encoder} (d : Nat) (fr : SFrame) (h : Eqv s1 s2)
    (hf : s1.be = .ttlv → fr.off + 4 ≤ s1.buf.vis.length) :
    Eqv (wClose R s1 d fr).1 (wClose R s2 d fr).1 ∧ (wClose R s1 d fr).2 = (wClose R s2 d fr).2 := by
  obtain ⟨h1, h2, h3, h4⟩ := h
  obtain ⟨be1, c1, b1, x1⟩ := s1
  obtain ⟨be2, c2, b2, x2⟩ := s2
  simp only at h1 h2 h3 h4 hf
  subst h1 h2
  cases be1 with
  | ttlv =>
    have hf1 := hf rfl
    have hf2 : fr.off + 4 ≤ b2.vis.length := h3 ▸ hf1
    refine ⟨⟨rfl, rfl, ?_, fun hx => nomatch hx⟩, rfl⟩
    simp only [wClose]
    rw [GoBuf.patch_vis_within _ _ _ (by rw [be32_length]; exact hf1),
        GoBuf.patch_vis_within _ _ _ (by rw [be32_length]; exact hf2), h3]
  | json =>
    refine ⟨⟨rfl, rfl, ?_, fun hx => nomatch hx⟩, rfl⟩
    simp only [wClose, h3]
    split <;> simp [h3]
  | text =>
    simp only [wClose, h3]
    split
    · exact ⟨⟨rfl, rfl, by simp [h3], fun hx => nomatch hx⟩, rfl⟩
    · exact ⟨⟨rfl, rfl, h3, fun hx => nomatch hx⟩, rfl⟩
  | xml =>
    have hx := h4 rfl
    subst hx
    simp only [wClose]
    split
    · exact ⟨⟨rfl, rfl, h3, fun _ => rfl⟩, rfl⟩
    · exact ⟨flushXml_eqv ⟨rfl, rfl, h3, fun _ => rfl⟩ rfl, rfl⟩

theorem wLeaf_be (R : Render) (st : Encoder) (d : Nat) (it : Item) : (wLeaf R st d it).1.be = st.be := by
  unfold wLeaf
  cases hb : st.be <;> simp only
  split
  · rfl
  · split <;> simp [flushXml]

theorem wOpen_be (R : Render) (st : Encoder) (d tag : Nat) : (wOpen R st d tag).1.be = st.be := by
  unfold wOpen
  cases hb : st.be <;> simp only

theorem wClose_be (R : Render) (st : Encoder) (d : Nat) (fr : SFrame) : (wClose R st d fr).1.be = st.be := by
  unfold wClose
  cases hb : st.be <;> simp only
  · split <;> simp [flushXml]
  · split <;> simp [hb]

theorem wCall_be (R : Render) (st : Encoder) (fs : List SFrame) (c : WCall) : (wCall R st fs c).1.be = st.be := by
  cases c with
  | leaf it => exact wLeaf_be R st _ it
  | «open» tag => exact wOpen_be R st _ tag
  | close =>
    cases fs with
    | nil => rfl
    | cons fr rest => exact wClose_be R st _ fr

theorem wLeaf_ttlv (R : Render) (st : Encoder) (d : Nat) (it : Item) (h : st.be = .ttlv) :
    wLeaf R st d it = ({ st with buf := st.buf.append (enc it) }, true) := by
  unfold wLeaf; simp only [h]

theorem wOpen_ttlv (R : Render) (st : Encoder) (d tag : Nat) (h : st.be = .ttlv) :
    wOpen R st d tag = ({ st with buf := (st.buf.append (tag3 tag ++ [1])).append (be32 0) },
      ⟨tag, (st.buf.append (tag3 tag ++ [1])).vis.length⟩, true) := by
  unfold wOpen; simp only [h]

theorem wClose_ttlv (R : Render) (st : Encoder) (d : Nat) (fr : SFrame) (h : st.be = .ttlv) :
    wClose R st d fr =
      ({ st with buf := st.buf.patch fr.off (be32 (st.buf.vis.length - fr.off - 4)) }, true) := by
  unfold wClose; simp only [h]

/-- the binary writer's visible buffer never shrinks, and a new frame points at a placeholder inside it. -/
theorem wCall_framesOk (R : Render) (st : Encoder) (fs : List SFrame) (c : WCall) (hf : FramesOk st fs) :
    FramesOk (wCall R st fs c).1 (wCall R st fs c).2.1 := by
  intro hbe
  rw [wCall_be] at hbe
  have hf' := hf hbe
  cases c with
  | leaf it =>
    simp only [wCall, wLeaf_ttlv R st _ it hbe, GoBuf.append_vis, List.length_append]
    intro fr hfr; have := hf' fr hfr; omega
  | «open» tag =>
    simp only [wCall, wOpen_ttlv R st _ tag hbe, GoBuf.append_vis, List.length_append, be32_length]
    intro fr hfr
    rcases List.mem_cons.1 hfr with rfl | hfr
    · simp
    · have := hf' fr hfr; omega
  | close =>
    cases fs with
    | nil => intro fr hfr; exact nomatch hfr
    | cons f rest =>
      simp only [wCall, wClose_ttlv R st _ f hbe, GoBuf.patch_vis_length]
      intro fr hfr; exact hf' fr (List.mem_cons_of_mem _ hfr)

theorem wCall_eqv (R : Render) {s1 s2 : Encoder} (fs : List SFrame) (c : WCall) (h : Eqv s1 s2)
    (hf : FramesOk s1 fs) :
    Eqv (wCall R s1 fs c).1 (wCall R s2 fs c).1 ∧ (wCall R s1 fs c).2 = (wCall R s2 fs c).2 := by
  cases c with
  | leaf it =>
    have := wLeaf_eqv R fs.length it h
    exact ⟨this.1, by simp only [wCall, this.2]⟩
  | «open» tag =>
    have := wOpen_eqv R fs.length tag h
    exact ⟨this.1, by simp only [wCall, this.2]⟩
  | close =>
    cases fs with
    | nil => exact ⟨h, rfl⟩
    | cons fr rest =>
      have := wClose_eqv R rest.length fr h (fun hb => hf hb fr List.mem_cons_self)
      exact ⟨this.1, by simp only [wCall, this.2]⟩

theorem runCalls_eqv (R : Render) : ∀ (cs : List WCall) {s1 s2 : Encoder} (fs : List SFrame),
    Eqv s1 s2 → FramesOk s1 fs →
    Eqv (runCalls R s1 fs cs).1 (runCalls R s2 fs cs).1 ∧ (runCalls R s1 fs cs).2 = (runCalls R s2 fs cs).2 := by
  intro cs
  induction cs with
  | nil => intro s1 s2 fs h _; exact ⟨h, rfl⟩
  | cons c cs ih =>
    intro s1 s2 fs h hf
    have hc := wCall_eqv R fs c h hf
    have hfo := wCall_framesOk R s1 fs c hf
    simp only [runCalls]
    have h2 : (wCall R s2 fs c).2.2 = (wCall R s1 fs c).2.2 := by rw [hc.2]
    by_cases hok : (wCall R s1 fs c).2.2 = true
    · rw [if_pos hok, if_pos (h2 ▸ hok)]
      have h3 : (wCall R s2 fs c).2.1 = (wCall R s1 fs c).2.1 := by rw [hc.2]
      rw [h3]
      exact ih _ hc.1 hfo
    · rw [if_neg hok, if_neg (h2 ▸ hok)]
      exact hc

theorem runCalls_be (R : Render) : ∀ (cs : List WCall) (st : Encoder) (fs : List SFrame),
    (runCalls R st fs cs).1.be = st.be := by
  intro cs
  induction cs with
  | nil => intro st fs; rfl
  | cons c cs ih =>
    intro st fs
    simp only [runCalls]
    split
    · rw [ih, wCall_be]
    · exact wCall_be R st fs c

theorem framesOk_nil (st : Encoder) : FramesOk st [] := fun _ _ h => nomatch h

theorem Eqv.set_cell {s1 s2 : Encoder} (h : Eqv s1 s2) (c : Option Ver) :
    Eqv { s1 with cell := c } { s2 with cell := c } := ⟨h.1, rfl, h.2.2.1, h.2.2.2⟩

theorem encodeOp_eqv (R : Render) (S : Schema) {s1 s2 : Encoder} (m : Msg) (j : Junk) (h : Eqv s1 s2) :
    Eqv (encodeOp R S s1 m j).1 (encodeOp R S s2 m j).1 ∧ (encodeOp R S s1 m j).2 = (encodeOp R S s2 m j).2 := by
  unfold encodeOp
  rw [← h.2.1]
  cases encodeFrom S m s1.cell with
  | ok a =>
    obtain ⟨items, c1⟩ := a
    have hr := runCalls_eqv R (flattenL items) [] h (framesOk_nil _)
    simp only
    have h2 : (runCalls R s2 [] (flattenL items)).2.2 = (runCalls R s1 [] (flattenL items)).2.2 := by rw [hr.2]
    rw [h2]
    split
    · exact ⟨hr.1.set_cell c1, rfl⟩
    · exact ⟨hr.1, rfl⟩
  | err e => exact ⟨(runCalls_eqv R j.calls [] h (framesOk_nil _)).1.set_cell _, rfl⟩
  | panic msg => exact ⟨(runCalls_eqv R j.calls [] h (framesOk_nil _)).1.set_cell _, rfl⟩

theorem rawOp_eqv (R : Render) {s1 s2 : Encoder} (cs : List WCall) (abort : Bool) (h : Eqv s1 s2) :
    Eqv (rawOp R s1 cs abort).1 (rawOp R s2 cs abort).1 ∧ (rawOp R s1 cs abort).2 = (rawOp R s2 cs abort).2 := by
  have hr := runCalls_eqv R cs [] h (framesOk_nil _)
  unfold rawOp
  exact ⟨hr.1, by simp only [hr.2]⟩

/-- **`Clear` from ANY state** — whatever the cell, the buffer (content, capacity, stale bytes), the element stack
    and pending output of the `xml.Encoder` — leads to a state no caller can tell from a new encoder's. -/
theorem clearOp_eqv_fresh (st : Encoder) : Eqv (clearOp st).1 (fresh st.be) ∧ (clearOp st).2 = true := by
  unfold clearOp fresh
  cases hb : st.be <;> simp only
  · exact ⟨⟨rfl, rfl, by simp, fun hx => nomatch hx⟩, trivial⟩
  · exact ⟨⟨rfl, rfl, by simp, fun _ => rfl⟩, trivial⟩
  · exact ⟨⟨rfl, rfl, by simp, fun hx => nomatch hx⟩, trivial⟩
  · exact ⟨⟨rfl, rfl, by simp, fun hx => nomatch hx⟩, trivial⟩

theorem clearOp_eqv {s1 s2 : Encoder} (h : Eqv s1 s2) :
    Eqv (clearOp s1).1 (clearOp s2).1 ∧ (clearOp s1).2 = (clearOp s2).2 := by
  have a := clearOp_eqv_fresh s1
  have b := clearOp_eqv_fresh s2
  rw [← h.1] at b
  exact ⟨a.1.trans b.1.symm, a.2.trans b.2.symm⟩

theorem bytesOp_eqv {s1 s2 : Encoder} (h : Eqv s1 s2) : Eqv (bytesOp s1) (bytesOp s2) := by
  unfold bytesOp
  rw [← h.1]
  cases hb : s1.be <;> simp only
  · exact h
  · exact flushXml_eqv h hb
  · exact h
  · exact h

/-- equivalent states: equivalent successors and THE SAME observation, for every operation. -/
theorem stepOp_eqv (R : Render) (S : Schema) {s1 s2 : Encoder} (op : Op) (h : Eqv s1 s2) :
    Eqv (stepOp R S s1 op).1 (stepOp R S s2 op).1 ∧ (stepOp R S s1 op).2 = (stepOp R S s2 op).2 := by
  cases op with
  | encode m j =>
    have := encodeOp_eqv R S m j h
    exact ⟨this.1, by simp only [stepOp, stepOpWith, this.2]⟩
  | raw cs abort =>
    have := rawOp_eqv R cs abort h
    exact ⟨this.1, by simp only [stepOp, stepOpWith, this.2]⟩
  | clear =>
    have := clearOp_eqv h
    exact ⟨this.1, by simp only [stepOp, stepOpWith, this.2]⟩
  | bytes =>
    have := bytesOp_eqv h
    exact ⟨this, by simp only [stepOp, stepOpWith, this.2.2.1]⟩

theorem runOps_eqv (R : Render) (S : Schema) : ∀ (ops : List Op) {s1 s2 : Encoder}, Eqv s1 s2 →
    Eqv (runOps R S s1 ops).1 (runOps R S s2 ops).1 ∧ (runOps R S s1 ops).2 = (runOps R S s2 ops).2 := by
  intro ops
  induction ops with
  | nil => intro s1 s2 h; exact ⟨h, rfl⟩
  | cons op ops ih =>
    intro s1 s2 h
    have hs := stepOp_eqv R S op h
    have hi := ih hs.1
    simp only [runOps, stepOp] at hi hs
    simp only [runOps, runOpsWith]
    exact ⟨hi.1, by rw [hs.2, hi.2]⟩

theorem runOpsWith_append (clr : Encoder → Encoder × Bool) (R : Render) (S : Schema) :
    ∀ (h1 h2 : List Op) (st : Encoder),
      runOpsWith clr R S st (h1 ++ h2) =
        ((runOpsWith clr R S (runOpsWith clr R S st h1).1 h2).1,
         (runOpsWith clr R S st h1).2 ++ (runOpsWith clr R S (runOpsWith clr R S st h1).1 h2).2) := by
  intro h1
  induction h1 with
  | nil => intro h2 st; rfl
  | cons op ops ih =>
    intro h2 st
    simp only [List.cons_append, runOpsWith, ih, List.cons_append]

theorem encodeOp_be (R : Render) (S : Schema) (st : Encoder) (m : Msg) (j : Junk) :
    (encodeOp R S st m j).1.be = st.be := by
  unfold encodeOp
  split
  · dsimp only
    split
    · exact runCalls_be R _ st []
    · exact runCalls_be R _ st []
  · exact runCalls_be R _ st []

theorem clearOp_be (st : Encoder) : (clearOp st).1.be = st.be := by
  unfold clearOp; cases hb : st.be <;> simp only

theorem bytesOp_be (st : Encoder) : (bytesOp st).be = st.be := by
  unfold bytesOp; cases hb : st.be <;> simp only [flushXml, hb]

theorem stepOp_be (R : Render) (S : Schema) (st : Encoder) (op : Op) : (stepOp R S st op).1.be = st.be := by
  cases op with
  | encode m j => exact encodeOp_be R S st m j
  | raw cs abort => exact runCalls_be R cs st []
  | clear => exact clearOp_be st
  | bytes => exact bytesOp_be st

theorem runOps_be (R : Render) (S : Schema) : ∀ (ops : List Op) (st : Encoder), (runOps R S st ops).1.be = st.be := by
  intro ops
  induction ops with
  | nil => intro st; rfl
  | cons op ops ih =>
    intro st
    have := ih (stepOp R S st op).1
    simp only [runOps, stepOp] at this
    simp only [runOps, runOpsWith, this]
    exact stepOp_be R S st op

/-- **History independence.** From any state `st0`, after any history `h` and a `Clear`, every continuation `ops`
    is observed exactly as on a new encoder of the same back end, and ends in an equivalent state. -/
theorem history_independent (R : Render) (S : Schema) (st0 : Encoder) (h ops : List Op) :
    (runOps R S st0 (h ++ .clear :: ops)).2 =
        (runOps R S st0 h).2 ++ ⟨true, none⟩ :: (runOps R S (fresh st0.be) ops).2 ∧
    Eqv (runOps R S st0 (h ++ .clear :: ops)).1 (runOps R S (fresh st0.be) ops).1 := by
  have hbe : (runOps R S st0 h).1.be = st0.be := runOps_be R S h st0
  have hc := clearOp_eqv_fresh (runOps R S st0 h).1
  rw [hbe] at hc
  have hr := runOps_eqv R S ops hc.1
  simp only [runOps] at hr hc ⊢
  rw [runOpsWith_append]
  simp only [runOpsWith, stepOpWith, hc.2]
  exact ⟨by rw [hr.2], hr.1⟩

/-! ## 4 — the binary writer writes `enc` -/

theorem runCalls_leaf_ttlv (R : Render) (st : Encoder) (fs : List SFrame) (it : Item) (rest : List WCall)
    (h : st.be = .ttlv) :
    runCalls R st fs (.leaf it :: rest) = runCalls R { st with buf := st.buf.append (enc it) } fs rest := by
  simp only [runCalls, wCall, wLeaf_ttlv R st _ it h, if_true]

/-- what `Struct` does to the slice around the children's bytes `body`: the placeholder becomes the length. -/
theorem patch_placeholder (b : GoBuf) (pre body : Bytes) (h : b.vis = pre ++ be32 0 ++ body) :
    (b.patch pre.length (be32 (b.vis.length - pre.length - 4))).vis = pre ++ be32 body.length ++ body := by
  have hl : b.vis.length = pre.length + 4 + body.length := by
    rw [h]; simp only [List.length_append, be32_length]
  rw [GoBuf.patch_vis_within _ _ _ (by rw [be32_length]; omega), be32_length]
  have e : b.vis.length - pre.length - 4 = body.length := by omega
  have ht : b.vis.take pre.length = pre := by
    rw [h, List.append_assoc]; exact List.take_left' rfl
  have hd : b.vis.drop (pre.length + 4) = body := by
    rw [h]; exact List.drop_left' (by rw [List.length_append, be32_length])
  rw [e, ht, hd]

mutual
  /-- the calls of a complete item, run by the binary writer inside any open structures `fs`, append exactly
      `enc it` to the slice and leave the frames as they were — whatever the backing array holds. -/
  theorem ttlv_flatten (R : Render) : (it : Item) → (st : Encoder) → (fs : List SFrame) → (rest : List WCall) →
      st.be = .ttlv →
      ∃ b', b'.vis = st.buf.vis ++ enc it ∧
        runCalls R st fs (flatten it ++ rest) = runCalls R { st with buf := b' } fs rest
    | .struct tag cs, st, fs, rest, h => by
      have ho := wOpen_ttlv R st fs.length tag h
      obtain ⟨b2, hb2, hr⟩ := ttlv_flattenL R cs
        { st with buf := (st.buf.append (tag3 tag ++ [1])).append (be32 0) }
        (⟨tag, (st.buf.append (tag3 tag ++ [1])).vis.length⟩ :: fs) (.close :: rest) h
      refine ⟨b2.patch (st.buf.vis ++ (tag3 tag ++ [1])).length (be32 (b2.vis.length - (st.buf.vis ++ (tag3 tag ++ [1])).length - 4)), ?_, ?_⟩
      · rw [patch_placeholder b2 (st.buf.vis ++ (tag3 tag ++ [1])) (encList cs) (by simpa using hb2)]
        rw [enc, hdr]; simp
      · rw [flatten]
        simp only [List.cons_append, List.append_assoc, List.nil_append]
        rw [runCalls]
        simp only [wCall, ho, if_true]
        rw [hr]
        rw [runCalls]
        simp only [wCall, wClose_ttlv R _ _ _ (show ({ st with buf := b2 } : Encoder).be = .ttlv from h), if_true,
          GoBuf.append_vis]
    | .int tag v, st, fs, rest, h => ⟨_, GoBuf.append_vis _ _, runCalls_leaf_ttlv R st fs _ rest h⟩
    | .long tag v, st, fs, rest, h => ⟨_, GoBuf.append_vis _ _, runCalls_leaf_ttlv R st fs _ rest h⟩
    | .big tag v, st, fs, rest, h => ⟨_, GoBuf.append_vis _ _, runCalls_leaf_ttlv R st fs _ rest h⟩
    | .enum tag v, st, fs, rest, h => ⟨_, GoBuf.append_vis _ _, runCalls_leaf_ttlv R st fs _ rest h⟩
    | .bool tag v, st, fs, rest, h => ⟨_, GoBuf.append_vis _ _, runCalls_leaf_ttlv R st fs _ rest h⟩
    | .text tag v, st, fs, rest, h => ⟨_, GoBuf.append_vis _ _, runCalls_leaf_ttlv R st fs _ rest h⟩
    | .bytes tag v, st, fs, rest, h => ⟨_, GoBuf.append_vis _ _, runCalls_leaf_ttlv R st fs _ rest h⟩
    | .date tag v, st, fs, rest, h => ⟨_, GoBuf.append_vis _ _, runCalls_leaf_ttlv R st fs _ rest h⟩
    | .interval tag v, st, fs, rest, h => ⟨_, GoBuf.append_vis _ _, runCalls_leaf_ttlv R st fs _ rest h⟩
  theorem ttlv_flattenL (R : Render) : (its : List Item) → (st : Encoder) → (fs : List SFrame) →
      (rest : List WCall) → st.be = .ttlv →
      ∃ b', b'.vis = st.buf.vis ++ encList its ∧
        runCalls R st fs (flattenL its ++ rest) = runCalls R { st with buf := b' } fs rest
    | [], st, fs, rest, _ => ⟨st.buf, by simp [encList], by simp [flattenL]⟩
    | x :: xs, st, fs, rest, h => by
      obtain ⟨b1, hb1, hr1⟩ := ttlv_flatten R x st fs (flattenL xs ++ rest) h
      obtain ⟨b2, hb2, hr2⟩ := ttlv_flattenL R xs { st with buf := b1 } fs rest h
      refine ⟨b2, ?_, ?_⟩
      · rw [hb2]; simp only [hb1, encList, List.append_assoc]
      · rw [flattenL, List.append_assoc, hr1, hr2]
end

/-- the link with `marshal` (Model/Plan.lean): `MarshalTTLV` is `encode` from the empty cell, then `enc`. -/
theorem marshal_eq_encodeFrom (S : Schema) (d tag : Nat) (v : Val) :
    marshal S d tag v =
      (match encodeFrom S ⟨d, tag, v⟩ none with
       | .ok (items, _) => .ok (encList items)
       | .err e => .err e
       | .panic msg => .panic msg) := by
  unfold marshal encodeFrom encFuel
  dsimp only
  cases encK S 100000 (S.dyn d).kind (if tag = 0 then (S.dyn d).defTag else tag) v none with
  | ok a => obtain ⟨items, c⟩ := a; rfl
  | err e => rfl
  | panic m => rfl

/-- a typed encode that succeeds, on the binary encoder in ANY state: the call returns normally, the slice grows
    by exactly the encoding of the items, the cell is the one the message leaves. -/
theorem encodeOp_ttlv_ok (R : Render) (S : Schema) (st : Encoder) (m : Msg) (j : Junk) (items : List Item)
    (c1 : Option Ver) (hbe : st.be = .ttlv) (he : encodeFrom S m st.cell = .ok (items, c1)) :
    (encodeOp R S st m j).2 = true ∧ (encodeOp R S st m j).1.buf.vis = st.buf.vis ++ encList items ∧
      (encodeOp R S st m j).1.cell = c1 := by
  obtain ⟨b', hb', hr⟩ := ttlv_flattenL R items st [] [] hbe
  rw [List.append_nil] at hr
  unfold encodeOp
  rw [he]
  simp only [hr, runCalls, if_true]
  exact ⟨trivial, hb', trivial⟩

/-- `Bytes(new; encode m) = MarshalTTLV(m)`. -/
theorem fresh_encode_bytes (R : Render) (S : Schema) (m : Msg) (j : Junk) (bs : Bytes)
    (h : marshal S m.d m.tag m.v = .ok bs) :
    (runOps R S (fresh .ttlv) [.encode m j, .bytes]).2 = [⟨true, none⟩, ⟨true, some bs⟩] := by
  rw [marshal_eq_encodeFrom] at h
  cases he : encodeFrom S ⟨m.d, m.tag, m.v⟩ none with
  | ok a =>
    obtain ⟨items, c⟩ := a
    rw [he] at h
    have hbs : encList items = bs := by cases h; rfl
    have := encodeOp_ttlv_ok R S (fresh .ttlv) m j items c rfl he
    have hbe : (encodeOp R S (fresh .ttlv) m j).1.be = .ttlv := encodeOp_be R S _ m j
    have hv : (encodeOp R S (fresh .ttlv) m j).1.buf.vis = bs := by rw [this.2.1, ← hbs]; rfl
    simp only [runOps, runOpsWith, stepOpWith, bytesOp]
    rw [hbe, this.1, hv]
  | err e => rw [he] at h; exact nomatch h
  | panic msg => rw [he] at h; exact nomatch h

/-! ## 5 — slices returned by `Bytes()` (binary encoder) -/

/-- the slice `v` still shows what it showed: either the encoder has moved to another array, or the array is
    the same, the slice still lies inside the visible part and its bytes are unchanged. -/
def Stable (v : View) (b : GoBuf) : Prop :=
  v.gen ≤ b.gen ∧ (v.gen = b.gen → v.n ≤ b.vis.length ∧ b.mem.take v.n = v.snap)

theorem Stable.read {v : View} {b : GoBuf} (h : Stable v b) : v.read b = v.snap := by
  unfold View.read
  split
  · rename_i hg; exact (h.2 hg).2
  · rfl

theorem stable_view (st : Encoder) : Stable st.view st.buf := by
  refine ⟨Nat.le_refl _, fun _ => ⟨Nat.le_refl _, ?_⟩⟩
  simp [Encoder.view, GoBuf.mem]

theorem stable_append {v : View} {b : GoBuf} (xs : Bytes) (h : Stable v b) : Stable v (b.append xs) := by
  unfold GoBuf.append
  split
  · refine ⟨h.1, fun hg => ?_⟩
    obtain ⟨hn, hm⟩ := h.2 hg
    refine ⟨by simp only [List.length_append]; omega, ?_⟩
    rw [← hm]
    simp only [GoBuf.mem, List.append_assoc]
    rw [List.take_append_of_le_length hn, List.take_append_of_le_length hn]
  · refine ⟨Nat.le_succ_of_le h.1, fun hg => ?_⟩
    have := h.1
    simp only at hg
    omega

theorem patch_mem (b : GoBuf) (off : Nat) (xs : Bytes) (h : off + xs.length ≤ b.cap) :
    (b.patch off xs).mem = b.mem.take off ++ xs ++ b.mem.drop (off + xs.length) := by
  unfold GoBuf.patch
  rw [if_pos h]
  simp only [GoBuf.mem, List.take_append_drop]

theorem stable_patch {v : View} {b : GoBuf} (off : Nat) (xs : Bytes) (h : Stable v b)
    (ho : v.gen = b.gen → v.n ≤ off) : Stable v (b.patch off xs) := by
  by_cases hc : off + xs.length ≤ b.cap
  · have hg : (b.patch off xs).gen = b.gen := by unfold GoBuf.patch; rw [if_pos hc]
    refine ⟨hg ▸ h.1, fun hg' => ?_⟩
    rw [hg] at hg'
    obtain ⟨hn, hm⟩ := h.2 hg'
    have hno := ho hg'
    refine ⟨by rw [GoBuf.patch_vis_length]; exact hn, ?_⟩
    rw [patch_mem b off xs hc, ← hm, List.append_assoc]
    have hlen : off ≤ b.mem.length := by
      simp only [GoBuf.mem, List.length_append]; unfold GoBuf.cap at hc; omega
    rw [List.take_append_of_le_length (by rw [List.length_take]; omega), List.take_take,
      Nat.min_eq_left hno]
  · unfold GoBuf.patch; rw [if_neg hc]; exact h

/-- the invariant inside a call of the binary writer: every open frame's placeholder lies beyond the slice. -/
def StableF (v : View) (st : Encoder) (fs : List SFrame) : Prop :=
  Stable v st.buf ∧ (v.gen = st.buf.gen → ∀ fr ∈ fs, v.n ≤ fr.off)

theorem append_gen_eq {b : GoBuf} {xs : Bytes} {g : Nat} (hle : g ≤ b.gen) (h : g = (b.append xs).gen) :
    g = b.gen := by
  unfold GoBuf.append at h
  split at h
  · exact h
  · simp only at h; omega

theorem wCall_stable (R : Render) (v : View) (st : Encoder) (fs : List SFrame) (c : WCall)
    (hbe : st.be = .ttlv) (h : StableF v st fs) :
    StableF v (wCall R st fs c).1 (wCall R st fs c).2.1 := by
  obtain ⟨hs, hf⟩ := h
  cases c with
  | leaf it =>
    simp only [wCall, wLeaf_ttlv R st _ it hbe]
    exact ⟨stable_append _ hs, fun hg => hf (append_gen_eq hs.1 hg)⟩
  | «open» tag =>
    simp only [wCall, wOpen_ttlv R st _ tag hbe]
    refine ⟨stable_append _ (stable_append _ hs), fun hg fr hfr => ?_⟩
    have hg1 := append_gen_eq (stable_append (tag3 tag ++ [1]) hs).1 hg
    have hg0 := append_gen_eq hs.1 hg1
    rcases List.mem_cons.1 hfr with rfl | hfr
    · have := (hs.2 hg0).1
      simp only [GoBuf.append_vis, List.length_append]; omega
    · exact hf hg0 fr hfr
  | close =>
    cases fs with
    | nil => exact ⟨hs, hf⟩
    | cons f rest =>
      simp only [wCall, wClose_ttlv R st _ f hbe]
      have hpg : ∀ off xs, (st.buf.patch off xs).gen = st.buf.gen := by
        intro off xs; unfold GoBuf.patch; split <;> rfl
      refine ⟨stable_patch _ _ hs (fun hg => hf hg f List.mem_cons_self), fun hg fr hfr => ?_⟩
      rw [hpg] at hg
      exact hf hg fr (List.mem_cons_of_mem _ hfr)

theorem runCalls_stable (R : Render) (v : View) : ∀ (cs : List WCall) (st : Encoder) (fs : List SFrame),
    st.be = .ttlv → StableF v st fs → Stable v (runCalls R st fs cs).1.buf := by
  intro cs
  induction cs with
  | nil => intro st fs _ h; exact h.1
  | cons c cs ih =>
    intro st fs hbe h
    have hc := wCall_stable R v st fs c hbe h
    simp only [runCalls]
    split
    · exact ih _ _ (by rw [wCall_be]; exact hbe) hc
    · exact hc.1

def Op.isClear : Op → Bool
  | .clear => true
  | _ => false

theorem stepOp_stable (R : Render) (S : Schema) (v : View) (st : Encoder) (op : Op) (hbe : st.be = .ttlv)
    (hc : op.isClear = false) (h : Stable v st.buf) : Stable v (stepOp R S st op).1.buf := by
  have h0 : StableF v st [] := ⟨h, fun _ _ hfr => nomatch hfr⟩
  cases op with
  | encode m j =>
    simp only [stepOp, stepOpWith, encodeOp]
    split
    · split
      · exact runCalls_stable R v _ st [] hbe h0
      · exact runCalls_stable R v _ st [] hbe h0
    · exact runCalls_stable R v _ st [] hbe h0
  | raw cs abort => exact runCalls_stable R v cs st [] hbe h0
  | clear => exact nomatch hc
  | bytes => simp only [stepOp, stepOpWith, bytesOp, hbe]; exact h

/-- **a slice obtained from `Bytes()` on the binary encoder keeps its content as long as `Clear` is not called**,
    whatever is encoded meanwhile (appends go beyond it or into a new array; length patches hit placeholders
    written later). -/
theorem runOps_stable (R : Render) (S : Schema) (v : View) : ∀ (ops : List Op) (st : Encoder), st.be = .ttlv →
    (∀ op ∈ ops, op.isClear = false) → Stable v st.buf → Stable v (runOps R S st ops).1.buf := by
  intro ops
  induction ops with
  | nil => intro st _ _ h; exact h
  | cons op ops ih =>
    intro st hbe hc h
    have h1 := stepOp_stable R S v st op hbe (hc op List.mem_cons_self) h
    have := ih (stepOp R S st op).1 (by rw [stepOp_be]; exact hbe)
      (fun o ho => hc o (List.mem_cons_of_mem _ ho)) h1
    simp only [runOps, stepOp] at this
    simp only [runOps, runOpsWith]
    exact this

end Kmip.Cache
