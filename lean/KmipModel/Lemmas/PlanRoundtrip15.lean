/-
  C01 — stage 4: the induction over the fuel of the encoder, and the `marshal` / `unmarshal` wrappers.
-/
import KmipModel.Lemmas.PlanRoundtrip14
namespace Kmip

theorem pall (S : Schema) (hU : S.unambiguous = true) (n : Nat) : PAll S n := by
  induction n using Nat.strongRecOn with
  | _ n ih =>
    have hK : ∀ m, m < n → PK S m := fun m hm => (ih m hm).k
    cases n with
    | zero =>
      refine ⟨?_, ?_, ?_, ?_, pcust S hU 0 hK, pcustdec S hU 0 hK⟩
      · intro k tag v ver v' ver' h; rw [normK_zero] at h; contradiction
      · intro k tag xs ver xs' ver' _ h; rw [normSlice_zero] at h; contradiction
      · intro fs vs ver vs' ver' _ h; rw [normFields_zero] at h; contradiction
      · intro fs vs ver vs' ver' items _ _ h; rw [normFields_zero] at h; contradiction
    | succ m =>
      have hm := ih m (Nat.lt_succ_self m)
      exact ⟨pk_succ S hU m hm.k hm.slice hm.fe hm.fd hm.cust hm.custDec, pslice_succ S m hm.k hm.slice,
        pfe_succ S m hm.k hm.fe, pfd_succ S m hm.k hm.fd, pcust S hU (m + 1) hK, pcustdec S hU (m + 1) hK⟩

theorem unmarshal_eq (S : Schema) (d tag : Nat) (bs : Bytes) :
    unmarshal S d tag bs =
      if S.dyns.length ≤ d then .err .other else unmarshalFuel S (decFuel bs.length) d tag bs := by
  unfold unmarshal; rfl

/-- the round trip at the level of `marshal` / `unmarshal`, for any sufficient decoder fuel. -/
theorem roundtrip_core (S : Schema) (hU : S.unambiguous = true) (d tag : Nat) (v v' : Val) (w : Option Ver)
    (hwf : normTop S d tag v = some (v', w))
    (hir : ∀ items ver', encK S marshalFuel (S.dyn d).kind (topTag S d tag) v none = .ok (items, ver') →
      Item.AllInRange items) :
    ∃ items, encK S marshalFuel (S.dyn d).kind (topTag S d tag) v none = .ok (items, w)
      ∧ marshal S d tag v = .ok (encList items)
      ∧ marshal S d tag v' = .ok (encList items)
      ∧ normTop S d tag v' = some (v', w)
      ∧ ∀ fuel, v.depth ≤ fuel → unmarshalFuel S fuel d tag (encList items) = .ok v' := by
  unfold normTop at hwf
  obtain ⟨hc, hn⟩ := ite_eq_some hwf
  simp only [Bool.and_eq_true] at hc
  obtain ⟨hok, hdyn⟩ := hc
  obtain ⟨items, he, he', hn', ht, hl, _, hd⟩ :=
    (pall S hU marshalFuel).k (S.dyn d).kind (topTag S d tag) v none v' w hn
  have hr := hir items w he
  have hone := dynValOk_emitsOne hok
  have hm : ∀ x, encK S marshalFuel (S.dyn d).kind (topTag S d tag) x none = .ok (items, w) →
      marshal S d tag x = .ok (encList items) := by
    intro x hx
    unfold marshal
    simp only [topTag, marshalFuel] at hx
    simp only [hx, Res.ok_bind, Res.pure_eq]
  refine ⟨items, he, hm v he, hm v' he', ?_, ?_⟩
  · unfold normTop
    simp only [dynValOk_norm hok hn, hdyn, Bool.and_self, if_true, hn']
  · intro fuel hf
    unfold unmarshalFuel unmarshalWith
    rw [Cur.start_encList items hr]
    simp only [Res.ok_bind]
    have htt : (if tag = 0 then (S.dyn d).defTag else tag) = topTag S d tag := rfl
    rw [htt]
    simp only [Schema.dynOK, Bool.and_eq_true] at hdyn
    cases hk : (S.dyn d).kind with
    | ptr k' =>
      rw [hk] at hd hok hn hdyn hone
      obtain ⟨y, rfl⟩ := dynValOk_ptr hok
      have hdk := hd hdyn.2 hr (fuel + 1) [] (by omega) (Or.inl hone)
      obtain ⟨it, rfl⟩ := list_len1 (hl (by rw [hk]; exact hone))
      have hit : it.tag = topTag S d tag := ht it (List.mem_singleton.2 rfl)
      have hct : (Cur.of ([it].map Item.raw ++ [])).tag = topTag S d tag := by
        rw [Cur.tag_of, htag_single, hit]
      simp only [decK, hct, ne_eq, not_true_eq_false, if_false] at hdk
      -- the normalised value is a non-nil pointer
      obtain ⟨m, hmf⟩ := normK_succ_of_some hn
      rw [hmf, normK_ptr] at hn
      simp only at hn
      obtain ⟨_, hn⟩ := ite_eq_some hn
      cases hy : normK S m k' (topTag S d tag) y none with
      | none => simp only [hy] at hn; contradiction
      | some p =>
        obtain ⟨y', w'⟩ := p
        simp only [hy] at hn
        obtain ⟨rfl, rfl⟩ := pair_eq (Option.some.inj hn)
        have := Res.bind_ptr_inv hdk
        simp only [List.append_nil] at this
        simp only [this, Res.ok_bind, Res.pure_eq]
    | _ =>
      rw [hk] at hd hok hn hdyn hone
      have hdk := hd hdyn.2 hr fuel [] hf (Or.inl hone)
      simp only [List.append_nil] at hdk
      simp only [hdk, Res.ok_bind, Res.pure_eq]

end Kmip
