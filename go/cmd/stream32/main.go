// Command stream32 evaluates `stream.recv` protocol lines (one per input line) on the real ttlv.Stream and
// prints the canonical answer of each. The `stream` engine builds it with GOARCH=386 and compares its
// answers with those of the 64-bit build: framing must not depend on the width of int (C07).
package main

import (
	"bufio"
	"fmt"
	"os"

	"verifharness/internal/streamrun"
)

func main() {
	in := bufio.NewReaderSize(os.Stdin, 1<<20)
	out := bufio.NewWriter(os.Stdout)
	defer out.Flush()
	for {
		l, err := in.ReadString('\n')
		if len(l) > 1 {
			max, _, wire, sched, ok := streamrun.ParseLine(l)
			if !ok {
				fmt.Fprintln(out, "bad-op")
			} else {
				recvs, more, tr := streamrun.Run(max, wire, sched, streamrun.Options{})
				fmt.Fprintf(out, "%s c0=%s\n", streamrun.Render(recvs, more, tr.Pos), streamrun.C0s(recvs))
			}
		}
		if err != nil {
			return
		}
	}
}
