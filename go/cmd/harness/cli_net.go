package main

// In-memory fault-injecting transport, scripted echo server and yield-point director for the
// `lts.cli` engine (cli.go). Everything here is harness code; the code under test is kmipclient.

import (
	"context"
	"encoding/binary"
	"errors"
	"fmt"
	"io"
	"net"
	"os"
	"reflect"
	"runtime"
	"strings"
	"sync"
	"sync/atomic"
	"syscall"
	"time"
	"unsafe"

	"github.com/ovh/kmip-go"
	"github.com/ovh/kmip-go/kmipclient"
	"github.com/ovh/kmip-go/payloads"
	"github.com/ovh/kmip-go/ttlv"
)

// ---------------------------------------------------------------------------------------------
// faults

// lcFault fails one I/O operation: the k-th Read ('r') or Write ('w') of the conn-th connection, or the
// k-th dial attempt ('d'). rep > 0: the same fault also applies to the next rep connections / dials.
type lcFault struct {
	dir  byte   // 'd' | 'r' | 'w'
	conn int    // connection index (for 'd': dial attempt index)
	k    int    // operation index on that connection
	kind string // eof | closed | reset | partial | timeout | ueof (read) ; closed | reset | short | eof (write) ; car (write: server closes after replying)
	// write, the read side of the connection stays healthy: hreset | hclosed (the Write fails, nothing is delivered) ;
	// late (the request is delivered, the server replies, the reader holds the response, THEN the Write reports a reset)
	timing string // read faults: "call" (fail when the Read is invoked) | "data" (fail when the data arrives)
	rep    int
	fired  []int // phases in which it fired
}

func (f *lcFault) String() string {
	s := fmt.Sprintf("%c%d.%d:%s", f.dir, f.conn, f.k, f.kind)
	if f.dir == 'r' {
		s += ":" + f.timing
	}
	if f.rep > 0 {
		s += fmt.Sprintf("*%d", f.rep)
	}
	return s
}

// lcRetried: the error kinds ("r"/"w" + kind) after which the real client has been OBSERVED (dry runs, engine
// start) to transmit the request again. Which errors the client retries is not part of the property (it bounds the
// number of transmissions and demands recovery); the model has a retryable and a fatal class of read and of write
// faults, and the observation decides to which class a kind belongs. nil: not observed, today's classification.
var lcRetried map[string]bool

// kinds whose class is observed (the others — end of stream, closed connection — are retryable by the property's
// own mechanism list and are checked as such by the rty family).
var lcObservedKinds = []string{"rreset", "rtimeout", "rueof", "wreset", "wshort", "whreset"}

func lcIsRetried(dir byte, kind string) bool {
	if kind == "late" {
		kind = "hreset" // the same error, reported after the request was delivered
	}
	return lcRetried != nil && lcRetried[string(dir)+kind]
}

// letter of the fault in the model's scenario language.
func (f *lcFault) letter() byte {
	switch f.dir {
	case 'd':
		return 'd'
	case 'r':
		if f.kind == "reset" || f.kind == "timeout" || f.kind == "ueof" {
			if lcIsRetried('r', f.kind) {
				return 'e'
			}
			return 'r' // anything that is not an end of stream or a closed connection: not retried (as observed)
		}
		return 'e' // io.EOF, closed pipe, partial message followed by EOF: all retryable for doRountrip
	default:
		switch f.kind {
		case "closed", "eof", "hclosed":
			return 'w'
		case "car":
			return 'e' // the client sees EOF on a later read
		}
		if lcIsRetried('w', f.kind) {
			return 'w'
		}
		return 'f'
	}
}

var errLcReset = &net.OpError{Op: "read", Net: "pipe", Err: syscall.ECONNRESET}

func lcErrFor(kind string, write bool) error {
	switch kind {
	case "eof", "partial":
		return io.EOF
	case "closed":
		return &net.OpError{Op: "io", Net: "pipe", Err: net.ErrClosed}
	case "timeout":
		return &net.OpError{Op: "read", Net: "pipe", Err: os.ErrDeadlineExceeded}
	case "ueof":
		return io.ErrUnexpectedEOF
	case "hclosed":
		return &net.OpError{Op: "write", Net: "pipe", Err: net.ErrClosed}
	case "hreset", "late":
		return &net.OpError{Op: "write", Net: "pipe", Err: syscall.ECONNRESET}
	case "reset":
		if write {
			return &net.OpError{Op: "write", Net: "pipe", Err: syscall.ECONNRESET}
		}
		return errLcReset
	case "short":
		return io.ErrShortWrite
	}
	return errors.New("injected failure")
}

// ---------------------------------------------------------------------------------------------
// transport

type lcNet struct {
	mu     sync.Mutex
	dials  int // dial attempts
	conns  []*lcConn
	faults []*lcFault
	phase  atomic.Int32
	srv    *lcServer
	dir    *lcDirector
	// transmissions are counted as REQUEST MESSAGES that the client starts to put on the wire: the byte stream
	// the client hands to Write is cut into TTLV frames (8-byte header + padded length), whatever the number of
	// Write calls used for one message.
	blocked atomic.Int32   // dial attempts currently or formerly blocked by a "block" fault
	frames  atomic.Int64   // request frames started, all connections
	whole   atomic.Int64   // request frames completed, all connections
	txByID  map[string]int // complete request frames by the identifier they carry
	// inWrite, if set, is called when a request frame carrying that identifier is handed to Write (before any byte
	// is passed on); the Write continues when it returns.
	inWrite func(id string, c *lcConn)
	// inDial, if set, is called when the dialer has been invoked (attempt index), before it connects
	inDial func(idx int)
}

func (n *lcNet) setInDial(f func(idx int)) {
	n.mu.Lock()
	n.inDial = f
	n.mu.Unlock()
}

func (n *lcNet) setInWrite(f func(id string, c *lcConn)) {
	n.mu.Lock()
	n.inWrite = f
	n.mu.Unlock()
}

func (n *lcNet) getInWrite() func(id string, c *lcConn) {
	n.mu.Lock()
	defer n.mu.Unlock()
	return n.inWrite
}

// txOf returns the number of complete request messages carrying the identifier that the client has written.
func (n *lcNet) txOf(id string) int {
	n.mu.Lock()
	defer n.mu.Unlock()
	return n.txByID[id]
}

func (n *lcNet) match(dir byte, conn, k int) *lcFault {
	n.mu.Lock()
	defer n.mu.Unlock()
	for _, f := range n.faults {
		if f.dir == dir && f.k == k && conn >= f.conn && conn <= f.conn+f.rep {
			return f
		}
	}
	return nil
}

func (n *lcNet) fire(f *lcFault) {
	n.mu.Lock()
	f.fired = append(f.fired, int(n.phase.Load()))
	n.mu.Unlock()
}

func (n *lcNet) dial(ctx context.Context) (net.Conn, error) {
	n.mu.Lock()
	idx := n.dials
	n.dials++
	n.mu.Unlock()
	n.mu.Lock()
	fs := append([]*lcFault(nil), n.faults...)
	cb := n.inDial
	n.mu.Unlock()
	if cb != nil {
		cb(idx)
	}
	for _, f := range fs {
		if f.dir == 'd' && idx >= f.conn && idx <= f.conn+f.rep {
			n.fire(f)
			if f.kind == "block" {
				// an unreachable peer: the dial ends only when the caller's context does
				n.blocked.Add(1)
				<-ctx.Done()
				return nil, &net.OpError{Op: "dial", Net: "pipe", Err: ctx.Err()}
			}
			return nil, &net.OpError{Op: "dial", Net: "pipe", Err: syscall.ECONNREFUSED}
		}
	}
	c1, c2 := net.Pipe()
	n.mu.Lock()
	c := &lcConn{Conn: c1, peer: c2, net: n, idx: len(n.conns), dialIdx: idx}
	n.conns = append(n.conns, c)
	n.mu.Unlock()
	n.srv.wg.Add(1)
	go n.srv.serve(c, c2)
	return c, nil
}

func (n *lcNet) dialCount() int {
	n.mu.Lock()
	defer n.mu.Unlock()
	return n.dials
}

func (n *lcNet) connCount() int {
	n.mu.Lock()
	defer n.mu.Unlock()
	return len(n.conns)
}

// opCounts returns per connection the number of Reads and Writes invoked so far.
func (n *lcNet) opCounts() (reads, writes []int) {
	n.mu.Lock()
	defer n.mu.Unlock()
	for _, c := range n.conns {
		reads = append(reads, int(c.reads.Load()))
		writes = append(writes, int(c.wr.Load()))
	}
	return
}

// shutdown closes every server-side end (which ends any client goroutine still reading).
func (n *lcNet) shutdown() {
	n.mu.Lock()
	conns := append([]*lcConn(nil), n.conns...)
	n.mu.Unlock()
	for _, c := range conns {
		_ = c.peer.Close()
	}
	n.srv.openAll()
	done := make(chan struct{})
	go func() { n.srv.wg.Wait(); close(done) }()
	select {
	case <-done:
	case <-time.After(3 * time.Second):
	}
}

type lcConn struct {
	net.Conn
	peer    net.Conn
	net     *lcNet
	idx     int
	dialIdx int
	reads   atomic.Int32
	wr      atomic.Int32
	dead    atomic.Pointer[error]
	wdead   atomic.Pointer[error] // the write side only has failed (reads stay healthy)
	eofNext atomic.Bool
	car     atomic.Bool // the server must close after its next reply
	srvGone atomic.Bool // the server has closed its end
	cclosed atomic.Bool // the CLIENT has closed the transport
	wmu     sync.Mutex
	wacc    []byte // bytes handed to Write that do not yet make a whole frame
	wopen   bool   // a frame has been started and not yet completed
}

// broken: the transport has failed (either direction) or the server has gone.
func (c *lcConn) broken() bool {
	return c.dead.Load() != nil || c.wdead.Load() != nil || c.srvGone.Load()
}

func (c *lcConn) Close() error {
	c.cclosed.Store(true)
	return c.Conn.Close()
}

// account cuts the bytes handed to Write into TTLV frames; returns the identifiers of the frames completed by p.
func (c *lcConn) account(p []byte) (ids []string) {
	c.wmu.Lock()
	defer c.wmu.Unlock()
	c.wacc = append(c.wacc, p...)
	for len(c.wacc) > 0 {
		if !c.wopen {
			c.wopen = true
			c.net.frames.Add(1)
		}
		if len(c.wacc) < 8 {
			break
		}
		need := 8 + (int(binary.BigEndian.Uint32(c.wacc[4:8]))+7)/8*8
		if len(c.wacc) < need {
			break
		}
		id := lcRequestID(c.wacc[:need])
		ids = append(ids, id)
		c.net.mu.Lock()
		if c.net.txByID == nil {
			c.net.txByID = map[string]int{}
		}
		c.net.txByID[id]++
		c.net.mu.Unlock()
		c.wacc = append([]byte(nil), c.wacc[need:]...)
		c.wopen = false
		c.net.whole.Add(1)
	}
	return ids
}

// lcRequestID decodes a request frame and returns the identifier it carries ("discover" for the negotiation,
// "?" if it cannot be decoded).
func lcRequestID(frame []byte) (id string) {
	defer func() {
		if recover() != nil {
			id = "?"
		}
	}()
	req := new(kmip.RequestMessage)
	if err := ttlv.UnmarshalTTLV(frame, req); err != nil {
		return "?"
	}
	for _, bi := range req.BatchItem {
		switch pl := bi.RequestPayload.(type) {
		case *payloads.ActivateRequestPayload:
			return pl.UniqueIdentifier
		case *payloads.DiscoverVersionsRequestPayload:
			return "discover"
		}
	}
	return "?"
}

func (c *lcConn) kill(err error) error {
	c.dead.CompareAndSwap(nil, &err)
	_ = c.peer.Close()
	return *c.dead.Load()
}

func (c *lcConn) Read(p []byte) (int, error) {
	k := int(c.reads.Add(1)) - 1
	if e := c.dead.Load(); e != nil {
		return 0, *e
	}
	if c.eofNext.Load() {
		return 0, c.kill(io.EOF)
	}
	f := c.net.match('r', c.idx, k)
	if f != nil && f.timing == "call" {
		c.net.fire(f)
		return 0, c.kill(lcErrFor(f.kind, false))
	}
	n, err := c.Conn.Read(p)
	if e := c.dead.Load(); e != nil {
		return 0, *e
	}
	if f == nil {
		// a fault armed while this Read was blocked applies when its data arrives
		if f = c.net.match('r', c.idx, k); f != nil && f.timing != "data" {
			f = nil
		}
	}
	if f != nil && err == nil {
		c.net.fire(f)
		if f.kind == "partial" && n > 1 {
			// half of what arrived, the rest of the stream is lost
			c.eofNext.Store(true)
			return n / 2, nil
		}
		return 0, c.kill(lcErrFor(f.kind, false))
	}
	return n, err
}

func (c *lcConn) Write(p []byte) (int, error) {
	k := int(c.wr.Add(1)) - 1
	ids := c.account(p)
	if cb := c.net.getInWrite(); cb != nil {
		for _, id := range ids {
			cb(id, c)
		}
	}
	if e := c.dead.Load(); e != nil {
		return 0, *e
	}
	if e := c.wdead.Load(); e != nil {
		return 0, *e
	}
	f := c.net.match('w', c.idx, k)
	if f != nil {
		c.net.fire(f)
		switch f.kind {
		case "car":
			c.car.Store(true)
		case "short":
			n, _ := c.Conn.Write(p[:len(p)/2])
			c.kill(io.ErrShortWrite)
			return n, io.ErrShortWrite
		case "hreset", "hclosed":
			err := lcErrFor(f.kind, true)
			c.wdead.CompareAndSwap(nil, &err)
			return 0, err
		case "late":
			// deliver, let the server reply and the read loop take the reply, then report the failure
			rx0 := 0
			if d := c.net.dir; d != nil {
				rx0 = d.hitCount("cli.read.beforeRx")
			}
			n, werr := c.Conn.Write(p)
			if werr != nil {
				return n, werr
			}
			if d := c.net.dir; d != nil {
				// (bounded well below the goroutine oracle's patience: this is the client's write loop waiting)
				dl := time.Now().Add(lcWaitEvent / 8)
				for d.hitCount("cli.read.beforeRx") == rx0 && time.Now().Before(dl) && !c.cclosed.Load() && !c.srvGone.Load() {
					time.Sleep(20 * time.Microsecond)
				}
			}
			time.Sleep(lcPause) // the read loop goes from the yield point into its hand-off
			err := lcErrFor(f.kind, true)
			c.wdead.CompareAndSwap(nil, &err)
			return 0, err
		default:
			return 0, c.kill(lcErrFor(f.kind, true))
		}
	}
	return c.Conn.Write(p)
}

// ---------------------------------------------------------------------------------------------
// scripted echo server

type lcSeen struct {
	conn int
	id   string
}

// lcServer answers Activate(id) with the same id; DiscoverVersions with 1.4..1.0.
type lcServer struct {
	mu      sync.Mutex
	wg      sync.WaitGroup
	seen    []lcSeen
	gates   map[string]chan struct{}  // id -> the reply waits until the channel is closed
	silent  map[string]bool           // id -> never reply
	onRecv  func(id string, conn int) // called (outside the lock) when a request has been read
	allOpen bool
	// overlaps: a request read on a connection while the reply to an earlier request of that connection was still
	// owed (withheld by a gate, or never sent): two exchanges in flight on one connection
	overlaps []lcOverlap
	// the negotiation is answered with a version the client does not have: Dial fails on a healthy connection
	noCommonVersion atomic.Bool
}

type lcOverlap struct {
	conn      int
	owed, new string
}

func (s *lcServer) overlapList() []lcOverlap {
	s.mu.Lock()
	defer s.mu.Unlock()
	return append([]lcOverlap(nil), s.overlaps...)
}

func newLcServer() *lcServer {
	return &lcServer{gates: map[string]chan struct{}{}, silent: map[string]bool{}}
}

func (s *lcServer) gate(id string) {
	s.mu.Lock()
	s.gates[id] = make(chan struct{})
	s.mu.Unlock()
}

func (s *lcServer) open(id string) {
	s.mu.Lock()
	if g, ok := s.gates[id]; ok {
		close(g)
		delete(s.gates, id)
	}
	s.mu.Unlock()
}

func (s *lcServer) openAll() {
	s.mu.Lock()
	s.allOpen = true
	for id, g := range s.gates {
		close(g)
		delete(s.gates, id)
	}
	s.mu.Unlock()
}

func (s *lcServer) seenOn(conn int) []string {
	s.mu.Lock()
	defer s.mu.Unlock()
	var out []string
	for _, e := range s.seen {
		if e.conn == conn {
			out = append(out, e.id)
		}
	}
	return out
}

func (s *lcServer) seenCount(id string) int {
	s.mu.Lock()
	defer s.mu.Unlock()
	n := 0
	for _, e := range s.seen {
		if e.id == id {
			n++
		}
	}
	return n
}

func (s *lcServer) connOf(id string) int {
	s.mu.Lock()
	defer s.mu.Unlock()
	c := -1
	for _, e := range s.seen {
		if e.id == id {
			c = e.conn
		}
	}
	return c
}

// serve reads the requests of one connection. A reply that is gated is sent, once its gate opens, by a goroutine
// of its own while the following requests are read and answered: the server may answer out of order, which a
// client that keeps one exchange in flight per connection cannot tell from a sequential server.
func (s *lcServer) serve(lc *lcConn, c net.Conn) {
	defer s.wg.Done()
	var sendMu sync.Mutex
	var pending sync.WaitGroup
	defer func() {
		lc.srvGone.Store(true)
		_ = c.Close()
		pending.Wait()
	}()
	st := ttlv.NewStream(c, -1)
	owed := map[string]bool{} // requests of this connection read and not yet answered (guarded by s.mu)
	for {
		req := new(kmip.RequestMessage)
		if err := st.Recv(req); err != nil {
			return
		}
		resp := &kmip.ResponseMessage{Header: kmip.ResponseHeader{ProtocolVersion: req.Header.ProtocolVersion, TimeStamp: time.Unix(1700000000, 0), BatchCount: int32(len(req.BatchItem))}}
		id := ""
		for _, bi := range req.BatchItem {
			item := kmip.ResponseBatchItem{Operation: bi.Operation, UniqueBatchItemID: bi.UniqueBatchItemID, ResultStatus: kmip.ResultStatusSuccess}
			switch pl := bi.RequestPayload.(type) {
			case *payloads.ActivateRequestPayload:
				if id == "" {
					id = pl.UniqueIdentifier // a batch call is known by the identifier of its first item
				}
				item.ResponsePayload = &payloads.ActivateResponsePayload{UniqueIdentifier: pl.UniqueIdentifier}
			case *payloads.DiscoverVersionsRequestPayload:
				id = "discover"
				vs := []kmip.ProtocolVersion{kmip.V1_4, kmip.V1_3, kmip.V1_2, kmip.V1_1, kmip.V1_0}
				if s.noCommonVersion.Load() {
					vs = []kmip.ProtocolVersion{{ProtocolVersionMajor: 9, ProtocolVersionMinor: 9}}
				}
				item.ResponsePayload = &payloads.DiscoverVersionsResponsePayload{ProtocolVersion: vs}
			default:
				item.ResultStatus = kmip.ResultStatusOperationFailed
				item.ResultReason = kmip.ResultReasonOperationNotSupported
			}
			resp.BatchItem = append(resp.BatchItem, item)
		}
		s.mu.Lock()
		s.seen = append(s.seen, lcSeen{lc.idx, id})
		g := s.gates[id]
		silent := s.silent[id]
		cb := s.onRecv
		// a request that arrives while the reply to an earlier request of the same connection is still owed
		for o := range owed {
			if o != id {
				s.overlaps = append(s.overlaps, lcOverlap{lc.idx, o, id})
			}
		}
		if g != nil || silent {
			owed[id] = true
		}
		s.mu.Unlock()
		if cb != nil {
			cb(id, lc.idx)
		}
		if silent {
			continue
		}
		if g != nil {
			pending.Add(1)
			go func() {
				defer pending.Done()
				<-g
				s.mu.Lock()
				delete(owed, id) // from here on the reply is on its way: the next request may follow it at once
				s.mu.Unlock()
				sendMu.Lock()
				_ = st.Send(resp)
				sendMu.Unlock()
			}()
			continue
		}
		sendMu.Lock()
		err := st.Send(resp)
		sendMu.Unlock()
		if err != nil {
			return
		}
		if lc.car.Load() {
			return
		}
	}
}

// ---------------------------------------------------------------------------------------------
// director: actions at the verif yield points

type lcRule struct {
	point string
	hit   int // 0-based occurrence of the point at which the action runs
	fn    func()
}

type lcDirector struct {
	mu    sync.Mutex
	hits  map[string]int
	rules []*lcRule
	every map[string][]func(obj any)
	last  map[string]any
	log   []string
}

var lcCur atomic.Pointer[lcDirector]

func lcYield(point string, obj any) {
	d := lcCur.Load()
	if d == nil {
		return
	}
	d.mu.Lock()
	n := d.hits[point]
	d.hits[point] = n + 1
	if len(d.log) < 200 {
		d.log = append(d.log, point)
	}
	var fn func()
	for _, r := range d.rules {
		if r.point == point && r.hit == n {
			fn = r.fn
		}
	}
	d.last[point] = obj
	obs := d.every[point]
	d.mu.Unlock()
	for _, o := range obs {
		o(obj)
	}
	if fn != nil {
		fn()
	}
}

func newLcDirector() *lcDirector {
	return &lcDirector{hits: map[string]int{}, every: map[string][]func(any){}, last: map[string]any{}}
}

// onEvery registers an observer called at every hit of the point.
func (d *lcDirector) onEvery(point string, fn func(obj any)) {
	d.mu.Lock()
	d.every[point] = append(d.every[point], fn)
	d.mu.Unlock()
}

// lastObj returns the object passed at the most recent hit of the point.
func (d *lcDirector) lastObj(point string) any {
	d.mu.Lock()
	defer d.mu.Unlock()
	return d.last[point]
}

func (d *lcDirector) on(point string, hit int, fn func()) {
	d.mu.Lock()
	d.rules = append(d.rules, &lcRule{point, hit, fn})
	d.mu.Unlock()
}

func (d *lcDirector) hitCount(point string) int {
	d.mu.Lock()
	defer d.mu.Unlock()
	return d.hits[point]
}

// ---------------------------------------------------------------------------------------------
// goroutines of the client

// lcClientPkg is the import path of the package under test, as it appears in goroutine dumps.
var lcClientPkg = reflect.TypeOf(kmipclient.Client{}).PkgPath()

// lcClientGoroutines counts the goroutines STARTED BY the kmipclient package ("created by <pkg>.<func>" in the
// goroutine dump), whatever the functions they run are called. Calls into the client made by harness goroutines are
// not counted. Positive control: while a connection is open the count must be > 0 (checked in warm()).
func lcClientGoroutines() int {
	buf := make([]byte, 1<<20)
	for {
		n := runtime.Stack(buf, true)
		if n < len(buf) {
			buf = buf[:n]
			break
		}
		buf = make([]byte, 2*len(buf))
	}
	cnt := 0
	for _, g := range strings.Split(string(buf), "\n\n") {
		if strings.Contains(g, "created by "+lcClientPkg+".") {
			cnt++
		}
	}
	return cnt
}

// lcSettle waits until the number of client goroutines is at most base (or the timeout expires).
func lcSettle(base int, timeout time.Duration) int {
	deadline := time.Now().Add(timeout)
	n := lcClientGoroutines()
	for n > base && time.Now().Before(deadline) {
		time.Sleep(200 * time.Microsecond)
		n = lcClientGoroutines()
	}
	return n
}

// lcGoroutineDump returns the stacks of the goroutines started by the kmipclient package (for violation details).
func lcGoroutineDump() string {
	buf := make([]byte, 1<<20)
	buf = buf[:runtime.Stack(buf, true)]
	var out []string
	for _, g := range strings.Split(string(buf), "\n\n") {
		if strings.Contains(g, "created by "+lcClientPkg+".") {
			lines := strings.Split(g, "\n")
			if len(lines) > 3 {
				lines = lines[:3]
			}
			out = append(out, strings.Join(lines, " | "))
		}
	}
	return strings.Join(out, " || ")
}

// ---------------------------------------------------------------------------------------------
// time scale: every wait of the harness is a multiple of the duration of one fault-free exchange measured on this
// machine in this process (lcCalibrate), with a floor; nothing is tuned to a particular machine.

var (
	lcPause     = 200 * time.Microsecond // lets a goroutine that has been released take its next step
	lcWaitEvent = 2 * time.Second        // upper bound for an event that is expected to happen
	lcCallLimit = 5 * time.Second        // a call that has not returned by then hangs
)

func lcCalibrate(exchange time.Duration) {
	if exchange <= 0 {
		return
	}
	lcPause = max(200*time.Microsecond, 4*exchange)
	lcWaitEvent = max(2*time.Second, 2000*exchange)
	lcCallLimit = max(5*time.Second, 5000*exchange)
}

// ---------------------------------------------------------------------------------------------
// a caller context under the director's control: it ends when fire is called, with the given error
// (context.Canceled or context.DeadlineExceeded), as a cancelled or an expired context does.

type lcCallerCtx struct {
	mu   sync.Mutex
	done chan struct{}
	err  error
	dl   bool
}

func newLcCallerCtx(deadline bool) *lcCallerCtx {
	return &lcCallerCtx{done: make(chan struct{}), dl: deadline}
}

func (c *lcCallerCtx) Deadline() (time.Time, bool) {
	if c.dl {
		return time.Now().Add(time.Hour), true
	}
	return time.Time{}, false
}
func (c *lcCallerCtx) Done() <-chan struct{} { return c.done }
func (c *lcCallerCtx) Err() error {
	c.mu.Lock()
	defer c.mu.Unlock()
	return c.err
}
func (c *lcCallerCtx) Value(any) any { return nil }

// fire ends the context (idempotent).
func (c *lcCallerCtx) fire() {
	c.mu.Lock()
	defer c.mu.Unlock()
	if c.err != nil {
		return
	}
	if c.dl {
		c.err = context.DeadlineExceeded
	} else {
		c.err = context.Canceled
	}
	close(c.done)
}

// ---------------------------------------------------------------------------------------------
// the connection context, for widening a window of the schedule: the object passed to the yield points is the
// *conn; its field of type context.Context (found by type, not by name) is the teardown signal. Calling Err() on a
// context has no effect on the client; on the Go versions where cancelCtx.Err takes the context's mutex, doing it
// from several goroutines delays a concurrent cancel() of that context. That is all lcHammer does.

func lcConnCtx(obj any) context.Context {
	v := reflect.ValueOf(obj)
	if v.Kind() != reflect.Pointer || v.IsNil() || v.Elem().Kind() != reflect.Struct {
		return nil
	}
	s := v.Elem()
	ctxT := reflect.TypeOf((*context.Context)(nil)).Elem()
	for i := 0; i < s.NumField(); i++ {
		f := s.Field(i)
		if f.Type() == ctxT && f.CanAddr() {
			if c, ok := reflect.NewAt(f.Type(), unsafe.Pointer(f.UnsafeAddr())).Elem().Interface().(context.Context); ok && c != nil {
				return c
			}
		}
	}
	return nil
}

// lcCtxMutex returns the mutex inside a context created by context.WithCancel*: the field of type sync.Mutex of the
// struct the context value points to (found by type). nil if the context is not of that shape.
func lcCtxMutex(cctx context.Context) *sync.Mutex {
	v := reflect.ValueOf(cctx)
	if v.Kind() != reflect.Pointer || v.IsNil() || v.Elem().Kind() != reflect.Struct {
		return nil
	}
	s := v.Elem()
	mt := reflect.TypeOf(sync.Mutex{})
	for i := 0; i < s.NumField(); i++ {
		if f := s.Field(i); f.Type() == mt && f.CanAddr() {
			return (*sync.Mutex)(unsafe.Pointer(f.UnsafeAddr()))
		}
	}
	return nil
}

// the state word of a sync.Mutex (its first 32 bits): bit 0 locked, bit 1 "a contender is awake", bit 2 starving,
// the rest the number of parked waiters. Read only, to see WHO is waiting; if the layout were different the
// scenario would merely not open its window (counter win.window).
func lcMutexState(mu *sync.Mutex) (woken bool, waiters int) {
	st := atomic.LoadInt32((*int32)(unsafe.Pointer(mu)))
	return st&2 != 0, int(st >> 3)
}

// lcHoldCtx takes the context's mutex (delaying a cancel() of that context, nothing else) and gives it up at the
// moment a SECOND contender shows up behind the first, parked one — the first being the goroutine that wants to
// cancel, the second a goroutine that wants to read Err(): the reader then gets the mutex before the canceller.
// It returns once the mutex is held; `outcome` receives what happened: "second" (given up for the second
// contender), "late" (the second contender was already parked: it will run after the canceller), "nobody" (time
// limit: only the canceller, or nobody, came).
func lcHoldCtx(mu *sync.Mutex, limit time.Duration, outcome chan<- string) {
	held := make(chan struct{})
	go func() {
		mu.Lock()
		close(held)
		deadline := time.Now().Add(limit)
		res := "nobody"
		for k := 0; ; k++ {
			woken, waiters := lcMutexState(mu)
			if waiters >= 2 {
				res = "late"
				break
			}
			if waiters == 1 && woken {
				res = "second"
				break
			}
			if k&255 == 0 && time.Now().After(deadline) {
				break
			}
		}
		mu.Unlock()
		outcome <- res
	}()
	<-held
}

// lcHammer starts n goroutines polling cctx.Err() until stop is closed (or the time limit); returns when they run.
func lcHammer(cctx context.Context, n int, stop <-chan struct{}, limit time.Duration) {
	var started sync.WaitGroup
	deadline := time.Now().Add(limit)
	for i := 0; i < n; i++ {
		started.Add(1)
		go func() {
			started.Done()
			for k := 0; ; k++ {
				if cctx.Err() != nil {
					return
				}
				if k&1023 == 0 {
					select {
					case <-stop:
						return
					default:
					}
					if time.Now().After(deadline) {
						return
					}
				}
			}
		}()
	}
	started.Wait()
}
