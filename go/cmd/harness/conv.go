package main

import (
	hexpkg "encoding/hex"
	"fmt"
	"math/big"
	"time"

	"github.com/ovh/kmip-go/ttlv"

	"verifharness/internal/tree"
)

// toValue converts a harness tree into the library's generic ttlv.Value.
func toValue(it *tree.Item) ttlv.Value {
	v := ttlv.Value{Tag: it.Tag}
	switch it.Kind {
	case tree.KStruct:
		s := ttlv.Struct{}
		for _, c := range it.Children {
			s = append(s, toValue(c))
		}
		v.Value = s
	case tree.KInt:
		v.Value = int32(it.Int)
	case tree.KLong:
		v.Value = it.Int
	case tree.KBig:
		v.Value = new(big.Int).Set(it.Big)
	case tree.KEnum:
		v.Value = ttlv.Enum(uint32(it.Int))
	case tree.KBool:
		v.Value = it.Bool
	case tree.KText:
		v.Value = string(it.Data)
	case tree.KBytes:
		v.Value = append([]byte{}, it.Data...)
	case tree.KDate:
		v.Value = time.Unix(it.Int, 0)
	case tree.KInterval:
		v.Value = time.Duration(it.Int) * time.Second
	}
	return v
}

// fromValue converts a decoded ttlv.Value back into a harness tree.
func fromValue(v ttlv.Value) (*tree.Item, error) {
	it := &tree.Item{Tag: v.Tag}
	switch x := v.Value.(type) {
	case ttlv.Struct:
		it.Kind = tree.KStruct
		for _, c := range x {
			ci, err := fromValue(c)
			if err != nil {
				return nil, err
			}
			it.Children = append(it.Children, ci)
		}
	case int32:
		it.Kind, it.Int = tree.KInt, int64(x)
	case int64:
		it.Kind, it.Int = tree.KLong, x
	case *big.Int:
		if x == nil {
			return nil, fmt.Errorf("nil big.Int")
		}
		it.Kind, it.Big = tree.KBig, x
	case ttlv.Enum:
		it.Kind, it.Int = tree.KEnum, int64(x)
	case bool:
		it.Kind, it.Bool = tree.KBool, x
	case string:
		it.Kind, it.Data = tree.KText, []byte(x)
	case []byte:
		it.Kind, it.Data = tree.KBytes, x
	case time.Time:
		it.Kind, it.Int = tree.KDate, x.Unix()
	case time.Duration:
		if x%time.Second != 0 {
			return nil, fmt.Errorf("sub-second interval")
		}
		it.Kind, it.Int = tree.KInterval, int64(x/time.Second)
	default:
		return nil, fmt.Errorf("unexpected Go type %T in decoded value", v.Value)
	}
	return it, nil
}

func hexDecodeString(s string) ([]byte, error) { return hexpkg.DecodeString(s) }
