/-
  Helper lemmas about `KmipModel.Model.KeyAccess` (property C14): hex and decimal round trips, the
  two's complement value of `bigIntToBytes(v, padding)` for every padding, transport of big integers
  and byte strings in the three encodings, absence of panics in every accessor, the laws of the toy
  standard library.  Core Lean only.
-/
import KmipModel.Lemmas.BigIntLemmas
import KmipModel.Lemmas.ReaderLemmas
import KmipModel.Model.KeyAccess
namespace Kmip.Key
open Kmip

/-! ### hex digits -/

theorem nibVal_nibUp_fin : ∀ n : Fin 16, nibVal (nibUp n.val) = some n.val := by decide
theorem nibVal_nibLo_fin : ∀ n : Fin 16, nibVal (nibLo n.val) = some n.val := by decide

theorem nibVal_nibUp {n : Nat} (h : n < 16) : nibVal (nibUp n) = some n := nibVal_nibUp_fin ⟨n, h⟩
theorem nibVal_nibLo {n : Nat} (h : n < 16) : nibVal (nibLo n) = some n := nibVal_nibLo_fin ⟨n, h⟩

theorem byte_of_nibbles (b : UInt8) : (b.toNat / 16 * 16 + b.toNat % 16).toUInt8 = b := by
  have e : b.toNat / 16 * 16 + b.toNat % 16 = b.toNat := by omega
  rw [e, ← UInt8.toNat_inj]
  simp

theorem hexDecode_hexUpper (bs : Bytes) : hexDecode (hexUpper bs) = some bs := by
  induction bs with
  | nil => rfl
  | cons b bs ih =>
    have hb := b.toNat_lt
    have h1 : b.toNat / 16 < 16 := by omega
    have h2 : b.toNat % 16 < 16 := by omega
    simp only [hexUpper, hexDecode, nibVal_nibUp h1, nibVal_nibUp h2, ih, byte_of_nibbles]

theorem hexDecode_hexLower (bs : Bytes) : hexDecode (hexLower bs) = some bs := by
  induction bs with
  | nil => rfl
  | cons b bs ih =>
    have hb := b.toNat_lt
    have h1 : b.toNat / 16 < 16 := by omega
    have h2 : b.toNat % 16 < 16 := by omega
    simp only [hexLower, hexDecode, nibVal_nibLo h1, nibVal_nibLo h2, ih, byte_of_nibbles]

/-! ### `bigIntToBytes(v, padding)` for every padding -/

/-- the padding actually used: `if padding < 1 { padding = 1 }`. -/
def effPad (p : Nat) : Nat := if p < 1 then 1 else p

theorem effPad_pos (p : Nat) : 0 < effPad p := by unfold effPad; split <;> omega

def posPadG (p : Nat) (mag : Bytes) : Nat :=
  if ¬ mag.headD 0 < 0x80 ∧ padForLen mag.length (effPad p) = 0 then effPad p
  else padForLen mag.length (effPad p)

def negPadG (p : Nat) (b : Bytes) : Nat :=
  if b.headD 0 < 0x80 ∧ padForLen b.length (effPad p) = 0 then effPad p
  else padForLen b.length (effPad p)

theorem bigBytes_zero (p : Nat) : bigBytes 0 p = List.replicate (effPad p) 0 := by
  simp [bigBytes, bigIntToBytes, effPad]

theorem bigBytes_pos (v : Int) (p : Nat) (h : 0 < v) :
    bigBytes v p = List.replicate (posPadG p (natToBytesBE v.natAbs)) 0 ++ natToBytesBE v.natAbs := by
  have h1 : ¬ v < 0 := by omega
  have h2 : ¬ v = 0 := by omega
  have e : ((0 : UInt8) &&& 1) = 0 := by decide
  simp only [bigBytes, bigIntToBytes, h1, h2, if_false, posPadG, effPad, e]
  simp only [ne_eq, UInt8.topbit_zero_iff]
  simp

theorem bigBytes_neg (v : Int) (p : Nat) (h : v < 0) :
    bigBytes v p = List.replicate (negPadG p (negBody v)) 0xFF ++ negBody v := by
  have e : ((0xFF : UInt8) &&& 1) = 1 := by decide
  have e2 : ∀ x : UInt8, (¬ ((x >>> 7) &&& 1 = 1)) ↔ x < 0x80 := by
    intro x; rw [UInt8.topbit_one_iff]; exact Decidable.not_not
  simp only [bigBytes, bigIntToBytes, h, if_true, negPadG, effPad, e]
  simp only [e2, ← negBody.eq_1, negBody_length]

theorem posPadG_head (p : Nat) (mag : Bytes) : 0 < posPadG p mag ∨ mag.headD 0 < 0x80 := by
  unfold posPadG
  by_cases h : mag.headD 0 < 0x80
  · exact Or.inr h
  · left
    have := effPad_pos p
    by_cases hp : padForLen mag.length (effPad p) = 0
    · rw [if_pos ⟨h, hp⟩]; exact this
    · rw [if_neg (fun hc => hp hc.2)]; omega

theorem negPadG_head (p : Nat) (b : Bytes) : 0 < negPadG p b ∨ ¬ b.headD 0 < 0x80 := by
  unfold negPadG
  by_cases h : b.headD 0 < 0x80
  · left
    have := effPad_pos p
    by_cases hp : padForLen b.length (effPad p) = 0
    · rw [if_pos ⟨h, hp⟩]; exact this
    · rw [if_neg (fun hc => hp hc.2)]; omega
  · exact Or.inr h

/-- for every padding the written bytes are a two's complement encoding of the value. -/
theorem twos_bigBytes (v : Int) (p : Nat) : twos (bigBytes v p) = v := by
  rcases Int.lt_trichotomy v 0 with h | h | h
  · rw [bigBytes_neg v p h, twos_pad_ff _ _ (negBody_ne_nil v h) (negPadG_head _ _), negBody_length]
    have hn : v.natAbs ≠ 0 := by omega
    have := beVal_negEnc (natToBytesBE v.natAbs) (by rw [beVal_natToBytesBE]; exact hn)
    rw [beVal_natToBytesBE] at this
    unfold negBody
    omega
  · subst h
    rw [bigBytes_zero]
    have := twos_pad_zero (effPad p) [] (Or.inl (effPad_pos p))
    simpa using this
  · rw [bigBytes_pos v p h, twos_pad_zero _ _ (posPadG_head _ _), beVal_natToBytesBE]
    omega

theorem bigBytes_ne_nil (v : Int) (p : Nat) : bigBytes v p ≠ [] := by
  rcases Int.lt_trichotomy v 0 with h | h | h
  · rw [bigBytes_neg v p h]
    have := negBody_ne_nil v h
    simp [this]
  · subst h
    rw [bigBytes_zero]
    have := effPad_pos p
    intro e
    have := congrArg List.length e
    simp at this
    omega
  · rw [bigBytes_pos v p h]
    have := natToBytesBE_ne_nil (n := v.natAbs) (by omega)
    simp [this]

theorem encodeBig_eq_bigBytes (v : Int) : encodeBig v = bigBytes v 8 := rfl

theorem bytesToBigInt_bigBytes (v : Int) (p : Nat) : bytesToBigInt (bigBytes v p) = v := by
  rw [bytesToBigInt_eq_twos_aux _ (bigBytes_ne_nil v p), twos_bigBytes]

/-! ### XML big integers -/

theorem xmlBigRead_of_decode {t bs : Bytes} (h : hexDecode t = some bs) (hne : bs ≠ []) :
    xmlBigRead t = .ok (bytesToBigInt bs) := by
  unfold xmlBigRead
  rw [h]
  cases bs with
  | nil => exact absurd rfl hne
  | cons b tl => rfl

theorem xmlBig_roundtrip (v : Int) : xmlBigRead (xmlBigWrite v) = .ok v := by
  rw [xmlBigWrite, xmlBigRead_of_decode (hexDecode_hexUpper _) (bigBytes_ne_nil v 1),
    bytesToBigInt_bigBytes]

/-! ### decimal numbers -/

theorem digit_val_fin : ∀ k : Fin 10, (48 : UInt8) ≤ (48 + k.val).toUInt8 ∧ (48 + k.val).toUInt8 ≤ 57 ∧
    (48 + k.val).toUInt8.toNat - 48 = k.val := by decide

theorem digit_val {k : Nat} (h : k < 10) : (48 : UInt8) ≤ (48 + k).toUInt8 ∧ (48 + k).toUInt8 ≤ 57 ∧
    (48 + k).toUInt8.toNat - 48 = k := digit_val_fin ⟨k, h⟩

theorem parseDigits_append (a b : Bytes) (acc : Nat) :
    parseDigits (a ++ b) acc = (parseDigits a acc).bind (parseDigits b) := by
  induction a generalizing acc with
  | nil => rfl
  | cons c cs ih =>
    simp only [List.cons_append, parseDigits]
    split
    · exact ih _
    · rfl

theorem parseDigits_single {k : Nat} (h : k < 10) (acc : Nat) :
    parseDigits [(48 + k).toUInt8] acc = some (acc * 10 + k) := by
  obtain ⟨h1, h2, h3⟩ := digit_val h
  simp only [parseDigits]
  rw [if_pos ⟨h1, h2⟩, h3]

theorem parseDigits_decDigits (n : Nat) : parseDigits (decDigits n) 0 = some n := by
  induction n using Nat.strongRecOn with
  | _ n ih =>
    rw [decDigits]
    by_cases h : n < 10
    · rw [dif_pos h, parseDigits_single h]; simp
    · rw [dif_neg h, parseDigits_append, ih (n / 10) (by omega)]
      have hm : n % 10 < 10 := by omega
      simp only [Option.bind_some, parseDigits_single hm]
      congr 1
      omega

theorem decDigits_ne_nil (n : Nat) : decDigits n ≠ [] := by
  rw [decDigits]
  split <;> simp

/-- the first character of a decimal number is a digit (neither `-` nor `+`). -/
theorem decDigits_head (n : Nat) : ∃ c rest, decDigits n = c :: rest ∧ (48 : UInt8) ≤ c ∧ c ≤ 57 := by
  induction n using Nat.strongRecOn with
  | _ n ih =>
    rw [decDigits]
    by_cases h : n < 10
    · rw [dif_pos h]
      exact ⟨_, [], rfl, (digit_val h).1, (digit_val h).2.1⟩
    · rw [dif_neg h]
      obtain ⟨c, rest, e, h1, h2⟩ := ih (n / 10) (by omega)
      exact ⟨c, rest ++ [(48 + n % 10).toUInt8], by rw [e]; rfl, h1, h2⟩

theorem parseInt64_decText (v : Int) (h1 : -9223372036854775808 ≤ v) (h2 : v ≤ 9223372036854775807) :
    parseInt64 (decText v) = some v := by
  obtain ⟨c, rest, e, hc1, hc2⟩ := decDigits_head v.natAbs
  have hc45 : c ≠ 45 := by intro h; subst h; revert hc1; decide
  have hc43 : c ≠ 43 := by intro h; subst h; revert hc1; decide
  have hp := parseDigits_decDigits v.natAbs
  have hne := decDigits_ne_nil v.natAbs
  unfold decText
  by_cases hv : v < 0
  · rw [if_pos hv]
    simp only [parseInt64, List.head?_cons, List.tail_cons, true_or, if_true, hne, if_false, hp,
      decide_true]
    have : (-(v.natAbs : Int)) = v := by omega
    simp only [this]
    rw [if_pos ⟨h1, h2⟩]
  · rw [if_neg hv]
    rw [e] at hp hne ⊢
    have e45 : ¬ (some c = some (45 : UInt8)) := by simpa using hc45
    have e43 : ¬ (some c = some (43 : UInt8)) := by simpa using hc43
    simp only [parseInt64, List.head?_cons, e45, e43, or_self, if_false, hne, hp, decide_false]
    have : ((v.natAbs : Nat) : Int) = v := by omega
    simp only [this, Bool.false_eq_true, if_false]
    rw [if_pos ⟨h1, h2⟩]

/-! ### JSON big integers -/

theorem jsonBigRead_hex {h bs : Bytes} (hd : hexDecode h = some bs) (hne : bs ≠ []) :
    jsonBigRead (.str (48 :: 120 :: h)) = .ok (bytesToBigInt bs) := by
  cases bs with
  | nil => exact absurd rfl hne
  | cons b tl => simp only [jsonBigRead, hd]

theorem jsonBig_roundtrip (v : Int) : jsonBigRead (jsonBigWrite v) = .ok v := by
  unfold jsonBigWrite
  by_cases h : v ≥ maxJsonInt ∨ v ≤ -maxJsonInt
  · rw [if_pos h, jsonBigRead_hex (hexDecode_hexLower _) (bigBytes_ne_nil v 8), bytesToBigInt_bigBytes]
  · rw [if_neg h]
    unfold maxJsonInt at h
    have := parseInt64_decText v (by omega) (by omega)
    simp [jsonBigRead, this]

/-! ### transport of a value in each encoding -/

theorem ttlvBigRead_encodeBig (v : Int) : ttlvBigRead (encodeBig v) = .ok v := by
  unfold ttlvBigRead
  have hne := encodeBig_ne_nil v
  cases h : encodeBig v with
  | nil => exact absurd h hne
  | cons b tl =>
    have := bytesToBigInt_eq_twos_aux _ hne
    rw [twos_encodeBig, h] at this
    simp [this]

theorem bigTransport_ok (enc : Enc) (v : Int) : bigTransport enc v = .ok v := by
  cases enc
  · exact ttlvBigRead_encodeBig v
  · exact xmlBig_roundtrip v
  · exact jsonBig_roundtrip v

theorem textBytes_roundtrip (bs : Bytes) : textBytesRead (textBytesWrite bs) = .ok bs := by
  simp [textBytesRead, textBytesWrite, hexDecode_hexUpper]

theorem bytesTransport_ok (enc : Enc) (bs : Bytes) : bytesTransport enc bs = .ok bs := by
  cases enc
  · rfl
  · exact textBytes_roundtrip bs
  · exact textBytes_roundtrip bs

/-! ### value-level transport is the identity on every object -/

theorem optBig_ok (enc : Enc) (o : Option Int) : optBig enc o = .ok o := by
  cases o <;> simp [optBig, bigTransport_ok]

theorem optBytes_ok (enc : Enc) (o : Option Bytes) : optBytes enc o = .ok o := by
  cases o <;> simp [optBytes, bytesTransport_ok]

theorem optMap_ok {α : Type} (f : α → Res α) (hf : ∀ a, f a = .ok a) (o : Option α) :
    optMap f o = .ok o := by
  cases o <;> simp [optMap, hf]

theorem transportRsaPriv_ok (enc : Enc) (t : RsaPrivT) : transportRsaPriv enc t = .ok t := by
  simp [transportRsaPriv, bigTransport_ok, optBig_ok]

theorem transportRsaPub_ok (enc : Enc) (t : RsaPubT) : transportRsaPub enc t = .ok t := by
  simp [transportRsaPub, bigTransport_ok]

theorem transportEcPriv_ok (enc : Enc) (t : EcPrivT) : transportEcPriv enc t = .ok t := by
  simp [transportEcPriv, bigTransport_ok]

theorem transportEcPub_ok (enc : Enc) (t : EcPubT) : transportEcPub enc t = .ok t := by
  simp [transportEcPub, bytesTransport_ok]

theorem transportMaterial_ok (enc : Enc) (m : Material) : transportMaterial enc m = .ok m := by
  simp [transportMaterial, optBytes_ok, optMap_ok _ (transportRsaPriv_ok enc),
    optMap_ok _ (transportRsaPub_ok enc), optMap_ok _ (transportEcPriv_ok enc),
    optMap_ok _ (transportEcPub_ok enc)]

theorem transportPlain_ok (enc : Enc) (p : Plain) : transportPlain enc p = .ok p := by
  simp [transportPlain, transportMaterial_ok]

theorem transportKeyValue_ok (enc : Enc) (kv : KeyValueV) : transportKeyValue enc kv = .ok kv := by
  simp [transportKeyValue, optBytes_ok, optMap_ok _ (transportPlain_ok enc)]

theorem transportKB_ok (enc : Enc) (kb : KeyBlockV) : transportKB enc kb = .ok kb := by
  simp [transportKB, optMap_ok _ (transportKeyValue_ok enc)]

theorem transportObj_ok (enc : Enc) (o : Obj) : transportObj enc o = .ok o := by
  cases o <;> simp [transportObj, transportKB_ok, bytesTransport_ok]

/-! ### no accessor panics -/

theorem ofOption_noPanic {α : Type} (o : Option α) : (ofOption o).NoPanic := by
  intro m; cases o <;> simp [ofOption]

theorem getMaterial_noPanic (kb : KeyBlockV) : (getMaterial kb).NoPanic := by
  intro m; unfold getMaterial
  split
  · simp
  · split <;> simp

theorem getBytes_noPanic (kb : KeyBlockV) : (getBytes kb).NoPanic := by
  intro m; unfold getBytes
  split
  · split <;> simp
  · simp
  · rename_i h; exact absurd h (getMaterial_noPanic kb _)

theorem getAttributes_noPanic (kb : KeyBlockV) : (getAttributes kb).NoPanic := by
  intro m; unfold getAttributes
  split
  · simp
  · split <;> simp

theorem secretData_noPanic (kb : KeyBlockV) : (secretData kb).NoPanic := by
  intro m; unfold secretData
  split
  · exact getBytes_noPanic kb m
  · simp

theorem symKeyMaterial_noPanic (kb : KeyBlockV) : (symKeyMaterial kb).NoPanic := by
  intro m; unfold symKeyMaterial
  split
  · exact getBytes_noPanic kb m
  · split
    · split
      · split <;> simp
      · simp
      · rename_i h; exact absurd h (getMaterial_noPanic kb _)
    · simp

theorem pubRSA_noPanic (C : CryptoOps) (kb : KeyBlockV) : (pubRSA C kb).NoPanic := by
  intro m; unfold pubRSA
  split
  · split
    · exact ofOption_noPanic _ m
    · simp
    · rename_i h; exact absurd h (getBytes_noPanic kb _)
  · split
    · split
      · split <;> simp
      · simp
      · rename_i h; exact absurd h (getBytes_noPanic kb _)
    · split
      · split
        · split
          · simp
          · split <;> simp
        · simp
        · rename_i h; exact absurd h (getMaterial_noPanic kb _)
      · simp

theorem pubECDSATail_noPanic (C : CryptoOps) (kb : KeyBlockV) (t : EcPubT) :
    (pubECDSATail C kb t).NoPanic := by
  intro m; unfold pubECDSATail
  split
  · simp
  · simp only
    repeat' split
    all_goals first | exact ofOption_noPanic _ m | simp

theorem pubECDSA_noPanic (C : CryptoOps) (kb : KeyBlockV) : (pubECDSA C kb).NoPanic := by
  intro m; unfold pubECDSA
  split
  · split
    · split <;> simp
    · simp
    · rename_i h; exact absurd h (getBytes_noPanic kb _)
  · split
    · split
      · split
        · simp
        · exact pubECDSATail_noPanic C kb _ m
      · simp
      · rename_i h; exact absurd h (getMaterial_noPanic kb _)
    · simp

theorem pubCrypto_noPanic (C : CryptoOps) (kb : KeyBlockV) : (pubCrypto C kb).NoPanic := by
  intro m; unfold pubCrypto
  split
  · split
    · simp
    · simp
    · rename_i h; exact absurd h (pubECDSA_noPanic C kb _)
  · split
    · split
      · simp
      · simp
      · rename_i h; exact absurd h (pubRSA_noPanic C kb _)
    · split
      · split
        · exact ofOption_noPanic _ m
        · simp
        · rename_i h; exact absurd h (getBytes_noPanic kb _)
      · simp

theorem pubPkixPem_noPanic (C : CryptoOps) (kb : KeyBlockV) : (pubPkixPem C kb).NoPanic := by
  intro m; unfold pubPkixPem
  split
  · split <;> simp
  · simp
  · rename_i h; exact absurd h (pubCrypto_noPanic C kb _)

theorem privRSA_noPanic (C : CryptoOps) (kb : KeyBlockV) : (privRSA C kb).NoPanic := by
  intro m; unfold privRSA
  split
  · split
    · exact ofOption_noPanic _ m
    · simp
    · rename_i h; exact absurd h (getBytes_noPanic kb _)
  · split
    · split
      · split <;> simp
      · simp
      · rename_i h; exact absurd h (getBytes_noPanic kb _)
    · split
      · split
        · split
          · simp
          · split
            · simp
            · split
              · simp
              · split
                · simp
                · split <;> simp
        · simp
        · rename_i h; exact absurd h (getMaterial_noPanic kb _)
      · simp

theorem privECDSATail_noPanic (C : CryptoOps) (t : EcPrivT) : (privECDSATail C t).NoPanic := by
  intro m; unfold privECDSATail
  split
  · simp
  · split <;> simp

theorem privECDSA_noPanic (C : CryptoOps) (kb : KeyBlockV) : (privECDSA C kb).NoPanic := by
  intro m; unfold privECDSA
  split
  · split
    · exact ofOption_noPanic _ m
    · simp
    · rename_i h; exact absurd h (getBytes_noPanic kb _)
  · split
    · split
      · split <;> simp
      · simp
      · rename_i h; exact absurd h (getBytes_noPanic kb _)
    · split
      · split
        · split
          · simp
          · exact privECDSATail_noPanic C _ m
        · simp
        · rename_i h; exact absurd h (getMaterial_noPanic kb _)
      · simp

theorem privCrypto_noPanic (C : CryptoOps) (kb : KeyBlockV) : (privCrypto C kb).NoPanic := by
  intro m; unfold privCrypto
  split
  · split
    · simp
    · simp
    · rename_i h; exact absurd h (privECDSA_noPanic C kb _)
  · split
    · split
      · simp
      · simp
      · rename_i h; exact absurd h (privRSA_noPanic C kb _)
    · split
      · split
        · exact ofOption_noPanic _ m
        · simp
        · rename_i h; exact absurd h (getBytes_noPanic kb _)
      · simp

/-- the key `PrivateKey.ECDSA` returns is one `MarshalPKCS8PrivateKey` accepts without panicking: it was
    parsed by the standard library or built from a scalar in `[1, n-1]` (the check of e2e4a08). -/
theorem privECDSA_ok_safe (C : Crypto) (kb : KeyBlockV) (k : C.EcPriv) (m : String)
    (h : privECDSA C.toCryptoOps kb = .ok k) : C.marshalPKCS8 (.ecdsa k) ≠ .panic m := by
  unfold privECDSA at h
  split at h
  · cases hb : getBytes kb with
    | ok raw =>
      rw [hb] at h
      simp only at h
      cases hp : C.parseSEC1 raw with
      | none => rw [hp] at h; cases h
      | some k' =>
        rw [hp] at h
        simp only [ofOption, Res.ok.injEq] at h
        subst h
        exact C.marshalPKCS8_sec1_noPanic raw k' m hp
    | err e => rw [hb] at h; cases h
    | panic m' => rw [hb] at h; cases h
  · split at h
    · cases hb : getBytes kb with
      | ok raw =>
        rw [hb] at h
        simp only at h
        cases hp : C.parsePKCS8 raw with
        | none => rw [hp] at h; cases h
        | some a =>
          rw [hp] at h
          cases a <;> simp at h
          subst h
          exact C.marshalPKCS8_parsed_noPanic raw _ m hp
      | err e => rw [hb] at h; cases h
      | panic m' => rw [hb] at h; cases h
    · split at h
      · cases hm : getMaterial kb with
        | ok mat =>
          rw [hm] at h
          simp only at h
          cases hs : ecPrivSlot kb mat with
          | none => rw [hs] at h; cases h
          | some tkey =>
            rw [hs] at h
            simp only [privECDSATail] at h
            split at h
            · cases h
            · split at h
              · cases h
              · rename_i hc hr
                simp only [Res.ok.injEq] at h
                subst h
                have hc' : curveSupported tkey.curve = true := by simpa using hc
                exact C.marshalPKCS8_built_noPanic tkey.curve tkey.d m hc' (by omega) (by omega)
        | err e => rw [hm] at h; cases h
        | panic m' => rw [hm] at h; cases h
      · cases h

theorem privCrypto_ok_safe (C : Crypto) (kb : KeyBlockV) (k : C.Priv) (m : String)
    (h : privCrypto C.toCryptoOps kb = .ok k) : C.marshalPKCS8 k ≠ .panic m := by
  unfold privCrypto at h
  split at h
  · cases he : privECDSA C.toCryptoOps kb with
    | ok k' =>
      rw [he] at h
      simp only [Res.ok.injEq] at h
      subst h
      exact privECDSA_ok_safe C kb k' m he
    | err e => rw [he] at h; cases h
    | panic m' => rw [he] at h; cases h
  · split at h
    · cases he : privRSA C.toCryptoOps kb with
      | ok k' =>
        rw [he] at h
        simp only [Res.ok.injEq] at h
        subst h
        exact C.marshalPKCS8_rsa_noPanic k' m
      | err e => rw [he] at h; cases h
      | panic m' => rw [he] at h; cases h
    · split at h
      · cases hb : getBytes kb with
        | ok raw =>
          rw [hb] at h
          simp only at h
          cases hp : C.parsePKCS8 raw with
          | none => rw [hp] at h; cases h
          | some a =>
            rw [hp] at h
            simp only [ofOption, Res.ok.injEq] at h
            subst h
            exact C.marshalPKCS8_parsed_noPanic raw a m hp
        | err e => rw [hb] at h; cases h
        | panic m' => rw [hb] at h; cases h
      · cases h

/-- `Pkcs8Pem` can only panic inside `x509.MarshalPKCS8PrivateKey` — and under the laws it does not. -/
theorem privPkcs8Pem_noPanic (C : Crypto) (kb : KeyBlockV) : (privPkcs8Pem C.toCryptoOps kb).NoPanic := by
  intro m; unfold privPkcs8Pem
  cases hk : privCrypto C.toCryptoOps kb with
  | ok k =>
    simp only
    cases hm : C.marshalPKCS8 k with
    | ok der => simp
    | err e => simp
    | panic m' => exact absurd hm (privCrypto_ok_safe C kb k m' hk)
  | err e => simp
  | panic m' => exact absurd hk (privCrypto_noPanic C.toCryptoOps kb _)

theorem privPkcs8Pem_panic_iff (C : CryptoOps) (kb : KeyBlockV) (m : String) :
    privPkcs8Pem C kb = .panic m ↔ ∃ k, privCrypto C kb = .ok k ∧ C.marshalPKCS8 k = .panic m := by
  unfold privPkcs8Pem
  constructor
  · intro h
    cases hk : privCrypto C kb with
    | ok k =>
      rw [hk] at h
      simp only at h
      cases hm : C.marshalPKCS8 k with
      | ok der => rw [hm] at h; cases h
      | err e => rw [hm] at h; cases h
      | panic m' =>
        rw [hm] at h
        simp only [Res.panic.injEq] at h
        subst h
        exact ⟨k, rfl, hm⟩
    | err e => rw [hk] at h; cases h
    | panic m' => exact absurd hk (privCrypto_noPanic C kb _)
  · rintro ⟨k, hk, hm⟩
    rw [hk]
    simp only [hm]

theorem certX509_noPanic (C : CryptoOps) (ty : Nat) (v : Bytes) : (certX509 C ty v).NoPanic := by
  intro m; unfold certX509
  split
  · simp
  · exact ofOption_noPanic _ m

theorem certPem_noPanic (C : CryptoOps) (ty : Nat) (v : Bytes) : (certPem C ty v).NoPanic := by
  intro m; unfold certPem
  split
  · simp
  · simp
  · rename_i h; exact absurd h (certX509_noPanic C ty v _)

theorem getSecret_noPanic (r : GetResp) : (getSecret r).NoPanic := by
  intro m; unfold getSecret
  split
  · simp
  · split
    · exact secretData_noPanic _ m
    · simp

theorem getSymmetricKey_noPanic (r : GetResp) : (getSymmetricKey r).NoPanic := by
  intro m; unfold getSymmetricKey
  split
  · simp
  · split
    · exact symKeyMaterial_noPanic _ m
    · simp

theorem getX509Certificate_noPanic (C : CryptoOps) (r : GetResp) : (getX509Certificate C r).NoPanic := by
  intro m; unfold getX509Certificate
  split
  · simp
  · split
    · exact certX509_noPanic C _ _ m
    · simp

theorem getPemCertificate_noPanic (C : CryptoOps) (r : GetResp) : (getPemCertificate C r).NoPanic := by
  intro m; unfold getPemCertificate
  split
  · simp
  · split
    · exact certPem_noPanic C _ _ m
    · simp

theorem getRsaPrivateKey_noPanic (C : CryptoOps) (r : GetResp) : (getRsaPrivateKey C r).NoPanic := by
  intro m; unfold getRsaPrivateKey
  split
  · simp
  · split
    · exact privRSA_noPanic C _ m
    · simp

theorem getEcdsaPrivateKey_noPanic (C : CryptoOps) (r : GetResp) : (getEcdsaPrivateKey C r).NoPanic := by
  intro m; unfold getEcdsaPrivateKey
  split
  · simp
  · split
    · exact privECDSA_noPanic C _ m
    · simp

theorem getPrivateKey_noPanic (C : CryptoOps) (r : GetResp) : (getPrivateKey C r).NoPanic := by
  intro m; unfold getPrivateKey
  split
  · simp
  · split
    · exact privCrypto_noPanic C _ m
    · simp

theorem getPemPrivateKey_noPanic (C : Crypto) (r : GetResp) :
    (getPemPrivateKey C.toCryptoOps r).NoPanic := by
  intro m; unfold getPemPrivateKey
  split
  · simp
  · split
    · exact privPkcs8Pem_noPanic C _ m
    · simp

theorem getRsaPublicKey_noPanic (C : CryptoOps) (r : GetResp) : (getRsaPublicKey C r).NoPanic := by
  intro m; unfold getRsaPublicKey
  split
  · simp
  · split
    · exact pubRSA_noPanic C _ m
    · simp

theorem getEcdsaPublicKey_noPanic (C : CryptoOps) (r : GetResp) : (getEcdsaPublicKey C r).NoPanic := by
  intro m; unfold getEcdsaPublicKey
  split
  · simp
  · split
    · exact pubECDSA_noPanic C _ m
    · simp

theorem getPublicKey_noPanic (C : CryptoOps) (r : GetResp) : (getPublicKey C r).NoPanic := by
  intro m; unfold getPublicKey
  split
  · simp
  · split
    · exact pubCrypto_noPanic C _ m
    · simp

theorem getPemPublicKey_noPanic (C : CryptoOps) (r : GetResp) : (getPemPublicKey C r).NoPanic := by
  intro m; unfold getPemPublicKey
  split
  · simp
  · split
    · exact pubPkixPem_noPanic C _ m
    · simp

theorem resAs_noPanic {α : Type} (r : Res α) (f : α → Out) (h : r.NoPanic) : (resAs r f).NoPanic := by
  intro m
  cases r with
  | ok a => simp [resAs]
  | err e => simp [resAs]
  | panic m' => exact absurd rfl (h m')

/-- without any law: every accessor except the two PKCS#8 PEM helpers. -/
theorem run_noPanic_ops (C : CryptoOps) (a : Accessor) (ha : a ≠ .privPem ∧ a ≠ .getPemPriv)
    (r : GetResp) : (run C a r).NoPanic := by
  intro m
  have herr : ∀ e : Err, (Res.err e : Res Out) ≠ .panic m := by intro e h; cases h
  cases a <;> simp only [run]
  case kbMaterial => split <;> first | exact resAs_noPanic _ _ (getMaterial_noPanic _) m | exact herr _
  case kbBytes => split <;> first | exact resAs_noPanic _ _ (getBytes_noPanic _) m | exact herr _
  case kbAttrs => split <;> first | exact resAs_noPanic _ _ (getAttributes_noPanic _) m | exact herr _
  case secretData => split <;> first | exact resAs_noPanic _ _ (secretData_noPanic _) m | exact herr _
  case symMaterial => split <;> first | exact resAs_noPanic _ _ (symKeyMaterial_noPanic _) m | exact herr _
  case pubRSA => split <;> first | exact resAs_noPanic _ _ (pubRSA_noPanic C _) m | exact herr _
  case pubECDSA => split <;> first | exact resAs_noPanic _ _ (pubECDSA_noPanic C _) m | exact herr _
  case pubCrypto => split <;> first | exact resAs_noPanic _ _ (pubCrypto_noPanic C _) m | exact herr _
  case pubPem => split <;> first | exact resAs_noPanic _ _ (pubPkixPem_noPanic C _) m | exact herr _
  case privRSA => split <;> first | exact resAs_noPanic _ _ (privRSA_noPanic C _) m | exact herr _
  case privECDSA => split <;> first | exact resAs_noPanic _ _ (privECDSA_noPanic C _) m | exact herr _
  case privCrypto => split <;> first | exact resAs_noPanic _ _ (privCrypto_noPanic C _) m | exact herr _
  case privPem => exact absurd rfl ha.1
  case certX509 => split <;> first | exact resAs_noPanic _ _ (certX509_noPanic C _ _) m | exact herr _
  case certPem => split <;> first | exact resAs_noPanic _ _ (certPem_noPanic C _ _) m | exact herr _
  case getSecret => exact resAs_noPanic _ _ (getSecret_noPanic r) m
  case getSecretString => exact resAs_noPanic _ _ (getSecret_noPanic r) m
  case getSym => exact resAs_noPanic _ _ (getSymmetricKey_noPanic r) m
  case getX509 => exact resAs_noPanic _ _ (getX509Certificate_noPanic C r) m
  case getPemCert => exact resAs_noPanic _ _ (getPemCertificate_noPanic C r) m
  case getRsaPriv => exact resAs_noPanic _ _ (getRsaPrivateKey_noPanic C r) m
  case getEcdsaPriv => exact resAs_noPanic _ _ (getEcdsaPrivateKey_noPanic C r) m
  case getPriv => exact resAs_noPanic _ _ (getPrivateKey_noPanic C r) m
  case getPemPriv => exact absurd rfl ha.2
  case getRsaPub => exact resAs_noPanic _ _ (getRsaPublicKey_noPanic C r) m
  case getEcdsaPub => exact resAs_noPanic _ _ (getEcdsaPublicKey_noPanic C r) m
  case getPub => exact resAs_noPanic _ _ (getPublicKey_noPanic C r) m
  case getPemPub => exact resAs_noPanic _ _ (getPemPublicKey_noPanic C r) m

/-- under the laws of the standard library: every accessor. -/
theorem run_noPanic (C : Crypto) (a : Accessor) (r : GetResp) : (run C.toCryptoOps a r).NoPanic := by
  by_cases ha : a ≠ .privPem ∧ a ≠ .getPemPriv
  · exact run_noPanic_ops C.toCryptoOps a ha r
  · intro m
    have herr : ∀ e : Err, (Res.err e : Res Out) ≠ .panic m := by intro e h; cases h
    have : a = .privPem ∨ a = .getPemPriv := by
      by_cases h1 : a = .privPem
      · exact Or.inl h1
      · by_cases h2 : a = .getPemPriv
        · exact Or.inr h2
        · exact absurd ⟨h1, h2⟩ ha
    rcases this with h | h <;> subst h <;> simp only [run]
    · split <;> first | exact resAs_noPanic _ _ (privPkcs8Pem_noPanic C _) m | exact herr _
    · exact resAs_noPanic _ _ (getPemPrivateKey_noPanic C r) m

/-! ### the toy standard library satisfies the laws -/

namespace Toy

theorem takeNum_of_parseDigits (ds r : Bytes) (acc n : Nat) (h : parseDigits ds acc = some n) :
    takeNum (ds ++ 0 :: r) acc = some (n, r) := by
  induction ds generalizing acc with
  | nil =>
    simp only [parseDigits, Option.some.injEq] at h
    simp [takeNum, h]
  | cons c cs ih =>
    simp only [parseDigits] at h
    split at h
    · rename_i hc
      have hc0 : c ≠ 0 := by
        intro e; subst e; exact absurd hc.1 (by decide)
      simp only [List.cons_append, takeNum, hc0, if_false, hc, and_self, if_true]
      exact ih _ h
    · cases h

theorem takeUn_un (n : Nat) (r : Bytes) : takeUn (un n ++ r) = some (n, r) := by
  unfold takeUn un
  rw [List.append_assoc]
  exact takeNum_of_parseDigits _ r 0 n (parseDigits_decDigits n)

theorem takeUn_un_nil (n : Nat) : takeUn (un n) = some (n, []) := by
  have := takeUn_un n []
  simpa using this

theorem takeMany_serNums (xs : List Nat) (r : Bytes) : takeMany xs.length (serNums xs ++ r) = some (xs, r) := by
  induction xs with
  | nil => simp [takeMany, serNums]
  | cons x xs ih => simp [takeMany, serNums, List.append_assoc, takeUn_un, ih]

theorem deRsaPriv_ser (k : RsaPriv) (h : 2 ≤ k.primes.length) : deRsaPriv (serRsaPriv k) = some k := by
  have hm := takeMany_serNums k.primes []
  simp only [List.append_nil] at hm
  have hlt : ¬ k.primes.length < 2 := by omega
  simp [deRsaPriv, serRsaPriv, takeUn_un, hlt, hm]

theorem rsaValidate_len (k : RsaPriv) (h : rsaValidate k = true) : 2 ≤ k.primes.length := by
  simpa [rsaValidate] using h

theorem deRsaPub_ser (k : RsaPub) : deRsaPub (serRsaPub k) = some k := by
  simp [deRsaPub, serRsaPub, takeUn_un_nil]

theorem deEcPriv_ser (k : EcPriv) (h : k.d < 256 ^ orderBytes k.crv) : deEcPriv (serEcPriv k) = some k := by
  simp [deEcPriv, serEcPriv, takeUn_un, takeUn_un_nil, k.crv.isLt, h]

theorem deEcPriv_fits (bs : Bytes) (k : EcPriv) (h : deEcPriv bs = some k) : k.d < 256 ^ orderBytes k.crv := by
  unfold deEcPriv at h
  split at h
  · split at h
    · split at h
      · split at h
        · simp only [Option.some.injEq] at h
          subst h
          assumption
        · cases h
      · cases h
    · cases h
  · cases h

theorem marshalPKCS8_ec_fits (k : EcPriv) (m : String) (h : k.d < 256 ^ orderBytes k.crv) :
    marshalPKCS8 (.ecdsa k) ≠ .panic m := by
  have : ¬ k.d ≥ 256 ^ orderBytes k.crv := by omega
  simp [marshalPKCS8, this]

theorem order_fits' (c : Nat) (hc : curveSupported c = true) :
    curveOrder c ≤ ((256 ^ orderBytes (curveIx c) : Nat) : Int) := by
  have hc' : c = 4 ∨ c = 7 ∨ c = 10 ∨ c = 13 := by
    simp [curveSupported] at hc; omega
  rcases hc' with e | e | e | e <;> subst e <;> decide

theorem deEcPub_ser (k : EcPub) : deEcPub (serEcPub k) = some k := by
  simp [deEcPub, serEcPub, List.append_assoc, takeUn_un, takeUn_un_nil, k.crv.isLt]

theorem curve_facts : ∀ i : Fin 4, curveSupported (curveCode i) = true ∧ curveIx (curveCode i) = i ∧
    (curveCode i).toUInt8.toNat = curveCode i := by decide

theorem unpoint_point (f : UInt8) (k : EcPub) : unpoint f (curveCode k.crv) (point f k) = some k := by
  obtain ⟨h1, h2, h3⟩ := curve_facts k.crv
  simp [unpoint, point, h1, h2, h3, takeUn_un, takeUn_un_nil]

theorem order_fits_toy (k : EcPriv) (h : (k.d : Int) < curveOrder (curveCode k.crv)) :
    k.d < 256 ^ orderBytes k.crv := by
  obtain ⟨h1, h2, _⟩ := curve_facts k.crv
  have hfit := order_fits' (curveCode k.crv) h1
  rw [h2] at hfit
  have : ((k.d : Nat) : Int) < ((256 ^ orderBytes k.crv : Nat) : Int) := by omega
  exact Int.ofNat_lt.mp this

theorem parsePKCS8_marshal_rsa (k : RsaPriv) (bs : Bytes) (h : marshalPKCS8 (.rsa k) = .ok bs) :
    parsePKCS8 bs = some (.rsa k) := by
  simp only [marshalPKCS8] at h
  split at h
  · rename_i hv
    simp at h; subst h
    simp [parsePKCS8, deRsaPriv_ser k (rsaValidate_len k hv)]
  · cases h

theorem parsePKCS8_marshal_ec (k : EcPriv) (bs : Bytes) (h : marshalPKCS8 (.ecdsa k) = .ok bs) :
    parsePKCS8 bs = some (.ecdsa k) := by
  simp only [marshalPKCS8] at h
  split at h
  · cases h
  · rename_i hd
    simp at h; subst h
    simp [parsePKCS8, deEcPriv_ser k (by omega)]

theorem parsePKIX_marshal (k : PubAny RsaPub EcPub) (bs : Bytes) (h : marshalPKIX k = some bs) :
    parsePKIX bs = some k := by
  cases k <;> simp [marshalPKIX] at h <;> subst h <;> simp [parsePKIX, deRsaPub_ser, deEcPub_ser]

/-- the toy library with its laws. -/
def crypto : Crypto where
  toCryptoOps := ops
  parsePKCS1Priv_marshal k bs hv hm := by
    have hl := rsaValidate_len k hv
    have hlt : ¬ k.primes.length < 2 := by omega
    simp only [ops, marshalPKCS1Priv, hlt, if_false, Res.ok.injEq] at hm
    subst hm
    simp only [ops, untag, if_true, Option.bind_some]; exact deRsaPriv_ser k hl
  parsePKCS1Pub_marshal k _ := by
    simp only [ops, untag, tagged, if_true, Option.bind_some]; exact deRsaPub_ser k
  parsePKCS8_marshal_rsa := parsePKCS8_marshal_rsa
  parsePKCS8_marshal_ec k bs _ h := parsePKCS8_marshal_ec k bs h
  parseSEC1_marshal k bs _ h := by
    simp only [ops, marshalSEC1] at h
    split at h
    · cases h
    · rename_i hd
      simp only [Option.some.injEq] at h
      subst h
      simp only [ops, untag, tagged, if_true, Option.bind_some]
      exact deEcPriv_ser k (by omega)
  parsePKIX_marshal_rsa k bs _ h := parsePKIX_marshal (.rsa k) bs h
  parsePKIX_marshal_ec k bs h := parsePKIX_marshal (.ecdsa k) bs h
  parseCert_raw c := by simp [ops, untag, tagged]
  rsaPrivBuild_parts k p q _ := by
    cases k; simp [ops, rsaPrivBuild, rsaPrivParts, List.map_map, Function.comp_def]
  rsaPriv_e_int k := by simp [ops, rsaPrivParts]; decide
  rsaPubMk_parts k := by cases k; simp [ops]
  rsaPub_e_int k := by simp [ops]; decide
  ecPrivBuild_parts k _ := by
    cases k with
    | mk crv d => simp [ops, (curve_facts crv).2.1]
  ecUnmarshal_marshal k _ := unpoint_point 4 k
  marshalPKCS1Priv_noPanic k m h := by
    have hl : 2 ≤ k.primes.length := by simpa [ops, rsaPrivParts] using h
    have hlt : ¬ k.primes.length < 2 := by omega
    simp [ops, marshalPKCS1Priv, hlt]
  marshalPKCS8_rsa_noPanic k m := by
    simp only [ops, marshalPKCS8]; split <;> simp
  marshalPKCS8_parsed_noPanic bs k m h := by
    cases k with
    | rsa k => simp only [ops, marshalPKCS8]; split <;> simp
    | other => simp [ops, marshalPKCS8]
    | ecdsa k =>
      apply marshalPKCS8_ec_fits
      simp only [ops, parsePKCS8] at h
      split at h
      · simp at h
      · rename_i r
        cases hd : deEcPriv r with
        | none => simp [hd] at h
        | some k' =>
          simp [hd] at h
          cases h
          exact deEcPriv_fits r _ hd
      · simp at h
      · cases h
  marshalPKCS8_sec1_noPanic bs k m h := by
    apply marshalPKCS8_ec_fits
    simp only [ops] at h
    cases hu : untag 6 bs with
    | none => simp [hu] at h
    | some r =>
      simp [hu] at h
      exact deEcPriv_fits r k h
  marshalPKCS8_built_noPanic c d m hc h0 h1 := by
    apply marshalPKCS8_ec_fits
    show d.natAbs < 256 ^ orderBytes (curveIx c)
    have h1' : d < curveOrder c := h1
    have hfit := order_fits' c hc
    have : ((d.natAbs : Nat) : Int) < ((256 ^ orderBytes (curveIx c) : Nat) : Int) := by omega
    exact Int.ofNat_lt.mp this
  marshalPKCS8_ec_noPanic k m h := marshalPKCS8_ec_fits k m (order_fits_toy k h.2)
  rsaValidate_primes k hv := by
    have := rsaValidate_len k hv
    simpa [ops, rsaPrivParts] using this
  marshalPKCS1Priv_ok k hv := by
    have hl := rsaValidate_len k hv
    have hlt : ¬ k.primes.length < 2 := by omega
    exact ⟨1 :: serRsaPriv k, by simp [ops, marshalPKCS1Priv, hlt]⟩
  marshalPKCS8_rsa_ok k hv := by
    have hv' : rsaValidate k = true := hv
    exact ⟨3 :: serRsaPriv k, by simp [ops, marshalPKCS8, hv']⟩
  marshalPKIX_rsa_ok k := ⟨_, rfl⟩
  marshalSEC1_ok k _ hs := by
    have hd : ¬ k.d ≥ 256 ^ orderBytes k.crv := by
      have := order_fits_toy k hs.2; omega
    exact ⟨tagged 6 (serEcPriv k), by simp [ops, marshalSEC1, hd]⟩
  marshalPKCS8_ec_ok k _ hs := by
    have hd : ¬ k.d ≥ 256 ^ orderBytes k.crv := by
      have := order_fits_toy k hs.2; omega
    exact ⟨4 :: serEcPriv k, by simp [ops, marshalPKCS8, hd]⟩
  marshalPKIX_ec_ok k _ := ⟨_, rfl⟩

end Toy

/-! ### register, then extract -/

theorem toInt64_of_isInt64 {v : Int} (h : isInt64 v = true) : toInt64 v = v := by
  unfold isInt64 at h
  have h' : -9223372036854775808 ≤ v ∧ v ≤ 9223372036854775807 := by simpa using h
  exact signed_unsigned64 v h'.1 (by omega)

theorem RsaParts.eta2 (P : RsaParts) (p q : Int) (hp : P.primes = [p, q]) :
    RsaParts.mk P.n P.e P.d [p, q] P.dp P.dq P.qinv = P := by
  cases P; simp at hp; simp [hp]

/-! The lemmas are stated for a CHOSEN format `f` (`register…F`); the selector of HEAD is one way to choose. -/

theorem rsaPriv_extractF (C : Crypto) (f : Nat) (k : C.RsaPriv) (o : Obj) (hv : C.rsaValidate k = true)
    (h : registerRsaPrivF C.toCryptoOps f k = .ok o) :
    getRsaPrivateKey C.toCryptoOps (respOf o) = .ok k := by
  unfold registerRsaPrivF at h
  simp only at h
  split at h
  · cases h
  · split at h
    · cases hm : C.marshalPKCS1Priv k with
      | ok der =>
        rw [hm] at h
        cases h
        simp [getRsaPrivateKey, respOf, Obj.typeCode, rawKeyBytes, plainKB, privRSA, getBytes, getMaterial,
          ofOption, fPKCS1, C.parsePKCS1Priv_marshal k der hv hm]
      | err e => rw [hm] at h; cases h
      | panic m => rw [hm] at h; cases h
    · split at h
      · cases hm : C.marshalPKCS8 (.rsa k) with
        | ok der =>
          rw [hm] at h
          cases h
          simp [getRsaPrivateKey, respOf, Obj.typeCode, rawKeyBytes, plainKB, privRSA, getBytes, getMaterial,
            fPKCS1, fPKCS8, C.parsePKCS8_marshal_rsa _ _ hm]
        | err e => rw [hm] at h; cases h
        | panic m => rw [hm] at h; cases h
      · split at h
        · split at h
          · rename_i p q hp
            cases h
            have he := C.rsaPriv_e_int k
            have hparts := RsaParts.eta2 (C.rsaPrivParts k) p q hp
            simp [getRsaPrivateKey, respOf, Obj.typeCode, plainKB, privRSA, getMaterial,
              fPKCS1, fPKCS8, fTransparentRSAPrivateKey, he, toInt64_of_isInt64 he, hparts,
              C.rsaPrivBuild_parts k p q hp]
          · cases h
        · cases h

theorem rsaPub_extractF (C : Crypto) (f : Nat) (k : C.RsaPub) (o : Obj) (hv : C.rsaPubValid k = true)
    (h : registerRsaPubF C.toCryptoOps f k = .ok o) :
    getRsaPublicKey C.toCryptoOps (respOf o) = .ok k := by
  unfold registerRsaPubF at h
  simp only at h
  split at h
  · cases h
  · split at h
    · cases h
      simp [getRsaPublicKey, respOf, Obj.typeCode, rawKeyBytes, plainKB, pubRSA, getBytes, getMaterial,
        ofOption, fPKCS1, C.parsePKCS1Pub_marshal k hv]
    · split at h
      · split at h
        · cases h
        · rename_i der hder
          cases h
          simp [getRsaPublicKey, respOf, Obj.typeCode, rawKeyBytes, plainKB, pubRSA, getBytes, getMaterial,
            fPKCS1, fX509, C.parsePKIX_marshal_rsa _ _ hv hder]
      · split at h
        · cases h
          have he := C.rsaPub_e_int k
          simp [getRsaPublicKey, respOf, Obj.typeCode, plainKB, pubRSA, getMaterial,
            fPKCS1, fX509, fTransparentRSAPublicKey, he, toInt64_of_isInt64 he, C.rsaPubMk_parts]
        · cases h

/-- the transparent RSA public key needs nothing of the standard library: any modulus, any `int` exponent. -/
theorem rsaPub_extract_transparent (C : Crypto) (k : C.RsaPub) (o : Obj)
    (h : registerRsaPubF C.toCryptoOps kfTransparent k = .ok o) :
    getRsaPublicKey C.toCryptoOps (respOf o) = .ok k := by
  unfold registerRsaPubF at h
  simp only [kfTransparent, kfPKCS1, kfX509] at h
  split at h
  · cases h
  · simp only [show ¬ (1 : Nat) = 8 by decide, show ¬ (1 : Nat) = 2 by decide, if_false, if_true] at h
    cases h
    have he := C.rsaPub_e_int k
    simp [getRsaPublicKey, respOf, Obj.typeCode, plainKB, pubRSA, getMaterial,
      fPKCS1, fX509, fTransparentRSAPublicKey, he, toInt64_of_isInt64 he, C.rsaPubMk_parts]

theorem ecPriv_extractF (C : Crypto) (f : Nat) (ver : Nat × Nat) (k : C.EcPriv) (o : Obj)
    (hr : C.toCryptoOps.ScalarIn k)
    (h : registerEcPrivF C.toCryptoOps f ver k = .ok o) :
    getEcdsaPrivateKey C.toCryptoOps (respOf o) = .ok k := by
  have hr' : 0 < C.ecPrivD k ∧ C.ecPrivD k < C.curveOrder (C.ecPrivCurve k) := hr
  unfold registerEcPrivF at h
  simp only at h
  split at h
  · cases h
  · rename_i hc
    have hc' : curveSupported (C.ecPrivCurve k) = true := by simpa using hc
    split at h
    · split at h
      · cases h
      · rename_i der hder
        cases h
        simp [getEcdsaPrivateKey, respOf, Obj.typeCode, rawKeyBytes, plainKB, privECDSA, getBytes, getMaterial,
          ofOption, fECPrivateKey, C.parseSEC1_marshal _ _ hr hder]
    · split at h
      · split at h
        · rename_i der hder
          cases h
          simp [getEcdsaPrivateKey, respOf, Obj.typeCode, rawKeyBytes, plainKB, privECDSA, getBytes,
            getMaterial, fECPrivateKey, fPKCS8, C.parsePKCS8_marshal_ec _ _ hr hder]
        · cases h
        · cases h
      · split at h
        · split at h
          · cases h
            simp [getEcdsaPrivateKey, respOf, Obj.typeCode, plainKB, privECDSA, getMaterial, ecPrivSlot,
              privECDSATail, fECPrivateKey, fPKCS8, fTransparentECPrivateKey, fTransparentECDSAPrivateKey,
              hc', C.ecPrivBuild_parts k hc', hr']
          · cases h
            simp [getEcdsaPrivateKey, respOf, Obj.typeCode, plainKB, privECDSA, getMaterial, ecPrivSlot,
              privECDSATail, fECPrivateKey, fPKCS8, fTransparentECPrivateKey, fTransparentECDSAPrivateKey,
              hc', C.ecPrivBuild_parts k hc', hr']
        · cases h

/-- a transparent EC private key whose scalar is not in `[1, n-1]` is registered as it is and refused by
    the accessor (e2e4a08). -/
theorem ecPriv_extract_invalid (C : Crypto) (ver : Nat × Nat) (k : C.EcPriv) (o : Obj)
    (hr : ¬ C.toCryptoOps.ScalarIn k)
    (h : registerEcPrivF C.toCryptoOps kfTransparent ver k = .ok o) :
    getEcdsaPrivateKey C.toCryptoOps (respOf o) = .err .range := by
  have hr' : C.ecPrivD k ≤ 0 ∨ C.ecPrivD k ≥ C.curveOrder (C.ecPrivCurve k) := by
    unfold CryptoOps.ScalarIn at hr; omega
  unfold registerEcPrivF at h
  simp only at h
  split at h
  · cases h
  · rename_i hc
    have hc' : curveSupported (C.ecPrivCurve k) = true := by simpa using hc
    simp only [kfTransparent, kfSEC1, kfPKCS8] at h
    simp only [show ¬ (1 : Nat) = 16 by decide, show ¬ (1 : Nat) = 4 by decide, if_false, if_true] at h
    split at h
    · cases h
      simp [getEcdsaPrivateKey, respOf, Obj.typeCode, plainKB, privECDSA, getMaterial, ecPrivSlot,
        privECDSATail, fECPrivateKey, fPKCS8, fTransparentECPrivateKey, fTransparentECDSAPrivateKey, hc', hr']
    · cases h
      simp [getEcdsaPrivateKey, respOf, Obj.typeCode, plainKB, privECDSA, getMaterial, ecPrivSlot,
        privECDSATail, fECPrivateKey, fPKCS8, fTransparentECPrivateKey, fTransparentECDSAPrivateKey, hc', hr']

theorem ecPub_extractF (C : Crypto) (f : Nat) (ver : Nat × Nat) (k : C.EcPub) (o : Obj)
    (h : registerEcPubF C.toCryptoOps f ver k = .ok o) :
    getEcdsaPublicKey C.toCryptoOps (respOf o) = .ok k := by
  unfold registerEcPubF at h
  simp only at h
  split at h
  · cases h
  · rename_i hc
    have hc' : curveSupported (C.ecPubCurve k) = true := by simpa using hc
    split at h
    · split at h
      · cases h
      · rename_i der hder
        cases h
        simp [getEcdsaPublicKey, respOf, Obj.typeCode, rawKeyBytes, plainKB, pubECDSA, getBytes, getMaterial,
          fX509, C.parsePKIX_marshal_ec _ _ hder]
    · split at h
      · split at h
        · cases h
          simp [getEcdsaPublicKey, respOf, Obj.typeCode, plainKB, pubECDSA, getMaterial, ecPubSlot,
            pubECDSATail, ofOption, fX509, fTransparentECPublicKey, fTransparentECDSAPublicKey,
            hc', C.ecUnmarshal_marshal k hc']
        · cases h
          simp [getEcdsaPublicKey, respOf, Obj.typeCode, plainKB, pubECDSA, getMaterial, ecPubSlot,
            pubECDSATail, ofOption, fX509, fTransparentECPublicKey, fTransparentECDSAPublicKey,
            hc', C.ecUnmarshal_marshal k hc']
      · cases h

theorem sym_extractF (f alg : Nat) (v : Bytes) (o : Obj) (h : registerSymF f alg v = .ok o) :
    getSymmetricKey (respOf o) = .ok v := by
  unfold registerSymF at h
  simp only at h
  split at h
  · cases h
  · split at h
    · cases h
      simp [getSymmetricKey, respOf, Obj.typeCode, plainKB, symKeyMaterial, getBytes, getMaterial, fRaw]
    · split at h
      · cases h
        simp [getSymmetricKey, respOf, Obj.typeCode, plainKB, symKeyMaterial, getMaterial, fRaw,
          fTransparentSymmetricKey]
      · cases h

theorem secret_extract (kind : Nat) (v : Bytes) (o : Obj) (h : registerSecret kind v = .ok o) :
    getSecret (respOf o) = .ok v := by
  unfold registerSecret at h
  cases h
  simp [getSecret, respOf, Obj.typeCode, plainKB, secretData, getBytes, getMaterial, fRaw]

/-! ### the `crypto.PrivateKey` / `crypto.PublicKey` accessors agree with the typed ones (any key block) -/

theorem privCrypto_of_privRSA (C : CryptoOps) (kb : KeyBlockV) (k : C.RsaPriv)
    (h : privRSA C kb = .ok k) : privCrypto C kb = .ok (.rsa k) := by
  have h0 := h
  unfold privRSA at h
  unfold privCrypto
  split at h
  · rename_i hf
    simp [hf, fPKCS1, fECPrivateKey, fTransparentECPrivateKey, fTransparentECDSAPrivateKey, h0]
  · split at h
    · rename_i hf
      simp only [hf, fPKCS8, fPKCS1, fECPrivateKey, fTransparentECPrivateKey, fTransparentECDSAPrivateKey,
        fTransparentRSAPrivateKey]
      cases hb : getBytes kb with
      | ok raw =>
        rw [hb] at h
        simp only at h
        cases hp : C.parsePKCS8 raw with
        | none => rw [hp] at h; cases h
        | some a =>
          rw [hp] at h
          cases a <;> simp at h
          subst h
          simp [ofOption, hp]
      | err e => rw [hb] at h; cases h
      | panic m => rw [hb] at h; cases h
    · split at h
      · rename_i hf
        simp [hf, fPKCS1, fECPrivateKey, fTransparentECPrivateKey, fTransparentECDSAPrivateKey,
          fTransparentRSAPrivateKey, h0]
      · cases h

theorem privCrypto_of_privECDSA (C : CryptoOps) (kb : KeyBlockV) (k : C.EcPriv)
    (h : privECDSA C kb = .ok k) : privCrypto C kb = .ok (.ecdsa k) := by
  have h0 := h
  unfold privECDSA at h
  unfold privCrypto
  split at h
  · rename_i hf
    simp [hf, h0]
  · split at h
    · rename_i hf
      simp only [hf, fPKCS8, fPKCS1, fECPrivateKey, fTransparentECPrivateKey, fTransparentECDSAPrivateKey,
        fTransparentRSAPrivateKey]
      cases hb : getBytes kb with
      | ok raw =>
        rw [hb] at h
        simp only at h
        cases hp : C.parsePKCS8 raw with
        | none => rw [hp] at h; cases h
        | some a =>
          rw [hp] at h
          cases a <;> simp at h
          subst h
          simp [ofOption, hp]
      | err e => rw [hb] at h; cases h
      | panic m => rw [hb] at h; cases h
    · split at h
      · rename_i hf
        rcases hf with hf | hf <;> simp [hf, h0]
      · cases h

theorem pubCrypto_of_pubRSA (C : CryptoOps) (kb : KeyBlockV) (k : C.RsaPub)
    (h : pubRSA C kb = .ok k) : pubCrypto C kb = .ok (.rsa k) := by
  have h0 := h
  unfold pubRSA at h
  unfold pubCrypto
  split at h
  · rename_i hf
    simp [hf, fPKCS1, fTransparentECPublicKey, fTransparentECDSAPublicKey, h0]
  · split at h
    · rename_i hf
      simp only [hf, fX509, fPKCS1, fTransparentECPublicKey, fTransparentECDSAPublicKey,
        fTransparentRSAPublicKey]
      cases hb : getBytes kb with
      | ok raw =>
        rw [hb] at h
        simp only at h
        cases hp : C.parsePKIX raw with
        | none => rw [hp] at h; cases h
        | some a =>
          rw [hp] at h
          cases a <;> simp at h
          subst h
          simp [ofOption, hp]
      | err e => rw [hb] at h; cases h
      | panic m => rw [hb] at h; cases h
    · split at h
      · rename_i hf
        simp [hf, fPKCS1, fTransparentECPublicKey, fTransparentECDSAPublicKey, fTransparentRSAPublicKey, h0]
      · cases h

theorem pubCrypto_of_pubECDSA (C : CryptoOps) (kb : KeyBlockV) (k : C.EcPub)
    (h : pubECDSA C kb = .ok k) : pubCrypto C kb = .ok (.ecdsa k) := by
  have h0 := h
  unfold pubECDSA at h
  unfold pubCrypto
  split at h
  · rename_i hf
    simp only [hf, fX509, fPKCS1, fTransparentECPublicKey, fTransparentECDSAPublicKey,
      fTransparentRSAPublicKey]
    cases hb : getBytes kb with
    | ok raw =>
      rw [hb] at h
      simp only at h
      cases hp : C.parsePKIX raw with
      | none => rw [hp] at h; cases h
      | some a =>
        rw [hp] at h
        cases a <;> simp at h
        subst h
        simp [ofOption, hp]
    | err e => rw [hb] at h; cases h
    | panic m => rw [hb] at h; cases h
  · split at h
    · rename_i hf
      rcases hf with hf | hf <;> simp [hf, h0]
    · cases h

/-! ### what the register builders can and cannot do -/

/-- before d693174: a multi-prime RSA key registered in the transparent format loses every prime after the
    second: the key that comes back is rebuilt from `[p, q]` only. -/
theorem rsaPriv_transparent_truncates (C : Crypto) (kf : Nat) (k : C.RsaPriv) (p q : Int) (rest : List Int)
    (hp : (C.rsaPrivParts k).primes = p :: q :: rest)
    (hlen : bitLen (C.rsaPrivParts k).n ≤ maxInt32)
    (hf : rsaPrivFormat kf = kfTransparent) :
    ∃ o, registerRsaPrivOld C.toCryptoOps kf k = .ok o ∧
      getRsaPrivateKey C.toCryptoOps (respOf o) =
        .ok (C.rsaPrivBuild { C.rsaPrivParts k with primes := [p, q] }) := by
  have he := C.rsaPriv_e_int k
  have h1 : ¬ bitLen (C.rsaPrivParts k).n > maxInt32 := by omega
  have hreg : registerRsaPrivOld C.toCryptoOps kf k = .ok (.privateKey (plainKB fTransparentRSAPrivateKey 0 algRSA
      (bitLen (C.rsaPrivParts k).n)
      { rsaPriv := some { modulus := (C.rsaPrivParts k).n, d := some (C.rsaPrivParts k).d,
                          e := some (C.rsaPrivParts k).e, p := some p, q := some q,
                          dp := (C.rsaPrivParts k).dp, dq := (C.rsaPrivParts k).dq,
                          qinv := (C.rsaPrivParts k).qinv } })) := by
    unfold registerRsaPrivOld
    simp only [h1, if_false, hf, hp]
    simp [kfTransparent, kfPKCS1, kfPKCS8]
  refine ⟨_, hreg, ?_⟩
  simp [getRsaPrivateKey, respOf, Obj.typeCode, plainKB, privRSA, getMaterial,
    fPKCS1, fPKCS8, fTransparentRSAPrivateKey, he, toInt64_of_isInt64 he]

theorem rsaPrivFormat_mem (kf : Nat) :
    rsaPrivFormat kf = kfPKCS1 ∨ rsaPrivFormat kf = kfPKCS8 ∨ rsaPrivFormat kf = kfTransparent := by
  unfold rsaPrivFormat
  split
  · exact Or.inl rfl
  · split
    · exact Or.inr (Or.inl rfl)
    · split
      · exact Or.inr (Or.inr rfl)
      · exact Or.inl rfl

theorem rsaPubFormat_mem (kf : Nat) :
    rsaPubFormat kf = kfPKCS1 ∨ rsaPubFormat kf = kfX509 ∨ rsaPubFormat kf = kfTransparent := by
  unfold rsaPubFormat
  split
  · exact Or.inl rfl
  · split
    · exact Or.inr (Or.inl rfl)
    · split
      · exact Or.inr (Or.inr rfl)
      · exact Or.inl rfl

theorem ecdsaPrivFormat_mem (kf : Nat) :
    ecdsaPrivFormat kf = kfSEC1 ∨ ecdsaPrivFormat kf = kfPKCS8 ∨ ecdsaPrivFormat kf = kfTransparent := by
  unfold ecdsaPrivFormat
  split
  · exact Or.inl rfl
  · split
    · exact Or.inr (Or.inl rfl)
    · split
      · exact Or.inr (Or.inr rfl)
      · exact Or.inl rfl

theorem ecdsaPubFormat_mem (kf : Nat) :
    ecdsaPubFormat kf = kfX509 ∨ ecdsaPubFormat kf = kfTransparent := by
  unfold ecdsaPubFormat
  split
  · exact Or.inl rfl
  · split
    · exact Or.inr rfl
    · exact Or.inl rfl

theorem symmetricFormat_mem (kf : Nat) :
    symmetricFormat kf = kfRAW ∨ symmetricFormat kf = kfTransparent := by
  unfold symmetricFormat
  split
  · exact Or.inl rfl
  · split
    · exact Or.inr rfl
    · exact Or.inl rfl

/-! #### admissible formats -/

theorem hasFmt_zero (b : Nat) (hb : b ≠ 0) : hasFmt 0 b = false := by
  simp [hasFmt, Nat.zero_and]; omega

/-- an admissible format is one of the formats of the kind. -/
theorem admissible_mem (k : KeyKind) (kf f : Nat) (h : admissible k kf f = true) : f ∈ k.formats := by
  unfold admissible at h
  simp only at h
  split at h
  · have : f = k.defaultFormat := by simpa using h
    subst this
    cases k <;> simp [KeyKind.formats, KeyKind.defaultFormat]
  · have h' : f ∈ k.formats.filter (fun b => hasFmt kf b) := by simpa using h
    exact (List.mem_filter.mp h').1

/-- the selector of HEAD makes an admissible choice, for every mask. -/
theorem selectFormat_admissible (k : KeyKind) (kf : Nat) : admissible k kf (selectFormat k kf) = true := by
  by_cases h0 : kf = 0
  · subst h0
    cases k <;>
      simp [admissible, selectFormat, KeyKind.formats, KeyKind.defaultFormat, rsaPrivFormat, rsaPubFormat,
        ecdsaPrivFormat, ecdsaPubFormat, symmetricFormat, hasFmt, kfPKCS1, kfPKCS8, kfTransparent, kfX509, kfSEC1,
        kfRAW]
  · cases k
    · -- rsaPriv
      by_cases h1 : hasFmt kf kfPKCS1 = true <;> by_cases h2 : hasFmt kf kfPKCS8 = true <;>
        by_cases h3 : hasFmt kf kfTransparent = true <;>
        simp [admissible, selectFormat, KeyKind.formats, KeyKind.defaultFormat, rsaPrivFormat, h0, h1, h2, h3,
          List.filter, kfPKCS1, kfPKCS8, kfTransparent] <;>
        simp_all [kfPKCS1, kfPKCS8, kfTransparent]
    · -- rsaPub
      by_cases h1 : hasFmt kf kfPKCS1 = true <;> by_cases h2 : hasFmt kf kfX509 = true <;>
        by_cases h3 : hasFmt kf kfTransparent = true <;>
        simp [admissible, selectFormat, KeyKind.formats, KeyKind.defaultFormat, rsaPubFormat, h0, h1, h2, h3,
          List.filter, kfPKCS1, kfX509, kfTransparent] <;>
        simp_all [kfPKCS1, kfX509, kfTransparent]
    · -- ecPriv
      by_cases h1 : hasFmt kf kfSEC1 = true <;> by_cases h2 : hasFmt kf kfPKCS8 = true <;>
        by_cases h3 : hasFmt kf kfTransparent = true <;>
        simp [admissible, selectFormat, KeyKind.formats, KeyKind.defaultFormat, ecdsaPrivFormat, h0, h1, h2, h3,
          List.filter, kfSEC1, kfPKCS8, kfTransparent] <;>
        simp_all [kfSEC1, kfPKCS8, kfTransparent]
    · -- ecPub
      by_cases h1 : hasFmt kf kfX509 = true <;> by_cases h3 : hasFmt kf kfTransparent = true <;>
        simp [admissible, selectFormat, KeyKind.formats, KeyKind.defaultFormat, ecdsaPubFormat, h0, h1, h3,
          List.filter, kfX509, kfTransparent] <;>
        simp_all [kfX509, kfTransparent]
    · -- sym
      by_cases h1 : hasFmt kf kfRAW = true <;> by_cases h3 : hasFmt kf kfTransparent = true <;>
        simp [admissible, selectFormat, KeyKind.formats, KeyKind.defaultFormat, symmetricFormat, h0, h1, h3,
          List.filter, kfRAW, kfTransparent] <;>
        simp_all [kfRAW, kfTransparent]
    · -- secret
      by_cases h1 : hasFmt kf kfRAW = true <;>
        simp [admissible, selectFormat, KeyKind.formats, KeyKind.defaultFormat, h1, List.filter, kfRAW] <;>
        simp_all [kfRAW]

theorem selectFormat_mem (k : KeyKind) (kf : Nat) : selectFormat k kf ∈ k.formats :=
  admissible_mem k kf _ (selectFormat_admissible k kf)

/-! #### validity, acceptance, panics -/

/-- what the standard library itself calls a key: an RSA private key passes `Validate`, an RSA public key is
    one the x509 parsers accept, the scalar of an ECDSA private key is in `[1, n-1]`. -/
def Valid {C : CryptoOps} : AnyKey C → Prop
  | .rsaPriv k => C.rsaValidate k = true
  | .rsaPub k => C.rsaPubValid k = true
  | .ecPriv k => C.ScalarIn k
  | _ => True

/-- the reasons for which a builder may refuse a valid key in the format `f`: a length that does not fit an
    int32, a curve other than P-224/256/384/521, an RSA key with more than two primes in the transparent
    format (which has `P` and `Q` only). -/
def AcceptableF {C : CryptoOps} (f : Nat) : AnyKey C → Prop
  | .rsaPriv k => bitLen (C.rsaPrivParts k).n ≤ maxInt32 ∧
      (f = kfTransparent → (C.rsaPrivParts k).primes.length = 2)
  | .rsaPub k => bitLen (C.rsaPubN k) ≤ maxInt32
  | .ecPriv k => curveSupported (C.ecPrivCurve k) = true
  | .ecPub k => curveSupported (C.ecPubCurve k) = true
  | .sym _ v => v.length * 8 ≤ maxInt32
  | .secret .. => True

/-- the standard library panicked while marshalling THIS key. -/
def StdlibPanicOn (C : CryptoOps) (key : AnyKey C) (m : String) : Prop :=
  match key with
  | .rsaPriv k => C.marshalPKCS1Priv k = .panic m ∨ C.marshalPKCS8 (.rsa k) = .panic m
  | .ecPriv k => C.marshalPKCS8 (.ecdsa k) = .panic m
  | _ => False

/-- HEAD refuses an RSA private key that has not exactly two primes in the transparent format. -/
theorem registerRsaPrivF_refuses (C : CryptoOps) (k : C.RsaPriv)
    (hlen : bitLen (C.rsaPrivParts k).n ≤ maxInt32)
    (hp : (C.rsaPrivParts k).primes.length ≠ 2) : registerRsaPrivF C kfTransparent k = .err .other := by
  have h1 : ¬ bitLen (C.rsaPrivParts k).n > maxInt32 := by omega
  cases hpr : (C.rsaPrivParts k).primes with
  | nil => simp [registerRsaPrivF, h1, hpr, kfTransparent, kfPKCS1, kfPKCS8]
  | cons a t =>
    cases t with
    | nil => simp [registerRsaPrivF, h1, hpr, kfTransparent, kfPKCS1, kfPKCS8]
    | cons b t' =>
      cases t' with
      | nil => rw [hpr] at hp; simp at hp
      | cons c t'' => simp [registerRsaPrivF, h1, hpr, kfTransparent, kfPKCS1, kfPKCS8]

theorem registerRsaPriv_refuses (C : CryptoOps) (kf : Nat) (k : C.RsaPriv)
    (hlen : bitLen (C.rsaPrivParts k).n ≤ maxInt32) (hf : rsaPrivFormat kf = kfTransparent)
    (hp : (C.rsaPrivParts k).primes.length ≠ 2) : ∃ e, registerRsaPriv C kf k = .err e := by
  unfold registerRsaPriv
  rw [hf]
  exact ⟨_, registerRsaPrivF_refuses C k hlen hp⟩

/-- before d693174 the builder panicked on a key with fewer than two primes. -/
theorem registerRsaPrivOld_panics (C : CryptoOps) (kf : Nat) (k : C.RsaPriv)
    (hlen : bitLen (C.rsaPrivParts k).n ≤ maxInt32) (hf : rsaPrivFormat kf = kfTransparent)
    (hp : (C.rsaPrivParts k).primes.length < 2) : ∃ m, registerRsaPrivOld C kf k = .panic m := by
  have h1 : ¬ bitLen (C.rsaPrivParts k).n > maxInt32 := by omega
  refine ⟨"index out of range", ?_⟩
  cases hpr : (C.rsaPrivParts k).primes with
  | nil => simp [registerRsaPrivOld, h1, hf, hpr, kfTransparent, kfPKCS1, kfPKCS8]
  | cons a t =>
    cases t with
    | nil => simp [registerRsaPrivOld, h1, hf, hpr, kfTransparent, kfPKCS1, kfPKCS8]
    | cons b t' => rw [hpr] at hp; simp at hp; omega

/-- a register builder never panics in its own code ("Unexpected key format" is unreachable for a format of
    the kind, the prime index is guarded): a panic is one of `x509.MarshalPKCS1PrivateKey` /
    `x509.MarshalPKCS8PrivateKey` applied to the caller's key. -/
theorem registerF_panic_only (C : CryptoOps) (f : Nat) (ver : Nat × Nat) (key : AnyKey C)
    (hf : f ∈ key.kind.formats) (m : String)
    (h : registerF C f ver key = .panic m) : StdlibPanicOn C key m := by
  cases key with
  | rsaPriv k =>
    simp only [AnyKey.kind, KeyKind.formats, List.mem_cons, List.not_mem_nil, or_false] at hf
    simp only [registerF, registerRsaPrivF] at h
    split at h
    · cases h
    · rcases hf with rfl | rfl | rfl
      · simp only [kfPKCS1, if_true] at h
        cases hm : C.marshalPKCS1Priv k with
        | ok der => rw [hm] at h; cases h
        | err e => rw [hm] at h; cases h
        | panic m' =>
          rw [hm] at h
          simp only [Res.panic.injEq] at h
          subst h
          exact Or.inl hm
      · simp only [kfPKCS8, kfPKCS1, show ¬ (4 : Nat) = 8 by decide, if_false, if_true] at h
        cases hm : C.marshalPKCS8 (.rsa k) with
        | ok der => rw [hm] at h; cases h
        | err e => rw [hm] at h; cases h
        | panic m' =>
          rw [hm] at h
          simp only [Res.panic.injEq] at h
          subst h
          exact Or.inr hm
      · exfalso
        simp only [kfTransparent, kfPKCS8, kfPKCS1, show ¬ (1 : Nat) = 8 by decide,
          show ¬ (1 : Nat) = 4 by decide, if_false, if_true] at h
        split at h <;> cases h
  | rsaPub k =>
    exfalso
    simp only [AnyKey.kind, KeyKind.formats, List.mem_cons, List.not_mem_nil, or_false] at hf
    simp only [registerF, registerRsaPubF] at h
    split at h
    · cases h
    · rcases hf with rfl | rfl | rfl
      · simp [kfPKCS1] at h
      · simp only [kfX509, kfPKCS1, show ¬ (2 : Nat) = 8 by decide, if_false, if_true] at h
        split at h <;> cases h
      · simp [kfTransparent, kfX509, kfPKCS1] at h
  | ecPriv k =>
    simp only [AnyKey.kind, KeyKind.formats, List.mem_cons, List.not_mem_nil, or_false] at hf
    simp only [registerF, registerEcPrivF] at h
    split at h
    · cases h
    · rcases hf with rfl | rfl | rfl
      · exfalso
        simp only [kfSEC1, if_true] at h
        split at h <;> cases h
      · simp only [kfPKCS8, kfSEC1, show ¬ (4 : Nat) = 16 by decide, if_false, if_true] at h
        cases hm : C.marshalPKCS8 (.ecdsa k) with
        | ok der => rw [hm] at h; cases h
        | err e => rw [hm] at h; cases h
        | panic m' =>
          rw [hm] at h
          simp only [Res.panic.injEq] at h
          subst h
          exact hm
      · exfalso
        simp only [kfTransparent, kfPKCS8, kfSEC1, show ¬ (1 : Nat) = 16 by decide,
          show ¬ (1 : Nat) = 4 by decide, if_false, if_true] at h
        split at h <;> cases h
  | ecPub k =>
    exfalso
    simp only [AnyKey.kind, KeyKind.formats, List.mem_cons, List.not_mem_nil, or_false] at hf
    simp only [registerF, registerEcPubF] at h
    split at h
    · cases h
    · rcases hf with rfl | rfl
      · simp only [kfX509, if_true] at h
        split at h <;> cases h
      · simp only [kfTransparent, kfX509, show ¬ (1 : Nat) = 2 by decide, if_false, if_true] at h
        split at h <;> cases h
  | sym alg v =>
    exfalso
    simp only [AnyKey.kind, KeyKind.formats, List.mem_cons, List.not_mem_nil, or_false] at hf
    simp only [registerF, registerSymF] at h
    split at h
    · cases h
    · rcases hf with rfl | rfl
      · simp [kfRAW] at h
      · simp [kfTransparent, kfRAW] at h
  | secret kind v =>
    simp [registerF, registerSecret] at h

/-- under the laws, the standard library does not panic on a valid key. -/
theorem valid_no_stdlib_panic (C : Crypto) (key : AnyKey C.toCryptoOps) (hv : Valid key) (m : String) :
    ¬ StdlibPanicOn C.toCryptoOps key m := by
  cases key with
  | rsaPriv k =>
    intro h
    rcases h with h | h
    · exact C.marshalPKCS1Priv_noPanic k m (C.rsaValidate_primes k hv) h
    · exact C.marshalPKCS8_rsa_noPanic k m h
  | ecPriv k => exact fun h => C.marshalPKCS8_ec_noPanic k m hv h
  | rsaPub k => exact fun h => h
  | ecPub k => exact fun h => h
  | sym a v => exact fun h => h
  | secret a v => exact fun h => h

/-- ACCEPTANCE: a valid key that is not refused for one of the reasons of `AcceptableF` is registered, in
    every format of its kind. -/
theorem registerF_accepts (C : Crypto) (f : Nat) (ver : Nat × Nat) (key : AnyKey C.toCryptoOps)
    (hf : f ∈ key.kind.formats) (hv : Valid key) (ha : AcceptableF f key) :
    ∃ o, registerF C.toCryptoOps f ver key = .ok o := by
  cases key with
  | rsaPriv k =>
    simp only [AnyKey.kind, KeyKind.formats, List.mem_cons, List.not_mem_nil, or_false] at hf
    obtain ⟨hlen, h2⟩ := ha
    have h1 : ¬ bitLen (C.rsaPrivParts k).n > maxInt32 := by omega
    rcases hf with rfl | rfl | rfl
    · obtain ⟨bs, hbs⟩ := C.marshalPKCS1Priv_ok k hv
      simp [registerF, registerRsaPrivF, h1, hbs, kfPKCS1]
    · obtain ⟨bs, hbs⟩ := C.marshalPKCS8_rsa_ok k hv
      simp [registerF, registerRsaPrivF, h1, hbs, kfPKCS1, kfPKCS8]
    · have hl := h2 rfl
      cases hpr : (C.rsaPrivParts k).primes with
      | nil => rw [hpr] at hl; simp at hl
      | cons a t =>
        cases t with
        | nil => rw [hpr] at hl; simp at hl
        | cons b t' =>
          cases t' with
          | nil => simp [registerF, registerRsaPrivF, h1, hpr, kfPKCS1, kfPKCS8, kfTransparent]
          | cons c t'' => rw [hpr] at hl; simp at hl
  | rsaPub k =>
    simp only [AnyKey.kind, KeyKind.formats, List.mem_cons, List.not_mem_nil, or_false] at hf
    have h1 : ¬ bitLen (C.rsaPubN k) > maxInt32 := by
      have : bitLen (C.rsaPubN k) ≤ maxInt32 := ha
      omega
    rcases hf with rfl | rfl | rfl
    · simp [registerF, registerRsaPubF, h1, kfPKCS1]
    · obtain ⟨bs, hbs⟩ := C.marshalPKIX_rsa_ok k
      simp [registerF, registerRsaPubF, h1, hbs, kfPKCS1, kfX509]
    · simp [registerF, registerRsaPubF, h1, kfPKCS1, kfX509, kfTransparent]
  | ecPriv k =>
    simp only [AnyKey.kind, KeyKind.formats, List.mem_cons, List.not_mem_nil, or_false] at hf
    have hc : curveSupported (C.ecPrivCurve k) = true := ha
    rcases hf with rfl | rfl | rfl
    · obtain ⟨bs, hbs⟩ := C.marshalSEC1_ok k hc hv
      simp [registerF, registerEcPrivF, hc, hbs, kfSEC1]
    · obtain ⟨bs, hbs⟩ := C.marshalPKCS8_ec_ok k hc hv
      simp [registerF, registerEcPrivF, hc, hbs, kfSEC1, kfPKCS8]
    · cases hver : verGE13 ver
      · simp [registerF, registerEcPrivF, hc, hver, kfSEC1, kfPKCS8, kfTransparent]
      · simp [registerF, registerEcPrivF, hc, hver, kfSEC1, kfPKCS8, kfTransparent]
  | ecPub k =>
    simp only [AnyKey.kind, KeyKind.formats, List.mem_cons, List.not_mem_nil, or_false] at hf
    have hc : curveSupported (C.ecPubCurve k) = true := ha
    rcases hf with rfl | rfl
    · obtain ⟨bs, hbs⟩ := C.marshalPKIX_ec_ok k hc
      simp [registerF, registerEcPubF, hc, hbs, kfX509]
    · cases hver : verGE13 ver
      · simp [registerF, registerEcPubF, hc, hver, kfX509, kfTransparent]
      · simp [registerF, registerEcPubF, hc, hver, kfX509, kfTransparent]
  | sym alg v =>
    simp only [AnyKey.kind, KeyKind.formats, List.mem_cons, List.not_mem_nil, or_false] at hf
    have h1 : ¬ v.length * 8 > maxInt32 := by
      have : v.length * 8 ≤ maxInt32 := ha
      omega
    rcases hf with rfl | rfl
    · simp [registerF, registerSymF, h1, kfRAW]
    · simp [registerF, registerSymF, h1, kfRAW, kfTransparent]
  | secret kind v => exact ⟨_, rfl⟩

end Kmip.Key
