/-
  C01 — stage 3 (continued): KeyBlock, with KeyValue (wrapped byte string or plain structure) and
  KeyMaterial (selected by the key format).
-/
import KmipModel.Lemmas.PlanRoundtrip11
namespace Kmip

theorem decKeyValue_zero (S : Schema) (fmt : Nat) (c : Cur) (ver : Option Ver) :
    decKeyValue S 0 fmt c ver = .err .other := by rw [decKeyValue]

theorem decKeyValue_succ (S : Schema) (n fmt : Nat) (c : Cur) (ver : Option Ver) :
    decKeyValue S (n + 1) fmt c ver =
      (if c.ty = 8 then do
        let (b, c') ← c.byteString T.keyValue
        pure (.struct [.ptr (some (.bytes (some b))), .ptr none], c', ver)
      else if c.ty = 1 then do
        let it ← c.expect 1 T.keyValue
        let c0 ← Cur.start it.val
        match keyMaterialIndex fmt with
        | none => .err .other
        | some i => do
          let (x, c1, v1) ← decK S n ((customFieldKinds S Cust.keyMaterial).getD i .unsupported) T.keyMaterial c0 ver
          let (attrs, _, v2) ← decK S n (.slice (.struct (attributeId S))) T.attr c1 v1
          let c' ← c.next
          pure (.struct [.ptr none, .ptr (some (.struct [.struct ((List.range
            (customFieldKinds S Cust.keyMaterial).length).map fun j => if j = i then x else Val.ptr none),
            attrs]))], c', v2)
      else .err .other) := by
  rw [decKeyValue.eq_def]; rfl

theorem customOk_keyBlock (S : Schema) (v : Val) :
    customOk S Cust.keyBlock v =
      (match v.field 0, v.field 2 with
        | .int fmt, .ptr none => true
        | .int fmt, .ptr (some kv) =>
          (match kv.field 0, kv.field 1 with
           | .ptr (some _), .ptr none => true
           | .ptr none, .ptr (some pkv) =>
             (match pkv.field 0 with
              | .struct kms =>
                (keyMaterialIndex fmt.toNat).isSome && keyMaterialIndex fmt.toNat == firstNonNil kms
              | _ => false)
           | _, _ => false)
        | _, _ => false) := rfl

theorem decCustom_keyBlock (S : Schema) (n id tag : Nat) (c : Cur) (ver : Option Ver) :
    decCustom S (n + 1) Cust.keyBlock id tag c ver = (do
      let it ← c.expect 1 tag
      let c0 ← Cur.start it.val
      let (v, ver') ← (do
          let (fmt, c1, v1) ← decK S n ((S.structDef id).fields.getD 0 fieldDflt).kind T.keyFormatType c0 ver
          let (comp, c2, v2) ← decOpt S n ((S.structDef id).fields.getD 1 fieldDflt).kind T.keyCompressionType c1 v1
          let (kv, c3, v3) ←
            if c2.tag = T.keyValue then do
              let (x, st) ← decKeyValue S n fmt.asInt.toNat c2 v2
              (pure (Val.ptr (some x), st) : Res (Val × DecSt))
            else .ok (.ptr none, c2, v2)
          let (alg, c4, v4) ← decOpt S n ((S.structDef id).fields.getD 3 fieldDflt).kind T.cryptographicAlgorithm c3 v3
          let (len, c5, v5) ← decOpt S n ((S.structDef id).fields.getD 4 fieldDflt).kind T.cryptographicLength c4 v4
          let (kwd, _, v6) ← decK S n ((S.structDef id).fields.getD 5 fieldDflt).kind T.keyWrappingData c5 v5
          pure (Val.struct [fmt, comp, kv, alg, len, kwd], v6) : Res (Val × Option Ver))
      let c' ← c.next
      pure (v, c', ver')) := by
  rw [decCustom.eq_def]; rfl


theorem Res.bind_struct_inv {r : Res EncSt} {tag : Nat} {a : List Item} {w : Option Ver}
    (h : (r >>= fun p => (pure ([Item.struct tag p.1], p.2) : Res EncSt)) = .ok (a, w)) :
    ∃ inner, r = .ok (inner, w) ∧ a = [Item.struct tag inner] := by
  cases r with
  | ok p =>
    obtain ⟨inner, w1⟩ := p
    simp only [Res.ok_bind, Res.pure_eq, Res.ok.injEq, Prod.mk.injEq] at h
    exact ⟨inner, by rw [h.2], h.1.symm⟩
  | err e => simp only [Res.err_bind] at h; contradiction
  | panic m => simp only [Res.panic_bind] at h; contradiction

theorem byteString_ok_ty {c : Cur} {t : Nat} {r : Bytes × Cur} (h : c.byteString t = .ok r) : c.ty = 8 := by
  unfold Cur.byteString at h
  cases he : c.expect 8 t with
  | ok it =>
    unfold Cur.expect at he
    unfold Cur.ty
    split at he
    · contradiction
    · split at he
      · contradiction
      · split at he
        · contradiction
        · rename_i h2; exact Decidable.not_not.1 h2
  | err e => simp only [he, Res.err_bind] at h; contradiction
  | panic m => simp only [he, Res.panic_bind] at h; contradiction

/-- the Plain member of a KeyValue: KeyMaterial selected by the key format, then the attributes. -/
theorem kv_plain_dec (S : Schema) (n : Nat) (hK : ∀ m, m < n → PK S m) (pkv km : Nat) (g0 g1 : Field)
    (hec : (S.structDef pkv).encCustom = false) (hdc : (S.structDef pkv).decCustom = false)
    (hFp : (S.structDef pkv).fields = [g0, g1])
    (h0 : g0.plainWith T.keyMaterial = true) (h0k : g0.kind = .struct km)
    (hkme : (S.structDef km).encCustom = true) (hkmc : (S.structDef km).custom = Cust.keyMaterial)
    (hkmu : S.unionKindsOK (customFieldKinds S Cust.keyMaterial) = true)
    (h1 : g1.plainWith T.attr = true) (h1k : g1.kind = .slice (.struct (attributeId S)))
    (h1d : S.decodable (.struct (attributeId S)) = true)
    (y : Val) (ver : Option Ver) (y' : Val) (w : Option Ver) (a : List Item)
    (hn : normK S n (.struct pkv) T.keyValue y ver = some (y', w))
    (he : encK S n (.struct pkv) T.keyValue y ver = .ok (a, w)) :
    ∃ kms' attrs' i item, y' = .struct [.struct kms', attrs'] ∧ firstNonNil kms' = some i
      ∧ a = [item] ∧ item.tag = T.keyValue
      ∧ (item.InRange → ∀ (f : Nat) (rs : List RawItem) (fmt : Nat), keyMaterialIndex fmt = some i →
          y.depth ≤ f →
          decKeyValue S f fmt (Cur.of (item.raw :: rs)) ver
            = .ok (.struct [.ptr none, .ptr (some y')], Cur.of rs, w)) := by
  obtain ⟨n1, rfl⟩ := normK_succ_of_some hn
  rw [normK_struct] at hn
  split at hn
  · rename_i ys
    rw [encK_struct] at he
    simp only [hec, hdc, Bool.false_eq_true, if_false, Bool.not_false, Bool.true_or, if_true, hFp] at hn he
    cases hx : normFields S n1 [g0, g1] ys ver with
    | none => simp only [hx] at hn; contradiction
    | some p =>
    obtain ⟨ys', w0⟩ := p
    simp only [hx] at hn
    obtain ⟨rfl, rfl⟩ := pair_eq (Option.some.inj hn)
    obtain ⟨inner, hei, rfl⟩ := Res.bind_struct_inv he
    -- KeyMaterial
    obtain ⟨n2, rfl⟩ := normFields_succ_of_some hx
    cases ys with
    | nil => rw [normFields_cons_nil] at hx; contradiction
    | cons kmv ys1 =>
    rw [normFields_plain_cons S n2 g0 _ h0, h0k] at hx
    rw [encFields_plain_cons S n2 g0 _ h0, h0k] at hei
    cases hn0 : normK S n2 (.struct km) T.keyMaterial kmv ver with
    | none => simp only [hn0] at hx; contradiction
    | some p =>
    obtain ⟨kmv', w1⟩ := p
    simp only [hn0] at hx
    obtain ⟨kms, kms', i, k', y0', kmI, rfl, rfl, hki, hkms', hfn, hekm, htkm, hlkm, hdkm⟩ :=
      union_struct S n2 (fun m hm => hK m (by omega)) km _ (Or.inr (Or.inr rfl)) hkme hkmc
        T.keyMaterial kmv ver kmv' w1 hn0
    simp only [hekm, Res.ok_bind] at hei
    cases hx1 : normFields S n2 [g1] ys1 w1 with
    | none => simp only [hx1] at hx; contradiction
    | some q =>
    obtain ⟨r1, w2⟩ := q
    simp only [hx1] at hx
    obtain ⟨rfl, rfl⟩ := pair_eq (Option.some.inj hx)
    cases hb : encFields S n2 [g1] ys1 w1 with
    | ok q =>
      obtain ⟨b, w3⟩ := q
      simp only [hb, Res.ok_bind, Res.pure_eq, Res.ok.injEq, Prod.mk.injEq] at hei
      obtain ⟨rfl, rfl⟩ := hei
      -- Attributes
      obtain ⟨n3, rfl⟩ := normFields_succ_of_some hx1
      obtain ⟨av, av', ys2, r2, aI, b2, w4, rfl, rfl, rfl, hrt2, hta, _, hda⟩ :=
        head_req S n3 (hK n3 (by omega)) g1 _ h1 _ ys1 w1 r1 w3 b ⟨hx1, hb⟩
      obtain ⟨rfl, rfl, rfl, rfl⟩ := hrt2.nil
      refine ⟨kms', av', i, .struct T.keyValue (kmI ++ (aI ++ [])), rfl, hfn, rfl, rfl, ?_⟩
      intro hr f rs fmt hfmt hf
      rw [Item.InRange] at hr
      obtain ⟨_, _, _, hin⟩ := hr
      have hi0 := (Item.allInRange_append kmI (aI ++ [])).1 hin
      have hi1 := (Item.allInRange_append aI []).1 hi0.2
      simp only [Val.depth, Val.depthList] at hf
      have hkd := Val.depthList_pos kms
      have had := Val.depth_pos av
      obtain ⟨f1, rfl, hf1⟩ := fuel_succ (by omega : 5 + 1 ≤ f)
      rw [decKeyValue_succ]
      have hty : (Cur.of ((Item.struct T.keyValue (kmI ++ (aI ++ []))).raw :: rs)).ty = 1 := rfl
      rw [if_neg (by rw [hty]; decide), if_pos hty]
      have hexp : (Cur.of ((Item.struct T.keyValue (kmI ++ (aI ++ []))).raw :: rs)).expect 1 T.keyValue
          = .ok (Item.struct T.keyValue _).raw := Cur.expect_of (.struct T.keyValue _) rs
      have hstart : Cur.start (Item.struct T.keyValue (kmI ++ (aI ++ []))).raw.val
          = .ok (Cur.of ((kmI ++ (aI ++ [])).map Item.raw)) := Cur.start_encList _ hin
      have hnext : (Cur.of ((Item.struct T.keyValue (kmI ++ (aI ++ []))).raw :: rs)).next
          = .ok (Cur.of rs) := Cur.next_of _ rs
      simp only [hexp, Res.ok_bind, hstart, hfmt]
      have hl : (kmI ++ (aI ++ [])).map Item.raw = kmI.map Item.raw ++ (aI.map Item.raw ++ []) := by simp
      have hgetD : (customFieldKinds S Cust.keyMaterial).getD i .unsupported = .ptr k' := by
        rw [List.getD_eq_getElem?_getD, hki]; rfl
      rw [hl, hgetD, hdkm (unionKinds_decodable hkmu hki) hi0.1 f1 _ (by omega)]
      simp only [Res.ok_bind]
      rw [h1k] at hda
      rw [hda (decodable_slice_of rfl h1d) hi1.1 f1 [] (by omega) (Or.inr (by decide))]
      simp only [Res.ok_bind, hnext, Res.pure_eq]
      rw [hkms']
    | err e => simp only [hb, Res.err_bind] at hei; contradiction
    | panic m => simp only [hb, Res.panic_bind] at hei; contradiction
  · contradiction

end Kmip
