/-
  C01 — stage 3: the hand-written codecs, one at a time.
  Part 1: structs with a hand-written encoder (UnknownPayload, RequestBatchItem, ResponseBatchItem,
  union-like structs).
-/
import KmipModel.Lemmas.PlanRoundtrip4
namespace Kmip

/-- everything the induction provides at one level. -/
structure PAll (S : Schema) (n : Nat) : Prop where
  k : PK S n
  slice : PSlice S n
  fe : PFe S n
  fd : PFd S n
  cust : PCust S n
  custDec : PCustDec S n

/-! ## Unfolding lemmas of the hand-written encoders -/

theorem normCustom_zero (S : Schema) (code tag : Nat) (v : Val) (ver : Option Ver) :
    normCustom S 0 code tag v ver = none := by rw [normCustom]

theorem encCustom_zero (S : Schema) (code tag : Nat) (v : Val) (ver : Option Ver) :
    encCustom S 0 code tag v ver = .err .other := by rw [encCustom]

theorem decCustom_zero (S : Schema) (code id tag : Nat) (c : Cur) (ver : Option Ver) :
    decCustom S 0 code id tag c ver = .err .other := by rw [decCustom]

theorem normCustom_unknown (S : Schema) (n tag : Nat) (v : Val) (ver : Option Ver) :
    normCustom S (n + 1) Cust.unknownPayload tag v ver =
      (match v with
       | .struct [.anyStruct its] => some (.struct [.anyStruct its], ver)
       | _ => none) := by
  rw [normCustom.eq_def]; rfl

theorem encCustom_unknown (S : Schema) (n tag : Nat) (v : Val) (ver : Option Ver) :
    encCustom S (n + 1) Cust.unknownPayload tag v ver =
      (match v.field 0 with
       | .anyStruct its => .ok ([.struct tag its], ver)
       | _ => .err .other) := by
  rw [encCustom.eq_def]; rfl

theorem decCustom_unknown (S : Schema) (n id tag : Nat) (c : Cur) (ver : Option Ver) :
    decCustom S (n + 1) Cust.unknownPayload id tag c ver = (do
      let (its, c') ← c.struct tag (fun inner => decodeFields n inner)
      pure (.struct [.anyStruct its], c', ver)) := by
  rw [decCustom.eq_def]; rfl


/-! ## UnknownPayload: an opaque structure, kept as generic TTLV -/

theorem cust_unknown (S : Schema) (n id tag : Nat) (v : Val) (ver : Option Ver) (v' : Val)
    (ver' : Option Ver) (dc : Bool)
    (h : normCustom S n Cust.unknownPayload tag v ver = some (v', ver')) :
    CustConcl S n Cust.unknownPayload id tag v ver v' ver' dc := by
  cases n with
  | zero => rw [normCustom_zero] at h; contradiction
  | succ n =>
    rw [normCustom_unknown] at h
    split at h
    · rename_i its
      obtain ⟨rfl, rfl⟩ := pair_eq (Option.some.inj h)
      refine ⟨[.struct tag its], _, _, rfl, rfl, ?_, ?_, ?_, ?_, rfl, ?_⟩
      · rw [encCustom_unknown]; rfl
      · rw [encCustom_unknown]; rfl
      · rw [normCustom_unknown]
      · intro x hx; rw [List.mem_singleton.1 hx]; rfl
      · intro _ hr fd rs hfd
        have hri := (Item.allInRange_singleton _).1 hr
        rw [Item.InRange] at hri
        simp only [Val.depth, Val.depthList] at hfd
        have hsz : Item.sizeList its + 2 ≤ fd := by
          have : Item.sizeList its + 2 ≤ max (Item.sizeList its + 2) 2 := Nat.le_max_left _ _
          omega
        obtain ⟨f, rfl, hf⟩ := fuel_succ (by omega : (Item.sizeList its + 1) + 1 ≤ fd)
        rw [decCustom_unknown]
        have h1 := decodeFields_enc_aux its hri.2.2.2 f (by omega)
        have h2 := Cur.struct_raw tag its rs hri.2.2.2 (fun inner => decodeFields f inner) its h1
        simp only [List.map_cons, List.map_nil, List.cons_append, List.nil_append, Cur.of, h2,
          Res.ok_bind, Res.pure_eq]
    · contradiction


/-! ## Union-like structs (CredentialValue, KeyValue, KeyMaterial): exactly one member is set -/

theorem normSameTag_zero (S : Schema) (ks : List Kind) (tag : Nat) (xs : List Val) (ver : Option Ver) :
    normSameTag S 0 ks tag xs ver = none := by rw [normSameTag]

theorem normSameTag_nil (S : Schema) (n tag : Nat) (xs : List Val) (ver : Option Ver) :
    normSameTag S n [] tag xs ver = none := by
  cases n <;> simp [normSameTag]

theorem normSameTag_cons_nil (S : Schema) (n tag : Nat) (k : Kind) (ks : List Kind) (ver : Option Ver) :
    normSameTag S n (k :: ks) tag [] ver = none := by
  cases n <;> simp [normSameTag]

theorem normSameTag_cons (S : Schema) (n tag : Nat) (k : Kind) (ks : List Kind) (x : Val) (xs : List Val)
    (ver : Option Ver) :
    normSameTag S (n + 1) (k :: ks) tag (x :: xs) ver =
      (match k with
      | .ptr k' =>
        (match x with
         | .ptr none =>
           (match normSameTag S n ks tag xs ver with
            | some (xs', ver') => some (.ptr none :: xs', ver')
            | none => none)
         | .ptr (some y) =>
           if nilRest n ks xs then
             (match normK S n (.ptr k') tag (.ptr (some y)) ver with
              | some (x', ver') => some (x' :: xs, ver')
              | none => none)
           else none
         | _ => none)
      | _ => none) := by
  rw [normSameTag.eq_def]; rfl

theorem encSameTag_nil (S : Schema) (n tag : Nat) (xs : List Val) (ver : Option Ver) :
    encSameTag S (n + 1) [] tag xs ver = .ok ([], ver) := by simp [encSameTag]

theorem encSameTag_cons (S : Schema) (n tag : Nat) (k : Kind) (ks : List Kind) (x : Val) (xs : List Val)
    (ver : Option Ver) :
    encSameTag S (n + 1) (k :: ks) tag (x :: xs) ver = (do
      let (a, ver1) ← encK S n k tag x ver
      let (b, ver2) ← encSameTag S n ks tag xs ver1
      pure (a ++ b, ver2)) := by
  rw [encSameTag.eq_def]

theorem nilRest_spec (S : Schema) (tag : Nat) : (n : Nat) → (ks : List Kind) → (xs : List Val) →
    nilRest n ks xs = true →
    xs = List.replicate ks.length (Val.ptr none) ∧ ∀ ver, encSameTag S n ks tag xs ver = .ok ([], ver)
  | 0, ks, xs, h => by simp [nilRest] at h
  | n + 1, [], [], _ => ⟨rfl, fun ver => encSameTag_nil S n tag [] ver⟩
  | n + 1, [], x :: xs, h => by simp [nilRest] at h
  | n + 1, k :: ks, [], h => by cases k <;> simp [nilRest] at h
  | n + 1, k :: ks, x :: xs, h => by
    cases k <;> try (simp [nilRest] at h; done)
    cases x <;> try (simp [nilRest] at h; done)
    rename_i k' o
    cases o with
    | some y => simp [nilRest] at h
    | none =>
      simp only [nilRest] at h
      obtain ⟨h1, h2⟩ := nilRest_spec S tag n ks xs h
      refine ⟨by rw [List.length_cons, List.replicate_succ, ← h1], fun ver => ?_⟩
      cases n with
      | zero => simp [nilRest] at h
      | succ n =>
        rw [encSameTag_cons, encK_ptr_none]
        simp only [Res.ok_bind, h2, Res.pure_eq, List.append_nil]

theorem range_map_shift {α : Type} (m i : Nat) (a b : α) :
    (List.range (m + 1)).map (fun j => if j = i + 1 then a else b)
      = b :: (List.range m).map (fun j => if j = i then a else b) := by
  rw [List.range_succ_eq_map, List.map_cons, List.map_map]
  simp [Function.comp_def]

theorem range_map_zero {α : Type} (m : Nat) (a b : α) :
    (List.range (m + 1)).map (fun j => if j = 0 then a else b) = a :: List.replicate m b := by
  rw [List.range_succ_eq_map, List.map_cons, List.map_map]
  simp [Function.comp_def, List.map_const']

theorem depthList_cons_ge (x : Val) (xs : List Val) :
    x.depth ≤ Val.depthList (x :: xs) ∧ Val.depthList xs ≤ Val.depthList (x :: xs) := by
  simp only [Val.depthList]; omega

/-- the one member that is set: where it is, that `decK` (as the parent's decoder calls it) reads it back. -/
theorem psame (S : Schema) : ∀ (n : Nat), (∀ m, m < n → PK S m) →
    ∀ (ks : List Kind) (tag : Nat) (xs : List Val) (ver : Option Ver) (xs' : List Val) (ver' : Option Ver),
    normSameTag S n ks tag xs ver = some (xs', ver') →
    ∃ (i : Nat) (k' : Kind) (y' : Val) (items : List Item),
      ks[i]? = some (.ptr k') ∧ xs.length = ks.length
      ∧ xs' = (List.range ks.length).map (fun j => if j = i then Val.ptr (some y') else Val.ptr none)
      ∧ firstNonNil xs' = some i
      ∧ encSameTag S n ks tag xs ver = .ok (items, ver')
      ∧ encSameTag S n ks tag xs' ver = .ok (items, ver')
      ∧ normSameTag S n ks tag xs' ver = some (xs', ver')
      ∧ (∀ it ∈ items, it.tag = tag) ∧ items.length = 1
      ∧ (S.decodable (.ptr k') = true → Item.AllInRange items → ∀ (fd : Nat) (rs : List RawItem),
          Val.depthList xs ≤ fd →
          decK S fd (.ptr k') tag (Cur.of (items.map Item.raw ++ rs)) ver
            = .ok (.ptr (some y'), Cur.of rs, ver')) := by
  intro n
  induction n with
  | zero => intro _ ks tag xs ver xs' ver' h; rw [normSameTag_zero] at h; contradiction
  | succ n ih =>
    intro hK ks tag xs ver xs' ver' h
    cases ks with
    | nil => rw [normSameTag_nil] at h; contradiction
    | cons k ks =>
    cases xs with
    | nil => rw [normSameTag_cons_nil] at h; contradiction
    | cons x xs =>
    rw [normSameTag_cons] at h
    split at h
    · rename_i k0
      split at h
      · -- nil member: the set member is further on
        cases hr : normSameTag S n ks tag xs ver with
        | none => simp only [hr] at h; contradiction
        | some p =>
          obtain ⟨xs1, w⟩ := p
          simp only [hr] at h
          obtain ⟨rfl, rfl⟩ := pair_eq (Option.some.inj h)
          obtain ⟨i, k', y', items, hki, hlen, hxs1, hfn, he, he', hn', ht, hl, hd⟩ :=
            ih (fun m hm => hK m (by omega)) ks tag xs ver xs1 w hr
          obtain ⟨n', rfl⟩ : ∃ n', n = n' + 1 := by
            cases n with
            | zero => rw [normSameTag_zero] at hr; contradiction
            | succ n' => exact ⟨n', rfl⟩
          refine ⟨i + 1, k', y', items, by simpa using hki, by simp [hlen], ?_, ?_, ?_, ?_, ?_, ht, hl, ?_⟩
          · rw [List.length_cons, range_map_shift, ← hxs1]
          · simp [firstNonNil, hfn]
          · rw [encSameTag_cons, encK_ptr_none]
            simp only [Res.ok_bind, he, Res.pure_eq, List.nil_append]
          · rw [encSameTag_cons, encK_ptr_none]
            simp only [Res.ok_bind, he', Res.pure_eq, List.nil_append]
          · rw [normSameTag_cons]; simp only [hn']
          · intro hdec hr' fd rs hfd
            exact hd hdec hr' fd rs (by have := (depthList_cons_ge (.ptr none) xs).2; omega)
      · -- the set member
        rename_i y
        obtain ⟨hnil, h⟩ := ite_eq_some h
        cases hx : normK S n (.ptr k0) tag (.ptr (some y)) ver with
        | none => simp only [hx] at h; contradiction
        | some p =>
          obtain ⟨x', w⟩ := p
          simp only [hx] at h
          obtain ⟨rfl, rfl⟩ := pair_eq (Option.some.inj h)
          obtain ⟨items, he, he', hn', ht, hl, _, hd⟩ := hK n (by omega) (.ptr k0) tag _ ver x' w hx
          obtain ⟨hrep, henil⟩ := nilRest_spec S tag n ks xs hnil
          have hone : emitsOne (.ptr k0) (.ptr (some y)) = true := by simp [emitsOne]
          -- the normalised member is a non-nil pointer
          obtain ⟨y', rfl⟩ : ∃ y', x' = .ptr (some y') := by
            cases n with
            | zero => rw [normK_zero] at hx; contradiction
            | succ n' =>
              rw [normK_ptr] at hx
              simp only at hx
              obtain ⟨_, hx⟩ := ite_eq_some hx
              cases hy : normK S n' k0 tag y ver with
              | none => simp only [hy] at hx; contradiction
              | some q =>
                obtain ⟨y', w'⟩ := q
                simp only [hy] at hx
                obtain ⟨rfl, -⟩ := pair_eq (Option.some.inj hx)
                exact ⟨y', rfl⟩
          have hlenx : xs.length = ks.length := by rw [hrep, List.length_replicate]
          refine ⟨0, k0, y', items, rfl, by simp [hlenx], ?_, ?_, ?_, ?_, ?_, ht, hl hone, ?_⟩
          · rw [List.length_cons, range_map_zero, ← hrep]
          · simp [firstNonNil]
          · rw [encSameTag_cons]
            simp only [he, Res.ok_bind, henil, Res.pure_eq, List.append_nil]
          · rw [encSameTag_cons]
            simp only [he', Res.ok_bind, henil, Res.pure_eq, List.append_nil]
          · rw [normSameTag_cons]; simp only [hnil, if_true, hn']
          · intro hdec hr' fd rs hfd
            exact hd hdec hr' fd rs (by have := (depthList_cons_ge (.ptr (some y)) xs).1; omega) (Or.inl hone)
      · contradiction
    · contradiction


def isUnionCode (code : Nat) : Prop :=
  code = Cust.credentialValue ∨ code = Cust.keyValue ∨ code = Cust.keyMaterial

theorem normCustom_union (S : Schema) (n code tag : Nat) (hc : isUnionCode code) (v : Val) (ver : Option Ver) :
    normCustom S (n + 1) code tag v ver =
      (match v with
        | .struct fs =>
          (match normSameTag S n (customFieldKinds S code) tag fs ver with
           | some (fs', ver') => some (.struct fs', ver')
           | none => none)
        | _ => none) := by
  rcases hc with rfl | rfl | rfl <;> (rw [normCustom.eq_def]; rfl)

theorem encCustom_union (S : Schema) (n code tag : Nat) (hc : isUnionCode code) (v : Val) (ver : Option Ver) :
    encCustom S (n + 1) code tag v ver =
      (match v with
        | .struct fs => encSameTag S n (customFieldKinds S code) tag fs ver
        | _ => .err .other) := by
  rcases hc with rfl | rfl | rfl <;> (rw [encCustom.eq_def]; rfl)

theorem cust_union (S : Schema) (n : Nat) (hK : ∀ m, m < n → PK S m) (code id tag : Nat)
    (hc : isUnionCode code) (v : Val) (ver : Option Ver) (v' : Val) (ver' : Option Ver)
    (h : normCustom S n code tag v ver = some (v', ver')) :
    CustConcl S n code id tag v ver v' ver' false := by
  cases n with
  | zero => rw [normCustom_zero] at h; contradiction
  | succ n =>
    rw [normCustom_union S n code tag hc] at h
    split at h
    · rename_i fs
      cases hx : normSameTag S n (customFieldKinds S code) tag fs ver with
      | none => simp only [hx] at h; contradiction
      | some p =>
        obtain ⟨fs', w⟩ := p
        simp only [hx] at h
        obtain ⟨rfl, rfl⟩ := pair_eq (Option.some.inj h)
        obtain ⟨i, k', y', items, _, _, _, _, he, he', hn', ht, hl, _⟩ :=
          psame S n (fun m hm => hK m (by omega)) _ tag fs ver fs' w hx
        refine ⟨items, fs, fs', rfl, rfl, ?_, ?_, ?_, ht, hl, ?_⟩
        · rw [encCustom_union S n code tag hc]; exact he
        · rw [encCustom_union S n code tag hc]; exact he'
        · rw [normCustom_union S n code tag hc]; simp only [hn']
        · intro hf; contradiction
    · contradiction


/-! ## Decoder steps used by the hand-written codecs -/

theorem decOpt_succ (S : Schema) (n : Nat) (k : Kind) (tag : Nat) (c : Cur) (w : Option Ver) :
    decOpt S (n + 1) k tag c w =
      (if c.tag = tag then decK S n k tag c w else .ok (zeroOf S n k, c, w)) := by rw [decOpt]

/-- `d.Opt` on a pointer field is the pointer decoder itself. -/
theorem decOpt_ptr_eq (S : Schema) (f : Nat) (k' : Kind) (tag : Nat) (c : Cur) (w : Option Ver) :
    decOpt S (f + 2) (.ptr k') tag c w = decK S (f + 1) (.ptr k') tag c w := by
  rw [decOpt_succ]
  by_cases h : c.tag = tag
  · rw [if_pos h]
  · rw [if_neg h]
    simp only [decK, ne_eq, h, not_false_eq_true, if_true]
    rw [zeroOf]

theorem decOpt_absent (S : Schema) (f : Nat) (k : Kind) (tag : Nat) (l : List RawItem) (w : Option Ver)
    (h : htag l ≠ tag) : decOpt S (f + 1) k tag (Cur.of l) w = .ok (zeroOf S f k, Cur.of l, w) := by
  rw [decOpt_succ, Cur.tag_of, if_neg h]

theorem decOpt_present (S : Schema) (f : Nat) (k : Kind) (tag : Nat) (l : List RawItem) (w : Option Ver)
    (h : htag l = tag) : decOpt S (f + 1) k tag (Cur.of l) w = decK S f k tag (Cur.of l) w := by
  rw [decOpt_succ, Cur.tag_of, if_pos h]

theorem decK_enum_raw (S : Schema) (f t tag n : Nat) (rs : List RawItem) (w : Option Ver) (hn : n < 2 ^ 32) :
    decK S (f + 1) (.enum t) tag (Cur.of ((Item.enum tag n).raw :: rs)) w = .ok (.int n, Cur.of rs, w) := by
  simp only [decK, Cur.of, Cur.enum_raw tag n rs hn, Res.ok_bind, Res.pure_eq]

theorem decK_text_raw (S : Schema) (f tag : Nat) (s : Bytes) (rs : List RawItem) (w : Option Ver) :
    decK S (f + 1) .text tag (Cur.of ((Item.text tag s).raw :: rs)) w = .ok (.text s, Cur.of rs, w) := by
  simp only [decK, Cur.of, Cur.textString_raw tag s rs, Res.ok_bind, Res.pure_eq]

theorem decK_bytes_raw (S : Schema) (f tag : Nat) (s : Bytes) (rs : List RawItem) (w : Option Ver) :
    decK S (f + 1) .bytes tag (Cur.of ((Item.bytes tag s).raw :: rs)) w
      = .ok (.bytes (some s), Cur.of rs, w) := by
  simp only [decK, Cur.of, Cur.byteString_raw tag s rs, Res.ok_bind, Res.pure_eq]

theorem decK_bool_raw (S : Schema) (f tag : Nat) (b : Bool) (rs : List RawItem) (w : Option Ver) :
    decK S (f + 1) .bool tag (Cur.of ((Item.bool tag b).raw :: rs)) w = .ok (.bool b, Cur.of rs, w) := by
  simp only [decK, Cur.of, Cur.bool_raw tag b rs, Res.ok_bind, Res.pure_eq]

theorem decK_i32_raw (S : Schema) (f tag : Nat) (x : Int) (rs : List RawItem) (w : Option Ver)
    (hx : inInt 32 x) :
    decK S (f + 1) .i32 tag (Cur.of ((Item.int tag x).raw :: rs)) w = .ok (.int x, Cur.of rs, w) := by
  simp only [decK, Cur.of, Cur.integer_raw tag x rs hx, Res.ok_bind, Res.pure_eq]

theorem isEnum_iff {k : Kind} (h : k.isEnum = true) : ∃ t, k = .enum t := by
  cases k <;> simp [Kind.isEnum] at h
  exact ⟨_, rfl⟩

/-! ## RequestBatchItem -/

theorem normCustom_request (S : Schema) (n tag : Nat) (v : Val) (ver : Option Ver) :
    normCustom S (n + 1) Cust.requestBatchItem tag v ver =
      (match v with
        | .struct [.int op, .bytes bid, .iface (some (d, x)), me] =>
          if isU32 op && d == S.payloadDyn op.toNat false then
            match normK S n .iface T.requestPayload (.iface (some (d, x))) ver with
            | none => none
            | some (pl', ver1) =>
              match normK S n (.ptr (.struct (msgExtId S))) T.messageExtension me ver1 with
              | none => none
              | some (me', ver2) => some (.struct [.int op, .bytes (normBid bid), pl', me'], ver2)
          else none
        | _ => none) := by
  rw [normCustom.eq_def]; rfl

/-- the items the batch-item encoders emit for an optional byte string. -/
def bidItems (tag : Nat) (v : Val) : List Item :=
  match v with
  | .bytes (some b) => if b.isEmpty then [] else [.bytes tag b]
  | _ => []

theorem encCustom_request (S : Schema) (n tag : Nat) (v : Val) (ver : Option Ver) :
    encCustom S (n + 1) Cust.requestBatchItem tag v ver = (do
        let (pl, ver1) ← encK S n .iface T.requestPayload (v.field 2) ver
        let (me, ver2) ← encK S n (.ptr (.struct (msgExtId S))) T.messageExtension (v.field 3) ver1
        pure ([.struct tag ([.enum T.operation (v.field 0).asInt.toNat]
          ++ bidItems T.uniqueBatchItemID (v.field 1) ++ pl ++ me)], ver2)) := by
  rw [encCustom.eq_def]; rfl

theorem decCustom_request (S : Schema) (n id tag : Nat) (c : Cur) (ver : Option Ver) :
    decCustom S (n + 1) Cust.requestBatchItem id tag c ver = (do
      let it ← c.expect 1 tag
      let c0 ← Cur.start it.val
      let (v, ver') ← (do
          let (op, c1, v1) ← decK S n ((S.structDef id).fields.getD 0 fieldDflt).kind T.operation c0 ver
          let (bid, c2, v2) ← decOpt S n .bytes T.uniqueBatchItemID c1 v1
          let (pl, c3, v3) ← decDyn S n (S.payloadDyn op.asInt.toNat false) T.requestPayload c2 v2
          let (me, _, v4) ← decOpt S n ((S.structDef id).fields.getD 3 fieldDflt).kind T.messageExtension c3 v3
          pure (Val.struct [op, bid, pl, me], v4) : Res (Val × Option Ver))
      let c' ← c.next
      pure (v, c', ver')) := by
  rw [decCustom.eq_def]; rfl


theorem bidItems_normBid (tag : Nat) (bid : Option Bytes) :
    bidItems tag (.bytes (normBid bid)) = bidItems tag (.bytes bid) := by
  cases bid with
  | none => rfl
  | some b =>
    simp only [normBid]
    by_cases hb : b.isEmpty = true
    · simp [hb, bidItems]
    · simp [hb, bidItems]

theorem normBid_idem (bid : Option Bytes) : normBid (normBid bid) = normBid bid := by
  cases bid with
  | none => rfl
  | some b =>
    simp only [normBid]
    by_cases hb : b.isEmpty = true
    · simp [hb, normBid]
    · simp [hb, normBid]

theorem bidItems_tags (tag : Nat) (v : Val) : ∀ it ∈ bidItems tag v, it.tag = tag := by
  intro it hit
  unfold bidItems at hit
  split at hit
  · split at hit
    · cases hit
    · rw [List.mem_singleton.1 hit]; rfl
  · cases hit

/-- `d.Opt(tag, &bytes)` on what the batch-item encoders emit for an optional byte string. -/
theorem decOpt_bid (S : Schema) (f tagB : Nat) (bid : Option Bytes) (rs : List RawItem) (w : Option Ver)
    (hne : htag rs ≠ tagB) :
    decOpt S (f + 2) .bytes tagB (Cur.of ((bidItems tagB (.bytes bid)).map Item.raw ++ rs)) w
      = .ok (.bytes (normBid bid), Cur.of rs, w) := by
  have hz : zeroOf S (f + 1) .bytes = .bytes none := by rw [zeroOf]
  cases bid with
  | none =>
    simp only [bidItems, List.map_nil, List.nil_append, normBid]
    rw [decOpt_absent S (f + 1) .bytes tagB rs w hne, hz]
  | some b =>
    by_cases hb : b.isEmpty = true
    · simp only [bidItems, hb, if_true, List.map_nil, List.nil_append, normBid]
      rw [decOpt_absent S (f + 1) .bytes tagB rs w hne, hz]
    · simp only [bidItems, hb, Bool.false_eq_true, if_false, List.map_cons, List.map_nil, List.cons_append,
        List.nil_append, normBid]
      rw [decOpt_present S (f + 1) .bytes tagB _ w rfl, decK_bytes_raw]


theorem Int.toNat_cast_of_u32 {x : Int} (h : isU32 x = true) : ((x.toNat : Nat) : Int) = x ∧ x.toNat < 2 ^ 32 := by
  have := (isU32_iff x).1 h
  constructor
  · exact Int.toNat_of_nonneg this.1
  · omega

theorem normK_iface_ok {S : Schema} {n tag d : Nat} {x : Val} {ver : Option Ver} {r : Val × Option Ver}
    (h : normK S (n + 1) .iface tag (.iface (some (d, x))) ver = some r) :
    dynValOk (S.dyn d).kind x = true := by
  rw [normK_iface] at h
  exact (ite_eq_some h).1

set_option maxHeartbeats 1000000 in
theorem cust_request (S : Schema) (hU : S.unambiguous = true) (n : Nat) (hK : ∀ m, m < n → PK S m)
    (id tag : Nat) (v : Val) (ver : Option Ver) (v' : Val) (ver' : Option Ver)
    (hs0 : ((S.structDef id).fields.getD 0 fieldDflt).kind.isEnum = true)
    (hs3 : ((S.structDef id).fields.getD 3 fieldDflt).kind = .ptr (.struct (msgExtId S)))
    (hsd : S.decodable (.ptr (.struct (msgExtId S))) = true)
    (h : normCustom S n Cust.requestBatchItem tag v ver = some (v', ver')) :
    CustConcl S n Cust.requestBatchItem id tag v ver v' ver' true := by
  cases n with
  | zero => rw [normCustom_zero] at h; contradiction
  | succ n1 =>
  rw [normCustom_request] at h
  split at h
  · rename_i op bid d x me
    obtain ⟨hc, h⟩ := ite_eq_some h
    simp only [Bool.and_eq_true, beq_iff_eq] at hc
    obtain ⟨hop, hd⟩ := hc
    have hdb : (d == S.payloadDyn op.toNat false) = true := beq_iff_eq.2 hd
    cases hpl : normK S n1 .iface T.requestPayload (.iface (some (d, x))) ver with
    | none => simp only [hpl] at h; contradiction
    | some p =>
    obtain ⟨pl', ver1⟩ := p
    simp only [hpl] at h
    cases hme : normK S n1 (.ptr (.struct (msgExtId S))) T.messageExtension me ver1 with
    | none => simp only [hme] at h; contradiction
    | some q =>
    obtain ⟨me', ver2⟩ := q
    simp only [hme] at h
    obtain ⟨rfl, rfl⟩ := pair_eq (Option.some.inj h)
    obtain ⟨n2, rfl⟩ : ∃ n2, n1 = n2 + 1 := by
      cases n1 with
      | zero => rw [normK_zero] at hpl; contradiction
      | succ n2 => exact ⟨n2, rfl⟩
    have hdok := normK_iface_ok hpl
    obtain ⟨x', plI, rfl, hple, hple', hpln, hplt, hpll, hpld⟩ :=
      pdyn_succ S n2 (hK n2 (by omega)) _ T.requestPayload x ver pl' ver1 hpl
    obtain ⟨meI, hmee, hmee', hmen, hmet, _, _, hmed⟩ :=
      hK (n2 + 1) (by omega) _ T.messageExtension me ver1 me' ver2 hme
    obtain ⟨hopc, hoplt⟩ := Int.toNat_cast_of_u32 hop
    refine ⟨[.struct tag ([Item.enum T.operation op.toNat] ++ bidItems T.uniqueBatchItemID (.bytes bid)
      ++ plI ++ meI)], _, _, rfl, rfl, ?_, ?_, ?_, ?_, rfl, ?_⟩
    · rw [encCustom_request]
      simp only [Val.field, List.getD_cons_succ, List.getD_cons_zero, hple, Res.ok_bind, hmee, Res.pure_eq,
        Val.asInt]
    · rw [encCustom_request]
      simp only [Val.field, List.getD_cons_succ, List.getD_cons_zero, hple', Res.ok_bind, hmee', Res.pure_eq,
        Val.asInt, bidItems_normBid]
    · rw [normCustom_request]
      simp only [hop, hdb, Bool.and_self, if_true, hpln, hmen, normBid_idem]
    · intro x hx; rw [List.mem_singleton.1 hx]; rfl
    · intro _ hr fd rs hfd
      have hri := (Item.allInRange_singleton _).1 hr
      rw [Item.InRange] at hri
      obtain ⟨_, _, _, hinner⟩ := hri
      have hin1 := (Item.allInRange_append _ meI).1 hinner
      have hin2 := (Item.allInRange_append _ plI).1 hin1.1
      simp only [Val.depth, Val.depthList] at hfd
      have hmd := Val.depth_pos me
      obtain ⟨f, rfl, hf⟩ := fuel_succ (by omega : 5 + 1 ≤ fd)
      obtain ⟨f1, rfl, hf1⟩ := fuel_succ (by omega : 4 + 1 ≤ f)
      obtain ⟨f2, rfl, hf2⟩ := fuel_succ (by omega : 3 + 1 ≤ f1)
      rw [decCustom_request]
      have hexp : (Cur.of ([Item.struct tag ([Item.enum T.operation op.toNat]
            ++ bidItems T.uniqueBatchItemID (.bytes bid) ++ plI ++ meI)].map Item.raw ++ rs)).expect 1 tag
          = .ok (Item.struct tag _).raw := Cur.expect_of (.struct tag _) rs
      have hstart : Cur.start (Item.struct tag ([Item.enum T.operation op.toNat]
            ++ bidItems T.uniqueBatchItemID (.bytes bid) ++ plI ++ meI)).raw.val
          = .ok (Cur.of (([Item.enum T.operation op.toNat] ++ bidItems T.uniqueBatchItemID (.bytes bid)
              ++ plI ++ meI).map Item.raw)) := Cur.start_encList _ hinner
      have hnext : (Cur.of ([Item.struct tag ([Item.enum T.operation op.toNat]
            ++ bidItems T.uniqueBatchItemID (.bytes bid) ++ plI ++ meI)].map Item.raw ++ rs)).next
          = .ok (Cur.of rs) := Cur.next_of _ rs
      simp only [hexp, Res.ok_bind, hstart]
      obtain ⟨t, ht⟩ := isEnum_iff hs0
      -- 1. Operation
      have hl : ([Item.enum T.operation op.toNat] ++ bidItems T.uniqueBatchItemID (.bytes bid)
            ++ plI ++ meI).map Item.raw
          = (Item.enum T.operation op.toNat).raw :: ((bidItems T.uniqueBatchItemID (.bytes bid)).map Item.raw
              ++ (plI.map Item.raw ++ meI.map Item.raw)) := by
        simp only [List.map_append, List.map_cons, List.map_nil, List.cons_append, List.nil_append,
          List.append_assoc]
      rw [hl, ht, decK_enum_raw S (f2 + 1) t T.operation op.toNat _ ver hoplt]
      simp only [Res.ok_bind]
      -- 2. UniqueBatchItemID (optional): the next item is the payload
      obtain ⟨plIt, rfl⟩ := list_len1 hpll
      have hplt' : plIt.tag = T.requestPayload := hplt plIt (List.mem_singleton.2 rfl)
      have hne : htag ([plIt].map Item.raw ++ meI.map Item.raw) ≠ T.uniqueBatchItemID := by
        rw [htag_single, hplt']; decide
      rw [decOpt_bid S f2 T.uniqueBatchItemID bid _ ver hne]
      simp only [Res.ok_bind, Val.asInt, hopc]
      -- 3. RequestPayload: the type registered for the operation
      rw [← hd]
      have hdyn := hpld (unamb_dynOK hU _ x hdok) hin2.2 (f2 + 1 + 1) (meI.map Item.raw) T.requestPayload
        (Or.inl rfl) (by omega)
      rw [hdyn]
      simp only [Res.ok_bind]
      -- 4. MessageExtension (optional pointer), then the end of the structure
      rw [hs3, decOpt_ptr_eq]
      have hmd' := hmed hsd hin1.2 (f2 + 1) [] (by omega) (Or.inr (by decide))
      rw [List.append_nil] at hmd'
      rw [hmd']
      simp only [Res.ok_bind, Res.pure_eq, hnext]
  · contradiction

end Kmip
