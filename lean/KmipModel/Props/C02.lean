/-
  C02 — decoders never panic, hang, over-read or mutate on arbitrary input (binary decoder).

  Two models of the binary reader, and what each is for:

  * `Model/Reader.lean` (abstract): `rawParse` folds `validate` and all slice expressions of the reader
    into total list functions; only the value conversions keep a panic branch (`goU32`, `goU64`, `goIndex`,
    `goBytesToBigInt`). Theorems 1–8 below are about THIS model: they prove that the LENGTH GUARDS precede
    the conversions (fixed-width getters, BigInteger) and that the typed layer never decodes into something
    it cannot decode (schema condition). About slicing they prove nothing — there is nothing left to guard.
  * `Model/ReaderGo.lean` (slice level): one definition per Go method over a model of Go slices with
    length AND capacity; every index / slice expression panics when out of range, a re-slice beyond `len`
    within `cap` silently hands out foreign bytes, `validate` is separate, Go's `int` has a width.
    Theorems 9–14 are about this model and connect it to the abstract one: no panic, no content from
    beyond `len` or beyond the declared extent of a structure, for `int` of 34 bits or more; a PANIC WITNESS
    for 32-bit `int` (a genuine defect of the library on GOARCH=386/arm until its repair e776a13; theorems
    11–13 are stated for that pre-repair variant, `wide = false`); the repaired `validate` — the current code,
    `wide = true` — on every platform (theorems 14, 14a, 14b).

  Termination: the recursive definitions carry a fuel argument. Theorems F1–F4 show that for EVERY input
  the fuel used by the model (`bs.length`, `bs.length + 2`) is never what ends a computation (no
  fuel-exhaustion answer, same answer for any larger fuel), so every modelled loop / recursion ends because
  the input ends. This is a statement about the MODEL's loops (generic decoder and reader); that the Go
  loops are these loops is what the correspondence engines and the harness watchdog check.

  Not in any theorem: the input buffer being left unmodified and the second decode being equal (the model
  is a pure function: it cannot express the opposite) — checked on the real code by the oracles
  `input-unmodified` / `deterministic`; the XML and JSON decoders (oracles of the text, vectors, lex and
  hostile engines; `Model/Lex.lean` is a lexical model without panic branches).
-/
import KmipModel.Lemmas.ReaderLemmas
import KmipModel.Lemmas.ReaderGoLemmas
import KmipModel.Lemmas.PlanLemmas
import KmipModel.Gen.Schema
import KmipModel.Props.C03
namespace Kmip.C02
open Kmip

/-- 1a. no getter of the binary reader panics, for any cursor and any expected tag: the length
    guard (`assertLen` / the empty check) precedes the panicking primitive. -/
theorem getters_no_panic (c : Cur) (tag : Nat) :
    (∀ msg, c.integer tag ≠ .panic msg) ∧ (∀ msg, c.longInteger tag ≠ .panic msg) ∧
    (∀ msg, c.enum tag ≠ .panic msg) ∧ (∀ msg, c.bool tag ≠ .panic msg) ∧
    (∀ msg, c.dateTime tag ≠ .panic msg) ∧ (∀ msg, c.interval tag ≠ .panic msg) ∧
    (∀ msg, c.bigInteger tag ≠ .panic msg) ∧ (∀ msg, c.textString tag ≠ .panic msg) ∧
    (∀ msg, c.byteString tag ≠ .panic msg) :=
  ⟨Cur.integer_noPanic c tag, Cur.longInteger_noPanic c tag, Cur.enum_noPanic c tag,
    Cur.bool_noPanic c tag, Cur.dateTime_noPanic c tag, Cur.interval_noPanic c tag,
    Cur.bigInteger_noPanic c tag, Cur.textString_noPanic c tag, Cur.byteString_noPanic c tag⟩

/-- 1b. `Struct(tag, f)` does not panic if the callback does not. -/
theorem struct_no_panic {α : Type} (c : Cur) (tag : Nat) (f : Cur → Res α)
    (hf : ∀ inner msg, f inner ≠ .panic msg) : ∀ msg, c.struct tag f ≠ .panic msg :=
  Cur.struct_noPanic c tag f hf

/-- 1c. the generic value decoder and the structure loop never panic, for any fuel, cursor, tag. -/
theorem decodeValue_no_panic (fuel : Nat) (c : Cur) (tag : Nat) :
    ∀ msg, decodeValue fuel c tag ≠ .panic msg :=
  (decode_noPanic fuel).1 c tag

theorem decodeFields_no_panic (fuel : Nat) (c : Cur) : ∀ msg, decodeFields fuel c ≠ .panic msg :=
  (decode_noPanic fuel).2 c

/-- 1. `UnmarshalTTLV(bs, &ttlv.Value{})` never panics — for every byte string. -/
theorem unmarshalValue_no_panic (bs : Bytes) : ∀ msg, unmarshalValue bs ≠ .panic msg :=
  unmarshalValue_noPanic bs

/-- 2. values are taken from inside the input only: the value of every raw item is a contiguous
    part of the input, after at least the 8 bytes of its header and followed by at least its
    padding. -/
theorem rawParse_within (fuel : Nat) (bs : Bytes) :
    ∀ it ∈ (rawParse fuel bs).1, ∃ pre post, bs = pre ++ it.val ++ post ∧ 8 ≤ pre.length ∧
      padForLen it.val.length 8 ≤ post.length :=
  fun it h => rawParse_within_aux fuel bs it h

/-- 2'. the same in terms of `List.IsInfix` and lengths. -/
theorem rawParse_infix (fuel : Nat) (bs : Bytes) :
    ∀ it ∈ (rawParse fuel bs).1, it.val <:+: bs ∧ 8 + paddedLen it.val.length ≤ bs.length := by
  intro it h
  obtain ⟨pre, post, e, h1, h2⟩ := rawParse_within fuel bs it h
  refine ⟨⟨pre, post, e.symm⟩, ?_⟩
  have := congrArg List.length e
  simp only [List.length_append] at this
  unfold paddedLen
  omega

/-- 3. the items (header + padded value each) fit side by side into the input: no overlap, no
    over-read. -/
theorem rawParse_extent (fuel : Nat) (bs : Bytes) :
    ((rawParse fuel bs).1.map fun it => 8 + paddedLen it.val.length).sum ≤ bs.length :=
  rawParse_extent_aux fuel bs

/-- 4. the library's generic decoder reads back every in-range encoding (`InRange` already demands
    a non-zero tag at every node, so no separate "no zero tag" predicate is needed). -/
theorem unmarshal_enc (t : Item) (h : t.InRange) : unmarshalValue (enc t) = .ok t :=
  unmarshalValue_enc t h

/-- 4'. generalised to any sufficient fuel and any following siblings. -/
theorem decodeValue_enc (t : Item) (h : t.InRange) (fuel : Nat) (hf : t.size ≤ fuel)
    (rs : List RawItem) :
    decodeValue fuel { items := t.raw :: rs, tail := none } t.tag
      = .ok (t, { items := rs, tail := none }) :=
  decodeValue_enc_aux t h fuel hf rs

theorem rawParse_encList_eq (ts : List Item) (h : Item.AllInRange ts) (fuel : Nat)
    (hf : ts.length ≤ fuel) : rawParse fuel (encList ts) = (ts.map Item.raw, none) :=
  rawParse_encList ts h fuel hf

/-! ## The slice-level reader (`Model/ReaderGo.lean`) -/

/-- 9. REFINEMENT, method by method: on a validated reader (`validate` returned nil, no `int` wrap-around)
    each method of the slice-level reader — with its explicit, panicking `buf[..]` expressions — has the
    same outcome as the abstract method and leaves a validated reader that corresponds to the abstract
    cursor. `G.Sim` relates panics to panics only, so with theorems 1a/1b none of them panics. These are
    exactly the methods of the Go `reader` interface the typed decoders are written against. -/
theorem reader_methods_refine (cfg : GoCfg) (b : GoSlice) (hv : G.Valid cfg b) (tag : Nat) :
    G.tag b = .ok (Cur.ofBytes b.vis).tag ∧ G.type b = .ok (Cur.ofBytes b.vis).ty ∧
    G.Sim cfg (G.integer cfg b tag) ((Cur.ofBytes b.vis).integer tag) ∧
    G.Sim cfg (G.longInteger cfg b tag) ((Cur.ofBytes b.vis).longInteger tag) ∧
    G.Sim cfg (G.enum cfg b tag) ((Cur.ofBytes b.vis).enum tag) ∧
    G.Sim cfg (G.bool cfg b tag) ((Cur.ofBytes b.vis).bool tag) ∧
    G.Sim cfg (G.dateTime cfg b tag) ((Cur.ofBytes b.vis).dateTime tag) ∧
    G.Sim cfg (G.interval cfg b tag) ((Cur.ofBytes b.vis).interval tag) ∧
    G.Sim cfg (G.bigInteger cfg b tag) ((Cur.ofBytes b.vis).bigInteger tag) ∧
    G.Sim cfg (G.textString cfg b tag) ((Cur.ofBytes b.vis).textString tag) ∧
    G.Sim cfg (G.byteString cfg b tag) ((Cur.ofBytes b.vis).byteString tag) :=
  ⟨G.tag_of_valid hv, G.type_of_valid hv, G.integer_sim hv tag, G.longInteger_sim hv tag, G.enum_sim hv tag,
    G.bool_sim hv tag, G.dateTime_sim hv tag, G.interval_sim hv tag, G.bigInteger_sim hv tag,
    G.textString_sim hv tag, G.byteString_sim hv tag⟩

/-- 9'. `newTTLVReader` establishes the validated state or returns the abstract parser's error, and
    `Struct` agrees with the abstract `Struct` for every callback that agrees on validated readers whose
    capacity ends with the declared value. -/
theorem reader_struct_refines {α : Type} (cfg : GoCfg) (b : GoSlice) (hv : G.Valid cfg b) (tag : Nat)
    (f : GoSlice → Res α) (f' : Cur → Res α)
    (hf : ∀ inner : GoSlice, G.Valid cfg inner → inner.rest = [] →
      inner.vis.length ≤ b.vis.length - 8 → SimV (f inner) (f' (Cur.ofBytes inner.vis))) :
    G.Sim cfg (G.struct cfg b tag f) ((Cur.ofBytes b.vis).struct tag f') :=
  G.struct_sim hv tag f f' hf

theorem reader_validate_refines (cfg : GoCfg) (b : GoSlice) (hok : cfg.Ok b.vis.length) :
    G.validate cfg b = match headErr b.vis with
      | none => .ok ()
      | some e => .err e :=
  G.validate_eq cfg b hok

/-- 10. the nested reader of a structure can reach NOTHING outside the structure's declared extent: its
    capacity equals its length (so any access beyond it is one of the panics excluded by 11), for every
    buffer, valid or not. -/
theorem struct_capacity_clipped {α : Type} (cfg : GoCfg) (b : GoSlice) (tag : Nat) (f : GoSlice → Res α) :
    G.struct cfg b tag f
      = G.struct cfg b tag (fun inner => if inner.rest = [] then f inner else .panic "capacity not clipped") :=
  G.struct_inner_clipped cfg b tag f

/-- 11. `UnmarshalTTLV(data, &ttlv.Value{})` over the slice-level reader with the pre-repair `validate`
    (`wide = false`; at 64 bits it computes what the current code computes), on a platform whose `int` has at
    least 34 bits: for EVERY byte string and EVERY content of the memory between `len(data)` and `cap(data)`
    the result is the abstract decoder's result on `data[0:len]` — -/
theorem slice_level_refines (cfg : GoCfg) (hw : cfg.wide = false) (hb : 34 ≤ cfg.intBits) (bs junk : Bytes) :
    G.unmarshalValue cfg { vis := bs, rest := junk } = unmarshalValue bs :=
  (G.unmarshalValue_sim cfg _ (GoCfg.ok_of_bits cfg hw hb _)).eq (unmarshalValue_noPanic bs)

/-- 11a. — hence no index or slice expression of the reader panics, -/
theorem slice_level_no_panic (bs junk : Bytes) :
    ∀ msg, G.unmarshalValue GoCfg.amd64 { vis := bs, rest := junk } ≠ .panic msg := by
  rw [slice_level_refines GoCfg.amd64 rfl (by decide)]
  exact unmarshalValue_noPanic bs

/-- 11b. — and nothing is taken from outside the input: the result does not depend on what follows it in
    memory (in this model a read beyond `len` within `cap` is possible and would show here). -/
theorem slice_level_no_over_read (bs junk junk' : Bytes) :
    G.unmarshalValue GoCfg.amd64 { vis := bs, rest := junk }
      = G.unmarshalValue GoCfg.amd64 { vis := bs, rest := junk' } := by
  rw [slice_level_refines GoCfg.amd64 rfl (by decide), slice_level_refines GoCfg.amd64 rfl (by decide)]

/-- 12. FULL STATEMENT for the reader as it WAS before the repair e776a13 (`wide = false`: `validate` in `int`
    arithmetic): no panic on any platform. FALSE — -/
def C02_binary_any_platform : Prop :=
  ∀ (cfg : GoCfg), cfg.wide = false → 32 ≤ cfg.intBits → ∀ (bs junk : Bytes) (msg : String),
    G.unmarshalValue cfg { vis := bs, rest := junk } ≠ .panic msg

/-- 12a. — with a 32-bit `int` the 8-byte input `42 00 78 01 80 00 00 00` (a structure announcing 2^31
    bytes) makes `len()` negative, passes `validate`, and panics in `value()`: `buf[8 : 8+len]`. Confirmed
    on the real library built for GOARCH=386 (engine `hostile`, phase arch32). -/
theorem int32_panics :
    (G.unmarshalValue GoCfg.i386 { vis := [0x42, 0, 0x78, 1, 0x80, 0, 0, 0], rest := [] }).isPanic = true := by
  decide +kernel

theorem C02_binary_any_platform_false : ¬ C02_binary_any_platform := by
  intro h
  have hp := int32_panics
  cases hr : G.unmarshalValue GoCfg.i386 { vis := [0x42, 0, 0x78, 1, 0x80, 0, 0, 0], rest := [] } with
  | ok _ => rw [hr] at hp; cases hp
  | err _ => rw [hr] at hp; cases hp
  | panic m => exact h GoCfg.i386 rfl (by decide) _ _ m hr

/-- 13. the PARTIAL statement that held of the unrepaired reader: every platform with `int` ≥ 34 bits. -/
theorem C02_binary_partial (cfg : GoCfg) (hw : cfg.wide = false) (hb : 34 ≤ cfg.intBits) (bs junk : Bytes) :
    ∀ msg, G.unmarshalValue cfg { vis := bs, rest := junk } ≠ .panic msg := by
  rw [slice_level_refines cfg hw hb]
  exact unmarshalValue_noPanic bs

/-- 14. the repaired `validate` (length field compared in 64-bit unsigned arithmetic): the same refinement
    on EVERY platform, for every buffer whose length is an `int` (as every Go slice's is). -/
theorem wide_validate_any_platform (cfg : GoCfg) (hw : cfg.wide = true) (hb : 1 ≤ cfg.intBits) (bs junk : Bytes)
    (hlen : bs.length < 2 ^ (cfg.intBits - 1)) :
    G.unmarshalValue cfg { vis := bs, rest := junk } = unmarshalValue bs :=
  (G.unmarshalValue_sim cfg _ (GoCfg.ok_wide cfg hw hb _ hlen)).eq (unmarshalValue_noPanic bs)

/-- 14a. THE READER AS IT IS IN THE LIBRARY since its repair (ovh/kmip-go e776a13: `validate` compares the
    declared length in 64 bits, i.e. `wide = true`; the engine `hostile` ties this variant to the code by
    outcome class at 32 bits (phase arch32, a GOARCH=386 build, lines `rdr.cls32w`), the value-level lines
    `rdr.dec` run the `wide = false` variant at 64 bits, where both variants agree; `wire`/`plan` compare the
    abstract model): on EVERY platform no index or slice expression panics, -/
theorem current_reader_no_panic (cfg : GoCfg) (hw : cfg.wide = true) (hb : 1 ≤ cfg.intBits) (bs junk : Bytes)
    (hlen : bs.length < 2 ^ (cfg.intBits - 1)) :
    ∀ msg, G.unmarshalValue cfg { vis := bs, rest := junk } ≠ .panic msg := by
  rw [wide_validate_any_platform cfg hw hb bs junk hlen]
  exact unmarshalValue_noPanic bs

/-- 14b. — and the result does not depend on the memory that follows the input within its capacity. -/
theorem current_reader_no_over_read (cfg : GoCfg) (hw : cfg.wide = true) (hb : 1 ≤ cfg.intBits)
    (bs junk junk' : Bytes) (hlen : bs.length < 2 ^ (cfg.intBits - 1)) :
    G.unmarshalValue cfg { vis := bs, rest := junk } = G.unmarshalValue cfg { vis := bs, rest := junk' } := by
  rw [wide_validate_any_platform cfg hw hb bs junk hlen, wide_validate_any_platform cfg hw hb bs junk' hlen]

/-- non-vacuity of 14a/14b: a 32-bit platform and the input on which the unrepaired reader panics. -/
example : (8 : Nat) < 2 ^ (({ intBits := 32, wide := true } : GoCfg).intBits - 1) := by decide

/-! ## Termination of the modelled loops: the fuel never decides -/

/-- F1. `rawParse` (the `validate`/`Next` walk): same answer for every fuel ≥ the input length, and never
    the fuel-exhaustion answer. -/
theorem rawParse_fuel_irrelevant (fuel : Nat) (bs : Bytes) (h : bs.length ≤ fuel) :
    rawParse fuel bs = rawParse bs.length bs ∧ (rawParse fuel bs).2 ≠ some .other :=
  ⟨rawParse_fuel fuel bs h, rawParse_not_fuel fuel bs h⟩

/-- F2. the generic value decoder and the structure loop: same answer for every sufficient fuel (two more
    than the current item's length / one more than the bytes of the remaining items). -/
theorem decode_fuel_irrelevant (c : Cur) (tag f1 f2 : Nat) :
    (c.headLen + 2 ≤ f1 → c.headLen + 2 ≤ f2 → decodeValue f1 c tag = decodeValue f2 c tag) ∧
    (c.bytes + 1 ≤ f1 → c.bytes + 1 ≤ f2 → decodeFields f1 c = decodeFields f2 c) :=
  ⟨decodeValue_fuel c tag f1 f2, decodeFields_fuel c f1 f2⟩

/-- F3. `unmarshalValue bs` is the decoder run with ANY fuel ≥ `bs.length + 2` … -/
theorem unmarshalValue_fuel_irrelevant (bs : Bytes) (fuel : Nat) (h : bs.length + 2 ≤ fuel) :
    unmarshalValue bs = (do let c ← Cur.start bs; let (it, _) ← decodeValue fuel c c.tag; pure it) :=
  unmarshalValue_fuel bs fuel h

/-- F4. … and for EVERY byte string its answer is not the fuel-exhaustion error (`Err.other` is produced
    nowhere else in `Model/Reader.lean`): every recursion of the model ends because the input ends. -/
theorem unmarshalValue_never_fuel (bs : Bytes) : unmarshalValue bs ≠ .err .other :=
  unmarshalValue_notFuel bs

/-! ### non-vacuity -/

/-- the slice model can express an over-read: re-slicing a 1-byte slice of capacity 2 up to 2 succeeds … -/
example : (GoSlice.slice { vis := [1], rest := [2] } 0 2).isOk = true := by decide +kernel
/-- … `value()` of the first of two items has the second one within its capacity (16 more bytes) … -/
example : ((G.value GoCfg.amd64 { vis := [0x42, 0, 1, 7, 0, 0, 0, 1, 0x41, 0, 0, 0, 0, 0, 0, 0,
                                          0x42, 0, 2, 7, 0, 0, 0, 1, 0x42, 0, 0, 0, 0, 0, 0, 0], rest := [] }).isOk
    && (match G.value GoCfg.amd64 { vis := [0x42, 0, 1, 7, 0, 0, 0, 1, 0x41, 0, 0, 0, 0, 0, 0, 0,
                                            0x42, 0, 2, 7, 0, 0, 0, 1, 0x42, 0, 0, 0, 0, 0, 0, 0], rest := [] } with
        | .ok v => v.vis.length == 1 && v.rest.length == 23
        | _ => false)) = true := by decide +kernel
/-- … and after the clip of `Struct` the same re-slice panics instead of reading on. -/
example : (do let c ← GoSlice.slice3 { vis := [1], rest := [2] } 0 1 1; c.slice 0 2 : Res GoSlice).isPanic = true := by
  decide +kernel
/-- `validate` is load-bearing in this model: on a reader that was NOT validated (a text string announcing 16
    bytes, 8 present) `value()` panics when the capacity ends with the data … -/
example : (G.value GoCfg.amd64 { vis := [0x42, 0, 1, 7, 0, 0, 0, 16, 1, 2, 3, 4, 5, 6, 7, 8], rest := [] }).isPanic = true := by
  decide +kernel
/-- … and OVER-READS when the slice has spare capacity: the 8 foreign bytes behind the input become part of the
    value (the historic cap-reslice defect is expressible here; theorems 9–11 exclude it for the real reader). -/
example : (match G.value GoCfg.amd64 { vis := [0x42, 0, 1, 7, 0, 0, 0, 16, 1, 2, 3, 4, 5, 6, 7, 8],
                                        rest := [0xAA, 0xAA, 0xAA, 0xAA, 0xAA, 0xAA, 0xAA, 0xAA] } with
    | .ok v => v.vis == [1, 2, 3, 4, 5, 6, 7, 8, 0xAA, 0xAA, 0xAA, 0xAA, 0xAA, 0xAA, 0xAA, 0xAA]
    | _ => false) = true := by decide +kernel
/-- the validated state is reachable (`Valid` is not vacuous): a 16-byte Integer item. -/
example : G.Valid GoCfg.amd64 { vis := [0x42, 0, 1, 2, 0, 0, 0, 4, 0, 0, 0, 7, 0, 0, 0, 0], rest := [9] } :=
  ⟨by decide +kernel, GoCfg.ok_of_bits _ rfl (by decide) _⟩
/-- the repaired `validate` rejects the 32-bit witness instead of panicking. -/
example : (G.unmarshalValue { intBits := 32, wide := true }
    { vis := [0x42, 0, 0x78, 1, 0x80, 0, 0, 0], rest := [] }).isErr = true := by decide +kernel

theorem sample_inRange : C03.sample.InRange := by
  have e1 : (encodeBig (-128)).length = 8 := by
    rw [encodeBig_neg _ (by decide)]
    simp [negBody, negPad, natToBytesBE, negEncLE, padForLen]
  have e2 : (encodeBig 18446744073709551616).length = 16 := by
    rw [encodeBig_pos _ (by decide)]
    simp [posPad, natToBytesBE, padForLen]
  simp [C03.sample, Item.InRange, Item.AllInRange, inInt, enc, encList, hdr, e1, e2, padForLen]

example : unmarshalValue (enc C03.sample) = .ok C03.sample := unmarshal_enc _ sample_inRange

set_option maxRecDepth 8192 in
/-- an Integer item announcing 2 value bytes: rejected by the length guard, `goU32` is not reached. -/
example : unmarshalValue [0x42, 0, 0x0A, 2, 0, 0, 0, 2, 0, 0, 0, 0, 0, 0, 0, 0] = .err .badLength := by
  rfl

set_option maxRecDepth 8192 in
/-- an empty BigInteger: rejected before `bytesToBigInt` indexes `v[0]`. -/
example : unmarshalValue [0x42, 0, 0x0A, 4, 0, 0, 0, 0] = .err .badLength := by rfl

/-- the panicking primitives do panic on the inputs the guards exclude. -/
example : goU32 [0, 0] = .panic "index out of range [3]" := rfl
example : goBytesToBigInt [] = .panic "index out of range [0] with length 0" := rfl

/-! ## The typed layer (`ttlv.Unmarshal` into the message types: reflective decoder + hand-written decoders)

`Schema.decodeSafe` (Lemmas/PlanLemmas.lean) is a decidable check of the schema regenerated from the Go
types: every reflectively decoded struct has only fields of decodable kinds (no interface, no `int8`/`int16`,
no unsupported type — recursively through pointers and slices) and no untagged interface field; every
struct with a hand-written decoder names one of the decoders that exist and the declared kinds of the
fields that decoder reads are decodable; every type that can sit behind an interface is decodable; every
dyn id produced by the operation / object / attribute tables is a valid index. -/

/-- 5. none of the eight mutually recursive typed decoders panics — any fuel, any cursor (so: any bytes,
    well-formed or not), any version cell. -/
theorem typed_decoders_no_panic (S : Schema) (h : S.decodeSafe = true) (fuel : Nat) :
    (∀ k tag c ver, Kind.leafSafe k = true → ∀ msg, decK S fuel k tag c ver ≠ .panic msg) ∧
    (∀ fields tag c ver, List.all fields Field.decSafe = true →
      ∀ msg, decStruct S fuel fields tag c ver ≠ .panic msg) ∧
    (∀ k tag c ver, Kind.leafSafe k = true → ∀ msg, decList S fuel k tag c ver ≠ .panic msg) ∧
    (∀ fields c ver, List.all fields Field.decSafe = true →
      ∀ msg, decFields S fuel fields c ver ≠ .panic msg) ∧
    (∀ k tag c ver, Kind.leafSafe k = true → ∀ msg, decOpt S fuel k tag c ver ≠ .panic msg) ∧
    (∀ d tag c ver, d < S.dyns.length → ∀ msg, decDyn S fuel d tag c ver ≠ .panic msg) ∧
    (∀ code id tag c ver, customSafe S (S.structDef id).fields code = true →
      ∀ msg, decCustom S fuel code id tag c ver ≠ .panic msg) ∧
    (∀ fmt c ver, unionSafe S Cust.keyMaterial 8 = true →
      ∀ msg, decKeyValue S fuel fmt c ver ≠ .panic msg) :=
  have t := typedNoPanic S ((S.decodeSafe_iff).1 h) fuel
  ⟨t.decK, t.decStruct, t.decList, t.decFields, t.decOpt, t.decDyn, t.decCustom, t.decKeyValue⟩

/-- 6. `UnmarshalTTLV(bs, new(T))` / `dec.TagAny(tag, new(T))` never panics: for EVERY byte string, every
    tag and every target type id `d` (an id that denotes no type of the schema is an error of the model's
    entry point, not a panic). -/
theorem typed_no_panic (S : Schema) (h : S.decodeSafe = true) (d tag : Nat) (bs : Bytes) :
    ∀ msg, unmarshal S d tag bs ≠ .panic msg :=
  unmarshal_noPanic S h d tag bs

/-- 6'. the same, fully quantified (formerly false of the model because `Schema.dyn` totalises an
    out-of-range type id to the kind `.unsupported`; `unmarshal` now rejects such ids). -/
theorem typed_no_panic_full :
    ∀ (S : Schema), S.decodeSafe = true → ∀ (d tag : Nat) (bs : Bytes) (msg : String),
      unmarshal S d tag bs ≠ .panic msg :=
  fun S h d tag bs msg => typed_no_panic S h d tag bs msg

/-- smallest safe schema: one dynamic type, `ttlv.Value`. -/
def tiny : Schema where
  structs := []
  dyns := [{ defTag := 0x420001, kind := .any }]
  ops := []
  objects := []
  attrs := []
  unknownPayloadDyn := 0
  valueDyn := 0

/-- a type id outside the schema: an error, not a panic (`tiny` is safe: the hypothesis is satisfiable). -/
example : tiny.decodeSafe = true ∧
    (unmarshal tiny 1 0 [0x42, 0, 1, 2, 0, 0, 0, 4, 0, 0, 0, 7, 0, 0, 0, 0]).isErr = true := by
  decide +kernel

/-- 7. the schema extracted from the current Go types satisfies the condition (re-checked by the kernel
    every time `Gen/Schema.lean` is regenerated). -/
theorem gen_schema_decodeSafe : Gen.schema.decodeSafe = true := by decide +kernel

/-- 8. hence decoding arbitrary bytes into any of the library's message / payload / object / attribute
    types never panics. -/
theorem gen_typed_no_panic (d tag : Nat) (bs : Bytes) :
    ∀ msg, unmarshal Gen.schema d tag bs ≠ .panic msg :=
  typed_no_panic Gen.schema gen_schema_decodeSafe d tag bs

/-! ### non-vacuity (typed layer) -/

/-- 95 target types. -/
example : Gen.requestMessageDyn < Gen.schema.dyns.length ∧ Gen.schema.dyns.length = 95 := by
  decide +kernel

/-- the condition is not vacuous: it rejects a schema with a reflectively decoded interface field… -/
def unsafeSchema : Schema where
  structs := [{ fields := [{ tag := 0x420002, kind := .iface }] }]
  dyns := [{ defTag := 0x420001, kind := .struct 0 }]
  ops := []
  objects := []
  attrs := []
  unknownPayloadDyn := 0
  valueDyn := 0
example : unsafeSchema.decodeSafe = false := by decide +kernel
/-- …and on that schema the typed decoder does panic (structure 0x420001 containing an Integer 0x420002). -/
example : (unmarshal unsafeSchema 0 0
    [0x42, 0, 1, 1, 0, 0, 0, 16, 0x42, 0, 2, 2, 0, 0, 0, 4, 0, 0, 0, 7, 0, 0, 0, 0]).isPanic = true := by
  decide +kernel

/-- a truncated RequestMessage (header announces 16 bytes, 8 follow) is an error, not a panic. -/
example : (unmarshal Gen.schema Gen.requestMessageDyn 0
    [0x42, 0, 0x78, 1, 0, 0, 0, 16, 0x42, 0, 0x77, 1, 0, 0, 0, 0]).isErr = true := by decide +kernel

end Kmip.C02
