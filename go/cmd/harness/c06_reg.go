package main

import (
	"bytes"
	"encoding/json"
	"fmt"
	"os"
	"os/exec"
	"reflect"
	"strings"
	"time"

	kmip "github.com/ovh/kmip-go"
	"github.com/ovh/kmip-go/payloads"
	"github.com/ovh/kmip-go/ttlv"

	"verifharness/internal/report"
	"verifharness/internal/rng"
	"verifharness/internal/tree"
)

// C06, registrations made at RUN TIME through the public API.
//
// "A batch item decodes to the payload type registered for that operation", "managed objects decode to the type
// named by the accompanying object type": the registries are open — kmip.RegisterOperationPayload and
// kmip.RegisterObject are exported so that an application can add vendor operations / objects (extension range
// 8XXXXXXX) or standard ones that the library does not implement. (The attribute table has no public registration
// function: nothing to cover there.) The init-time content of the registries is what the Lean tables are
// regenerated from; what a registration made LATER does is checked here, on the real code only, in a CHILD PROCESS
// (this binary re-executed with VERIF_C06_REG_CHILD set) so that the registrations cannot leak into any other
// engine, nor into the schema the model is instantiated with.
//
// For every code of a list of vendor codes (0x80000000, 0x80000001, 0x80000041, a built-in code with the
// extension bit set, 0xC0000000, 0xFFFFFFFF) and of unused standard codes (Validate, Notify, 0x2C, 0x30, 0x40,
// 0x7FFFFFFF, built-in codes with other high bytes set), both directions, binary / XML / JSON (documents from the
// independent writer / the generic value writer AND from the library's typed writers):
//   before the registration the message decodes to an UnknownPayload reporting the code (opaque, identical
//   re-encoding); after it, to the registered type, reporting the code, re-encoding to the identical bytes;
//   neighbouring codes that were NOT registered stay opaque; every built-in operation keeps its type; batches mixing
//   built-in, run-time registered and unregistered operations dispatch item by item.
// Objects (vendor 0x80000001 / 0xFFFFFFFF, unused standard 0x0A, SymmetricKey's code with a high byte set) under
// the four carrying payloads: before the registration an error (never a value), after it the registered type;
// an object of another type than the announced one is an error.

const c06RegChildEnv = "VERIF_C06_REG_CHILD"

func init() {
	if os.Getenv(c06RegChildEnv) != "" {
		c06RegChildMain()
		os.Exit(0)
	}
}

type c06RegOut struct {
	Cases      []Case
	Violations []report.Violation
	Dist       map[string]int
	Fail       []string
	Done       bool
}

// ---- the vendor types ------------------------------------------------------------------------------------

type opMark interface{ code() uint32 }

type (
	vOp0 struct{}
	vOp1 struct{}
	vOp2 struct{}
	vOp3 struct{}
	vOp4 struct{}
	vOp5 struct{}
	sOp0 struct{}
	sOp1 struct{}
	sOp2 struct{}
	sOp3 struct{}
	sOp4 struct{}
	sOp5 struct{}
	sOp6 struct{}
	sOp7 struct{}
)

func (vOp0) code() uint32 { return 0x80000000 }
func (vOp1) code() uint32 { return 0x80000001 }
func (vOp2) code() uint32 { return 0x80000041 }
func (vOp3) code() uint32 { return 0x8000000A } // Get with the extension bit
func (vOp4) code() uint32 { return 0xC0000000 }
func (vOp5) code() uint32 { return 0xFFFFFFFF }
func (sOp0) code() uint32 { return uint32(kmip.OperationValidate) } // named, not implemented
func (sOp1) code() uint32 { return uint32(kmip.OperationNotify) }
func (sOp2) code() uint32 { return 0x0000002C } // first code after Export
func (sOp3) code() uint32 { return 0x00000030 }
func (sOp4) code() uint32 { return 0x00000040 }
func (sOp5) code() uint32 { return 0x7FFFFFFF }
func (sOp6) code() uint32 { return 0x0000010A } // Get with a higher byte set
func (sOp7) code() uint32 { return 0x01000001 } // Create with the top byte set

type vendorRequest[M opMark] struct {
	UniqueIdentifier string
	Data             []byte `ttlv:",omitempty"`
	Attribute        []kmip.Attribute
}

func (*vendorRequest[M]) Operation() kmip.Operation { var m M; return kmip.Operation(m.code()) }

type vendorResponse[M opMark] struct {
	UniqueIdentifier string
	ObjectType       kmip.ObjectType `ttlv:",omitempty"`
	Data             []byte          `ttlv:",omitempty"`
}

func (*vendorResponse[M]) Operation() kmip.Operation { var m M; return kmip.Operation(m.code()) }

type vendorOp struct {
	code     uint32
	register func()
	newReq   func() kmip.OperationPayload
	newResp  func() kmip.OperationPayload
}

func customTextAttr(name, val string) kmip.Attribute {
	return kmip.Attribute{AttributeName: kmip.AttributeName(name), AttributeValue: ttlv.Value{Tag: kmip.TagAttributeValue, Value: val}}
}

func mkVendorOp[M opMark]() vendorOp {
	var m M
	return vendorOp{code: m.code(),
		register: func() { kmip.RegisterOperationPayload[vendorRequest[M], vendorResponse[M]](kmip.Operation(m.code())) },
		newReq: func() kmip.OperationPayload {
			return &vendorRequest[M]{UniqueIdentifier: "abc", Data: []byte{1, 2, 3}, Attribute: []kmip.Attribute{
				customTextAttr("x-vendor", "n"), {AttributeName: kmip.AttributeNameCryptographicLength, AttributeValue: int32(256)}}}
		},
		newResp: func() kmip.OperationPayload {
			return &vendorResponse[M]{UniqueIdentifier: "abc", ObjectType: kmip.ObjectTypeSymmetricKey, Data: []byte{9}}
		},
	}
}

func vendorOps() []vendorOp {
	return []vendorOp{mkVendorOp[vOp0](), mkVendorOp[vOp1](), mkVendorOp[vOp2](), mkVendorOp[vOp3](), mkVendorOp[vOp4](), mkVendorOp[vOp5](),
		mkVendorOp[sOp0](), mkVendorOp[sOp1](), mkVendorOp[sOp2](), mkVendorOp[sOp3](), mkVendorOp[sOp4](), mkVendorOp[sOp5](), mkVendorOp[sOp6](), mkVendorOp[sOp7]()}
}

type otMark interface {
	otype() uint32
	tag() int
}

type (
	vOt0 struct{}
	vOt1 struct{}
	sOt0 struct{}
	sOt1 struct{}
)

func (vOt0) otype() uint32 { return 0x80000001 }
func (vOt0) tag() int      { return 0x540F01 }
func (vOt1) otype() uint32 { return 0xFFFFFFFF }
func (vOt1) tag() int      { return 0x540F02 }
func (sOt0) otype() uint32 { return 0x0000000A } // first code after PGP Key
func (sOt0) tag() int      { return 0x540F03 }
func (sOt1) otype() uint32 { return 0x00000102 } // Symmetric Key with a higher byte set
func (sOt1) tag() int      { return 0x540F04 }

type vendorObject[M otMark] struct {
	UniqueIdentifier string
	Data             []byte
	Attribute        []kmip.Attribute
}

func (*vendorObject[M]) ObjectType() kmip.ObjectType { var m M; return kmip.ObjectType(m.otype()) }

type vendorObj struct {
	ot          uint32
	registerTag func()
	register    func()
	newObj      func() kmip.Object
}

func mkVendorObj[M otMark]() vendorObj {
	var m M
	return vendorObj{ot: m.otype(),
		registerTag: func() {
			ttlv.RegisterTag(fmt.Sprintf("VerifVendorObject%06X", m.tag()), m.tag(), reflect.TypeFor[vendorObject[M]]())
		},
		register: func() { kmip.RegisterObject(kmip.ObjectType(m.otype()), &vendorObject[M]{}) },
		newObj: func() kmip.Object {
			return &vendorObject[M]{UniqueIdentifier: "obj", Data: []byte{7, 7}, Attribute: []kmip.Attribute{customTextAttr("y-vendor", "o")}}
		},
	}
}

func vendorObjs() []vendorObj {
	return []vendorObj{mkVendorObj[vOt0](), mkVendorObj[vOt1](), mkVendorObj[sOt0](), mkVendorObj[sOt1]()}
}

// ---- the child -------------------------------------------------------------------------------------------

type c06RegDoc struct {
	codec, writer string
	doc           []byte
}

type c06RegCase struct {
	what     string // for the details
	response bool
	msg      any
	bin      []byte
	docs     []c06RegDoc
}

type c06RegEnv struct {
	ctx *Ctx
}

func (e *c06RegEnv) mkCase(what string, response bool, msg any) *c06RegCase {
	b, pn := guard("MarshalTTLV", func() []byte { return ttlv.MarshalTTLV(msg) })
	if pn != "" {
		e.ctx.Res.Fail("c06.reg: the library cannot write " + what + ": " + pn)
		return nil
	}
	b = append([]byte{}, b...)
	t, err := tree.Decode(b)
	if err != nil {
		e.ctx.Res.Fail("c06.reg: the independent reader rejects the library's encoding of " + what + ": " + err.Error())
		return nil
	}
	c := &c06RegCase{what: what, response: response, msg: msg, bin: t.Encode()}
	for _, enc := range encodeTree(t) {
		c.docs = append(c.docs, c06RegDoc{enc.codec, "generic", enc.doc})
	}
	for _, tc := range textCodecs {
		if doc, pn := guard("Marshal", func() []byte { return tc.marshal(msg) }); pn == "" {
			c.docs = append(c.docs, c06RegDoc{tc.name, "typed", append([]byte{}, doc...)})
		}
	}
	return c
}

func dirName(response bool) string {
	if response {
		return "resp"
	}
	return "req"
}

type c06RegItem struct {
	op      kmip.Operation
	payload kmip.OperationPayload
}

func itemsOf(ptr any) []c06RegItem {
	var out []c06RegItem
	switch m := ptr.(type) {
	case *kmip.RequestMessage:
		for _, bi := range m.BatchItem {
			out = append(out, c06RegItem{bi.Operation, bi.RequestPayload})
		}
	case *kmip.ResponseMessage:
		for _, bi := range m.BatchItem {
			out = append(out, c06RegItem{bi.Operation, bi.ResponsePayload})
		}
	}
	return out
}

// objectsOf: the managed objects carried by the payloads of a decoded message, with the announced type.
func objectOf(pl kmip.OperationPayload) (kmip.ObjectType, kmip.Object) {
	switch p := pl.(type) {
	case *payloads.GetResponsePayload:
		return p.ObjectType, p.Object
	case *payloads.ExportResponsePayload:
		return p.ObjectType, p.Object
	case *payloads.RegisterRequestPayload:
		return p.ObjectType, p.Object
	case *payloads.ImportRequestPayload:
		for _, a := range p.Attribute {
			if a.AttributeName == kmip.AttributeNameObjectType {
				if ot, ok := a.AttributeValue.(kmip.ObjectType); ok {
					return ot, p.Object
				}
			}
		}
		return 0, p.Object
	}
	return 0, nil
}

// check decodes every document of the case. wantTypes: per batch item, the expected dynamic type of the payload
// (nil entry = do not care); wantObj: the expected dynamic type of the carried object (nil = none);
// expect: "ok" / "err".
func (e *c06RegEnv) check(phase, class string, c *c06RegCase, expect string, wantTypes []reflect.Type, wantObj reflect.Type) {
	if c == nil {
		return
	}
	for _, d := range c.docs {
		line := fmt.Sprintf("#c06.reg %s %s %s %s %s", phase, class, d.codec, dirName(c.response), hexUp(d.doc))
		e.ctx.current = line
		var ptr any = &kmip.RequestMessage{}
		if c.response {
			ptr = &kmip.ResponseMessage{}
		}
		derr, pn := decodeInto(d.codec, d.doc, ptr)
		impl := "ok"
		switch {
		case pn != "":
			impl = "panic"
		case derr != nil:
			impl = "err"
		}
		e.ctx.Add(line, impl, true, "")
		e.ctx.Res.Count("dispatch.reg." + phase + "." + class + "." + d.codec + "." + impl)
		where := fmt.Sprintf("%s, %s, %s document from the %s writer, %s", c.what, phase+" the run-time registration", d.codec, d.writer, dirName(c.response))
		if impl != expect {
			c06Violate(e.ctx, line, "runtime-registration:"+class+":expected-"+expect, fmt.Sprintf("%s: decoder answered %s (%v %s), the property requires %s", where, impl, derr, pn, expect))
			continue
		}
		if impl != "ok" {
			continue
		}
		items := itemsOf(ptr)
		if len(items) != len(wantTypes) {
			c06Violate(e.ctx, line, "runtime-registration:"+class+":batch-length", fmt.Sprintf("%s: %d batch items decoded, %d written", where, len(items), len(wantTypes)))
			continue
		}
		for i, it := range items {
			if wantTypes[i] == nil {
				continue
			}
			if it.payload == nil || reflect.TypeOf(it.payload) != wantTypes[i] {
				c06Violate(e.ctx, line, "runtime-registration:"+class+":payload-type", fmt.Sprintf("%s: batch item %d, operation 0x%08X decoded as %T, expected %s", where, i, uint32(it.op), it.payload, wantTypes[i]))
				continue
			}
			if got := it.payload.Operation(); got != it.op {
				c06Violate(e.ctx, line, "runtime-registration:"+class+":payload-reports-other-operation", fmt.Sprintf("%s: batch item %d, operation 0x%08X carries a %T reporting 0x%08X", where, i, uint32(it.op), it.payload, uint32(got)))
			}
			if wantObj != nil {
				ot, obj := objectOf(it.payload)
				switch {
				case obj == nil || reflect.TypeOf(obj) != wantObj:
					c06Violate(e.ctx, line, "runtime-registration:"+class+":object-type", fmt.Sprintf("%s: object announced as 0x%08X decoded as %T, expected %s", where, uint32(ot), obj, wantObj))
				case obj.ObjectType() != ot:
					c06Violate(e.ctx, line, "runtime-registration:"+class+":object-reports-other-type", fmt.Sprintf("%s: object announced as 0x%08X is a %T reporting 0x%08X", where, uint32(ot), obj, uint32(obj.ObjectType())))
				}
			}
		}
		// the walk against the LIVE registries (they hold the run-time registrations after the registration)
		c06Walk(e.ctx, line, reflect.ValueOf(ptr), 0)
		back, pn := guard("MarshalTTLV", func() []byte { return ttlv.MarshalTTLV(ptr) })
		if pn != "" || !bytes.Equal(back, c.bin) {
			got := "panic " + pn
			if bt, err := tree.Decode(back); err == nil {
				got = bt.Render()
			}
			want := ""
			if wt, err := tree.Decode(c.bin); err == nil {
				want = wt.Render()
			}
			c06Violate(e.ctx, line, "runtime-registration:"+class+":not-preserved", fmt.Sprintf("%s: the decoded message does not re-encode to the original bytes: %s", where, firstDiff(want, got)))
		}
	}
}

func c06RegChildMain() {
	res := report.New("dispatch", "quick", 1)
	ctx := &Ctx{R: rng.New(1), Tier: "quick", Res: res}
	e := &c06RegEnv{ctx}
	out := c06RegOut{}
	defer func() {
		if r := recover(); r != nil {
			res.Fail(fmt.Sprint("c06.reg child panicked: ", r))
		}
		out.Cases, out.Violations, out.Dist, out.Fail = ctx.cases, res.Violations, res.Distribution, res.HarnessErrors
		b, _ := json.Marshal(out)
		os.Stdout.Write(b)
	}()

	tUnknown := reflect.TypeFor[*kmip.UnknownPayload]()
	builtin := kmip.VerifDumpOperations()
	isBuiltin := map[uint32]bool{}
	for _, o := range builtin {
		isBuiltin[uint32(o.Operation)] = true
	}
	ops := vendorOps()
	isVendor := map[uint32]bool{}
	for _, v := range ops {
		if isBuiltin[v.code] {
			res.Fail(fmt.Sprintf("c06.reg: code 0x%08X of the run-time list is registered by the library itself", v.code))
			return
		}
		isVendor[v.code] = true
	}
	reqMsg := func(items ...kmip.RequestBatchItem) *kmip.RequestMessage {
		return &kmip.RequestMessage{Header: kmip.RequestHeader{ProtocolVersion: kmip.V1_4, BatchCount: int32(len(items))}, BatchItem: items}
	}
	respMsg := func(items ...kmip.ResponseBatchItem) *kmip.ResponseMessage {
		return &kmip.ResponseMessage{Header: kmip.ResponseHeader{ProtocolVersion: kmip.V1_4, TimeStamp: time.Unix(1700000000, 0), BatchCount: int32(len(items))}, BatchItem: items}
	}
	rqItem := func(op uint32, pl kmip.OperationPayload) kmip.RequestBatchItem {
		return kmip.RequestBatchItem{Operation: kmip.Operation(op), RequestPayload: pl}
	}
	rsItem := func(op uint32, pl kmip.OperationPayload) kmip.ResponseBatchItem {
		return kmip.ResponseBatchItem{Operation: kmip.Operation(op), ResultStatus: kmip.ResultStatusSuccess, ResponsePayload: pl}
	}

	// ---- operations: the cases ----
	type opCase struct {
		v          vendorOp
		req, resp  *c06RegCase
		tReq, tRes reflect.Type
		nb         []*c06RegCase // unregistered neighbours
		mix        [2]*c06RegCase
		mixTypes   [2][]reflect.Type
	}
	var opCases []*opCase
	for _, v := range ops {
		oc := &opCase{v: v}
		rq, rs := v.newReq(), v.newResp()
		oc.tReq, oc.tRes = reflect.TypeOf(rq), reflect.TypeOf(rs)
		what := fmt.Sprintf("operation 0x%08X", v.code)
		oc.req = e.mkCase(what, false, reqMsg(rqItem(v.code, rq)))
		oc.resp = e.mkCase(what, true, respMsg(rsItem(v.code, rs)))
		for _, n := range []uint32{v.code + 1, v.code - 1, v.code ^ 0x80000000, v.code ^ 0x00010000} {
			if n == 0 || isBuiltin[n] || isVendor[n] {
				continue
			}
			nw := fmt.Sprintf("operation 0x%08X (not registered; 0x%08X is)", n, v.code)
			// the very same content under the neighbouring code
			oc.nb = append(oc.nb, e.mkCase(nw, false, reqMsg(rqItem(n, kmip.NewUnknownPayload(kmip.Operation(n), ttlv.Value{Tag: kmip.TagUniqueIdentifier, Value: "abc"})))),
				e.mkCase(nw, true, respMsg(rsItem(n, kmip.NewUnknownPayload(kmip.Operation(n), ttlv.Value{Tag: kmip.TagUniqueIdentifier, Value: "abc"})))))
		}
		// a batch mixing a built-in operation, the run-time registered one and an unregistered one
		oc.mix[0] = e.mkCase("a batch [Activate, "+what+", unregistered 0x00000033]", false, reqMsg(
			rqItem(uint32(kmip.OperationActivate), &payloads.ActivateRequestPayload{UniqueIdentifier: "id"}),
			rqItem(v.code, v.newReq()),
			rqItem(0x33, kmip.NewUnknownPayload(0x33, ttlv.Value{Tag: 0x540001, Value: int32(5)})),
			rqItem(v.code, v.newReq())))
		oc.mixTypes[0] = []reflect.Type{reflect.TypeFor[*payloads.ActivateRequestPayload](), oc.tReq, tUnknown, oc.tReq}
		oc.mix[1] = e.mkCase("a batch [unregistered 0x80000033, "+what+", Activate]", true, respMsg(
			rsItem(0x80000033, kmip.NewUnknownPayload(0x80000033, ttlv.Value{Tag: 0x540001, Value: int32(5)})),
			rsItem(v.code, v.newResp()),
			rsItem(uint32(kmip.OperationActivate), &payloads.ActivateResponsePayload{UniqueIdentifier: "id"})))
		oc.mixTypes[1] = []reflect.Type{tUnknown, oc.tRes, reflect.TypeFor[*payloads.ActivateResponsePayload]()}
		opCases = append(opCases, oc)
	}
	// every built-in operation with its zero payload (if the library reads that back at all, then with its type)
	type biCase struct {
		c *c06RegCase
		t reflect.Type
	}
	var biCases []biCase
	for _, o := range builtin {
		rq, rs := kmip.VerifNewRequestPayload(o.Operation), kmip.VerifNewResponsePayload(o.Operation)
		what := fmt.Sprintf("built-in operation 0x%08X", uint32(o.Operation))
		biCases = append(biCases, biCase{e.mkCase(what, false, reqMsg(rqItem(uint32(o.Operation), rq))), reflect.TypeOf(rq)},
			biCase{e.mkCase(what, true, respMsg(rsItem(uint32(o.Operation), rs))), reflect.TypeOf(rs)})
	}
	// which of the zero payloads the library reads back is not C06's business: those that decode must have the
	// built-in type, and as many must decode after the registrations as before (compared below)
	checkBuiltins := func(phase string) {
		for _, b := range biCases {
			if b.c == nil {
				continue
			}
			for i, d := range b.c.docs {
				var ptr any = &kmip.RequestMessage{}
				if b.c.response {
					ptr = &kmip.ResponseMessage{}
				}
				if derr, pn := decodeInto(d.codec, d.doc, ptr); derr != nil || pn != "" {
					res.Count("dispatch.reg." + phase + ".builtin-op." + d.codec + ".not-decoded")
					continue
				}
				one := &c06RegCase{what: b.c.what, response: b.c.response, bin: b.c.bin, docs: b.c.docs[i : i+1]}
				e.check(phase, "builtin-op", one, "ok", []reflect.Type{b.t}, nil)
			}
		}
	}

	// ---- objects: the cases ----
	objs := vendorObjs()
	for _, vo := range objs {
		if _, pn := guard("RegisterTag", func() int { vo.registerTag(); return 0 }); pn != "" {
			res.Fail("c06.reg: ttlv.RegisterTag panicked: " + pn)
			return
		}
		if _, err := kmip.NewObjectForType(kmip.ObjectType(vo.ot)); err == nil {
			res.Fail(fmt.Sprintf("c06.reg: object type 0x%08X of the run-time list is registered by the library itself", vo.ot))
			return
		}
	}
	key := []byte("0123456789abcdef")
	symKey := func() kmip.Object {
		return &kmip.SymmetricKey{KeyBlock: kmip.KeyBlock{KeyFormatType: kmip.KeyFormatTypeRaw, CryptographicAlgorithm: kmip.CryptographicAlgorithmAES, CryptographicLength: 128,
			KeyValue: &kmip.KeyValue{Plain: &kmip.PlainKeyValue{KeyMaterial: kmip.KeyMaterial{Bytes: &key}}}}}
	}
	carriers := []struct {
		name     string
		response bool
		t        reflect.Type
		mk       func(ot uint32, obj kmip.Object) any
	}{
		{"Get response", true, reflect.TypeFor[*payloads.GetResponsePayload](), func(ot uint32, obj kmip.Object) any {
			return respMsg(rsItem(uint32(kmip.OperationGet), &payloads.GetResponsePayload{ObjectType: kmip.ObjectType(ot), UniqueIdentifier: "id", Object: obj}))
		}},
		{"Export response", true, reflect.TypeFor[*payloads.ExportResponsePayload](), func(ot uint32, obj kmip.Object) any {
			return respMsg(rsItem(uint32(kmip.OperationExport), &payloads.ExportResponsePayload{ObjectType: kmip.ObjectType(ot), UniqueIdentifier: "id",
				Attribute: []kmip.Attribute{customTextAttr("x-note", "n")}, Object: obj}))
		}},
		{"Register request", false, reflect.TypeFor[*payloads.RegisterRequestPayload](), func(ot uint32, obj kmip.Object) any {
			return reqMsg(rqItem(uint32(kmip.OperationRegister), &payloads.RegisterRequestPayload{ObjectType: kmip.ObjectType(ot), Object: obj}))
		}},
		{"Import request", false, reflect.TypeFor[*payloads.ImportRequestPayload](), func(ot uint32, obj kmip.Object) any {
			return reqMsg(rqItem(uint32(kmip.OperationImport), &payloads.ImportRequestPayload{UniqueIdentifier: "id",
				Attribute: []kmip.Attribute{customTextAttr("x-note", "n"), {AttributeName: kmip.AttributeNameObjectType, AttributeValue: kmip.ObjectType(ot)}}, Object: obj}))
		}},
	}
	type objCase struct {
		same     *c06RegCase
		t        reflect.Type // carrier payload type
		tObj     reflect.Type
		mismatch []*c06RegCase
	}
	var objCases []*objCase
	for i, vo := range objs {
		other := objs[(i+1)%len(objs)]
		for _, ca := range carriers {
			oc := &objCase{t: ca.t, tObj: reflect.TypeOf(vo.newObj())}
			oc.same = e.mkCase(fmt.Sprintf("%s carrying an object of type 0x%08X", ca.name, vo.ot), ca.response, ca.mk(vo.ot, vo.newObj()))
			oc.mismatch = []*c06RegCase{
				e.mkCase(fmt.Sprintf("%s announcing object type 0x%08X and carrying the object registered for 0x%08X", ca.name, vo.ot, other.ot), ca.response, ca.mk(vo.ot, other.newObj())),
				e.mkCase(fmt.Sprintf("%s announcing object type 0x%08X and carrying a Symmetric Key", ca.name, vo.ot), ca.response, ca.mk(vo.ot, symKey())),
				e.mkCase(fmt.Sprintf("%s announcing a Symmetric Key and carrying the object registered for 0x%08X", ca.name, vo.ot), ca.response, ca.mk(uint32(kmip.ObjectTypeSymmetricKey), vo.newObj())),
			}
			objCases = append(objCases, oc)
		}
	}
	builtinObj := e.mkCase("Get response carrying a Symmetric Key", true, carriers[0].mk(uint32(kmip.ObjectTypeSymmetricKey), symKey()))

	// ---- BEFORE the registrations: opaque payloads, unknown object types are errors ----
	for _, oc := range opCases {
		e.check("before", "vendor-op", oc.req, "ok", []reflect.Type{tUnknown}, nil)
		e.check("before", "vendor-op", oc.resp, "ok", []reflect.Type{tUnknown}, nil)
		for _, n := range oc.nb {
			e.check("before", "neighbour-op", n, "ok", []reflect.Type{tUnknown}, nil)
		}
	}
	checkBuiltins("before")
	for _, oc := range objCases {
		e.check("before", "vendor-object", oc.same, "err", nil, nil)
	}
	e.check("before", "builtin-object", builtinObj, "ok", []reflect.Type{carriers[0].t}, reflect.TypeFor[*kmip.SymmetricKey]())

	// ---- the registrations ----
	for _, v := range ops {
		if _, pn := guard("RegisterOperationPayload", func() int { v.register(); return 0 }); pn != "" {
			line := fmt.Sprintf("#c06.reg register-op 0x%08X", v.code)
			ctx.Add(line, "panic", true, "")
			c06Violate(ctx, line, "runtime-registration:register-op-panics", fmt.Sprintf("kmip.RegisterOperationPayload for the unused operation code 0x%08X panics: %s", v.code, pn))
		}
	}
	for _, vo := range objs {
		if _, pn := guard("RegisterObject", func() int { vo.register(); return 0 }); pn != "" {
			line := fmt.Sprintf("#c06.reg register-object 0x%08X", vo.ot)
			ctx.Add(line, "panic", true, "")
			c06Violate(ctx, line, "runtime-registration:register-object-panics", fmt.Sprintf("kmip.RegisterObject for the unused object type 0x%08X panics: %s", vo.ot, pn))
		}
	}

	// ---- AFTER ----
	for _, oc := range opCases {
		e.check("after", "vendor-op", oc.req, "ok", []reflect.Type{oc.tReq}, nil)
		e.check("after", "vendor-op", oc.resp, "ok", []reflect.Type{oc.tRes}, nil)
		for _, n := range oc.nb {
			e.check("after", "neighbour-op", n, "ok", []reflect.Type{tUnknown}, nil)
		}
		e.check("after", "mixed-batch", oc.mix[0], "ok", oc.mixTypes[0], nil)
		e.check("after", "mixed-batch", oc.mix[1], "ok", oc.mixTypes[1], nil)
	}
	checkBuiltins("after")
	for _, oc := range objCases {
		e.check("after", "vendor-object", oc.same, "ok", []reflect.Type{oc.t}, oc.tObj)
		for _, m := range oc.mismatch {
			e.check("after", "vendor-object-mismatch", m, "err", nil, nil)
		}
	}
	e.check("after", "builtin-object", builtinObj, "ok", []reflect.Type{carriers[0].t}, reflect.TypeFor[*kmip.SymmetricKey]())

	// the built-in operations that decoded before must decode after
	for _, codec := range []string{"ttlv", "xml", "json"} {
		b, a := res.Distribution["dispatch.reg.before.builtin-op."+codec+".ok"], res.Distribution["dispatch.reg.after.builtin-op."+codec+".ok"]
		if a != b {
			line := "#c06.reg builtin-op-count " + codec
			ctx.Add(line, fmt.Sprint(a), true, "")
			c06Violate(ctx, line, "runtime-registration:builtin-op:changed", fmt.Sprintf("%d zero-payload messages of built-in operations decoded (%s) before the run-time registrations of OTHER codes, %d after", b, codec, a))
		}
	}
	// floors
	for _, codec := range []string{"ttlv", "xml", "json"} {
		for _, k := range []string{"before.vendor-op", "after.vendor-op", "after.mixed-batch", "before.neighbour-op", "after.neighbour-op", "before.builtin-op", "after.builtin-op", "after.vendor-object", "before.builtin-object"} {
			if res.Distribution["dispatch.reg."+k+"."+codec+".ok"]+res.Distribution["dispatch.reg."+k+"."+codec+".err"]+res.Distribution["dispatch.reg."+k+"."+codec+".panic"] == 0 {
				res.Fail("c06.reg: no decode happened for " + k + "/" + codec)
			}
		}
	}
	out.Done = true
}

// ---- the parent side -------------------------------------------------------------------------------------

// runDispatchRegistered runs the child and merges its cases, violations and counters. only: when non-nil, the
// lines to keep (replay).
func runDispatchRegistered(ctx *Ctx, only map[string]bool) {
	ctx.current = "#c06.reg (child process)"
	cmd := exec.Command(os.Args[0])
	cmd.Env = append(os.Environ(), c06RegChildEnv+"=1")
	var stdout, stderr bytes.Buffer
	cmd.Stdout, cmd.Stderr = &stdout, &stderr
	if err := cmd.Start(); err != nil {
		ctx.Res.Fail("c06.reg: cannot start the child process: " + err.Error())
		return
	}
	done := make(chan error, 1)
	go func() { done <- cmd.Wait() }()
	var werr error
	select {
	case werr = <-done:
	case <-time.After(5 * time.Minute):
		_ = cmd.Process.Kill()
		<-done
		ctx.Res.Fail("c06.reg: the child process did not finish within 5 minutes")
		return
	}
	var out c06RegOut
	if err := json.Unmarshal(stdout.Bytes(), &out); err != nil {
		ctx.Res.Fail(fmt.Sprintf("c06.reg: unreadable child output (%v, exit %v): %s", err, werr, truncate(stderr.String(), 400)))
		return
	}
	keep := func(line string) bool { return only == nil || only[line] }
	for _, c := range out.Cases {
		if keep(c.Line) {
			ctx.Add(c.Line, c.Impl, c.Nontrivial, c.Props)
		}
	}
	for _, v := range out.Violations {
		if keep(v.Line) {
			ctx.Res.Violate(report.Violation{Property: v.Property, Oracle: v.Oracle, Key: v.Key, Detail: v.Detail, Line: v.Line})
		}
	}
	for k, n := range out.Dist {
		if strings.HasPrefix(k, "dispatch.reg.") {
			ctx.Res.Distribution[k] += n
		}
	}
	for _, f := range out.Fail {
		ctx.Res.Fail(f)
	}
	if !out.Done && len(out.Fail) == 0 {
		ctx.Res.Fail("c06.reg: the child process did not complete: " + truncate(stderr.String(), 400))
	}
}
