/-
  Certificate obligations, parts 16..23 of 64 of the `patched` client system (kernel evaluation; 8 modules
  so that lake checks them in parallel; small parts keep the kernel's memory small).
  Assembled in `Lemmas/CliCert.lean`.
-/
import KmipModel.Model.CliConn
import KmipModel.Gen.CertCliConn
namespace Kmip.CliCert
open Kmip.CliLts Kmip.CliConn Kmip.Gen.CertCliConn

theorem paClosed16 : partClosed (sys patched) codec certPatched paP16 = true := by decide +kernel
theorem paSafe16 : partSafe codec (badFull patched) paP16 = true := by decide +kernel
theorem paClosed17 : partClosed (sys patched) codec certPatched paP17 = true := by decide +kernel
theorem paSafe17 : partSafe codec (badFull patched) paP17 = true := by decide +kernel
theorem paClosed18 : partClosed (sys patched) codec certPatched paP18 = true := by decide +kernel
theorem paSafe18 : partSafe codec (badFull patched) paP18 = true := by decide +kernel
theorem paClosed19 : partClosed (sys patched) codec certPatched paP19 = true := by decide +kernel
theorem paSafe19 : partSafe codec (badFull patched) paP19 = true := by decide +kernel
theorem paClosed20 : partClosed (sys patched) codec certPatched paP20 = true := by decide +kernel
theorem paSafe20 : partSafe codec (badFull patched) paP20 = true := by decide +kernel
theorem paClosed21 : partClosed (sys patched) codec certPatched paP21 = true := by decide +kernel
theorem paSafe21 : partSafe codec (badFull patched) paP21 = true := by decide +kernel
theorem paClosed22 : partClosed (sys patched) codec certPatched paP22 = true := by decide +kernel
theorem paSafe22 : partSafe codec (badFull patched) paP22 = true := by decide +kernel
theorem paClosed23 : partClosed (sys patched) codec certPatched paP23 = true := by decide +kernel
theorem paSafe23 : partSafe codec (badFull patched) paP23 = true := by decide +kernel

end Kmip.CliCert
