/-
  Certificate obligations, part 7 of 8 of the `patched` client system (kernel evaluation; one module per
  part so that lake checks them in parallel). Assembled in `Lemmas/CliCert.lean`.
-/
import KmipModel.Model.CliConn
import KmipModel.Gen.CertCliConn
namespace Kmip.CliCert
open Kmip.CliLts Kmip.CliConn Kmip.Gen.CertCliConn

theorem paClosed7 : partClosed (sys patched) codec certPatched paP7 = true := by decide +kernel
theorem paSafe7 : partSafe codec (badFull patched) paP7 = true := by decide +kernel

end Kmip.CliCert
