/-
  C01 — Binary TTLV round trip preserves every KMIP message.

  Model: `KmipModel/Model/Plan.lean` (reflective per-kind plans, the three field wrappers with the shared
  version cell, the 13 hand-written codecs) over the first-order schema regenerated from the Go types
  (`Gen.schema`).  Definitions used by the statements (all in `Lemmas/PlanRoundtrip.lean`):

  * `Schema.unambiguous : Schema → Bool` — the structural condition: for every reflectively decoded
    struct, a field that may emit no item or several (pointer, slice, `omitempty`, version range) does
    not share its tag with any field up to and including the next one that always emits (`firstTags`);
    field kinds are supported; `set-version` fields are plain structures; the hand-written decoders
    agree with the struct tags the reflective encoder uses (`customShapeOK`, constants `T.*`); an object
    never travels under the tags Attribute / ReplaceExisting / KeyWrapType.  Decided for `Gen.schema`
    by the kernel (`gen_unambiguous`).
  * `Conforms S d tag v` — `v` is a well-formed value of dynamic type `d`: `WellFormed` (an executable
    walk `normK` over value and schema: shapes, integer ranges of the Go types, non-nil payloads, dynamic
    types = the ones the decoders reconstruct from context, exactly one member of the union-like
    structs, `ttlv.Value`s carry the tag they are sent under, fields outside the version in force or
    zero under `omitempty` hold the zero value); the items the encoder produces are representable
    (`Item.AllInRange`: tags in (0, 2^24), lengths < 2^32).  No hypothesis about the model's fuel:
    `fuel_suffices` shows the decoder's fuel `bs.length + 3000000` covers every well-formed value.
  * `norm S d tag v` — what the decoder returns: the input with nil byte strings that are emitted
    replaced by empty ones (and, in the two batch-item codecs, empty optional byte strings by nil);
    `norm_content` says that nothing else changes, `norm_idempotent` that it is a normal form.
-/
import KmipModel.Gen.Schema
import KmipModel.Lemmas.PlanRoundtrip18
import KmipModel.Lemmas.PlanExamples
namespace Kmip.C01
open Kmip

/-- C01 (main). For every schema satisfying the structural condition and every well-formed value of
    any dynamic type under any tag: the encoder succeeds, the decoder returns the (normalised) value,
    and re-encoding the decoded value yields the identical bytes. -/
theorem roundtrip (S : Schema) (hU : S.unambiguous = true) (d tag : Nat) (v : Val)
    (hc : Conforms S d tag v) :
    ∃ bs, marshal S d tag v = .ok bs
      ∧ unmarshal S d tag bs = .ok (norm S d tag v)
      ∧ marshal S d tag (norm S d tag v) = .ok bs := by
  obtain ⟨hwf, hir⟩ := hc
  cases hn : normTop S d tag v with
  | none => rw [hn] at hwf; contradiction
  | some p =>
    obtain ⟨v', w⟩ := p
    obtain ⟨items, he, hm, hm', _, hu⟩ := roundtrip_core S hU d tag v v' w hn hir
    have hnorm : norm S d tag v = v' := by unfold norm; rw [hn]
    refine ⟨encList items, hm, ?_, by rw [hnorm]; exact hm'⟩
    have hd := normTop_dyn_lt hn
    rw [unmarshal_eq, if_neg (by omega), hnorm]
    exact hu _ (depth_bound S hU d tag v v' w items w hn he)

/-- the same with the decoder run under ANY fuel `≥ v.depth` (`unmarshalFuel` is the model's
    `unmarshalWith`; `unmarshal` runs it with `decFuel bs.length = bs.length + 3000000`, which always
    suffices: `depth_bound`). -/
theorem roundtrip_anyfuel (S : Schema) (hU : S.unambiguous = true) (d tag : Nat) (v : Val)
    (hwf : (normTop S d tag v).isSome = true)
    (hir : ∀ items ver', encK S marshalFuel (S.dyn d).kind (topTag S d tag) v none = .ok (items, ver') →
      Item.AllInRange items) :
    ∃ bs, marshal S d tag v = .ok bs
      ∧ (∀ fuel, v.depth ≤ fuel → unmarshalFuel S fuel d tag bs = .ok (norm S d tag v))
      ∧ marshal S d tag (norm S d tag v) = .ok bs := by
  cases hn : normTop S d tag v with
  | none => rw [hn] at hwf; contradiction
  | some p =>
    obtain ⟨v', w⟩ := p
    obtain ⟨items, _, hm, hm', _, hu⟩ := roundtrip_core S hU d tag v v' w hn hir
    have hnorm : norm S d tag v = v' := by unfold norm; rw [hn]
    exact ⟨encList items, hm, by rw [hnorm]; exact hu, by rw [hnorm]; exact hm'⟩

theorem unmarshal_is_unmarshalFuel (S : Schema) (d tag : Nat) (bs : Bytes) :
    unmarshal S d tag bs =
      if S.dyns.length ≤ d then .err .other else unmarshalFuel S (decFuel bs.length) d tag bs :=
  unmarshal_eq S d tag bs

/-- the fuel of the model's decoder is never the limiting factor on the encoding of a well-formed
    value (the Go decoder has no fuel). -/
theorem fuel_suffices (S : Schema) (hU : S.unambiguous = true) (d tag : Nat) (v v' : Val) (w : Option Ver)
    (items : List Item) (w2 : Option Ver) (hwf : normTop S d tag v = some (v', w))
    (he : encK S marshalFuel (S.dyn d).kind (topTag S d tag) v none = .ok (items, w2)) :
    v.depth ≤ decFuel (encList items).length :=
  depth_bound S hU d tag v v' w items w2 hwf he

/-- the decoded value is a normal form. -/
theorem norm_idempotent (S : Schema) (hU : S.unambiguous = true) (d tag : Nat) (v : Val)
    (hc : Conforms S d tag v) : norm S d tag (norm S d tag v) = norm S d tag v := by
  obtain ⟨hwf, hir⟩ := hc
  cases hn : normTop S d tag v with
  | none => rw [hn] at hwf; contradiction
  | some p =>
    obtain ⟨v', w⟩ := p
    obtain ⟨_, _, _, _, hn', _⟩ := roundtrip_core S hU d tag v v' w hn hir
    have hnorm : norm S d tag v = v' := by unfold norm; rw [hn]
    rw [hnorm]; unfold norm; rw [hn']

/-- "equal in content": the normalisation only identifies nil and empty byte strings (`ContentEq` is
    equality of Go values up to `[]byte(nil)` vs `[]byte{}`), for every value. -/
theorem norm_content (S : Schema) (d tag : Nat) (v : Val) : ContentEq v (norm S d tag v) :=
  norm_content_aux S d tag v

/-- "the encoding carries exactly the elements populated": the items of a reflectively encoded struct
    are the concatenation, in declaration order, of one part per field — empty when the field is
    skipped (zero under `omitempty`, or outside its version range: `Field.skip`), otherwise exactly what
    the kind's encoder emits under the field's tag. No other item, no reordering. -/
theorem encode_items_exact (S : Schema) (n : Nat) (fs : List Field) (vs : List Val) (ver : Option Ver)
    (items : List Item) (ver' : Option Ver) (h : encFields S n fs vs ver = .ok (items, ver')) :
    ∃ parts : List (List Item), items = parts.flatten ∧ parts.length = fs.length
      ∧ PartsOK S n fs vs ver parts ver' :=
  encode_items_exact_aux S n fs vs ver items ver' h

/-- "nothing dropped": the field loop of a reflectively decoded structure reads back ALL the items the
    encoder emitted for it — the cursor ends on the empty list, no item is left unread (the Go struct
    decoder would silently drop unread trailing children) — and returns the normalised field values.
    (`encode_items_exact` above only restates which part each field contributes — it is the model's
    definition, tied to the code by the byte-for-byte correspondence; this statement and the impl-side
    oracle `every-item-matters` are what say that each emitted item is content of the message.) -/
theorem decode_consumes_all (S : Schema) (hU : S.unambiguous = true) (n : Nat) (fs : List Field)
    (vs : List Val) (ver : Option Ver) (vs' : List Val) (ver' : Option Ver) (items : List Item)
    (hf : ∀ f ∈ fs, S.fieldOK f = true) (hu : unamb fs = true)
    (hn : normFields S n fs vs ver = some (vs', ver'))
    (he : encFields S n fs vs ver = .ok (items, ver')) (hr : Item.AllInRange items) :
    ∀ fd, Val.depthList vs ≤ fd →
      decFields S fd fs (Cur.of (items.map Item.raw)) ver = .ok (vs', Cur.of [], ver') :=
  ((pall S hU n).fd fs vs ver vs' ver' items hf hu hn he).2 hr

/-- every item the encoder emits for a (conforming) value carries the tag it was asked to use, a
    definite kind emits exactly one item, and `decK` reads the items back whatever follows them
    (stage 2/3 in one statement, for every kind, fuel and version cell). -/
theorem roundtrip_kind (S : Schema) (hU : S.unambiguous = true) (n : Nat) (k : Kind) (tag : Nat)
    (v : Val) (ver : Option Ver) (v' : Val) (ver' : Option Ver)
    (h : normK S n k tag v ver = some (v', ver')) :
    ∃ items, encK S n k tag v ver = .ok (items, ver')
      ∧ encK S n k tag v' ver = .ok (items, ver')
      ∧ (∀ it ∈ items, it.tag = tag)
      ∧ (k.definite = true → items.length = 1)
      ∧ (S.decodable k = true → Item.AllInRange items → ∀ (fd : Nat) (rs : List RawItem),
          v.depth ≤ fd → (k.definite = true ∨ htag rs ≠ tag) →
          decK S fd k tag (Cur.of (items.map Item.raw ++ rs)) ver = .ok (v', Cur.of rs, ver')) := by
  obtain ⟨items, he, he', _, ht, hl, _, hd⟩ := (pall S hU n).k k tag v ver v' ver' h
  refine ⟨items, he, he', ht, fun hk => hl (by simp [emitsOne, hk]), ?_⟩
  intro hdec hr fd rs hfd hnc
  refine hd hdec hr fd rs hfd ?_
  rcases hnc with hk | hne
  · exact Or.inl (by simp [emitsOne, hk])
  · exact Or.inr hne


/-! ### The fuel of the executable model is not a bound on the messages -/

/-- the conformance walk and the encoder never change their answer when given more fuel: the constant
    `marshalFuel` only decides WHETHER the executable model reaches the end of a value, never WHAT it
    computes. -/
theorem normK_fuel_irrelevant (S : Schema) (n m : Nat) (hnm : n ≤ m) (k : Kind) (tag : Nat) (v : Val)
    (ver : Option Ver) (r : Val × Option Ver) (h : normK S n k tag v ver = some r) :
    normK S m k tag v ver = some r :=
  normK_mono S hnm h

theorem marshal_fuel_irrelevant (S : Schema) (n m : Nat) (hnm : n ≤ m) (d tag : Nat) (v : Val) (bs : Bytes)
    (h : marshalWith S n d tag v = .ok bs) : marshalWith S m d tag v = .ok bs :=
  marshalWith_mono S hnm h

/-- `marshal` / `Conforms` are the instances at the model's executable fuel. -/
theorem marshal_is_marshalWith (S : Schema) (d tag : Nat) (v : Val) :
    marshal S d tag v = marshalWith S marshalFuel d tag v := rfl

/-- what the constant excludes, exactly: `Conforms` holds iff the value is well-formed at some fuel
    `≤ marshalFuel` (= 100000). -/
theorem conforms_iff_bounded (S : Schema) (hU : S.unambiguous = true) (d tag : Nat) (v : Val) :
    Conforms S d tag v ↔ ∃ n, n ≤ marshalFuel ∧ ConformsAt S n d tag v :=
  ⟨fun h => ⟨marshalFuel, Nat.le_refl _, (conforms_iff_conformsAt S d tag v).1 h⟩,
   fun ⟨_, hn, h⟩ => (conforms_iff_conformsAt S d tag v).2 (h.mono hU hn)⟩

/-- C01 (main, no fuel constant). For every schema satisfying the structural condition and every value
    that is well-formed for SOME fuel of the walk (`WellFormedValue`: the walk is structurally recursive
    on the value, so this is every value of the right shape, whatever its batch length, slice lengths
    and nesting depth): there are bytes `bs` and a value `v'` equal in content to `v` such that, for
    every sufficiently large encoder fuel, the encoder maps both `v` and `v'` to `bs` and `v'` is the
    normal form of both; and for every decoder fuel `≥ v.depth` the decoder maps `bs` to `v'`. -/
theorem roundtrip_unbounded (S : Schema) (hU : S.unambiguous = true) (d tag : Nat) (v : Val)
    (h : WellFormedValue S d tag v) :
    ∃ (bs : Bytes) (v' : Val), ContentEq v v'
      ∧ (∃ n0, ∀ n, n0 ≤ n →
          marshalWith S n d tag v = .ok bs ∧ marshalWith S n d tag v' = .ok bs
          ∧ (normTopAt S n d tag v).map Prod.fst = some v'
          ∧ (normTopAt S n d tag v').map Prod.fst = some v')
      ∧ ∀ fd, v.depth ≤ fd → unmarshalFuel S fd d tag bs = .ok v' := by
  obtain ⟨n0, hwf, hir⟩ := h
  cases hn : normTopAt S n0 d tag v with
  | none => rw [hn] at hwf; contradiction
  | some p =>
    obtain ⟨v', w⟩ := p
    obtain ⟨items, _, hm, hm', hn', hu⟩ := roundtrip_core_at S hU n0 d tag v v' w hn hir
    refine ⟨encList items, v', normTopAt_content S n0 d tag v v' w hn, ⟨n0, ?_⟩, hu⟩
    intro n hle
    exact ⟨marshalWith_mono S hle hm, marshalWith_mono S hle hm',
      by rw [normTopAt_mono S hle hn]; rfl, by rw [normTopAt_mono S hle hn']; rfl⟩

/-- every `Conforms` value is a `WellFormedValue`. -/
theorem conforms_wellFormedValue (S : Schema) (d tag : Nat) (v : Val) (h : Conforms S d tag v) :
    WellFormedValue S d tag v :=
  ⟨marshalFuel, (conforms_iff_conformsAt S d tag v).1 h⟩

/-- the round trip at any fixed encoder fuel `n` (the executable `roundtrip` is `n = marshalFuel`). -/
theorem roundtrip_at (S : Schema) (hU : S.unambiguous = true) (n d tag : Nat) (v : Val)
    (hc : ConformsAt S n d tag v) :
    ∃ bs v', normTopAt S n d tag v = some v'
      ∧ marshalWith S n d tag v = .ok bs
      ∧ (∀ fd, v.depth ≤ fd → unmarshalFuel S fd d tag bs = .ok v'.1)
      ∧ marshalWith S n d tag v'.1 = .ok bs := by
  obtain ⟨hwf, hir⟩ := hc
  cases hn : normTopAt S n d tag v with
  | none => rw [hn] at hwf; contradiction
  | some p =>
    obtain ⟨v', w⟩ := p
    obtain ⟨items, _, hm, hm', _, hu⟩ := roundtrip_core_at S hU n d tag v v' w hn hir
    exact ⟨encList items, (v', w), rfl, hm, hu, hm'⟩

/-! ### The bytes are well-formed TTLV (composition with C03) -/

/-- the encoding of a conforming value is ONE item, and the independent strict specification parser of
    C03 (`specDecode`, which mentions neither the writer nor the reader) reads it back. -/
theorem encoding_is_strict_ttlv (S : Schema) (hU : S.unambiguous = true) (d tag : Nat) (v : Val)
    (hc : Conforms S d tag v) :
    ∃ it : Item, marshal S d tag v = .ok (enc it) ∧ it.InRange ∧ it.tag = topTag S d tag
      ∧ specDecode (enc it) = some it := by
  obtain ⟨hwf, hir⟩ := hc
  cases hn : normTop S d tag v with
  | none => rw [hn] at hwf; contradiction
  | some p =>
    obtain ⟨v', w⟩ := p
    obtain ⟨items, he, hm, _⟩ := roundtrip_core S hU d tag v v' w hn hir
    unfold normTop at hn
    obtain ⟨hcnd, hnk⟩ := ite_eq_some hn
    simp only [Bool.and_eq_true] at hcnd
    obtain ⟨items2, he2, _, _, ht, hl, _⟩ := (pall S hU marshalFuel).k _ _ _ _ _ _ hnk
    rw [he] at he2
    simp only [Res.ok.injEq, Prod.mk.injEq] at he2
    obtain ⟨it, hit⟩ := list_len1 (hl (dynValOk_emitsOne hcnd.1))
    rw [← he2.1] at hit
    subst hit
    have hr : it.InRange := ((Item.allInRange_singleton it).1 (hir _ _ he))
    refine ⟨it, by rw [hm]; simp [encList], hr, ?_, ?_⟩
    · exact ht it (by rw [← he2.1]; exact List.mem_singleton.2 rfl)
    · have hs := size_le_length_aux it
      have := specParse_enc_aux it hr ((enc it).length + 1) (by omega) []
      rw [List.append_nil] at this
      simp [specDecode, this]

/-! ### The regenerated schema -/

/-- the structural condition holds of the schema extracted from the Go types (kernel evaluation). -/
theorem gen_unambiguous : Gen.schema.unambiguous = true := by decide +kernel

/-- C01 for request messages (`ttlv.MarshalTTLV(&kmip.RequestMessage{…})`, any version 1.0–1.4 carried
    by the header). -/
theorem roundtrip_request (v : Val) (hc : Conforms Gen.schema Gen.requestMessageDyn 0 v) :
    ∃ bs, marshal Gen.schema Gen.requestMessageDyn 0 v = .ok bs
      ∧ unmarshal Gen.schema Gen.requestMessageDyn 0 bs = .ok (norm Gen.schema Gen.requestMessageDyn 0 v)
      ∧ marshal Gen.schema Gen.requestMessageDyn 0 (norm Gen.schema Gen.requestMessageDyn 0 v) = .ok bs :=
  roundtrip Gen.schema gen_unambiguous _ _ v hc

/-- C01 for response messages. -/
theorem roundtrip_response (v : Val) (hc : Conforms Gen.schema Gen.responseMessageDyn 0 v) :
    ∃ bs, marshal Gen.schema Gen.responseMessageDyn 0 v = .ok bs
      ∧ unmarshal Gen.schema Gen.responseMessageDyn 0 bs = .ok (norm Gen.schema Gen.responseMessageDyn 0 v)
      ∧ marshal Gen.schema Gen.responseMessageDyn 0 (norm Gen.schema Gen.responseMessageDyn 0 v) = .ok bs :=
  roundtrip Gen.schema gen_unambiguous _ _ v hc

/-! ### Non-vacuity -/

/-- dynamic type ids are looked up in the regenerated schema, not written down: renumbering `Gen.schema`
    does not disturb the examples. -/
def dReq (op : Nat) : Nat := Gen.schema.payloadDyn op false
def dResp (op : Nat) : Nat := Gen.schema.payloadDyn op true
def dObj (ot : Nat) : Nat := (Gen.schema.objectDyn ot).getD 0
def dAttr (name : Bytes) : Nat := Gen.schema.attrDyn name

/-- RequestHeader, protocol version 1.2, BatchCount 2, everything else absent. -/
def exHeader : Val := .struct [
  .struct [.int 1, .int 2], .int 0, .text [], .text [], .ptr none, .ptr none, .list [], .ptr none,
  .int 0, .ptr none, .ptr none, .int 2]

/-- a Get request (operation 0x0A) for "id", with UniqueBatchItemID 0x01. -/
def exGet : Val := .struct [.int 0xA, .bytes (some [1]),
  .iface (some (dReq 0xA, .ptr (some (.struct [.text [0x69, 0x64], .int 0, .int 0, .int 0, .ptr none])))),
  .ptr none]

/-- an unknown operation (0x99) whose payload is kept as an opaque structure. -/
def exUnknown : Val := .struct [.int 0x99, .bytes none,
  .iface (some (Gen.schema.unknownPayloadDyn,
    .ptr (some (.struct [.anyStruct [Item.int 0x540001 7, Item.text 0x540002 [0x78]]])))),
  .ptr none]

def exMsg : Val := .ptr (some (.struct [exHeader, .list [exGet, exUnknown]]))

/-- a response: header 1.4 with a time stamp, one Get response item carrying a symmetric key with a
    wrapped (byte string) key value, result status Success. -/
def exResp : Val := .ptr (some (.struct [
  .struct [.struct [.int 1, .int 4], .int 1700000000, .ptr none, .list [], .text [0x63], .text [], .int 1],
  .list [.struct [.int 0xA, .bytes (some [1]), .int 0, .int 0, .text [], .bytes none,
    .iface (some (dResp 0xA, .ptr (some (.struct [.int 2, .text [0x69, 0x64],
      .iface (some (dObj 2, .ptr (some (.struct [
        .struct [.int 1, .int 0, .ptr (some (.struct [.ptr (some (.bytes (some [1, 2, 3]))), .ptr none])),
          .int 3, .int 256, .ptr none]]))))])))),
    .ptr none]]]))

set_option maxRecDepth 100000 in
theorem exMsg_conforms : Conforms Gen.schema Gen.requestMessageDyn 0 exMsg :=
  conforms_of_checks _ _ _ _ (by decide +kernel) (by decide +kernel)

set_option maxRecDepth 100000 in
theorem exResp_conforms : Conforms Gen.schema Gen.responseMessageDyn 0 exResp :=
  conforms_of_checks _ _ _ _ (by decide +kernel) (by decide +kernel)


/-! ### Non-vacuity on the hand-written codecs with context-dependent dynamic types -/

/-- a 3-item request batch at version 1.3 with a credential (union-like CredentialValue): Register of a
    PrivateKey in the TransparentRSAPrivateKey format — modulus 2^64+13 (needs a sign-padding block),
    NEGATIVE private exponent −129, public exponent 65537, a Cryptographic Usage Mask attribute inside
    the key value — with a template holding an indexed Name attribute and a custom `x-custom`
    attribute (a generic value); a Locate with an Object Type attribute; an unknown operation 0x99. -/
def exRegister : Val :=
  .ptr (some (.struct [.struct [.struct [.int 1, .int 3], .int 0, .text [], .text [], .ptr none, .ptr none,
    .list [], .ptr (some (.struct [.struct [.int 1, .struct [.ptr (some (.struct [.text [0x75], .text
    [0x70]])), .ptr none, .ptr none]], .list []])), .int 0, .ptr none, .ptr none, .int 3], .list [.struct
    [.int 3, .bytes (some [0x01]), .iface (some (dReq 3, .ptr (some (.struct [.int 4, .struct [.list [],
    .list [.struct [.text [0x4E, 0x61, 0x6D, 0x65], .ptr (some (.int 1)), .iface (some (dAttr [0x4E, 0x61,
    0x6D, 0x65], .struct [.text [0x6B], .int 1]))], .struct [.text [0x78, 0x2D, 0x63, 0x75, 0x73, 0x74,
    0x6F, 0x6D], .ptr none, .iface (some (Gen.schema.valueDyn, .any (some (Item.int T.attributeValue
    (-7)))))]]], .iface (some (dObj 4, .ptr (some (.struct [.struct [.int 10, .int 0, .ptr (some (.struct
    [.ptr none, .ptr (some (.struct [.struct [.ptr none, .ptr none, .ptr (some (.struct [.big
    (18446744073709551629), .ptr (some (.big (-129))), .ptr (some (.big (65537))), .ptr none, .ptr none,
    .ptr none, .ptr none, .ptr none])), .ptr none, .ptr none, .ptr none, .ptr none, .ptr none], .list
    [.struct [.text [0x43, 0x72, 0x79, 0x70, 0x74, 0x6F, 0x67, 0x72, 0x61, 0x70, 0x68, 0x69, 0x63, 0x20,
    0x55, 0x73, 0x61, 0x67, 0x65, 0x20, 0x4D, 0x61, 0x73, 0x6B], .ptr none, .iface (some (dAttr [0x43, 0x72,
    0x79, 0x70, 0x74, 0x6F, 0x67, 0x72, 0x61, 0x70, 0x68, 0x69, 0x63, 0x20, 0x55, 0x73, 0x61, 0x67, 0x65,
    0x20, 0x4D, 0x61, 0x73, 0x6B], .int 1))]]]))])), .int 4, .int 64, .ptr none]]))))])))), .ptr none],
    .struct [.int 8, .bytes (some [0x02]), .iface (some (dReq 8, .ptr (some (.struct [.int 5, .int 0, .int
    0, .int 0, .list [.struct [.text [0x4F, 0x62, 0x6A, 0x65, 0x63, 0x74, 0x20, 0x54, 0x79, 0x70, 0x65],
    .ptr none, .iface (some (dAttr [0x4F, 0x62, 0x6A, 0x65, 0x63, 0x74, 0x20, 0x54, 0x79, 0x70, 0x65], .int
    2))]]])))), .ptr none], .struct [.int 153, .bytes (some [0x03]), .iface (some
    (Gen.schema.unknownPayloadDyn, .ptr (some (.struct [.anyStruct []])))), .ptr none]]]))

/-- a response at version 1.4: an Export response (object type, identifier, attribute list, then a
    SymmetricKey whose dynamic type is decided by the object type) and a failed Get (status 1, reason 1,
    message, no payload). -/
def exExport : Val :=
  .ptr (some (.struct [.struct [.struct [.int 1, .int 4], .int 1700000000, .ptr none, .list [], .text [],
    .text [], .int 2], .list [.struct [.int 43, .bytes (some [0x01]), .int 0, .int 0, .text [], .bytes none,
    .iface (some (dResp 43, .ptr (some (.struct [.int 2, .text [0x69, 0x64], .list [.struct [.text [0x53,
    0x74, 0x61, 0x74, 0x65], .ptr none, .iface (some (dAttr [0x53, 0x74, 0x61, 0x74, 0x65], .int 2))]],
    .iface (some (dObj 2, .ptr (some (.struct [.struct [.int 1, .int 0, .ptr (some (.struct [.ptr none, .ptr
    (some (.struct [.struct [.ptr (some (.bytes (some [0x01, 0x02, 0x03]))), .ptr none, .ptr none, .ptr
    none, .ptr none, .ptr none, .ptr none, .ptr none], .list []]))])), .int 3, .int 24, .ptr
    none]]))))])))), .ptr none], .struct [.int 10, .bytes (some [0x02]), .int 1, .int 1, .text [0x6E, 0x6F],
    .bytes none, .iface none, .ptr none]]]))

/-- an Import request at 1.4 (optional ReplaceExisting / KeyWrapType before the attribute list; the object
    type is found in the first `Object Type` attribute). -/
def exImport : Val :=
  .ptr (some (.struct [.struct [.struct [.int 1, .int 4], .int 0, .text [], .text [], .ptr none, .ptr none,
    .list [], .ptr none, .int 0, .ptr none, .ptr none, .int 1], .list [.struct [.int 42, .bytes none, .iface
    (some (dReq 42, .ptr (some (.struct [.text [0x69, 0x64], .bool true, .int 1, .list [.struct [.text
    [0x4F, 0x62, 0x6A, 0x65, 0x63, 0x74, 0x20, 0x54, 0x79, 0x70, 0x65], .ptr none, .iface (some (dAttr
    [0x4F, 0x62, 0x6A, 0x65, 0x63, 0x74, 0x20, 0x54, 0x79, 0x70, 0x65], .int 2))]], .iface (some (dObj 2,
    .ptr (some (.struct [.struct [.int 1, .int 0, .ptr (some (.struct [.ptr none, .ptr (some (.struct
    [.struct [.ptr (some (.bytes (some [0x01, 0x02, 0x03]))), .ptr none, .ptr none, .ptr none, .ptr none,
    .ptr none, .ptr none, .ptr none], .list []]))])), .int 3, .int 24, .ptr none]]))))])))), .ptr none]]]))

/-- encoded lengths of the three big integers of `exRegister`. -/
def exBigLens : BigLens := [(18446744073709551629, 16), (-129, 8), (65537, 8)]

theorem exBigLens_sound : exBigLens.Sound := by
  intro p hp
  simp only [exBigLens, List.mem_cons, List.mem_nil_iff, or_false] at hp
  rcases hp with rfl | rfl | rfl
  · show (encodeBig 18446744073709551629).length = 16
    rw [encodeBig_pos _ (by decide)]
    simp [posPad, natToBytesBE, padForLen]
  · show (encodeBig (-129)).length = 8
    rw [encodeBig_neg _ (by decide)]
    simp [negBody, negPad, natToBytesBE, negEncLE, padForLen]
  · show (encodeBig 65537).length = 8
    rw [encodeBig_pos _ (by decide)]
    simp [posPad, natToBytesBE, padForLen]

set_option maxRecDepth 100000 in
theorem exRegister_conforms : Conforms Gen.schema Gen.requestMessageDyn 0 exRegister :=
  conforms_of_checksW exBigLens exBigLens_sound _ _ _ _ (by decide +kernel) (by decide +kernel)

set_option maxRecDepth 100000 in
theorem exExport_conforms : Conforms Gen.schema Gen.responseMessageDyn 0 exExport :=
  conforms_of_checks _ _ _ _ (by decide +kernel) (by decide +kernel)

set_option maxRecDepth 100000 in
theorem exImport_conforms : Conforms Gen.schema Gen.requestMessageDyn 0 exImport :=
  conforms_of_checks _ _ _ _ (by decide +kernel) (by decide +kernel)

example := roundtrip_request exRegister exRegister_conforms
example := roundtrip_response exExport exExport_conforms
example := roundtrip_request exImport exImport_conforms

set_option maxRecDepth 100000 in
/-- the fuel the examples need is tiny compared with `marshalFuel`: `exRegister` is already well-formed
    at fuel 64 (and, by `ConformsAt.mono`, at every larger one). -/
theorem exRegister_conformsAt_64 : ConformsAt Gen.schema 64 Gen.requestMessageDyn 0 exRegister :=
  conformsAt_of_checks exBigLens exBigLens_sound _ _ _ _ _ (by decide +kernel) (by decide +kernel)

example : WellFormedValue Gen.schema Gen.requestMessageDyn 0 exRegister := ⟨64, exRegister_conformsAt_64⟩

set_option maxRecDepth 100000 in
/-- … and NOT at fuel 10: the fuel hypothesis is a real one at small values. -/
example : (normTopAt Gen.schema 10 Gen.requestMessageDyn 0 exRegister).isSome = false := by decide +kernel

set_option maxRecDepth 100000 in
/-- a value outside `Conforms` (documented restriction): the same custom attribute holding a Go `int32`
    instead of a `ttlv.Value` — the decoder returns a `ttlv.Value`, so the Go type is not preserved. -/
example : (normK Gen.schema 50 (.struct (attributeId Gen.schema)) T.attr
    (.struct [.text [0x78, 0x2D, 0x63], .ptr none,
      .iface (some (dAttr [0x43, 0x72, 0x79, 0x70, 0x74, 0x6F, 0x67, 0x72, 0x61, 0x70, 0x68, 0x69, 0x63, 0x20,
        0x4C, 0x65, 0x6E, 0x67, 0x74, 0x68], .int (-7)))]) none).isSome = false := by decide +kernel

/-- the hypotheses of `roundtrip_request` are satisfiable by a non-trivial message… -/
example : ∃ bs, marshal Gen.schema Gen.requestMessageDyn 0 exMsg = .ok bs
    ∧ unmarshal Gen.schema Gen.requestMessageDyn 0 bs = .ok (norm Gen.schema Gen.requestMessageDyn 0 exMsg)
    ∧ marshal Gen.schema Gen.requestMessageDyn 0 (norm Gen.schema Gen.requestMessageDyn 0 exMsg) = .ok bs :=
  roundtrip_request exMsg exMsg_conforms

example : ∃ bs, marshal Gen.schema Gen.responseMessageDyn 0 exResp = .ok bs
    ∧ unmarshal Gen.schema Gen.responseMessageDyn 0 bs = .ok (norm Gen.schema Gen.responseMessageDyn 0 exResp)
    ∧ marshal Gen.schema Gen.responseMessageDyn 0 (norm Gen.schema Gen.responseMessageDyn 0 exResp) = .ok bs :=
  roundtrip_response exResp exResp_conforms

/-- …and the model really evaluates on it (kernel evaluation, no `native_decide`): 200 bytes. -/
def resLen (r : Res Bytes) : Nat := match r with | .ok bs => bs.length | _ => 0
def resOk {α : Type} (r : Res α) : Bool := match r with | .ok _ => true | _ => false

set_option maxRecDepth 100000 in
example : resLen (marshal Gen.schema Gen.requestMessageDyn 0 exMsg) = 200 := by decide +kernel

set_option maxRecDepth 100000 in
example : resOk (match marshal Gen.schema Gen.requestMessageDyn 0 exMsg with
    | .ok bs => unmarshal Gen.schema Gen.requestMessageDyn 0 bs
    | _ => .err .other) = true := by decide +kernel

/-- the normalisation is visible on the example: the nil UniqueBatchItemID of the second item stays
    nil, nothing else changes (here `norm` is the identity). -/
example : ContentEq exMsg (norm Gen.schema Gen.requestMessageDyn 0 exMsg) := norm_content _ _ _ _

/- a value that is NOT well formed: a version-1.4 field (ClientCorrelationValue) populated in a
    1.2 header — the encoder drops it by design (C05), so it is excluded from the round trip. -/
set_option maxRecDepth 100000 in
example : (normTop Gen.schema Gen.requestMessageDyn 0 (.ptr (some (.struct [
    .struct [.struct [.int 1, .int 2], .int 0, .text [0x63], .text [], .ptr none, .ptr none, .list [],
      .ptr none, .int 0, .ptr none, .ptr none, .int 0], .list []])))).isSome = false := by decide +kernel

end Kmip.C01
