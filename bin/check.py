#!/usr/bin/env python3
"""
check.py <Cxx> quick|thorough          run the check of one property against /repo's working tree
check.py <Cxx> --replay <file>          re-run the cases recorded in a replay file

Pipeline (DESIGN.md §6):
  build harness from /repo (-tags verif)  ->  regenerate Gen/*.lean  ->  lake build Props.Cxx (+ driver)
  ->  axiom audit  ->  correspondence engines + impl-side oracles  ->  verdict, evidence, replay.
Exit 0: property held on everything explored (KNOWN-FINDING lines for recorded findings).
Exit 1: a line `VIOLATION property=<id> replay=<path>[ no-failing-input-found]` was printed.
"""
import fcntl
import hashlib
import json
import os
import re
import subprocess
import sys
import time

VERIF = os.path.dirname(os.path.dirname(os.path.abspath(__file__)))
REPO = os.environ.get("VERIF_REPO", "/repo")
LEAN = os.path.join(VERIF, "lean")
GO = os.path.join(VERIF, "go")
WORK = os.path.join(VERIF, ".work")
BIN = os.path.join(WORK, "bin")
MODEL = os.path.join(LEAN, ".lake", "build", "bin", "kmip-model")

sys.path.insert(0, os.path.join(VERIF, "bin"))
from props import PROPS  # noqa: E402

# Testing aid: VERIF_OVERLAY=<go build overlay json> builds the harness against /repo with some source files
# replaced (a mutant) without touching /repo; binaries then go to a private directory.
OVERLAY = os.environ.get("VERIF_OVERLAY", "")
if OVERLAY:
    BIN = os.path.join(WORK, "bin-" + hashlib.sha1(open(OVERLAY, "rb").read()).hexdigest()[:10])
GOENV = dict(os.environ, GOFLAGS="-mod=mod" + (" -overlay=" + OVERLAY if OVERLAY else ""), GOPROXY="off", VERIF_MODEL=MODEL)
GOENV.pop("GOTOOLCHAIN", None) if os.environ.get("GOTOOLCHAIN") == "local" else None

TRUSTED_BASE = [
    "Lean 4.33.0 kernel (lake build; thorough tier re-checks with leanchecker)",
    "axioms allowed in property theorems: propext, Quot.sound, Classical.choice (audited per theorem by lean/Audit.lean)",
    "hand-written executable model lean/KmipModel/Model/* — tied to /repo by the differential correspondence engines of go/cmd/harness on this run",
    "regenerated tables lean/KmipModel/Gen/* — produced from /repo's current tree by go/cmd/extract on this run",
    "Go harness: generators, independent TTLV writer/parser (go/internal/tree), canonicalisation",
    "modelled, not verified: Go runtime (channels, select, atomics, contexts), encoding/xml, encoding/json, strconv, math/big, time, crypto/*, reflect",
]


def sh(cmd, cwd=None, env=None, timeout=None):
    p = subprocess.run(cmd, cwd=cwd, env=env, stdout=subprocess.PIPE, stderr=subprocess.STDOUT,
                       text=True, timeout=timeout)
    return p.returncode, p.stdout


class Lock:
    def __init__(self, name):
        os.makedirs(WORK, exist_ok=True)
        self.path = os.path.join(WORK, name)

    def __enter__(self):
        self.f = open(self.path, "w")
        fcntl.flock(self.f, fcntl.LOCK_EX)

    def __exit__(self, *a):
        fcntl.flock(self.f, fcntl.LOCK_UN)
        self.f.close()


def repo_fingerprint():
    """hash of the Go sources of /repo's working tree (so that unchanged trees skip rebuilds)."""
    h = hashlib.sha256()
    for root, dirs, files in os.walk(REPO):
        dirs[:] = sorted(d for d in dirs if d not in (".git", "examples"))
        for f in sorted(files):
            if f.endswith(".go") or f in ("go.mod", "go.sum"):
                p = os.path.join(root, f)
                h.update(p.encode())
                with open(p, "rb") as fh:
                    h.update(fh.read())
    for root, dirs, files in os.walk(GO):
        dirs[:] = sorted(dirs)
        for f in sorted(files):
            p = os.path.join(root, f)
            h.update(p.encode())
            with open(p, "rb") as fh:
                h.update(fh.read())
    return h.hexdigest()


def build_harness(log):
    """(re)build harness + extractor from /repo's current tree with hooks enabled."""
    os.makedirs(BIN, exist_ok=True)
    fp = repo_fingerprint() + OVERLAY
    stamp = os.path.join(BIN, "stamp")
    if os.path.exists(stamp) and open(stamp).read() == fp and all(
            os.path.exists(os.path.join(BIN, b)) for b in ("harness", "extract")):
        return True, fp
    for b in ("harness", "extract", "stamp"):
        try:
            os.remove(os.path.join(BIN, b))
        except FileNotFoundError:
            pass
    sumsrc = os.path.join(REPO, "go.sum")
    if os.path.exists(sumsrc):
        with open(sumsrc) as a, open(os.path.join(GO, "go.sum"), "w") as b:
            b.write(a.read())
    for b in ("harness", "extract"):
        if not os.path.isdir(os.path.join(GO, "cmd", b)):
            continue
        rc, out = sh(["go", "build", "-tags", "verif", "-o", os.path.join(BIN, b), "./cmd/" + b], cwd=GO, env=GOENV)
        log.append(f"$ go build -tags verif ./cmd/{b} -> {rc}\n{out}")
        if rc != 0:
            return False, fp
    with open(stamp, "w") as f:
        f.write(fp)
    return True, fp


def regenerate(log):
    """run the extractor: rewrites lean/KmipModel/Gen/*.lean only when content changed."""
    ex = os.path.join(BIN, "extract")
    if not os.path.exists(ex):
        return True
    rc, out = sh([ex, "-out", os.path.join(LEAN, "KmipModel", "Gen")], cwd=GO, env=GOENV, timeout=600)
    log.append(f"$ extract -> {rc}\n{out}")
    return rc == 0


def lake_build(targets, log):
    rc, out = sh(["lake", "build"] + targets, cwd=LEAN, timeout=3600)
    # keep only errors for the log
    errs = "\n".join(l for l in out.splitlines() if "error" in l.lower() or l.startswith("✖"))
    log.append(f"$ lake build {' '.join(targets)} -> {rc}\n{errs[-4000:]}")
    return rc == 0, out


def audit(prop, log):
    rc, out = sh(["lake", "env", "lean", "--run", "Audit.lean", prop], cwd=LEAN, timeout=900)
    thms, summary = [], None
    for l in out.splitlines():
        l = l.strip()
        if not l.startswith("{"):
            continue
        try:
            o = json.loads(l)
        except Exception:
            continue
        if o.get("summary"):
            summary = o
        else:
            thms.append(o)
    log.append(f"$ Audit {prop} -> {rc} ({len(thms)} theorems)")
    return rc == 0 and summary is not None, thms, out


FORBIDDEN = re.compile(r"\b(sorry|admit|native_decide|bv_decide|implemented_by)\b|^\s*axiom\s|^\s*unsafe\s|maxHeartbeats\s+0\b", re.M)


def grep_forbidden():
    """scan the proof/model sources for forbidden constructs (comments stripped roughly)."""
    hits = []
    for sub in ("KmipModel",):
        for root, _, files in os.walk(os.path.join(LEAN, sub)):
            for f in files:
                if not f.endswith(".lean"):
                    continue
                p = os.path.join(root, f)
                src = open(p, encoding="utf-8").read()
                src = re.sub(r"/-.*?-/", "", src, flags=re.S)
                src = re.sub(r"--.*", "", src)
                for m in FORBIDDEN.finditer(src):
                    hits.append(f"{os.path.relpath(p, LEAN)}: {m.group(0).strip()}")
    return hits


def load_known():
    path = os.path.join(VERIF, "known_findings.jsonl")
    res = []
    if os.path.exists(path):
        for l in open(path):
            l = l.strip()
            if l and not l.startswith("#"):
                res.append(json.loads(l))
    return res


def run_engines(prop, tier, seed, log, replay_lines=None):
    cfg = PROPS[prop]
    results = []
    outp = os.path.join(WORK, "out", f"{prop}-{tier}-{os.getpid()}")
    os.makedirs(os.path.dirname(outp), exist_ok=True)
    for eng in cfg["engines"]:
        cmd = [os.path.join(BIN, "harness"), "-engine", eng, "-tier", tier, "-seed", str(seed), "-out", outp]
        if replay_lines is not None:
            rp = outp + ".replay.txt"
            with open(rp, "w") as f:
                f.write("\n".join(replay_lines) + "\n")
            cmd += ["-replay", rp]
        t0 = time.time()
        try:
            rc, out = sh(cmd, cwd=GO, env=GOENV, timeout=7200 if tier == "thorough" else 1500)
        except subprocess.TimeoutExpired:
            rc, out = 124, "timeout"
        log.append(f"$ harness -engine {eng} -tier {tier} -seed {seed} -> {rc} in {time.time()-t0:.1f}s\n{out[-2000:]}")
        rfile = f"{outp}.{eng}.json"
        if os.path.exists(rfile):
            results.append(json.load(open(rfile)))
            os.remove(rfile)
        else:
            results.append({"engine": eng, "cases": 0, "distinct_nontrivial": 0, "disagreements": [], "violations": [],
                            "harness_errors": [f"engine {eng} produced no result (exit {rc}): {out[-1500:]}"],
                            "distribution": {}, "samples": [], "rule": "", "wall_s": 0})
    return results


def write_replay(prop, kind, payload):
    os.makedirs(os.path.join(VERIF, "replays"), exist_ok=True)
    h = hashlib.sha1(json.dumps(payload, sort_keys=True).encode()).hexdigest()[:12]
    path = os.path.join(VERIF, "replays", f"{prop}-{kind}-{h}.json")
    payload = dict(payload, property=prop, kind=kind,
                   rerun=f"python3 bin/check.py {prop} --replay {os.path.relpath(path, VERIF)}")
    with open(path, "w") as f:
        json.dump(payload, f, indent=1)
    return os.path.relpath(path, VERIF)


def main():
    if len(sys.argv) < 3 or sys.argv[1] not in PROPS:
        print(__doc__)
        sys.exit(2)
    prop = sys.argv[1]
    cfg = PROPS[prop]
    replay_lines = None
    if sys.argv[2] == "--replay":
        rp = json.load(open(sys.argv[3] if os.path.isabs(sys.argv[3]) else os.path.join(VERIF, sys.argv[3])))
        replay_lines = rp.get("lines", [])
        tier = "quick"
    else:
        tier = sys.argv[2]
        if tier not in ("quick", "thorough"):
            print(__doc__)
            sys.exit(2)
    tier = os.environ.get("VERIF_TIER", tier) if sys.argv[2] != "--replay" else tier
    seed = int(os.environ.get("VERIF_SEED", "1"))
    t0 = time.time()
    log = []
    violations_out = []   # (line to print, is_known)
    known = load_known()
    known_open = [k for k in known if k.get("status") == "open" and k.get("property") == prop]

    # ---- 1. build from /repo's current tree ---------------------------------------------------
    with Lock("build.lock"):
        ok_build, fp = build_harness(log)
        ok_gen = ok_build and regenerate(log)
        targets = [f"KmipModel.Props.{prop}", "kmip-model"]
        ok_lean, lean_out = (False, "")
        if ok_gen and cfg.get("certs"):
            # reachable-set certificates are printed by the (untrusted) driver and re-checked by the kernel
            ok_m, lean_out = lake_build(["kmip-model"], log)
            if ok_m:
                for name, fname in cfg["certs"]:
                    rc, out = sh([MODEL], cwd=LEAN, timeout=1800) if False else (0, "")
                    pr = subprocess.run([MODEL], input=f"lts.cert {name}\n", cwd=LEAN, stdout=subprocess.PIPE, stderr=subprocess.STDOUT, text=True, timeout=1800)
                    path = os.path.join(LEAN, "KmipModel", "Gen", fname)
                    old_txt = open(path).read() if os.path.exists(path) else None
                    if pr.returncode == 0 and pr.stdout.strip() and "namespace" in pr.stdout:
                        if pr.stdout != old_txt:
                            with open(path, "w") as f:
                                f.write(pr.stdout)
                        log.append(f"$ lts.cert {name} -> {fname} ({len(pr.stdout)} bytes, {'rewritten' if pr.stdout != old_txt else 'unchanged'})")
                    else:
                        log.append(f"$ lts.cert {name} FAILED rc={pr.returncode}: {pr.stdout[-300:]}")
                        ok_gen = False
        if ok_gen:
            ok_lean, lean_out = lake_build(targets, log)
        # run the engines against a private copy of the driver (a concurrent relink must not disturb them)
        model_run = os.path.join(BIN, "kmip-model.run")
        if ok_lean and os.path.exists(MODEL):
            import shutil
            tmp = model_run + ".%d" % os.getpid()
            shutil.copy2(MODEL, tmp)
            os.replace(tmp, model_run)
            GOENV["VERIF_MODEL"] = model_run
        thms = []
        ok_audit = False
        if ok_lean:
            ok_audit, thms, audit_out = audit(prop, log)
            if tier == "thorough":
                rc, out = sh(["lake", "env", "leanchecker", f"KmipModel.Props.{prop}"], cwd=LEAN, timeout=3600)
                log.append(f"$ leanchecker KmipModel.Props.{prop} -> {rc}\n{out[-500:]}")
                if rc != 0:
                    ok_audit = False
    forbidden = grep_forbidden()

    obligations = len(thms)
    discharged = sum(1 for t in thms if t.get("ok"))
    required = cfg.get("required_theorems", [])
    have = {t["theorem"].split(".")[-1] for t in thms}
    missing = [r for r in required if r not in have]
    obligations += len(missing)

    proof_broken = []
    if not ok_build:
        proof_broken.append("harness build against /repo failed (hooks or API changed)")
    elif not ok_gen:
        proof_broken.append("regeneration of Gen/*.lean from /repo failed")
    elif not ok_lean:
        m = re.findall(r"error: ([^\n]*)", lean_out)
        proof_broken.append("lake build failed: " + "; ".join(m[:5]))
    elif not ok_audit:
        proof_broken.append("axiom audit failed: " + "; ".join(t["theorem"] for t in thms if not t.get("ok")))
    if missing:
        proof_broken.append("required theorems missing: " + ", ".join(missing))
    if forbidden:
        proof_broken.append("forbidden constructs: " + "; ".join(forbidden[:5]))

    # ---- 2. correspondence + oracles -------------------------------------------------------------
    results = []
    if ok_build and os.path.exists(GOENV["VERIF_MODEL"]):
        results = run_engines(prop, tier, seed, log, replay_lines)
    elif ok_build:
        proof_broken.append("model executable missing")

    cases = sum(r.get("cases", 0) for r in results)
    distinct = sum(r.get("distinct_nontrivial", 0) for r in results)
    disagreements = [d for r in results for d in r.get("disagreements", []) if prop in d.get("props", prop).split(",")]
    viols = [v for r in results for v in r.get("violations", []) if v.get("property") in (prop, "*")]
    herrs = [e for r in results for e in r.get("harness_errors", [])]

    # ---- 3. verdict ---------------------------------------------------------------------------------
    new_viol_groups = {}
    known_hit = {}
    for v in viols:
        k = next((kf for kf in known_open if kf.get("key") == v.get("key")), None)
        if k is not None:
            known_hit.setdefault(k["key"], (k, v))
        else:
            new_viol_groups.setdefault(v.get("key"), []).append(v)

    exit_code = 0
    printed = []
    for key, (k, v) in sorted(known_hit.items()):
        printed.append(f"KNOWN-FINDING: property={prop} {k.get('what', key)}")
    if new_viol_groups:
        lines = []
        details = []
        for key, vs in sorted(new_viol_groups.items()):
            lines.append(vs[0]["line"])
            details.append({"key": key, "oracle": vs[0]["oracle"], "detail": vs[0]["detail"], "line": vs[0]["line"], "count": len(vs)})
        rp = write_replay(prop, "violation", {"lines": lines, "violations": details, "seed": seed, "tier": tier,
                                              "broken_obligations": proof_broken,
                                              "disagreements": disagreements[:20]})
        printed.append(f"VIOLATION property={prop} replay={rp}")
        exit_code = 1
    elif proof_broken or disagreements or herrs:
        # an obligation or the correspondence no longer checks and the search found no failing input
        what = proof_broken + [f"correspondence {d['engine']}: line `{d['line'][:300]}` impl=`{d['impl'][:200]}` model=`{d['model'][:200]}`" for d in disagreements[:10]] + herrs[:5]
        rp = write_replay(prop, "unproved", {"lines": [d["line"] for d in disagreements[:50]], "no_longer_checks": what,
                                             "seed": seed, "tier": tier})
        printed.append(f"VIOLATION property={prop} replay={rp} no-failing-input-found")
        exit_code = 1

    # ---- 4. evidence ----------------------------------------------------------------------------------
    samples = []
    for t in thms[:4]:
        samples.append({"obligation": t["theorem"], "axioms": t["axioms"]})
    for r in results:
        for s in (r.get("samples") or [])[:3]:  # an engine that evaluated nothing (replay of another engine's lines) writes null
            samples.append({"engine": r["engine"], "case": s})
    if not samples:
        samples = [{"note": "nothing ran", "log": log[-1][:300] if log else ""}]
    dist = {r["engine"]: r.get("distribution", {}) for r in results}
    level = cfg["level"]
    coverage = {
        "obligations": obligations,
        "discharged": discharged if not proof_broken else min(discharged, max(obligations - 1, 0)),
        "checker_cmd": f"cd lean && lake build KmipModel.Props.{prop} && lake env lean --run Audit.lean {prop}" + (" && lake env leanchecker KmipModel.Props." + prop if tier == "thorough" else ""),
        "trusted_base": TRUSTED_BASE + cfg.get("trusted_extra", []),
        "theorems": thms,
        "evaluations": cases,
        "distinct_nontrivial": distinct,
        "rule": " | ".join(f"{r['engine']}: {r.get('rule','')}" for r in results),
        "samples": samples,
        "exhaustive": all(r.get("exhaustive", False) for r in results) if results else False,
        "correspondence": {"engines": [r["engine"] for r in results], "cases": cases,
                           "disagreements": len(disagreements), "input_distribution": dist},
        "oracle_violations": len(viols),
        "known_findings_hit": sorted(known_hit.keys()),
        "repo_fingerprint": fp,
        "explanation": cfg.get("explanation", ""),
    }
    if level == "model_checking":
        coverage.update(cfg.get("mc_coverage", {}))
    ev = {
        "property_id": prop,
        "tier": tier,
        "seed": seed,
        "level": level,
        "coverage": coverage,
        "assumptions": cfg.get("assumptions", []),
        "wall_s": round(time.time() - t0, 2),
        "violations": len(new_viol_groups) + (1 if (exit_code == 1 and not new_viol_groups) else 0),
    }
    evdir = os.path.join(VERIF, "evidence") if not OVERLAY else os.path.join(WORK, "evidence-overlay")
    os.makedirs(evdir, exist_ok=True)
    with open(os.path.join(evdir, f"{prop}.json"), "w") as f:
        json.dump(ev, f, indent=1)
    os.makedirs(os.path.join(WORK, "logs"), exist_ok=True)
    with open(os.path.join(WORK, "logs", f"{prop}-{tier}.log"), "w") as f:
        f.write("\n\n".join(log))

    for l in printed:
        print(l)
    print(f"{prop} {tier}: obligations={obligations} discharged={coverage['discharged']} cases={cases} "
          f"disagreements={len(disagreements)} oracle_violations={len(viols)} exit={exit_code} wall={ev['wall_s']}s")
    sys.exit(exit_code)


if __name__ == "__main__":
    main()
