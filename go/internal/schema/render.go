package schema

import (
	"encoding/hex"
	"fmt"
	"math/big"
	"reflect"
	"strings"
	"time"

	"github.com/ovh/kmip-go/ttlv"

	"verifharness/internal/tree"
)

func hx(b []byte) string {
	if len(b) == 0 {
		return "-"
	}
	return strings.ToUpper(hex.EncodeToString(b))
}

// ValueToTree converts the library's generic ttlv.Value into the harness tree.
func ValueToTree(v ttlv.Value) (*tree.Item, error) {
	it := &tree.Item{Tag: v.Tag}
	switch x := v.Value.(type) {
	case ttlv.Struct:
		it.Kind = tree.KStruct
		for _, c := range x {
			ci, err := ValueToTree(c)
			if err != nil {
				return nil, err
			}
			it.Children = append(it.Children, ci)
		}
	case int32:
		it.Kind, it.Int = tree.KInt, int64(x)
	case int64:
		it.Kind, it.Int = tree.KLong, x
	case *big.Int:
		if x == nil {
			return nil, fmt.Errorf("nil big.Int")
		}
		it.Kind, it.Big = tree.KBig, x
	case ttlv.Enum:
		it.Kind, it.Int = tree.KEnum, int64(x)
	case bool:
		it.Kind, it.Bool = tree.KBool, x
	case string:
		it.Kind, it.Data = tree.KText, []byte(x)
	case []byte:
		it.Kind, it.Data = tree.KBytes, x
	case time.Time:
		it.Kind, it.Int = tree.KDate, x.Unix()
	case time.Duration:
		if x%time.Second != 0 {
			return nil, fmt.Errorf("sub-second interval")
		}
		it.Kind, it.Int = tree.KInterval, int64(x/time.Second)
	default:
		return nil, fmt.Errorf("unexpected Go type %T in ttlv.Value", v.Value)
	}
	return it, nil
}

// Render prints a Go value in the Val line syntax, following the schema kind k.
func (s *Schema) Render(v reflect.Value, k Kind) (string, error) {
	var sb strings.Builder
	if err := s.render(&sb, v, k); err != nil {
		return "", err
	}
	return sb.String(), nil
}

func (s *Schema) render(sb *strings.Builder, v reflect.Value, k Kind) error {
	switch k.K {
	case "i8", "i16", "i32", "i64", "mask":
		fmt.Fprintf(sb, "i%d", v.Int())
	case "u8", "u16", "u32", "u64", "enum":
		fmt.Fprintf(sb, "i%d", v.Uint())
	case "bool":
		if v.Bool() {
			sb.WriteString("b1")
		} else {
			sb.WriteString("b0")
		}
	case "text":
		sb.WriteString("t" + hx([]byte(v.String())))
	case "bytes":
		if v.IsNil() {
			sb.WriteString("yn")
		} else {
			sb.WriteString("y" + hx(v.Bytes()))
		}
	case "date":
		t := v.Interface().(time.Time)
		if t.Nanosecond() != 0 {
			return fmt.Errorf("sub-second time")
		}
		fmt.Fprintf(sb, "i%d", t.Unix())
	case "interval":
		d := time.Duration(v.Int())
		if d%time.Second != 0 {
			return fmt.Errorf("sub-second interval")
		}
		fmt.Fprintf(sb, "i%d", int64(d/time.Second))
	case "big":
		b := v.Interface().(big.Int)
		sb.WriteString("g" + b.String())
	case "struct":
		def := s.Structs[k.Ref]
		sb.WriteString("(S")
		for _, f := range def.Fields {
			sb.WriteString(" ")
			if err := s.render(sb, v.FieldByName(f.GoName), f.Kind); err != nil {
				return fmt.Errorf("%s.%s: %w", def.GoName, f.GoName, err)
			}
		}
		sb.WriteString(")")
	case "ptr":
		for v.Kind() == reflect.Pointer {
			if v.IsNil() {
				sb.WriteString("n")
				return nil
			}
			v = v.Elem()
		}
		sb.WriteString("(P ")
		if err := s.render(sb, v, *k.Elem); err != nil {
			return err
		}
		sb.WriteString(")")
	case "slice":
		sb.WriteString("(L")
		for i := 0; i < v.Len(); i++ {
			sb.WriteString(" ")
			if err := s.render(sb, v.Index(i), *k.Elem); err != nil {
				return err
			}
		}
		sb.WriteString(")")
	case "iface":
		if v.IsNil() {
			sb.WriteString("N")
			return nil
		}
		dv := v.Elem()
		id, ok := s.dynIDs[dv.Type()]
		if !ok {
			return fmt.Errorf("dynamic type %s is not registered in the schema", dv.Type())
		}
		fmt.Fprintf(sb, "(F %d ", id)
		if err := s.render(sb, dv, s.Dyns[id].Kind); err != nil {
			return err
		}
		sb.WriteString(")")
	case "any":
		val := v.Interface().(ttlv.Value)
		if val.Value == nil {
			sb.WriteString("a")
			return nil
		}
		it, err := ValueToTree(val)
		if err != nil {
			return err
		}
		sb.WriteString("(A " + it.Render() + ")")
	case "anystruct":
		st := v.Interface().(ttlv.Struct)
		sb.WriteString("(X")
		for _, c := range st {
			it, err := ValueToTree(c)
			if err != nil {
				return err
			}
			sb.WriteString(" " + it.Render())
		}
		sb.WriteString(")")
	default:
		return fmt.Errorf("unsupported kind %s", k.K)
	}
	return nil
}
