package main

// Phases `extent` and `repeat` of the hostile engine (property C02, text decoders). Both are oracles on the REAL
// code with a concrete failing document; the Lean lexical model (Model/Lex.lean) works on element trees and on
// member lists in document order and is a pure function: it knows neither character data, comments, CDATA or
// processing instructions, nor a decoder whose answer changes from one call to the next.
//
//   extent  "never takes content from outside the declared extent of the enclosing structure", XML. A scalar
//           element carries its value in an attribute; every encoder writes it self-closed, but <X .../> and
//           <X ...>content</X> are the same element. Every scalar position (every depth) of library-written
//           documents of typed messages and of generic trees is given every kind of content — an empty open
//           form, white space, text, comment, CDATA (also holding markup), processing instruction, character /
//           entity references, unknown leaves and structures, copies of the element itself, of its sibling, of
//           the element that follows the enclosing structure, of standard elements and of whole subtrees of the
//           document, scalars with content inside the content, dozens of children — alone and together with
//           trailing elements the enclosing structure's decoder does not know (an altered copy of the element
//           that follows the structure: what a reader that closes the structure one level too early hands to
//           the level above). Oracles: (a) metamorphic — B is the document without the content, M the one with
//           it: M is rejected or decodes to exactly what B decodes to (typed target: rendered message; generic
//           target: ttlv.Value tree), and M is not accepted when B is rejected; (b) direct, generic target — every
//           decoded structure has exactly the child elements of ITS element as judged by an independent
//           encoding/xml token walk (same tags, same count — up to the first child that carries no tag, where the
//           generic decoder stops reading — recursively; a scalar has none).
//   repeat  "decoding the same bytes again gives the same result", JSON (and XML attributes). Objects of
//           library-written documents get members whose names differ from tag / type / value by letter case
//           only, or duplicate them exactly — beside the canonical member, on both sides of it, instead of it,
//           for one name or for all three, with contents that make the choice visible — and every document is
//           decoded K times by a fresh decoder into the typed message and into ttlv.Value: all K outcomes
//           (value rendering / error / panic) must be the same and the input must stay as it was. K is 16
//           (thorough 32) for generated and 200 for hand-written documents: a choice that follows the iteration
//           order of a Go map shows up with probability > 0.85 per affected document at K = 16.
//
// Lines (impl-only, replayable):  #extent <value|dyn> <hex B> <hex M>     #repeat <xml|json> <value|dyn> <K> <hex doc>
// The engine's case list holds an abbreviated form (#extent… / #repeat… followed by a digest); violations carry
// the full line.

import (
	"bytes"
	"crypto/sha1"
	"encoding/hex"
	"encoding/xml"
	"fmt"
	"reflect"
	"strconv"
	"strings"

	kmip "github.com/ovh/kmip-go"
	"github.com/ovh/kmip-go/ttlv"

	"verifharness/internal/rng"
	"verifharness/internal/tree"
)

// ---------------------------------------------------------------------------------------------------------
// XML documents with mixed content
// ---------------------------------------------------------------------------------------------------------

type exPiece struct {
	raw string  // markup / character data written as is (when n == nil)
	n   *exNode // a child element
}

type exNode struct {
	name    string
	attrs   [][2]string
	content []exPiece
	open    bool // written <x></x> even without content
}

// exParse keeps the elements of a document (character data between them is dropped).
func exParse(doc []byte) *exNode {
	d := xml.NewDecoder(bytes.NewReader(doc))
	var root *exNode
	var stack []*exNode
	for {
		tok, err := d.Token()
		if err != nil {
			break
		}
		switch t := tok.(type) {
		case xml.StartElement:
			e := &exNode{name: t.Name.Local}
			for _, a := range t.Attr {
				e.attrs = append(e.attrs, [2]string{a.Name.Local, a.Value})
			}
			if len(stack) == 0 {
				if root != nil {
					return nil
				}
				root = e
			} else {
				p := stack[len(stack)-1]
				p.content = append(p.content, exPiece{n: e})
			}
			stack = append(stack, e)
		case xml.EndElement:
			if len(stack) == 0 {
				return nil
			}
			stack = stack[:len(stack)-1]
		}
	}
	if len(stack) != 0 {
		return nil
	}
	return root
}

func (n *exNode) write(b *bytes.Buffer) {
	b.WriteByte('<')
	b.WriteString(n.name)
	for _, a := range n.attrs {
		b.WriteByte(' ')
		b.WriteString(a[0])
		b.WriteString(`="`)
		_ = xml.EscapeText(b, []byte(a[1]))
		b.WriteByte('"')
	}
	if len(n.content) == 0 && !n.open {
		b.WriteString("/>")
		return
	}
	b.WriteByte('>')
	for _, p := range n.content {
		if p.n != nil {
			p.n.write(b)
		} else {
			b.WriteString(p.raw)
		}
	}
	b.WriteString("</")
	b.WriteString(n.name)
	b.WriteByte('>')
}

func (n *exNode) bytes() []byte {
	var b bytes.Buffer
	n.write(&b)
	return b.Bytes()
}

func (n *exNode) clone() *exNode {
	c := &exNode{name: n.name, open: n.open, attrs: append([][2]string{}, n.attrs...)}
	for _, p := range n.content {
		if p.n != nil {
			c.content = append(c.content, exPiece{n: p.n.clone()})
		} else {
			c.content = append(c.content, p)
		}
	}
	return c
}

func (n *exNode) attr(k string) (string, int) {
	for i, a := range n.attrs {
		if a[0] == k {
			return a[1], i
		}
	}
	return "", -1
}

// scalar: the element announces a type other than Structure (the documents come from the library's writer: every
// type name is a real one).
func (n *exNode) scalar() bool {
	t, i := n.attr("type")
	return i >= 0 && t != "Structure"
}

type exPath []int // indices into content, from the root

func (n *exNode) at(p exPath) *exNode {
	for _, i := range p {
		n = n.content[i].n
	}
	return n
}

// walk calls f for every element with its path.
func (n *exNode) walk(prefix exPath, f func(*exNode, exPath)) {
	f(n, prefix)
	for i, p := range n.content {
		if p.n != nil {
			p.n.walk(append(append(exPath{}, prefix...), i), f)
		}
	}
}

// exAlter returns a copy of e that decodes to another value where that is easy to arrange (a smuggled copy that is
// taken for the real element must be visible in the result).
func exAlter(e *exNode) *exNode {
	c := e.clone()
	done := false
	c.walk(nil, func(n *exNode, _ exPath) {
		if done || !n.scalar() {
			return
		}
		ty, _ := n.attr("type")
		v, vi := n.attr("value")
		if vi < 0 {
			return
		}
		nv := v
		switch ty {
		case "Integer", "LongInteger", "Interval":
			if _, err := strconv.ParseInt(v, 10, 31); err == nil {
				nv = "7"
				if v == "7" {
					nv = "8"
				}
			}
		case "Boolean":
			nv = "true"
			if v == "true" {
				nv = "false"
			}
		case "TextString":
			nv = v + "x"
		case "ByteString":
			nv = v + "5A"
		case "DateTime":
			nv = "2001-02-03T04:05:06Z"
			if v == nv {
				nv = "2002-02-03T04:05:06Z"
			}
		}
		if nv != v {
			n.attrs[vi][1] = nv
			done = true
		}
	})
	return c
}

func exLeaf(tag, ty, val string) *exNode {
	return &exNode{name: "TTLV", attrs: [][2]string{{"tag", tag}, {"type", ty}, {"value", val}}}
}

func exRaw(s string) exPiece { return exPiece{raw: s} }

var exKinds = []string{
	"open-empty", "space", "text", "comment", "cdata", "cdata-markup", "pi", "refs",
	"unknown-leaf", "unknown-struct", "unknown-nested", "self", "sibling", "follow", "standard", "subtree",
	"mixed", "two-elements", "scalar-in-scalar", "many",
}

// exFollow: the element that follows the element at path p in its parent (nil: none).
func exFollow(root *exNode, p exPath) *exNode {
	if len(p) == 0 {
		return nil
	}
	par := root.at(p[:len(p)-1])
	for i := p[len(p)-1] + 1; i < len(par.content); i++ {
		if par.content[i].n != nil {
			return par.content[i].n
		}
	}
	return nil
}

// exFill gives the scalar at path p of root the content of the named kind. root is modified.
func exFill(r *rng.R, root *exNode, p exPath, kind string) {
	s := root.at(p)
	batchCount := &exNode{name: "BatchCount", attrs: [][2]string{{"type", "Integer"}, {"value", "7"}}}
	el := func(n *exNode) exPiece { return exPiece{n: n} }
	switch kind {
	case "open-empty":
		s.open = true
	case "space":
		s.content = []exPiece{exRaw(rng.Pick(r, []string{" ", "\n", "\n    ", "\t \r\n"}))}
	case "text":
		s.content = []exPiece{exRaw(rng.Pick(r, []string{"text", "1", "0x00000001", "é€😀"}))}
	case "comment":
		s.content = []exPiece{exRaw(rng.Pick(r, []string{"<!-- c -->", "<!---->", "<!-- <BatchCount type=\"Integer\" value=\"7\"/> -->"}))}
	case "cdata":
		s.content = []exPiece{exRaw(rng.Pick(r, []string{"<![CDATA[x]]>", "<![CDATA[]]>", "<![CDATA[ ]]>"}))}
	case "cdata-markup":
		s.content = []exPiece{exRaw(`<![CDATA[</` + s.name + `><BatchCount type="Integer" value="7"/>]]>`)}
	case "pi":
		s.content = []exPiece{exRaw(rng.Pick(r, []string{"<?pi data?>", "<?x?>"}))}
	case "refs":
		s.content = []exPiece{exRaw(rng.Pick(r, []string{"&amp;", "&#65;&#x10FFFF;", "&lt;BatchCount/&gt;"}))}
	case "unknown-leaf":
		s.content = []exPiece{el(exLeaf("0x540004", "Integer", "2"))}
	case "unknown-struct":
		s.content = []exPiece{el(rng.Pick(r, []*exNode{{name: "Foo"}, {name: "TTLV", attrs: [][2]string{{"tag", "0x540001"}}}, {name: "Foo", open: true}}))}
	case "unknown-nested":
		in := &exNode{name: "TTLV", attrs: [][2]string{{"tag", "0x540002"}}, content: []exPiece{el(exLeaf("0x540003", "Integer", "1"))}}
		out := &exNode{name: "TTLV", attrs: [][2]string{{"tag", "0x540001"}}, content: []exPiece{el(in), el(batchCount)}}
		s.content = []exPiece{el(out)}
	case "self":
		c := exAlter(s)
		c.content, c.open = nil, false
		s.content = []exPiece{el(c)}
	case "sibling":
		sib := exFollow(root, p)
		if sib == nil {
			sib = batchCount
		}
		s.content = []exPiece{el(exAlter(sib))}
	case "follow":
		var f *exNode
		if len(p) > 0 {
			f = exFollow(root, p[:len(p)-1])
		}
		if f == nil {
			f = batchCount
		}
		s.content = []exPiece{el(exAlter(f))}
	case "standard":
		s.content = []exPiece{el(rng.Pick(r, []*exNode{batchCount,
			{name: "UniqueIdentifier", attrs: [][2]string{{"type", "TextString"}, {"value", "smuggled"}}},
			{name: "Operation", attrs: [][2]string{{"type", "Enumeration"}, {"value", "Get"}}},
			{name: "BatchItem", content: []exPiece{el(&exNode{name: "Operation", attrs: [][2]string{{"type", "Enumeration"}, {"value", "Get"}}})}},
		}))}
	case "subtree":
		// a whole structure of the document itself (the enclosing one included: taken before the content is set)
		var all []*exNode
		root.walk(nil, func(n *exNode, _ exPath) {
			if !n.scalar() {
				all = append(all, n)
			}
		})
		if len(all) == 0 {
			all = []*exNode{{name: "BatchItem", content: []exPiece{el(batchCount)}}}
		}
		s.content = []exPiece{el(rng.Pick(r, all).clone())}
	case "mixed":
		s.content = []exPiece{exRaw("\n  "), exRaw("<!-- c -->"), el(exLeaf("0x540004", "Integer", "2")), exRaw(" t "), el(batchCount), exRaw("<?pi?>\n")}
	case "two-elements":
		s.content = []exPiece{el(exLeaf("0x540004", "Integer", "2")), el(batchCount)}
	case "scalar-in-scalar":
		deep := exLeaf("0x540006", "TextString", "y")
		deep.content = []exPiece{exRaw("<!--c-->")}
		mid := exLeaf("0x540005", "Integer", "3")
		mid.content = []exPiece{exRaw(" "), el(deep), exRaw(" "), el(batchCount)}
		s.content = []exPiece{el(mid), exRaw("\n")}
	case "many":
		for i := 0; i < 40; i++ {
			s.content = append(s.content, el(exLeaf("0x540004", "Integer", strconv.Itoa(i))))
		}
	}
}

var exTrailing = []string{"none", "end-of-structure", "after-scalar"}

// exTrail adds, to the structure that encloses the scalar at p, elements that structure's decoder does not expect.
func exTrail(root *exNode, p exPath, mode string) {
	if len(p) == 0 {
		return
	}
	pp := p[:len(p)-1]
	par := root.at(pp)
	switch mode {
	case "end-of-structure":
		var f *exNode
		if len(pp) > 0 {
			f = exFollow(root, pp)
		}
		if f == nil {
			f = &exNode{name: "BatchCount", attrs: [][2]string{{"type", "Integer"}, {"value", "7"}}}
		} else {
			f = exAlter(f)
		}
		par.content = append(par.content, exPiece{n: f})
	case "after-scalar":
		i := p[len(p)-1]
		c := append([]exPiece{}, par.content[:i+1]...)
		c = append(c, exPiece{n: exLeaf("0x540004", "Integer", "2")})
		par.content = append(c, par.content[i+1:]...)
	}
}

// ---------------------------------------------------------------------------------------------------------
// decoding and the oracles
// ---------------------------------------------------------------------------------------------------------

// hxTarget: nil ty = ttlv.Value.
type hxTarget struct {
	name string
	tg   *planTarget
}

func hxTargetOf(name string) (hxTarget, bool) {
	s := getSchema()
	switch name {
	case "value":
		return hxTarget{"value", nil}, true
	case fmt.Sprint(s.Roots["RequestMessage"]):
		return hxTarget{name, &planTarget{s.Roots["RequestMessage"], reflect.TypeFor[*kmip.RequestMessage](), 0}}, true
	case fmt.Sprint(s.Roots["ResponseMessage"]):
		return hxTarget{name, &planTarget{s.Roots["ResponseMessage"], reflect.TypeFor[*kmip.ResponseMessage](), 0}}, true
	}
	return hxTarget{}, false
}

// decode: "ok <rendering>" / "err" / "panic <class>"; the tree for the generic target.
func (t hxTarget) decode(unmarshal func([]byte, any) error, doc []byte) (string, *tree.Item) {
	if t.tg == nil {
		type out struct {
			it  *tree.Item
			err error
		}
		g, p := guard("Unmarshal", func() out {
			var v ttlv.Value
			if err := unmarshal(doc, &v); err != nil {
				return out{err: err}
			}
			it, err := fromValue(v)
			return out{it, err}
		})
		switch {
		case p != "":
			return "panic " + panicKey(p), nil
		case g.err != nil:
			return "err", nil
		}
		return "ok " + g.it.Render(), g.it
	}
	s := getSchema()
	v := reflect.New(t.tg.ty.Elem())
	err, p := guard("Unmarshal", func() error { return unmarshal(doc, v.Interface()) })
	switch {
	case p != "":
		return "panic " + panicKey(p), nil
	case err != nil:
		return "err", nil
	}
	r, rerr := s.Render(v, s.Dyns[t.tg.dyn].Kind)
	if rerr != nil {
		r += " !" + rerr.Error()
	}
	return "ok " + r, nil
}

func digest(parts ...[]byte) string {
	h := sha1.New()
	for _, p := range parts {
		h.Write(p)
		h.Write([]byte{0})
	}
	return hex.EncodeToString(h.Sum(nil))[:20]
}

// extentChildren: the direct oracle. Every decoded structure has the child elements of its own element (all of them, or
// those before the first one without a tag), in order, and a scalar has none.
func extentChildren(env *lexEnv, it *tree.Item, el *lexElem) string {
	if tag := env.elemTag(el); it.Tag != tag {
		return fmt.Sprintf("item 0x%06X decoded at the position of element <%s> (tag 0x%06X)", it.Tag, el.name, tag)
	}
	if it.Kind != tree.KStruct {
		return ""
	}
	// the generic decoder reads items while there is a tag: a child element that carries none (an unknown name, a number
	// that is not a tag) ends the list, and what follows it stays unread inside the structure. Short of that, every
	// child element is an item of this structure and of no other.
	if n := len(it.Children); n > len(el.children) || (n < len(el.children) && env.elemTag(el.children[n]) != 0) {
		return fmt.Sprintf("structure 0x%06X decoded with %d children, its element <%s> has %d child elements", it.Tag, len(it.Children), el.name, len(el.children))
	}
	for i, c := range it.Children {
		if m := extentChildren(env, c, el.children[i]); m != "" {
			return m
		}
	}
	return ""
}

// extentCase: want = the outcome of B when the caller already has it ("" = decode B here).
func extentCase(ctx *Ctx, env *lexEnv, t hxTarget, base, mut []byte, want, class string) {
	line := "#extent " + t.name + " " + hexUp(base) + " " + hexUp(mut)
	ctx.current = line
	if want == "" {
		want, _ = t.decode(ttlv.UnmarshalXML, base)
	}
	in := append([]byte{}, mut...)
	got, it := t.decode(ttlv.UnmarshalXML, in)
	outcome := strings.SplitN(got, " ", 2)[0]
	show := " doc=" + shortKey(mut)
	if !bytes.Equal(in, mut) {
		hostileViolate(ctx, "input-unmodified", "xml:input-modified", "decoder modified its input", line)
	}
	switch {
	case outcome == "panic":
		hostileViolate(ctx, "no-panic", "xml:decode-panic:"+strings.TrimPrefix(got, "panic "), "decoder panicked on"+show, line)
	case outcome == "ok" && !strings.HasPrefix(want, "ok "):
		hostileViolate(ctx, "structure-extent", "xml:scalar-content-makes-document-accepted", "content added inside a scalar element makes a rejected document accepted ("+want+" without it);"+show, line)
	case outcome == "ok" && got != want:
		hostileViolate(ctx, "structure-extent", "xml:scalar-content-changes-value", "content inside a scalar element changes the decoded value: "+firstDiff(want, got)+";"+show, line)
	}
	if it != nil {
		if el, err := lexParseXMLDoc(mut); err == nil {
			if m := extentChildren(env, it, el); m != "" {
				hostileViolate(ctx, "structure-extent", "xml:structure-children-mismatch", m+": decoded "+shortKey([]byte(it.Render()))+";"+show, line)
			}
			ctx.Res.Count("extent.direct-checked")
		}
	}
	ctx.Add("#extent… "+t.name+" "+class+" "+digest(base, mut), outcome, true, "")
	ctx.Res.Count("extent." + targetClass(t) + "." + outcome)
	ctx.Res.Count("extent.kind." + class)
}

func targetClass(t hxTarget) string {
	if t.tg == nil {
		return "generic"
	}
	return "typed"
}

// extentDoc: every (sampled) scalar position x every trailing mode x every content kind, then all scalars at once.
func extentDoc(ctx *Ctx, env *lexEnv, targets []hxTarget, doc []byte, positions int) {
	r := ctx.R
	root := exParse(doc)
	if root == nil {
		return
	}
	var scalars []exPath
	root.walk(nil, func(n *exNode, p exPath) {
		if n.scalar() {
			scalars = append(scalars, p)
		}
	})
	if len(scalars) == 0 {
		return
	}
	pick := scalars
	if len(pick) > positions {
		// the first and the last scalar of the document, and a sample of the others (the last child of a structure is
		// where a structure closed too early loses nothing of its own)
		pick = []exPath{scalars[0], scalars[len(scalars)-1]}
		for len(pick) < positions {
			pick = append(pick, rng.Pick(r, scalars))
		}
	}
	for _, p := range pick {
		for _, mode := range exTrailing {
			b := root.clone()
			exTrail(b, p, mode)
			base := b.bytes()
			want := make([]string, len(targets))
			for i, t := range targets {
				want[i], _ = t.decode(ttlv.UnmarshalXML, base)
				ctx.Res.Count("extent.base." + targetClass(t) + "." + strings.SplitN(want[i], " ", 2)[0])
			}
			for _, kind := range exKinds {
				m := b.clone()
				exFill(r, m, p, kind)
				mut := m.bytes()
				for i, t := range targets {
					extentCase(ctx, env, t, base, mut, want[i], kind+"/"+mode)
				}
			}
		}
	}
	// every scalar of the document at once
	for k := 0; k < 3; k++ {
		m := root.clone()
		for _, p := range scalars {
			kind := rng.Pick(r, exKinds)
			if k == 0 {
				kind = rng.Pick(r, exKinds[:8]) // no element inside
			}
			if kind == "subtree" {
				kind = "standard" // copies of copies: the document would double with every scalar
			}
			exFill(r, m, p, kind)
		}
		mut := m.bytes()
		if len(mut) > 1<<20 {
			continue
		}
		for _, t := range targets {
			extentCase(ctx, env, t, doc, mut, "", "all-scalars")
		}
	}
}

// extentHand: documents written by hand (the shapes above, spelled out once for a reader of this file).
var extentHand = []struct{ target, base, mut string }{
	{"req",
		`<RequestMessage><RequestHeader><ProtocolVersion><ProtocolVersionMajor type="Integer" value="1"/><ProtocolVersionMinor type="Integer" value="4"/><BatchCount type="Integer" value="7"/></ProtocolVersion><BatchCount type="Integer" value="1"/></RequestHeader><BatchItem><Operation type="Enumeration" value="Destroy"/><RequestPayload><UniqueIdentifier type="TextString" value="abc"/></RequestPayload></BatchItem></RequestMessage>`,
		`<RequestMessage><RequestHeader><ProtocolVersion><ProtocolVersionMajor type="Integer" value="1"/><ProtocolVersionMinor type="Integer" value="4"> </ProtocolVersionMinor><BatchCount type="Integer" value="7"/></ProtocolVersion><BatchCount type="Integer" value="1"/></RequestHeader><BatchItem><Operation type="Enumeration" value="Destroy"/><RequestPayload><UniqueIdentifier type="TextString" value="abc"/></RequestPayload></BatchItem></RequestMessage>`},
	{"value",
		`<TTLV tag="0x540001"><TTLV tag="0x540002" type="Integer" value="1"/><TTLV tag="0x540003" type="Integer" value="2"/></TTLV>`,
		`<TTLV tag="0x540001"><TTLV tag="0x540002" type="Integer" value="1"><!-- c --></TTLV><TTLV tag="0x540003" type="Integer" value="2"/></TTLV>`},
	{"value",
		`<TTLV tag="0x540001"><TTLV tag="0x540010"><TTLV tag="0x540002" type="Integer" value="1"/><TTLV tag="0x540003" type="Integer" value="2"/></TTLV><TTLV tag="0x540004" type="Integer" value="3"/></TTLV>`,
		`<TTLV tag="0x540001"><TTLV tag="0x540010"><TTLV tag="0x540002" type="Integer" value="1"><TTLV tag="0x540009" type="Integer" value="9"/><TTLV tag="0x54000A" type="Integer" value="10"/></TTLV><TTLV tag="0x540003" type="Integer" value="2"/></TTLV><TTLV tag="0x540004" type="Integer" value="3"/></TTLV>`},
}

func runExtent(ctx *Ctx) {
	s := getSchema()
	r := ctx.R
	env := lexNewEnv()
	generic, _ := hxTargetOf("value")
	reqT, _ := hxTargetOf(fmt.Sprint(s.Roots["RequestMessage"]))
	respT, _ := hxTargetOf(fmt.Sprint(s.Roots["ResponseMessage"]))
	for _, h := range extentHand {
		t := generic
		if h.target == "req" {
			t = reqT
		}
		extentCase(ctx, env, t, []byte(h.base), []byte(h.mut), "", "hand")
		extentCase(ctx, env, generic, []byte(h.base), []byte(h.mut), "", "hand")
	}
	// typed messages
	n := ctx.N(36, 200)
	positions := ctx.N(6, 16)
	for i := 0; i < n; i++ {
		t := reqT
		if i%2 == 1 {
			t = respT
		}
		p := &popCfg{r: r, s: s, fill: i % 3, textMode: 2, respectGating: true}
		x := reflect.New(t.tg.ty.Elem())
		p.populate(x.Elem())
		doc, pn := guard("MarshalXML", func() []byte { return ttlv.MarshalXML(x.Interface()) })
		if pn != "" || len(doc) > 40000 {
			ctx.Res.Count("extent.skipped-message")
			continue
		}
		extentDoc(ctx, env, []hxTarget{t, generic}, doc, positions)
	}
	// generic trees: other shapes (deep, wide, unnamed tags)
	n = ctx.N(24, 200)
	for i := 0; i < n; i++ {
		opts := tree.GenOpts{MaxDepth: 4, MaxChildren: 4, MaxData: 12, MaxBigBits: 70, TextMode: 2}
		switch i % 4 {
		case 1:
			opts = tree.GenOpts{MaxDepth: 9, MaxChildren: 2, MaxData: 8, MaxBigBits: 70, TextMode: 2}
		case 2:
			opts = tree.GenOpts{MaxDepth: 2, MaxChildren: 12, MaxData: 8, MaxBigBits: 70, TextMode: 2}
		}
		it := tree.Gen(r, opts, 0)
		if !lexInScope(lexItemOf(it)) {
			continue
		}
		doc, pn := guard("MarshalXML", func() []byte { return ttlv.MarshalXML(toValue(it)) })
		if pn != "" {
			continue
		}
		extentDoc(ctx, env, []hxTarget{generic}, doc, positions)
	}
	for _, k := range exKinds {
		for _, mode := range exTrailing {
			if c := ctx.Res.Distribution["extent.kind."+k+"/"+mode]; c < 50 {
				ctx.Res.Fail(fmt.Sprintf("hostile/extent: class %s/%s has only %d cases", k, mode, c))
			}
		}
	}
}

// ---------------------------------------------------------------------------------------------------------
// repeat: the same bytes, K times
// ---------------------------------------------------------------------------------------------------------

func repeatCase(ctx *Ctx, c textCodec, t hxTarget, doc []byte, k int, class string) {
	line := fmt.Sprintf("#repeat %s %s %d %s", c.name, t.name, k, hexUp(doc))
	ctx.current = line
	in := append([]byte{}, doc...)
	first, _ := t.decode(c.unmarshal, in)
	outcome := strings.SplitN(first, " ", 2)[0]
	seen := map[string]int{first: 1}
	for i := 1; i < k; i++ {
		again, _ := t.decode(c.unmarshal, in)
		seen[again]++
	}
	if !bytes.Equal(in, doc) {
		hostileViolate(ctx, "input-unmodified", c.name+":input-modified", "decoder modified its input", line)
	}
	if outcome == "panic" {
		hostileViolate(ctx, "no-panic", c.name+":decode-panic:"+strings.TrimPrefix(first, "panic "), "decoder panicked on "+shortKey(doc), line)
	}
	if len(seen) > 1 {
		ctx.Res.Count("repeat.differs." + class)
		var other string
		for o := range seen {
			if o != first && (other == "" || o < other) {
				other = o
			}
		}
		hostileViolate(ctx, "deterministic", c.name+":repeated-decode-differs",
			fmt.Sprintf("decoding the same %d bytes %d times gave %d different outcomes, e.g. %d x `%s` and %d x `%s`; doc=%s", len(doc), k, len(seen), seen[first], shortKey([]byte(first)), seen[other], shortKey([]byte(other)), shortKey(doc)), line)
	}
	ctx.Add(fmt.Sprintf("#repeat… %s %s %d %s %s", c.name, t.name, k, class, digest(doc)), outcome, true, "")
	ctx.Res.Count("repeat." + c.name + "." + targetClass(t) + "." + outcome)
	ctx.Res.Count("repeat.class." + c.name + "." + class)
}

var rpSpell = map[string][]string{
	"tag":   {"TAG", "Tag", "tAg", "taG"},
	"type":  {"TYPE", "Type", "tYpe", "typE"},
	"value": {"VALUE", "Value", "vaLue", "valuE"},
}

var rpNames = []string{"tag", "type", "value"}

// rpAlt: another content for member `name` of object o (different from the present one where there is one).
func rpAlt(r *rng.R, root, o *hjNode, name string) *hjNode {
	cur := ""
	for i, k := range o.keys {
		if k == name && o.vals[i].kind == 'r' {
			cur = o.vals[i].raw
		}
	}
	var alts []string
	switch name {
	case "tag":
		alts = []string{`"0x540002"`, `"BatchCount"`, `"UniqueIdentifier"`, `"Operation"`, `"0x42000D"`, `"RequestPayload"`}
	case "type":
		alts = []string{`"Integer"`, `"TextString"`, `"ByteString"`, `"Structure"`, `"LongInteger"`, `"Enumeration"`, `"Boolean"`, `"BigInteger"`}
	default:
		if r.Chance(1, 4) {
			// the value of another item of the document (a scalar or a whole list of items)
			var vals []*hjNode
			var all []*hjNode
			root.collect(&all)
			for _, n := range all {
				if n.kind == 'o' && n != o {
					for i, k := range n.keys {
						if k == "value" {
							vals = append(vals, n.vals[i])
						}
					}
				}
			}
			if len(vals) > 0 {
				return rng.Pick(r, vals).clone()
			}
		}
		alts = []string{"7", `"00"`, `"x"`, "true", "[]", `"0x00000001"`, `"2001-02-03T04:05:06Z"`, "null"}
	}
	for {
		if a := rng.Pick(r, alts); a != cur {
			return &hjNode{kind: 'r', raw: a}
		}
	}
}

var rpOps = []string{"variant-after", "variant-before", "two-variants", "variants-only", "duplicate-after", "duplicate-before", "all-names"}

func (n *hjNode) insert(front bool, k string, v *hjNode) {
	if front {
		n.keys, n.vals = append([]string{k}, n.keys...), append([]*hjNode{v}, n.vals...)
	} else {
		n.keys, n.vals = append(n.keys, k), append(n.vals, v)
	}
}

// rpMutate applies op to the idx-th object of a clone of root (nil: not applicable).
func rpMutate(r *rng.R, root *hjNode, idx int, op, name string) []byte {
	m := root.clone()
	var all, objs []*hjNode
	m.collect(&all)
	for _, n := range all {
		if n.kind == 'o' {
			objs = append(objs, n)
		}
	}
	if idx >= len(objs) {
		return nil
	}
	o := objs[idx]
	sp := rpSpell[name]
	a, b := rng.Pick(r, sp), rng.Pick(r, sp)
	for b == a {
		b = rng.Pick(r, sp)
	}
	switch op {
	case "variant-after":
		o.insert(false, a, rpAlt(r, m, o, name))
	case "variant-before":
		o.insert(true, a, rpAlt(r, m, o, name))
	case "two-variants":
		o.insert(true, a, rpAlt(r, m, o, name))
		o.insert(false, b, rpAlt(r, m, o, name))
	case "variants-only":
		// no member with the canonical name: two spellings that differ from it, and from one another, by case only
		found := false
		for i, k := range o.keys {
			if k == name {
				o.keys[i], found = a, true
			}
		}
		if !found {
			o.insert(r.Bool(), a, rpAlt(r, m, o, name))
		}
		o.insert(r.Bool(), b, rpAlt(r, m, o, name))
	case "duplicate-after":
		o.insert(false, name, rpAlt(r, m, o, name))
	case "duplicate-before":
		o.insert(true, name, rpAlt(r, m, o, name))
	case "all-names":
		for _, nm := range rpNames {
			o.insert(r.Bool(), rng.Pick(r, rpSpell[nm]), rpAlt(r, m, o, nm))
		}
	}
	var buf bytes.Buffer
	m.write(&buf)
	return buf.Bytes()
}

var repeatHandJSON = []string{
	`{"tag":"0x540001","type":"Integer","value":5}`,
	`{"tag":"0x540001","TAG":"0x540002","type":"Integer","value":5}`,
	`{"TAG":"0x540002","tag":"0x540001","type":"Integer","value":5}`,
	`{"Tag":"0x540002","TAG":"0x540001","type":"Integer","value":5}`,
	`{"tag":"0x540001","type":"Integer","value":5,"Value":6}`,
	`{"tag":"0x540001","type":"Integer","VALUE":5,"Value":6}`,
	`{"tag":"0x540001","type":"TextString","Type":"ByteString","value":"00"}`,
	`{"tag":"0x540001","TYPE":"TextString","Type":"ByteString","value":"00"}`,
	`{"tag":"0x540010","value":[{"tag":"0x540001","type":"Integer","value":1},{"tag":"0x540002","tAg":"0x540003","type":"Integer","value":2,"VALUE":3}]}`,
	`{"tag":"0x540001","value":[],"Type":"Integer","VALUE":7}`,
	`{"tag":"0x540001","tag":"0x540002","type":"Integer","value":5,"value":6}`,
	`{"tag":"0x540010","value":[{"tag":"0x540001","type":"Integer","value":1}],"Value":[{"tag":"0x540002","type":"Integer","value":2},{"tag":"0x540003","type":"Integer","value":3}]}`,
	`{"tag":"BatchCount","Tag":"MaximumItems","tAG":"0x42000D","type":"Integer","tYPE":"LongInteger","value":1,"vALUE":2,"valuE":"0x01"}`,
}

var repeatHandXML = []string{
	`<TTLV tag="0x540001" type="Integer" value="5"/>`,
	`<TTLV tag="0x540001" TAG="0x540002" type="Integer" value="5" VALUE="6" Type="LongInteger"/>`,
	`<TTLV TAG="0x540002" tag="0x540001" Type="LongInteger" type="Integer" VALUE="6" value="5"/>`,
	`<TTLV tag="0x540001" type="Integer" value="5" value="6"/>`,
	`<TTLV tag="0x540010"><TTLV tag="0x540001" Tag="0x540003" type="Integer" Value="2" value="1"/><BatchCount Type="LongInteger" type="Integer" value="1"/></TTLV>`,
}

func runRepeat(ctx *Ctx) {
	s := getSchema()
	r := ctx.R
	xmlC, jsonC := textCodecs[0], textCodecs[1]
	generic, _ := hxTargetOf("value")
	reqT, _ := hxTargetOf(fmt.Sprint(s.Roots["RequestMessage"]))
	respT, _ := hxTargetOf(fmt.Sprint(s.Roots["ResponseMessage"]))
	for _, d := range repeatHandJSON {
		repeatCase(ctx, jsonC, generic, []byte(d), 200, "hand")
	}
	for _, d := range repeatHandXML {
		repeatCase(ctx, xmlC, generic, []byte(d), 200, "hand")
	}
	k := ctx.N(16, 32)
	objects := ctx.N(5, 12)
	jsonDoc := func(targets []hxTarget, doc []byte) {
		root := hjParse(doc)
		if root == nil {
			return
		}
		var all []*hjNode
		root.collect(&all)
		nobj := 0
		for _, n := range all {
			if n.kind == 'o' {
				nobj++
			}
		}
		idxs := make([]int, 0, objects)
		if nobj <= objects {
			for i := 0; i < nobj; i++ {
				idxs = append(idxs, i)
			}
		} else {
			idxs = append(idxs, 0, nobj-1)
			for len(idxs) < objects {
				idxs = append(idxs, r.Intn(nobj))
			}
		}
		for _, idx := range idxs {
			for _, op := range rpOps {
				name := rng.Pick(r, rpNames)
				m := rpMutate(r, root, idx, op, name)
				if m == nil {
					continue
				}
				for _, t := range targets {
					repeatCase(ctx, jsonC, t, m, k, op+"."+name)
				}
			}
		}
	}
	xmlDoc := func(targets []hxTarget, doc []byte) {
		root := exParse(doc)
		if root == nil {
			return
		}
		var paths []exPath
		root.walk(nil, func(_ *exNode, p exPath) { paths = append(paths, p) })
		for j := 0; j < objects; j++ {
			m := root.clone()
			n := m.at(rng.Pick(r, paths))
			name := rng.Pick(r, rpNames)
			alt := map[string][]string{"tag": {"0x540002", "BatchCount", "Operation"}, "type": {"Integer", "TextString", "Structure", "LongInteger"}, "value": {"7", "00", "x", "true"}}[name]
			spell := name
			op := "duplicate"
			if j%3 != 0 {
				spell, op = rng.Pick(r, rpSpell[name]), "variant"
			}
			a := [2]string{spell, rng.Pick(r, alt)}
			if r.Bool() {
				n.attrs = append(n.attrs, a)
			} else {
				n.attrs = append([][2]string{a}, n.attrs...)
			}
			for _, t := range targets {
				repeatCase(ctx, xmlC, t, m.bytes(), k, op+"."+name)
			}
		}
	}
	n := ctx.N(30, 200)
	for i := 0; i < n; i++ {
		t := reqT
		if i%2 == 1 {
			t = respT
		}
		p := &popCfg{r: r, s: s, fill: i % 3, textMode: 2, respectGating: true}
		x := reflect.New(t.tg.ty.Elem())
		p.populate(x.Elem())
		if doc, pn := guard("MarshalJSON", func() []byte { return ttlv.MarshalJSON(x.Interface()) }); pn == "" && len(doc) <= 40000 {
			jsonDoc([]hxTarget{t, generic}, doc)
		}
		if i%3 == 0 {
			if doc, pn := guard("MarshalXML", func() []byte { return ttlv.MarshalXML(x.Interface()) }); pn == "" && len(doc) <= 40000 {
				xmlDoc([]hxTarget{t, generic}, doc)
			}
		}
	}
	n = ctx.N(30, 200)
	for i := 0; i < n; i++ {
		opts := tree.GenOpts{MaxDepth: 4, MaxChildren: 4, MaxData: 12, MaxBigBits: 70, TextMode: 2}
		if i%3 == 1 {
			opts = tree.GenOpts{MaxDepth: 8, MaxChildren: 2, MaxData: 8, MaxBigBits: 70, TextMode: 2}
		}
		it := tree.Gen(r, opts, 0)
		if !lexInScope(lexItemOf(it)) {
			continue
		}
		if doc, pn := guard("MarshalJSON", func() []byte { return ttlv.MarshalJSON(toValue(it)) }); pn == "" {
			jsonDoc([]hxTarget{generic}, doc)
		}
	}
	for _, op := range rpOps {
		c := 0
		for _, nm := range rpNames {
			c += ctx.Res.Distribution["repeat.class.json."+op+"."+nm]
		}
		if c < 50 {
			ctx.Res.Fail(fmt.Sprintf("hostile/repeat: class %s has only %d cases", op, c))
		}
	}
}

// replayExtent / replayRepeat: one recorded line.
func replayExtent(ctx *Ctx, l string) {
	f := strings.Fields(l)
	if len(f) != 4 {
		return
	}
	t, ok := hxTargetOf(f[1])
	base, err1 := hexDecode(f[2])
	mut, err2 := hexDecode(f[3])
	if !ok || err1 != nil || err2 != nil {
		return
	}
	extentCase(ctx, lexNewEnv(), t, base, mut, "", "replay")
}

func replayRepeat(ctx *Ctx, l string) {
	f := strings.Fields(l)
	if len(f) != 5 {
		return
	}
	t, ok := hxTargetOf(f[2])
	k, err1 := strconv.Atoi(f[3])
	doc, err2 := hexDecode(f[4])
	if !ok || err1 != nil || err2 != nil {
		return
	}
	for _, c := range textCodecs {
		if c.name == f[1] {
			repeatCase(ctx, c, t, doc, max(k, 200), "replay")
		}
	}
}
