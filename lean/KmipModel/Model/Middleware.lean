/-
  Middleware chains — model of
    * `kmipclient/client.go`  `Client.Roundtrip`, `Client.nextFrom`             (kind `client`)
    * `kmipserver/router.go`  `BatchExecutor.HandleRequest`, `nextFrom`          (kind `srvmsg`)
    * `kmipserver/router.go`  `executeItemWithMiddleware`, `biNextFrom`          (kind `srvitem`)

  The three Go chains are the same code up to the types, so ONE generic definition (`nextFrom`) is
  instantiated three times; the kinds differ only in what surrounds the chain: what the innermost
  continuation does with the message it is given (`coreRun`: the scripted transport for the client;
  for the server the library's own `executeItem`, which looks the operation handler up FROM THE ITEM
  IT IS GIVEN and echoes that item's operation), what the entry point does with the pair returned by
  the outermost stage (`finish`), which request header the handler's context reports (`hdrOf`), and —
  for the pre-fix code only — which message is forwarded (`runOld`).

  Everything a user can plug in is *data*:
    * a middleware (stage) is a program: a list of `Act`ions run by `runActs` against the
      continuation `next` it is given. The alphabet expresses pass-through, short-circuit with a fixed
      response / with an error / with `(nil, nil)`, calling `next` twice or n times, retry while the
      result is a failure, replacing the message, CHANGING THE OPERATION of the message, replacing
      the context value, ignoring the inner result, `return nil, err`, swallowing an error;
    * a message is an abstract token plus the operation it requests (`Msg`); a context is a token; a
      stage transforms them (`Tr`, `setOp`), so what each stage RECEIVES is observable in the trace;
    * the operation handlers are scripts (`Core`): the outcome depends on how many times a handler
      has been invoked and on the message it receives. On the server, operations 1 and 2 are routed
      to two DISTINCT handlers (handler 1, handler 2), every other operation has no handler.

  A Go continuation returns a pair `(resp, err)` in which either component may be nil: `R`.
  No statement of the three chains can panic (indexing is guarded by `i < len(...)`; the nil
  response item of the item chain is handled since 851aad4), so there is no `.panic` result here.
-/
namespace Kmip.Mw

/-! ### values -/

/-- a request (message of the client / server message chain, batch item of the item chain):
    a token and the operation it requests (1, 2: routed on the server; 3: not routed). -/
structure Msg where
  tok : Nat
  op  : Nat
  deriving Repr, DecidableEq, Inhabited

/-- a response (message / batch item): a token and the operation it echoes (0 = none). -/
structure Resp where
  tok : Nat
  op  : Nat
  deriving Repr, DecidableEq, Inhabited

/-- `(resp, err)` as returned by a continuation / middleware: each component may be `nil`. -/
structure R where
  resp : Option Resp
  err  : Option Nat
  deriving Repr, DecidableEq, Inhabited

/-- `(nil, nil)` -/
def R.nil : R := ⟨none, none⟩

/-- response tokens `≥ failBase` stand for a response whose batch item has `ResultStatus = Failed`
    (token `failBase + e` carries the error code `e` in its `ResultMessage`). -/
def failBase : Nat := 1000

/-- error code of an error created by the library itself ("No response for batch item",
    "Operation not supported"). -/
def libErr : Nat := 999

/-- what a retrying stage looks at: a non-nil error, or a response reporting a failed operation. -/
def R.isFail (r : R) : Bool :=
  r.err.isSome || (match r.resp with | some t => decide (failBase ≤ t.tok) | none => false)

/-- how a stage derives the token it passes on from the one it holds. -/
inductive Tr where
  | tag (k : Nat)      -- x ↦ 10·x + k   (the received value stays visible)
  | const (v : Nat)    -- x ↦ v          (a brand new message / context)
  deriving Repr, DecidableEq, Inhabited

def Tr.app : Tr → Nat → Nat
  | .tag k, x => x * 10 + k
  | .const v, _ => v

/-- what a stage returns, given the result of its latest call of `next` (`(nil,nil)` if none). -/
inductive Ret where
  | last               -- return resp, err
  | errOnly            -- return nil, err        (kmipserver.DebugMiddleware on error)
  | respOnly           -- return resp, nil       (swallow the error)
  | fixed (r : R)      -- return a value of its own, ignoring the inner result
  deriving Repr, DecidableEq, Inhabited

def Ret.eval : Ret → R → R
  | .last, l => l
  | .errOnly, l => ⟨none, l.err⟩
  | .respOnly, l => ⟨l.resp, none⟩
  | .fixed r, _ => r

/-- one statement of a stage program. The local variables of a stage are the message and context it
    currently holds (initially those it received) and the result of its latest call of `next`. -/
inductive Act where
  | setMsg (t : Tr)        -- msg = a new message with token t(token), same operation
  | setOp (o : Nat)        -- msg = a new message with the same token requesting operation o
  | setCtx (t : Tr)        -- ctx = context.WithValue(ctx, key, t(value))
  | call                   -- resp, err = next(ctx, msg)
  | callIfFail             -- if failed(resp, err) { resp, err = next(ctx, msg) }      (one retry step)
  | ret (rt : Ret)         -- return …
  | retIfFail (rt : Ret)   -- if failed(resp, err) { return … }
  | retIfOk (rt : Ret)     -- if !failed(resp, err) { return … }
  deriving Repr, DecidableEq, Inhabited

/-- a middleware: an identifier (only used in the trace) and a program. Falling off the end of the
    program returns the latest `(resp, err)`. -/
structure Stage where
  id   : Nat
  body : List Act
  deriving Repr, DecidableEq, Inhabited

/-- outcome of a scripted handler. -/
inductive Out where
  | ok (v : Nat)
  | err (e : Nat)
  deriving Repr, DecidableEq, Inhabited

inductive Event where
  | enter (id : Nat) (m : Msg) (c : Nat)   -- stage `id` starts, having received `m` and context `c`
  | call  (id : Nat) (m : Msg) (c : Nat)   -- stage `id` invokes its continuation with `m`, `c`
  | back  (id : Nat) (r : R)               -- that invocation returned `r` to stage `id`
  | exit  (id : Nat) (r : R)               -- stage `id` returns `r`
  | core  (n hd : Nat) (m : Msg) (c h : Nat) (o : Out)
      -- `n`-th handler invocation: handler `hd` (0: the client's transport) ran with message `m`
      -- (token and payload type read from the payload it was given) and context `c`; its context
      -- reports request header `h`; it answers `o`
  deriving Repr, DecidableEq, Inhabited

/-- the state threaded through a run: the trace so far, the number of handler invocations so far,
    and — used by the PRE-FIX chain `oldNext` only — the shared cursor. -/
structure St where
  trace : List Event
  calls : Nat
  cur   : Nat
  deriving Repr, DecidableEq, Inhabited

def St.log (s : St) (e : Event) : St := { s with trace := s.trace ++ [e] }

def St.init : St := ⟨[], 0, 0⟩

/-- a Go continuation `func(ctx, msg) (resp, err)`, with the state made explicit. -/
abbrev Next := Msg → Nat → St → R × St

/-! ### running a stage program -/

/-- `resp, err = next(ctx, msg)` performed by stage `id`. -/
def doCall (next : Next) (id : Nat) (m : Msg) (c : Nat) (s : St) : R × St :=
  let x := next m c (s.log (.call id m c))
  (x.1, x.2.log (.back id x.1))

/-- the interpreter of stage programs: `m`, `c` are the message / context currently held, `last` the
    latest result of `next`. -/
def runActs (next : Next) (id : Nat) : List Act → Msg → Nat → R → St → R × St
  | [], _, _, last, s => (last, s)
  | .setMsg t :: as, m, c, last, s => runActs next id as { m with tok := t.app m.tok } c last s
  | .setOp o :: as, m, c, last, s => runActs next id as { m with op := o } c last s
  | .setCtx t :: as, m, c, last, s => runActs next id as m (t.app c) last s
  | .call :: as, m, c, _, s =>
    let x := doCall next id m c s
    runActs next id as m c x.1 x.2
  | .callIfFail :: as, m, c, last, s =>
    if last.isFail then
      let x := doCall next id m c s
      runActs next id as m c x.1 x.2
    else runActs next id as m c last s
  | .ret rt :: _, _, _, last, s => (rt.eval last, s)
  | .retIfFail rt :: as, m, c, last, s =>
    if last.isFail then (rt.eval last, s) else runActs next id as m c last s
  | .retIfOk rt :: as, m, c, last, s =>
    if last.isFail then runActs next id as m c last s else (rt.eval last, s)

/-- `mdl(next, ctx, msg)`: the middleware `st` invoked with continuation `next`. -/
def runStage (next : Next) (st : Stage) : Next := fun m c s =>
  let x := runActs next st.id st.body m c R.nil (s.log (.enter st.id m c))
  (x.1, x.2.log (.exit st.id x.1))

/-! ### the innermost continuation -/

/-- `rej`: message tokens the handlers refuse whatever the call count (error code 9). -/
structure Core where
  script : List Out
  dflt   : Out
  rej    : List Nat
  deriving Repr, DecidableEq, Inhabited

inductive Kind where
  | client | srvmsg | srvitem
  deriving Repr, DecidableEq, Inhabited

/-- `exec.routes[bi.Operation]`: on the server operations 1 and 2 have a handler; the client's
    transport takes every message. -/
def routed : Kind → Nat → Bool
  | .client, _ => true
  | _, op => op == 1 || op == 2

/-- the handler registered for an operation: handler `op` for operation `op` (0: the transport). -/
def handlerOf : Kind → Nat → Nat
  | .client, _ => 0
  | _, op => op

/-- how an outcome of the handler that ran on a message requesting `op` reaches the last stage.
    * `client`:  the scripted transport returns `(resp, nil)` or `(nil, err)`;
    * `srvmsg`:  the core is `handleRequest`: a handler error becomes a failed batch item of a
      response returned with a nil error;
    * `srvitem`: the core is `executeItem`: it always returns a non-nil item (token 0 = no payload)
      together with the handler's error.
    The response echoes the operation of the message the core was given. -/
def coreResult : Kind → Out → Nat → R
  | _, .ok v, op => ⟨some ⟨v, op⟩, none⟩
  | .client, .err e, _ => ⟨none, some e⟩
  | .srvmsg, .err e, op => ⟨some ⟨failBase + e, op⟩, none⟩
  | .srvitem, .err e, op => ⟨some ⟨0, op⟩, some e⟩

/-- the core on a message whose operation has no handler: `ErrOperationNotSupported`. -/
def notRouted (k : Kind) (op : Nat) : R := coreResult k (.err libErr) op

def Core.outcome (core : Core) (n tok : Nat) : Out :=
  if core.rej.contains tok then .err 9 else core.script.getD n core.dflt

/-- the innermost continuation (`doRountrip` / `handleRequest` / `executeItem`): look the handler up
    from the operation of the message IT IS GIVEN, run it on that message; `h m`: the request header
    the handler's context reports when the innermost continuation is given message `m`. -/
def coreRun (k : Kind) (core : Core) (h : Msg → Nat) : Next := fun m c s =>
  if routed k m.op then
    let o := core.outcome s.calls m.tok
    (coreResult k o m.op,
      { s with calls := s.calls + 1,
               trace := s.trace ++ [.core s.calls (handlerOf k m.op) m c (h m) o] })
  else (notRouted k m.op, s)

/-! ### the three ways of running a chain -/

/-- SPECIFICATION: plain nested composition `stage₀ (stage₁ (… core))`. Each call of a continuation
    runs the whole remainder once, with the message / context it is given. -/
def specNext (core : Next) : List Stage → Next
  | [] => core
  | st :: rest => runStage (specNext core rest) st

/-- CURRENT CODE: `nextFrom(i)` of `kmipclient/client.go` (and `nextFrom`, `biNextFrom` of
    `kmipserver/router.go`):
    ```go
    return func(ctx, req) (resp, error) {
        if i < len(c.middlewares) { return c.middlewares[i](c.nextFrom(i+1), ctx, req) }
        return c.doRountrip(ctx, req)
    }
    ``` -/
def nextFrom (chain : List Stage) (core : Next) (i : Nat) : Next := fun m c s =>
  if h : i < chain.length then runStage (nextFrom chain core (i + 1)) chain[i] m c s
  else core m c s
termination_by chain.length - i

/-- PRE-FIX CODE (before c5825cf / ec9e0d5): ONE closure `next` over ONE cursor `i` shared by all its
    invocations:
    ```go
    i := 0
    next = func(ctx, rm) (resp, error) {
        if i < len(mws) { mdl := mws[i]; i++; return mdl(next, ctx, rm /* srvmsg: req */) }
        return core(ctx, rm /* srvmsg: req */)
    }
    ```
    The cursor lives in the state (`St.cur`). `orig = some m0` models the server message chain, which
    forwarded the ORIGINAL request instead of the one given to `next`. The fuel bounds the nesting
    depth: every nested entry increments the cursor, so `chain.length + 1` is never exhausted.
    (Checked against the real pre-fix code, worktree at 96d5b20, through driver command `mw.old`:
    identical answers on every generated server message / item chain, except item chains whose
    outermost stage returns a nil item with an error — those dereferenced nil before 851aad4, which
    is not modelled here.) -/
def oldNext (chain : List Stage) (core : Next) (orig : Option Msg) : Nat → Next
  | 0 => fun _ _ s => (⟨none, some 9999⟩, s)
  | fuel + 1 => fun m c s =>
    let fm := orig.getD m
    if h : s.cur < chain.length then
      runStage (oldNext chain core orig fuel) chain[s.cur] fm c { s with cur := s.cur + 1 }
    else core fm c s

/-- WHERE the server makes the batch context whose header `GetRequestHeader(ctx)` /
    `GetProtocolVersion(ctx)` report to the operation handlers (kmipserver/router.go):
    * `entry`: only `HandleRequest` does, from the request it is given, BEFORE the message chain runs
      (the code before 4b5c841): handlers are told the header of the ORIGINAL message even when a
      message middleware passed another one on;
    * `core`: the core handler `handleRequest` does, from the message it is given (the code at /repo
      HEAD, since 4b5c841; `HandleRequest` still makes one for the middlewares, which the handlers'
      context shadows).
    The engine determines which one the real code is by probing it. -/
inductive HdrMode where
  | entry | core
  deriving Repr, DecidableEq, Inhabited

/-- the request header the handler's context reports, as a function of the message the innermost
    continuation is given. The item chain cannot replace the message: its items are executed under
    the header of the message `handleRequest` is executing. The client has no such context. -/
def hdrFn : HdrMode → Kind → Msg → Msg → Nat
  | _, .client, _ => fun _ => 0
  | .core, .srvmsg, _ => fun m => m.tok
  | _, _, m0 => fun _ => m0.tok

/-- the code at /repo HEAD: the handlers' context reports the header of the message the core handler
    was given. -/
def hdrOf (k : Kind) (m0 : Msg) : Msg → Nat := hdrFn .core k m0

/-- what the entry point does with the pair returned by the outermost stage (`op0`: the operation
    of the request the entry point was given).
    * `Client.Roundtrip` returns it;
    * `HandleRequest`: `if err != nil { return handleMessageError(…) }; return resp` (possibly nil);
      the error response carries an item without operation;
    * `executeItemWithMiddleware`: a nil item is replaced by an empty one echoing the operation of
      the ORIGINAL item (with the library's own error if there was none), then a non-nil error turns
      the item into a failed one. -/
def finish : Kind → Nat → R → R
  | .client, _, r => r
  | .srvmsg, _, r =>
    match r.err with
    | some e => ⟨some ⟨failBase + e, 0⟩, none⟩
    | none => ⟨r.resp, none⟩
  | .srvitem, op0, r =>
    match r.resp, r.err with
    | none, none => ⟨some ⟨failBase + libErr, op0⟩, none⟩
    | none, some e => ⟨some ⟨failBase + e, op0⟩, none⟩
    | some t, some e => ⟨some ⟨failBase + e, t.op⟩, none⟩
    | some t, none => ⟨some t, none⟩

/-- result of a run: what the entry point returns, and the trace. -/
abbrev Run := R × List Event

def mkRun (k : Kind) (op0 : Nat) (x : R × St) : Run := (finish k op0 x.1, x.2.trace)

def runSpec (k : Kind) (chain : List Stage) (core : Core) (m0 : Msg) (c0 : Nat) : Run :=
  mkRun k m0.op (specNext (coreRun k core (hdrOf k m0)) chain m0 c0 St.init)

def runImpl (k : Kind) (chain : List Stage) (core : Core) (m0 : Msg) (c0 : Nat) : Run :=
  mkRun k m0.op (nextFrom chain (coreRun k core (hdrOf k m0)) 0 m0 c0 St.init)

def runOld (k : Kind) (chain : List Stage) (core : Core) (m0 : Msg) (c0 : Nat) : Run :=
  mkRun k m0.op (oldNext chain (coreRun k core (hdrFn .entry k m0)) (if k = .srvmsg then some m0 else none)
    (chain.length + 1) m0 c0 St.init)

/-- the same with the header mode as a parameter (`runImpl = runImplH .core`). -/
def runImplH (hm : HdrMode) (k : Kind) (chain : List Stage) (core : Core) (m0 : Msg) (c0 : Nat) :
    Run :=
  mkRun k m0.op (nextFrom chain (coreRun k core (hdrFn hm k m0)) 0 m0 c0 St.init)

def runSpecH (hm : HdrMode) (k : Kind) (chain : List Stage) (core : Core) (m0 : Msg) (c0 : Nat) :
    Run :=
  mkRun k m0.op (specNext (coreRun k core (hdrFn hm k m0)) chain m0 c0 St.init)

/-! ### registration -/

/-- `exec.Use(a…); exec.Use(b…)` / `WithMiddlewares(a…), WithMiddlewares(b…)` /
    `exec.BatchItemUse(…)`: every call appends its arguments (`append(o.middlewares, m...)`). -/
def registered (calls : List (List Stage)) : List Stage := calls.foldl (· ++ ·) []

/-! ### several items: the batch loop enters the item chain once PER ITEM -/

/-- `handleRequest`'s loop `for i := range req.BatchItem { … executeItemWithMiddleware(ctx, &item) }`
    with no message middleware: every item goes through `biNextFrom(0)` with the same context; the
    state (trace, handler invocation count) is threaded from one item to the next. `h0`: the header
    of the request. Returns the response items in order. -/
def runItems (chain : List Stage) (core : Core) (h0 : Nat) (c : Nat) : List Msg → St → List R × St
  | [], s => ([], s)
  | it :: rest, s =>
    let x := nextFrom chain (coreRun .srvitem core (fun _ => h0)) 0 it c s
    let y := runItems chain core h0 c rest x.2
    (finish .srvitem it.op x.1 :: y.1, y.2)

def runBatchItems (chain : List Stage) (core : Core) (h0 c0 : Nat) (items : List Msg) :
    List R × List Event :=
  let x := runItems chain core h0 c0 items St.init
  (x.1, x.2.trace)

/-- the specification of the same: plain nested composition per item. -/
def specItems (chain : List Stage) (core : Core) (h0 : Nat) (c : Nat) : List Msg → St → List R × St
  | [], s => ([], s)
  | it :: rest, s =>
    let x := specNext (coreRun .srvitem core (fun _ => h0)) chain it c s
    let y := specItems chain core h0 c rest x.2
    (finish .srvitem it.op x.1 :: y.1, y.2)

def specBatchItems (chain : List Stage) (core : Core) (h0 c0 : Nat) (items : List Msg) :
    List R × List Event :=
  let x := specItems chain core h0 c0 items St.init
  (x.1, x.2.trace)

/-! ### both server chains installed -/

/-- the innermost continuation of the message chain when an item chain is installed too:
    `handleRequest` on a one-item message runs the item chain on that item, under the header `h m`
    of … (see `HdrMode`), and returns a response message holding the finished item. -/
def bothCore (ichain : List Stage) (core : Core) (h : Msg → Nat) : Next := fun m c s =>
  let x := nextFrom ichain (coreRun .srvitem core (fun _ => h m)) 0 m c s
  (finish .srvitem m.op x.1, x.2)

def runBoth (hm : HdrMode) (mchain ichain : List Stage) (core : Core) (m0 : Msg) (c0 : Nat) : Run :=
  mkRun .srvmsg m0.op (nextFrom mchain (bothCore ichain core (hdrFn hm .srvmsg m0)) 0 m0 c0 St.init)

def runBothSpec (hm : HdrMode) (mchain ichain : List Stage) (core : Core) (m0 : Msg) (c0 : Nat) :
    Run :=
  mkRun .srvmsg m0.op
    (specNext (fun m c s =>
        let x := specNext (coreRun .srvitem core (fun _ => hdrFn hm .srvmsg m0 m)) ichain m c s
        (finish .srvitem m.op x.1, x.2)) mchain m0 c0 St.init)

/-! ### concurrency: a memory cell shared with other goroutines -/

/-- `St.cur` read as a memory cell OUTSIDE the call (a field of the `Client` / `BatchExecutor`, a
    package variable) that other goroutines running the same chain may overwrite at any moment:
    `env n` is what they have made of it by the time the trace of THIS run has `n` events. The
    `…P` functions are the chain code run under such interference: after every event the cell holds
    whatever the environment put there. -/
def St.logP (env : Nat → Nat) (s : St) (e : Event) : St :=
  { trace := s.trace ++ [e], calls := s.calls, cur := env (s.trace.length + 1) }

def doCallP (env : Nat → Nat) (next : Next) (id : Nat) (m : Msg) (c : Nat) (s : St) : R × St :=
  let x := next m c (s.logP env (.call id m c))
  (x.1, x.2.logP env (.back id x.1))

def runActsP (env : Nat → Nat) (next : Next) (id : Nat) : List Act → Msg → Nat → R → St → R × St
  | [], _, _, last, s => (last, s)
  | .setMsg t :: as, m, c, last, s => runActsP env next id as { m with tok := t.app m.tok } c last s
  | .setOp o :: as, m, c, last, s => runActsP env next id as { m with op := o } c last s
  | .setCtx t :: as, m, c, last, s => runActsP env next id as m (t.app c) last s
  | .call :: as, m, c, _, s =>
    let x := doCallP env next id m c s
    runActsP env next id as m c x.1 x.2
  | .callIfFail :: as, m, c, last, s =>
    if last.isFail then
      let x := doCallP env next id m c s
      runActsP env next id as m c x.1 x.2
    else runActsP env next id as m c last s
  | .ret rt :: _, _, _, last, s => (rt.eval last, s)
  | .retIfFail rt :: as, m, c, last, s =>
    if last.isFail then (rt.eval last, s) else runActsP env next id as m c last s
  | .retIfOk rt :: as, m, c, last, s =>
    if last.isFail then runActsP env next id as m c last s else (rt.eval last, s)

def runStageP (env : Nat → Nat) (next : Next) (st : Stage) : Next := fun m c s =>
  let x := runActsP env next st.id st.body m c R.nil (s.logP env (.enter st.id m c))
  (x.1, x.2.logP env (.exit st.id x.1))

def coreRunP (env : Nat → Nat) (k : Kind) (core : Core) (h : Msg → Nat) : Next := fun m c s =>
  if routed k m.op then
    let o := core.outcome s.calls m.tok
    (coreResult k o m.op,
      { trace := s.trace ++ [.core s.calls (handlerOf k m.op) m c (h m) o], calls := s.calls + 1,
        cur := env (s.trace.length + 1) })
  else (notRouted k m.op, s)

/-- the CURRENT chain code under interference: the index `i` is a parameter of the closure, the
    shared cell is never consulted. -/
def nextFromP (env : Nat → Nat) (chain : List Stage) (core : Next) (i : Nat) : Next := fun m c s =>
  if h : i < chain.length then runStageP env (nextFromP env chain core (i + 1)) chain[i] m c s
  else core m c s
termination_by chain.length - i

def runImplP (env : Nat → Nat) (k : Kind) (chain : List Stage) (core : Core) (m0 : Msg) (c0 : Nat) :
    Run :=
  mkRun k m0.op (nextFromP env chain (coreRunP env k core (hdrOf k m0)) 0 m0 c0
    { trace := [], calls := 0, cur := env 0 })

/-- a FAULTY variant for contrast: the cursor of the pre-fix code kept in the shared cell (e.g. a
    field of the `Client`): `oldNext` reads `s.cur`, which the environment overwrites. -/
def oldNextP (env : Nat → Nat) (chain : List Stage) (core : Next) : Nat → Next
  | 0 => fun _ _ s => (⟨none, some 9999⟩, s)
  | fuel + 1 => fun m c s =>
    if h : s.cur < chain.length then
      runStageP env (oldNextP env chain core fuel) chain[s.cur] m c { s with cur := s.cur + 1 }
    else core m c s

def runSharedCursorP (env : Nat → Nat) (k : Kind) (chain : List Stage) (core : Core) (m0 : Msg)
    (c0 : Nat) : Run :=
  mkRun k m0.op (oldNextP env chain (coreRunP env k core (hdrOf k m0)) (chain.length + 1) m0 c0
    { trace := [], calls := 0, cur := env 0 })

/-! ### specification vocabulary for the corollaries -/

/-- the events of the successive calls of `next` by stage `id`: each call is the segment
    `call id m' c'`, the inner trace, `back id r'`. -/
def segsOf (id : Nat) : List (Msg × Nat × R × List Event) → List Event
  | [] => []
  | p :: ps => .call id p.1 p.2.1 :: p.2.2.2 ++ .back id p.2.2.1 :: segsOf id ps

/-- `WN cs ids m c r tr`: `tr` is the trace of ONE complete, well-nested execution of the stages
    `ids` (in this order) followed by the core, which received `(m, c)` and returned `r`:
    the first stage enters with `(m, c)`; each of its calls `call id m' c'` is followed by exactly
    one complete execution of the remaining stages that receives exactly `(m', c')`, and the `back`
    event reports exactly the result `r'` of that execution; the stage exits with `r`.
    `cs m c r tr`: what ONE invocation of the innermost continuation with `(m, c)` may look like. -/
inductive WN (cs : Msg → Nat → R → List Event → Prop) :
    List Nat → Msg → Nat → R → List Event → Prop where
  | core (m : Msg) (c : Nat) (r : R) (tr : List Event) : cs m c r tr → WN cs [] m c r tr
  | stage (id : Nat) (rest : List Nat) (m : Msg) (c : Nat) (r : R)
      -- the successive calls of `next` by stage `id`: (message, context, result, inner trace)
      (parts : List (Msg × Nat × R × List Event)) :
      (∀ p ∈ parts, WN cs rest p.1 p.2.1 p.2.2.1 p.2.2.2) →
      WN cs (id :: rest) m c r (.enter id m c :: segsOf id parts ++ [.exit id r])

/-- one invocation of the innermost continuation of kind `k` with `(m, c)`: when the operation OF `m`
    is routed, exactly one handler invocation — of the handler registered for THAT operation, on
    exactly `m` and `c` — whose outcome is returned echoing that operation; otherwise no handler
    runs and the answer is "operation not supported". -/
def CoreSem (k : Kind) (m : Msg) (c : Nat) (r : R) (tr : List Event) : Prop :=
  (routed k m.op = true ∧
    ∃ n h o, tr = [.core n (handlerOf k m.op) m c h o] ∧ r = coreResult k o m.op) ∨
  (routed k m.op = false ∧ tr = [] ∧ r = notRouted k m.op)

def Event.isCore : Event → Bool
  | .core .. => true
  | _ => false

/-- number of handler invocations recorded in a trace. -/
def coreEvents (tr : List Event) : Nat := tr.countP Event.isCore

/-- straight-line statements that keep the operation: no conditional, no `setOp`. -/
def Act.straight : Act → Bool
  | .callIfFail | .retIfFail _ | .retIfOk _ | .setOp _ => false
  | _ => true

def Stage.Straight (st : Stage) : Prop := ∀ a ∈ st.body, a.straight = true

instance (st : Stage) : Decidable st.Straight :=
  inferInstanceAs (Decidable (∀ a ∈ st.body, a.straight = true))

/-- number of `call`s a straight-line program performs: those before its first `ret`. -/
def callsBefore : List Act → Nat
  | [] => 0
  | .ret _ :: _ => 0
  | .call :: as => callsBefore as + 1
  | _ :: as => callsBefore as

def Stage.mult (st : Stage) : Nat := callsBefore st.body

def prodL : List Nat → Nat
  | [] => 1
  | x :: xs => x * prodL xs

/-- what the stages received, in the order they were entered: `(id, message, context)`. -/
def enters : List Event → List (Nat × Msg × Nat)
  | [] => []
  | .enter id m c :: es => (id, m, c) :: enters es
  | _ :: es => enters es

/-- the handler invocations: `(handler, message, context)`. -/
def coreInputs : List Event → List (Nat × Msg × Nat)
  | [] => []
  | .core _ hd m c _ _ :: es => (hd, m, c) :: coreInputs es
  | _ :: es => coreInputs es

/-- the most common middleware shape: derive a message (token AND operation) and a context from
    those received, call `next` once with them, return its result. `p = (id, t, o, u)`. -/
def pipeStage (p : Nat × Tr × Nat × Tr) : Stage :=
  ⟨p.1, [.setMsg p.2.1, .setOp p.2.2.1, .setCtx p.2.2.2, .call]⟩

def pipeMsg (p : Nat × Tr × Nat × Tr) (m : Msg) : Msg := ⟨p.2.1.app m.tok, p.2.2.1⟩

/-- what each stage of a pipeline must receive: the transformations of all its predecessors applied
    in registration order to the initial message / context. -/
def pipeEnters : List (Nat × Tr × Nat × Tr) → Msg → Nat → List (Nat × Msg × Nat)
  | [], _, _ => []
  | p :: ps, m, c => (p.1, m, c) :: pipeEnters ps (pipeMsg p m) (p.2.2.2.app c)

/-- … and what the innermost continuation must receive at the end of the pipeline. -/
def pipeOut : List (Nat × Tr × Nat × Tr) → Msg → Nat → Msg × Nat
  | [], m, c => (m, c)
  | p :: ps, m, c => pipeOut ps (pipeMsg p m) (p.2.2.2.app c)

/-- the handler invocations at the end of a pipeline: one, by the handler of the operation the
    LAST stage passed, when that operation is routed; none otherwise. -/
def pipeCore (k : Kind) (x : Msg × Nat) : List (Nat × Msg × Nat) :=
  if routed k x.1.op then [(handlerOf k x.1.op, x.1, x.2)] else []

end Kmip.Mw
