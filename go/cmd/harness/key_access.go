package main

// Accessor totality part of the `key` engine: every accessor of objects.go / payloads/get.go applied to
// enumerated (hand-built and transported) objects, outcome class compared with the Lean model
// (`key.access`), a panic reported as a C14 violation.

import (
	"crypto"
	"crypto/ecdsa"
	"crypto/rsa"
	"fmt"
	"math/big"
	"strings"
	"time"

	kmip "github.com/ovh/kmip-go"
	"github.com/ovh/kmip-go/payloads"

	"verifharness/internal/report"
)

func errCls(err error) string {
	if err != nil {
		return "err"
	}
	return "ok"
}

func dynCls(k any, err error) string {
	if err != nil {
		return "err"
	}
	switch k.(type) {
	case *rsa.PrivateKey, *rsa.PublicKey:
		return "ok rsa"
	case *ecdsa.PrivateKey, *ecdsa.PublicKey:
		return "ok ecdsa"
	}
	return "ok other"
}

func kbOf(o kmip.Object) *kmip.KeyBlock {
	switch v := o.(type) {
	case *kmip.SecretData:
		return &v.KeyBlock
	case *kmip.SymmetricKey:
		return &v.KeyBlock
	case *kmip.PublicKey:
		return &v.KeyBlock
	case *kmip.PrivateKey:
		return &v.KeyBlock
	case *kmip.SplitKey:
		return &v.KeyBlock
	case *kmip.PGPKey:
		return &v.KeyBlock
	}
	return nil
}

type keyAcc struct {
	name  string
	kinds string // space separated object kinds the accessor applies to; "*" = any payload
	pem   bool   // re-marshals the key through the standard library (outcome on invalid numbers is not modelled)
	call  func(pl *payloads.GetResponsePayload) string
}

var keyAccs = []keyAcc{
	{"kb.material", "sd sk pu pr sp pg", false, func(pl *payloads.GetResponsePayload) string {
		_, err := kbOf(pl.Object).GetMaterial()
		return errCls(err)
	}},
	{"kb.bytes", "sd sk pu pr sp pg", false, func(pl *payloads.GetResponsePayload) string { _, err := kbOf(pl.Object).GetBytes(); return errCls(err) }},
	{"kb.attrs", "sd sk pu pr sp pg", false, func(pl *payloads.GetResponsePayload) string {
		return fmt.Sprintf("ok %d", len(kbOf(pl.Object).GetAttributes()))
	}},
	{"secret.data", "sd", false, func(pl *payloads.GetResponsePayload) string {
		_, err := pl.Object.(*kmip.SecretData).Data()
		return errCls(err)
	}},
	{"sym.material", "sk", false, func(pl *payloads.GetResponsePayload) string {
		_, err := pl.Object.(*kmip.SymmetricKey).KeyMaterial()
		return errCls(err)
	}},
	{"pub.rsa", "pu", false, func(pl *payloads.GetResponsePayload) string {
		k, err := pl.Object.(*kmip.PublicKey).RSA()
		return dynCls(k, err)
	}},
	{"pub.ecdsa", "pu", false, func(pl *payloads.GetResponsePayload) string {
		k, err := pl.Object.(*kmip.PublicKey).ECDSA()
		return dynCls(k, err)
	}},
	{"pub.crypto", "pu", false, func(pl *payloads.GetResponsePayload) string {
		k, err := pl.Object.(*kmip.PublicKey).CryptoPublicKey()
		return dynCls(k, err)
	}},
	{"pub.pem", "pu", true, func(pl *payloads.GetResponsePayload) string {
		_, err := pl.Object.(*kmip.PublicKey).PkixPem()
		return errCls(err)
	}},
	{"priv.rsa", "pr", false, func(pl *payloads.GetResponsePayload) string {
		k, err := pl.Object.(*kmip.PrivateKey).RSA()
		return dynCls(k, err)
	}},
	{"priv.ecdsa", "pr", false, func(pl *payloads.GetResponsePayload) string {
		k, err := pl.Object.(*kmip.PrivateKey).ECDSA()
		return dynCls(k, err)
	}},
	{"priv.crypto", "pr", false, func(pl *payloads.GetResponsePayload) string {
		k, err := pl.Object.(*kmip.PrivateKey).CryptoPrivateKey()
		return dynCls(k, err)
	}},
	{"priv.pem", "pr", true, func(pl *payloads.GetResponsePayload) string {
		_, err := pl.Object.(*kmip.PrivateKey).Pkcs8Pem()
		return errCls(err)
	}},
	{"cert.x509", "ce", false, func(pl *payloads.GetResponsePayload) string {
		_, err := pl.Object.(*kmip.Certificate).X509Certificate()
		return errCls(err)
	}},
	{"cert.pem", "ce", false, func(pl *payloads.GetResponsePayload) string {
		_, err := pl.Object.(*kmip.Certificate).PemCertificate()
		return errCls(err)
	}},
	{"get.secret", "*", false, func(pl *payloads.GetResponsePayload) string { _, err := pl.Secret(); return errCls(err) }},
	{"get.secretstring", "*", false, func(pl *payloads.GetResponsePayload) string { _, err := pl.SecretString(); return errCls(err) }},
	{"get.sym", "*", false, func(pl *payloads.GetResponsePayload) string { _, err := pl.SymmetricKey(); return errCls(err) }},
	{"get.x509", "*", false, func(pl *payloads.GetResponsePayload) string { _, err := pl.X509Certificate(); return errCls(err) }},
	{"get.pemcert", "*", false, func(pl *payloads.GetResponsePayload) string { _, err := pl.PemCertificate(); return errCls(err) }},
	{"get.rsapriv", "*", false, func(pl *payloads.GetResponsePayload) string { k, err := pl.RsaPrivateKey(); return dynCls(k, err) }},
	{"get.ecdsapriv", "*", false, func(pl *payloads.GetResponsePayload) string { k, err := pl.EcdsaPrivateKey(); return dynCls(k, err) }},
	{"get.priv", "*", false, func(pl *payloads.GetResponsePayload) string {
		var k crypto.PrivateKey
		k, err := pl.PrivateKey()
		return dynCls(k, err)
	}},
	{"get.pempriv", "*", true, func(pl *payloads.GetResponsePayload) string { _, err := pl.PemPrivateKey(); return errCls(err) }},
	{"get.rsapub", "*", false, func(pl *payloads.GetResponsePayload) string { k, err := pl.RsaPublicKey(); return dynCls(k, err) }},
	{"get.ecdsapub", "*", false, func(pl *payloads.GetResponsePayload) string { k, err := pl.EcdsaPublicKey(); return dynCls(k, err) }},
	{"get.pub", "*", false, func(pl *payloads.GetResponsePayload) string {
		var k crypto.PublicKey
		k, err := pl.PublicKey()
		return dynCls(k, err)
	}},
	{"get.pempub", "*", true, func(pl *payloads.GetResponsePayload) string { _, err := pl.PemPublicKey(); return errCls(err) }},
}

func (a *keyAcc) applies(kind string) bool {
	if a.kinds == "*" {
		return true
	}
	for _, k := range strings.Fields(a.kinds) {
		if k == kind {
			return true
		}
	}
	return false
}

// accessCase applies every applicable accessor to the payload. `pemModel`: the PEM helpers are compared with
// the model too (otherwise only the no-panic oracle applies to them).
func accessCase(env *keyEnv, pl *payloads.GetResponsePayload, pemModel bool, origin string, only string) {
	ctx := env.ctx
	o := objFromGo(pl.Object)
	if o == nil {
		ctx.Res.Fail(fmt.Sprintf("key: cannot abstract an object of type %T", pl.Object))
		return
	}
	obj := o.render(env.blobs)
	natural := uint32(pl.ObjectType) == o.naturalType()
	for i := range keyAccs {
		a := &keyAccs[i]
		if only != "" && a.name != only {
			continue
		}
		if !a.applies(o.kind) || (a.kinds != "*" && !natural && only == "") {
			continue
		}
		line := fmt.Sprintf("key.access %s %d %s", a.name, uint32(pl.ObjectType), obj)
		if a.pem && !pemModel {
			line = "#" + line
		}
		key := line + "|" + origin
		if env.seen[key] {
			continue
		}
		env.seen[key] = true
		ctx.current = line
		out, p := guard(a.name, func() string { return a.call(pl) })
		if p != "" {
			out = "panic " + panicKey(p)
			ctx.Res.Violate(report.Violation{Property: "C14", Oracle: "accessor-no-panic", Key: "key:accessor-panic:" + a.name,
				Detail: fmt.Sprintf("accessor %s panicked on a %s object (%s): %s", a.name, origin, obj, p), Line: line})
		}
		ctx.Add(line, out, true, "C14")
		ctx.Res.Count("access." + origin + "." + strings.SplitN(out, " ", 2)[0])
	}
}

// transportPayload sends a Get response through an encoding at a version; ok=false when the payload is not
// encodable / not decodable (then it is not a "decodable object").
func transportPayload(enc keyEnc, ver kmip.ProtocolVersion, pl *payloads.GetResponsePayload) (*payloads.GetResponsePayload, bool) {
	msg := &kmip.ResponseMessage{
		Header: kmip.ResponseHeader{ProtocolVersion: ver, TimeStamp: time.Unix(1700000000, 0), BatchCount: 1},
		BatchItem: []kmip.ResponseBatchItem{{Operation: kmip.OperationGet, ResultStatus: kmip.ResultStatusSuccess,
			ResponsePayload: pl}},
	}
	doc, p := guard("marshal", func() []byte { return enc.marshal(msg) })
	if p != "" {
		return nil, false
	}
	back := new(kmip.ResponseMessage)
	err, p := guard("unmarshal", func() error { return enc.unmarshal(doc, back) })
	if p != "" || err != nil || len(back.BatchItem) != 1 {
		return nil, false
	}
	out, ok := back.BatchItem[0].ResponsePayload.(*payloads.GetResponsePayload)
	return out, ok && out != nil
}

type genShape struct {
	o        *shObj
	pemModel bool
}

func bp(b []byte) *[]byte { return &b }

// genShapes enumerates the objects of the accessor-totality part.
func genShapes(env *keyEnv) []genShape {
	var out []genShape
	bl := env.blobs
	rk := env.shapeRSA
	formats := []uint32{}
	for f := uint32(0); f <= 22; f++ {
		formats = append(formats, f)
	}
	formats = append(formats, 99)
	add := func(o *shObj, pem bool) { out = append(out, genShape{o, pem}) }
	validRsaPriv := func() *shRsaPriv {
		return &shRsaPriv{n: rk.N, d: rk.D, e: big.NewInt(int64(rk.E)), p: rk.Primes[0], q: rk.Primes[1], dp: rk.Precomputed.Dp, dq: rk.Precomputed.Dq, qi: rk.Precomputed.Qinv}
	}
	ecD := func(code uint32) *big.Int { return big.NewInt(int64(1000 + code)) }
	defBytes := func(kind string) []byte {
		switch kind {
		case "pr":
			return bl.byName["pkcs1priv"]
		case "pu":
			return bl.byName["pkixrsa"]
		}
		return []byte{1, 2, 3, 4}
	}
	material := func(kind string, mask int) *shMaterial {
		m := &shMaterial{}
		if mask&1 != 0 {
			m.bytes = bp(defBytes(kind))
		}
		if mask&2 != 0 {
			m.sym = bp([]byte{9, 8, 7, 6, 5, 4, 3, 2})
		}
		if mask&4 != 0 {
			m.rsaPriv = validRsaPriv()
		}
		if mask&8 != 0 {
			m.rsaPub = &shRsaPub{n: rk.N, e: big.NewInt(int64(rk.E))}
		}
		if mask&16 != 0 {
			m.ecdsaPriv = &shEcPriv{curve: 7, d: ecD(7)}
		}
		if mask&32 != 0 {
			m.ecdsaPub = &shEcPub{curve: 7, q: bl.byName["u7"]}
		}
		if mask&64 != 0 {
			m.ecPriv = &shEcPriv{curve: 10, d: ecD(10)}
		}
		if mask&128 != 0 {
			m.ecPub = &shEcPub{curve: 10, q: bl.byName["u10"]}
		}
		return m
	}
	kinds := []string{"pr", "pu", "sk", "sd", "sp", "pg"}
	// A: no key material at all
	for _, kind := range kinds {
		for _, f := range formats {
			for _, kv := range []string{"n", "-", "w"} {
				o := &shObj{kind: kind, ty: 1, kb: shKeyBlock{format: f, hasKV: kv != "n", wrapped: kv == "w"}}
				add(o, true)
			}
		}
	}
	// B: every format against subsets of the material slots
	for _, kind := range []string{"pr", "pu"} {
		for _, f := range formats {
			var masks []int
			if env.ctx.Thor {
				for m := 0; m < 256; m++ {
					masks = append(masks, m)
				}
			} else {
				masks = []int{0, 255}
				for b := 0; b < 8; b++ {
					masks = append(masks, 1<<b, 255&^(1<<b))
				}
			}
			for i, m := range masks {
				attrs := 0
				if i%2 == 1 {
					attrs = 2
				}
				add(&shObj{kind: kind, kb: shKeyBlock{format: f, hasKV: true, wrapped: i%7 == 3, plain: material(kind, m), attrs: attrs}}, true)
			}
		}
	}
	for _, kind := range []string{"sk", "sd", "sp", "pg"} {
		for _, f := range []uint32{1, 2, 3, 7, 10, 20, 99} {
			for _, m := range []int{0, 1, 2, 3, 255} {
				add(&shObj{kind: kind, ty: 1, kb: shKeyBlock{format: f, hasKV: true, plain: material(kind, m), attrs: 1}}, true)
			}
		}
	}
	// C: contents of the slot the format selects
	garbage := [][]byte{{0xDE, 0xAD, 0xBE, 0xEF}, {}, {0x30, 0x00}}
	blobNames := []string{"pkcs1priv", "pkcs1pub", "pkcs8rsa", "pkcs8ec", "pkcs8ed", "sec1", "pkixrsa", "pkixec", "pkixed", "cert"}
	for _, kind := range []string{"pr", "pu"} {
		for _, f := range []uint32{1, 2, 3, 4, 5, 6} {
			var contents [][]byte
			for _, n := range blobNames {
				contents = append(contents, bl.byName[n])
			}
			contents = append(contents, garbage...)
			for _, c := range contents {
				add(&shObj{kind: kind, kb: shKeyBlock{format: f, hasKV: true, plain: &shMaterial{bytes: bp(c)}}}, true)
			}
		}
	}
	for _, c := range append([][]byte{{1, 2, 3}}, garbage...) {
		for _, f := range []uint32{1, 2, 7} {
			add(&shObj{kind: "sk", kb: shKeyBlock{format: f, hasKV: true, plain: &shMaterial{bytes: bp(c), sym: bp(c)}}}, true)
			add(&shObj{kind: "sd", ty: 1, kb: shKeyBlock{format: f, hasKV: true, plain: &shMaterial{bytes: bp(c)}}}, true)
		}
	}
	// transparent RSA private key: every subset of the optional big integers
	for mask := 0; mask < 128; mask++ {
		t := validRsaPriv()
		ptrs := []**big.Int{&t.d, &t.e, &t.p, &t.q, &t.dp, &t.dq, &t.qi}
		for b, p := range ptrs {
			if mask&(1<<b) != 0 {
				*p = nil
			}
		}
		add(&shObj{kind: "pr", kb: shKeyBlock{format: 10, hasKV: true, plain: &shMaterial{rsaPriv: t}}}, true)
	}
	two63 := new(big.Int).Lsh(bigOne, 63)
	b := big.NewInt
	for _, e := range []*big.Int{two63, new(big.Int).Sub(two63, bigOne), new(big.Int).Neg(two63), new(big.Int).Sub(new(big.Int).Neg(two63), bigOne), b(0), b(-3), new(big.Int).Lsh(bigOne, 200)} {
		t := validRsaPriv()
		t.e = e
		add(&shObj{kind: "pr", kb: shKeyBlock{format: 10, hasKV: true, plain: &shMaterial{rsaPriv: t}}}, false)
		add(&shObj{kind: "pu", kb: shKeyBlock{format: 11, hasKV: true, plain: &shMaterial{rsaPub: &shRsaPub{n: rk.N, e: e}}}}, false)
	}
	for _, g := range []*shRsaPriv{
		{n: b(0), d: b(0), e: b(0), p: b(0), q: b(0)},
		{n: b(35), d: b(5), e: b(5), p: b(5), q: b(7)},
		{n: b(35), d: b(5), e: b(5), p: b(1), q: b(1), dp: b(0), dq: b(0), qi: b(0)},
		{n: b(-35), d: b(-5), e: b(-5), p: b(-1), q: b(0), dp: b(-1), dq: b(-1), qi: b(-1)},
		{n: rk.N, d: rk.D, e: b(int64(rk.E)), p: rk.Primes[1], q: rk.Primes[0], dp: rk.Precomputed.Dp, dq: rk.Precomputed.Dq, qi: rk.Precomputed.Qinv},
		{n: rk.N, d: b(1), e: b(int64(rk.E)), p: rk.Primes[0], q: rk.Primes[1]},
	} {
		add(&shObj{kind: "pr", kb: shKeyBlock{format: 10, hasKV: true, plain: &shMaterial{rsaPriv: g}}}, false)
	}
	add(&shObj{kind: "pu", kb: shKeyBlock{format: 11, hasKV: true, plain: &shMaterial{rsaPub: &shRsaPub{n: rk.N, e: b(int64(rk.E))}}}}, true)
	add(&shObj{kind: "pu", kb: shKeyBlock{format: 11, hasKV: true, plain: &shMaterial{rsaPub: &shRsaPub{n: b(0), e: b(0)}}}}, false)
	add(&shObj{kind: "pu", kb: shKeyBlock{format: 11, hasKV: true, plain: &shMaterial{rsaPub: &shRsaPub{n: b(-7), e: b(-1)}}}}, false)
	// transparent EC keys
	curves := []uint32{4, 7, 10, 13, 0, 1, 99}
	for _, f := range []uint32{14, 20} {
		for _, c := range curves {
			var order *big.Int
			bytesLen := 32
			for _, ci := range keyCurves {
				if ci.code == c {
					order = ci.curve.Params().N
					bytesLen = (order.BitLen() + 7) / 8
				}
			}
			over := new(big.Int).Lsh(bigOne, uint(8*bytesLen))
			type dv struct {
				d   *big.Int
				pem bool
			}
			ds := []dv{{ecD(c), true}, {b(0), false}, {b(-5), false}, {over, order != nil}, {new(big.Int).Add(over, b(12345)), order != nil},
				{new(big.Int).Neg(over), order != nil}, {new(big.Int).Sub(over, bigOne), false}}
			if order != nil {
				ds = append(ds, dv{order, false}, dv{new(big.Int).Sub(order, bigOne), true})
			}
			for _, d := range ds {
				t := &shEcPriv{curve: c, d: d.d}
				m := &shMaterial{}
				if f == 14 {
					m.ecdsaPriv = t
				} else {
					m.ecPriv = t
				}
				add(&shObj{kind: "pr", kb: shKeyBlock{format: f, hasKV: true, plain: m}}, d.pem)
			}
		}
	}
	for _, f := range []uint32{15, 21} {
		for _, c := range curves {
			other := uint32(7)
			if c == 7 {
				other = 10
			}
			qs := [][]byte{bl.byName[fmt.Sprintf("u%d", c)], bl.byName[fmt.Sprintf("u%d", other)], bl.byName[fmt.Sprintf("c%d", c)], bl.byName[fmt.Sprintf("c%d", other)], {0xDE, 0xAD}, {}, {4}}
			for _, q := range qs {
				if q == nil {
					continue
				}
				for _, comp := range []uint32{0, 1, 2, 3, 4, 9} {
					t := &shEcPub{curve: c, q: q}
					m := &shMaterial{}
					if f == 15 {
						m.ecdsaPub = t
					} else {
						m.ecPub = t
					}
					add(&shObj{kind: "pu", kb: shKeyBlock{format: f, comp: comp, hasKV: true, plain: m}}, true)
				}
			}
		}
	}
	for _, ty := range []uint32{1, 2, 0} {
		for _, c := range append([][]byte{bl.byName["cert"], bl.byName["pkixrsa"]}, garbage...) {
			add(&shObj{kind: "ce", ty: ty, cert: c}, true)
		}
	}
	add(&shObj{kind: "op"}, true)
	add(&shObj{kind: "te"}, true)
	add(&shObj{kind: "nil"}, true)
	return out
}

func runAccessPart(env *keyEnv) {
	shapes := genShapes(env)
	for _, gs := range shapes {
		o := gs.o
		nat := o.naturalType()
		otypes := []uint32{nat}
		if o.kind == "nil" {
			otypes = []uint32{0, 1, 2, 3, 4, 5, 6, 7, 8, 9, 99}
		} else {
			otypes = append(otypes, nat%9+1)
			if o.kb.plain == nil {
				otypes = append(otypes, 0)
			}
			if o.kind == "pu" {
				otypes = append(otypes, 4)
			}
			if o.kind == "pr" {
				otypes = append(otypes, 3)
			}
		}
		for _, ot := range otypes {
			pl := &payloads.GetResponsePayload{ObjectType: kmip.ObjectType(ot), UniqueIdentifier: "id", Object: o.toGo()}
			accessCase(env, pl, gs.pemModel, "raw", "")
		}
		if o.kind == "nil" {
			continue
		}
		for _, enc := range keyEncs {
			vers := []kmip.ProtocolVersion{kmip.V1_4}
			if enc.name == "ttlv" || env.ctx.Thor {
				vers = append(vers, kmip.V1_0)
			}
			for _, v := range vers {
				pl := &payloads.GetResponsePayload{ObjectType: kmip.ObjectType(nat), UniqueIdentifier: "id", Object: o.toGo()}
				back, ok := transportPayload(enc, v, pl)
				if !ok {
					env.ctx.Res.Count("access.undecodable." + enc.name)
					continue
				}
				accessCase(env, back, gs.pemModel, enc.name, "")
			}
		}
	}
}
