/-
  Certificate obligations, part 4 of 8 of the `current` client system (kernel evaluation; one module per
  part so that lake checks them in parallel). Assembled in `Lemmas/CliCert.lean`.
-/
import KmipModel.Model.CliConn
import KmipModel.Gen.CertCliConn
namespace Kmip.CliCert
open Kmip.CliLts Kmip.CliConn Kmip.Gen.CertCliConn

theorem cuClosed4 : partClosed (sys current) codec certCurrent cuP4 = true := by decide +kernel
theorem cuSafe4 : partSafe codec (badPartial current) cuP4 = true := by decide +kernel

end Kmip.CliCert
