/-
  Certificate obligations, parts 56..63 of 64 of the `patched` client system (kernel evaluation; 8 modules
  so that lake checks them in parallel; small parts keep the kernel's memory small).
  Assembled in `Lemmas/CliCert.lean`.
-/
import KmipModel.Model.CliConn
import KmipModel.Gen.CertCliConn
namespace Kmip.CliCert
open Kmip.CliLts Kmip.CliConn Kmip.Gen.CertCliConn

theorem paClosed56 : partClosed (sys patched) codec certPatched paP56 = true := by decide +kernel
theorem paSafe56 : partSafe codec (badFull patched) paP56 = true := by decide +kernel
theorem paClosed57 : partClosed (sys patched) codec certPatched paP57 = true := by decide +kernel
theorem paSafe57 : partSafe codec (badFull patched) paP57 = true := by decide +kernel
theorem paClosed58 : partClosed (sys patched) codec certPatched paP58 = true := by decide +kernel
theorem paSafe58 : partSafe codec (badFull patched) paP58 = true := by decide +kernel
theorem paClosed59 : partClosed (sys patched) codec certPatched paP59 = true := by decide +kernel
theorem paSafe59 : partSafe codec (badFull patched) paP59 = true := by decide +kernel
theorem paClosed60 : partClosed (sys patched) codec certPatched paP60 = true := by decide +kernel
theorem paSafe60 : partSafe codec (badFull patched) paP60 = true := by decide +kernel
theorem paClosed61 : partClosed (sys patched) codec certPatched paP61 = true := by decide +kernel
theorem paSafe61 : partSafe codec (badFull patched) paP61 = true := by decide +kernel
theorem paClosed62 : partClosed (sys patched) codec certPatched paP62 = true := by decide +kernel
theorem paSafe62 : partSafe codec (badFull patched) paP62 = true := by decide +kernel
theorem paClosed63 : partClosed (sys patched) codec certPatched paP63 = true := by decide +kernel
theorem paSafe63 : partSafe codec (badFull patched) paP63 = true := by decide +kernel

end Kmip.CliCert
