/-
  C18 (typed layer) — re-encoding an input that the TYPED decoder accepts reaches a fixed point.

  Model: `KmipModel/Model/Plan.lean` (`unmarshal`: reflective per-kind decoders with the three field
  wrappers and the shared version cell, the ten hand-written `TagDecodeTTLV` methods; `marshal`: the
  encoders), over the schema regenerated from the Go types (`Gen.schema`).

  The theorems quantify over EVERY byte string the typed decoder accepts into a message / payload
  target — in particular non-conforming ones: elements of a later protocol version present under an
  earlier version (decoded, then gated away by the encoder), unknown trailing elements (dropped),
  omitted optional elements, `omitempty` elements present with their zero value (dropped), absent
  Result Reason of a failed item (invented by the encoder), non-canonical big integers and padding.

  Method: the decoded value `v` has a CONFORMING twin `w` (C01's `Conforms`) that the encoder cannot
  tell from `v` (`accepted_has_twin`, Lemmas/PlanFixpoint*.lean: induction on the decoder's fuel over
  all 8 decoder functions and the 10 hand-written codecs); C01's `roundtrip` applied to `w` gives the
  fixed point.

  Side conditions of `typed_reencode_fixpoint_partial` (each one is discussed in the report):
  * `S.fixOK N` — executable schema condition beside C01's `unambiguous` (decided for `Gen.schema`):
    no `u8/u16/u32/u64` kinds (their decoder only checks the sign), version-gated fields are "quiet"
    (decoding them never writes the version cell), ResponseBatchItem only travels under TagBatchItem
    (its encoder ignores the tag it is given), Import's attribute list is a list of Attribute, …
  * `v.edepth ≤ marshalFuel` — the model's ENCODER runs with fuel 100000 (Go has none): the decoded value
    is nested / its lists are long less than that.
  * `goodU` — no Credential without CredentialValue and no plain KeyValue without KeyMaterial inside
    `v`: the hand-written decoders accept them (all members nil) and on the model they are fixed points
    too (checked by evaluation, see the last example), but they have no conforming twin, so this
    proof does not cover them.
  * `kindTagOK` for the target — trivial for every dynamic type of `Gen.schema` (`gen_tagOK`).
  * the re-encoding is representable (`Item.AllInRange`: lengths `< 2^32`; automatically true of
    anything a 1 MiB transport can carry).
-/
import KmipModel.Props.C01
import KmipModel.Lemmas.PlanFixpoint6
namespace Kmip.C18
open Kmip

/-- the statement at full strength (no side condition on the accepted input). -/
def C18_typed_full : Prop :=
  ∀ (S : Schema), S.unambiguous = true → ∀ (d tag : Nat) (bs : Bytes) (v : Val),
    unmarshal S d tag bs = .ok v →
    ∃ e1, marshal S d tag v = .ok e1 ∧ ∃ v', unmarshal S d tag e1 = .ok v' ∧ marshal S d tag v' = .ok e1

/-- the same for one schema. -/
def C18_typed_full_for (S : Schema) : Prop :=
  ∀ (d tag : Nat) (bs : Bytes) (v : Val), unmarshal S d tag bs = .ok v →
    ∃ e1, marshal S d tag v = .ok e1 ∧ ∃ v', unmarshal S d tag e1 = .ok v' ∧ marshal S d tag v' = .ok e1

/-- 1. whatever the typed decoder accepts has a conforming twin with the same encoding. -/
theorem accepted_input_has_conforming_twin (S : Schema) (N : Nat) (hU : S.unambiguous = true)
    (hX : S.fixOK N = true) (d tag : Nat) (bs : Bytes) (v : Val)
    (h : unmarshal S d tag bs = .ok v)
    (hfuel : v.edepth ≤ marshalFuel)
    (hg : goodU S (S.dyn d).kind v = true)
    (htag : S.kindTagOK (S.dyn d).kind (topTag S d tag) = true)
    (hir : ∀ items ver', encK S marshalFuel (S.dyn d).kind (topTag S d tag) v none = .ok (items, ver') →
      Item.AllInRange items) :
    ∃ w e1, Conforms S d tag w ∧ marshal S d tag v = .ok e1 ∧ marshal S d tag w = .ok e1 := by
  obtain ⟨w, items, hc, h1, h2⟩ :=
    accepted_has_twin S N hU (fixOK_spec hX) (custStep S N hU (fixOK_spec hX)) d tag bs v h hfuel hg htag hir
  exact ⟨w, encList items, hc, h1, h2⟩

/-- 2. C18, typed layer: accepted ⇒ the re-encoding `e1` of the decoded value is accepted again, and
    re-encoding what it decodes to gives exactly `e1`. -/
theorem typed_reencode_fixpoint_partial (S : Schema) (N : Nat) (hU : S.unambiguous = true)
    (hX : S.fixOK N = true) (d tag : Nat) (bs : Bytes) (v : Val)
    (h : unmarshal S d tag bs = .ok v)
    (hfuel : v.edepth ≤ marshalFuel)
    (hg : goodU S (S.dyn d).kind v = true)
    (htag : S.kindTagOK (S.dyn d).kind (topTag S d tag) = true)
    (hir : ∀ items ver', encK S marshalFuel (S.dyn d).kind (topTag S d tag) v none = .ok (items, ver') →
      Item.AllInRange items) :
    ∃ e1, marshal S d tag v = .ok e1
      ∧ ∃ v', unmarshal S d tag e1 = .ok v' ∧ marshal S d tag v' = .ok e1 := by
  obtain ⟨w, e1, hc, h1, h2⟩ :=
    accepted_input_has_conforming_twin S N hU hX d tag bs v h hfuel hg htag hir
  obtain ⟨bs', hm, hu, hm'⟩ := C01.roundtrip S hU d tag w hc
  rw [h2] at hm
  cases hm
  exact ⟨e1, h1, norm S d tag w, hu, hm'⟩

/-! ### The regenerated schema -/

/-- the extra structural condition holds of the schema extracted from the Go types. -/
theorem gen_fixOK : Gen.schema.fixOK 60 = true := by decide +kernel

/-- no dynamic type of the schema is a ResponseBatchItem: every target is fine under every tag. -/
theorem gen_tagOK : Gen.schema.dyns.all (fun dy => Gen.schema.kindTagOK dy.kind 0) = true := by
  decide +kernel

theorem gen_kindTagOK (d tag : Nat) : Gen.schema.kindTagOK (Gen.schema.dyn d).kind tag = true := by
  apply kindTagOK_of_zero
  rcases getD_mem_or_default Gen.schema.dyns d { defTag := 0, kind := .unsupported } with hm | hm
  · exact List.all_eq_true.1 gen_tagOK _ hm
  · unfold Schema.dyn; rw [hm]; rfl

/-- C18 for every target type of the library's schema (messages, payloads, objects, attribute values),
    under any tag. -/
theorem typed_reencode_fixpoint_gen (d tag : Nat) (bs : Bytes) (v : Val)
    (h : unmarshal Gen.schema d tag bs = .ok v)
    (hfuel : v.edepth ≤ marshalFuel)
    (hg : goodU Gen.schema (Gen.schema.dyn d).kind v = true)
    (hir : ∀ items ver', encK Gen.schema marshalFuel (Gen.schema.dyn d).kind (topTag Gen.schema d tag) v none
      = .ok (items, ver') → Item.AllInRange items) :
    ∃ e1, marshal Gen.schema d tag v = .ok e1
      ∧ ∃ v', unmarshal Gen.schema d tag e1 = .ok v' ∧ marshal Gen.schema d tag v' = .ok e1 :=
  typed_reencode_fixpoint_partial Gen.schema 60 C01.gen_unambiguous gen_fixOK d tag bs v h hfuel hg
    (gen_kindTagOK d _) hir

/-- C18 for request messages (`ttlv.UnmarshalTTLV(bs, &kmip.RequestMessage{})`). -/
theorem typed_reencode_fixpoint_request (bs : Bytes) (v : Val)
    (h : unmarshal Gen.schema Gen.requestMessageDyn 0 bs = .ok v)
    (hfuel : v.edepth ≤ marshalFuel)
    (hg : goodU Gen.schema (Gen.schema.dyn Gen.requestMessageDyn).kind v = true)
    (hir : ∀ items ver', encK Gen.schema marshalFuel (Gen.schema.dyn Gen.requestMessageDyn).kind
      (topTag Gen.schema Gen.requestMessageDyn 0) v none = .ok (items, ver') → Item.AllInRange items) :
    ∃ e1, marshal Gen.schema Gen.requestMessageDyn 0 v = .ok e1
      ∧ ∃ v', unmarshal Gen.schema Gen.requestMessageDyn 0 e1 = .ok v'
        ∧ marshal Gen.schema Gen.requestMessageDyn 0 v' = .ok e1 :=
  typed_reencode_fixpoint_gen _ _ bs v h hfuel hg hir

/-- C18 for response messages. -/
theorem typed_reencode_fixpoint_response (bs : Bytes) (v : Val)
    (h : unmarshal Gen.schema Gen.responseMessageDyn 0 bs = .ok v)
    (hfuel : v.edepth ≤ marshalFuel)
    (hg : goodU Gen.schema (Gen.schema.dyn Gen.responseMessageDyn).kind v = true)
    (hir : ∀ items ver', encK Gen.schema marshalFuel (Gen.schema.dyn Gen.responseMessageDyn).kind
      (topTag Gen.schema Gen.responseMessageDyn 0) v none = .ok (items, ver') → Item.AllInRange items) :
    ∃ e1, marshal Gen.schema Gen.responseMessageDyn 0 v = .ok e1
      ∧ ∃ v', unmarshal Gen.schema Gen.responseMessageDyn 0 e1 = .ok v'
        ∧ marshal Gen.schema Gen.responseMessageDyn 0 v' = .ok e1 :=
  typed_reencode_fixpoint_gen _ _ bs v h hfuel hg hir

/-! ### An executable form of the side conditions (for concrete inputs) -/

/-- all side conditions of `typed_reencode_fixpoint_partial` on one input, as one executable check
    (conservative: `encOkB` rejects big integers). -/
def typedSideB (S : Schema) (d tag : Nat) (bs : Bytes) : Bool :=
  match unmarshal S d tag bs with
  | .ok v => decide (v.edepth ≤ marshalFuel) && goodU S (S.dyn d).kind v
      && S.kindTagOK (S.dyn d).kind (topTag S d tag) && encOkB S d tag v
  | _ => false

theorem typed_reencode_fixpoint_checked (S : Schema) (N : Nat) (hU : S.unambiguous = true)
    (hX : S.fixOK N = true) (d tag : Nat) (bs : Bytes) (h : typedSideB S d tag bs = true) :
    ∃ v e1, unmarshal S d tag bs = .ok v ∧ marshal S d tag v = .ok e1
      ∧ ∃ v', unmarshal S d tag e1 = .ok v' ∧ marshal S d tag v' = .ok e1 := by
  unfold typedSideB at h
  split at h
  · rename_i v hv
    simp only [Bool.and_eq_true, decide_eq_true_eq] at h
    obtain ⟨⟨⟨h1, h2⟩, h3⟩, h4⟩ := h
    have hir : ∀ items ver', encK S marshalFuel (S.dyn d).kind (topTag S d tag) v none = .ok (items, ver') →
        Item.AllInRange items := by
      intro items ver' he
      unfold encOkB at h4
      rw [he] at h4
      exact Item.allInRangeB_sound items h4
    obtain ⟨e1, hm, hrest⟩ := typed_reencode_fixpoint_partial S N hU hX d tag bs v hv h1 h2 h3 hir
    exact ⟨v, e1, hv, hm, hrest⟩
  · contradiction

/-! ### Non-vacuity: accepted inputs that no encoder of the library emits

(The inputs below populate every `omitempty` element: the model's `zeroOf`, which fills absent ones, is
defined by well-founded recursion and does not reduce in the kernel; the Go harness exercises the
absent-element cases on the real code.) -/

/-- one hop on the model: decode, re-encode. -/
def reencode (S : Schema) (d tag : Nat) (bs : Bytes) : Option Bytes :=
  match unmarshal S d tag bs with
  | .ok v => (match marshal S d tag v with | .ok e => some e | _ => none)
  | _ => none

/-- a request message under protocol version 1.0 that carries `MaximumResponseSize = 0` (an `omitempty`
    element present with its zero value), `ClientCorrelationValue` and `ServerCorrelationValue` (1.4
    elements), `AttestationCapableIndicator` and `AttestationType` (1.2 elements), one batch item with an
    unregistered operation (0x99: opaque payload) and a message extension, and an unknown element (tag
    0x540002) after the batch item. 312 bytes. -/
def exNonCanon : Bytes := [
  0x42, 0x00, 0x78, 0x01, 0x00, 0x00, 0x01, 0x30, 0x42, 0x00, 0x77, 0x01, 0x00, 0x00, 0x00, 0x98,
  0x42, 0x00, 0x69, 0x01, 0x00, 0x00, 0x00, 0x20, 0x42, 0x00, 0x6A, 0x02, 0x00, 0x00, 0x00, 0x04,
  0x00, 0x00, 0x00, 0x01, 0x00, 0x00, 0x00, 0x00, 0x42, 0x00, 0x6B, 0x02, 0x00, 0x00, 0x00, 0x04,
  0x00, 0x00, 0x00, 0x00, 0x00, 0x00, 0x00, 0x00, 0x42, 0x00, 0x50, 0x02, 0x00, 0x00, 0x00, 0x04,
  0x00, 0x00, 0x00, 0x00, 0x00, 0x00, 0x00, 0x00, 0x42, 0x01, 0x05, 0x07, 0x00, 0x00, 0x00, 0x01,
  0x63, 0x00, 0x00, 0x00, 0x00, 0x00, 0x00, 0x00, 0x42, 0x01, 0x06, 0x07, 0x00, 0x00, 0x00, 0x01,
  0x73, 0x00, 0x00, 0x00, 0x00, 0x00, 0x00, 0x00, 0x42, 0x00, 0xD3, 0x06, 0x00, 0x00, 0x00, 0x08,
  0x00, 0x00, 0x00, 0x00, 0x00, 0x00, 0x00, 0x01, 0x42, 0x00, 0xC7, 0x05, 0x00, 0x00, 0x00, 0x04,
  0x00, 0x00, 0x00, 0x01, 0x00, 0x00, 0x00, 0x00, 0x42, 0x00, 0x0E, 0x05, 0x00, 0x00, 0x00, 0x04,
  0x00, 0x00, 0x00, 0x01, 0x00, 0x00, 0x00, 0x00, 0x42, 0x00, 0x0D, 0x02, 0x00, 0x00, 0x00, 0x04,
  0x00, 0x00, 0x00, 0x01, 0x00, 0x00, 0x00, 0x00, 0x42, 0x00, 0x0F, 0x01, 0x00, 0x00, 0x00, 0x78,
  0x42, 0x00, 0x5C, 0x05, 0x00, 0x00, 0x00, 0x04, 0x00, 0x00, 0x00, 0x99, 0x00, 0x00, 0x00, 0x00,
  0x42, 0x00, 0x93, 0x08, 0x00, 0x00, 0x00, 0x01, 0x01, 0x00, 0x00, 0x00, 0x00, 0x00, 0x00, 0x00,
  0x42, 0x00, 0x79, 0x01, 0x00, 0x00, 0x00, 0x10, 0x54, 0x00, 0x01, 0x02, 0x00, 0x00, 0x00, 0x04,
  0x00, 0x00, 0x00, 0x07, 0x00, 0x00, 0x00, 0x00, 0x42, 0x00, 0x51, 0x01, 0x00, 0x00, 0x00, 0x38,
  0x42, 0x00, 0x9D, 0x07, 0x00, 0x00, 0x00, 0x01, 0x76, 0x00, 0x00, 0x00, 0x00, 0x00, 0x00, 0x00,
  0x42, 0x00, 0x26, 0x06, 0x00, 0x00, 0x00, 0x08, 0x00, 0x00, 0x00, 0x00, 0x00, 0x00, 0x00, 0x00,
  0x42, 0x00, 0x9C, 0x01, 0x00, 0x00, 0x00, 0x10, 0x54, 0x00, 0x02, 0x02, 0x00, 0x00, 0x00, 0x04,
  0x00, 0x00, 0x00, 0x01, 0x00, 0x00, 0x00, 0x00, 0x54, 0x00, 0x02, 0x07, 0x00, 0x00, 0x00, 0x02,
  0x78, 0x79, 0x00, 0x00, 0x00, 0x00, 0x00, 0x00]

set_option maxRecDepth 100000 in
/-- the hypotheses of `typed_reencode_fixpoint_request` hold of this input… -/
theorem exNonCanon_side : typedSideB Gen.schema Gen.requestMessageDyn 0 exNonCanon = true := by
  decide +kernel

/-- …so the theorem applies to it. -/
example : ∃ v e1, unmarshal Gen.schema Gen.requestMessageDyn 0 exNonCanon = .ok v
    ∧ marshal Gen.schema Gen.requestMessageDyn 0 v = .ok e1
    ∧ ∃ v', unmarshal Gen.schema Gen.requestMessageDyn 0 e1 = .ok v'
      ∧ marshal Gen.schema Gen.requestMessageDyn 0 v' = .ok e1 :=
  typed_reencode_fixpoint_checked Gen.schema 60 C01.gen_unambiguous gen_fixOK _ _ _ exNonCanon_side

set_option maxRecDepth 100000 in
/-- the re-encoding DIFFERS from the input: 216 bytes instead of 312 (the zero element, the four
    elements of later versions and the unknown trailing element are gone). -/
example : (reencode Gen.schema Gen.requestMessageDyn 0 exNonCanon).map List.length = some 216 := by
  decide +kernel

/-- the same message with `MaximumResponseSize = 255`. -/
def exNonCanon2 : Bytes := [
  0x42, 0x00, 0x78, 0x01, 0x00, 0x00, 0x01, 0x30, 0x42, 0x00, 0x77, 0x01, 0x00, 0x00, 0x00, 0x98,
  0x42, 0x00, 0x69, 0x01, 0x00, 0x00, 0x00, 0x20, 0x42, 0x00, 0x6A, 0x02, 0x00, 0x00, 0x00, 0x04,
  0x00, 0x00, 0x00, 0x01, 0x00, 0x00, 0x00, 0x00, 0x42, 0x00, 0x6B, 0x02, 0x00, 0x00, 0x00, 0x04,
  0x00, 0x00, 0x00, 0x00, 0x00, 0x00, 0x00, 0x00, 0x42, 0x00, 0x50, 0x02, 0x00, 0x00, 0x00, 0x04,
  0x00, 0x00, 0x00, 0xFF, 0x00, 0x00, 0x00, 0x00, 0x42, 0x01, 0x05, 0x07, 0x00, 0x00, 0x00, 0x01,
  0x63, 0x00, 0x00, 0x00, 0x00, 0x00, 0x00, 0x00, 0x42, 0x01, 0x06, 0x07, 0x00, 0x00, 0x00, 0x01,
  0x73, 0x00, 0x00, 0x00, 0x00, 0x00, 0x00, 0x00, 0x42, 0x00, 0xD3, 0x06, 0x00, 0x00, 0x00, 0x08,
  0x00, 0x00, 0x00, 0x00, 0x00, 0x00, 0x00, 0x01, 0x42, 0x00, 0xC7, 0x05, 0x00, 0x00, 0x00, 0x04,
  0x00, 0x00, 0x00, 0x01, 0x00, 0x00, 0x00, 0x00, 0x42, 0x00, 0x0E, 0x05, 0x00, 0x00, 0x00, 0x04,
  0x00, 0x00, 0x00, 0x01, 0x00, 0x00, 0x00, 0x00, 0x42, 0x00, 0x0D, 0x02, 0x00, 0x00, 0x00, 0x04,
  0x00, 0x00, 0x00, 0x01, 0x00, 0x00, 0x00, 0x00, 0x42, 0x00, 0x0F, 0x01, 0x00, 0x00, 0x00, 0x78,
  0x42, 0x00, 0x5C, 0x05, 0x00, 0x00, 0x00, 0x04, 0x00, 0x00, 0x00, 0x99, 0x00, 0x00, 0x00, 0x00,
  0x42, 0x00, 0x93, 0x08, 0x00, 0x00, 0x00, 0x01, 0x01, 0x00, 0x00, 0x00, 0x00, 0x00, 0x00, 0x00,
  0x42, 0x00, 0x79, 0x01, 0x00, 0x00, 0x00, 0x10, 0x54, 0x00, 0x01, 0x02, 0x00, 0x00, 0x00, 0x04,
  0x00, 0x00, 0x00, 0x07, 0x00, 0x00, 0x00, 0x00, 0x42, 0x00, 0x51, 0x01, 0x00, 0x00, 0x00, 0x38,
  0x42, 0x00, 0x9D, 0x07, 0x00, 0x00, 0x00, 0x01, 0x76, 0x00, 0x00, 0x00, 0x00, 0x00, 0x00, 0x00,
  0x42, 0x00, 0x26, 0x06, 0x00, 0x00, 0x00, 0x08, 0x00, 0x00, 0x00, 0x00, 0x00, 0x00, 0x00, 0x00,
  0x42, 0x00, 0x9C, 0x01, 0x00, 0x00, 0x00, 0x10, 0x54, 0x00, 0x02, 0x02, 0x00, 0x00, 0x00, 0x04,
  0x00, 0x00, 0x00, 0x01, 0x00, 0x00, 0x00, 0x00, 0x54, 0x00, 0x02, 0x07, 0x00, 0x00, 0x00, 0x02,
  0x78, 0x79, 0x00, 0x00, 0x00, 0x00, 0x00, 0x00]

set_option maxRecDepth 100000 in
/-- the model really reaches the fixed point after one hop (312 → 232 → 232 bytes). -/
example : (reencode Gen.schema Gen.requestMessageDyn 0 exNonCanon2).map List.length = some 232
    ∧ (reencode Gen.schema Gen.requestMessageDyn 0 exNonCanon2).bind
        (reencode Gen.schema Gen.requestMessageDyn 0)
      = reencode Gen.schema Gen.requestMessageDyn 0 exNonCanon2 := by
  decide +kernel

/-- a Credential WITHOUT CredentialValue inside a request header (version 1.4, BatchCount 0, no item):
    accepted by `Credential.TagDecodeTTLV` (all members of the CredentialValue stay nil), excluded by
    `goodU` (no conforming twin)… -/
def exMemberless : Bytes := [
  0x42, 0x00, 0x78, 0x01, 0x00, 0x00, 0x00, 0xA0, 0x42, 0x00, 0x77, 0x01, 0x00, 0x00, 0x00, 0x98,
  0x42, 0x00, 0x69, 0x01, 0x00, 0x00, 0x00, 0x20, 0x42, 0x00, 0x6A, 0x02, 0x00, 0x00, 0x00, 0x04,
  0x00, 0x00, 0x00, 0x01, 0x00, 0x00, 0x00, 0x00, 0x42, 0x00, 0x6B, 0x02, 0x00, 0x00, 0x00, 0x04,
  0x00, 0x00, 0x00, 0x04, 0x00, 0x00, 0x00, 0x00, 0x42, 0x00, 0x50, 0x02, 0x00, 0x00, 0x00, 0x04,
  0x00, 0x00, 0x00, 0xFF, 0x00, 0x00, 0x00, 0x00, 0x42, 0x01, 0x05, 0x07, 0x00, 0x00, 0x00, 0x01,
  0x63, 0x00, 0x00, 0x00, 0x00, 0x00, 0x00, 0x00, 0x42, 0x01, 0x06, 0x07, 0x00, 0x00, 0x00, 0x01,
  0x73, 0x00, 0x00, 0x00, 0x00, 0x00, 0x00, 0x00, 0x42, 0x00, 0x0C, 0x01, 0x00, 0x00, 0x00, 0x18,
  0x42, 0x00, 0x23, 0x01, 0x00, 0x00, 0x00, 0x10, 0x42, 0x00, 0x24, 0x05, 0x00, 0x00, 0x00, 0x04,
  0x00, 0x00, 0x00, 0x01, 0x00, 0x00, 0x00, 0x00, 0x42, 0x00, 0x0E, 0x05, 0x00, 0x00, 0x00, 0x04,
  0x00, 0x00, 0x00, 0x01, 0x00, 0x00, 0x00, 0x00, 0x42, 0x00, 0x0D, 0x02, 0x00, 0x00, 0x00, 0x04,
  0x00, 0x00, 0x00, 0x00, 0x00, 0x00, 0x00, 0x00]

set_option maxRecDepth 100000 in
example : typedSideB Gen.schema Gen.requestMessageDyn 0 exMemberless = false := by decide +kernel

set_option maxRecDepth 100000 in
/-- …although the model does reach the fixed point on it (the re-encoding is the input itself): the side
    condition `goodU` is a limit of this proof, not a counterexample. -/
example : reencode Gen.schema Gen.requestMessageDyn 0 exMemberless = some exMemberless := by
  decide +kernel

/-! ### The full statement is false for SOME schema satisfying C01's structural condition

`ResponseBatchItem.TagEncodeTTLV` writes `TagBatchItem` whatever tag it is given, while
`TagDecodeTTLV` expects the tag it is given: a response batch item decoded under another tag re-encodes
to bytes the decoder rejects under that tag. In the library's schema a ResponseBatchItem only occurs as
the `BatchItem` field of a ResponseMessage (`gen_fixOK`: `kindTagOK`), so `Gen.schema` is not affected;
a schema that makes the type a decode target of its own is. -/

/-- the two-hop check on the model (`true` when the input is rejected). -/
def twoHopOk (S : Schema) (d tag : Nat) (bs : Bytes) : Bool :=
  match unmarshal S d tag bs with
  | .ok v =>
    (match marshal S d tag v with
     | .ok e1 =>
       (match unmarshal S d tag e1 with
        | .ok v' => (match marshal S d tag v' with | .ok e2 => e2 == e1 | _ => false)
        | _ => false)
     | _ => false)
  | _ => true

theorem twoHopOk_of_full {S : Schema} (h : C18_typed_full_for S) (d tag : Nat) (bs : Bytes) :
    twoHopOk S d tag bs = true := by
  unfold twoHopOk
  cases hv : unmarshal S d tag bs with
  | ok v =>
    obtain ⟨e1, h1, v', h2, h3⟩ := h d tag bs v hv
    simp only [h1, h2, h3, beq_self_eq_true]
  | err e => rfl
  | panic m => rfl

def quirkStruct : StructDef := {
  defTag := 0x42000F, custom := 2, encCustom := true, decCustom := true,
  fields := [
    { tag := 0x42005C, kind := (.enum 0x42005C) },
    { tag := 0x420093, kind := .bytes },
    { tag := 0x42007F, kind := (.enum 0x42007F) },
    { tag := 0x42007E, kind := (.enum 0x42007E) },
    { tag := 0x42007D, kind := .text },
    { tag := 0x420006, kind := .bytes },
    { tag := 0x42007C, kind := .iface },
    { tag := 0x420051, kind := (.ptr (.struct 1)) }
  ] }

def quirkExt : StructDef := {
  defTag := 0x420051, custom := 0, encCustom := false, decCustom := false,
  fields := [ { tag := 0x42007D, kind := .text } ] }

/-- a two-struct schema whose only target type is a ResponseBatchItem-like struct (codec 2). -/
def quirkSchema : Schema := {
  structs := [quirkStruct, quirkExt],
  dyns := [{ defTag := 0x42000F, kind := (.struct 0) }],
  ops := [], objects := [], attrs := [], unknownPayloadDyn := 0, valueDyn := 0 }

theorem quirk_unambiguous : quirkSchema.unambiguous = true := by decide +kernel

/-- a response batch item (Operation 1, id, status 0, reason 1, message, correlation value, extension)
    under tag 0x420001. -/
def quirkInput : Bytes := [
  0x42, 0x00, 0x01, 0x01, 0x00, 0x00, 0x00, 0x78, 0x42, 0x00, 0x5C, 0x05, 0x00, 0x00, 0x00, 0x04,
  0x00, 0x00, 0x00, 0x01, 0x00, 0x00, 0x00, 0x00, 0x42, 0x00, 0x93, 0x08, 0x00, 0x00, 0x00, 0x01,
  0x01, 0x00, 0x00, 0x00, 0x00, 0x00, 0x00, 0x00, 0x42, 0x00, 0x7F, 0x05, 0x00, 0x00, 0x00, 0x04,
  0x00, 0x00, 0x00, 0x00, 0x00, 0x00, 0x00, 0x00, 0x42, 0x00, 0x7E, 0x05, 0x00, 0x00, 0x00, 0x04,
  0x00, 0x00, 0x00, 0x01, 0x00, 0x00, 0x00, 0x00, 0x42, 0x00, 0x7D, 0x07, 0x00, 0x00, 0x00, 0x01,
  0x6D, 0x00, 0x00, 0x00, 0x00, 0x00, 0x00, 0x00, 0x42, 0x00, 0x06, 0x08, 0x00, 0x00, 0x00, 0x01,
  0x01, 0x00, 0x00, 0x00, 0x00, 0x00, 0x00, 0x00, 0x42, 0x00, 0x51, 0x01, 0x00, 0x00, 0x00, 0x10,
  0x42, 0x00, 0x7D, 0x07, 0x00, 0x00, 0x00, 0x01, 0x78, 0x00, 0x00, 0x00, 0x00, 0x00, 0x00, 0x00]

set_option maxRecDepth 100000 in
theorem quirk_fails : twoHopOk quirkSchema 0 0x420001 quirkInput = false := by decide +kernel

set_option maxRecDepth 100000 in
/-- under its own tag (TagBatchItem) the same item is a fixed point. -/
example : twoHopOk quirkSchema 0 0 ([0x42, 0x00, 0x0F] ++ quirkInput.drop 3) = true := by decide +kernel

/-- `unambiguous` alone does not give the typed fixed point: the extra condition `fixOK` (here its
    clause `kindTagOK`) is needed. -/
theorem C18_typed_full_false : ¬ C18_typed_full := by
  intro h
  have := twoHopOk_of_full (h quirkSchema quirk_unambiguous) 0 0x420001 quirkInput
  rw [quirk_fails] at this
  contradiction

/-- and indeed the side condition of the partial theorem fails there. -/
example : quirkSchema.kindTagOK (quirkSchema.dyn 0).kind (topTag quirkSchema 0 0x420001) = false := by
  decide +kernel

end Kmip.C18
