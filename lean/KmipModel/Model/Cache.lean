/-
  C20 — shared and reused state of the codec, as two small transition systems.

  (a) The plan caches `encodeFuncsCache` / `decodeFuncsCache` (ttlv/encoder.go, ttlv/decoder.go): a
      `sync.Map` from `reflect.Type` to the compiled plan, filled on first use by

          func encodeFuncFor(ty) { if f, ok := cache.Load(ty); ok { return f }     -- Load
                                   f := encodeFunc(ty)                             -- Build (may call encodeFuncFor
                                                                                   --   for the field / element types)
                                   cache.Store(ty, f); return f }                  -- Store

      Several goroutines run this concurrently; the model splits it into its atomic steps (the two
      `sync.Map` operations are linearizable — trusted base, DESIGN §7) and lets a *schedule* (a list of
      thread ids) pick who moves next. `Build` is not atomic in Go: `buildStructEncodeFunc`,
      `buildPointerEncodeFunc` and `buildSliceEncodeFunc` call `encodeFuncFor` for the types they depend
      on, so a thread has a *stack* of calls. What a plan is made of is static: the type, and the
      registries written at `init` (`tagByName`, `tagByType`, `enums`, `bitmasks`, the struct tags) —
      the constant `Builder`.

  (b) A reusable `ttlv.Encoder`: the version cell of the shared `*extension` (ttlv/version.go), the
      writer's buffer, and the writer-local state that survives a call (`xml.Encoder` element stack /
      closed flag). Operations `encode m`, `Clear`, `Bytes`.
-/
import KmipModel.Model.Plan
namespace Kmip.Cache
open Kmip

/-! ## (a) the plan cache -/

/-- a Go type (a key of the `sync.Map`). -/
abbrev TypeId := Nat

/-- The static description of the plan builder `encodeFunc` / `decodeFunc`: which other types' plans it
    fetches through `encodeFuncFor` while building the plan of `ty` (in call order), and the closure it
    makes out of them. It reads only the type and the init-time registries: a constant. -/
structure Builder (P : Type) where
  deps    : TypeId → List TypeId
  combine : TypeId → List P → P

/-- `build` is THE plan of every type: the closure over the plans of its dependencies. (Such a function
    exists exactly when the dependency relation is well founded, i.e. when the Go recursion terminates.) -/
def IsBuild {P : Type} (B : Builder P) (build : TypeId → P) : Prop :=
  ∀ ty, build ty = B.combine ty ((B.deps ty).map build)

/-- where a call `encodeFuncFor(ty)` stands. -/
inductive Pc (P : Type) where
  | load                                        -- about to `cache.Load(ty)`
  | deps (rem : List TypeId) (got : List P)     -- miss: inside `encodeFunc(ty)`; nested calls for `rem` to come
  | store (p : P)                               -- plan built (local variable `f`): about to `cache.Store(ty, f)`
  deriving Repr

structure Frame (P : Type) where
  ty : TypeId
  pc : Pc P
  deriving Repr

/-- a goroutine: its call stack (innermost first), the `encodeFuncFor` requests it has not started yet,
    and what its finished requests returned. -/
structure Thread (P : Type) where
  stack   : List (Frame P)
  todo    : List TypeId
  results : List (TypeId × P)
  deriving Repr

structure State (P : Type) where
  cache   : List (TypeId × P)       -- contents of the sync.Map, newest binding first
  threads : List (Thread P)
  deriving Repr

/-- `cache.Load(ty)`. -/
def lookup {P : Type} (c : List (TypeId × P)) (ty : TypeId) : Option P :=
  match c with
  | [] => none
  | (k, p) :: rest => if k = ty then some p else lookup rest ty

/-- the innermost call (for `ty`) returns `p` to whoever called it: to the goroutine's own code (a result),
    or to the `encodeFunc` of the caller, which goes on with its next dependency. -/
def ret {P : Type} (th : Thread P) (ty : TypeId) (p : P) (rest : List (Frame P)) : Thread P :=
  match rest with
  | [] => { th with stack := [], results := th.results ++ [(ty, p)] }
  | ⟨pty, .deps (_ :: ds) got⟩ :: rest' => { th with stack := ⟨pty, .deps ds (got ++ [p])⟩ :: rest' }
  | _ :: _ => { th with stack := rest }      -- not reachable: a caller is always waiting in `.deps (d :: _)`

/-- one atomic step of one goroutine. -/
def stepThread {P : Type} (B : Builder P) (cache : List (TypeId × P)) (th : Thread P) :
    List (TypeId × P) × Thread P :=
  match th.stack with
  | [] =>
    match th.todo with
    | [] => (cache, th)                                                      -- finished
    | ty :: more => (cache, { th with stack := [⟨ty, .load⟩], todo := more })  -- call encodeFuncFor(ty)
  | ⟨ty, .load⟩ :: rest =>
    match lookup cache ty with
    | some p => (cache, ret th ty p rest)                                    -- Load: hit
    | none => (cache, { th with stack := ⟨ty, .deps (B.deps ty) []⟩ :: rest })   -- Load: miss
  | ⟨ty, .deps [] got⟩ :: rest =>
    (cache, { th with stack := ⟨ty, .store (B.combine ty got)⟩ :: rest })    -- Build finishes
  | ⟨ty, .deps (d :: ds) got⟩ :: rest =>
    (cache, { th with stack := ⟨d, .load⟩ :: ⟨ty, .deps (d :: ds) got⟩ :: rest })   -- nested encodeFuncFor(d)
  | ⟨ty, .store p⟩ :: rest => ((ty, p) :: cache, ret th ty p rest)           -- Store, return f

/-- goroutine `t` moves (a thread id outside the range is a stutter step). -/
def step {P : Type} (B : Builder P) (s : State P) (t : Nat) : State P :=
  match s.threads[t]? with
  | none => s
  | some th =>
    let r := stepThread B s.cache th
    { cache := r.1, threads := s.threads.set t r.2 }

/-- run a schedule. -/
def run {P : Type} (B : Builder P) (s : State P) (sched : List Nat) : State P :=
  sched.foldl (step B) s

/-- a cold process: empty cache, goroutine `t` is going to request `reqs[t]` in order. -/
def init {P : Type} (reqs : List (List TypeId)) : State P :=
  { cache := [], threads := reqs.map fun r => { stack := [], todo := r, results := [] } }

/-- the type of the outermost call in progress (bottom frame of the stack), if any. -/
def bottomTy {P : Type} : List (Frame P) → List TypeId
  | [] => []
  | [f] => [f.ty]
  | _ :: g :: r => bottomTy (g :: r)

/-- the requests of a goroutine in order: finished ones, the one in progress, pending ones. -/
def Thread.trace {P : Type} (th : Thread P) : List TypeId :=
  th.results.map (·.1) ++ bottomTy th.stack ++ th.todo

def Thread.done {P : Type} (th : Thread P) : Bool := th.stack.isEmpty && th.todo.isEmpty

/-- everybody finished. -/
def State.done {P : Type} (s : State P) : Bool := s.threads.all Thread.done

/-- `n` rounds of round-robin (used by the driver to complete a schedule). -/
def roundRobin (nthreads : Nat) (n : Nat) : List Nat :=
  (List.range n).flatMap fun _ => List.range nthreads

/-! ### an executable instance over the wire schema

Plans are rendered as the pre-order listing of the dependency tree (`[ty, #deps, …sub-plans…]`), which
is injective; type ids: dynamic type `d` ↦ `2·d`, struct `s` ↦ `2·s + 1` (pointer, slice and scalar
types have plans of their own in Go; they are keyed by other `reflect.Type`s, behave in the same way
and are folded into their users here). -/

def kindStructs : Kind → List Nat
  | .struct id => [id]
  | .ptr k => kindStructs k
  | .slice k => kindStructs k
  | _ => []

def schemaBuilder (S : Schema) : Builder (List Nat) where
  deps ty :=
    if ty % 2 = 0 then (kindStructs (S.dyn (ty / 2)).kind).map (2 * · + 1)
    else
      let d := S.structDef (ty / 2)
      -- a hand-written TagEncodeTTLV fetches no plan when it is built
      if d.encCustom then [] else (d.fields.flatMap fun f => kindStructs f.kind).map (2 * · + 1)
  combine ty subs := ty :: subs.length :: subs.flatten

/-- the plan by structural recursion on a depth bound. -/
def buildFuel {P : Type} (B : Builder P) (dflt : P) : Nat → TypeId → P
  | 0, _ => dflt
  | n + 1, ty => B.combine ty ((B.deps ty).map (buildFuel B dflt n))

/-! ## (b) the reusable encoder

State that survives between two calls on one `ttlv.Encoder`, modelled as it is laid out in Go:

* the version cell `extension.version` (ttlv/version.go), shared with every nested `Encoder` made by `Struct`;
* the output buffer: a Go byte slice (`ttlvWriter.buf`) or a `bytes.Buffer` (XML / JSON / text). `Clear` does
  `buf = buf[:0]` / `buf.Reset()`: the backing array is KEPT, with its capacity and its old content — the bytes
  of earlier messages are still there beyond `len` (`GoBuf.stale`), and `Bytes()` hands out a slice that ALIASES
  the array (`View`);
* writer-local state: for XML the `xml.Encoder` (element stack, indentation state, its `bufio` buffer);
  the binary, JSON and text writers keep their nesting state (`off`, `indent`, `originalLen`) on the Go call
  stack — the `SFrame`s below, which vanish when a call panics and is recovered.

A call is a sequence of writer calls (`Integer`, …, `Struct(tag, f)` = `open … close`). The text of a token (tag
and type names, value formatting) is a stateless function of the token and of the init-time registries: the
parameter `Render`. Everything that depends on state — where the bytes land, indentation, separators, the
self-closing-tag and trailing-comma surgery on the buffer, the length placeholder patched afterwards — is
spelled out. -/

inductive Backend where
  | ttlv | xml | json | text
  deriving Repr, DecidableEq, Inhabited

/-- a Go `[]byte` with spare capacity / a `bytes.Buffer` never read from: `vis = buf[0:len]` is what `Bytes()`
    shows, `stale = buf[len:cap]` is the rest of the backing array (zeroes after an allocation, remnants of
    earlier content after `buf[:0]`, `Reset` or `Truncate`); `gen` names the backing array (a reallocation
    makes a new one; the old one is never written again). -/
structure GoBuf where
  vis   : Bytes := []
  stale : Bytes := []
  gen   : Nat := 0
  deriving Repr, Inhabited, DecidableEq

namespace GoBuf

/-- the backing array `buf[0:cap]`. -/
def mem (b : GoBuf) : Bytes := b.vis ++ b.stale
def cap (b : GoBuf) : Nat := b.vis.length + b.stale.length

/-- capacity after a reallocation that must hold `need` bytes (Go: `growslice` / `bytes.Buffer.grow`, rounded
    up to a size class; only `≥ need` matters here — nothing observable depends on the policy). -/
def growCap (old need : Nat) : Nat := max need (2 * old)

/-- `append(buf, xs...)` / `bytes.Buffer.Write(xs)`: in place when the capacity suffices (OVERWRITING the
    stale bytes), else into a new, larger array whose tail is zeroed. -/
def append (b : GoBuf) (xs : Bytes) : GoBuf :=
  if xs.length ≤ b.stale.length then { b with vis := b.vis ++ xs, stale := b.stale.drop xs.length }
  else
    let n := b.vis.length + xs.length
    { vis := b.vis ++ xs, stale := List.replicate (growCap b.cap n - n) 0, gen := b.gen + 1 }

/-- `buf = buf[:n]` / `bytes.Buffer.Truncate(n)` (`n ≤ len`): nothing is erased. -/
def truncate (b : GoBuf) (n : Nat) : GoBuf :=
  { b with vis := b.vis.take n, stale := b.vis.drop n ++ b.stale }

/-- `buf = buf[:0]` / `bytes.Buffer.Reset()`. -/
def reset (b : GoBuf) : GoBuf := b.truncate 0

/-- `binary.BigEndian.AppendUint32(buf[:off], x)` with the result dropped (ttlvWriter.Struct): the bytes are
    written at `off` if they fit the CAPACITY (whatever `len` is); otherwise `append` works on a copy and this
    buffer is untouched. -/
def patch (b : GoBuf) (off : Nat) (xs : Bytes) : GoBuf :=
  if off + xs.length ≤ b.cap then
    let m := b.mem.take off ++ xs ++ b.mem.drop (off + xs.length)
    { b with vis := m.take b.vis.length, stale := m.drop b.vis.length }
  else b

end GoBuf

/-- a slice returned by `Bytes()`: `array[0:n]` of backing array `gen`; `snap` = its content when it was
    returned. -/
structure View where
  gen  : Nat
  n    : Nat
  snap : Bytes
  deriving Repr, Inhabited, DecidableEq

/-- what the caller sees NOW through a slice obtained earlier, the encoder's buffer being `b`: the current
    content of the array if the encoder still writes into that array, else (the encoder moved to a larger
    array and never touches the old one again) the content it had. -/
def View.read (v : View) (b : GoBuf) : Bytes :=
  if v.gen = b.gen then b.mem.take v.n else v.snap

/-- the `xml.Encoder` owned by `xmlWriter` (encoding/xml `printer`, with `Indent("", "    ")`), as far as
    `xmlWriter` drives it. `pend` is the content of its `bufio.Writer` not yet flushed into the `bytes.Buffer`
    (bufio flushes by itself when 4096 bytes are pending; `xmlWriter` reads `buf.Len()` only right after a
    `Flush`, so the moment of the transfer is not observable and `pend` is unbounded here). -/
structure XmlEnc where
  tags       : List Nat := []     -- `printer.tags`: the open elements (by the TTLV tag they were made from)
  depth      : Nat := 0
  indentedIn : Bool := false
  putNewline : Bool := false
  pend       : Bytes := []
  closed     : Bool := false      -- `Close()` was called: only the OLD `xmlWriter.Clear` did that
  deriving Repr, Inhabited, DecidableEq

/-- four blanks per level (`Indent("", "    ")`, `jsonWriter.writeIndent`, `textWriter.writeIndent`). -/
def ind (d : Nat) : Bytes := List.replicate (4 * d) 32

namespace XmlEnc

/-- the tail of `printer.writeIndent`: a newline except before the very first token, then the indentation. -/
def nl (e : XmlEnc) : XmlEnc :=
  let e1 := if e.putNewline then { e with pend := e.pend ++ [10] } else { e with putNewline := true }
  { e1 with pend := e1.pend ++ ind e1.depth }

/-- `writeIndent(1)`. -/
def indentIn (e : XmlEnc) : XmlEnc :=
  let e1 := e.nl
  { e1 with depth := e1.depth + 1, indentedIn := true }

/-- `writeIndent(-1)`: an end tag directly after its start tag stays on the same line. -/
def indentOut (e : XmlEnc) : XmlEnc :=
  let e1 := { e with depth := e.depth - 1 }
  if e1.indentedIn then { e1 with indentedIn := false } else ({ e1 with indentedIn := false }).nl

/-- `EncodeToken(StartElement)` printing `text`; false: it returned an error (`panicOnErr` panics). -/
def encodeStart (e : XmlEnc) (tag : Nat) (text : Bytes) : XmlEnc × Bool :=
  if e.closed then (e, false)                       -- "use of closed Encoder"
  else
    let e1 := ({ e with tags := tag :: e.tags }).indentIn
    ({ e1 with pend := e1.pend ++ text }, true)

/-- `EncodeToken(EndElement)`. -/
def encodeEnd (e : XmlEnc) (tag : Nat) (text : Bytes) : XmlEnc × Bool :=
  if e.closed then (e, false)
  else
    match e.tags with
    | [] => (e, false)                              -- "end tag without start tag"
    | t :: rest =>
      if t ≠ tag then (e, false)                    -- "does not match start tag"
      else
        let e1 := ({ e with tags := rest }).indentOut
        ({ e1 with pend := e1.pend ++ text }, true)

end XmlEnc

/-- the stateless part of the text writers: the text of a token. (For the XML writer: the start and end tags
    as `xml.Encoder` prints them, `<Name type="…" value="…">` and `</Name>`.) -/
-- (In Go the text of an enumeration / mask value also depends on the `realtag` argument of `Enum` / `Bitmask`,
-- i.e. on the static Go type of the field — still nothing the encoder remembers from one call to the next. The
-- theorems hold for EVERY `Render`; the items of the typed codec model do not carry the real tag, the `enc.hist`
-- lines use `Enum(0, tag, v)`.)
structure Render where
  xmlStart   : Nat → Bytes            -- `Struct(tag)`: `<Name>` or `<TTLV tag="0x…">`
  xmlEnd     : Nat → Bytes
  xmlLeaf    : Item → Bytes
  xmlLeafEnd : Item → Bytes
  jsonHead   : Nat → Nat → Bytes      -- tag, type code ↦ `{"tag": "…", "type": "…", "value": `
  jsonVal    : Item → Bytes
  textHead   : Nat → Nat → Bytes      -- `Name (Type): `
  textVal    : Item → Bytes

/-- state of an `Encoder` between two calls. -/
structure Encoder where
  be   : Backend
  cell : Option Ver := none         -- `extension.version`
  buf  : GoBuf := {}
  xml  : XmlEnc := {}               -- XML back end only
  deriving Repr, Inhabited, DecidableEq

/-- `NewTTLVEncoder()` / `NewXMLEncoder()` / `NewJSONEncoder()` / `NewTextEncoder()`. -/
def fresh (be : Backend) : Encoder := { be := be }

/-- one call on the `writer` interface. -/
inductive WCall where
  | leaf (it : Item)        -- `Integer` … `Interval` (the item is not a structure)
  | «open» (tag : Nat)      -- `Struct(tag, f)` up to the call of `f`
  | close                   -- … and after `f` has returned
  deriving Repr, Inhabited

/-- what an open `Struct` call keeps on the Go stack. `off`: binary — where the length placeholder is;
    JSON — `originalLen`; text — `oLen`. The nesting depth (`indent` of the JSON / text writer copies) is the
    number of frames. -/
structure SFrame where
  tag : Nat
  off : Nat
  deriving Repr, Inhabited, DecidableEq

/-- `,\n` after a JSON element that is not at top level (`jsonWriter.endElem`). -/
def jsonSep (d : Nat) : Bytes := if d > 0 then [44, 10] else []

/-- `... empty ...` (textWriter.Struct). -/
def emptyMark : Bytes := [46, 46, 46, 32, 101, 109, 112, 116, 121, 32, 46, 46, 46]

/-- `textWriter.startElem`: a newline unless THE BUFFER IS EMPTY. -/
def textStart (R : Render) (b : GoBuf) (d tag ty : Nat) : Bytes :=
  (if b.vis.length > 0 then [10] else []) ++ ind d ++ R.textHead tag ty

/-- `xml.Encoder.Flush`. -/
def flushXml (st : Encoder) : Encoder :=
  { st with buf := st.buf.append st.xml.pend, xml := { st.xml with pend := [] } }

/-- a scalar, at nesting depth `d`. -/
def wLeaf (R : Render) (st : Encoder) (d : Nat) (it : Item) : Encoder × Bool :=
  match st.be with
  | .ttlv => ({ st with buf := st.buf.append (enc it) }, true)
  | .json =>
    ({ st with buf := st.buf.append (ind d ++ R.jsonHead it.tag it.ty ++ R.jsonVal it ++ [125] ++ jsonSep d) },
     true)
  | .text => ({ st with buf := st.buf.append (textStart R st.buf d it.tag it.ty ++ R.textVal it) }, true)
  | .xml =>
    -- xmlWriter.encode: start tag; Flush; l := buf.Len(); end tag; Flush; buf.Truncate(l-1); "/>"
    let r1 := st.xml.encodeStart it.tag (R.xmlLeaf it)
    if !r1.2 then ({ st with xml := r1.1 }, false)
    else
      let s1 := flushXml { st with xml := r1.1 }
      let l := s1.buf.vis.length
      let r2 := s1.xml.encodeEnd it.tag (R.xmlLeafEnd it)
      if !r2.2 then ({ s1 with xml := r2.1 }, false)
      else
        let s2 := flushXml { s1 with xml := r2.1 }
        ({ s2 with buf := (s2.buf.truncate (l - 1)).append [47, 62] }, true)

/-- `Struct(tag, f)` up to the call of `f`, at depth `d`: the new state and the frame.
    (Text writer: `NewTextEncoder(hide)` with a registered hidden tag prints `******` instead of calling `f`; `hide`
    and `hiddenTags` are fixed at construction / init — not state of a call history — and are left out.) -/
def wOpen (R : Render) (st : Encoder) (d : Nat) (tag : Nat) : Encoder × SFrame × Bool :=
  match st.be with
  | .ttlv =>
    -- writeTag; writeType; off := len(buf); writeLength(0)
    let b1 := st.buf.append (tag3 tag ++ [1])
    ({ st with buf := b1.append (be32 0) }, ⟨tag, b1.vis.length⟩, true)
  | .json =>
    let b1 := st.buf.append (ind d ++ R.jsonHead tag 1 ++ [91, 10])
    ({ st with buf := b1 }, ⟨tag, b1.vis.length⟩, true)
  | .text =>
    let b1 := st.buf.append (textStart R st.buf d tag 1)
    ({ st with buf := b1 }, ⟨tag, b1.vis.length⟩, true)
  | .xml =>
    let r := st.xml.encodeStart tag (R.xmlStart tag)
    ({ st with xml := r.1 }, ⟨tag, 0⟩, r.2)

/-- `Struct(tag, f)` after `f` has returned; `d` is the depth of the structure itself. -/
def wClose (R : Render) (st : Encoder) (d : Nat) (fr : SFrame) : Encoder × Bool :=
  match st.be with
  | .ttlv =>
    -- length := len(buf) - off - 4; binary.BigEndian.AppendUint32(buf[:off], uint32(length))
    ({ st with buf := st.buf.patch fr.off (be32 (st.buf.vis.length - fr.off - 4)) }, true)
  | .json =>
    let n := st.buf.vis.length
    let b1 :=
      if n > fr.off then ((st.buf.truncate (n - 2)).append ([10] ++ ind d ++ [93]))   -- drop the last ",\n"
      else (st.buf.truncate (n - 1)).append [93]                                        -- "[\n" becomes "[]"
    ({ st with buf := b1.append ([125] ++ jsonSep d) }, true)
  | .text =>
    if fr.off = st.buf.vis.length then
      ({ st with buf := st.buf.append ([10] ++ ind (d + 1) ++ emptyMark) }, true)
    else (st, true)
  | .xml =>
    let r := st.xml.encodeEnd fr.tag (R.xmlEnd fr.tag)
    if !r.2 then ({ st with xml := r.1 }, false) else (flushXml { st with xml := r.1 }, true)

/-- one writer call with the frames of the enclosing `Struct` calls (innermost first). A `close` without an
    open structure does not exist in Go (`Struct` is one call); it is a no-op here. -/
def wCall (R : Render) (st : Encoder) (fs : List SFrame) : WCall → Encoder × List SFrame × Bool
  | .leaf it => let r := wLeaf R st fs.length it; (r.1, fs, r.2)
  | .open tag => let r := wOpen R st fs.length tag; (r.1, r.2.1 :: fs, r.2.2)
  | .close =>
    match fs with
    | [] => (st, [], true)
    | fr :: rest => let r := wClose R st rest.length fr; (r.1, rest, r.2)

/-- the calls of one `enc.Any` / `enc.Struct(…)` in order, until one of them panics. -/
def runCalls (R : Render) : Encoder → List SFrame → List WCall → Encoder × List SFrame × Bool
  | st, fs, [] => (st, fs, true)
  | st, fs, c :: cs =>
    let r := wCall R st fs c
    if r.2.2 then runCalls R r.1 r.2.1 cs else r

mutual
  /-- the writer calls that encode an item. -/
  def flatten : Item → List WCall
    | .struct tag cs => .open tag :: (flattenL cs ++ [.close])
    | it => [.leaf it]
  def flattenL : List Item → List WCall
    | [] => []
    | x :: xs => flatten x ++ flattenL xs
end

structure Msg where
  d   : Nat        -- dynamic type (index into `Schema.dyns`)
  tag : Nat        -- 0: the type's default tag (`enc.Any`), else `enc.TagAny(tag, …)`
  v   : Val
  deriving Repr, Inhabited

/-- what an `encode` call that PANICS half-way (and is recovered by the caller) did before: the writer calls it
    made (open structures stay open) and the cell it left. The model does not compute them: they are an
    arbitrary parameter of the operation, and the theorems hold for all of them. -/
structure Junk where
  cell  : Option Ver := none
  calls : List WCall := []
  deriving Repr, Inhabited

inductive Op where
  | encode (m : Msg) (junk : Junk)          -- `enc.Any(m)` / `enc.TagAny(tag, m)`; `junk` is used only if the call panics
  | raw (calls : List WCall) (abort : Bool) -- the writer API used directly (`enc.Integer`, `enc.Struct(tag, f)`, …);
                                            -- `abort`: a panic after these calls, recovered by the caller
  | clear
  | bytes
  deriving Repr, Inhabited

/-- what the caller observes of one call: did it return normally, and for `Bytes()` the content returned. -/
structure Obs where
  ok  : Bool
  out : Option Bytes := none
  deriving Repr, Inhabited, DecidableEq

def encFuel : Nat := 100000

/-- the items `enc.Any(m)` writes when started with version cell `cell`, and the cell it leaves:
    exactly the run `marshal` does (Model/Plan.lean), from an arbitrary cell. -/
def encodeFrom (S : Schema) (m : Msg) (cell : Option Ver) : Res EncSt :=
  let dy := S.dyn m.d
  encK S encFuel dy.kind (if m.tag = 0 then dy.defTag else m.tag) m.v cell

/-- `enc.Any(m)` / `enc.TagAny(tag, m)`. -/
def encodeOp (R : Render) (S : Schema) (st : Encoder) (m : Msg) (junk : Junk) : Encoder × Bool :=
  match encodeFrom S m st.cell with
  | .ok (items, c1) =>
    let r := runCalls R st [] (flattenL items)
    if r.2.2 then ({ r.1 with cell := c1 }, true) else (r.1, false)
  | _ =>
    let r := runCalls R st [] junk.calls
    ({ r.1 with cell := junk.cell }, false)

/-- the writer API used directly. The frames of structures still open at a panic are gone with the stack. -/
def rawOp (R : Render) (st : Encoder) (calls : List WCall) (abort : Bool) : Encoder × Bool :=
  let r := runCalls R st [] calls
  (r.1, r.2.2 && !abort && r.2.1.isEmpty)

/-- `enc.Clear()`: `enc.extension.version = nil; enc.w.Clear()`.
    ttlvWriter: `buf = buf[:0]`; jsonWriter / textWriter: `buf.Reset()`;
    xmlWriter (since /repo 55f108f): `buf.Reset(); w = xml.NewEncoder(buf); w.Indent("", "    ")` — the
    previous `xml.Encoder` is dropped with whatever an aborted call left in it.
    The backing array, its capacity and its content stay. -/
def clearOp (st : Encoder) : Encoder × Bool :=
  match st.be with
  | .xml => ({ st with cell := none, buf := st.buf.reset, xml := {} }, true)
  | _ => ({ st with cell := none, buf := st.buf.reset }, true)

/-- `enc.Bytes()`: xmlWriter flushes its `xml.Encoder` first; the result is `buf[0:len]` ITSELF, not a copy. -/
def bytesOp (st : Encoder) : Encoder :=
  match st.be with
  | .xml => flushXml st
  | _ => st

/-- the slice `Bytes()` returns in state `st` (after `bytesOp`). -/
def Encoder.view (st : Encoder) : View := ⟨st.buf.gen, st.buf.vis.length, st.buf.vis⟩

/-- The OLD `xmlWriter.Clear` (before 55f108f), kept to document what the fix repaired:
    `panicOnErr(w.Close()); buf.Reset(); w = xml.NewEncoder(buf)` — `Close` reports unclosed elements as an
    error AFTER marking the encoder closed (so `Clear` panicked half-way, the version already reset, and the
    encoder stayed closed), and returns nil on an encoder already closed. -/
def oldXmlClearOp (st : Encoder) : Encoder × Bool :=
  if st.xml.closed then ({ st with cell := none, buf := st.buf.reset, xml := {} }, true)
  else if st.xml.tags ≠ [] then ({ st with cell := none, xml := { st.xml with closed := true } }, false)
  else ({ st with cell := none, buf := (flushXml st).buf.reset, xml := {} }, true)

/-- one call, for a given implementation `clr` of `Clear`. -/
def stepOpWith (clr : Encoder → Encoder × Bool) (R : Render) (S : Schema) (st : Encoder) : Op → Encoder × Obs
  | .encode m junk => let r := encodeOp R S st m junk; (r.1, ⟨r.2, none⟩)
  | .raw calls abort => let r := rawOp R st calls abort; (r.1, ⟨r.2, none⟩)
  | .clear => let r := clr st; (r.1, ⟨r.2, none⟩)
  | .bytes => let s := bytesOp st; (s, ⟨true, some s.buf.vis⟩)

/-- run a history; what the caller observed, call by call. -/
def runOpsWith (clr : Encoder → Encoder × Bool) (R : Render) (S : Schema) :
    Encoder → List Op → Encoder × List Obs
  | st, [] => (st, [])
  | st, op :: ops =>
    let r := stepOpWith clr R S st op
    let r' := runOpsWith clr R S r.1 ops
    (r'.1, r.2 :: r'.2)

/-- the library as it is. -/
def stepOp (R : Render) (S : Schema) (st : Encoder) (op : Op) : Encoder × Obs := stepOpWith clearOp R S st op

def runOps (R : Render) (S : Schema) (st : Encoder) (ops : List Op) : Encoder × List Obs :=
  runOpsWith clearOp R S st ops

/-- the XML encoder with the old `Clear`. -/
def runOpsOldXml (R : Render) (S : Schema) (st : Encoder) (ops : List Op) : Encoder × List Obs :=
  runOpsWith oldXmlClearOp R S st ops

/-- two encoder states that no sequence of calls can tell apart: same back end, version cell, visible buffer
    content and (XML) `xml.Encoder` state. The capacity, the stale content of the backing array and its
    identity are NOT compared. -/
def Eqv (s1 s2 : Encoder) : Prop :=
  s1.be = s2.be ∧ s1.cell = s2.cell ∧ s1.buf.vis = s2.buf.vis ∧ (s1.be = .xml → s1.xml = s2.xml)

instance (s1 s2 : Encoder) : Decidable (Eqv s1 s2) := by unfold Eqv; exact inferInstance

end Kmip.Cache
