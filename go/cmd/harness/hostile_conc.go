package main

// Phase `conc` of engine `hostile` (property C02): decoders running AT THE SAME TIME.
//
// Every other C02 oracle decodes sequentially. A server decodes one message per connection / HTTP request, each in
// its own goroutine, so package-level state touched on the decoding path (name tables, caches of lookup results or of
// lookup FAILURES, pooled buffers) is shared between concurrent decoders. What can go wrong there is not expressible
// in the Lean models (pure functions of the input): it is checked on the real code.
//
//   - K goroutines (8..16), released together round after round, decode — each call with a fresh decoder — a small
//     batch of documents in rotated order, so that every document is being decoded by several goroutines at once
//     and different documents meet, too;
//   - documents of the three encodings: library-written messages and generic trees (valid), the same with element /
//     member / binary tags the registry does not know, with unknown enumeration, mask and type names — EVERY
//     document with its own fresh names, so that anything remembered per name is written all the time —, and
//     malformed ones (truncated, flipped, shortened);
//   - oracles: the process survives (a `fatal error: concurrent map writes` cannot be recovered: the phase runs in
//     the child process of the deep-nesting probes); every concurrent outcome (re-encoding of the decoded value /
//     error text / panic) equals the outcome of decoding the same bytes sequentially AFTERWARDS in the same
//     process (documents whose sequential outcome is itself unstable are left to the `repeat` phase);
//   - thorough tier: a short pass in a race-enabled build of the harness (cacheRaceBinary), where a data race on
//     the decoding path is reported even when it does no harm in that run.
//
// Lines (impl-only, replayable):  #conc <class> <codec> <K> <rounds> <seed> [race]
// The documents are a pure function of the line (generated in the child from the seed).

import (
	"bytes"
	"encoding/binary"
	"fmt"
	"hash/fnv"
	"reflect"
	"strconv"
	"strings"
	"sync"
	"time"

	kmip "github.com/ovh/kmip-go"
	"github.com/ovh/kmip-go/ttlv"

	"verifharness/internal/rng"
	"verifharness/internal/tree"
)

type concSpec struct {
	class  string // valid | unknown-tag | unknown-name | malformed | mixed
	codec  string // ttlv | xml | json | all
	k      int
	rounds int
	seed   uint64
	race   bool
}

func (c concSpec) String() string {
	s := fmt.Sprintf("conc %s %s %d %d %d", c.class, c.codec, c.k, c.rounds, c.seed)
	if c.race {
		s += " race"
	}
	return s
}

func parseConcSpec(l string) (concSpec, bool) {
	f := strings.Fields(l)
	if (len(f) != 6 && len(f) != 7) || f[0] != "conc" {
		return concSpec{}, false
	}
	k, e1 := strconv.Atoi(f[3])
	rounds, e2 := strconv.Atoi(f[4])
	seed, e3 := strconv.ParseUint(f[5], 10, 64)
	if e1 != nil || e2 != nil || e3 != nil || k < 1 || k > 64 || rounds < 1 || rounds > 100000 {
		return concSpec{}, false
	}
	c := concSpec{class: f[1], codec: f[2], k: k, rounds: rounds, seed: seed}
	if len(f) == 7 {
		if f[6] != "race" {
			return concSpec{}, false
		}
		c.race = true
	}
	return c, true
}

var concClasses = []string{"valid", "unknown-tag", "unknown-name", "malformed"}
var concCodecs = []string{"ttlv", "xml", "json"}

// ---- child side -----------------------------------------------------------------------------------------------

type concBase struct {
	doc   [3][]byte // ttlv, xml, json
	typed int       // 0 generic tree, 1 request, 2 response
}

var concBases = map[uint64][]concBase{}

func concBaseDocs(seed uint64) []concBase {
	if b, ok := concBases[seed]; ok {
		return b
	}
	s := getSchema()
	r := rng.New(seed)
	var out []concBase
	enc := func(x any, typed int) {
		var b concBase
		b.typed = typed
		for i, m := range []func(any) []byte{ttlv.MarshalTTLV, ttlv.MarshalXML, ttlv.MarshalJSON} {
			d, pn := guard("Marshal", func() []byte { return m(x) })
			if pn != "" || len(d) == 0 || len(d) > 20000 {
				return
			}
			b.doc[i] = d
		}
		out = append(out, b)
	}
	for i := 0; i < 24; i++ {
		var x reflect.Value
		if i%2 == 0 {
			x = reflect.New(reflect.TypeFor[kmip.RequestMessage]())
		} else {
			x = reflect.New(reflect.TypeFor[kmip.ResponseMessage]())
		}
		p := &popCfg{r: r, s: s, fill: i % 3, textMode: 2, respectGating: true}
		if _, pn := guard("populate", func() int { p.populate(x.Elem()); return 0 }); pn != "" {
			continue
		}
		enc(x.Interface(), 1+i%2)
	}
	for i := 0; i < 8; i++ {
		it := tree.Gen(r, tree.GenOpts{MaxDepth: 4, MaxChildren: 4, MaxData: 12, MaxBigBits: 70, TextMode: 2}, 0)
		if !lexInScope(lexItemOf(it)) {
			continue
		}
		enc(toValue(it), 0)
	}
	concBases[seed] = out
	return out
}

type concNamer struct {
	r *rng.R
	n int
}

var concRealNames = []string{"BatchCount", "Operation", "UniqueIdentifier", "CryptographicAlgorithm", "Attribute", "ProtocolVersionMajor", "AES", "Sign", "Encrypt"}

// fresh: a name no registry knows, different at every call.
func (c *concNamer) fresh() string {
	c.n++
	switch c.r.Intn(5) {
	case 0:
		return fmt.Sprintf("Zq%d", c.n)
	case 1:
		return fmt.Sprintf("%s%d", rng.Pick(c.r, concRealNames), c.n)
	case 2:
		return fmt.Sprintf("%s_%x", strings.ToLower(rng.Pick(c.r, concRealNames)), c.n)
	case 3:
		return fmt.Sprintf("X-Vendor %d %s", c.n, strings.Repeat("y", c.r.Intn(40)))
	}
	return fmt.Sprintf("V%dExtension%d", c.r.Intn(9), c.n)
}

func exSetAttr(n *exNode, k, v string) bool {
	for i := range n.attrs {
		if n.attrs[i][0] == k {
			n.attrs[i][1] = v
			return true
		}
	}
	return false
}

func concXML(nm *concNamer, doc []byte, class string) []byte {
	root := exParse(doc)
	if root == nil {
		return nil
	}
	var all []*exNode
	root.walk(nil, func(n *exNode, _ exPath) { all = append(all, n) })
	r := nm.r
	for j, cnt := 0, 1+r.Intn(3); j < cnt; j++ {
		n := rng.Pick(r, all)
		if class == "unknown-tag" {
			n.name = nm.fresh()
			continue
		}
		ty, _ := n.attr("type")
		switch {
		case ty == "Enumeration":
			exSetAttr(n, "value", nm.fresh())
		case ty == "Integer" && r.Bool():
			exSetAttr(n, "value", nm.fresh()+"|"+nm.fresh())
		case r.Chance(1, 3):
			if !exSetAttr(n, "type", nm.fresh()) {
				n.attrs = append(n.attrs, [2]string{"type", nm.fresh()})
			}
		default:
			// the scalars of a document are mostly not enumerations: look for one
			for _, m := range all {
				if t, _ := m.attr("type"); t == "Enumeration" && r.Chance(1, 2) {
					exSetAttr(m, "value", nm.fresh())
					break
				}
			}
			exSetAttr(n, "value", nm.fresh())
		}
	}
	return root.bytes()
}

func hjGet(o *hjNode, k string) *hjNode {
	for i, kk := range o.keys {
		if kk == k {
			return o.vals[i]
		}
	}
	return nil
}

func concJSON(nm *concNamer, doc []byte, class string) []byte {
	root := hjParse(doc)
	if root == nil {
		return nil
	}
	var all, objs []*hjNode
	root.collect(&all)
	for _, n := range all {
		if n.kind == 'o' && hjGet(n, "tag") != nil {
			objs = append(objs, n)
		}
	}
	if len(objs) == 0 {
		return nil
	}
	r := nm.r
	q := func() *hjNode { return &hjNode{kind: 'r', raw: strconv.Quote(nm.fresh())} }
	set := func(o *hjNode, k string, v *hjNode) {
		for i, kk := range o.keys {
			if kk == k {
				o.vals[i] = v
				return
			}
		}
		o.keys, o.vals = append(o.keys, k), append(o.vals, v)
	}
	for j, cnt := 0, 1+r.Intn(3); j < cnt; j++ {
		o := rng.Pick(r, objs)
		if class == "unknown-tag" {
			set(o, "tag", q())
			continue
		}
		ty := ""
		if t := hjGet(o, "type"); t != nil {
			ty = t.raw
		}
		switch {
		case ty == `"Enumeration"`:
			set(o, "value", q())
		case ty == `"Integer"` && r.Bool():
			set(o, "value", &hjNode{kind: 'r', raw: strconv.Quote(nm.fresh() + "|" + nm.fresh())})
		case r.Chance(1, 3):
			set(o, "type", q())
		default:
			for _, m := range objs {
				if t := hjGet(m, "type"); t != nil && t.raw == `"Enumeration"` && r.Chance(1, 2) {
					set(m, "value", q())
					break
				}
			}
			if v := hjGet(o, "value"); v == nil || v.kind == 'r' {
				set(o, "value", q())
			}
		}
	}
	var b bytes.Buffer
	root.write(&b)
	return b.Bytes()
}

// concItems: the offsets of the items of a binary document (depth first), with their type byte.
func concItems(b []byte, off, end int, out *[][2]int) {
	for off+8 <= end {
		ty := int(b[off+3])
		l := int(binary.BigEndian.Uint32(b[off+4:]))
		next := off + 8 + (l+7)/8*8
		if l < 0 || next > end || next <= off {
			return
		}
		*out = append(*out, [2]int{off, ty})
		if ty == 1 {
			concItems(b, off+8, off+8+l, out)
		}
		off = next
	}
}

func concTTLV(nm *concNamer, doc []byte, class string) []byte {
	b := append([]byte{}, doc...)
	var items [][2]int
	concItems(b, 0, len(b), &items)
	if len(items) == 0 {
		return nil
	}
	r := nm.r
	for j, cnt := 0, 1+r.Intn(3); j < cnt; j++ {
		it := rng.Pick(r, items)
		if class == "unknown-tag" {
			nm.n++
			t := uint32(0x540000 + nm.n%0xFFFF)
			if r.Chance(1, 3) {
				t = uint32(0x42F000 + nm.n%0xFFF)
			}
			b[it[0]], b[it[0]+1], b[it[0]+2] = byte(t>>16), byte(t>>8), byte(t)
			continue
		}
		done := false
		for _, e := range items {
			if e[1] == 5 && r.Chance(1, 2) {
				nm.n++
				binary.BigEndian.PutUint32(b[e[0]+8:], uint32(0x1000+nm.n))
				done = true
				break
			}
		}
		if !done {
			nm.n++
			b[it[0]+3] = byte(0x0C + nm.n%200)
		}
	}
	return b
}

func concMalform(r *rng.R, doc []byte) []byte {
	b := append([]byte{}, doc...)
	if len(b) < 4 {
		return b
	}
	switch r.Intn(4) {
	case 0:
		return b[:r.Intn(len(b))]
	case 1:
		b[r.Intn(len(b))] ^= byte(1 << r.Intn(8))
	case 2:
		i := r.Intn(len(b))
		b = append(b[:i], b[i+1:]...)
	default:
		i := r.Intn(len(b))
		b = append(b[:i], append([]byte{b[i]}, b[i:]...)...)
	}
	return b
}

type concJob struct {
	doc   []byte
	codec int
	typed int
}

var concUnmarshal = [3]func([]byte, any) error{ttlv.UnmarshalTTLV, ttlv.UnmarshalXML, ttlv.UnmarshalJSON}

// concDecode: the outcome of one decode by a fresh decoder, as a string (no harness state is touched: this runs
// on many goroutines at once).
func concDecode(j concJob) (out string) {
	defer func() {
		if r := recover(); r != nil {
			out = "panic " + fmt.Sprint(r)
		}
	}()
	in := append([]byte{}, j.doc...)
	var v any
	switch j.typed {
	case 1:
		v = &kmip.RequestMessage{}
	case 2:
		v = &kmip.ResponseMessage{}
	default:
		v = &ttlv.Value{}
	}
	if err := concUnmarshal[j.codec](in, v); err != nil {
		return "err " + err.Error()
	}
	if !bytes.Equal(in, j.doc) {
		return "input-modified"
	}
	return "ok " + concRender(v)
}

func concRender(v any) (out string) {
	defer func() {
		if r := recover(); r != nil {
			out = "unrenderable " + fmt.Sprint(r)
		}
	}()
	if g, ok := v.(*ttlv.Value); ok {
		return string(ttlv.MarshalTTLV(*g))
	}
	return string(ttlv.MarshalTTLV(v))
}

func concHash(s string) uint64 {
	h := fnv.New64a()
	h.Write([]byte(s))
	return h.Sum64()
}

func concJobs(c concSpec) []concJob {
	bases := concBaseDocs(c.seed)
	if len(bases) == 0 {
		return nil
	}
	r := rng.New(c.seed ^ concHash(c.class+"/"+c.codec))
	nm := &concNamer{r: r}
	const perRound = 4
	var jobs []concJob
	for len(jobs) < c.rounds*perRound {
		b := rng.Pick(r, bases)
		codec := r.Intn(3)
		if c.codec != "all" {
			codec = map[string]int{"ttlv": 0, "xml": 1, "json": 2}[c.codec]
		}
		class := c.class
		if class == "mixed" {
			class = rng.Pick(r, concClasses)
		}
		doc := b.doc[codec]
		switch class {
		case "unknown-tag", "unknown-name":
			switch codec {
			case 0:
				doc = concTTLV(nm, doc, class)
			case 1:
				doc = concXML(nm, doc, class)
			default:
				doc = concJSON(nm, doc, class)
			}
		case "malformed":
			doc = concMalform(r, doc)
		}
		if doc == nil {
			doc = b.doc[codec]
		}
		typed := b.typed
		if r.Chance(1, 3) {
			typed = 0
		}
		jobs = append(jobs, concJob{doc, codec, typed})
	}
	return jobs
}

// concRun: the answer line of the child.
func concRun(c concSpec) string {
	jobs := concJobs(c)
	if len(jobs) == 0 {
		return "bad-spec no-documents"
	}
	const perRound = 4
	res := make([][]uint64, len(jobs)) // res[job][goroutine]
	for i := range res {
		res[i] = make([]uint64, c.k)
	}
	t0 := time.Now()
	rounds := 0
	for ; rounds < c.rounds && time.Since(t0) < 4*time.Second; rounds++ {
		start := make(chan struct{})
		var wg sync.WaitGroup
		wg.Add(c.k)
		batch := rounds * perRound
		for g := 0; g < c.k; g++ {
			go func(g int) {
				defer wg.Done()
				<-start
				for i := 0; i < perRound; i++ {
					j := batch + (i+g)%perRound
					res[j][g] = concHash(concDecode(jobs[j]))
				}
			}(g)
		}
		close(start)
		wg.Wait()
	}
	// afterwards: the same documents, one at a time
	okc, errc, panicc, unstable := 0, 0, 0, 0
	for j := 0; j < rounds*perRound; j++ {
		s1 := concDecode(jobs[j])
		if s2 := concDecode(jobs[j]); s1 != s2 {
			unstable++
			continue
		}
		switch {
		case strings.HasPrefix(s1, "ok "):
			okc++
		case strings.HasPrefix(s1, "err "):
			errc++
		default:
			panicc++
		}
		h := concHash(s1)
		diff := 0
		for g := 0; g < c.k; g++ {
			if res[j][g] != h {
				diff++
			}
		}
		if diff > 0 {
			if len(s1) > 160 {
				s1 = s1[:160]
			}
			return fmt.Sprintf("differs codec=%s typed=%d n=%d/%d doc=%s seq=%s", concCodecs[jobs[j].codec], jobs[j].typed, diff, c.k, hexUp(jobs[j].doc), hexUp([]byte(s1)))
		}
	}
	return fmt.Sprintf("ok docs=%d decodes=%d okc=%d errc=%d panicc=%d unstable=%d", rounds*perRound, rounds*perRound*c.k, okc, errc, panicc, unstable)
}

func concChild(req string) *string {
	c, ok := parseConcSpec(req)
	if !ok {
		return nil
	}
	t0 := time.Now()
	ans := concRun(c)
	ans += fmt.Sprintf(" ms=%d", time.Since(t0).Milliseconds())
	return &ans
}

// ---- parent side ----------------------------------------------------------------------------------------------

func concSpecs(ctx *Ctx) []concSpec {
	seed := ctx.R.U64() >> 1
	k := 12
	rounds := ctx.N(250, 1500)
	var out []concSpec
	for _, cl := range concClasses {
		for _, cd := range concCodecs {
			out = append(out, concSpec{class: cl, codec: cd, k: k, rounds: rounds, seed: seed})
		}
	}
	out = append(out, concSpec{class: "mixed", codec: "all", k: 16, rounds: 2 * rounds, seed: seed})
	out = append(out, concSpec{class: "mixed", codec: "all", k: 8, rounds: rounds, seed: seed + 1})
	if ctx.Thor {
		for _, cl := range []string{"mixed", "unknown-tag", "unknown-name"} {
			out = append(out, concSpec{class: cl, codec: "all", k: 8, rounds: 150, seed: seed, race: true})
		}
	}
	return out
}

func runConc(ctx *Ctx, specs []concSpec) {
	limit := 60 * time.Second
	children := map[bool]*deepChild{}
	defer func() {
		for _, c := range children {
			if c != nil {
				c.stop()
			}
		}
	}()
	raceBin := ""
	for _, c := range specs {
		line := "#" + c.String()
		ctx.current = line
		if c.race && raceBin == "" {
			p, note, fail := cacheRaceBinary()
			if note != "" {
				ctx.Res.Count(note)
			}
			if fail != "" || p == "" {
				// no race-enabled build here (no cgo, disabled): recorded, the plain passes stand
				ctx.Res.Count("conc.race.skipped")
				raceBin = "-"
			} else {
				raceBin = p
			}
		}
		if c.race && raceBin == "-" {
			continue
		}
		child := children[c.race]
		if child == nil {
			var err error
			if c.race {
				child, err = startDeepChildOf(raceBin, []string{"GORACE=halt_on_error=1 exitcode=66"})
			} else {
				child, err = startDeepChild()
			}
			if err != nil {
				ctx.Res.Fail("hostile/conc: cannot start the child process: " + err.Error())
				return
			}
			children[c.race] = child
		}
		ans, crashed, hung := child.ask(c.String(), limit)
		outcome := strings.SplitN(ans, " ", 2)[0]
		what := fmt.Sprintf("%d goroutines decoding %s documents of class %s concurrently", c.k, c.codec, c.class)
		switch {
		case crashed:
			outcome = "crash"
			tail := child.stderr.String()
			key := "conc:process-crash"
			head := ""
			for _, l := range strings.Split(tail, "\n") {
				if strings.Contains(l, "DATA RACE") {
					key = "conc:data-race"
				}
				if head == "" && strings.TrimSpace(l) != "" {
					head = strings.TrimSpace(l)
				}
			}
			if i := strings.Index(tail, "fatal error:"); i >= 0 {
				head = strings.SplitN(tail[i:], "\n", 2)[0]
			}
			if key == "conc:data-race" {
				// name the first library frame of the report
				for _, l := range strings.Split(tail, "\n") {
					if strings.Contains(l, "github.com/ovh/kmip-go/") {
						head = "DATA RACE at " + strings.TrimSpace(l)
						break
					}
				}
			}
			hostileViolate(ctx, "no-crash", key, fmt.Sprintf("the process died with %s: %s", what, truncate(head, 300)), line)
			child.stop()
			children[c.race] = nil
		case hung:
			outcome = "hang"
			hostileViolate(ctx, "returns-normally", "conc:no-answer", fmt.Sprintf("no answer after %s with %s", limit, what), line)
			child.stop()
			children[c.race] = nil
		case outcome == "differs":
			hostileViolate(ctx, "deterministic", "conc:concurrent-decode-differs", fmt.Sprintf("with %s a document decoded to something else than it does sequentially: %s", what, truncate(ans, 1200)), line)
		case outcome == "bad-spec":
			ctx.Res.Fail("hostile/conc: child rejected spec " + c.String() + ": " + ans)
		case outcome == "ok":
			for _, f := range strings.Fields(ans) {
				if kv := strings.SplitN(f, "=", 2); len(kv) == 2 && kv[0] != "ms" {
					if n, err := strconv.Atoi(kv[1]); err == nil {
						ctx.Res.Distribution["conc."+c.class+"."+kv[0]] += n
					}
				}
			}
		default:
			ctx.Res.Fail("hostile/conc: unexpected answer " + truncate(ans, 200))
		}
		ctx.Add(line, outcome, true, "")
		r := ""
		if c.race {
			r = ".race"
		}
		ctx.Res.Count("conc." + c.codec + "." + c.class + r + "." + outcome)
	}
	if len(ctx.Replay) == 0 {
		// the generator must have produced what the phase is about
		for _, cl := range []string{"unknown-tag", "unknown-name", "malformed"} {
			if ctx.Res.Distribution["conc."+cl+".errc"] < 100 {
				ctx.Res.Fail(fmt.Sprintf("hostile/conc: class %s has only %d rejected documents", cl, ctx.Res.Distribution["conc."+cl+".errc"]))
			}
		}
		if ctx.Res.Distribution["conc.valid.okc"] < 100 {
			ctx.Res.Fail(fmt.Sprintf("hostile/conc: only %d valid documents decoded", ctx.Res.Distribution["conc.valid.okc"]))
		}
	}
}
