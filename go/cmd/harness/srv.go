package main

// Engines `lts.srv` (C08) and `lts.server` (C16): the REAL kmipserver.Server over in-memory
// connections, with scripted clients and handlers and a *schedule director* that holds server
// goroutines at the verif yield points (build tag `verif`) until the client has performed its
// adversarial action. A crash of the real server kills the process, so scenarios run in CHILD
// processes (this binary re-executed with VERIF_LTS_CHILD=1; jobs on stdin, results on stdout, a
// marker before each scenario). Scenario languages and outcome formats: /verif/lean/Driver/Lts.lean.
//
// Oracles (no model involved): the statements of C08 / C16 on what is observed. Correspondence
// (impl ⊆ model): the observed outcome of a scenario must be a member of the model's set of
// terminal outcomes for the same scenario: line `lts.member <sys> <scenario> <outcome>` → `ok in`.

import (
	"bufio"
	"bytes"
	"context"
	"crypto/tls"
	"encoding/binary"
	"encoding/json"
	"errors"
	"fmt"
	"io"
	"net"
	"os"
	"os/exec"
	"reflect"
	"runtime"
	"slices"
	"sort"
	"strconv"
	"strings"
	"sync"
	"sync/atomic"
	"time"
	"unsafe"

	"github.com/ovh/kmip-go"
	"github.com/ovh/kmip-go/kmipserver"
	"github.com/ovh/kmip-go/payloads"
	"github.com/ovh/kmip-go/ttlv"

	"verifharness/internal/report"
	"verifharness/internal/rng"
)

// ---------------------------------------------------------------------------------------------
// in-memory network: nothing is buffered (a Write returns when the peer has read everything or one
// of the ends is closed), half-close is supported.

type memAddr string

func (a memAddr) Network() string { return "mem" }
func (a memAddr) String() string  { return string(a) }

type memConn struct {
	r      *io.PipeReader
	w      *io.PipeWriter
	id     int
	server bool
	once   sync.Once
}

func (c *memConn) Read(p []byte) (int, error)  { return c.r.Read(p) }
func (c *memConn) Write(p []byte) (int, error) { return c.w.Write(p) }
func (c *memConn) Close() error {
	c.once.Do(func() { _ = c.w.Close(); _ = c.r.Close() })
	return nil
}

// CloseWrite ends the sending direction only (the peer reads EOF); this end can still read.
func (c *memConn) CloseWrite() error { return c.w.Close() }
func (c *memConn) LocalAddr() net.Addr {
	return memAddr(fmt.Sprintf("mem-%v-%d", c.server, c.id))
}
func (c *memConn) RemoteAddr() net.Addr               { return memAddr("client-" + strconv.Itoa(c.id)) }
func (c *memConn) SetDeadline(time.Time) error      { return nil }
func (c *memConn) SetReadDeadline(time.Time) error  { return nil }
func (c *memConn) SetWriteDeadline(time.Time) error { return nil }

func memPair(id int) (client, server *memConn) {
	c2sR, c2sW := io.Pipe()
	s2cR, s2cW := io.Pipe()
	return &memConn{r: s2cR, w: c2sW, id: id}, &memConn{r: c2sR, w: s2cW, id: id, server: true}
}

type memListener struct {
	ch   chan *memConn
	done chan struct{}
	once sync.Once
	// onAccept, when set, is called at the entry of every Accept with the number of the call (1-based), on
	// the goroutine of the accept loop: the one place of Serve's loop the harness executes code in without a
	// yield hook — right after `go srv.handleConn(conn)` of the previous connection.
	onAccept func(n int)
	nAccept  atomic.Int32
}

func newMemListener() *memListener {
	return &memListener{ch: make(chan *memConn), done: make(chan struct{})}
}

func (l *memListener) Accept() (net.Conn, error) {
	if f := l.onAccept; f != nil {
		f(int(l.nAccept.Add(1)))
	}
	select {
	case c := <-l.ch:
		return c, nil
	case <-l.done:
		return nil, net.ErrClosed
	}
}

// Close: like the listeners of package net, closing a closed listener reports net.ErrClosed (code that looks
// at the error of Close must not take the second Close of a repeated Shutdown for a failure to shut down).
func (l *memListener) Close() error {
	err := error(&net.OpError{Op: "close", Net: "mem", Addr: memAddr("mem-listener"), Err: net.ErrClosed})
	l.once.Do(func() { close(l.done); err = nil })
	return err
}
func (l *memListener) Addr() net.Addr { return memAddr("mem-listener") }

// dial hands the server end to Accept; it fails when the listener is closed first.
func (l *memListener) dial(id int, timeout time.Duration) (*memConn, error) {
	c, s := memPair(id)
	select {
	case l.ch <- s:
		return c, nil
	case <-l.done:
		return nil, net.ErrClosed
	case <-time.After(timeout):
		return nil, errors.New("dial timeout: nobody accepts")
	}
}

// ---------------------------------------------------------------------------------------------
// the world of one job (one server): event clock, director, hooks, handlers

type connInfo struct {
	id          int
	hookFail    bool
	hookShape   string             // what the connect hook returns as its context: see hookShapes ("" = same when it succeeds, nil when it fails)
	hookCancel  context.CancelFunc // shape can: the cancel function of the context the hook returned
	hookForeign atomic.Int32       // terminate hook runs whose context is not (derived from) the one the connect hook returned
	connectN    atomic.Int32
	terminateN  atomic.Int32
	handlers    atomic.Int32 // running now
	handlerEnds atomic.Int64 // sequence number of the last handler end
	termSeq     atomic.Int64 // sequence number of the terminate hook
	notCancel   atomic.Int32 // waiting handlers that gave up without being cancelled
	starts      atomic.Int32 // handlers started on this connection
	hookGate    chan struct{} // when non-nil: the connect hook waits for it (the hook is user code)
	hookIn      chan struct{} // closed when the connect hook has been entered
	hookInO     sync.Once
	// director: hold the first goroutine reaching `point` until release is closed
	point    string
	holdPt   string
	holdMs   int
	reached  chan struct{}
	release  chan struct{}
	reachedO sync.Once
	delays   *rng.R // random delays at yield points (nil = none)
	delayMu  sync.Mutex
}

type world struct {
	mu       sync.Mutex
	conns    map[int]*connInfo
	seq      atomic.Int64
	last     atomic.Int64 // unix nano of the last observed activity
	running  atomic.Int32 // handlers running (all connections)
	returned atomic.Bool  // Shutdown has returned
	late     atomic.Bool  // a connect hook / handler started after Shutdown returned
	// server-level director
	acceptHold    atomic.Int32 // hold the accept loop at its yield point for the n-th connection (1-based; 0 = no)
	acceptN       atomic.Int32
	acceptReached chan struct{}
	acceptRelease chan struct{}
	handlerHold   chan struct{} // when non-nil: returning handlers wait for it
	handlerBegun  chan struct{}
	handlerOnce   sync.Once
	blockCh       chan struct{} // behaviour "block": the handler waits for it (not for its context)
	// accounting of the yield points (positive controls: a director that sees nothing is reported)
	pointMu    sync.Mutex
	pointN     map[string]int
	unresolved atomic.Int32 // yield points whose object could not be mapped to one of our connections
	strayHooks atomic.Int32 // connect / terminate hook runs whose context does not name one of our connections
}

func (w *world) countPoint(name string) {
	w.pointMu.Lock()
	if w.pointN == nil {
		w.pointN = map[string]int{}
	}
	w.pointN[name]++
	w.pointMu.Unlock()
}

func (w *world) points() map[string]int {
	w.pointMu.Lock()
	defer w.pointMu.Unlock()
	out := map[string]int{}
	for k, v := range w.pointN {
		out[k] = v
	}
	return out
}

func (w *world) pointCount(name string) int {
	w.pointMu.Lock()
	defer w.pointMu.Unlock()
	return w.pointN[name]
}

var theWorld atomic.Pointer[world]

func (w *world) touch() { w.last.Store(time.Now().UnixNano()) }

func (w *world) info(id int) *connInfo {
	w.mu.Lock()
	defer w.mu.Unlock()
	ci := w.conns[id]
	if ci == nil {
		ci = &connInfo{id: id, reached: make(chan struct{}), release: make(chan struct{}), hookIn: make(chan struct{})}
		w.conns[id] = ci
	}
	return ci
}

// memConnOf finds our connection behind the object a yield point passes (the server's *conn, whose
// unexported field stream.inner is the net.Conn it was created with, or the net.Conn itself).
func memConnOf(obj any) *memConn {
	if mc, ok := obj.(*memConn); ok {
		return mc
	}
	if tc, ok := obj.(*tls.Conn); ok {
		mc, _ := tc.NetConn().(*memConn)
		return mc
	}
	v := reflect.ValueOf(obj)
	if v.Kind() != reflect.Pointer || v.IsNil() || v.Elem().Kind() != reflect.Struct {
		return nil
	}
	f := v.Elem().FieldByName("stream")
	if !f.IsValid() || f.Kind() != reflect.Struct {
		return nil
	}
	in := f.FieldByName("inner")
	if !in.IsValid() || !in.CanAddr() {
		return nil
	}
	x := reflect.NewAt(in.Type(), unsafe.Pointer(in.UnsafeAddr())).Elem().Interface()
	if tc, ok := x.(*tls.Conn); ok {
		x = tc.NetConn()
	}
	mc, _ := x.(*memConn)
	return mc
}

var yieldNames = map[string]string{
	"srv.handleConn.start":      "connStart",
	"srv.beforeSend":            "beforeSend",
	"srv.send.loaded":           "sendLoaded",
	"srv.write.beforeErr":       "writeBeforeErr",
	"srv.read.beforeRx":         "readBeforeRx",
	"srv.terminate.afterCancel": "afterCancel",
}

func verifYieldHook(point string, obj any) {
	w := theWorld.Load()
	if w == nil {
		return
	}
	w.touch()
	mc := memConnOf(obj)
	w.countPoint(point)
	if mc == nil {
		w.unresolved.Add(1)
	}
	if point == "srv.accept.beforeAdd" {
		n := w.acceptN.Add(1)
		if h := w.acceptHold.Load(); h != 0 && n == h {
			close(w.acceptReached)
			select {
			case <-w.acceptRelease:
			case <-time.After(8 * time.Second):
			}
		}
		return
	}
	if mc == nil {
		return
	}
	ci := w.info(mc.id)
	if ci.delays != nil {
		ci.delayMu.Lock()
		k := ci.delays.Intn(6)
		ci.delayMu.Unlock()
		switch k {
		case 0:
			runtime.Gosched()
		case 1:
			time.Sleep(time.Duration(50+ci.delays.Intn(400)) * time.Microsecond)
		case 2:
			time.Sleep(time.Duration(1+ci.delays.Intn(3)) * time.Millisecond)
		}
	}
	if ci.holdPt != "" && yieldNames[point] == ci.holdPt {
		time.Sleep(time.Duration(ci.holdMs) * time.Millisecond)
		w.touch()
	}
	if ci.point != "" && yieldNames[point] == ci.point {
		first := false
		ci.reachedO.Do(func() { first = true; close(ci.reached) })
		if first {
			w.countPoint("held:" + ci.point)
			select {
			case <-ci.release:
			case <-time.After(8 * time.Second):
			}
			w.touch()
		}
	}
}

// scripted handler: the behaviour is the UniqueIdentifier of the Activate request,
// `<behaviour>[:<arg>[:<padding>]]` (the padding only makes the message bigger):
//
//	ok | kerr:<reason> | err | pstr | perr | pkerr:<reason> | pint | pstringer | pnil | pnilval | wait | sleep:<ms> | block
//	poisoned outcomes (rendering them runs user code that panics): pnilerr | pbadstringer | pbaderr | pbadunwrap | rnilerr
func scriptedHandler(ctx context.Context, req *payloads.ActivateRequestPayload) (*payloads.ActivateResponsePayload, error) {
	w := theWorld.Load()
	id := connIDOf(ctx)
	var ci *connInfo
	if w != nil {
		ci = w.info(id)
		if w.returned.Load() {
			w.late.Store(true)
		}
		w.running.Add(1)
		ci.handlers.Add(1)
		ci.starts.Add(1)
		w.touch()
		w.handlerOnce.Do(func() {
			if w.handlerBegun != nil {
				close(w.handlerBegun)
			}
		})
		defer func() {
			if w.handlerHold != nil {
				select {
				case <-w.handlerHold:
				case <-time.After(8 * time.Second):
				}
			}
			ci.handlerEnds.Store(w.seq.Add(1))
			ci.handlers.Add(-1)
			w.running.Add(-1)
			w.touch()
		}()
	}
	parts := strings.SplitN(req.UniqueIdentifier, ":", 3)
	beh, arg := parts[0], ""
	if len(parts) > 1 {
		arg = parts[1]
	}
	n, _ := strconv.Atoi(arg)
	resp := &payloads.ActivateResponsePayload{UniqueIdentifier: req.UniqueIdentifier}
	switch beh {
	case "ok":
		return resp, nil
	case "kerr":
		return nil, kmipserver.Error{Reason: kmip.ResultReason(n), Message: "scripted"}
	case "err":
		return nil, errors.New("scripted plain error")
	case "pstr":
		panic("scripted panic")
	case "perr":
		panic(errors.New("scripted panic error"))
	case "pkerr":
		panic(kmipserver.Error{Reason: kmip.ResultReason(n), Message: "scripted panic"})
	case "pint":
		panic(42)
	case "pstringer":
		panic(stringerVal{"scripted"})
	case "pnil":
		var m map[string]int
		m["x"] = 1
	case "pnilval":
		var v any
		panic(v)
	case "pnilerr":
		var e *valueRecvErr // a typed nil pointer: its value-receiver Error method panics
		panic(e)
	case "rnilerr":
		var e *valueRecvErr // the classic "typed nil returned as error"
		return nil, e
	case "pbadstringer":
		panic(badStringer{})
	case "pbaderr":
		panic(badErr{})
	case "pbadunwrap":
		panic(badUnwrap{})
	case "block":
		if w != nil && w.blockCh != nil {
			select {
			case <-w.blockCh:
			case <-time.After(8 * time.Second):
			}
		}
		return resp, nil
	case "wait":
		select {
		case <-ctx.Done():
			// slow to notice: whoever is supposed to wait for this handler has to wait a little longer
			time.Sleep(waitLinger)
			return nil, kmipserver.Error{Reason: kmip.ResultReasonOperationCanceledByRequester, Message: "cancelled"}
		case <-time.After(waitCap):
			if ci != nil {
				ci.notCancel.Add(1)
			}
			return nil, errors.New("gave up waiting for cancellation")
		}
	case "sleep":
		time.Sleep(time.Duration(n) * time.Millisecond)
		return resp, nil
	}
	return resp, nil
}

// outcomes whose rendering (Error / String / Unwrap: user code) panics
type valueRecvErr struct{ msg string }

func (e valueRecvErr) Error() string { return e.msg }

type badStringer struct{ p *string }

func (s badStringer) String() string { return *s.p }

type badErr struct{}

func (badErr) Error() string { panic("scripted: Error() panics") }

type badUnwrap struct{}

func (badUnwrap) Error() string { return "scripted error with a panicking Unwrap" }
func (badUnwrap) Unwrap() error { panic("scripted: Unwrap() panics") }

var poisonBehaviours = []string{"pnilerr", "rnilerr", "pbadstringer", "pbaderr", "pbadunwrap"}

// a cancelled waiting handler takes this long to return
const waitLinger = 15 * time.Millisecond

// a waiting handler gives up after this long (so that a scenario in which it is never cancelled
// still terminates); the leak is observed well before.
var waitCap = 1200 * time.Millisecond

func connIDOf(ctx context.Context) int {
	s := kmipserver.RemoteAddr(ctx)
	if strings.HasPrefix(s, "client-") {
		if v, err := strconv.Atoi(s[len("client-"):]); err == nil {
			return v
		}
	}
	return -1
}

// The shapes of a connect hook's result. ConnectHook is `func(context.Context) (context.Context, error)`:
// an error refuses the connection WHATEVER context comes with it (`return ctx, err` is the usual Go style),
// and a hook that succeeds returns the context it was given or one derived from it.
//
//	same  the context the hook was given          val   derived with a value
//	can   derived, cancellable, still live (a succeeding hook's is cancelled by the terminate hook)
//	dead  derived and already cancelled           nil   no context (failing hooks only)
//	bg    context.Background(): not derived from the connection's (failing hooks only)
//
// (nil, nil) is not exercised: a nil context is outside the contract of package context.
var hookShapesFail = []string{"nil", "same", "val", "can", "dead", "bg"}
var hookShapesOK = []string{"same", "val", "can"} // plus dead for connections without requests (the handlers of such a connection see a cancelled context and their responses are dropped)

type hookMark struct{}

func hookResult(ctx context.Context, ci *connInfo) (context.Context, error) {
	var out context.Context
	switch ci.hookShape {
	case "same":
		out = ctx
	case "val":
		out = context.WithValue(ctx, hookMark{}, ci.id)
	case "can":
		c, cancel := context.WithCancel(context.WithValue(ctx, hookMark{}, ci.id))
		ci.hookCancel = cancel
		out = c
	case "dead":
		c, cancel := context.WithCancel(context.WithValue(ctx, hookMark{}, ci.id))
		cancel()
		out = c
	case "bg":
		out = context.Background()
	case "nil":
		out = nil
	default:
		if !ci.hookFail {
			out = ctx
		}
	}
	if ci.hookFail {
		return out, errors.New("scripted connect hook failure")
	}
	return out, nil
}

type testServer struct {
	w      *world
	l      *memListener
	srv    *kmipserver.Server
	serveC chan error
}

func newTestServer() *testServer { return newTestServerOn(false, nil) }

// newTestServerOn: with a TLS listener (the accepted connections are *tls.Conn over the in-memory
// pipes) and / or a wrapper around the request handler.
func newTestServerOn(useTLS bool, wrap func(kmipserver.RequestHandler) kmipserver.RequestHandler) *testServer {
	w := &world{conns: map[int]*connInfo{}, acceptReached: make(chan struct{}), acceptRelease: make(chan struct{})}
	w.touch()
	theWorld.Store(w)
	exec := kmipserver.NewBatchExecutor()
	exec.Route(kmip.OperationActivate, kmipserver.HandleFunc(scriptedHandler))
	l := newMemListener()
	var nl net.Listener = l
	if useTLS {
		nl = &tlsMemListener{memListener: l, cfg: harnessTLSConfig()}
	}
	var hdl kmipserver.RequestHandler = exec
	if wrap != nil {
		hdl = wrap(exec)
	}
	srv := kmipserver.NewServer(nl, hdl).
		WithConnectHook(func(ctx context.Context) (context.Context, error) {
			if connIDOf(ctx) < 0 {
				w.strayHooks.Add(1)
			}
			ci := w.info(connIDOf(ctx))
			ci.connectN.Add(1)
			if w.returned.Load() {
				w.late.Store(true)
			}
			w.touch()
			if ci.hookGate != nil {
				ci.hookInO.Do(func() { close(ci.hookIn) })
				select {
				case <-ci.hookGate:
				case <-time.After(8 * time.Second):
				}
				w.touch()
			}
			return hookResult(ctx, ci)
		}).
		WithTerminateHook(func(ctx context.Context) {
			if ctx == nil || connIDOf(ctx) < 0 {
				w.strayHooks.Add(1)
				if ctx == nil {
					return
				}
			}
			ci := w.info(connIDOf(ctx))
			if sh := ci.hookShape; (sh == "val" || sh == "can" || sh == "dead") && ctx.Value(hookMark{}) != ci.id {
				ci.hookForeign.Add(1)
			}
			if ci.hookCancel != nil {
				ci.hookCancel() // the usual pairing: what the connect hook set up, the terminate hook releases
			}
			ci.terminateN.Add(1)
			ci.termSeq.Store(w.seq.Add(1))
			w.touch()
		})
	return &testServer{w: w, l: l, srv: srv, serveC: make(chan error, 1)}
}

func (ts *testServer) start() { go func() { ts.serveC <- ts.srv.Serve() }() }

// allStacks: the goroutine profile as text, one block per goroutine.
func allStacks() [][]byte {
	buf := make([]byte, 1<<20)
	for {
		n := runtime.Stack(buf, true)
		if n < len(buf) {
			buf = buf[:n]
			break
		}
		buf = make([]byte, 2*len(buf))
	}
	return bytes.Split(buf, []byte("\n\n"))
}

// hasFrame: the goroutine is executing (has a frame of) the function — "created by" lines do not count.
func hasFrame(g []byte, fn string) bool {
	for _, l := range bytes.Split(g, []byte("\n")) {
		if bytes.HasPrefix(l, []byte(fn+"(")) {
			return true
		}
	}
	return false
}

const kmipserverPkg = "github.com/ovh/kmip-go/kmipserver."

// goroutines of the server's connections that are alive: M (handleConn), R (readloop), W (writeloop).
// (By function name: `selfTest` is the positive control that the names still match the library.)
func connGoroutines() (m, r, w int) {
	for _, g := range allStacks() {
		switch {
		case hasFrame(g, kmipserverPkg+"(*conn).readloop"):
			r++
		case hasFrame(g, kmipserverPkg+"(*conn).writeloop"):
			w++
		case hasFrame(g, kmipserverPkg+"(*Server).handleConn"):
			m++
		}
	}
	return
}

func serveGoroutines() int {
	c := 0
	for _, g := range allStacks() {
		if hasFrame(g, kmipserverPkg+"(*Server).Serve") {
			c++
		}
	}
	return c
}

// settle waits until no connection goroutine is left (or the timeout) and reports what is left.
func settle(timeout time.Duration) (m, r, w int) {
	deadline := time.Now().Add(timeout)
	for {
		m, r, w = connGoroutines()
		if m+r+w == 0 || time.Now().After(deadline) {
			return
		}
		time.Sleep(2 * time.Millisecond)
	}
}

// waitQuiet returns when nothing has been observed for `idle` (or after `max`). A stall of this very
// loop (the process was not scheduled) restarts the window: it says nothing about the server.
func (w *world) waitQuiet(idle, max time.Duration, stop <-chan struct{}) {
	deadline := time.Now().Add(max)
	prev := time.Now()
	for time.Now().Before(deadline) {
		select {
		case <-stop:
			return
		default:
		}
		now := time.Now()
		if now.Sub(prev) > 15*time.Millisecond {
			w.touch()
		}
		prev = now
		if time.Since(time.Unix(0, w.last.Load())) >= idle {
			return
		}
		time.Sleep(2 * time.Millisecond)
	}
}

// ---------------------------------------------------------------------------------------------
// client messages

var behaviours = []string{"ok", "kerr:1", "err", "pstr", "perr", "pkerr:12", "pint", "pstringer", "pnil", "sleep:3", "kerr:9", "pnilval"}

func goodRequest(idx int, beh string) []byte { return connRequest(0, idx, beh, 0) }

// paddedRequest: the same request made `pad` bytes bigger.
func paddedRequest(idx int, beh string, pad int) []byte { return connRequest(0, idx, beh, pad) }

// requestUID: the UniqueIdentifier of the idx-th request of connection `conn` with handler behaviour `beh`
// (`<behaviour>:<arg>:<filler>`): the filler names the connection and the request, and a successful
// response echoes the whole string, so a response can be told to be the answer to THIS request.
func requestUID(conn, idx int, beh string, pad int) string {
	if conn == 0 && pad == 0 {
		return beh
	}
	if !strings.Contains(beh, ":") {
		beh += ":"
	}
	return beh + ":" + fmt.Sprintf("c%d.%d.", conn, idx) + strings.Repeat("x", pad)
}

// connRequest: the idx-th request of connection `conn`. The UniqueBatchItemID carries the connection in
// its upper half and 1000+idx in its lower half: requests of different connections of one server are
// distinguishable, so a response delivered to the wrong connection is seen.
func connRequest(conn, idx int, beh string, pad int) []byte {
	msg := kmip.NewRequestMessage(kmip.V1_4, &payloads.ActivateRequestPayload{UniqueIdentifier: requestUID(conn, idx, beh, pad)})
	msg.BatchItem[0].UniqueBatchItemID = binary.BigEndian.AppendUint32(nil, uint32(conn)<<16|uint32(1000+idx))
	return ttlv.MarshalTTLV(&msg)
}

// framed but undecodable: a valid TTLV item that is not a decodable request.
func badRequest(variant int) []byte {
	if variant >= undecBase {
		// a member of the tree-mutation family (srv_undec.go)
		if fam, _ := undecFamily(); len(fam) > 0 {
			return fam[(variant-undecBase)%len(fam)].TTLV
		}
	}
	switch variant % 3 {
	case 0: // RequestMessage structure whose content is an Integer instead of a RequestHeader
		return []byte{0x42, 0x00, 0x78, 0x01, 0, 0, 0, 16, 0x42, 0x00, 0x0D, 0x02, 0, 0, 0, 4, 0, 0, 0, 1, 0, 0, 0, 0}
	case 1: // a top-level item that is neither a request nor a response message
		return []byte{0x42, 0x00, 0x0D, 0x02, 0, 0, 0, 4, 0, 0, 0, 1, 0, 0, 0, 0}
	default: // announces more than the 1 MB limit: rejected after the header
		return []byte{0x42, 0x00, 0x78, 0x01, 0x7F, 0xFF, 0xFF, 0xF0}
	}
}

// a message that is not a request: a response message (ignored by the server).
func skipMessage() []byte {
	msg := kmip.ResponseMessage{Header: kmip.ResponseHeader{ProtocolVersion: kmip.V1_4, TimeStamp: time.Unix(0, 0), BatchCount: 0}}
	return ttlv.MarshalTTLV(&msg)
}

type respObs struct {
	ID      int // lower half of the UniqueBatchItemID - 1000, -1 = absent
	Conn    int // upper half of the UniqueBatchItemID: the connection the answered request was sent on
	Echo    string // UniqueIdentifier of the response payload (a successful Activate echoes the request's)
	Status  uint32
	Reason  uint32
	Items   int
	Invalid bool
}

func observeResponse(m *kmip.ResponseMessage) respObs {
	o := respObs{ID: -1, Items: len(m.BatchItem)}
	if len(m.BatchItem) > 0 {
		bi := m.BatchItem[0]
		if len(bi.UniqueBatchItemID) == 4 {
			v := binary.BigEndian.Uint32(bi.UniqueBatchItemID)
			o.ID, o.Conn = int(v&0xFFFF)-1000, int(v>>16)
		}
		if pl, ok := bi.ResponsePayload.(*payloads.ActivateResponsePayload); ok && pl != nil {
			o.Echo = pl.UniqueIdentifier
		}
		o.Status, o.Reason = uint32(bi.ResultStatus), uint32(bi.ResultReason)
		o.Invalid = len(bi.UniqueBatchItemID) == 0 && bi.ResultStatus == kmip.ResultStatusOperationFailed &&
			bi.ResultReason == kmip.ResultReasonInvalidMessage
	}
	return o
}

// does the scripted behaviour make the item a failed one.
func expectedFailed(beh string) bool {
	b, _, _ := strings.Cut(beh, ":")
	switch b {
	case "ok", "sleep", "block":
		return false
	}
	return true
}

// ---------------------------------------------------------------------------------------------
// one connection scenario (srvconn)

type connScen struct {
	Msgs  string `json:"m"`
	Outs  string `json:"h"`
	Rd    int    `json:"rd"` // -1 = all
	Cl    string `json:"cl"`
	Half  bool   `json:"half"`
	HkOK  bool   `json:"hk"`
	Behav []string `json:"behav"` // concrete behaviour of the handler of the i-th request ("r" kinds)
	BadV  int    `json:"badv"`
	Seed  uint64 `json:"seed"` // 0 = no random delays
	Pad   int    `json:"pad"`  // the i-th request is made Pad+37*i bytes bigger
	Coal  bool   `json:"coal"` // all the messages are handed to the transport in ONE write
	Trunc int    `json:"trunc"` // before closing, the client sends the first Trunc bytes of one more request (a truncated message)
	HkShape string `json:"hs"`  // shape of the connect hook's result (hookShapesFail / hookShapesOK); "" = nil when it fails, same otherwise
	// schedule only (not part of the scenario the model sees: the model covers every schedule)
	RelMs     int    `json:"rel"`       // the goroutine held at the director's point is released this long after the client's close
	HoldPoint string `json:"holdpoint"` // every goroutine arriving at this yield point ...
	HoldMs    int    `json:"holdms"`    // ... sleeps this long
}

func (s *connScen) text() string {
	p := []string{}
	m := s.Msgs
	if m == "" {
		m = "-"
	}
	p = append(p, "m="+m)
	if strings.Contains(s.Outs, "w") {
		p = append(p, "h="+s.Outs)
	}
	if s.Rd >= 0 {
		p = append(p, "rd="+strconv.Itoa(s.Rd))
	}
	p = append(p, "cl="+s.Cl)
	if s.Half {
		p = append(p, "half=1")
	}
	if !s.HkOK {
		p = append(p, "hk=fail")
	}
	return strings.Join(p, ",")
}

// replayText: the scenario plus how it was scheduled and filled in (keys the model ignores).
func (s *connScen) replayText() string {
	t := s.text()
	if s.RelMs != 0 {
		t += ",rel=" + strconv.Itoa(s.RelMs)
	}
	if s.HoldPoint != "" {
		t += ",hp=" + s.HoldPoint + ",hm=" + strconv.Itoa(s.HoldMs)
	}
	if s.Seed != 0 {
		t += ",seed=" + strconv.FormatUint(s.Seed, 10)
	}
	if s.BadV != 0 {
		t += ",badv=" + strconv.Itoa(s.BadV)
	}
	if len(s.Behav) > 0 {
		t += ",beh=" + strings.Join(s.Behav, "/")
	}
	if s.Pad != 0 {
		t += ",pad=" + strconv.Itoa(s.Pad)
	}
	if s.Coal {
		t += ",coal=1"
	}
	if s.Trunc != 0 {
		t += ",trunc=" + strconv.Itoa(s.Trunc)
	}
	if s.HkShape != "" {
		t += ",hs=" + s.HkShape
	}
	return t
}

func parseConnScenText(t string) (*connScen, error) {
	s := &connScen{Rd: -1, Cl: "q", HkOK: true}
	for _, kv := range strings.Split(t, ",") {
		k, v, ok := strings.Cut(kv, "=")
		if !ok {
			return nil, errors.New("bad scenario: " + t)
		}
		switch k {
		case "m":
			if v != "-" {
				s.Msgs = v
			}
		case "h":
			if v != "-" {
				s.Outs = v
			}
		case "rd":
			if v != "*" {
				n, err := strconv.Atoi(v)
				if err != nil {
					return nil, err
				}
				s.Rd = n
			}
		case "cl":
			s.Cl = v
		case "half":
			s.Half = v == "1"
		case "hk":
			s.HkOK = v == "ok"
		case "rel":
			s.RelMs, _ = strconv.Atoi(v)
		case "hp":
			s.HoldPoint = v
		case "hm":
			s.HoldMs, _ = strconv.Atoi(v)
		case "seed":
			s.Seed, _ = strconv.ParseUint(v, 10, 64)
		case "badv":
			s.BadV, _ = strconv.Atoi(v)
		case "beh":
			s.Behav = strings.Split(v, "/")
		case "pad":
			s.Pad, _ = strconv.Atoi(v)
		case "coal":
			s.Coal = v == "1"
		case "trunc":
			s.Trunc, _ = strconv.Atoi(v)
		case "hs":
			s.HkShape = v
		default:
			return nil, errors.New("bad scenario key: " + k)
		}
	}
	return s, nil
}

type connObs struct {
	ConnID     int      // the connection's number (upper half of the ids of its requests)
	SentUID    []string // UniqueIdentifier of the k-th decodable request
	Resps      []respObs
	Ended      string
	Connect    int
	Terminate  int
	TermAfter  bool // terminate hook ran after the last handler end
	NotCancel  int
	Running    int  // handlers of this connection still running when it was observed
	ServerEOF  bool // the client read EOF / an error (the server closed) before the client closed
	ClosedByUs bool
	Reached    bool
	Outcome    string
	Starts     int // handlers started on this connection
	Foreign    int // terminate hook runs with a context not derived from the one the connect hook returned
}

// behaviourOf: the handler behaviour of the k-th good request.
func (s *connScen) behaviourOf(k int) string {
	if k < len(s.Outs) && s.Outs[k] == 'w' {
		return "wait"
	}
	if k < len(s.Behav) && s.Behav[k] != "" {
		return s.Behav[k]
	}
	return "ok"
}

// pipelinedBehindWaiting: some request whose handler waits for its context is followed by another
// request (decodable or not) on the same connection, and the client does close completely.
func (s *connScen) pipelinedBehindWaiting() bool {
	if s.Half {
		return false
	}
	good := 0
	for i, k := range s.Msgs {
		if k != 'g' {
			continue
		}
		if s.behaviourOf(good) == "wait" && strings.ContainsAny(s.Msgs[i+1:], "gb") {
			return true
		}
		good++
	}
	return false
}

func runConnScenario(ts *testServer, id int, sc *connScen) (*connObs, error) {
	w := ts.w
	ci := w.info(id)
	ci.hookFail = !sc.HkOK
	ci.hookShape = sc.HkShape
	if strings.HasPrefix(sc.Cl, "p:") {
		ci.point = sc.Cl[2:]
	}
	if sc.Seed != 0 {
		ci.delays = rng.New(sc.Seed)
	}
	ci.holdPt, ci.holdMs = sc.HoldPoint, sc.HoldMs
	cl, err := ts.l.dial(id, 2*time.Second)
	if err != nil {
		return nil, err
	}
	obs := &connObs{ConnID: id}
	for g := 0; g < strings.Count(sc.Msgs, "g"); g++ {
		pad := 0
		if sc.Pad > 0 {
			pad = sc.Pad + 37*g
		}
		obs.SentUID = append(obs.SentUID, requestUID(id, g, sc.behaviourOf(g), pad))
	}
	var mu sync.Mutex
	sentAll := make(chan struct{})
	gotK := make(chan struct{}, 64)
	readerDone := make(chan struct{})
	closed := make(chan struct{})
	var closeOnce sync.Once
	doClose := func() {
		closeOnce.Do(func() {
			mu.Lock()
			obs.ClosedByUs = true
			mu.Unlock()
			if sc.Trunc > 0 {
				// a truncated message: the beginning of a request, then the end of the stream (for the
				// server: a non-encoding error of Recv, like a plain disconnect)
				b := goodRequest(9, "ok")
				tw := make(chan struct{})
				go func() { _, _ = cl.Write(b[:min(sc.Trunc, len(b)-1)]); close(tw) }()
				select {
				case <-tw:
				case <-time.After(3 * time.Millisecond):
				}
			}
			if sc.Half {
				_ = cl.CloseWrite()
			} else {
				_ = cl.Close()
			}
			w.touch()
			close(closed)
		})
	}
	// writer
	go func() {
		good := 0
		var all []byte
		for i, k := range sc.Msgs {
			var b []byte
			switch k {
			case 'g':
				pad := 0
				if sc.Pad > 0 {
					pad = sc.Pad + 37*good
				}
				b = connRequest(id, good, sc.behaviourOf(good), pad)
				good++
			case 'b':
				b = badRequest(sc.BadV + i)
			default:
				b = skipMessage()
			}
			if sc.Coal {
				all = append(all, b...)
				continue
			}
			if _, err := cl.Write(b); err != nil {
				return
			}
			w.touch()
		}
		if sc.Coal && len(all) > 0 {
			if _, err := cl.Write(all); err != nil {
				return
			}
			w.touch()
		}
		close(sentAll)
	}()
	// reader
	go func() {
		defer close(readerDone)
		st := ttlv.NewStream(cl, 1<<20)
		for n := 0; sc.Rd < 0 || n < sc.Rd; n++ {
			var resp kmip.ResponseMessage
			if err := st.Recv(&resp); err != nil {
				mu.Lock()
				if !obs.ClosedByUs {
					obs.ServerEOF = true
				}
				mu.Unlock()
				return
			}
			mu.Lock()
			obs.Resps = append(obs.Resps, observeResponse(&resp))
			mu.Unlock()
			w.touch()
			gotK <- struct{}{}
		}
	}()
	// the client's close
	trigger := make(chan struct{})
	go func() {
		switch {
		case sc.Cl == "any":
			r := rng.New(sc.Seed*977 + uint64(len(sc.Msgs)) + 13)
			time.Sleep(time.Duration(r.Intn(3000)) * time.Microsecond)
			close(trigger)
		case sc.Cl == "sent":
			select {
			case <-sentAll:
				close(trigger)
			case <-closed:
			}
		case strings.HasPrefix(sc.Cl, "w"):
			k, _ := strconv.Atoi(sc.Cl[1:])
			for i := 0; i < k; i++ {
				select {
				case <-gotK:
				case <-closed:
					return
				}
			}
			close(trigger)
		case strings.HasPrefix(sc.Cl, "p:"):
			select {
			case <-ci.reached:
				mu.Lock()
				obs.Reached = true
				mu.Unlock()
				close(trigger)
			case <-closed:
			}
		}
	}()
	quiet := make(chan struct{})
	go func() { w.waitQuiet(quietIdle, 6*time.Second, closed); close(quiet) }()
	select {
	case <-trigger:
	case <-quiet:
	}
	doClose()
	if sc.RelMs > 0 {
		time.Sleep(time.Duration(sc.RelMs) * time.Millisecond)
	}
	close(ci.release) // the held goroutine (if any) goes on now that the client has closed
	return obs, nil
}

// finishConn completes the observation once the goroutines have settled.
func finishConn(w *world, id int, obs *connObs, m, r, wr int) {
	ci := w.info(id)
	ended := ""
	if m == 0 {
		ended += "M"
	}
	if r == 0 {
		ended += "R"
	}
	if wr == 0 {
		ended += "W"
	}
	if ended == "" {
		ended = "-"
	}
	obs.Ended = ended
	obs.Connect, obs.Terminate = int(ci.connectN.Load()), int(ci.terminateN.Load())
	obs.TermAfter = ci.termSeq.Load() >= ci.handlerEnds.Load()
	obs.NotCancel = int(ci.notCancel.Load())
	obs.Running = int(ci.handlers.Load())
	obs.Starts = int(ci.starts.Load())
	obs.Foreign = int(ci.hookForeign.Load())
	inv := 0
	for _, r := range obs.Resps {
		if r.Invalid {
			inv++
		}
	}
	obs.Outcome = fmt.Sprintf("resp=%d inv=%d ended=%s hooks=c%dt%d crash=0", len(obs.Resps), inv, ended, obs.Connect, obs.Terminate)
}

type violOut struct {
	Oracle string `json:"oracle"`
	Key    string `json:"key"`
	Detail string `json:"detail"`
}

// c08Oracle: the property statements on the observation of one connection.
func c08Oracle(sc *connScen, o *connObs) []violOut {
	var vs []violOut
	sent := ""
	if fam, _ := undecFamily(); sc.BadV >= undecBase && len(fam) > 0 {
		// the concrete undecodable message(s) of this script (members of the tree-mutation family)
		for i, k := range sc.Msgs {
			if k == 'b' {
				mb := fam[(sc.BadV+i-undecBase)%len(fam)]
				sent += fmt.Sprintf(" {undecodable request %s = %x}", mb.Name, mb.TTLV)
			}
		}
	}
	add := func(oracle, key, detail string) { vs = append(vs, violOut{oracle, "srv:" + key, detail + sent}) }
	// goroutines of an ended connection. (A client that has only half-closed and does not read keeps
	// the connection: the server waiting to write to it is not "keeping goroutines of an ended
	// connection".)
	clientEnded := !sc.Half || sc.Rd < 0
	if o.Ended != "MRW" && clientEnded {
		shape := "generic"
		if sc.pipelinedBehindWaiting() && o.Ended == "-" && o.Running > 0 {
			// exactly the recorded open finding: nobody is reading the stream (the reader holds the
			// pipelined message, the owner is in the waiting handler), so all three are kept and the
			// handler is never cancelled
			shape = "pipelined-waiting-handler"
		}
		add("keeps-goroutines", "kept-goroutines "+shape, fmt.Sprintf("after the client closed and %v of settling, goroutines still alive (ended=%s, handlers still running: %d)", settleTime, o.Ended, o.Running))
	} else if o.NotCancel > 0 && clientEnded {
		add("keeps-goroutines", "handler-not-cancelled", "a handler waiting for its context was never cancelled although the client had closed")
	}
	// order, uniqueness, echo, status
	good := 0
	firstBad := -1
	for i, k := range sc.Msgs {
		if k == 'b' && firstBad < 0 {
			firstBad = i
		}
	}
	goodBeforeBad := 0
	for i, k := range sc.Msgs {
		if firstBad >= 0 && i >= firstBad {
			break
		}
		if k == 'g' {
			goodBeforeBad++
		}
	}
	inv := 0
	for i, r := range o.Resps {
		if r.Invalid {
			inv++
			if firstBad < 0 {
				add("invalid-message", "invalid-without-cause", "an invalid-message response although every message was decodable")
			} else if good != goodBeforeBad {
				add("order", "invalid-out-of-order", fmt.Sprintf("invalid-message response at position %d, after %d of the %d preceding requests were answered", i, good, goodBeforeBad))
			}
			if i != len(o.Resps)-1 {
				add("invalid-message", "served-after-invalid", "a response follows the invalid-message response")
			}
			continue
		}
		if r.Conn != o.ConnID {
			add("order", "response-of-another-connection", fmt.Sprintf("response %d answers request %d of connection %d: it was received on connection %d", i, r.ID, r.Conn, o.ConnID))
		} else if r.ID != good {
			add("order", "response-order", fmt.Sprintf("response %d answers request %d (expected %d)", i, r.ID, good))
		} else {
			if r.Status == uint32(kmip.ResultStatusSuccess) && good < len(o.SentUID) && r.Echo != o.SentUID[good] {
				add("handler-outcome", "payload-not-of-request", fmt.Sprintf("the successful response to request %d carries the payload of another request (%.40q, sent %.40q)", good, r.Echo, o.SentUID[good]))
			}
			// (which Result Reason a failure is reported with is C09's business, not checked here)
			if failed := expectedFailed(sc.behaviourOf(good)); (r.Status != uint32(kmip.ResultStatusSuccess)) != failed {
				add("handler-outcome", "status-not-outcome", fmt.Sprintf("request %d (%s) answered with status %d", good, sc.behaviourOf(good), r.Status))
			}
			if r.Items != 1 {
				add("handler-outcome", "item-count", fmt.Sprintf("request %d answered with %d items", good, r.Items))
			}
		}
		good++
	}
	if inv > 1 {
		add("invalid-message", "invalid-twice", fmt.Sprintf("%d invalid-message responses", inv))
	}
	total := strings.Count(sc.Msgs, "g")
	if good > total {
		add("order", "response-without-request", fmt.Sprintf("%d responses for %d requests", good, total))
	}
	// completeness on a connection the client keeps open and reads from
	patient := sc.Cl == "q" && sc.Rd < 0 && !strings.Contains(sc.Outs, "w") && sc.HkOK
	if patient {
		want := goodBeforeBad
		if firstBad >= 0 {
			want++
		}
		if len(o.Resps) != want {
			add("answers", "unanswered", fmt.Sprintf("%d responses, %d expected (client waits and reads everything)", len(o.Resps), want))
		}
		if firstBad >= 0 && inv != 1 {
			add("invalid-message", "invalid-not-answered", "an undecodable but correctly framed request on a live connection was not answered with one invalid-message response")
		}
		// the connection is ended by the server after the invalid-message response: the client, which
		// keeps its side open, must see the end of the stream
		if firstBad >= 0 && !o.ServerEOF {
			add("invalid-message", "not-disconnected", "after the invalid-message response the server did not close the connection (the client still had it open when it gave up waiting)")
		}
	}
	if sc.Cl == "q" && sc.Rd < 0 && !sc.HkOK && !o.ServerEOF {
		add("hooks", "not-disconnected", "the connect hook failed but the server did not close the connection")
	}
	// hooks of this connection
	if o.Connect != 1 {
		add("hooks", "connect-count", fmt.Sprintf("connect hook ran %d times", o.Connect))
	}
	wantT := 0
	if sc.HkOK {
		wantT = 1
	}
	if o.Ended == "MRW" && o.Terminate != wantT {
		add("hooks", "terminate-count", fmt.Sprintf("terminate hook ran %d times (connect hook ok=%v, result shape %q)", o.Terminate, sc.HkOK, sc.HkShape))
	}
	if !sc.HkOK && (o.Starts > 0 || len(o.Resps) > 0) {
		add("hooks", "handler-on-refused-connection", fmt.Sprintf("the connect hook failed (result shape %q) but %d requests of the connection reached a handler and %d responses were sent", sc.HkShape, o.Starts, len(o.Resps)))
	}
	if o.Foreign > 0 {
		add("hooks", "terminate-foreign-context", fmt.Sprintf("the terminate hook ran with a context that is not derived from the one the connect hook returned (result shape %q)", sc.HkShape))
	}
	if o.Terminate > 0 && !o.TermAfter {
		add("hooks", "terminate-before-handler-end", "the terminate hook ran before the connection's last handler ended")
	}
	return vs
}

const settleTime = 400 * time.Millisecond

// nothing observed for this long = the server is waiting for the client
const quietIdle = 120 * time.Millisecond

// ---------------------------------------------------------------------------------------------
// jobs (child side)

type ltsJob struct {
	Idx   int         `json:"idx"`
	Sys   string      `json:"sys"` // srvconn | server | iso | tls
	Conns []*connScen `json:"conns,omitempty"`
	Srv   *srvScen    `json:"srv,omitempty"`
	Iso   *isoScen    `json:"iso,omitempty"`
	TLS   *tlsScen    `json:"tls,omitempty"`
}

type ltsRes struct {
	Idx      int        `json:"idx"`
	Outcomes []string   `json:"outcomes"`
	Viol     []violOut  `json:"viol"`
	Error    string     `json:"error,omitempty"`
	Obs      []*connObs `json:"obs,omitempty"`
	Note     string     `json:"note,omitempty"`
	// positive controls
	Points     map[string]int `json:"points,omitempty"`     // yield points seen during the job
	Unresolved int            `json:"unresolved,omitempty"` // … whose object was not one of our connections
	Counts     map[string]int `json:"counts,omitempty"`     // whatever else the job wants counted
}

func (r *ltsRes) count(key string) {
	if r.Counts == nil {
		r.Counts = map[string]int{}
	}
	r.Counts[key]++
}

// takeControls copies the world's yield-point accounting into the result.
func (r *ltsRes) takeControls(w *world) {
	r.Points = w.points()
	r.Unresolved = int(w.unresolved.Load())
	if n := w.strayHooks.Load(); n > 0 {
		// the hooks are paired per connection: a run that belongs to no connection is paired with nothing
		r.Viol = append(r.Viol, violOut{"hooks", "srv:hook-without-connection", fmt.Sprintf("%d runs of the connect / terminate hook with a context that does not carry the connection (kmipserver.RemoteAddr): not the hook of any connection, so paired with nothing", n)})
	}
}

// selfTest is the POSITIVE CONTROL of the observation machinery, run once in every child process
// before its first job: while one connection is being served the goroutine profile must show exactly
// one owner, one reader, one writer and one accept loop (the leak oracles read the profile by function
// name: if the names no longer match, they would see "no goroutine left" for ever), the yield points
// must fire and be attributed to that connection (otherwise the schedule director is inert), and the
// counts must return to zero. A failure makes every job of the child fail loudly.
func selfTest() error {
	ts := newTestServer()
	ts.start()
	defer theWorld.Store(nil)
	cl, err := ts.l.dial(1, 2*time.Second)
	if err != nil {
		return fmt.Errorf("dial: %v", err)
	}
	if _, err := cl.Write(goodRequest(0, "ok")); err != nil {
		return fmt.Errorf("write: %v", err)
	}
	var resp kmip.ResponseMessage
	st := ttlv.NewStream(cl, 1<<20)
	if err := st.Recv(&resp); err != nil {
		return fmt.Errorf("no response: %v", err)
	}
	m, r, w := connGoroutines()
	a := serveGoroutines()
	if m != 1 || r != 1 || w != 1 || a != 1 {
		return fmt.Errorf("goroutine profile of one live connection: handleConn=%d readloop=%d writeloop=%d Serve=%d (expected 1 each): the function names the leak oracles look for no longer match the library", m, r, w, a)
	}
	if ts.w.pointCount("srv.accept.beforeAdd") < 1 || ts.w.pointCount("srv.handleConn.start") < 1 || ts.w.pointCount("srv.read.beforeRx") < 1 ||
		ts.w.pointCount("srv.beforeSend") < 1 || ts.w.pointCount("srv.send.loaded") < 1 {
		return fmt.Errorf("yield points seen while serving one request: %v (expected accept.beforeAdd, handleConn.start, read.beforeRx, beforeSend, send.loaded at least once each)", ts.w.points())
	}
	if u := ts.w.unresolved.Load(); u != 0 {
		return fmt.Errorf("%d yield points passed an object that could not be mapped to the harness connection (fields stream/inner of kmipserver.conn changed?)", u)
	}
	_ = cl.Close()
	if m, r, w := settle(2 * time.Second); m+r+w != 0 {
		return fmt.Errorf("after the client closed: handleConn=%d readloop=%d writeloop=%d", m, r, w)
	}
	if ts.w.pointCount("srv.terminate.afterCancel") == 0 {
		return fmt.Errorf("yield point terminate.afterCancel not seen at the end of a connection")
	}
	done := make(chan struct{})
	go func() { _ = ts.srv.Shutdown(); close(done) }()
	select {
	case <-done:
	case <-time.After(5 * time.Second):
		return errors.New("Shutdown of an idle server did not return")
	}
	select {
	case <-ts.serveC:
	case <-time.After(2 * time.Second):
		return errors.New("Serve did not return after Shutdown")
	}
	if a := serveGoroutines(); a != 0 {
		return fmt.Errorf("Serve goroutines after Shutdown: %d", a)
	}
	return nil
}

// probe: a fresh connection must still be served.
func probe(ts *testServer, id int) error {
	cl, err := ts.l.dial(id, 2*time.Second)
	if err != nil {
		return err
	}
	defer cl.Close()
	errc := make(chan error, 1)
	go func() {
		if _, err := cl.Write(goodRequest(7, "ok")); err != nil {
			errc <- err
			return
		}
		var resp kmip.ResponseMessage
		st := ttlv.NewStream(cl, 1<<20)
		if err := st.Recv(&resp); err != nil {
			errc <- err
			return
		}
		if o := observeResponse(&resp); o.ID != 7 || o.Status != uint32(kmip.ResultStatusSuccess) {
			errc <- fmt.Errorf("probe answered with id %d status %d", o.ID, o.Status)
			return
		}
		errc <- nil
	}()
	select {
	case err := <-errc:
		return err
	case <-time.After(2 * time.Second):
		return errors.New("no answer within 2s")
	}
}

func runConnJob(job *ltsJob) *ltsRes {
	res := &ltsRes{Idx: job.Idx}
	ts := newTestServer()
	ts.start()
	obs := make([]*connObs, len(job.Conns))
	var wg sync.WaitGroup
	var emu sync.Mutex
	for i, sc := range job.Conns {
		wg.Add(1)
		go func() {
			defer wg.Done()
			o, err := runConnScenario(ts, i+1, sc)
			if err != nil {
				emu.Lock()
				res.Error = "dial: " + err.Error()
				emu.Unlock()
				return
			}
			obs[i] = o
		}()
	}
	wg.Wait()
	if res.Error != "" {
		return res
	}
	m, r, w := settle(settleTime)
	for i, sc := range job.Conns {
		gm, gr, gw := m, r, w
		finishConn(ts.w, i+1, obs[i], gm, gr, gw)
		res.Outcomes = append(res.Outcomes, obs[i].Outcome)
		res.Viol = append(res.Viol, c08Oracle(sc, obs[i])...)
	}
	res.Obs = obs
	res.takeControls(ts.w)
	// the server keeps serving
	if err := probe(ts, 99); err != nil {
		res.Viol = append(res.Viol, violOut{"stays-available", "srv:probe-failed", "a new connection is not served after the scenario: " + err.Error()})
	}
	// tear down; a leak must not survive into the next scenario
	done := make(chan struct{})
	go func() { _ = ts.srv.Shutdown(); close(done) }()
	select {
	case <-done:
	case <-time.After(6 * time.Second):
		res.Viol = append(res.Viol, violOut{"stays-available", "srv:shutdown-hangs", "Shutdown did not return within 6s after the scenario"})
	}
	select {
	case err := <-ts.serveC:
		if !errors.Is(err, kmipserver.ErrShutdown) {
			res.Viol = append(res.Viol, violOut{"stays-available", "srv:serve-returned", fmt.Sprintf("Serve returned %v", err)})
		}
	case <-time.After(2 * time.Second):
		res.Viol = append(res.Viol, violOut{"stays-available", "srv:serve-not-returned", "Serve did not return after Shutdown"})
	}
	if m, r, w := settle(2 * time.Second); m+r+w != 0 {
		res.Note = fmt.Sprintf("goroutines left after teardown: M=%d R=%d W=%d", m, r, w)
	}
	return res
}

func childMain() {
	quietSlog()
	kmipserver.VerifYield = verifYieldHook
	in := bufio.NewReader(os.Stdin)
	out := bufio.NewWriter(os.Stdout)
	dec := json.NewDecoder(in)
	control := selfTest()
	for {
		var job ltsJob
		if err := dec.Decode(&job); err != nil {
			break
		}
		fmt.Fprintf(out, "#BEGIN %d\n", job.Idx)
		out.Flush()
		var res *ltsRes
		switch {
		case control != nil:
			res = &ltsRes{Idx: job.Idx, Error: "POSITIVE CONTROL FAILED: " + control.Error()}
		case job.Sys == "server":
			res = runSrvJob(&job)
		case job.Sys == "iso":
			res = runIsoJob(&job)
		case job.Sys == "tls":
			res = runTLSJob(&job)
		default:
			res = runConnJob(&job)
		}
		b, _ := json.Marshal(res)
		out.Write(b)
		out.WriteByte('\n')
		out.Flush()
		if m, r, w := connGoroutines(); m+r+w != 0 {
			// leaked goroutines would be attributed to the following scenarios: start afresh
			// (the parent hands the remaining jobs of the batch to a new child)
			break
		}
	}
	out.Flush()
	os.Exit(0)
}

func init() {
	if os.Getenv("VERIF_LTS_CHILD") == "1" {
		childMain()
	}
}

// ---------------------------------------------------------------------------------------------
// parent side: run jobs in child processes

type jobResult struct {
	res     *ltsRes
	crashed bool
	stderr  string
}

// runJobs distributes the jobs over `par` children; a child that dies is replaced and the job it
// was running is reported as crashed.
func runJobs(jobs []*ltsJob, par int, perJob time.Duration) map[int]*jobResult {
	results := map[int]*jobResult{}
	var mu sync.Mutex
	queue := make(chan *ltsJob, len(jobs))
	for _, j := range jobs {
		queue <- j
	}
	close(queue)
	var wg sync.WaitGroup
	for p := 0; p < par; p++ {
		wg.Add(1)
		go func() {
			defer wg.Done()
			var pending []*ltsJob
			for {
				// take a batch
				batch := pending
				pending = nil
				for len(batch) < 12 {
					j, ok := <-queue
					if !ok {
						break
					}
					batch = append(batch, j)
				}
				if len(batch) == 0 {
					return
				}
				done, crashedIdx, stderr := runChild(batch, perJob)
				mu.Lock()
				for _, r := range done {
					results[r.Idx] = &jobResult{res: r}
				}
				mu.Unlock()
				if crashedIdx >= 0 {
					mu.Lock()
					results[crashedIdx] = &jobResult{crashed: true, stderr: stderr}
					mu.Unlock()
				}
				// jobs of the batch that were not reached are run by the next child
				for _, j := range batch {
					mu.Lock()
					_, ok := results[j.Idx]
					mu.Unlock()
					if !ok {
						pending = append(pending, j)
					}
				}
			}
		}()
	}
	wg.Wait()
	return results
}

func runChild(batch []*ltsJob, perJob time.Duration) (done []*ltsRes, crashedIdx int, stderrText string) {
	crashedIdx = -1
	cmd := exec.Command(os.Args[0])
	cmd.Env = append(os.Environ(), "VERIF_LTS_CHILD=1")
	var in bytes.Buffer
	enc := json.NewEncoder(&in)
	for _, j := range batch {
		_ = enc.Encode(j)
	}
	cmd.Stdin = &in
	var stderr bytes.Buffer
	cmd.Stderr = &stderr
	stdout, err := cmd.StdoutPipe()
	if err != nil {
		return nil, batch[0].Idx, err.Error()
	}
	if err := cmd.Start(); err != nil {
		return nil, batch[0].Idx, err.Error()
	}
	timer := time.AfterFunc(time.Duration(len(batch))*perJob+10*time.Second, func() { _ = cmd.Process.Kill() })
	defer timer.Stop()
	current := -1
	sc := bufio.NewScanner(stdout)
	sc.Buffer(make([]byte, 1<<20), 1<<26)
	for sc.Scan() {
		line := sc.Text()
		if strings.HasPrefix(line, "#BEGIN ") {
			current, _ = strconv.Atoi(strings.TrimPrefix(line, "#BEGIN "))
			continue
		}
		var r ltsRes
		if err := json.Unmarshal([]byte(line), &r); err == nil {
			done = append(done, &r)
			if r.Idx == current {
				current = -1
			}
		}
	}
	werr := cmd.Wait()
	text := stderr.String()
	if werr != nil || strings.Contains(text, "panic:") || strings.Contains(text, "fatal error:") {
		if current < 0 {
			// died between scenarios: blame nothing in particular but report through the first unfinished job
			for _, j := range batch {
				found := false
				for _, r := range done {
					if r.Idx == j.Idx {
						found = true
					}
				}
				if !found {
					current = j.Idx
					break
				}
			}
		}
		if current >= 0 {
			crashedIdx = current
		}
	}
	return done, crashedIdx, text
}

// crashClass extracts the canonical class of a Go crash from the child's stderr.
func crashClass(stderr string) string {
	for _, l := range strings.Split(stderr, "\n") {
		l = strings.TrimSpace(l)
		if strings.HasPrefix(l, "panic:") || strings.HasPrefix(l, "fatal error:") {
			return panicKey(l)
		}
	}
	if strings.TrimSpace(stderr) == "" {
		return "child exited without output (killed on timeout?)"
	}
	return "child failed"
}

func crashFrames(stderr string) string {
	var fr []string
	for _, l := range strings.Split(stderr, "\n") {
		if strings.Contains(l, "kmipserver.") && !strings.HasPrefix(l, "\t") {
			fr = append(fr, strings.TrimSpace(l))
			if len(fr) == 4 {
				break
			}
		}
	}
	return strings.Join(fr, " <- ")
}

// ---------------------------------------------------------------------------------------------
// engine lts.srv

func connJobLine(sc *connScen, outcome string) string {
	return "lts.member srvconn " + sc.text() + " " + outcome
}

func genConnScenarios(ctx *Ctx) [][]*connScen {
	var groups [][]*connScen
	one := func(sc *connScen) { groups = append(groups, []*connScen{sc}) }
	behAt := func(i int) string { return behaviours[i%len(behaviours)] }
	msgSets := []string{"", "g", "gg", "ggg", "b", "gb", "bg", "ggb", "gbg", "s", "sg", "gsg", "bb", "sb"}
	// 1. patient clients: every message set x every behaviour of the first handler
	k := 0
	for _, m := range msgSets {
		n := strings.Count(m, "g")
		reps := 1
		if n > 0 {
			reps = ctx.N(4, len(behaviours))
		}
		for rep := 0; rep < reps; rep++ {
			sc := &connScen{Msgs: m, Rd: -1, Cl: "q", HkOK: true, BadV: k}
			for i := 0; i < n; i++ {
				sc.Behav = append(sc.Behav, behAt(k+i*3))
			}
			k++
			one(sc)
		}
	}
	// 1b. the family of correctly framed but undecodable requests (tree-level mutations of real requests:
	//     structure ends early at every depth, empty, element dropped, extra / repeated element, wrong type,
	//     wrong tag, wrong root): each alone on a patient connection, and - every member in the thorough
	//     tier, one in three otherwise (every kind at least twice) - after a request, and next to a
	//     neighbour connection of the same server that must be served
	if fam, ferr := undecFamily(); ferr != "" {
		ctx.Res.Fail("lts.srv: undecodable-request family: " + ferr)
	} else {
		perKind := map[string]int{}
		for j, mb := range fam {
			one(&connScen{Msgs: "b", Rd: -1, Cl: "q", HkOK: true, BadV: undecBase + j})
			ctx.Res.Count("srv.undecodable." + mb.Kind)
			perKind[mb.Kind]++
			if ctx.Thor || j%3 == 0 || perKind[mb.Kind] <= 2 {
				// (BadV + position of the `b` in the script = the member)
				one(&connScen{Msgs: "gb", Rd: -1, Cl: "q", HkOK: true, BadV: undecBase + j - 1 + len(fam), Behav: []string{behAt(j)}})
				groups = append(groups, []*connScen{
					{Msgs: "b", Rd: -1, Cl: "q", HkOK: true, BadV: undecBase + j},
					{Msgs: "gg", Rd: -1, Cl: "q", HkOK: true, Behav: []string{behAt(j), "ok"}, Seed: uint64(j) | 1},
				})
			}
		}
		for _, kd := range undecKinds() {
			if perKind[kd] == 0 {
				ctx.Res.Fail("lts.srv: undecodable-request family has no member of kind " + kd)
			}
		}
	}
	// 2. the client closes / half-closes at every director point and at the other triggers
	points := []string{"p:connStart", "p:beforeSend", "p:sendLoaded", "p:writeBeforeErr", "p:readBeforeRx", "p:afterCancel", "sent", "w1", "w2", "any", "q"}
	for _, m := range []string{"g", "gg", "gb", "b", "ggg", "bg"} {
		for _, cl := range points {
			for _, half := range []bool{false, true} {
				for _, rd := range []int{-1, 0, 1} {
					if !ctx.Thor && rd == 1 && (half || len(m) < 2) {
						continue
					}
					sc := &connScen{Msgs: m, Rd: rd, Cl: cl, Half: half, HkOK: true, BadV: k}
					for i := 0; i < strings.Count(m, "g"); i++ {
						sc.Behav = append(sc.Behav, behAt(k+i))
					}
					k++
					one(sc)
				}
			}
		}
	}
	// 2b. the same director points with the held goroutine released only a while after the close
	//     (the other goroutines finish their reaction to the close first), and unconditional stalls
	//     of whoever arrives at a yield point
	pts := []string{"connStart", "beforeSend", "sendLoaded", "writeBeforeErr", "readBeforeRx", "afterCancel"}
	for rep := 0; rep < ctx.N(2, 10); rep++ {
		for _, m := range []string{"g", "gg", "gb"} {
			for _, pt := range pts {
				sc := &connScen{Msgs: m, Rd: -1, Cl: "p:" + pt, HkOK: true, BadV: k, RelMs: 4 + rep}
				k++
				one(sc)
				for _, cl := range []string{"sent", "w1", "any"} {
					sc := &connScen{Msgs: m, Rd: rep%2 - 1, Cl: cl, HkOK: true, BadV: k, HoldPoint: pt, HoldMs: 6 + rep, Seed: uint64(rep)}
					k++
					one(sc)
				}
			}
		}
	}
	// 3. failing connect hook
	for _, m := range []string{"", "g", "b"} {
		for _, cl := range []string{"q", "any", "sent"} {
			one(&connScen{Msgs: m, Rd: -1, Cl: cl, HkOK: false})
		}
	}
	// 3b. every shape of the connect hook's result (see hookShapesFail / hookShapesOK): an error refuses the
	//     connection whatever context comes with it; a succeeding hook may return a derived context
	for i, hs := range hookShapesFail {
		for j, m := range []string{"g", "gg", "", "b"} {
			if !ctx.Thor && j >= 2 && (i+j)%2 == 0 {
				continue
			}
			one(&connScen{Msgs: m, Rd: -1, Cl: rng.Pick(ctx.R, []string{"q", "q", "any", "sent"}), HkOK: false, HkShape: hs})
		}
	}
	for _, hs := range hookShapesOK {
		for _, m := range []string{"g", "gg", "gb"} {
			one(&connScen{Msgs: m, Rd: -1, Cl: "q", HkOK: true, HkShape: hs, Behav: []string{behAt(k), behAt(k + 1)}})
			k++
		}
		one(&connScen{Msgs: "g", Outs: "w", Rd: -1, Cl: "sent", HkOK: true, HkShape: hs})
	}
	one(&connScen{Msgs: "", Rd: -1, Cl: "q", HkOK: true, HkShape: "dead"})
	// 4. handlers that wait for the cancellation of their context (each costs up to waitCap)
	waits := []*connScen{
		{Msgs: "g", Outs: "w", Rd: -1, Cl: "sent", HkOK: true},
		{Msgs: "g", Outs: "w", Rd: -1, Cl: "q", HkOK: true},
		{Msgs: "g", Outs: "w", Rd: -1, Cl: "sent", Half: true, HkOK: true},
		{Msgs: "gg", Outs: "rw", Rd: -1, Cl: "w1", HkOK: true},
	}
	if ctx.Thor {
		waits = append(waits,
			&connScen{Msgs: "g", Outs: "w", Rd: 0, Cl: "any", HkOK: true},
			&connScen{Msgs: "sg", Outs: "w", Rd: -1, Cl: "sent", HkOK: true})
	}
	for _, sc := range waits {
		one(sc)
	}
	// the shape in which the current code does not notice the disconnect (see C08.no_stuck)
	one(&connScen{Msgs: "gg", Outs: "w", Rd: -1, Cl: "sent", HkOK: true})
	// 4b. outcomes of a handler whose rendering runs user code that panics (typed nil error with a
	//     value-receiver Error method, returned or used as panic value; Stringer / Error / Unwrap that
	//     panic): "panic with any value" — the item fails, the process and the connection live on
	for i, beh := range poisonBehaviours {
		one(&connScen{Msgs: "g", Rd: -1, Cl: "q", HkOK: true, Behav: []string{beh}})
		if ctx.Thor || i < 2 {
			one(&connScen{Msgs: "ggg", Rd: -1, Cl: "q", HkOK: true, Behav: []string{"ok", beh, "ok"}})
		}
	}
	// 4c. big requests, and several messages arriving in ONE read of the transport (pipelined in one
	//     segment): sizes around the 512-byte initial buffer of Stream.Recv and its growth steps
	pads := []int{0, 300, 444, 470, 600, 1500}
	if ctx.Thor {
		pads = append(pads, 100, 200, 400, 460, 480, 500, 520, 1000, 2000, 5000, 70000)
	}
	for i, pad := range pads {
		for _, m := range []string{"gg", "ggg", "gsg", "ggb"} {
			sc := &connScen{Msgs: m, Rd: -1, Cl: "q", HkOK: true, Pad: pad, Coal: true, BadV: i}
			for q := 0; q < strings.Count(m, "g"); q++ {
				sc.Behav = append(sc.Behav, behAt(k+q))
			}
			k++
			one(sc)
		}
		if pad > 0 {
			one(&connScen{Msgs: "gg", Rd: -1, Cl: "q", HkOK: true, Pad: pad})
		}
	}
	// 4d. truncated messages: part of a header / a header and part of the body, then close or half-close
	for ti, tr := range []int{3, 8, 20, 60} {
		for mi, m := range []string{"", "g", "gg", "gb"} {
			for _, half := range []bool{false, true} {
				for _, cl := range []string{"q", "sent", "w1"} {
					if !ctx.Thor && ((cl == "w1" && half) || (ti+mi)%2 == 1) {
						continue
					}
					sc := &connScen{Msgs: m, Rd: -1, Cl: cl, Half: half, HkOK: true, Trunc: tr, BadV: k}
					for q := 0; q < strings.Count(m, "g"); q++ {
						sc.Behav = append(sc.Behav, behAt(k+q))
					}
					k++
					one(sc)
				}
			}
		}
	}
	// 5. random schedules: random delays at the yield points, random scripts
	r := ctx.R
	for i := ctx.N(120, 1500); i > 0; i-- {
		n := 1 + r.Intn(3)
		var m []byte
		for j := 0; j < n; j++ {
			m = append(m, "ggggbs"[r.Intn(6)])
		}
		sc := &connScen{Msgs: string(m), Rd: -1, Cl: rng.Pick(r, points), Half: r.Chance(1, 4), HkOK: r.Chance(9, 10), BadV: r.Intn(3), Seed: r.U64() | 1}
		if r.Chance(1, 4) {
			sc.Rd = r.Intn(3)
		}
		if r.Chance(1, 5) {
			sc.Coal = true
			sc.Pad = rng.Pick(r, []int{0, 0, 200, 450, 700, 3000})
		}
		if r.Chance(1, 6) {
			sc.Trunc = rng.Pick(r, []int{1, 7, 8, 9, 30})
		}
		for j := 0; j < strings.Count(sc.Msgs, "g"); j++ {
			sc.Behav = append(sc.Behav, rng.Pick(r, behaviours))
		}
		one(sc)
	}
	// 6. several concurrent connections on one server (isolation)
	for i := ctx.N(12, 80); i > 0; i-- {
		n := 2 + r.Intn(ctx.N(3, 7))
		var g []*connScen
		for j := 0; j < n; j++ {
			m := rng.Pick(r, msgSets[1:9])
			sc := &connScen{Msgs: m, Rd: -1, Cl: rng.Pick(r, []string{"q", "sent", "w1", "any"}), HkOK: true, BadV: r.Intn(3), Seed: r.U64() | 1}
			for q := 0; q < strings.Count(m, "g"); q++ {
				sc.Behav = append(sc.Behav, rng.Pick(r, behaviours))
			}
			g = append(g, sc)
		}
		groups = append(groups, g)
	}
	return groups
}

func runLtsSrv(ctx *Ctx) {
	var groups [][]*connScen
	if len(ctx.Replay) > 0 {
		for _, l := range ctx.Replay {
			if !strings.HasPrefix(l, "lts.member srvconn ") {
				continue
			}
			f := strings.Fields(l)
			sc, err := parseConnScenText(f[2])
			if err != nil {
				ctx.Res.Fail("replay: " + err.Error())
				continue
			}
			for rep := 0; rep < 20; rep++ { // a schedule-dependent failure may need several attempts
				c := *sc
				if rep > 0 {
					c.Seed = sc.Seed + uint64(rep)
				}
				groups = append(groups, []*connScen{&c})
			}
		}
	} else {
		groups = genConnScenarios(ctx)
	}
	jobs := make([]*ltsJob, len(groups))
	for i, g := range groups {
		jobs[i] = &ltsJob{Idx: i, Sys: "srvconn", Conns: g}
	}
	// blocked-neighbour and TLS jobs (oracle only)
	var extra []*ltsJob
	if len(ctx.Replay) > 0 {
		extra = replayExtraJobs(ctx.Replay)
	} else {
		for rep := 0; rep < ctx.N(1, 4); rep++ {
			for _, b := range isoBlocks {
				extra = append(extra, &ltsJob{Sys: "iso", Iso: &isoScen{Block: b, N: 2 + rep}})
			}
			// (what connections share per processor is shared only when they happen to meet on one: repeated)
			for q := 0; q < 5; q++ {
				extra = append(extra, &ltsJob{Sys: "iso", Iso: &isoScen{Block: "noread", N: 2 + (rep+q)%3}})
			}
			extra = append(extra, &ltsJob{Sys: "iso", Iso: &isoScen{Block: "handler", N: 2, TLS: true}},
				&ltsJob{Sys: "iso", Iso: &isoScen{Block: "hook", N: 2, TLS: true}})
			for v := 0; v < 2; v++ {
				extra = append(extra, &ltsJob{Sys: "tls", TLS: &tlsScen{Kind: "silent-peer", Var: v}})
			}
			extra = append(extra, &ltsJob{Sys: "tls", TLS: &tlsScen{Kind: "served-shutdown"}})
		}
	}
	for _, j := range extra {
		j.Idx = len(jobs)
		jobs = append(jobs, j)
	}
	results := runJobs(jobs, 8, 8*time.Second)
	seenLine := map[string]bool{}
	points := map[string]int{}
	unresolved := 0
	ctx.Add("# lts.srv positive-control", controlVerdict(results), false, "C08")
	for _, jr := range results {
		if jr != nil && jr.res != nil {
			for k, n := range jr.res.Points {
				points[k] += n
			}
			for k, n := range jr.res.Counts {
				ctx.Res.Distribution[k] += n
			}
			unresolved += jr.res.Unresolved
		}
	}
	for _, j := range extra {
		if j.Sys == "iso" {
			reportExtraJob(ctx, "C08", "iso", j.Iso.text(), results[j.Idx])
		} else {
			reportExtraJob(ctx, "C08", "tls", j.TLS.text(), results[j.Idx])
		}
	}
	for i, g := range groups {
		jr := results[i]
		line0 := connJobLine(g[0], "?")
		ctx.current = line0
		if jr == nil {
			ctx.Res.Fail("no result for job " + line0)
			continue
		}
		if jr.crashed {
			class := crashClass(jr.stderr)
			names := make([]string, len(g))
			poisoned := false
			for j, sc := range g {
				names[j] = sc.text()
				for _, b := range sc.Behav {
					if slices.Contains(poisonBehaviours, b) {
						poisoned = true
						names[j] += ",beh=" + strings.Join(sc.Behav, "/")
					}
				}
			}
			key := "srv:crash " + class
			if poisoned && (strings.Contains(jr.stderr, "kmipserver.handleBatchItemError") || strings.Contains(jr.stderr, "executeItem.func1")) {
				// one finding whatever the value: rendering the handler's error / panic value (its Error,
				// String, Unwrap methods: user code) panics outside any recover
				key = "srv:crash rendering-handler-outcome"
			}
			ctx.Res.Violate(report.Violation{Property: "C08", Oracle: "no-crash", Key: key,
				Detail: "the server process died while running [" + strings.Join(names, " | ") + "]: " + class + " at " + crashFrames(jr.stderr),
				Line:   "lts.member srvconn " + g[0].replayText() + " resp=0 inv=0 ended=- hooks=c1t0 crash=1"})
			ctx.Res.Count("srv.crashed")
			// the model must allow the crash too (it does not, for the current parameters)
			ctx.Add(connJobLine(g[0], "resp=0 inv=0 ended=- hooks=c1t0 crash=1"), "ok in", true, "C08")
			continue
		}
		res := jr.res
		if res.Error != "" {
			ctx.Res.Fail(res.Error + ": " + line0)
			continue
		}
		for _, v := range res.Viol {
			ctx.Res.Violate(report.Violation{Property: "C08", Oracle: v.Oracle, Key: v.Key, Detail: v.Detail + " [" + g[0].text() + "]",
				Line: "lts.member srvconn " + g[0].replayText() + " " + res.Outcomes[0]})
		}
		for j, sc := range g {
			line := connJobLine(sc, res.Outcomes[j])
			if !seenLine[line] {
				seenLine[line] = true
				ctx.Add(line, "ok in", len(sc.Msgs) > 0, "C08")
			}
			ctx.Res.Count("srv.msgs=" + strconv.Itoa(len(sc.Msgs)))
			ctx.Res.Count("srv.cl=" + strings.SplitN(sc.Cl, ":", 2)[0])
			if res.Obs != nil && res.Obs[j] != nil && res.Obs[j].Reached {
				ctx.Res.Count("srv.point-reached=" + sc.Cl)
			}
		}
		ctx.Res.Count("srv.group=" + strconv.Itoa(min(len(g), 9)))
		if res.Note != "" {
			ctx.Res.Count("srv.note:" + res.Note)
		}
	}
	ctx.Res.Count("srv.jobs=" + strconv.Itoa(len(jobs)))
	// positive controls on the schedule director: every yield point must have been seen, every directed
	// point must have held a goroutine at least once, and every object passed must have been ours
	if len(ctx.Replay) == 0 {
		for _, pt := range []string{"srv.accept.beforeAdd", "srv.handleConn.start", "srv.read.beforeRx", "srv.beforeSend", "srv.send.loaded", "srv.write.beforeErr", "srv.terminate.afterCancel"} {
			ctx.Res.Distribution["srv.yield:"+pt] += points[pt]
			if points[pt] == 0 {
				ctx.Res.Fail("yield point " + pt + " was never reached in the whole run: the schedules that depend on it were not explored (hook removed or renamed in kmipserver?)")
			}
		}
		for _, pt := range []string{"connStart", "beforeSend", "sendLoaded", "writeBeforeErr", "readBeforeRx", "afterCancel"} {
			ctx.Res.Distribution["srv.held:"+pt] += points["held:"+pt]
			if points["held:"+pt] == 0 {
				ctx.Res.Fail("the director never held a goroutine at " + pt + ": the directed schedules were not explored")
			}
		}
		for _, k := range []string{"iso.neighbour-served", "iso.live-profile-ok", "iso.blocked-answered", "tls.neighbour-served"} {
			if ctx.Res.Distribution[k] == 0 {
				ctx.Res.Fail("coverage floor: " + k + " = 0")
			}
		}
	}
	if unresolved != 0 {
		ctx.Res.Fail(fmt.Sprintf("%d yield points passed an object that could not be mapped to a harness connection", unresolved))
	}
}

// controlVerdict: did the positive control (selfTest) of every child process pass.
func controlVerdict(results map[int]*jobResult) string {
	for _, jr := range results {
		if jr != nil && jr.res != nil && strings.HasPrefix(jr.res.Error, "POSITIVE CONTROL FAILED") {
			return "failed"
		}
	}
	return "ok"
}

// replayExtraJobs: `# iso block=…,n=…[,tls=1]` and `# tls kind=…,var=…` lines.
func replayExtraJobs(lines []string) []*ltsJob {
	var out []*ltsJob
	for _, l := range lines {
		f := strings.Fields(l)
		if len(f) < 3 || f[0] != "#" {
			continue
		}
		kv := map[string]string{}
		for _, p := range strings.Split(f[2], ",") {
			k, v, _ := strings.Cut(p, "=")
			kv[k] = v
		}
		for rep := 0; rep < 5; rep++ {
			switch f[1] {
			case "iso":
				n, _ := strconv.Atoi(kv["n"])
				out = append(out, &ltsJob{Sys: "iso", Iso: &isoScen{Block: kv["block"], N: max(n, 1), TLS: kv["tls"] == "1"}})
			case "tls":
				v, _ := strconv.Atoi(kv["var"])
				out = append(out, &ltsJob{Sys: "tls", TLS: &tlsScen{Kind: kv["kind"], Var: v}})
			}
		}
	}
	return out
}

// ---------------------------------------------------------------------------------------------
// server scenarios (C16)

type srvScen struct {
	N    int    `json:"n"`
	Kind string `json:"k"`
	Sd   string `json:"sd"`
	Seed uint64 `json:"seed"`
	Hk   string `json:"hk"` // shape of the connect hook's result (hookShapesFail / hookShapesOK); "" = nil when k=f, same otherwise
	// X: the FURTHER calls of Shutdown, one letter each (at most 2; "" = Shutdown is called once), relative to the
	// call made at the directed point sd (the first call):
	//	m  at the same moment as the first call (both started together: they race for the lock)
	//	o  overlapping: as soon as the first call has closed the listener, i.e. while it is draining
	//	d  a random 0..1500 µs after the first call was started (overlapping, or just after it)
	//	s  sequential: once every earlier call has returned and Serve has returned
	X string `json:"x"`
}

// the further calls of Shutdown the harness knows (srvScen.X)
const recallKinds = "mods"

func recallOK(x string) bool {
	if len(x) > 2 {
		return false
	}
	for _, c := range x {
		if !strings.ContainsRune(recallKinds, c) {
			return false
		}
	}
	return true
}

func (s *srvScen) text() string {
	t := fmt.Sprintf("n=%d,k=%s,sd=%s", s.N, s.Kind, s.Sd)
	if s.Hk != "" {
		t += ",hk=" + s.Hk
	}
	if s.X != "" {
		t += ",x=" + s.X
	}
	return t
}

func (s *srvScen) replayText() string { return s.text() + ",seed=" + strconv.FormatUint(s.Seed, 10) }

func parseSrvScenText(t string) (*srvScen, error) {
	s := &srvScen{N: 1, Kind: "i", Sd: "any"}
	for _, kv := range strings.Split(t, ",") {
		k, v, ok := strings.Cut(kv, "=")
		if !ok {
			return nil, errors.New("bad scenario: " + t)
		}
		switch k {
		case "n":
			n, err := strconv.Atoi(v)
			if err != nil {
				return nil, err
			}
			s.N = n
		case "k":
			s.Kind = v
		case "sd":
			s.Sd = v
		case "seed":
			s.Seed, _ = strconv.ParseUint(v, 10, 64)
		case "hk":
			s.Hk = v
		case "x":
			if !recallOK(v) {
				return nil, errors.New("bad scenario: x=" + v)
			}
			s.X = v
		default:
			return nil, errors.New("bad scenario key: " + k)
		}
	}
	return s, nil
}

// one call of Shutdown and what was observed at the moment IT returned
type sdCall struct {
	how        byte // 'p' the call at the directed point, else a letter of srvScen.X
	start, end time.Time
	done       chan struct{}
	ret        bool
	busyAtCall int // handlers running when the call was made
	handlers   int // handlers running at its return
	owners     int // handleConn goroutines alive at its return
	rw         int // readloop / writeloop goroutines alive at its return
	unpaired   int // connections whose connect hook succeeded and whose terminate hook has not run (or ran without) at its return
	drainedAt  bool // the calls before it had all returned when it was made
}

func (c *sdCall) ms() int64 { return c.end.Sub(c.start).Milliseconds() }

func (c *sdCall) name(j, n int) string {
	what := map[byte]string{'p': "at the directed point", 'm': "started together with the first", 'o': "made while the first call was draining (listener just closed)",
		'd': "made 0..1500 µs after the first", 's': "made after the earlier calls and Serve had returned"}[c.how]
	return fmt.Sprintf("call %d of %d of Shutdown (%s)", j+1, n, what)
}

type srvObs struct {
	Ret          bool
	ShutdownMs   int64
	ServeErr     string
	HandlersAtRe int // handlers running at the moment Shutdown returned
	OwnersAtRet  int // handleConn goroutines alive at that moment
	RWAtRet      int // readloop / writeloop goroutines alive at that moment
	Late         bool
	Conns        []string
	Ended        bool
	Resp         int
	Outcome      string
}

// Shutdown's grace period (kmipserver/server.go: time.AfterFunc(3*time.Second, …)); the timing oracles
// are stated relative to it.
const graceMs = 3000

type srvClient struct {
	c       *memConn
	err     error
	mu      sync.Mutex
	resps   []respObs
	eof     bool // the client's read ended (the server closed the connection, or the client did)
	sent    int  // requests written
	behs    []string
	closedS bool // closed by the scenario (kind d)
}

func (cl *srvClient) readAll(w *world) {
	st := ttlv.NewStream(cl.c, 1<<20)
	for {
		var resp kmip.ResponseMessage
		if err := st.Recv(&resp); err != nil {
			cl.mu.Lock()
			cl.eof = true
			cl.mu.Unlock()
			return
		}
		cl.mu.Lock()
		cl.resps = append(cl.resps, observeResponse(&resp))
		cl.mu.Unlock()
		w.touch()
	}
}

func runSrvJob(job *ltsJob) *ltsRes {
	sc := job.Srv
	res := &ltsRes{Idx: job.Idx}
	add := func(oracle, key, detail string) { res.Viol = append(res.Viol, violOut{oracle, "server:" + key, detail}) }
	waitCap = (graceMs + 1500) * time.Millisecond // beyond Shutdown's grace period
	defer func() { waitCap = 1200 * time.Millisecond }()
	ts := newTestServer()
	w := ts.w
	r := rng.New(sc.Seed + 77)
	point := ""
	switch {
	case sc.Sd == "accept1":
		w.acceptHold.Store(1)
	case sc.Sd == "accept2":
		w.acceptHold.Store(2)
	case sc.Sd == "handler":
		w.handlerHold = make(chan struct{})
		w.handlerBegun = make(chan struct{})
	case strings.HasPrefix(sc.Sd, "p:"):
		point = sc.Sd[2:]
	}
	for i := 1; i <= sc.N; i++ {
		ci := w.info(i)
		ci.hookFail = sc.Kind == "f"
		ci.hookShape = sc.Hk
		if sc.Seed != 0 {
			ci.delays = rng.New(sc.Seed + uint64(i))
		}
		if sc.Sd == "hook" {
			ci.hookGate = make(chan struct{})
		}
		if point != "" && i == 1 {
			ci.point = point
		}
	}
	obs := &srvObs{}
	// the calls of Shutdown: calls[0] at the directed point, the others as sc.X says. What the property
	// promises "after shutdown returns" is observed at the return of EACH of them.
	calls := make([]*sdCall, 1+len(sc.X))
	calls[0] = &sdCall{how: 'p', done: make(chan struct{}), drainedAt: true}
	for j := range sc.X {
		calls[j+1] = &sdCall{how: sc.X[j], done: make(chan struct{})}
	}
	shutdownDone := calls[0].done
	serveRet := make(chan struct{})
	var serveErr error
	go func() { serveErr = <-ts.serveC; close(serveRet) }()
	var callMu sync.Mutex
	doCall := func(c *sdCall) {
		c.busyAtCall = int(w.running.Load())
		c.start = time.Now()
		_ = ts.srv.Shutdown()
		// the moment this call of Shutdown returns
		c.handlers = int(w.running.Load())
		w.returned.Store(true)
		for i := 1; i <= sc.N; i++ {
			ci := w.info(i)
			cn, tn := ci.connectN.Load(), ci.terminateN.Load()
			want := int32(0)
			if cn >= 1 && sc.Kind != "f" {
				want = 1
			}
			if tn != want {
				c.unpaired++
			}
		}
		callMu.Lock() // (one goroutine profile at a time)
		m, rr, ww := connGoroutines()
		callMu.Unlock()
		c.owners = m
		c.rw = rr + ww
		c.end = time.Now()
		close(c.done)
	}
	rx := rng.New(sc.Seed + 991)
	launchRecalls := func() {
		for j := 1; j < len(calls); j++ {
			c := calls[j]
			earlier := calls[:j]
			switch c.how {
			case 'm':
				go doCall(c)
			case 'o':
				go func() { <-ts.l.done; doCall(c) }()
			case 'd':
				d := time.Duration(rx.Intn(1500)) * time.Microsecond
				go func() { time.Sleep(d); doCall(c) }()
			default: // 's'
				go func() {
					for _, e := range earlier {
						<-e.done
					}
					select {
					case <-serveRet:
					case <-time.After(2 * time.Second):
					}
					c.drainedAt = true
					doCall(c)
				}()
			}
		}
	}
	var once sync.Once
	doShutdown := func() { launchRecalls(); doCall(calls[0]) }
	callShutdown := func() { once.Do(func() { launchRecalls(); go doCall(calls[0]) }) }
	var spawned atomic.Bool
	if sc.Sd == "spawn" {
		// Shutdown runs between `go srv.handleConn(conn)` of the last connection and the first instruction
		// of that goroutine — the window in which only a registration made by the ACCEPT LOOP (wg.Add before
		// `go`) makes Shutdown wait for the connection. No yield hook can sit there (a hook inside handleConn
		// is already too late: whatever precedes it has run), but the accept loop's next statement is
		// listener.Accept(), which is the harness's: Shutdown is called right there, on the loop's own
		// goroutine, as if the loop had been pre-empted by the caller of Shutdown. The goroutine just created
		// still has to be picked up by a processor (tens of microseconds when another processor has to be
		// woken for it, not before the loop blocks otherwise); a Shutdown that does not have to wait for it
		// is over in a few microseconds (measured: it wins 39 times out of 40 with 16 processors, 40 / 40
		// with 2). With the connection registered by the accept loop, Shutdown waits until the connection
		// has been drained, whoever runs first; the loop's Accept then fails with the closed listener.
		ts.l.onAccept = func(n int) {
			if n == sc.N+1 {
				spawned.Store(true)
				once.Do(doShutdown)
			}
		}
	}
	if sc.Sd == "pre" {
		// Shutdown before Serve: Serve, started once the call has returned, finds a server that has been shut down
		callShutdown()
		select {
		case <-shutdownDone:
			res.count("server.held:pre")
		case <-time.After((graceMs + 4000) * time.Millisecond):
		}
	}
	ts.start()
	if sc.Sd == "start" {
		callShutdown()
		<-shutdownDone
	}
	// clients
	clients := make([]*srvClient, sc.N)
	var cwg sync.WaitGroup
	for i := 0; i < sc.N; i++ {
		clients[i] = &srvClient{}
		cwg.Add(1)
		go func() {
			defer cwg.Done()
			cl := clients[i]
			c, err := ts.l.dial(i+1, 1500*time.Millisecond)
			if err != nil {
				cl.err = err
				return
			}
			cl.c = c
			switch sc.Kind {
			case "r", "d":
				cl.behs = []string{rng.Pick(r, []string{"ok", "sleep:2", "kerr:1", "pstr"})}
			case "p":
				cl.behs = []string{rng.Pick(r, []string{"ok", "sleep:2", "kerr:1"}), rng.Pick(r, []string{"ok", "pstr", "sleep:1"})}
			case "n":
				cl.behs = []string{"ok"}
			case "w":
				cl.behs = []string{"wait"}
			case "f":
				// the client of a refused connection does send a request: it must never reach a handler
				// (the write ends with the server's close)
				cl.behs = []string{"ok"}
			}
			if sc.Kind != "n" {
				go cl.readAll(w)
			}
			if len(cl.behs) > 0 {
				go func() {
					for k, beh := range cl.behs {
						if _, err := c.Write(connRequest(i+1, k, beh, 0)); err != nil {
							return
						}
						cl.mu.Lock()
						cl.sent++
						cl.mu.Unlock()
					}
				}()
			}
			if sc.Kind == "d" {
				go func() {
					time.Sleep(time.Duration(r.Intn(4000)) * time.Microsecond)
					cl.mu.Lock()
					cl.closedS = true
					cl.mu.Unlock()
					_ = c.Close()
				}()
			}
		}()
	}
	// when Shutdown is called
	switch {
	case sc.Sd == "any":
		time.Sleep(time.Duration(r.Intn(5000)) * time.Microsecond)
		callShutdown()
	case sc.Sd == "accept1" || sc.Sd == "accept2":
		select {
		case <-w.acceptReached:
			res.count("server.held:accept")
			switch sc.Seed % 3 {
			case 0:
				callShutdown()
				<-shutdownDone // Shutdown runs to completion while the accept loop is held
			case 1:
				callShutdown()
				time.Sleep(time.Duration(r.Intn(2000)) * time.Microsecond)
			default:
				// the accept loop and Shutdown start at the same moment: registration of the
				// connection (lock, wg.Add, go handleConn and its first statements) races with
				// Shutdown's lock / Wait
				close(w.acceptRelease)
				for spin := r.Intn(400); spin > 0; spin-- {
					runtime.Gosched()
				}
				callShutdown()
			}
		case <-time.After(700 * time.Millisecond):
			callShutdown()
		}
		select {
		case <-w.acceptRelease:
		default:
			close(w.acceptRelease)
		}
	case sc.Sd == "handler":
		select {
		case <-w.handlerBegun:
			res.count("server.held:handler")
		case <-time.After(700 * time.Millisecond):
		}
		callShutdown()
		time.Sleep(2 * time.Millisecond) // Shutdown is now waiting for the handler
		close(w.handlerHold)
	case sc.Sd == "hook":
		// Shutdown arrives while the connection is inside its connect hook
		select {
		case <-w.info(1).hookIn:
			res.count("server.held:hook")
		case <-time.After(700 * time.Millisecond):
		}
		callShutdown()
		time.Sleep(time.Duration(2+r.Intn(3)) * time.Millisecond) // listener closed, receive context cancelled
		for i := 1; i <= sc.N; i++ {
			close(w.info(i).hookGate)
		}
	case point != "":
		// Shutdown arrives while a goroutine of connection 1 is held at the yield point; the goroutine
		// goes on once Shutdown has returned or, when Shutdown has to wait for it, a moment later
		ci := w.info(1)
		select {
		case <-ci.reached:
		case <-time.After(300 * time.Millisecond):
		}
		callShutdown()
		select {
		case <-shutdownDone:
		case <-time.After(time.Duration(15+r.Intn(20)) * time.Millisecond):
		}
		close(ci.release)
	case sc.Sd == "quiet":
		w.waitQuiet(quietIdle, 3*time.Second, nil)
		callShutdown()
	case sc.Sd == "spawn":
		select {
		case <-shutdownDone:
		case <-time.After(1500 * time.Millisecond):
			callShutdown() // the accept loop never came back to Accept (or Shutdown hangs: reported below)
		}
		if spawned.Load() {
			res.count("server.held:spawn")
		}
	}
	hangLimit := time.After((graceMs + 4000) * time.Millisecond)
	obs.Ret = true
	for j, c := range calls {
		select {
		case <-c.done:
			c.ret = true
		case <-hangLimit:
			obs.Ret = false
			key := "shutdown-hangs"
			if j > 0 {
				key += " repeated-call"
			}
			add("shutdown-returns", key, fmt.Sprintf("%s did not return within %d ms", c.name(j, len(calls)), graceMs+4000))
		}
	}
	if calls[0].ret {
		obs.HandlersAtRe, obs.OwnersAtRet, obs.RWAtRet = calls[0].handlers, calls[0].owners, calls[0].rw
		obs.ShutdownMs = calls[0].ms()
	}
	// (for the outcome line: an owner / reader / writer alive at a moment when SOME call had returned)
	anyOwners, anyRW := obs.OwnersAtRet, obs.RWAtRet
	for _, c := range calls[1:] {
		if !c.ret {
			continue
		}
		anyOwners += c.owners
		anyRW += c.rw
		switch {
		case c.drainedAt:
			res.count("server.recall:sequential")
		case !c.start.Before(calls[0].end):
			res.count("server.recall:after")
		case c.busyAtCall > 0:
			res.count("server.recall:overlap-busy")
		default:
			res.count("server.recall:overlap")
		}
	}
	if w.acceptHold.Load() != 0 {
		select {
		case <-w.acceptRelease:
		default:
			close(w.acceptRelease)
		}
	}
	select {
	case <-serveRet:
		if errors.Is(serveErr, kmipserver.ErrShutdown) {
			obs.ServeErr = "shutdown"
		} else {
			obs.ServeErr = fmt.Sprint(serveErr)
		}
	case <-time.After(1500 * time.Millisecond):
		obs.ServeErr = "running"
	}
	cwg.Wait()
	if sc.Kind == "n" {
		// the clients that did not read: is there an end of stream to be read now
		for _, cl := range clients {
			if cl.c != nil {
				go cl.readAll(w)
			}
		}
	}
	m, rr, ww := settle(1500 * time.Millisecond)
	obs.Ended = m+rr+ww == 0
	obs.Late = w.late.Load() || anyOwners > 0
	for i := 1; i <= 2; i++ {
		ci := w.info(i)
		obs.Conns = append(obs.Conns, fmt.Sprintf("c%dt%d", ci.connectN.Load(), ci.terminateN.Load()))
	}
	sort.Strings(obs.Conns)
	b2i := func(b bool) int {
		if b {
			return 1
		}
		return 0
	}
	for _, cl := range clients {
		cl.mu.Lock()
		n := len(cl.resps)
		if sc.Kind == "n" {
			n = 0 // what is read after the end does not count: the client was not reading
		}
		obs.Resp += n
		cl.mu.Unlock()
	}
	obs.Outcome = fmt.Sprintf("ret=%d serve=%s handlers=%d wg=%d conns=%s ended=%d late=%d resp=%d rwlate=%d", b2i(obs.Ret), obs.ServeErr,
		int(w.running.Load()), m, strings.Join(obs.Conns, "."), b2i(obs.Ended), b2i(obs.Late), obs.Resp, b2i(anyRW > 0))
	res.Outcomes = []string{obs.Outcome}
	res.takeControls(w)
	// C16 oracle
	if obs.Ret {
		if obs.ServeErr != "shutdown" {
			add("serve-returns", "serve-return "+obs.ServeErr, "after Shutdown returned, Serve: "+obs.ServeErr)
		}
		if obs.HandlersAtRe != 0 {
			add("no-handler-after", "handler-running-at-return", fmt.Sprintf("%d handlers running when Shutdown returned", obs.HandlersAtRe))
		}
		if obs.OwnersAtRet != 0 {
			add("no-handler-after", "owner-alive-at-return", fmt.Sprintf("%d connection goroutines (handleConn) alive when Shutdown returned", obs.OwnersAtRet))
		}
		if obs.RWAtRet != 0 {
			add("goroutines-end", "rw-alive-at-return", fmt.Sprintf("%d per-connection goroutines (readloop / writeloop) still alive at the moment Shutdown returned (conn.Close has to wait for them before handleConn calls wg.Done)", obs.RWAtRet))
		}
		if w.late.Load() {
			add("no-handler-after", "started-after-return", "a connect hook or a handler started after Shutdown had returned")
		}
		if !obs.Ended {
			add("goroutines-end", "goroutines-left", fmt.Sprintf("connection goroutines left after Shutdown returned and 1.5s: M=%d R=%d W=%d", m, rr, ww))
		}
		limit := int64(1500)
		if sc.Kind == "w" || sc.Kind == "n" {
			limit = graceMs + 1500
			// (only when the handlers were certainly running when Shutdown was called)
			if sc.Kind == "w" && obs.ShutdownMs < graceMs-100 && (sc.Sd == "handler" || sc.Sd == "quiet") && w.info(1).connectN.Load() > 0 &&
				w.info(1).notCancel.Load()+w.info(2).notCancel.Load() == 0 && clients[0].err == nil {
				add("grace", "cancelled-before-grace", fmt.Sprintf("a waiting handler was cancelled %d ms after Shutdown was called (grace period %d ms)", obs.ShutdownMs, graceMs))
			}
		}
		if obs.ShutdownMs > limit {
			add("shutdown-returns", "shutdown-slow", fmt.Sprintf("Shutdown took %d ms", obs.ShutdownMs))
		}
		// a handler that waits for its context IS cancelled once the grace period has expired (it gives up
		// by itself only graceMs+1500 ms after it started)
		if nc := w.info(1).notCancel.Load() + w.info(2).notCancel.Load(); nc > 0 {
			add("grace", "not-cancelled-after-grace", fmt.Sprintf("%d handlers waiting for their context were never cancelled although Shutdown was called and its grace period (%d ms) expired: they gave up by themselves after %d ms", nc, graceMs, graceMs+1500))
		}
		// every connection is closed by the server: served and terminated, or refused
		for i, cl := range clients {
			if cl.c == nil {
				continue
			}
			if !waitFor(func() bool { cl.mu.Lock(); defer cl.mu.Unlock(); return cl.eof }, 500*time.Millisecond) {
				what := "served"
				if w.info(i+1).connectN.Load() == 0 {
					what = "accepted but never served (refused)"
				}
				add("drained", "connection-left-open", fmt.Sprintf("connection %d (%s) is still open on the server side after Shutdown returned", i+1, what))
			}
		}
	}
	// every further call of Shutdown: what holds "after shutdown returns" holds when IT returns, whether or not
	// an earlier call is still draining
	for j, c := range calls {
		if j == 0 || !c.ret {
			continue
		}
		nm := c.name(j, len(calls))
		if c.handlers != 0 {
			add("no-handler-after", "handler-running-at-return repeated-call", fmt.Sprintf("%d handlers running when %s returned, after %d ms", c.handlers, nm, c.ms()))
		}
		if c.owners != 0 {
			add("no-handler-after", "owner-alive-at-return repeated-call", fmt.Sprintf("%d connection goroutines (handleConn) alive when %s returned, after %d ms", c.owners, nm, c.ms()))
		}
		if c.rw != 0 {
			add("goroutines-end", "rw-alive-at-return repeated-call", fmt.Sprintf("%d per-connection goroutines (readloop / writeloop) alive when %s returned, after %d ms", c.rw, nm, c.ms()))
		}
		limit := int64(1500)
		if (sc.Kind == "w" || sc.Kind == "n") && !c.drainedAt {
			limit = graceMs + 1500
		}
		if c.ms() > limit {
			add("shutdown-returns", "shutdown-slow repeated-call", fmt.Sprintf("%s took %d ms", nm, c.ms()))
		}
	}
	for j, c := range calls {
		if c.ret && c.unpaired != 0 {
			key := "hooks-unpaired-at-return"
			if j > 0 {
				key += " repeated-call"
			}
			add("hooks", key, fmt.Sprintf("%d connections whose terminate hook had not run exactly once after a successful connect hook (or had run without one) when %s returned, after %d ms", c.unpaired, c.name(j, len(calls)), c.ms()))
		}
	}
	// in-flight requests: a request whose handler started is answered, in order, unless the client went away
	// or the grace period expired
	for i, cl := range clients {
		ci := w.info(i + 1)
		cl.mu.Lock()
		resps := append([]respObs(nil), cl.resps...)
		closedS := cl.closedS
		cl.mu.Unlock()
		for k, ro := range resps {
			if k >= len(cl.behs) {
				add("answers", "response-without-request", fmt.Sprintf("connection %d: %d responses for %d requests", i+1, len(resps), len(cl.behs)))
				break
			}
			if ro.ID != k || ro.Conn != i+1 || ro.Items != 1 || (ro.Status != uint32(kmip.ResultStatusSuccess)) != expectedFailed(cl.behs[k]) ||
				(ro.Status == uint32(kmip.ResultStatusSuccess) && ro.Echo != requestUID(i+1, k, cl.behs[k], 0)) {
				add("answers", "wrong-response", fmt.Sprintf("connection %d: response %d answers request %d of connection %d with status %d (%d items, payload %.40q), handler outcome %s", i+1, k, ro.ID, ro.Conn, ro.Status, ro.Items, ro.Echo, cl.behs[k]))
			}
		}
		patient := (sc.Kind == "r" || sc.Kind == "p") && !closedS
		if patient && obs.Ret && obs.ShutdownMs < graceMs-100 && ci.notCancel.Load() == 0 {
			if started := int(ci.starts.Load()); len(resps) != started {
				add("drained", "in-flight-unanswered", fmt.Sprintf("connection %d: %d handlers ran to completion (the client stays connected and reads, Shutdown returned after %d ms, before the grace period) but %d responses arrived", i+1, started, obs.ShutdownMs, len(resps)))
			}
		}
	}
	for i := 1; i <= sc.N; i++ {
		ci := w.info(i)
		c, t := ci.connectN.Load(), ci.terminateN.Load()
		if c > 0 && sc.Hk != "" {
			fo := "ok"
			if sc.Kind == "f" {
				fo = "fail"
			}
			res.count("server.hookran:" + fo + ":" + sc.Hk)
		}
		if c > 1 {
			add("hooks", "connect-count", fmt.Sprintf("connect hook ran %d times for one connection", c))
		}
		want := int32(0)
		if c == 1 && sc.Kind != "f" {
			want = 1
		}
		if obs.Ended && t != want {
			add("hooks", "terminate-count", fmt.Sprintf("connection %d: connect hook ran %d times (fails=%v, result shape %q), terminate hook %d times", i, c, sc.Kind == "f", ci.hookShape, t))
		}
		if sc.Kind == "f" {
			// refused: the error of the connect hook ends the connection whatever context came with it
			if n := ci.starts.Load(); n > 0 {
				add("hooks", "handler-on-refused-connection", fmt.Sprintf("connection %d: the connect hook failed (result shape %q) but %d requests of the connection reached a handler", i, ci.hookShape, n))
			}
			cl := clients[i-1]
			cl.mu.Lock()
			nr := len(cl.resps)
			cl.mu.Unlock()
			if nr > 0 {
				add("hooks", "response-on-refused-connection", fmt.Sprintf("connection %d: the connect hook failed (result shape %q) but the client received %d responses", i, ci.hookShape, nr))
			}
		}
		if n := ci.hookForeign.Load(); n > 0 {
			add("hooks", "terminate-foreign-context", fmt.Sprintf("connection %d: the terminate hook ran with a context that is not derived from the one the connect hook returned (result shape %q)", i, ci.hookShape))
		}
		if t > 0 && ci.termSeq.Load() < ci.handlerEnds.Load() {
			add("hooks", "terminate-before-handler-end", "the terminate hook ran before the connection's last handler ended")
		}
		if t > 0 && ci.handlers.Load() > 0 {
			add("hooks", "terminate-before-handler-end", "the terminate hook has run while a handler of the connection is still running")
		}
	}
	for _, cl := range clients {
		if cl.c != nil {
			_ = cl.c.Close()
		}
	}
	settle(time.Second)
	return res
}

// the yield points of a connection at which Shutdown is injected (the accept loop's point is sd=accept<j>)
var srvPoints = []string{"connStart", "beforeSend", "sendLoaded", "readBeforeRx", "afterCancel", "writeBeforeErr"}

func genSrvScenarios(ctx *Ctx) []*srvScen {
	var out []*srvScen
	sds := []string{"any", "start", "accept1", "accept2", "quiet", "handler", "hook"}
	for _, k := range []string{"i", "r", "f", "d", "p"} {
		for _, n := range []int{1, 2} {
			for _, sd := range sds {
				if sd == "accept2" && n < 2 {
					continue
				}
				for rep := 0; rep < ctx.N(3, 12); rep++ {
					out = append(out, &srvScen{N: n, Kind: k, Sd: sd, Seed: uint64(rep)})
				}
			}
		}
	}
	// Shutdown while a goroutine of a connection is held at each of the connection yield points
	for _, pt := range srvPoints {
		kinds := []string{"r", "p", "d"}
		if pt == "connStart" {
			// the connection is registered (accepted, wg.Add done, goroutine started) but has not executed
			// anything yet: Shutdown has to wait for it whatever the client does
			kinds = []string{"i", "r", "f", "p", "d"}
		}
		for _, k := range kinds {
			for _, n := range []int{1, 2} {
				for rep := 0; rep < ctx.N(2, 8); rep++ {
					out = append(out, &srvScen{N: n, Kind: k, Sd: "p:" + pt, Seed: uint64(rep)})
				}
			}
		}
	}
	// Shutdown between `go handleConn` and the first instruction of the new goroutine
	for _, k := range []string{"i", "r", "f", "p"} {
		for _, n := range []int{1, 2} {
			for rep := 0; rep < ctx.N(2, 6); rep++ {
				out = append(out, &srvScen{N: n, Kind: k, Sd: "spawn", Seed: uint64(rep)})
			}
		}
	}
	// every shape of a connect hook's result: a failing hook returning no context, the context it was given,
	// a derived one (value / cancellable / already cancelled), an unrelated one; a succeeding hook returning
	// a derived context (value / cancellable, cancelled by the terminate hook; already cancelled only for
	// connections without requests)
	for _, hk := range hookShapesFail {
		for _, sd := range []string{"any", "quiet", "hook", "accept1", "p:connStart", "spawn"} {
			for _, n := range []int{1, 2} {
				for rep := 0; rep < ctx.N(1, 4); rep++ {
					out = append(out, &srvScen{N: n, Kind: "f", Sd: sd, Hk: hk, Seed: uint64(rep)})
				}
			}
		}
	}
	for _, hk := range hookShapesOK {
		for _, k := range []string{"i", "r", "p", "d"} {
			for _, sd := range []string{"any", "quiet", "handler", "hook"} {
				for rep := 0; rep < ctx.N(1, 4); rep++ {
					out = append(out, &srvScen{N: 1 + (rep+len(out))%2, Kind: k, Sd: sd, Hk: hk, Seed: uint64(rep)})
				}
			}
		}
	}
	for _, sd := range []string{"any", "quiet", "hook", "p:connStart"} {
		for rep := 0; rep < ctx.N(1, 4); rep++ {
			out = append(out, &srvScen{N: 1 + rep%2, Kind: "i", Sd: sd, Hk: "dead", Seed: uint64(rep)})
		}
	}
	// Shutdown before Serve is started
	for _, k := range []string{"i", "r", "f"} {
		for _, n := range []int{1, 2} {
			for rep := 0; rep < ctx.N(1, 3); rep++ {
				out = append(out, &srvScen{N: n, Kind: k, Sd: "pre", Seed: uint64(rep)})
			}
		}
	}
	// Shutdown called SEVERAL times (2-3 calls), overlapping in time or one after the other, the first of them
	// at a directed point with work in flight: every one of the calls has to find, at ITS return, what the
	// property promises after shutdown returns
	recalls := []string{"o", "m", "d", "s", "oo", "os", "ms", "dd"}
	type ksd struct{ k, sd string }
	directed := []ksd{{"r", "handler"}, {"p", "handler"}, {"r", "hook"}, {"i", "hook"}, {"i", "quiet"}, {"r", "quiet"}, {"p", "p:beforeSend"},
		{"r", "p:sendLoaded"}, {"r", "p:readBeforeRx"}, {"p", "p:afterCancel"}, {"r", "p:connStart"}, {"d", "any"}, {"p", "any"}, {"r", "accept1"},
		{"f", "hook"}, {"r", "spawn"}, {"i", "start"}, {"r", "pre"}}
	for xi, x := range recalls {
		for di, d := range directed {
			for rep := 0; rep < ctx.N(1, 4); rep++ {
				out = append(out, &srvScen{N: 1 + (xi+di+rep)%2, Kind: d.k, Sd: d.sd, X: x, Seed: uint64(3*rep + (xi+di)%3)})
			}
		}
	}
	// registration racing with Shutdown (seed % 3 == 2: both released at the same moment)
	for rep := 0; rep < ctx.N(40, 300); rep++ {
		out = append(out, &srvScen{N: 1 + rep%2, Kind: rng.Pick(ctx.R, []string{"i", "r", "r", "f"}), Sd: "accept" + strconv.Itoa(1+rep%2), Seed: uint64(3*rep + 2)})
	}
	// waiting handlers, clients that do not read their response: each takes the 3 s grace period
	ws := []*srvScen{{N: 1, Kind: "w", Sd: "handler"}, {N: 2, Kind: "w", Sd: "quiet"}, {N: 1, Kind: "n", Sd: "quiet"},
		// … while Shutdown is called again during the grace period (which the further calls must neither cut short
		// nor outlive) and once more afterwards
		{N: 1, Kind: "w", Sd: "handler", X: "o"}, {N: 2, Kind: "w", Sd: "quiet", X: "ms"}, {N: 1, Kind: "n", Sd: "quiet", X: "os"}}
	if ctx.Thor {
		ws = append(ws, &srvScen{N: 2, Kind: "w", Sd: "handler", X: "dd", Seed: 1}, &srvScen{N: 1, Kind: "w", Sd: "quiet", X: "oo", Seed: 2},
			&srvScen{N: 2, Kind: "n", Sd: "handler", X: "m", Seed: 3}, &srvScen{N: 1, Kind: "w", Sd: "p:readBeforeRx", X: "os", Seed: 4})
		ws = append(ws, &srvScen{N: 2, Kind: "w", Sd: "handler", Seed: 1}, &srvScen{N: 1, Kind: "w", Sd: "any", Seed: 3},
			&srvScen{N: 2, Kind: "w", Sd: "accept2", Seed: 2}, &srvScen{N: 1, Kind: "w", Sd: "quiet", Seed: 5},
			&srvScen{N: 2, Kind: "n", Sd: "any", Seed: 4}, &srvScen{N: 1, Kind: "n", Sd: "p:sendLoaded", Seed: 6},
			&srvScen{N: 2, Kind: "n", Sd: "handler", Seed: 7}, &srvScen{N: 1, Kind: "w", Sd: "p:readBeforeRx", Seed: 8})
	}
	out = append(out, ws...)
	r := ctx.R
	allSds := append(append([]string{}, sds...), "p:connStart", "p:beforeSend", "p:sendLoaded", "p:readBeforeRx", "p:afterCancel", "pre")
	for i := ctx.N(60, 600); i > 0; i-- {
		sc := &srvScen{N: 1 + r.Intn(2), Kind: rng.Pick(r, []string{"i", "r", "f", "d", "r", "d", "p", "p"}), Sd: rng.Pick(r, allSds), Seed: r.U64()%100000 + 2}
		if sc.Kind == "f" {
			sc.Hk = rng.Pick(r, hookShapesFail)
		} else if r.Intn(2) == 0 {
			sc.Hk = rng.Pick(r, hookShapesOK)
		}
		if r.Intn(3) == 0 {
			sc.X = rng.Pick(r, recalls)
		}
		out = append(out, sc)
	}
	return out
}

func runLtsServer(ctx *Ctx) {
	var scens []*srvScen
	var extra []*ltsJob
	if len(ctx.Replay) > 0 {
		for _, l := range ctx.Replay {
			if !strings.HasPrefix(l, "lts.member server ") {
				continue
			}
			sc, err := parseSrvScenText(strings.Fields(l)[2])
			if err != nil {
				ctx.Res.Fail("replay: " + err.Error())
				continue
			}
			for rep := 0; rep < 20; rep++ {
				c := *sc
				c.Seed = sc.Seed + uint64(rep)
				scens = append(scens, &c)
			}
		}
		extra = replayExtraJobs(ctx.Replay)
	} else {
		scens = genSrvScenarios(ctx)
		for rep := 0; rep < ctx.N(1, 4); rep++ {
			for v := 0; v < 2; v++ {
				extra = append(extra, &ltsJob{Sys: "tls", TLS: &tlsScen{Kind: "stalled-shutdown", Var: v}},
					&ltsJob{Sys: "tls", TLS: &tlsScen{Kind: "silent-peer", Var: v}})
			}
			extra = append(extra, &ltsJob{Sys: "tls", TLS: &tlsScen{Kind: "served-shutdown"}})
		}
	}
	jobs := make([]*ltsJob, len(scens))
	for i, sc := range scens {
		jobs[i] = &ltsJob{Idx: i, Sys: "server", Srv: sc}
	}
	for _, j := range extra {
		j.Idx = len(jobs)
		jobs = append(jobs, j)
	}
	results := runJobs(jobs, ctx.N(6, 8), 12*time.Second)
	seen := map[string]bool{}
	points := map[string]int{}
	unresolved := 0
	ctx.Add("# lts.server positive-control", controlVerdict(results), false, "C16")
	for _, jr := range results {
		if jr != nil && jr.res != nil {
			for k, n := range jr.res.Points {
				points[k] += n
			}
			for k, n := range jr.res.Counts {
				ctx.Res.Distribution[k] += n
			}
			unresolved += jr.res.Unresolved
		}
	}
	for _, j := range extra {
		if j.Sys == "tls" {
			reportExtraJob(ctx, "C16", "tls", j.TLS.text(), results[j.Idx])
		}
	}
	for i, sc := range scens {
		jr := results[i]
		ctx.current = "lts.member server " + sc.text()
		if jr == nil {
			ctx.Res.Fail("no result for " + sc.text())
			continue
		}
		if jr.crashed {
			class := crashClass(jr.stderr)
			ctx.Res.Violate(report.Violation{Property: "C16", Oracle: "no-crash", Key: "server:crash " + class,
				Detail: "the server process died while running " + sc.text() + ": " + class + " at " + crashFrames(jr.stderr),
				Line:   "lts.member server " + sc.text() + " crash"})
			continue
		}
		res := jr.res
		if res.Error != "" {
			ctx.Res.Fail(res.Error + ": " + sc.text())
			continue
		}
		line := "lts.member server " + sc.text() + " " + res.Outcomes[0]
		for _, v := range res.Viol {
			ctx.Res.Violate(report.Violation{Property: "C16", Oracle: v.Oracle, Key: v.Key, Detail: v.Detail + " [" + sc.text() + "]",
				Line: "lts.member server " + sc.replayText() + " " + res.Outcomes[0]})
		}
		if !seen[line] {
			seen[line] = true
			ctx.Add(line, "ok in", sc.N > 1 || sc.Kind != "i", "C16")
		}
		ctx.Res.Count("server.k=" + sc.Kind)
		ctx.Res.Count("server.sd=" + sc.Sd)
		ctx.Res.Count("server.n=" + strconv.Itoa(sc.N))
		if sc.X != "" {
			ctx.Res.Count("server.x=" + sc.X)
		}
	}
	// positive controls on the schedule director
	if len(ctx.Replay) == 0 {
		for _, pt := range []string{"srv.accept.beforeAdd", "srv.handleConn.start", "srv.read.beforeRx", "srv.beforeSend", "srv.send.loaded", "srv.terminate.afterCancel"} {
			ctx.Res.Distribution["server.yield:"+pt] += points[pt]
			if points[pt] == 0 {
				ctx.Res.Fail("yield point " + pt + " was never reached in the whole run (hook removed or renamed in kmipserver?)")
			}
		}
		for _, pt := range srvPoints {
			ctx.Res.Distribution["server.held:"+pt] += points["held:"+pt]
			if points["held:"+pt] == 0 && pt != "writeBeforeErr" {
				ctx.Res.Fail("Shutdown was never injected while a goroutine was held at " + pt)
			}
		}
		floors := []string{"server.held:accept", "server.held:spawn", "server.held:handler", "server.held:hook", "server.held:pre",
			"server.recall:overlap-busy", "server.recall:overlap", "server.recall:sequential", "tls.stalled-in-handshake", "tls.served", "tls.neighbour-served", "server.hookran:ok:dead"}
		for _, hk := range hookShapesFail {
			floors = append(floors, "server.hookran:fail:"+hk)
		}
		for _, hk := range hookShapesOK {
			floors = append(floors, "server.hookran:ok:"+hk)
		}
		for _, k := range floors {
			if ctx.Res.Distribution[k] == 0 {
				ctx.Res.Fail("coverage floor: " + k + " = 0")
			}
		}
	}
	if unresolved != 0 {
		ctx.Res.Fail(fmt.Sprintf("%d yield points passed an object that could not be mapped to a harness connection", unresolved))
	}
}

func init() {
	register(&Engine{
		Name: "lts.srv",
		Rule: "the real kmipserver.Server over unbuffered in-memory connections (half-close capable), in child processes (each child first runs a positive control of the goroutine profile and of the yield points): scripted clients (message sequences over {request, framed-undecodable (3 kinds + the family made by tree-level mutation of real requests: structure ends early at every depth / empty / element dropped / extra / repeated / wrong type / wrong tag / wrong root, each alone, after a request and next to a neighbour connection that must be served), non-request message} up to 3 messages, pipelined, optionally made 300..70000 bytes bigger and handed to the transport in ONE write, optionally followed by a truncated message; reading all / none / one response; closing or half-closing when quiescent, after sending, after k responses, at a random time, or exactly while a server goroutine is held at one of the 6 connection yield points, the first statement of handleConn included; every request names its connection in its id and payload, a successful response must echo both) x handler outcomes {ok, typed error, plain error, panic(string, error, kmipserver.Error, int, Stringer, runtime error, nil), sleep, wait for ctx (slow to return), error / panic values whose Error, String or Unwrap methods panic} x connect hook ok/fails, in every shape of its result (failing: no context / the context it was given / a derived one — with a value, cancellable, already cancelled — / an unrelated one, returned WITH the error; succeeding: the given context or a derived one, already cancelled only without requests): a refused connection starts no handler, gets no response and no terminate hook, the terminate hook gets a context derived from the connect hook's; random scripts with random delays at the yield points; groups of 2-8 concurrent connections; iso jobs: one connection blocked (handler never returns / client does not read / connect hook does not return / goroutine held at a yield point, also behind TLS) while 2-5 neighbours must be accepted and served with the answers to THEIR requests and the blocked connection, once released, with the answer to ITS request (non-reading client: 2 processors, 27 exchanges per neighbour, repeated); tls jobs: a peer that never completes the TLS handshake must not keep others from being served; after each scenario: goroutine profile, hooks, server-side disconnect, liveness probe on a new connection, Shutdown; gates: every yield point reached, every directed point held at least once, neighbours served; distinct = distinct (scenario, outcome) line; nontrivial = at least one client message",
		Run:  runLtsSrv,
	})
	register(&Engine{
		Name: "lts.server",
		Rule: "the real kmipserver.Server (Serve + Shutdown) over in-memory connections in child processes (positive control per child): 1-2 clients of kind {idle, one request, two pipelined requests, failing connect hook (its client sends a request, which must reach no handler), disconnecting at a random time, handler waiting for its context, client that never reads its response} x Shutdown called {at a random time, before any connection, while the accept loop is held between Accept and registration of the 1st/2nd connection (Shutdown completing before / overlapping / released at the same moment as the loop), between `go handleConn` and the first instruction of the new goroutine (Shutdown called from the listener's Accept, on the accept loop's goroutine), when quiescent, while a handler is held running, while a connect hook is held running, while a goroutine of a connection is held at each of the 6 connection yield points (the first statement of handleConn included), before Serve is started (sd=pre)} x further calls of Shutdown (x=, 0-2 of them: together with the first call / as soon as the first call has closed the listener, i.e. while it drains / 0..1500 µs later / after the earlier calls and Serve have returned; also during the 3 s grace period), each call observed at ITS return: no handler running, no owner / reader / writer goroutine alive, hooks paired, duration within the bound; the listener's second Close reports net.ErrClosed; the connect hook's result in every shape (hk=: a failing hook returns, WITH its error, no context / the context it was given / a derived one with a value / a derived cancellable one / a derived already cancelled one / context.Background(); a succeeding hook returns the given context, one derived with a value, a cancellable one that the terminate hook cancels, or — idle clients only — an already cancelled one), each shape required to have run; random delays at all yield points; tls jobs: a peer stalled in the TLS handshake (silent / partial record) while Shutdown is called, and while other peers must be served; observed at the return of Shutdown and after settling: Serve's return, running handlers, alive owner and reader/writer goroutines, hook counts and order, no handler started and no response received on a refused connection, the terminate hook's context derived from the connect hook's, Shutdown duration relative to the 3 s grace period, the responses each client received (compared with the handlers that ran), the server-side close of every connection incl. refused ones; gates: Shutdown injected at least once at every directed point, a further call made while a handler was running / while the first call was running / after it had returned; distinct = distinct (scenario, outcome) line; nontrivial = 2 connections or traffic",
		Run:  runLtsServer,
	})
}
