package main

// Engine `key` (property C14): key material survives registration, transport and extraction.
//   (a) key_rt.go     real keys × every register builder × format masks × versions 1.0..1.4 × {TTLV, XML, JSON}
//                     (+ a real client / in-process server over a pipe for TTLV), oracle: Equal
//   (b) key_access.go accessor totality on enumerated hand-built and transported objects, compared with the
//                     Lean model (`key.access`), a panic = C14 violation
//   (b') key_reuse.go accessor results depend only on the object's present content (object reuse, impl-side oracle)
//   (b") key_fresh.go what is extracted depends only on the message transported, not on what the destination held before
//   (c) this file     lexical forms of big integers / byte strings of the real XML / JSON / TTLV writers and
//                     readers against the model (`key.big`, `key.bigread`, `key.hex`, `key.unhex`)

import (
	"bytes"
	"encoding/hex"
	"fmt"
	"math/big"
	"os"
	"regexp"
	"strconv"
	"strings"
	"time"

	kmip "github.com/ovh/kmip-go"
	"github.com/ovh/kmip-go/payloads"
	"github.com/ovh/kmip-go/ttlv"

	"verifharness/internal/rng"
)

func init() {
	register(&Engine{
		Name: "key",
		Rule: "rt: RSA keys (512/1017/1024/2048 bits built from seeded primes; thorough: 768, 3072, 4096, four primes: modulus top byte 0x80/0xFF/0x01, public exponents 3..2^31-1, D with top bit on a byte boundary, missing precomputation, 3 primes; exponents of 2^31 and more = keys the standard library rejects, lenient) and ECDSA keys on P-224/256/384/521 (d=1, d=n-1, leading zero bytes, top bit set, X or Y with a leading zero byte) and byte strings × every builder of kmipclient/register.go × format masks × versions 1.0..1.4 (EC builders also 2.0/2.1, codec path) × {ttlv,xml,json} codec path + ttlv wire path, oracle Equal incl. CRT values and a PEM re-parse; hand-built objects (compressed EC points, opaque secret data) through Register().Object; regsweep: all 256 format masks per kind of key at 1.2 and 1.3, the chosen format must be admissible (a requested format of the kind, else its default: no assumption on priorities), `key.reg` asks the model about the builder IN the chosen format; retain: key material kept from one message of a connection (Get responses and extracted bytes on the client, registered objects on the server) compared again after later exchanges on the same connection; outside: unsupported key types must be refused without panic, rsa keys with fewer than two primes observed; access: formats 0..22,99 × KeyValue shapes × material slot subsets (quick: none/all/single/all-but-one; thorough: all 256) × contents (every standard library blob kind, garbage, all 128 subsets of the optional RSA integers, curve/scalar/point/compression codes), hand-built and after transport in each encoding; reuse: one payload / object first with one content then with another (key block, key value, plain value, material slots, numbers replaced in place; a second message decoded into the same object or payload in each encoding; material removed at each level; format changed; returned keys overwritten by the caller) - every method without parameters of the payload, the object and its key block (found by reflection) must return what it returns on a new object with the same exported content, and must leave the exported content as it was; lexical: boundary and random big integers and mutated texts; distinct = distinct line",
		Run:  keyRun,
	})
}

var keyXMLValueRe = regexp.MustCompile(`value="([^"]*)"`)

const keyLexTag = 0x420001

func keyXMLBigText(v *big.Int) (string, string) {
	doc, p := guard("MarshalXML", func() []byte { return ttlv.MarshalXML(ttlv.Value{Tag: keyLexTag, Value: new(big.Int).Set(v)}) })
	if p != "" {
		return "", p
	}
	m := keyXMLValueRe.FindSubmatch(doc)
	if m == nil {
		return "", "no value attribute in " + string(doc)
	}
	return string(m[1]), ""
}

func keyJSONBigText(v *big.Int) (string, string) {
	doc, p := guard("MarshalJSON", func() []byte { return ttlv.MarshalJSON(ttlv.Value{Tag: keyLexTag, Value: new(big.Int).Set(v)}) })
	if p != "" {
		return "", p
	}
	s := string(doc)
	i := strings.Index(s, `"value":`)
	j := strings.LastIndex(s, "}")
	if i < 0 || j < i {
		return "", "no value field in " + s
	}
	return strings.TrimSpace(s[i+len(`"value":`) : j]), ""
}

func keyBigOf(v any) *big.Int {
	switch b := v.(type) {
	case *big.Int:
		return b
	case big.Int:
		return &b
	}
	return nil
}

func keyReadBigDoc(enc string, doc []byte) string {
	var val ttlv.Value
	err, p := guard("Unmarshal", func() error {
		if enc == "xml" {
			return ttlv.UnmarshalXML(doc, &val)
		}
		return ttlv.UnmarshalJSON(doc, &val)
	})
	if p != "" {
		return "panic " + panicKey(p)
	}
	if err != nil {
		return "err"
	}
	b := keyBigOf(val.Value)
	if b == nil {
		return "err"
	}
	return "ok " + b.String()
}

func keyXMLBigDoc(text string) []byte {
	return []byte(fmt.Sprintf(`<TTLV tag="0x%06X" type="BigInteger" value="%s"/>`, keyLexTag, text))
}

func keyJSONBigDoc(tok string) []byte {
	return []byte(fmt.Sprintf(`{"tag":"0x%06X","type":"BigInteger","value":%s}`, keyLexTag, tok))
}

func keyASCIIHexTok(s string) string { return hexUp([]byte(s)) }

// keyBigCase: the written form in the three encodings, and the read-back oracle.
func keyBigCase(env *keyEnv, v *big.Int) {
	ctx := env.ctx
	for _, enc := range []string{"xml", "json", "ttlv"} {
		line := fmt.Sprintf("key.big %s %s", enc, v.String())
		if env.seen[line] {
			continue
		}
		env.seen[line] = true
		ctx.current = line
		var text, p, back string
		switch enc {
		case "xml":
			text, p = keyXMLBigText(v)
			if p == "" {
				back = keyReadBigDoc("xml", keyXMLBigDoc(text))
			}
		case "json":
			text, p = keyJSONBigText(v)
			if p == "" {
				back = keyReadBigDoc("json", keyJSONBigDoc(text))
			}
		case "ttlv":
			var b []byte
			b, p = guard("MarshalTTLV", func() []byte { return ttlv.MarshalTTLV(ttlv.Value{Tag: keyLexTag, Value: new(big.Int).Set(v)}) })
			if p == "" {
				var val ttlv.Value
				err, p2 := guard("UnmarshalTTLV", func() error { return ttlv.UnmarshalTTLV(b, &val) })
				switch {
				case p2 != "":
					back = "panic " + p2
				case err != nil || keyBigOf(val.Value) == nil:
					back = "err"
				default:
					back = "ok " + keyBigOf(val.Value).String()
				}
				if len(b) >= 8 {
					text = string(b[8:])
				}
			}
		}
		if p != "" {
			keyViolate(ctx, "big-transport", "key:"+enc+":big-write-panic", "writing the big integer "+v.String()+" panicked: "+p, line)
			ctx.Add(line, "panic "+panicKey(p), true, "C14")
			continue
		}
		if back != "ok "+v.String() {
			keyViolate(ctx, "big-transport", "key:"+enc+":big-roundtrip", fmt.Sprintf("big integer %s written as %q is read back as %s", v, text, back), line)
		}
		ctx.Add(line, "ok "+keyASCIIHexTok(text), v.Sign() != 0, "C14,C04")
		ctx.Res.Count("big." + enc)
	}
}

func keyBigReadCase(env *keyEnv, enc, text string) {
	line := fmt.Sprintf("key.bigread %s %s", enc, keyASCIIHexTok(text))
	if env.seen[line] {
		return
	}
	env.seen[line] = true
	env.ctx.current = line
	var out string
	if enc == "xml" {
		out = keyReadBigDoc("xml", keyXMLBigDoc(text))
	} else {
		out = keyReadBigDoc("json", keyJSONBigDoc(text))
	}
	if strings.HasPrefix(out, "panic") {
		keyViolate(env.ctx, "big-transport", "key:"+enc+":big-read-panic", "reading the big integer text "+strconv.Quote(text)+" panicked", line)
	}
	env.ctx.Add(line, out, true, "C14,C02")
	env.ctx.Res.Count("bigread." + enc + "." + strings.SplitN(out, " ", 2)[0])
}

func keyHexCase(env *keyEnv, b []byte) {
	ctx := env.ctx
	line := "key.hex " + hexUp(b)
	if env.seen[line] {
		return
	}
	env.seen[line] = true
	doc, p := guard("MarshalXML", func() []byte { return ttlv.MarshalXML(ttlv.Value{Tag: keyLexTag, Value: append([]byte{}, b...)}) })
	if p != "" {
		keyViolate(ctx, "bytes-transport", "key:xml:bytes-write-panic", "writing a byte string panicked: "+p, line)
		return
	}
	m := keyXMLValueRe.FindSubmatch(doc)
	if m == nil {
		ctx.Res.Fail("key: no value attribute in " + string(doc))
		return
	}
	text := string(m[1])
	jdoc, _ := guard("MarshalJSON", func() []byte { return ttlv.MarshalJSON(ttlv.Value{Tag: keyLexTag, Value: append([]byte{}, b...)}) })
	if !bytes.Contains(jdoc, []byte(`"`+text+`"`)) {
		keyViolate(ctx, "bytes-transport", "key:json:bytes-form-differs", "the JSON byte string form differs from the XML one: "+string(jdoc), line)
	}
	for _, c := range textCodecs {
		d := doc
		if c.name == "json" {
			d = jdoc
		}
		var val ttlv.Value
		err, p := guard("Unmarshal", func() error { return c.unmarshal(d, &val) })
		got, _ := val.Value.([]byte)
		if p != "" || err != nil || !bytes.Equal(got, b) {
			keyViolate(ctx, "bytes-transport", "key:"+c.name+":bytes-roundtrip", fmt.Sprintf("byte string %s is read back as %s (%v %s)", hexUp(b), hexUp(got), err, p), line)
		}
	}
	// the binary encoding of the same byte string (every length modulo the 8-byte padding)
	{
		tb, p := guard("MarshalTTLV", func() []byte { return ttlv.MarshalTTLV(ttlv.Value{Tag: keyLexTag, Value: append([]byte{}, b...)}) })
		var val ttlv.Value
		var err error
		if p == "" {
			err, p = guard("UnmarshalTTLV", func() error { return ttlv.UnmarshalTTLV(tb, &val) })
		}
		got, _ := val.Value.([]byte)
		if p != "" || err != nil || !bytes.Equal(got, b) {
			keyViolate(ctx, "bytes-transport", "key:ttlv:bytes-roundtrip", fmt.Sprintf("byte string %s is read back as %s (%v %s)", hexUp(b), hexUp(got), err, p), line)
		}
	}
	ctx.Add(line, "ok "+keyASCIIHexTok(text), len(b) > 0, "C14,C04")
	ctx.Res.Count("hex")
}

func keyUnhexCase(env *keyEnv, text string) {
	line := "key.unhex " + keyASCIIHexTok(text)
	if env.seen[line] {
		return
	}
	env.seen[line] = true
	doc := []byte(fmt.Sprintf(`<TTLV tag="0x%06X" type="ByteString" value="%s"/>`, keyLexTag, text))
	var val ttlv.Value
	err, p := guard("UnmarshalXML", func() error { return ttlv.UnmarshalXML(doc, &val) })
	out := "err"
	if p != "" {
		out = "panic " + panicKey(p)
		keyViolate(env.ctx, "bytes-transport", "key:xml:bytes-read-panic", "reading the byte string text "+strconv.Quote(text)+" panicked", line)
	} else if err == nil {
		b, _ := val.Value.([]byte)
		out = "ok " + hexUp(b)
	}
	env.ctx.Add(line, out, true, "C14,C02")
	env.ctx.Res.Count("unhex." + strings.SplitN(out, " ", 2)[0])
}

func keyPow2(e int) *big.Int { return new(big.Int).Lsh(big.NewInt(1), uint(e)) }

func keyRunLexPart(env *keyEnv) {
	ctx := env.ctx
	r := ctx.R.Fork()
	var ints []*big.Int
	addBoth := func(v *big.Int) { ints = append(ints, v, new(big.Int).Neg(v)) }
	for _, e := range []int{0, 1, 7, 8, 15, 16, 31, 32, 51, 52, 53, 55, 56, 63, 64, 71, 72, 127, 128, 255, 256, 511, 512, 520, 521, 1023, 1024} {
		for d := int64(-2); d <= 2; d++ {
			addBoth(new(big.Int).Add(keyPow2(e), big.NewInt(d)))
		}
	}
	ints = append(ints, big.NewInt(0))
	for k := 1; k <= ctx.N(24, 200); k++ {
		addBoth(new(big.Int).SetBytes(r.Bytes(k)))
		lead := r.Bytes(k)
		lead[0] = 0x80
		addBoth(new(big.Int).SetBytes(lead))
		lead = r.Bytes(k + 1)
		lead[0] = 0
		addBoth(new(big.Int).SetBytes(lead))
	}
	// every component of the sample keys
	for _, s := range env.rsas {
		k := s.key
		ints = append(ints, k.N, k.D, big.NewInt(int64(k.E)))
		ints = append(ints, k.Primes...)
		for _, v := range []*big.Int{k.Precomputed.Dp, k.Precomputed.Dq, k.Precomputed.Qinv} {
			if v != nil {
				ints = append(ints, v)
			}
		}
	}
	for _, s := range env.ecs {
		ints = append(ints, s.key.D, s.key.X, s.key.Y)
	}
	for _, v := range ints {
		keyBigCase(env, v)
	}
	// texts handed to the readers: the written forms and lexical mutations of them
	var xmlTexts, jsonToks []string
	for i, v := range ints {
		if i%3 != 0 && v.BitLen() > 80 {
			continue
		}
		if t, p := keyXMLBigText(v); p == "" {
			xmlTexts = append(xmlTexts, t, strings.ToLower(t), "00"+t, "FF"+t, "0000000000000000"+t, t+"0", "0x"+t, " "+t, t[:len(t)/2])
			if len(t) > 2 {
				xmlTexts = append(xmlTexts, t[1:], t[:len(t)-1]+"G")
			}
		}
		if t, p := keyJSONBigText(v); p == "" {
			jsonToks = append(jsonToks, t)
			if strings.HasPrefix(t, `"0x`) {
				h := t[3 : len(t)-1]
				jsonToks = append(jsonToks, `"0x`+strings.ToUpper(h)+`"`, `"0X`+h+`"`, `"`+h+`"`, `"0x00`+h+`"`, `"0xff`+h+`"`, `"0x`+h[1:]+`"`, `"0x`+h+`g"`, `0x`+h)
			} else {
				jsonToks = append(jsonToks, `"`+t+`"`, t+".0", t+"e0", "0"+t, "+"+t, "-"+t, t+"0", `"0x`+t+`"`)
			}
		}
	}
	xmlTexts = append(xmlTexts, "", "0", "00", "80", "FF", "7F", "0080", "FF80", "ff", "zz", "0x00", "-01", "+1", "1 2", "0000000000000000", "FFFFFFFFFFFFFFFF", "8000000000000000")
	jsonToks = append(jsonToks, "", "0", "-0", "1", "-1", "00", "01", "1.5", "1e3", "1E3", "-", "+", "--1", "9223372036854775807", "9223372036854775808",
		"-9223372036854775808", "-9223372036854775809", "4503599627370496", "-4503599627370496", "18446744073709551616", `""`, `"0x"`, `"0x0"`, `"0x00"`,
		`"0x80"`, `"0xFF"`, `"0xff"`, `"0x0080"`, `"00"`, `"x00"`, `"0x 00"`, `"1"`, "true", "null", "[]", "{}", `"`, `"0x00`)
	for _, t := range xmlTexts {
		if strings.ContainsAny(t, "\"<>&'") {
			continue
		}
		keyBigReadCase(env, "xml", t)
	}
	for _, t := range jsonToks {
		if strings.ContainsAny(t, "\\,:") {
			continue
		}
		keyBigReadCase(env, "json", t)
	}
	// byte strings
	for l := 0; l <= ctx.N(40, 300); l++ {
		keyHexCase(env, r.Bytes(l))
	}
	for _, b := range [][]byte{{0}, {0x80}, {0xFF}, {0, 0, 0}, {0x0A, 0xB0}, {0x9F, 0xA0, 0xAF, 0xFA}} {
		keyHexCase(env, b)
	}
	for _, s := range env.byteS {
		keyHexCase(env, s.b)
	}
	for _, t := range []string{"", "0", "00", "0a", "0A", "aB", "ab0", "0g", "0x00", " 00", "00 ", "DEADBEEF", "deadbeef", "dEaDbEeF", "zz", "-1"} {
		keyUnhexCase(env, t)
	}
	for i := 0; i < ctx.N(60, 1000); i++ {
		alphabet := "0123456789abcdefABCDEFgxX -"
		n := r.Intn(12)
		var sb strings.Builder
		for j := 0; j < n; j++ {
			if r.Chance(9, 10) {
				sb.WriteByte(alphabet[r.Intn(22)])
			} else {
				sb.WriteByte(alphabet[r.Intn(len(alphabet))])
			}
		}
		keyUnhexCase(env, sb.String())
		keyBigReadCase(env, "xml", sb.String())
	}
}

func keyRunRtPart(env *keyEnv) {
	ctx := env.ctx
	masksFor := func(kind string) []uint8 {
		switch kind {
		case "rsapriv":
			return []uint8{0, 1, 4, 8, 1 | 4, 1 | 8, 4 | 8, 2, 16 | 32, 1 | 2, 63, 64 | 1, 255}
		case "rsapub":
			return []uint8{0, 1, 2, 8, 1 | 2, 1 | 8, 2 | 8, 4, 16, 63, 128 | 2}
		case "ecpriv":
			return []uint8{0, 1, 4, 16, 1 | 4, 1 | 16, 4 | 16, 8, 2 | 1, 63}
		case "ecpub":
			return []uint8{0, 1, 2, 1 | 2, 4, 8 | 1, 63}
		case "sym":
			return []uint8{0, 1, 32, 1 | 32, 2, 2 | 1, 63}
		}
		return []uint8{0, 1}
	}
	run := func(builders []keyBuilder, orig *keyRtOrig, full bool) {
		heavy := orig.rsa != nil && orig.rsa.N.BitLen() > 600
		for bi, b := range builders {
			typed := bi == 0 || b.name == "RsaPublicKey" || b.name == "EcdsaPublicKey" || b.kind == "sym" || b.kind == "secret" || b.kind == "cert"
			if !typed && !full && !ctx.Thor {
				continue
			}
			for _, kf := range masksFor(b.kind) {
				for vi, ver := range keyVersions {
					// every version for the typed builders and for Transparent requests; otherwise first and last
					transparent := kf&1 != 0
					if !ctx.Thor && !typed && !transparent && vi != 0 && vi != len(keyVersions)-1 {
						continue
					}
					if !ctx.Thor && heavy && !typed && vi%2 == 1 {
						continue
					}
					for _, enc := range keyEncs {
						keyRtCase(env, "codec", enc, ver, b, kf, orig)
					}
					if typed || transparent || ctx.Thor {
						keyRtCase(env, "wire", keyEncs[0], ver, b, kf, orig)
					}
				}
			}
		}
	}
	for _, s := range env.rsas {
		if s.lenient {
			// the typed builders only (the DER/PEM ones need the standard library to produce their input)
			bs := keyRSABuildersTyped(s.key)
			run(bs, &keyRtOrig{label: s.label, rsa: s.key, lenient: true}, true)
			continue
		}
		run(keyRSABuilders(s.key), &keyRtOrig{label: s.label, rsa: s.key, multi: s.multi}, s.label == "r512" || s.label == "r1024-n80" || s.label == "r3primes")
	}
	for _, s := range env.ecs {
		run(keyECBuilders(s.key), &keyRtOrig{label: s.label, ec: s.key, ecCode: s.code}, strings.HasSuffix(s.label, "-dlead00") || strings.HasSuffix(s.label, "-d80"))
	}
	for _, s := range env.byteS {
		run(keyBytesBuilders(s.b), &keyRtOrig{label: "b-" + s.label, bytes: s.b}, true)
	}
	if env.blobs.cert != nil {
		run(keyCertBuilders(env.blobs.cert), &keyRtOrig{label: "cert", cert: env.blobs.cert}, true)
	}
}

func keyReplay(env *keyEnv, l string) {
	ctx := env.ctx
	cmd, arg, _ := strings.Cut(strings.TrimPrefix(l, "#"), " ")
	f := strings.Fields(arg)
	switch cmd {
	case "key.big":
		if len(f) == 2 {
			if v, ok := new(big.Int).SetString(f[1], 10); ok {
				keyBigCase(env, v)
			}
		}
	case "key.bigread":
		if len(f) == 2 && f[0] != "ttlv" {
			t := ""
			if f[1] != "-" {
				b, err := hex.DecodeString(f[1])
				if err != nil {
					return
				}
				t = string(b)
			}
			keyBigReadCase(env, f[0], t)
		}
	case "key.hex":
		b := []byte{}
		if arg != "-" {
			b, _ = hex.DecodeString(arg)
		}
		keyHexCase(env, b)
	case "key.unhex":
		t := ""
		if arg != "-" {
			b, _ := hex.DecodeString(arg)
			t = string(b)
		}
		keyUnhexCase(env, t)
	case "key.access":
		if len(f) < 3 {
			return
		}
		ot, err := strconv.ParseUint(f[1], 10, 32)
		if err != nil {
			return
		}
		o, err := keyParseShObj(env.blobs, f[2:])
		if err != nil {
			ctx.Res.Fail("key replay: " + err.Error())
			return
		}
		pl := &payloads.GetResponsePayload{ObjectType: kmip.ObjectType(ot), UniqueIdentifier: "id", Object: o.toGo()}
		keyAccessCase(env, pl, !strings.HasPrefix(l, "#"), "raw", f[0])
		for _, enc := range keyEncs {
			if back, ok := keyTransportPayload(enc, kmip.V1_4, &payloads.GetResponsePayload{ObjectType: kmip.ObjectType(ot), UniqueIdentifier: "id", Object: o.toGo()}); ok {
				keyAccessCase(env, back, !strings.HasPrefix(l, "#"), enc.name, f[0])
			}
		}
	case "key.reuse":
		keyReuseReplay(env, arg)
	case "key.fresh":
		keyFreshReplay(env, arg)
	case "key.retain":
		// #key.retain <ver> <scenario>
		if len(f) != 2 {
			return
		}
		ver, err := parseVer(f[0])
		if err != nil {
			return
		}
		if items, ok := keyRetainScenarios(env)[f[1]]; ok {
			keyRetainCase(env, ver, f[1], items)
		}
	case "key.rt":
		// #key.rt <path> <enc> <ver> <builder> <kf> <sample>
		if len(f) != 6 {
			return
		}
		ver, err := parseVer(f[2])
		if err != nil {
			return
		}
		kf, err := strconv.ParseUint(f[4], 10, 8)
		if err != nil {
			return
		}
		var enc keyEnc
		for _, e := range keyEncs {
			if e.name == f[1] {
				enc = e
			}
		}
		if enc.name == "" {
			return
		}
		try := func(builders []keyBuilder, orig *keyRtOrig) {
			if orig.label != f[5] {
				return
			}
			for _, b := range builders {
				if b.name == f[3] {
					keyRtCase(env, f[0], enc, ver, b, uint8(kf), orig)
				}
			}
		}
		for _, s := range env.rsas {
			if s.lenient {
				try(keyRSABuildersTyped(s.key), &keyRtOrig{label: s.label, rsa: s.key, lenient: true})
				continue
			}
			try(keyRSABuilders(s.key), &keyRtOrig{label: s.label, rsa: s.key, multi: s.multi})
		}
		for _, s := range env.ecs {
			try(keyECBuilders(s.key), &keyRtOrig{label: s.label, ec: s.key, ecCode: s.code})
		}
		for _, s := range env.byteS {
			try(keyBytesBuilders(s.b), &keyRtOrig{label: "b-" + s.label, bytes: s.b})
		}
		if env.blobs.cert != nil {
			try(keyCertBuilders(env.blobs.cert), &keyRtOrig{label: "cert", cert: env.blobs.cert})
		}
		for _, it := range keyCustomItems(env) {
			try([]keyBuilder{it.b}, it.orig)
		}
	case "key.outside", "key.regsweep":
		// small deterministic parts: run them whole
		if cmd == "key.outside" {
			keyRunOutsidePart(env)
		} else {
			keyRegSweep(env)
		}
	}
}

func keyRun(ctx *Ctx) {
	env := keyNewEnv(ctx)
	if env == nil {
		return
	}
	defer env.close()
	defer keyCheckSnapshots(env)
	if len(ctx.Replay) > 0 {
		for _, l := range ctx.Replay {
			keyReplay(env, l)
		}
		return
	}
	for _, s := range env.rsas {
		ctx.Res.Count("sample.rsa." + s.label)
	}
	ctx.Res.Count(fmt.Sprintf("sample.ec.count=%d", len(env.ecs)))
	t0 := time.Now()
	keyRunLexPart(env)
	t1 := time.Now()
	keyRunAccessPart(env)
	t1b := time.Now()
	keyRunReusePart(env)
	t1c := time.Now()
	keyRunFreshPart(env)
	t2 := time.Now()
	keyRunRtPart(env)
	keyRunCustomPart(env)
	keyRunBeyond14Part(env)
	keyRunOutsidePart(env)
	keyRegSweep(env)
	t3 := time.Now()
	keyRunRetainPart(env)
	fmt.Fprintf(os.Stderr, "key: lex %.1fs access %.1fs reuse %.1fs fresh %.1fs rt %.1fs retain %.1fs\n", t1.Sub(t0).Seconds(), t1b.Sub(t1).Seconds(), t1c.Sub(t1b).Seconds(), t2.Sub(t1c).Seconds(), t3.Sub(t2).Seconds(), time.Since(t3).Seconds())
}

var _ = rng.New
