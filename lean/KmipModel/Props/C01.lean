/-
  C01 — Binary TTLV round trip preserves every KMIP message.

  Model: `KmipModel/Model/Plan.lean` (reflective per-kind plans, the three field wrappers with the shared
  version cell, the 13 hand-written codecs) over the first-order schema regenerated from the Go types
  (`Gen.schema`).  Definitions used by the statements (all in `Lemmas/PlanRoundtrip.lean`):

  * `Schema.unambiguous : Schema → Bool` — the structural condition: for every reflectively decoded
    struct, a field that may emit no item or several (pointer, slice, `omitempty`, version range) does
    not share its tag with any field up to and including the next one that always emits (`firstTags`);
    field kinds are supported; `set-version` fields are plain structures; the hand-written decoders
    agree with the struct tags the reflective encoder uses (`customShapeOK`, constants `T.*`); an object
    never travels under the tags Attribute / ReplaceExisting / KeyWrapType.  Decided for `Gen.schema`
    by the kernel (`gen_unambiguous`).
  * `Conforms S d tag v` — `v` is a well-formed value of dynamic type `d`: `WellFormed` (an executable
    walk `normK` over value and schema: shapes, integer ranges of the Go types, non-nil payloads, dynamic
    types = the ones the decoders reconstruct from context, exactly one member of the union-like
    structs, `ttlv.Value`s carry the tag they are sent under, fields outside the version in force or
    zero under `omitempty` hold the zero value); the items the encoder produces are representable
    (`Item.AllInRange`: tags in (0, 2^24), lengths < 2^32).  No hypothesis about the model's fuel:
    `fuel_suffices` shows the decoder's fuel `bs.length + 3000000` covers every well-formed value.
  * `norm S d tag v` — what the decoder returns: the input with nil byte strings that are emitted
    replaced by empty ones (and, in the two batch-item codecs, empty optional byte strings by nil);
    `norm_content` says that nothing else changes, `norm_idempotent` that it is a normal form.
-/
import KmipModel.Gen.Schema
import KmipModel.Lemmas.PlanRoundtrip18
namespace Kmip.C01
open Kmip

/-- C01 (main). For every schema satisfying the structural condition and every well-formed value of
    any dynamic type under any tag: the encoder succeeds, the decoder returns the (normalised) value,
    and re-encoding the decoded value yields the identical bytes. -/
theorem roundtrip (S : Schema) (hU : S.unambiguous = true) (d tag : Nat) (v : Val)
    (hc : Conforms S d tag v) :
    ∃ bs, marshal S d tag v = .ok bs
      ∧ unmarshal S d tag bs = .ok (norm S d tag v)
      ∧ marshal S d tag (norm S d tag v) = .ok bs := by
  obtain ⟨hwf, hir⟩ := hc
  cases hn : normTop S d tag v with
  | none => rw [hn] at hwf; contradiction
  | some p =>
    obtain ⟨v', w⟩ := p
    obtain ⟨items, he, hm, hm', _, hu⟩ := roundtrip_core S hU d tag v v' w hn hir
    have hnorm : norm S d tag v = v' := by unfold norm; rw [hn]
    refine ⟨encList items, hm, ?_, by rw [hnorm]; exact hm'⟩
    have hd := normTop_dyn_lt hn
    rw [unmarshal_eq, if_neg (by omega), hnorm]
    exact hu _ (depth_bound S hU d tag v v' w items w hn he)

/-- the same with the decoder run under ANY fuel `≥ v.depth` (`unmarshalFuel` is the model's
    `unmarshalWith`; `unmarshal` runs it with `decFuel bs.length = bs.length + 3000000`, which always
    suffices: `depth_bound`). -/
theorem roundtrip_anyfuel (S : Schema) (hU : S.unambiguous = true) (d tag : Nat) (v : Val)
    (hwf : (normTop S d tag v).isSome = true)
    (hir : ∀ items ver', encK S marshalFuel (S.dyn d).kind (topTag S d tag) v none = .ok (items, ver') →
      Item.AllInRange items) :
    ∃ bs, marshal S d tag v = .ok bs
      ∧ (∀ fuel, v.depth ≤ fuel → unmarshalFuel S fuel d tag bs = .ok (norm S d tag v))
      ∧ marshal S d tag (norm S d tag v) = .ok bs := by
  cases hn : normTop S d tag v with
  | none => rw [hn] at hwf; contradiction
  | some p =>
    obtain ⟨v', w⟩ := p
    obtain ⟨items, _, hm, hm', _, hu⟩ := roundtrip_core S hU d tag v v' w hn hir
    have hnorm : norm S d tag v = v' := by unfold norm; rw [hn]
    exact ⟨encList items, hm, by rw [hnorm]; exact hu, by rw [hnorm]; exact hm'⟩

theorem unmarshal_is_unmarshalFuel (S : Schema) (d tag : Nat) (bs : Bytes) :
    unmarshal S d tag bs =
      if S.dyns.length ≤ d then .err .other else unmarshalFuel S (decFuel bs.length) d tag bs :=
  unmarshal_eq S d tag bs

/-- the fuel of the model's decoder is never the limiting factor on the encoding of a well-formed
    value (the Go decoder has no fuel). -/
theorem fuel_suffices (S : Schema) (hU : S.unambiguous = true) (d tag : Nat) (v v' : Val) (w : Option Ver)
    (items : List Item) (w2 : Option Ver) (hwf : normTop S d tag v = some (v', w))
    (he : encK S marshalFuel (S.dyn d).kind (topTag S d tag) v none = .ok (items, w2)) :
    v.depth ≤ decFuel (encList items).length :=
  depth_bound S hU d tag v v' w items w2 hwf he

/-- the decoded value is a normal form. -/
theorem norm_idempotent (S : Schema) (hU : S.unambiguous = true) (d tag : Nat) (v : Val)
    (hc : Conforms S d tag v) : norm S d tag (norm S d tag v) = norm S d tag v := by
  obtain ⟨hwf, hir⟩ := hc
  cases hn : normTop S d tag v with
  | none => rw [hn] at hwf; contradiction
  | some p =>
    obtain ⟨v', w⟩ := p
    obtain ⟨_, _, _, _, hn', _⟩ := roundtrip_core S hU d tag v v' w hn hir
    have hnorm : norm S d tag v = v' := by unfold norm; rw [hn]
    rw [hnorm]; unfold norm; rw [hn']

/-- "equal in content": the normalisation only identifies nil and empty byte strings (`ContentEq` is
    equality of Go values up to `[]byte(nil)` vs `[]byte{}`), for every value. -/
theorem norm_content (S : Schema) (d tag : Nat) (v : Val) : ContentEq v (norm S d tag v) :=
  norm_content_aux S d tag v

/-- "the encoding carries exactly the elements populated": the items of a reflectively encoded struct
    are the concatenation, in declaration order, of one part per field — empty when the field is
    skipped (zero under `omitempty`, or outside its version range: `Field.skip`), otherwise exactly what
    the kind's encoder emits under the field's tag. No other item, no reordering. -/
theorem encode_items_exact (S : Schema) (n : Nat) (fs : List Field) (vs : List Val) (ver : Option Ver)
    (items : List Item) (ver' : Option Ver) (h : encFields S n fs vs ver = .ok (items, ver')) :
    ∃ parts : List (List Item), items = parts.flatten ∧ parts.length = fs.length
      ∧ PartsOK S n fs vs ver parts ver' :=
  encode_items_exact_aux S n fs vs ver items ver' h

/-- every item the encoder emits for a (conforming) value carries the tag it was asked to use, a
    definite kind emits exactly one item, and `decK` reads the items back whatever follows them
    (stage 2/3 in one statement, for every kind, fuel and version cell). -/
theorem roundtrip_kind (S : Schema) (hU : S.unambiguous = true) (n : Nat) (k : Kind) (tag : Nat)
    (v : Val) (ver : Option Ver) (v' : Val) (ver' : Option Ver)
    (h : normK S n k tag v ver = some (v', ver')) :
    ∃ items, encK S n k tag v ver = .ok (items, ver')
      ∧ encK S n k tag v' ver = .ok (items, ver')
      ∧ (∀ it ∈ items, it.tag = tag)
      ∧ (k.definite = true → items.length = 1)
      ∧ (S.decodable k = true → Item.AllInRange items → ∀ (fd : Nat) (rs : List RawItem),
          v.depth ≤ fd → (k.definite = true ∨ htag rs ≠ tag) →
          decK S fd k tag (Cur.of (items.map Item.raw ++ rs)) ver = .ok (v', Cur.of rs, ver')) := by
  obtain ⟨items, he, he', _, ht, hl, _, hd⟩ := (pall S hU n).k k tag v ver v' ver' h
  refine ⟨items, he, he', ht, fun hk => hl (by simp [emitsOne, hk]), ?_⟩
  intro hdec hr fd rs hfd hnc
  refine hd hdec hr fd rs hfd ?_
  rcases hnc with hk | hne
  · exact Or.inl (by simp [emitsOne, hk])
  · exact Or.inr hne

/-! ### The regenerated schema -/

/-- the structural condition holds of the schema extracted from the Go types (kernel evaluation). -/
theorem gen_unambiguous : Gen.schema.unambiguous = true := by decide +kernel

/-- C01 for request messages (`ttlv.MarshalTTLV(&kmip.RequestMessage{…})`, any version 1.0–1.4 carried
    by the header). -/
theorem roundtrip_request (v : Val) (hc : Conforms Gen.schema Gen.requestMessageDyn 0 v) :
    ∃ bs, marshal Gen.schema Gen.requestMessageDyn 0 v = .ok bs
      ∧ unmarshal Gen.schema Gen.requestMessageDyn 0 bs = .ok (norm Gen.schema Gen.requestMessageDyn 0 v)
      ∧ marshal Gen.schema Gen.requestMessageDyn 0 (norm Gen.schema Gen.requestMessageDyn 0 v) = .ok bs :=
  roundtrip Gen.schema gen_unambiguous _ _ v hc

/-- C01 for response messages. -/
theorem roundtrip_response (v : Val) (hc : Conforms Gen.schema Gen.responseMessageDyn 0 v) :
    ∃ bs, marshal Gen.schema Gen.responseMessageDyn 0 v = .ok bs
      ∧ unmarshal Gen.schema Gen.responseMessageDyn 0 bs = .ok (norm Gen.schema Gen.responseMessageDyn 0 v)
      ∧ marshal Gen.schema Gen.responseMessageDyn 0 (norm Gen.schema Gen.responseMessageDyn 0 v) = .ok bs :=
  roundtrip Gen.schema gen_unambiguous _ _ v hc

/-! ### Non-vacuity -/

/-- RequestHeader, protocol version 1.2, BatchCount 2, everything else absent. -/
def exHeader : Val := .struct [
  .struct [.int 1, .int 2], .int 0, .text [], .text [], .ptr none, .ptr none, .list [], .ptr none,
  .int 0, .ptr none, .ptr none, .int 2]

/-- a Get request (operation 0x0A) for "id", with UniqueBatchItemID 0x01. -/
def exGet : Val := .struct [.int 0xA, .bytes (some [1]),
  .iface (some (13, .ptr (some (.struct [.text [0x69, 0x64], .int 0, .int 0, .int 0, .ptr none])))),
  .ptr none]

/-- an unknown operation (0x99) whose payload is kept as an opaque structure. -/
def exUnknown : Val := .struct [.int 0x99, .bytes none,
  .iface (some (57, .ptr (some (.struct [.anyStruct [Item.int 0x540001 7, Item.text 0x540002 [0x78]]])))),
  .ptr none]

def exMsg : Val := .ptr (some (.struct [exHeader, .list [exGet, exUnknown]]))

/-- a response: header 1.4 with a time stamp, one Get response item carrying a symmetric key with a
    wrapped (byte string) key value, result status Success. -/
def exResp : Val := .ptr (some (.struct [
  .struct [.struct [.int 1, .int 4], .int 1700000000, .ptr none, .list [], .text [0x63], .text [], .int 1],
  .list [.struct [.int 0xA, .bytes (some [1]), .int 0, .int 0, .text [], .bytes none,
    .iface (some (14, .ptr (some (.struct [.int 2, .text [0x69, 0x64],
      .iface (some (59, .ptr (some (.struct [
        .struct [.int 1, .int 0, .ptr (some (.struct [.ptr (some (.bytes (some [1, 2, 3]))), .ptr none])),
          .int 3, .int 256, .ptr none]]))))])))),
    .ptr none]]]))

set_option maxRecDepth 100000 in
theorem exMsg_conforms : Conforms Gen.schema Gen.requestMessageDyn 0 exMsg :=
  conforms_of_checks _ _ _ _ (by decide +kernel) (by decide +kernel)

set_option maxRecDepth 100000 in
theorem exResp_conforms : Conforms Gen.schema Gen.responseMessageDyn 0 exResp :=
  conforms_of_checks _ _ _ _ (by decide +kernel) (by decide +kernel)

/-- the hypotheses of `roundtrip_request` are satisfiable by a non-trivial message… -/
example : ∃ bs, marshal Gen.schema Gen.requestMessageDyn 0 exMsg = .ok bs
    ∧ unmarshal Gen.schema Gen.requestMessageDyn 0 bs = .ok (norm Gen.schema Gen.requestMessageDyn 0 exMsg)
    ∧ marshal Gen.schema Gen.requestMessageDyn 0 (norm Gen.schema Gen.requestMessageDyn 0 exMsg) = .ok bs :=
  roundtrip_request exMsg exMsg_conforms

example : ∃ bs, marshal Gen.schema Gen.responseMessageDyn 0 exResp = .ok bs
    ∧ unmarshal Gen.schema Gen.responseMessageDyn 0 bs = .ok (norm Gen.schema Gen.responseMessageDyn 0 exResp)
    ∧ marshal Gen.schema Gen.responseMessageDyn 0 (norm Gen.schema Gen.responseMessageDyn 0 exResp) = .ok bs :=
  roundtrip_response exResp exResp_conforms

/-- …and the model really evaluates on it (kernel evaluation, no `native_decide`): 200 bytes. -/
def resLen (r : Res Bytes) : Nat := match r with | .ok bs => bs.length | _ => 0
def resOk {α : Type} (r : Res α) : Bool := match r with | .ok _ => true | _ => false

set_option maxRecDepth 100000 in
example : resLen (marshal Gen.schema Gen.requestMessageDyn 0 exMsg) = 200 := by decide +kernel

set_option maxRecDepth 100000 in
example : resOk (match marshal Gen.schema Gen.requestMessageDyn 0 exMsg with
    | .ok bs => unmarshal Gen.schema Gen.requestMessageDyn 0 bs
    | _ => .err .other) = true := by decide +kernel

/-- the normalisation is visible on the example: the nil UniqueBatchItemID of the second item stays
    nil, nothing else changes (here `norm` is the identity). -/
example : ContentEq exMsg (norm Gen.schema Gen.requestMessageDyn 0 exMsg) := norm_content _ _ _ _

/- a value that is NOT well formed: a version-1.4 field (ClientCorrelationValue) populated in a
    1.2 header — the encoder drops it by design (C05), so it is excluded from the round trip. -/
set_option maxRecDepth 100000 in
example : (normTop Gen.schema Gen.requestMessageDyn 0 (.ptr (some (.struct [
    .struct [.struct [.int 1, .int 2], .int 0, .text [0x63], .text [], .ptr none, .ptr none, .list [],
      .ptr none, .int 0, .ptr none, .ptr none, .int 0], .list []])))).isSome = false := by decide +kernel

end Kmip.C01
