/-
  Assembly of the certificate obligations of the client transition systems (`CliConn` with the current
  parameters, and `CliDrain`) from their parts, and the resulting invariants.
-/
import KmipModel.Lemmas.CliCertCur0
import KmipModel.Lemmas.CliCertCur1
import KmipModel.Lemmas.CliCertCur2
import KmipModel.Lemmas.CliCertCur3
import KmipModel.Lemmas.CliCertCur4
import KmipModel.Lemmas.CliCertCur5
import KmipModel.Lemmas.CliCertCur6
import KmipModel.Lemmas.CliCertCur7
import KmipModel.Lemmas.CliCertDrain
import KmipModel.Lemmas.CliDrainLemmas
namespace Kmip.CliCert
open Kmip.CliLts Kmip.CliConn Kmip.Gen.CertCliConn

/-- the certificate of the `current` system contains the initial state and is closed under `step`. -/
theorem current_closed : closedUnder (sys current) codec certCurrent := by
  refine ⟨by decide +kernel, ?_⟩
  intro q hq
  simp only [certCurrent, List.mem_cons, List.mem_nil_iff, or_false] at hq
  rcases hq with rfl | rfl | rfl | rfl | rfl | rfl | rfl | rfl | rfl | rfl | rfl | rfl | rfl | rfl | rfl | rfl
  · exact cuClosed0
  · exact cuClosed1
  · exact cuClosed2
  · exact cuClosed3
  · exact cuClosed4
  · exact cuClosed5
  · exact cuClosed6
  · exact cuClosed7
  · exact cuClosed8
  · exact cuClosed9
  · exact cuClosed10
  · exact cuClosed11
  · exact cuClosed12
  · exact cuClosed13
  · exact cuClosed14
  · exact cuClosed15

/-- no state of the certificate is bad. -/
theorem current_safe : safeOn codec (bad current) certCurrent := by
  intro q hq
  simp only [certCurrent, List.mem_cons, List.mem_nil_iff, or_false] at hq
  rcases hq with rfl | rfl | rfl | rfl | rfl | rfl | rfl | rfl | rfl | rfl | rfl | rfl | rfl | rfl | rfl | rfl
  · exact cuSafe0
  · exact cuSafe1
  · exact cuSafe2
  · exact cuSafe3
  · exact cuSafe4
  · exact cuSafe5
  · exact cuSafe6
  · exact cuSafe7
  · exact cuSafe8
  · exact cuSafe9
  · exact cuSafe10
  · exact cuSafe11
  · exact cuSafe12
  · exact cuSafe13
  · exact cuSafe14
  · exact cuSafe15

/-- the certificate of the let-go connection system. -/
theorem drain_closed : closedUnder (CliDrain.sys current) CliDrain.codec certDrain := by
  refine ⟨by decide +kernel, ?_⟩
  intro q hq
  simp only [certDrain, List.mem_cons, List.mem_nil_iff, or_false] at hq
  subst hq
  exact drClosed0

theorem drain_safe : safeOn CliDrain.codec (CliDrain.bad current) certDrain := by
  intro q hq
  simp only [certDrain, List.mem_cons, List.mem_nil_iff, or_false] at hq
  subst hq
  exact drSafe0

/-- the invariant: no reachable state of the current system is bad. -/
theorem current_inv {s : St} (h : Reachable (sys current) s) : bad current s = false :=
  safe_of_cert current_closed current_safe h

/-- what `bad p s = false` says, predicate by predicate. -/
structure Good (p : Params) (s : St) : Prop where
  stale : badStale s = false
  reuse : badReuse s = false
  overflow : badOverflow s = false
  panic : badPanic s = false
  tx : badTx p s = false
  afterClose : badAfterClose s = false
  recover : badRecover s = false
  hang : badHang p s = false
  handoff : badHandoff s = false
  stuck : badStuck p s = false
  raced : s.raced = false
  colour : badColour s = false
  blocked : badCleanBlocked p s = false
  measure : badMeasure p s = false

theorem bad_false {p : Params} {s : St} (h : bad p s = false) : Good p s := by
  simp only [bad, Bool.or_eq_false_iff] at h
  obtain ⟨⟨⟨⟨⟨⟨⟨⟨⟨⟨⟨⟨⟨h1, h2⟩, h3⟩, h4⟩, h5⟩, h6⟩, h7⟩, h8⟩, h9⟩, h10⟩, h11⟩, h12⟩, h13⟩, h14⟩ := h
  exact ⟨h1, h2, h3, h4, h5, h6, h7, h8, h9, h10, h11, h12, h13, h14⟩

/-- every reachable state of the current system is good. -/
theorem current_good {s : St} (h : Reachable (sys current) s) : Good current s :=
  bad_false (current_inv h)

/-- no reachable state of a let-go connection is bad. -/
theorem drain_inv {d : Option St} (h : Reachable (CliDrain.sys current) d) : CliDrain.bad current d = false :=
  safe_of_cert drain_closed drain_safe h

end Kmip.CliCert
